import SuxModel.BitFieldVec.LemmasOps
/-!
# `reset`, `PartialEq`, constructors and `from_slice` of `BitFieldVec` (C05 / C14)
-/
namespace Sux.BFV

theorem div_lt_iff_mul {W : Nat} (hW : 0 < W) (k q : Nat) : k / W < q ↔ k < W * q := by
  rw [Nat.div_lt_iff_lt_mul hW, Nat.mul_comm]

theorem WordsOK_of_getD {W : Nat} {ws : Array Nat} (h : ∀ i, ws.getD i 0 < 2 ^ W) : WordsOK W ws := by
  intro i hi
  have := h i
  rw [getD_of_lt _ _ hi] at this
  exact this

theorem getD_mapIdx_zero (ws : Array Nat) (full i : Nat) :
    (ws.mapIdx (fun i w => if i < full then 0 else w)).getD i 0
      = if i < full then 0 else ws.getD i 0 := by
  rw [getD_eq_getElem?_getD, getD_eq_getElem?_getD, Array.getElem?_mapIdx]
  cases ws[i]? <;> simp

/-! ## `reset` -/

/-- `reset` zeroes exactly the bits below `len * bw` (C05: all values become 0; C14: nothing at or
beyond `len * bw` changes) -/
theorem reset_ok {W : Nat} (hW : 0 < W) (s : St) (h : s.WInv W) :
    ∃ s', reset W s = .ok s' ∧ s'.len = s.len ∧ s'.bw = s.bw ∧ s'.words.size = s.words.size ∧
      WordsOK W s'.words ∧
      ∀ k, bitAt W s'.words k = if k < s.len * s.bw then false else bitAt W s.words k := by
  obtain ⟨hbw, hlen, h1, hok⟩ := h
  unfold reset
  simp only
  generalize s.len * s.bw = B at *
  have hfull : B / W ≤ s.words.size := Nat.div_le_of_le_mul hlen
  rw [if_neg (by omega)]
  have hd := div_mod_decomp hW B
  have hok1 : WordsOK W (s.words.mapIdx (fun i w => if i < B / W then 0 else w)) := by
    apply WordsOK_of_getD
    intro i
    rw [getD_mapIdx_zero]
    split
    · exact Nat.two_pow_pos W
    · exact getD_lt hok i
  by_cases hr : B % W = 0
  · have : (B % W != 0) = false := by simp [hr]
    rw [this]
    simp only [Bool.false_eq_true, if_false]
    refine ⟨_, rfl, rfl, rfl, by simp, hok1, ?_⟩
    intro k
    show bitAt W (s.words.mapIdx _) k = _
    unfold bitAt
    rw [getD_mapIdx_zero]
    by_cases hk : k / W < B / W
    · rw [if_pos hk, if_pos (by have := (div_lt_iff_mul hW k (B / W)).1 hk; omega)]
      simp
    · rw [if_neg hk, if_neg (by
        intro hlt
        apply hk
        apply (div_lt_iff_mul hW k (B / W)).2
        omega)]
  · have : (B % W != 0) = true := by simp [hr]
    rw [this]
    simp only [if_true]
    have hfl : B / W < s.words.size := by
      apply Nat.lt_of_mul_lt_mul_left (a := W); omega
    rw [readS_of_lt _ _ (by rw [Array.size_mapIdx]; exact hfl), getD_mapIdx_zero,
      if_neg (Nat.lt_irrefl _)]
    simp only [Out.bind_ok, Out.pure_eq]
    refine ⟨_, rfl, rfl, rfl, by simp, ?_, ?_⟩
    · exact WordsOK_setIfInBounds hok1 _ _ (and_lt_left _ (getD_lt hok _))
    · intro k
      show bitAt W (Array.setIfInBounds _ _ _) k = _
      unfold bitAt
      rw [getD_setIfInBounds', getD_mapIdx_zero, Array.size_mapIdx]
      have hk' := div_mod_decomp hW k
      by_cases hk : B / W = k / W
      · rw [if_pos ⟨hk, hfl⟩, Nat.testBit_and, testBit_shlW, testBit_allOnes]
        rw [← hk] at hk'
        by_cases hlt : k < B
        · have : ¬ B % W ≤ k % W := by omega
          rw [if_pos hlt]; simp [this]
        · have h2 : B % W ≤ k % W := by omega
          have h3 : k % W - B % W < W := by omega
          rw [if_neg hlt, hk]
          simp [h2, h3, hk'.2]
      · rw [if_neg (fun hh => hk hh.1)]
        by_cases hk2 : k / W < B / W
        · rw [if_pos hk2, if_pos (by have := (div_lt_iff_mul hW k (B / W)).1 hk2; omega)]
          simp
        · rw [if_neg hk2, if_neg (by
            intro hlt
            have := lt_or_ge_of_div_ne hW (fun e => hk e.symm)
            have h4 : ¬ k < W * (B / W) := fun hh => hk2 ((div_lt_iff_mul hW k (B / W)).2 hh)
            omega)]

theorem reset_w {W : Nat} (hW : 0 < W) (s : St) (h : s.WInv W) :
    ∃ s', reset W s = .ok s' ∧ s'.WInv W ∧ s'.bw = s.bw ∧ s'.len = s.len ∧
      s'.words.size = s.words.size ∧ s'.vals W = List.replicate s.len 0 ∧
      ∀ k, s.len * s.bw ≤ k → bitAt W s'.words k = bitAt W s.words k := by
  obtain ⟨s', e, hl, hb, hsz, hok, hbits⟩ := reset_ok hW s h
  refine ⟨s', e, ⟨?_, ?_, ?_, hok⟩, hb, hl, hsz, ?_, ?_⟩
  · rw [hb]; exact h.1
  · rw [hb, hl, hsz]; exact h.2.1
  · rw [hb, hsz]; exact h.2.2.1
  · apply vals_eq_of_valAt
    · simp [hl]
    · intro i hi
      rw [List.getElem_replicate, hb]
      have hi' : i < s.len := by simpa using hi
      unfold valAt
      rw [← bitsVal_false s.bw]
      apply bitsVal_congr
      intro j hj
      rw [hbits, if_pos]
      have := succ_mul_le_of_lt (b := s.bw) hi'
      rw [Nat.succ_mul] at this; omega
  · intro k hk
    rw [hbits, if_neg (by omega)]

/-! ## `PartialEq` -/

theorem prefixEq_iff (a b : Array Nat) (n : Nat) :
    prefixEq a b n = true ↔ ∀ m, m < n → a.getD m 0 = b.getD m 0 := by
  induction n with
  | zero => simp [prefixEq]
  | succ n ih =>
    simp only [prefixEq, Bool.and_eq_true, beq_iff_eq, ih]
    constructor
    · intro ⟨h1, h2⟩ m hm
      by_cases hmn : m = n
      · subst hmn; exact h2
      · exact h1 m (by omega)
    · intro h
      exact ⟨fun m hm => h m (by omega), h n (by omega)⟩

/-- two vectors of the same shape hold the same values iff their first `len * bw` bits agree -/
theorem vals_eq_iff_bits {W : Nat} (a b : St) (hbw : a.bw = b.bw) (hlen : a.len = b.len) :
    a.vals W = b.vals W ↔ ∀ k, k < a.len * a.bw → bitAt W a.words k = bitAt W b.words k := by
  unfold St.vals
  rw [← hbw, ← hlen, List.map_inj_left]
  constructor
  · intro h k hk
    have hbpos : 0 < a.bw := by
      rcases Nat.eq_zero_or_pos a.bw with h0 | h0
      · rw [h0] at hk; simp at hk
      · exact h0
    have hi : k / a.bw < a.len := (Nat.div_lt_iff_lt_mul hbpos).2 hk
    have hj : k % a.bw < a.bw := Nat.mod_lt _ hbpos
    have := h (k / a.bw) (by simpa using hi)
    have := congrArg (fun x => x.testBit (k % a.bw)) this
    simp only [valAt, testBit_bitsVal, Nat.div_add_mod', hj, decide_true, Bool.true_and] at this
    exact this
  · intro h i hi
    have hi' : i < a.len := by simpa using hi
    unfold valAt
    apply bitsVal_congr
    intro j hj
    apply h
    have := succ_mul_le_of_lt (b := a.bw) hi'
    rw [Nat.succ_mul] at this; omega

/-- the first `B` bits agree iff the first `B / W` words agree and so do the low `B % W` bits of
the next word -/
theorem bits_prefix_iff {W : Nat} (hW : 0 < W) (a b : Array Nat) (ha : WordsOK W a)
    (hb : WordsOK W b) (B : Nat) :
    (∀ k, k < B → bitAt W a k = bitAt W b k) ↔
      (∀ m, m < B / W → a.getD m 0 = b.getD m 0) ∧
      (∀ j, j < B % W → (a.getD (B / W) 0).testBit j = (b.getD (B / W) 0).testBit j) := by
  have hd := div_mod_decomp hW B
  constructor
  · intro h
    constructor
    · intro m hm
      apply eq_of_testBit_lt (getD_lt ha m) (getD_lt hb m)
      intro j hj
      have hmul : (m + 1) * W ≤ B := (Nat.le_div_iff_mul_le hW).1 hm
      rw [Nat.succ_mul] at hmul
      have := h (m * W + j) (by omega)
      unfold bitAt at this
      rw [(mul_div_mod_eq hW hj).1, (mul_div_mod_eq hW hj).2] at this
      exact this
    · intro j hj
      have := h (B / W * W + j) (by have := Nat.mul_comm (B / W) W; omega)
      unfold bitAt at this
      have hjW : j < W := by omega
      rw [(mul_div_mod_eq hW hjW).1, (mul_div_mod_eq hW hjW).2] at this
      exact this
  · intro ⟨h1, h2⟩ k hk
    unfold bitAt
    have hk' := div_mod_decomp hW k
    by_cases hkq : k / W = B / W
    · rw [hkq]
      apply h2
      rw [hkq] at hk'; omega
    · have := lt_or_ge_of_div_ne hW hkq
      have hlt : k / W < B / W := (div_lt_iff_mul hW k (B / W)).2 (by omega)
      rw [h1 _ hlt]

theorem shl_xor_eq_zero_iff {W : Nat} (x y r : Nat) (hr : r ≤ W) :
    shlW W (x ^^^ y) (W - r) = 0 ↔ ∀ j, j < r → x.testBit j = y.testBit j := by
  constructor
  · intro h j hj
    have := congrArg (fun z => z.testBit (j + (W - r))) h
    simp only [testBit_shlW, Nat.zero_testBit, Nat.testBit_xor] at this
    have h1 : j + (W - r) < W := by omega
    have h2 : W - r ≤ j + (W - r) := by omega
    simp [h1] at this
    exact this
  · intro h
    apply Nat.eq_of_testBit_eq
    intro j
    rw [testBit_shlW, Nat.zero_testBit, Nat.testBit_xor]
    by_cases h1 : j < W
    · by_cases h2 : W - r ≤ j
      · have := h (j - (W - r)) (by omega)
        simp [h1, h2, this]
      · simp [h2]
    · simp [h1]

theorem eq_w {W : Nat} (hW : 0 < W) (a b : St) (ha : a.WInv W) (hb : b.WInv W) :
    eq W a b = .ok (decide (a.bw = b.bw ∧ a.vals W = b.vals W)) := by
  unfold eq
  by_cases hbw : a.bw = b.bw
  · have : (a.bw != b.bw) = false := by simp [hbw]
    rw [this]
    simp only [Bool.false_eq_true, if_false]
    by_cases hlen : a.len = b.len
    · have : (a.len != b.len) = false := by simp [hlen]
      rw [this]
      simp only [Bool.false_eq_true, if_false]
      -- the real comparison
      have hBa : a.len * a.bw ≤ W * a.words.size := ha.2.1
      have hBb : a.len * a.bw ≤ W * b.words.size := by rw [hbw, hlen]; exact hb.2.1
      have hP : (a.bw = b.bw ∧ a.vals W = b.vals W) ↔
          (∀ m, m < a.len * a.bw / W → a.words.getD m 0 = b.words.getD m 0) ∧
          (∀ j, j < a.len * a.bw % W →
            (a.words.getD (a.len * a.bw / W) 0).testBit j
              = (b.words.getD (a.len * a.bw / W) 0).testBit j) := by
        rw [← bits_prefix_iff hW a.words b.words ha.2.2.2 hb.2.2.2, ← vals_eq_iff_bits a b hbw hlen]
        exact ⟨fun h => h.2, fun h => ⟨hbw, h⟩⟩
      generalize a.len * a.bw = B at *
      have hd := div_mod_decomp hW B
      have hfa : B / W ≤ a.words.size := Nat.div_le_of_le_mul hBa
      have hfb : B / W ≤ b.words.size := Nat.div_le_of_le_mul hBb
      have : (decide (B / W > a.words.size) || decide (B / W > b.words.size)) = false := by
        simp; omega
      rw [this]
      simp only [Bool.false_eq_true, if_false]
      by_cases hpre : prefixEq a.words b.words (B / W) = true
      · rw [hpre]
        simp only [Bool.not_true, Bool.false_eq_true, if_false]
        have hpre' := (prefixEq_iff _ _ _).1 hpre
        by_cases hr : B % W = 0
        · have : (B % W == 0) = true := by simp [hr]
          rw [this]
          simp only [if_true]
          congr 1
          symm
          apply decide_eq_true
          apply hP.2
          exact ⟨hpre', fun j hj => by omega⟩
        · have : (B % W == 0) = false := by simp [hr]
          rw [this]
          simp only [Bool.false_eq_true, if_false]
          have hla : B / W < a.words.size := by
            apply Nat.lt_of_mul_lt_mul_left (a := W); omega
          have hlb : B / W < b.words.size := by
            apply Nat.lt_of_mul_lt_mul_left (a := W); omega
          rw [readS_of_lt _ _ hla, readS_of_lt _ _ hlb]
          simp only [Out.bind_ok, Out.pure_eq]
          congr 1
          rw [Bool.eq_iff_iff]
          simp only [beq_iff_eq, decide_eq_true_eq]
          rw [shl_xor_eq_zero_iff _ _ _ (by omega), hP]
          exact ⟨fun h => ⟨hpre', h⟩, fun h => h.2⟩
      · have hpf : prefixEq a.words b.words (B / W) = false := by simpa using hpre
        rw [hpf]
        simp only [Bool.not_false, if_true]
        congr 1
        symm
        apply decide_eq_false
        intro hh
        apply hpre
        exact (prefixEq_iff _ _ _).2 (hP.1 hh).1
    · have : (a.len != b.len) = true := by simp [hlen]
      rw [this]
      simp only [if_true]
      congr 1
      symm
      apply decide_eq_false
      intro ⟨_, h⟩
      apply hlen
      have := congrArg List.length h
      simpa using this
  · have : (a.bw != b.bw) = true := by simp [hbw]
    rw [this]
    simp only [if_true]
    congr 1
    symm
    apply decide_eq_false
    exact fun h => hbw h.1

/-! ## constructors -/

theorem valAt_replicate_zero (W m bw i : Nat) : valAt W (Array.replicate m 0) bw i = 0 := by
  unfold valAt
  have : bitsVal (fun j => bitAt W (Array.replicate m 0) (i * bw + j)) bw
      = bitsVal (fun _ => false) bw := by
    apply bitsVal_congr
    intro j _
    exact bitAt_replicate_zero W m _
  rw [this, bitsVal_false]

theorem vals_zero_store (W m bw n : Nat) :
    St.vals W { words := Array.replicate m 0, bw := bw, len := n } = List.replicate n 0 := by
  apply vals_eq_of_valAt
  · simp
  · intro i hi
    rw [List.getElem_replicate]
    exact valAt_replicate_zero W m bw i

theorem new_inv {W : Nat} (hW : 0 < W) (bw n : Nat) (hbw : bw ≤ W) : (new W bw n).Inv W := by
  refine ⟨hbw, ?_, ?_, WordsOK_replicate_zero W _⟩
  · show n * bw ≤ W * (Array.replicate _ 0).size
    rw [Array.size_replicate]
    exact Nat.le_trans (le_mul_divCeil hW _) (Nat.mul_le_mul_left W (Nat.le_max_right _ _))
  · show 1 ≤ (Array.replicate _ 0).size
    rw [Array.size_replicate]; exact Nat.le_max_left _ _

theorem newUnaligned_inv {W : Nat} (hW : 0 < W) (bw n : Nat) (hbw : bw ≤ W) :
    (newUnaligned W bw n).Inv W := by
  refine ⟨hbw, ?_, ?_, WordsOK_replicate_zero W _⟩
  · show n * bw ≤ W * (Array.replicate _ 0).size
    rw [Array.size_replicate]
    exact Nat.le_trans (le_mul_divCeil hW _) (Nat.mul_le_mul_left W (Nat.le_succ _))
  · show 1 ≤ (Array.replicate _ 0).size
    rw [Array.size_replicate]; omega

theorem withCapacity_winv (W bw c : Nat) (hbw : bw ≤ W) : (withCapacity W bw c).WInv W := by
  refine ⟨hbw, ?_, ?_, ?_⟩
  · show 0 * bw ≤ _
    rw [Nat.zero_mul]; exact Nat.zero_le _
  · intro h0
    have h0' : bw = 0 := h0
    show 1 ≤ (if bw == 0 then #[0] else #[] : Array Nat).size
    simp [h0']
  · show WordsOK W (if bw == 0 then #[0] else #[])
    split
    · intro i hi
      have : i = 0 := by simp at hi; omega
      subst this
      simp; exact Nat.two_pow_pos W
    · intro i hi
      simp at hi

/-! ## `from_slice` -/

theorem foldl_max_ge_init (f : Nat → Nat) (l : List Nat) :
    ∀ a, a ≤ l.foldl (fun m v => max m (f v)) a := by
  induction l with
  | nil => intro a; exact Nat.le_refl _
  | cons x l ih =>
    intro a
    exact Nat.le_trans (Nat.le_max_left a (f x)) (ih _)

theorem foldl_max_ge_mem (f : Nat → Nat) (l : List Nat) :
    ∀ a v, v ∈ l → f v ≤ l.foldl (fun m v => max m (f v)) a := by
  induction l with
  | nil => intro a v hv; simp at hv
  | cons x l ih =>
    intro a v hv
    rcases List.mem_cons.1 hv with rfl | hv
    · exact Nat.le_trans (Nat.le_max_right a (f v)) (foldl_max_ge_init f l _)
    · exact ih _ v hv

theorem foldl_max_le (f : Nat → Nat) (B : Nat) (l : List Nat) :
    ∀ a, a ≤ B → (∀ v ∈ l, f v ≤ B) → l.foldl (fun m v => max m (f v)) a ≤ B := by
  induction l with
  | nil => intro a ha _; exact ha
  | cons x l ih =>
    intro a ha h
    apply ih
    · exact Nat.max_le.2 ⟨ha, h x (by simp)⟩
    · intro v hv; exact h v (by simp [hv])

theorem lt_two_pow_bitLen (v : Nat) : v < 2 ^ bitLen v := by
  unfold bitLen
  by_cases h : v = 0
  · subst h; simp
  · have : (v == 0) = false := by simp [h]
    rw [this]
    exact Nat.lt_log2_self

theorem bitLen_le {W v : Nat} (hW : 0 < W) (hv : v < 2 ^ W) : bitLen v ≤ W := by
  unfold bitLen
  by_cases h : v = 0
  · subst h; simp; omega
  · have : (v == 0) = false := by simp [h]
    rw [this]
    have := (Nat.log2_lt h).2 hv
    simp only [Bool.false_eq_true, if_false]
    omega

theorem setAll_ok {W : Nat} (hW : 0 < W) (vs : List Nat) :
    ∀ (i : Nat) (s : St), s.WInv W → (∀ v ∈ vs, v < 2 ^ s.bw) →
      (i + vs.length) * s.bw ≤ W * s.words.size →
      ∃ s', setAll W i vs s = .ok s' ∧ s'.len = s.len ∧ s'.bw = s.bw ∧
        s'.words.size = s.words.size ∧ WordsOK W s'.words ∧
        (∀ j, j < i → valAt W s'.words s.bw j = valAt W s.words s.bw j) ∧
        (∀ j (hj : j < vs.length), valAt W s'.words s.bw (i + j) = vs[j]) := by
  induction vs with
  | nil =>
    intro i s h _ _
    exact ⟨s, rfl, rfl, rfl, rfl, h.2.2.2, fun _ _ => rfl, fun j hj => by simp at hj⟩
  | cons v vs ih =>
    intro i s h hall hr
    rw [List.length_cons] at hr
    have hi : (i + 1) * s.bw ≤ W * s.words.size :=
      Nat.le_trans (Nat.mul_le_mul_right _ (by omega)) hr
    obtain ⟨s1, e, hl1, hb1, hsz1, hok1, _, hval, hother⟩ :=
      setU_ok hW s h i v hi (hall v (by simp))
    have h1 : s1.WInv W := by
      refine ⟨?_, ?_, ?_, hok1⟩
      · rw [hb1]; exact h.1
      · rw [hb1, hl1, hsz1]; exact h.2.1
      · rw [hb1, hsz1]; exact h.2.2.1
    have hr1 : (i + 1 + vs.length) * s1.bw ≤ W * s1.words.size := by
      rw [hb1, hsz1]
      have : i + 1 + vs.length = i + (vs.length + 1) := by omega
      rw [this]; exact hr
    obtain ⟨s2, e2, hl2, hb2, hsz2, hok2, hlo, hhi⟩ := ih (i + 1) s1 h1
      (by intro x hx; rw [hb1]; exact hall x (by simp [hx])) hr1
    rw [hb1] at hlo hhi
    refine ⟨s2, ?_, by rw [hl2, hl1], by rw [hb2, hb1], by rw [hsz2, hsz1], hok2, ?_, ?_⟩
    · show (setU W s i v >>= _) = _
      rw [e]; exact e2
    · intro j hj
      rw [hlo j (by omega), hother j (by omega)]
    · intro j hj
      cases j with
      | zero =>
        rw [Nat.add_zero, hlo i (by omega)]
        exact hval
      | succ j =>
        have := hhi j (by simpa using hj)
        rw [show i + (j + 1) = i + 1 + j by omega, this]
        rfl

theorem fromSlice_ok {W : Nat} (hW : 0 < W) (vs : List Nat) (hv : ∀ v ∈ vs, v < 2 ^ W) :
    ∃ s, fromSlice W vs = .ok s ∧ s.Inv W ∧ s.vals W = vs := by
  unfold fromSlice
  simp only
  generalize hM : vs.foldl (fun m v => max m (bitLen v)) 0 = M
  have hMW : M ≤ W := by
    rw [← hM]
    exact foldl_max_le bitLen W vs 0 (Nat.zero_le _) (fun v h => bitLen_le hW (hv v h))
  have hfit : ∀ v ∈ vs, v < 2 ^ M := by
    intro v h
    have h1 : bitLen v ≤ M := by rw [← hM]; exact foldl_max_ge_mem bitLen vs 0 v h
    exact Nat.lt_of_lt_of_le (lt_two_pow_bitLen v) (Nat.pow_le_pow_right (by omega) h1)
  rw [if_neg (by omega)]
  have hinv := new_inv hW M vs.length hMW
  have hr : (0 + vs.length) * (new W M vs.length).bw ≤ W * (new W M vs.length).words.size := by
    rw [Nat.zero_add]; exact hinv.2.1
  obtain ⟨s, e, hl, hb, hsz, hok, _, hvals⟩ :=
    setAll_ok hW vs 0 (new W M vs.length) hinv.toWInv hfit hr
  refine ⟨s, e, ⟨?_, ?_, ?_, hok⟩, ?_⟩
  · rw [hb]; exact hMW
  · rw [hb, hl, hsz]; exact hinv.2.1
  · rw [hsz]; exact hinv.2.2.1
  · apply vals_eq_of_valAt
    · rw [hl]; rfl
    · intro i hi
      have := hvals i hi
      rw [Nat.zero_add] at this
      rw [hb]; exact this

end Sux.BFV
