import SuxModel.Base.Proto
import SuxModel.BitFieldVec.Spec
/-!
# Protocol runner `bfv` (C05, C10, C14): registers `a` (current) and `b` (saved), word size `W`
Reply format: `<result>;<bit width of a>;<len of a>;<words of a>`.
-/
namespace Sux.BFV
open Sux.Proto

structure RSt where
  W : Nat := 64
  a : St := { words := #[0], bw := 0, len := 0 }
  b : St := { words := #[0], bw := 0, len := 0 }

def dump (s : St) : String := s!"{s.bw};{s.len};{fmtNatList s.words.toList}"

def reply (r : RSt) (res : String) : RSt × String := (r, s!"{res};{dump r.a}")

def mutate (r : RSt) (o : Out St) : RSt × String :=
  match o with
  | .ok s => reply { r with a := s } "ok"
  | .panic => reply r "panic"
  | .oob => reply r "oob"

def obs {α} (r : RSt) (o : Out α) (f : α → String) : RSt × String :=
  match o with
  | .ok v => reply r s!"ok {f v}"
  | .panic => reply r "panic"
  | .oob => reply r "oob"

/-- the callback family used by `apply`: `f(x) = (x * a + c + calls) & mask`, logging its arguments -/
def applyF (W bw a c : Nat) (st : Nat × List Nat) (x : Nat) : (Nat × List Nat) × Nat :=
  ((st.1 + 1, x :: st.2), ((x * a + c + st.1) % 2 ^ W) &&& maskOf W bw)

/-- `len()`, both ends of `size_hint()` and the next item of an iterator that still has to yield `l`,
after `j` further steps -/
def hintOf (j : Nat) (l : List Nat) : String :=
  let rest := l.drop j
  let n := rest.length
  s!"{n} {n} {n} {match rest.head? with | some x => toString x | none => "none"}"

/-- two successive `Iterator::nth` calls on an iterator that still has to yield `l` (an overshooting
`nth` exhausts it, as for `Vec`), then `len()` and the next item -/
def nthOf (a b : Nat) (l : List Nat) : String :=
  let o (x : Option Nat) : String := match x with | some x => toString x | none => "none"
  let l1 := l.drop (a + 1)
  let l2 := l1.drop (b + 1)
  s!"{o (l.drop a).head?} {o (l1.drop b).head?} {l2.length} {o l2.head?}"

def nat2 (x y : String) : Option (Nat × Nat) := do
  let a ← parseNat x; let b ← parseNat y; pure (a, b)

def rstep (r : RSt) (toks : List String) : RSt × String :=
  let bad := (r, "bad-op")
  let W := r.W
  match toks with
  | ["case", _] => ({}, "case")
  | ["wordtype", _, w] => match parseNat w with
    | some w => reply { r with W := w } "ok" | none => bad
  | ["new", bw, n] => match nat2 bw n with
    | some (bw, n) => reply { r with a := new W bw n } "ok" | none => bad
  | ["new_unaligned", bw, n] => match nat2 bw n with
    | some (bw, n) => reply { r with a := newUnaligned W bw n } "ok" | none => bad
  | ["with_capacity", bw, n] => match nat2 bw n with
    | some (bw, n) => reply { r with a := withCapacity W bw n } "ok" | none => bad
  | ["raw", ws, bw, n] => match parseNatList ws, nat2 bw n with
    | some ws, some (bw, n) => reply { r with a := { words := ws.toArray, bw := bw, len := n } } "ok"
    | _, _ => bad
  | ["from_slice", vs] => match parseNatList vs with
    | some vs => mutate r (fromSlice W vs) | none => bad
  | ["macro_fill", bw, v, n] => match nat2 bw v, parseNat n with
    | some (bw, v), some n => mutate r (resize W (withCapacity W bw n) n v) | _, _ => bad
  | ["macro_list", bw, vs] => match parseNat bw, parseNatList vs with
    | some bw, some vs => mutate r (extend W (withCapacity W bw vs.length) vs) | _, _ => bad
  | ["push", v] => match parseNat v with | some v => mutate r (push W r.a v) | none => bad
  | ["pop"] => match pop W r.a with
    | .ok (s, v) => reply { r with a := s } (match v with | some x => s!"ok {x}" | none => "ok none")
    | .panic => reply r "panic" | .oob => reply r "oob"
  | ["set", i, v] => match nat2 i v with | some (i, v) => mutate r (set W r.a i v) | none => bad
  | ["aset", i, v] => match nat2 i v with | some (i, v) => mutate r (set W r.a i v) | none => bad
  | ["get", i] => match parseNat i with | some i => obs r (get W r.a i) toString | none => bad
  | ["aget", i] => match parseNat i with | some i => obs r (get W r.a i) toString | none => bad
  | ["get_unaligned", i] => match parseNat i with
    | some i => obs r (getUnaligned W r.a i) toString | none => bad
  | ["resize", n, v] => match nat2 n v with | some (n, v) => mutate r (resize W r.a n v) | none => bad
  | ["clear"] => reply { r with a := clear r.a } "ok"
  | ["extend", vs] => match parseNatList vs with
    | some vs => mutate r (extend W r.a vs) | none => bad
  | ["reset"] => mutate r (reset W r.a)
  | ["par_reset"] => mutate r (reset W r.a)
  | ["areset"] => mutate r (reset W r.a)
  | ["iter"] => obs r (iterFrom W r.a 0) fmtNatList
  | ["iter_from", k] => match parseNat k with
    | some k => obs r (iterFrom W r.a k) fmtNatList | none => bad
  | ["unchecked_from", k] => match parseNat k with
    | some k => obs r (iterFrom W r.a k) fmtNatList | none => bad
  | ["rev_iter"] => obs r (revIterFrom W r.a r.a.len) fmtNatList
  | ["rev_iter_from", k] => match parseNat k with
    | some k => obs r (revIterFrom W r.a k) fmtNatList | none => bad
  -- the same observers through a borrowed slice view (`BitFieldVec<W, &[W]>` at another word offset)
  | ["sv_get", i] => match parseNat i with | some i => obs r (get W r.a i) toString | none => bad
  | ["sv_unaligned", i] => match parseNat i with
    | some i => obs r (getUnaligned W r.a i) toString | none => bad
  | ["sv_iter"] => obs r (iterFrom W r.a 0) fmtNatList
  | ["sv_rev_iter"] => obs r (revIterFrom W r.a r.a.len) fmtNatList
  | ["sv_eq"] => obs r (eq W r.a r.b) fmtBool
  -- the atomic view of the borrowed view and back (the `From` glue between `BitFieldVec<W, &[W]>` and
  -- `AtomicBitFieldVec<W, &[W::AtomicType]>`): length, width and contents are unchanged
  | ["sv_atomic"] => obs r (iterFrom W r.a 0)
      (fun l => s!"{r.a.len} {r.a.bw} {fmtNatList l} {r.a.len} {r.a.bw} {fmtNatList l}")
  | ["eq"] => obs r (eq W r.a r.b) fmtBool
  | ["clone"] => reply { r with b := r.a } "ok"
  | ["swapab"] => reply { r with a := r.b, b := r.a } "ok"
  | ["conv", _] => reply r "ok"
  | ["copy", f, t, n] => match nat2 f t, parseNat n with
    | some (f, t), some n => mutate r (copy W r.b f r.a t n) | _, _ => bad
  | ["wcopy", f, t, n] => match nat2 f t, parseNat n with
    | some (f, t), some n =>
      (match sliceCopy (r.b.vals W) (r.a.vals W) f t n with
       | .ok l => reply r s!"ok {fmtNatList l}"
       | .panic => reply r "panic" | .oob => reply r "oob")
    | _, _ => bad
  | ["apply", a, c] => match nat2 a c with
    | some (a, c) =>
      match applyInPlace W r.a (applyF W r.a.bw a c) (0, []) with
      | .ok (s, (cnt, log)) => reply { r with a := s } s!"ok {cnt} {fmtNatList log.reverse}"
      | .panic => reply r "panic" | .oob => reply r "oob"
    | none => bad
  | ["chunk_set", cs, j, i, v] => match nat2 cs j, nat2 i v with
    | some (cs, j), some (i, v) =>
      match chunkOp W r.a cs j i (some v) with
      | .ok .err => reply r "ok err"
      | .ok .noChunk => reply r "ok nochunk"
      | .ok (.done s) => reply { r with a := s } "ok"
      | .ok (.value _) => bad
      | .panic => reply r "panic" | .oob => reply r "oob"
    | _, _ => bad
  | ["chunk_get", cs, j, i] => match nat2 cs j, parseNat i with
    | some (cs, j), some i =>
      match chunkOp W r.a cs j i none with
      | .ok .err => reply r "ok err"
      | .ok .noChunk => reply r "ok nochunk"
      | .ok (.value x) => reply r s!"ok {x}"
      | .ok (.done _) => bad
      | .panic => reply r "panic" | .oob => reply r "oob"
    | _, _ => bad
  -- ---- type-aware API coverage (API_COVERAGE_A.md) ----
  -- the real `bit_field_vec!` forms: `[w]`, `[w; n; v]`, `[w; x, y, …]` (`[w => v; n]` is `macro_fill`)
  | ["macro_new", bw] => match parseNat bw with
    | some bw => reply { r with a := new W bw 0 } "ok" | none => bad
  | ["macro_fill3", bw, n, v] => match nat2 bw n, parseNat v with
    | some (bw, n), some v => mutate r (resize W (withCapacity W bw n) n v) | _, _ => bad
  | ["macro_lit", bw, vs] => match parseNat bw, parseNatList vs with
    | some bw, some vs => mutate r (extend W (withCapacity W bw vs.length) vs) | _, _ => bad
  -- `AtomicBitFieldVec::new`, converted
  | ["anew", bw, n] => match nat2 bw n with
    | some (bw, n) => reply { r with a := new W bw n } "ok" | none => bad
  -- `from_slice` from a bit-field vector of a wider word type (the values may not fit `W`)
  | ["from_slice_x", vs] => match parseNatList vs with
    | some vs => mutate r (fromSlice W vs) | none => bad
  -- `addr_of`: the word holding the first bit of element `i` (safe slice indexing)
  | ["addr_of", i] => match parseNat i with
    | some i => reply r (if i * r.a.bw / W < r.a.words.size then s!"ok {i * r.a.bw / W}" else "panic")
    | none => bad
  -- `*_unchecked` / `set_len`, evaluated under their documented contract only
  | ["set_len", n] => match parseNat n with
    | some n => if n * r.a.bw ≤ W * r.a.words.size then reply { r with a := { r.a with len := n } } "ok"
                else reply r "out-of-contract"
    | none => bad
  | ["get_unchecked", i] => match parseNat i with
    | some i => if i < r.a.len then obs r (getU W r.a i) toString else reply r "out-of-contract"
    | none => bad
  | ["set_unchecked", i, v] => match nat2 i v with
    | some (i, v) => if i < r.a.len && fits W r.a.bw v then mutate r (setU W r.a i v)
                     else reply r "out-of-contract"
    | none => bad
  | ["get_unaligned_unchecked", i] => match parseNat i with
    | some i => obs r (getUnaligned W r.a i) toString | none => bad
  | ["mask"] => reply r s!"ok {maskOf W r.a.bw}"
  -- `ExactSizeIterator::len`, `size_hint` and the next item of the checked iterator after `j` steps
  | ["iter_hint", k, j] => match nat2 k j with
    | some (k, j) => obs r (iterFrom W r.a k) (hintOf j) | none => bad
  | ["into_iter_hint", k, j] => match nat2 k j with
    | some (k, j) => obs r (iterFrom W r.a k) (hintOf j) | none => bad
  | ["iter_nth", k, a, b] => match nat2 k a, parseNat b with
    | some (k, a), some b => obs r (iterFrom W r.a k) (nthOf a b) | _, _ => bad
  | ["into_iter"] => obs r (iterFrom W r.a 0) fmtNatList
  -- raw word write through `as_mut_slice` (safe indexing)
  | ["word_set", j, x] => match nat2 j x with
    | some (j, x) => if j < r.a.words.size then reply { r with a := { r.a with words := r.a.words.set! j x } } "ok"
                     else reply r "panic"
    | none => bad
  -- `set_atomic` through the `&mut [W]` view converted to its atomic form and back
  | ["svm_aset", i, v] => match nat2 i v with | some (i, v) => mutate r (set W r.a i v) | none => bad
  | ["apar_reset"] => mutate r (reset W r.a)
  | ["areset_dep"] => mutate r (reset W r.a)
  | _ => bad

def runner : Runner := { σ := RSt, init := {}, step := rstep }

end Sux.BFV
