import SuxModel.BitFieldVec.BulkBase
/-!
# `apply_in_place`: loop invariants for the power-of-two path and the general path (C10)

The callback is stateful (`f : σ → Nat → σ × Nat`), so the state threads through the elements in
index order.  `stAt i` is the callback state before element `i`, `outAt i` the value stored for
element `i`, `tgt k` bit `k` of the target stream.
-/
namespace Sux.BFV.C10
open Sux Sux.BFV

section
variable {σ : Type}

/-- callback state before element `i` (elements are `V 0, V 1, …`) -/
def stAt (f : σ → Nat → σ × Nat) (V : Nat → Nat) (st0 : σ) : Nat → σ
  | 0 => st0
  | i + 1 => (f (stAt f V st0 i) (V i)).1

/-- value the callback returns for element `i` -/
def outAt (f : σ → Nat → σ × Nat) (V : Nat → Nat) (st0 : σ) (i : Nat) : Nat :=
  (f (stAt f V st0 i) (V i)).2

/-- bit `k` of the stream of returned values (each `bw` bits wide) -/
def tgt (f : σ → Nat → σ × Nat) (V : Nat → Nat) (st0 : σ) (bw k : Nat) : Bool :=
  (outAt f V st0 (k / bw)).testBit (k % bw)

theorem mapAccum_append_single (f : σ → Nat → σ × Nat) (l : List Nat) (x : Nat) (st : σ) :
    mapAccum f (l ++ [x]) st =
      ((mapAccum f l st).1 ++ [(f (mapAccum f l st).2 x).2], (f (mapAccum f l st).2 x).1) := by
  induction l generalizing st with
  | nil => simp [mapAccum]
  | cons a l ih =>
    simp only [List.cons_append, mapAccum]
    rw [ih]

/-- `mapAccum` over the first `n` elements = the `outAt`/`stAt` sequences -/
theorem mapAccum_range (f : σ → Nat → σ × Nat) (V : Nat → Nat) (st0 : σ) (n : Nat) :
    mapAccum f ((List.range n).map V) st0 = ((List.range n).map (outAt f V st0), stAt f V st0 n) := by
  induction n with
  | zero => simp [mapAccum, stAt]
  | succ n ih =>
    rw [List.range_succ, List.map_append, List.map_append, List.map_singleton, List.map_singleton,
      mapAccum_append_single, ih]
    rfl

theorem tgt_in_elem (f : σ → Nat → σ × Nat) (V : Nat → Nat) (st0 : σ) (bw idx k : Nat)
    (h1 : idx * bw ≤ k) (h2 : k < idx * bw + bw) :
    tgt f V st0 bw k = (outAt f V st0 idx).testBit (k - idx * bw) := by
  obtain ⟨e1, e2⟩ := div_mod_of_range bw idx k h1 h2
  unfold tgt
  rw [e1, e2]

/-- write-buffer invariant: `wb` holds the target bits of positions `[lower, gbi)`, zeros above -/
def WbInv (W : Nat) (T : Nat → Bool) (wb lower gbi : Nat) : Prop :=
  wb < 2 ^ W ∧ ∀ b, b < W → wb.testBit b = (decide (lower + b < gbi) && T (lower + b))

theorem WbInv_zero (W : Nat) (T : Nat → Bool) (lower : Nat) : WbInv W T 0 lower lower := by
  refine ⟨Nat.two_pow_pos W, ?_⟩
  intro b _
  have : ¬ (lower + b < lower) := by omega
  simp [this]

/-- one element more in the write buffer -/
theorem WbInv_step {W : Nat} (f : σ → Nat → σ × Nat) (V : Nat → Nat) (st0 : σ) (bw idx wb lower : Nat)
    (hy : outAt f V st0 idx < 2 ^ bw) (hlo : lower ≤ idx * bw)
    (h : WbInv W (tgt f V st0 bw) wb lower (idx * bw)) :
    WbInv W (tgt f V st0 bw) (wb ||| shlW W (outAt f V st0 idx) (idx * bw - lower)) lower
      ((idx + 1) * bw) := by
  obtain ⟨h1, h2⟩ := h
  refine ⟨or_lt h1 (shlW_lt _ _ _), ?_⟩
  intro b hb
  rw [Nat.testBit_or, h2 b hb, testBit_shlW, Nat.add_mul, Nat.one_mul]
  by_cases c1 : lower + b < idx * bw
  · have c2 : ¬ (idx * bw - lower ≤ b) := by omega
    have c3 : lower + b < idx * bw + bw := by omega
    simp [c1, c2, c3]
  · by_cases c3 : lower + b < idx * bw + bw
    · rw [tgt_in_elem f V st0 bw idx (lower + b) (by omega) c3]
      have c2 : idx * bw - lower ≤ b := by omega
      have e : b - (idx * bw - lower) = lower + b - idx * bw := by omega
      simp [c1, c2, c3, hb, e]
    · have c2 : idx * bw - lower ≤ b := by omega
      have : (outAt f V st0 idx).testBit (b - (idx * bw - lower)) = false :=
        testBit_ge_of_lt hy (by omega)
      simp [c1, c3, this]

theorem shiftRight_step {W x : Nat} (hx : x < 2 ^ W) (bw a : Nat) (hbw : bw ≤ W) :
    (if (bw == W) = true then 0 else (x >>> a) >>> bw) = x >>> (a + bw) := by
  rw [← Nat.shiftRight_add]
  by_cases h : bw = W
  · subst h
    simp only [beq_self_eq_true, if_true]
    apply Nat.eq_of_testBit_eq
    intro j
    rw [Nat.testBit_shiftRight, Nat.zero_testBit, testBit_ge_of_lt hx (by omega)]
  · have : (bw == W) = false := by simp [h]
    rw [this]; simp

theorem p2Word_spec {W : Nat} (f : σ → Nat → σ × Nat) (orig : Array Nat) (hok : WordsOK W orig)
    (st0 : σ) (bw q e' : Nat) (hbw : 0 < bw) (hbwW : bw ≤ W) (he : e' * bw ≤ W)
    (hf : ∀ st x, (f st x).2 < 2 ^ bw) :
    ∀ fuel c idx wb, c ≤ e' → e' - c ≤ fuel → idx * bw = q * W + c * bw →
      WbInv W (tgt f (valAt W orig bw) st0 bw) wb (q * W) (idx * bw) →
      ∃ wb', p2Word W bw (maskOf W bw) f (e' * bw) fuel (stAt f (valAt W orig bw) st0 idx)
          (rd orig q >>> (c * bw)) wb (c * bw)
        = (stAt f (valAt W orig bw) st0 (idx + (e' - c)), rd orig q >>> (e' * bw), wb', e' * bw) ∧
        WbInv W (tgt f (valAt W orig bw) st0 bw) wb' (q * W) ((idx + (e' - c)) * bw) := by
  intro fuel
  induction fuel with
  | zero =>
    intro c idx wb hc hfu hpos hwb
    have : c = e' := by omega
    subst this
    refine ⟨wb, ?_, ?_⟩
    · simp [p2Word]
    · simpa using hwb
  | succ fuel ih =>
    intro c idx wb hc hfu hpos hwb
    unfold p2Word
    by_cases hce : c = e'
    · subst hce
      rw [if_pos (by omega)]
      refine ⟨wb, ?_, ?_⟩
      · simp
      · simpa using hwb
    · have hlt : c < e' := by omega
      have := succ_mul_le bw hlt
      rw [if_neg (by omega)]
      simp only []
      rw [elem_in_word orig bw q (c * bw) idx hbwW (by omega) hpos,
        shiftRight_step (rd_lt hok q) bw (c * bw) hbwW]
      have e1 : (f (stAt f (valAt W orig bw) st0 idx) (valAt W orig bw idx)).1
          = stAt f (valAt W orig bw) st0 (idx + 1) := rfl
      have e2 : (f (stAt f (valAt W orig bw) st0 idx) (valAt W orig bw idx)).2
          = outAt f (valAt W orig bw) st0 idx := rfl
      have e3 : c * bw = idx * bw - q * W := by omega
      have e4 : c * bw + bw = (c + 1) * bw := by rw [Nat.add_mul, Nat.one_mul]
      rw [e1, e2, e4]
      have hstep := WbInv_step f (valAt W orig bw) st0 bw idx wb (q * W) (hf _ _) (by omega) hwb
      rw [← e3] at hstep
      obtain ⟨wb', h1, h2⟩ := ih (c + 1) (idx + 1) _ (by omega) (by omega)
        (by rw [Nat.add_mul, Nat.add_mul]; omega) hstep
      have e5 : idx + 1 + (e' - (c + 1)) = idx + (e' - c) := by omega
      rw [e5] at h1 h2
      exact ⟨wb', h1, h2⟩

/-- a whole word (or the element part of the last word) processed from offset 0 -/
theorem p2Word_zero {W : Nat} (f : σ → Nat → σ × Nat) (orig : Array Nat) (hok : WordsOK W orig)
    (st0 : σ) (bw q e' limit fuel idx : Nat) (hbw : 0 < bw) (hbwW : bw ≤ W) (hlim : limit = e' * bw)
    (he : limit ≤ W) (hf : ∀ st x, (f st x).2 < 2 ^ bw) (hfu : e' ≤ fuel) (hpos : idx * bw = q * W) :
    ∃ wb', p2Word W bw (maskOf W bw) f limit fuel (stAt f (valAt W orig bw) st0 idx) (rd orig q) 0 0
        = (stAt f (valAt W orig bw) st0 (idx + e'), rd orig q >>> limit, wb', limit) ∧
      WbInv W (tgt f (valAt W orig bw) st0 bw) wb' (q * W) ((idx + e') * bw) := by
  subst hlim
  have h := p2Word_spec f orig hok st0 bw q e' hbw hbwW he hf fuel 0 idx 0 (by omega) (by omega)
    (by omega) (by rw [hpos]; exact WbInv_zero W _ (q * W))
  simpa using h

/-- invariant at the entry of the iteration for word `q`: words below `q` hold the target bits,
words from `q` on are untouched -/
def PInv (W : Nat) (T : Nat → Bool) (orig : Array Nat) (q : Nat) (ws : Array Nat) : Prop :=
  ws.size = orig.size ∧ WordsOK W ws ∧ (∀ k, k < q * W → bitAt W ws k = T k) ∧
    ∀ j, q ≤ j → rd ws j = rd orig j

/-- writing a full write buffer to word `q` extends the invariant -/
theorem PInv_write {W : Nat} (T : Nat → Bool) (orig ws : Array Nat) (q wb gbi : Nat)
    (h : PInv W T orig q ws) (hq : q < orig.size) (hwb : WbInv W T wb (q * W) gbi)
    (hg : q * W + W ≤ gbi) : PInv W T orig (q + 1) (ws.setIfInBounds q wb) := by
  obtain ⟨h1, h2, h3, h4⟩ := h
  have hW : 0 < W ∨ W = 0 := by omega
  refine ⟨by simp [h1], WordsOK_setIfInBounds h2 _ _ hwb.1, ?_, ?_⟩
  · intro k hk
    rw [Nat.add_mul, Nat.one_mul] at hk
    rw [bitAt_setIfInBounds W ws q wb k (by omega)]
    by_cases hkq : k < q * W
    · have : ¬ (k / W = q) := by
        intro e
        have := div_mod_decomp W k
        rw [e] at this
        omega
      rw [if_neg this]
      exact h3 k hkq
    · obtain ⟨e1, e2⟩ := div_mod_of_range W q k (by omega) hk
      rw [if_pos e1, e2, hwb.2 _ (by omega)]
      have : q * W + (k - q * W) = k := by omega
      rw [this]
      have : k < gbi := by omega
      simp [this]
  · intro j hj
    rw [rd_set_ne _ _ _ _ (by omega)]
    exact h4 j (by omega)

theorem p2Loop_spec {W : Nat} (f : σ → Nat → σ × Nat) (orig : Array Nat) (hok : WordsOK W orig)
    (st0 : σ) (bw e : Nat) (hW : 0 < W) (hbw : 0 < bw) (hWe : W = e * bw)
    (hf : ∀ st x, (f st x).2 < 2 ^ bw) :
    ∀ n q ws idx, q + n < orig.size → idx * bw = q * W →
      PInv W (tgt f (valAt W orig bw) st0 bw) orig q ws →
      ∃ ws', p2Loop W bw (maskOf W bw) f n (q + 1) ws (stAt f (valAt W orig bw) st0 idx) (rd orig q)
          = .ok (ws', stAt f (valAt W orig bw) st0 (idx + n * e), rd orig (q + n)) ∧
        PInv W (tgt f (valAt W orig bw) st0 bw) orig (q + n) ws' := by
  intro n
  induction n with
  | zero =>
    intro q ws idx _ _ hinv
    exact ⟨ws, by simp [p2Loop], by simpa using hinv⟩
  | succ n ih =>
    intro q ws idx hq hpos hinv
    have hbwW : bw ≤ W := by
      rw [hWe]
      cases e with
      | zero => omega
      | succ e => rw [Nat.add_mul]; omega
    unfold p2Loop
    have hsz := hinv.1
    rw [readU_rd (by omega : q + 1 < ws.size), hinv.2.2.2 (q + 1) (by omega)]
    simp only [Out.bind_ok]
    obtain ⟨wb', hw1, hw2⟩ := p2Word_zero f orig hok st0 bw q e W (W + 1) idx hbw hbwW hWe
      (by omega) hf (by
        have : e ≤ e * bw := Nat.le_mul_of_pos_right e hbw
        omega) hpos
    rw [hw1]
    simp only [Nat.add_sub_cancel]
    rw [if_neg (by omega)]
    have hinv' := PInv_write _ orig ws q wb' _ hinv (by omega) hw2
      (by rw [Nat.add_mul, hpos, ← hWe]; omega)
    obtain ⟨ws', h1, h2⟩ := ih (q + 1) _ (idx + e) (by omega)
      (by rw [Nat.add_mul, Nat.add_mul, hpos, ← hWe]; omega) hinv'
    refine ⟨ws', ?_, ?_⟩
    · rw [h1]
      have : idx + e + n * e = idx + (n + 1) * e := by rw [Nat.add_mul]; omega
      rw [this]
      have : q + 1 + n = q + (n + 1) := by omega
      rw [this]
    · have : q + 1 + n = q + (n + 1) := by omega
      rw [← this]; exact h2

/-- from the bit-level description of the final store to the statement of C10 -/
theorem apply_finish (W : Nat) (s : St) (h : s.Inv W) (f : σ → Nat → σ × Nat) (st0 : σ)
    (hf : ∀ st x, (f st x).2 < 2 ^ s.bw) (ws' : Array Nat) (hsz : ws'.size = s.words.size)
    (hok : WordsOK W ws')
    (hbits : ∀ k, bitAt W ws' k = if k < s.len * s.bw
      then tgt f (valAt W s.words s.bw) st0 s.bw k else bitAt W s.words k) :
    ({ s with words := ws' } : St).Inv W ∧
      ({ s with words := ws' } : St).vals W = (mapAccum f (s.vals W) st0).1 ∧
      stAt f (valAt W s.words s.bw) st0 s.len = (mapAccum f (s.vals W) st0).2 ∧
      ∀ k, s.len * s.bw ≤ k → bitAt W ws' k = bitAt W s.words k := by
  obtain ⟨h1, h2, h3, h4⟩ := h
  have hm : mapAccum f (s.vals W) st0 = _ := mapAccum_range f (valAt W s.words s.bw) st0 s.len
  refine ⟨⟨h1, by rw [hsz]; exact h2, by rw [hsz]; exact h3, hok⟩, ?_, ?_, ?_⟩
  · rw [hm]
    show (List.range s.len).map (valAt W ws' s.bw) = _
    apply List.map_congr_left
    intro i hi
    rw [List.mem_range] at hi
    symm
    apply eq_valAt
    intro j
    by_cases hj : j < s.bw
    · have := succ_mul_le s.bw hi
      rw [hbits, if_pos (by omega), tgt_in_elem f _ st0 s.bw i _ (by omega) (by omega)]
      have : i * s.bw + j - i * s.bw = j := by omega
      simp [hj, this]
    · have hlt : outAt f (valAt W s.words s.bw) st0 i < 2 ^ s.bw := hf _ _
      rw [testBit_ge_of_lt hlt (by omega)]
      simp [hj]
  · rw [hm]
  · intro k hk
    rw [hbits, if_neg (by omega)]


/-- writing the last word: target bits below `off`, original bits from `off` on -/
theorem last_write {W : Nat} (hW : 0 < W) (T : Nat → Bool) (orig ws : Array Nat) (m wb N : Nat)
    (h : PInv W T orig m ws) (hm : m < orig.size) (hN1 : m * W < N) (hN2 : N ≤ m * W + W)
    (hlt : wb < 2 ^ W)
    (hwb : ∀ b, b < W → wb.testBit b = if m * W + b < N then T (m * W + b) else (rd orig m).testBit b) :
    (ws.setIfInBounds m wb).size = orig.size ∧ WordsOK W (ws.setIfInBounds m wb) ∧
      ∀ k, bitAt W (ws.setIfInBounds m wb) k = if k < N then T k else bitAt W orig k := by
  obtain ⟨h1, h2, h3, h4⟩ := h
  refine ⟨by simp [h1], WordsOK_setIfInBounds h2 _ _ hlt, ?_⟩
  intro k
  rw [bitAt_setIfInBounds W ws m wb k (by omega)]
  by_cases hk1 : k < m * W
  · have : ¬ (k / W = m) := by
      intro e
      have := div_mod_decomp W k
      rw [e] at this
      omega
    rw [if_neg this, if_pos (by omega)]
    exact h3 k hk1
  · by_cases hk2 : k < m * W + W
    · obtain ⟨e1, e2⟩ := div_mod_of_range W m k (by omega) hk2
      rw [if_pos e1, e2, hwb _ (by omega)]
      have : m * W + (k - m * W) = k := by omega
      rw [this, bitAt_of_range orig m k (by omega) hk2]
    · have hne : ¬ (k / W = m) := by
        intro e
        have d := div_mod_decomp W k
        have r := Nat.mod_lt k hW
        rw [e] at d
        omega
      rw [if_neg hne, if_neg (by omega), bitAt_rd, bitAt_rd, h4 _ ?_]
      apply Nat.le_of_not_lt
      intro hlt'
      have := succ_mul_le W hlt'
      have := div_mod_decomp W k
      have := Nat.mod_lt k hW
      omega

theorem apply_p2 (W : Nat) (hW : 0 < W) (s : St) (h : s.Inv W) (f : σ → Nat → σ × Nat) (st0 : σ)
    (hf : ∀ st x, (f st x).2 < 2 ^ s.bw) (hlen : s.len ≠ 0) (hbw : s.bw ≠ 0)
    (hp : isPow2 s.bw = true) (e : Nat) (hWe : W = e * s.bw) :
    ∃ ws', applyInPlace W s f st0
        = .ok ({ s with words := ws' }, stAt f (valAt W s.words s.bw) st0 s.len) ∧
      ws'.size = s.words.size ∧ WordsOK W ws' ∧
      ∀ k, bitAt W ws' k = if k < s.len * s.bw
        then tgt f (valAt W s.words s.bw) st0 s.bw k else bitAt W s.words k := by
  obtain ⟨h1, h2, h3, h4⟩ := h
  have hN : 0 < s.len * s.bw := Nat.mul_pos (by omega) (by omega)
  obtain ⟨m, em, hm1, hm2⟩ := divCeil_arith W (s.len * s.bw) hW hN
  have hmsz : m < s.words.size := by
    apply Nat.lt_of_not_le
    intro hge
    have := Nat.mul_le_mul_right W hge
    rw [Nat.mul_comm W] at h2
    omega
  unfold applyInPlace
  have c1 : (s.len == 0) = false := by simp [hlen]
  have c2 : (s.bw == 0) = false := by simp [hbw]
  rw [c1, c2]
  simp only [Bool.false_eq_true, if_false, em, Nat.add_sub_cancel]
  have c3 : s.words[0]? = some (rd s.words 0) := by
    simp [rd, Array.getD_eq_getD_getElem?, (by omega : 0 < s.words.size)]
  rw [c3]
  simp only [hp, if_true]
  -- the loop over the full words
  have hinv0 : PInv W (tgt f (valAt W s.words s.bw) st0 s.bw) s.words 0 s.words :=
    ⟨rfl, h4, fun k hk => absurd hk (by omega), fun _ _ => rfl⟩
  obtain ⟨ws1, hl1, hl2⟩ := p2Loop_spec f s.words h4 st0 s.bw e hW (by omega) hWe hf m 0 s.words 0
    (by omega) (by omega) hinv0
  simp only [Nat.zero_add] at hl1 hl2
  have hst0 : stAt f (valAt W s.words s.bw) st0 0 = st0 := rfl
  rw [hst0] at hl1
  rw [hl1]
  simp only [Out.bind_ok]
  -- the last word
  have hmW : m * W = m * e * s.bw := by rw [hWe, Nat.mul_assoc]
  have hlim : (if (s.len * s.bw % W == 0) = true then W else s.len * s.bw % W)
      = (s.len - m * e) * s.bw := by
    rw [Nat.sub_mul, ← hmW]
    by_cases ht : s.len * s.bw = m * W + W
    · have : s.len * s.bw % W = 0 := by
        rw [ht, Nat.add_mod_right, Nat.mul_mod_left]
      rw [this]; simp; omega
    · obtain ⟨_, e2⟩ := div_mod_of_range W m (s.len * s.bw) (by omega) (by omega)
      rw [e2]
      have : (s.len * s.bw - m * W == 0) = false := by simp; omega
      rw [this]; simp
  have hlimW : (s.len - m * e) * s.bw ≤ W := by rw [Nat.sub_mul, ← hmW]; omega
  have hfuel : s.len - m * e ≤ W + 1 := by
    have : s.len - m * e ≤ (s.len - m * e) * s.bw := Nat.le_mul_of_pos_right _ (by omega)
    omega
  obtain ⟨wb', hw1, hw2⟩ := p2Word_zero f s.words h4 st0 s.bw m (s.len - m * e)
    (if (s.len * s.bw % W == 0) = true then W else s.len * s.bw % W) (W + 1) (m * e)
    (by omega) h1 hlim (by rw [hlim]; exact hlimW) hf hfuel hmW.symm
  have hidx : m * e + (s.len - m * e) = s.len := by
    have : m * e * s.bw < s.len * s.bw := by rw [← hmW]; exact hm1
    have := Nat.lt_of_mul_lt_mul_right this
    omega
  rw [hidx] at hw1 hw2
  rw [hw1]
  simp only []
  rw [if_neg (by have := hl2.1; omega)]
  refine ⟨_, rfl, ?_⟩
  rw [hlim]
  apply last_write hW _ s.words ws1 m _ (s.len * s.bw) hl2 hmsz hm1 hm2
  · split
    · exact or_lt hw2.1 (shlW_lt _ _ _)
    · exact hw2.1
  · intro b hb
    have hN' : (s.len - m * e) * s.bw = s.len * s.bw - m * W := by rw [Nat.sub_mul, ← hmW]
    rw [hN']
    by_cases hlt : s.len * s.bw - m * W < W
    · rw [if_pos hlt, Nat.testBit_or, hw2.2 b hb, testBit_shlW, Nat.testBit_shiftRight]
      by_cases hb2 : m * W + b < s.len * s.bw
      · have : ¬ (s.len * s.bw - m * W ≤ b) := by omega
        simp [hb2, this]
      · have h5 : s.len * s.bw - m * W ≤ b := by omega
        have h6 : s.len * s.bw - m * W + (b - (s.len * s.bw - m * W)) = b := by omega
        simp [hb2, h5, h6, hb]
    · rw [if_neg hlt, hw2.2 b hb]
      have hb2 : m * W + b < s.len * s.bw := by omega
      simp [hb2]

/-- inner `while` of the general path: all elements that end inside word `q` -/
theorem gnWord_spec {W : Nat} (f : σ → Nat → σ × Nat) (orig : Array Nat)
    (st0 : σ) (bw q : Nat) (hbw : 0 < bw) (hbwW : bw ≤ W)
    (hf : ∀ st x, (f st x).2 < 2 ^ bw) :
    ∀ fuel idx wb, q * W ≤ idx * bw → idx * bw ≤ q * W + W → q * W + W - idx * bw < fuel * bw →
      WbInv W (tgt f (valAt W orig bw) st0 bw) wb (q * W) (idx * bw) →
      ∃ idx' wb', gnWord W bw (maskOf W bw) f (q * W) (q * W + W) fuel
          (stAt f (valAt W orig bw) st0 idx) (rd orig q) wb (idx * bw)
        = (stAt f (valAt W orig bw) st0 idx', wb', idx' * bw) ∧
        WbInv W (tgt f (valAt W orig bw) st0 bw) wb' (q * W) (idx' * bw) ∧
        idx ≤ idx' ∧ idx' * bw ≤ q * W + W ∧ q * W + W < idx' * bw + bw := by
  intro fuel
  induction fuel with
  | zero =>
    intro idx wb _ _ hfu _
    omega
  | succ fuel ih =>
    intro idx wb hlo hup hfu hwb
    unfold gnWord
    by_cases hstop : idx * bw + bw > q * W + W
    · rw [if_pos hstop]
      exact ⟨idx, wb, rfl, hwb, by omega, hup, hstop⟩
    · rw [if_neg hstop]
      simp only []
      rw [Nat.and_comm, elem_in_word orig bw q (idx * bw - q * W) idx hbwW (by omega) (by omega)]
      have e1 : (f (stAt f (valAt W orig bw) st0 idx) (valAt W orig bw idx)).1
          = stAt f (valAt W orig bw) st0 (idx + 1) := rfl
      have e2 : (f (stAt f (valAt W orig bw) st0 idx) (valAt W orig bw idx)).2
          = outAt f (valAt W orig bw) st0 idx := rfl
      have e4 : idx * bw + bw = (idx + 1) * bw := by rw [Nat.add_mul, Nat.one_mul]
      rw [e1, e2, e4]
      have hstep := WbInv_step f (valAt W orig bw) st0 bw idx wb (q * W) (hf _ _) hlo hwb
      rw [Nat.add_mul, Nat.one_mul] at hfu
      obtain ⟨idx', wb', h1, h2, h3, h4, h5⟩ := ih (idx + 1) _ (by omega) (by omega) (by omega) hstep
      exact ⟨idx', wb', h1, h2, by omega, h4, h5⟩

/-- final `while` of the general path: the elements of the last word -/
theorem gnTail_spec {W : Nat} (f : σ → Nat → σ × Nat) (orig : Array Nat)
    (st0 : σ) (bw q len bound : Nat) (hbw : 0 < bw) (hbwW : bw ≤ W)
    (hf : ∀ st x, (f st x).2 < 2 ^ bw) (hN : len * bw ≤ q * W + W)
    (hcond : ∀ idx, idx ≤ len → q * W ≤ idx * bw → (idx * bw - q * W < bound ↔ idx < len)) :
    ∀ fuel idx wb, q * W ≤ idx * bw → idx ≤ len → len - idx ≤ fuel →
      WbInv W (tgt f (valAt W orig bw) st0 bw) wb (q * W) (idx * bw) →
      ∃ wb', gnTail W bw (maskOf W bw) f bound fuel
          (stAt f (valAt W orig bw) st0 idx) (rd orig q) wb (idx * bw - q * W)
        = (stAt f (valAt W orig bw) st0 len, wb', len * bw - q * W) ∧
        WbInv W (tgt f (valAt W orig bw) st0 bw) wb' (q * W) (len * bw) := by
  intro fuel
  induction fuel with
  | zero =>
    intro idx wb _ hle hfu hwb
    have : idx = len := by omega
    subst this
    exact ⟨wb, rfl, hwb⟩
  | succ fuel ih =>
    intro idx wb hlo hle hfu hwb
    unfold gnTail
    by_cases hc : idx < len
    · rw [if_pos ((hcond idx hle hlo).2 hc)]
      simp only []
      have hnext := succ_mul_le bw hc
      rw [Nat.and_comm, elem_in_word orig bw q (idx * bw - q * W) idx hbwW (by omega) (by omega)]
      have e1 : (f (stAt f (valAt W orig bw) st0 idx) (valAt W orig bw idx)).1
          = stAt f (valAt W orig bw) st0 (idx + 1) := rfl
      have e2 : (f (stAt f (valAt W orig bw) st0 idx) (valAt W orig bw idx)).2
          = outAt f (valAt W orig bw) st0 idx := rfl
      have e4 : idx * bw - q * W + bw = (idx + 1) * bw - q * W := by rw [Nat.add_mul, Nat.one_mul]; omega
      rw [e1, e2, e4]
      have hstep := WbInv_step f (valAt W orig bw) st0 bw idx wb (q * W) (hf _ _) hlo hwb
      exact ih (idx + 1) _ (by rw [Nat.add_mul]; omega) (by omega) (by omega) hstep
    · have : idx = len := by omega
      subst this
      rw [if_neg (fun h => hc ((hcond idx hle hlo).1 h))]
      exact ⟨wb, rfl, hwb⟩

/-- invariant at the entry of the iteration for word `wn` of the general path -/
def GInv (W : Nat) (T : Nat → Bool) (orig : Array Nat) (bw wn : Nat) (ws : Array Nat)
    (wb idx : Nat) : Prop :=
  PInv W T orig wn ws ∧ wn * W ≤ idx * bw ∧ idx * bw < wn * W + bw ∧ WbInv W T wb (wn * W) (idx * bw)

/-- the part of a straddling element's new value that goes to the next word -/
theorem WbInv_carry {W : Nat} (f : σ → Nat → σ × Nat) (V : Nat → Nat) (st0 : σ) (bw idx upper : Nat)
    (hbwW : bw ≤ W) (hy : outAt f V st0 idx < 2 ^ bw) (h1 : idx * bw < upper)
    (_h2 : upper < idx * bw + bw) :
    WbInv W (tgt f V st0 bw) (outAt f V st0 idx >>> (upper - idx * bw)) upper ((idx + 1) * bw) := by
  refine ⟨shiftRight_lt _ (Nat.lt_of_lt_of_le hy (Nat.pow_le_pow_right (by omega) hbwW)), ?_⟩
  intro b hb
  rw [Nat.testBit_shiftRight, Nat.add_mul, Nat.one_mul]
  by_cases c : upper + b < idx * bw + bw
  · rw [tgt_in_elem f V st0 bw idx (upper + b) (by omega) c]
    have : upper - idx * bw + b = upper + b - idx * bw := by omega
    simp [c, this]
  · rw [testBit_ge_of_lt hy (by omega)]
    simp [c]

theorem gnLoop_spec {W : Nat} (hW : 0 < W) (f : σ → Nat → σ × Nat) (orig : Array Nat) (hok : WordsOK W orig)
    (st0 : σ) (bw : Nat) (hbw : 0 < bw) (hbwW : bw ≤ W)
    (hf : ∀ st x, (f st x).2 < 2 ^ bw) :
    ∀ n wn ws wb idx, wn + n < orig.size →
      GInv W (tgt f (valAt W orig bw) st0 bw) orig bw wn ws wb idx →
      ∃ ws' wb' idx', gnLoop W bw (maskOf W bw) f n wn ws (stAt f (valAt W orig bw) st0 idx)
          (rd orig wn) wb (idx * bw) (wn * W) (wn * W + W)
        = .ok (ws', stAt f (valAt W orig bw) st0 idx', rd orig (wn + n), wb', idx' * bw, (wn + n) * W) ∧
        GInv W (tgt f (valAt W orig bw) st0 bw) orig bw (wn + n) ws' wb' idx' := by
  intro n
  induction n with
  | zero =>
    intro wn ws wb idx _ hinv
    exact ⟨ws, wb, idx, rfl, hinv⟩
  | succ n ih =>
    intro wn ws wb idx hsz hinv
    obtain ⟨hP, hg1, hg2, hwb⟩ := hinv
    have hfuel : wn * W + W - idx * bw < (W + 1) * bw := by
      have : W + 1 ≤ (W + 1) * bw := Nat.le_mul_of_pos_right _ hbw
      omega
    obtain ⟨idx1, wb1, hgw, hwb1, hi1, hi2, hi3⟩ := gnWord_spec f orig st0 bw wn hbw hbwW hf (W + 1)
      idx wb hg1 (by omega) hfuel hwb
    unfold gnLoop
    rw [hgw]
    simp only []
    have hsz' := hP.1
    rw [readU_rd (by omega : wn + 1 < ws.size), hP.2.2.2 (wn + 1) (by omega)]
    simp only [Out.bind_ok]
    have eW : wn * W + W = (wn + 1) * W := by rw [Nat.add_mul, Nat.one_mul]
    have en : wn + 1 + n = wn + (n + 1) := by omega
    by_cases heq : wn * W + W = idx1 * bw
    · have c : (wn * W + W != idx1 * bw) = false := by simp [heq]
      rw [c]
      simp only [Bool.false_eq_true, if_false]
      rw [if_neg (by omega)]
      have hP' := PInv_write _ orig ws wn wb1 _ hP (by omega) hwb1 (by omega)
      have hinv' : GInv W (tgt f (valAt W orig bw) st0 bw) orig bw (wn + 1) (ws.setIfInBounds wn wb1)
          0 idx1 := by
        refine ⟨hP', by omega, by omega, ?_⟩
        rw [← eW, heq]
        exact WbInv_zero W _ _
      obtain ⟨ws', wb', idx', h1, h2⟩ := ih (wn + 1) _ 0 idx1 (by omega) hinv'
      rw [← eW, en] at h1
      rw [en] at h2
      exact ⟨ws', wb', idx', h1, h2⟩
    · have c : (wn * W + W != idx1 * bw) = true := by simp [heq]
      rw [c]
      simp only [if_true]
      have erem : wn * W + W - idx1 * bw = W - (idx1 * bw - wn * W) := by omega
      rw [erem, elem_straddle orig hok bw wn (idx1 * bw - wn * W) idx1 hbwW (by omega) (by omega)]
      have e1 : (f (stAt f (valAt W orig bw) st0 idx1) (valAt W orig bw idx1)).1
          = stAt f (valAt W orig bw) st0 (idx1 + 1) := rfl
      have e2 : (f (stAt f (valAt W orig bw) st0 idx1) (valAt W orig bw idx1)).2
          = outAt f (valAt W orig bw) st0 idx1 := rfl
      have e4 : idx1 * bw + bw = (idx1 + 1) * bw := by rw [Nat.add_mul, Nat.one_mul]
      rw [e1, e2, e4]
      rw [if_neg (by omega)]
      have hwb2 := WbInv_step f (valAt W orig bw) st0 bw idx1 wb1 (wn * W) (hf _ _) (by omega) hwb1
      have hP' := PInv_write _ orig ws wn _ _ hP (by omega) hwb2 (by omega)
      have hcarry := WbInv_carry (W := W) f (valAt W orig bw) st0 bw idx1 (wn * W + W) hbwW (hf _ _)
        (by omega) (by omega)
      rw [erem] at hcarry
      have hinv' : GInv W (tgt f (valAt W orig bw) st0 bw) orig bw (wn + 1) (ws.setIfInBounds wn
          (wb1 ||| shlW W (outAt f (valAt W orig bw) st0 idx1) (idx1 * bw - wn * W)))
          (outAt f (valAt W orig bw) st0 idx1 >>> (W - (idx1 * bw - wn * W))) (idx1 + 1) := by
        refine ⟨hP', by omega, by omega, ?_⟩
        rw [← eW]
        exact hcarry
      obtain ⟨ws', wb', idx', h1, h2⟩ := ih (wn + 1) _ _ (idx1 + 1) (by omega) hinv'
      rw [← eW, en] at h1
      rw [en] at h2
      exact ⟨ws', wb', idx', h1, h2⟩

theorem apply_gn (W : Nat) (hW : 0 < W) (s : St) (h : s.Inv W) (f : σ → Nat → σ × Nat) (st0 : σ)
    (hf : ∀ st x, (f st x).2 < 2 ^ s.bw) (hlen : s.len ≠ 0) (hbw : s.bw ≠ 0)
    (hp : isPow2 s.bw = false) :
    ∃ ws', applyInPlace W s f st0
        = .ok ({ s with words := ws' }, stAt f (valAt W s.words s.bw) st0 s.len) ∧
      ws'.size = s.words.size ∧ WordsOK W ws' ∧
      ∀ k, bitAt W ws' k = if k < s.len * s.bw
        then tgt f (valAt W s.words s.bw) st0 s.bw k else bitAt W s.words k := by
  obtain ⟨h1, h2, h3, h4⟩ := h
  have hN : 0 < s.len * s.bw := Nat.mul_pos (by omega) (by omega)
  obtain ⟨m, em, hm1, hm2⟩ := divCeil_arith W (s.len * s.bw) hW hN
  have hmsz : m < s.words.size := by
    apply Nat.lt_of_not_le
    intro hge
    have := Nat.mul_le_mul_right W hge
    rw [Nat.mul_comm W] at h2
    omega
  unfold applyInPlace
  have c1 : (s.len == 0) = false := by simp [hlen]
  have c2 : (s.bw == 0) = false := by simp [hbw]
  rw [c1, c2]
  simp only [Bool.false_eq_true, if_false, em, Nat.add_sub_cancel]
  have c3 : s.words[0]? = some (rd s.words 0) := by
    simp [rd, Array.getD_eq_getD_getElem?, (by omega : 0 < s.words.size)]
  rw [c3]
  simp only [hp, Bool.false_eq_true, if_false]
  have hinv0 : GInv W (tgt f (valAt W s.words s.bw) st0 s.bw) s.words s.bw 0 s.words 0 0 := by
    refine ⟨⟨rfl, h4, fun k hk => absurd hk (by omega), fun _ _ => rfl⟩, by omega, by omega, ?_⟩
    have := WbInv_zero W (tgt f (valAt W s.words s.bw) st0 s.bw) 0
    simpa using this
  obtain ⟨ws1, wb1, idx1, hl1, hP, hg1, hg2, hwb1⟩ := gnLoop_spec hW f s.words h4 st0 s.bw (by omega)
    h1 hf m 0 s.words 0 0 (by omega) hinv0
  simp only [Nat.zero_add, Nat.zero_mul] at hl1 hP hg1 hg2 hwb1
  have hst0 : stAt f (valAt W s.words s.bw) st0 0 = st0 := rfl
  rw [hst0] at hl1
  rw [hl1]
  simp only [Out.bind_ok]
  have hidx1 : idx1 ≤ s.len := by
    apply Nat.le_of_not_lt
    intro hlt
    have := succ_mul_le s.bw hlt
    omega
  rw [if_neg (by
    have := Nat.mul_le_mul_right s.bw hidx1
    omega)]
  have hcond : ∀ idx, idx ≤ s.len → m * W ≤ idx * s.bw →
      (idx * s.bw - m * W < s.len * s.bw - idx1 * s.bw ↔ idx < s.len) := by
    intro idx hle hlo
    have a1 := Nat.mul_le_mul_right s.bw hidx1
    constructor
    · intro hlt
      apply Nat.lt_of_not_le
      intro hge
      have : idx = s.len := by omega
      subst this
      omega
    · intro hlt
      have := succ_mul_le s.bw hlt
      omega
  have hfuel : s.len - idx1 ≤ W + 1 := by
    have a1 : s.len - idx1 ≤ (s.len - idx1) * s.bw := Nat.le_mul_of_pos_right _ (by omega)
    rw [Nat.sub_mul] at a1
    omega
  obtain ⟨wb', hw1, hw2⟩ := gnTail_spec f s.words st0 s.bw m s.len (s.len * s.bw - idx1 * s.bw)
    (by omega) h1 hf hm2 hcond (W + 1) idx1 wb1 hg1 hidx1 hfuel hwb1
  rw [hw1]
  simp only []
  rw [if_neg (by have := hP.1; omega)]
  refine ⟨_, rfl, ?_⟩
  apply last_write hW _ s.words ws1 m _ (s.len * s.bw) hP hmsz hm1 hm2
  · split
    · exact or_lt hw2.1 (and_lt_left _ (rd_lt h4 _))
    · exact hw2.1
  · intro b hb
    by_cases hlt : s.len * s.bw - m * W < W
    · rw [if_pos hlt, Nat.testBit_or, hw2.2 b hb, Nat.testBit_and, testBit_shlAll]
      by_cases hb2 : m * W + b < s.len * s.bw
      · have : ¬ (s.len * s.bw - m * W ≤ b) := by omega
        simp [hb2, this]
      · have h5 : s.len * s.bw - m * W ≤ b := by omega
        simp [hb2, h5, hb]
    · rw [if_neg hlt, hw2.2 b hb]
      have hb2 : m * W + b < s.len * s.bw := by omega
      simp [hb2]

theorem stAt_const_succ (f : σ → Nat → σ × Nat) (c : Nat) (st : σ) (n : Nat) :
    stAt f (fun _ => c) st (n + 1) = stAt f (fun _ => c) (f st c).1 n := by
  induction n with
  | zero => rfl
  | succ n ih =>
    show (f (stAt f (fun _ => c) st (n + 1)) c).1 = (f (stAt f (fun _ => c) (f st c).1 n) c).1
    rw [ih]

theorem applyZero_eq (f : σ → Nat → σ × Nat) (n : Nat) (st : σ) :
    applyZero f n st = stAt f (fun _ => 0) st n := by
  induction n generalizing st with
  | zero => rfl
  | succ n ih =>
    rw [stAt_const_succ, ← ih]
    rfl

/-- `is_power_of_two` really means a power of two -/
theorem isPow2_eq (n : Nat) (h : isPow2 n = true) : ∃ c, n = 2 ^ c := by
  unfold isPow2 at h
  simp only [Bool.and_eq_true, bne_iff_ne, ne_eq, beq_iff_eq] at h
  obtain ⟨h0, h1⟩ := h
  have hlt : n < 2 ^ n := Nat.lt_two_pow_self
  obtain ⟨_, hc1, hc2⟩ := ctz_spec n n (by omega) hlt
  refine ⟨ctz n n, ?_⟩
  apply Nat.eq_of_testBit_eq
  intro j
  have := testBit_and_pred (ctz n n) n hc1 hc2 j
  rw [h1, Nat.zero_testBit] at this
  rw [Nat.testBit_two_pow]
  by_cases hj : j = ctz n n
  · subst hj; simp [hc1]
  · have hj' : ¬ (ctz n n = j) := fun e => hj e.symm
    simp [hj] at this
    simp [hj', this]

theorem isPow2_dvd_two_pow (n e : Nat) (h : isPow2 n = true) (hle : n ≤ 2 ^ e) : n ∣ 2 ^ e := by
  obtain ⟨c, rfl⟩ := isPow2_eq n h
  have : c ≤ e := by
    apply Nat.le_of_not_lt
    intro hlt
    have := Nat.pow_lt_pow_right (show 1 < 2 by omega) hlt
    omega
  exact Nat.pow_dvd_pow 2 this

theorem apply_correct' (W : Nat) (hW : 0 < W) (s : St) (h : s.Inv W) (f : σ → Nat → σ × Nat) (st : σ)
    (hf : ∀ st x, (f st x).2 < 2 ^ s.bw) (hdiv : isPow2 s.bw = true → s.bw ∣ W) :
    ∃ s', applyInPlace W s f st = .ok (s', (mapAccum f (s.vals W) st).2) ∧ s'.Inv W ∧ s'.len = s.len ∧
      s'.bw = s.bw ∧ s'.words.size = s.words.size ∧ s'.vals W = (mapAccum f (s.vals W) st).1 ∧
      ∀ k, s.len * s.bw ≤ k → bitAt W s'.words k = bitAt W s.words k := by
  by_cases hlen : s.len = 0
  · have hv : s.vals W = [] := by simp [St.vals, hlen]
    refine ⟨s, ?_, h, rfl, rfl, rfl, ?_, fun _ _ => rfl⟩
    · unfold applyInPlace
      simp [hlen, hv, mapAccum]
    · rw [hv]; rfl
  by_cases hbw : s.bw = 0
  · have hV : valAt W s.words s.bw = fun _ => 0 := by
      funext i
      unfold valAt
      rw [hbw]; rfl
    have hm : mapAccum f (s.vals W) st = _ := mapAccum_range f (valAt W s.words s.bw) st s.len
    refine ⟨s, ?_, h, rfl, rfl, rfl, ?_, fun _ _ => rfl⟩
    · unfold applyInPlace
      have c1 : (s.len == 0) = false := by simp [hlen]
      rw [c1]
      simp only [Bool.false_eq_true, if_false, hbw, beq_self_eq_true, if_true]
      rw [hm, applyZero_eq, hV]
    · rw [hm]
      show (List.range s.len).map (valAt W s.words s.bw) = _
      apply List.map_congr_left
      intro i _
      have : outAt f (valAt W s.words s.bw) st i < 2 ^ s.bw := hf _ _
      rw [hV] at this ⊢
      rw [hbw, Nat.pow_zero] at this
      show 0 = _
      omega
  · have hres : ∃ ws', applyInPlace W s f st
          = .ok ({ s with words := ws' }, stAt f (valAt W s.words s.bw) st s.len) ∧
        ws'.size = s.words.size ∧ WordsOK W ws' ∧
        ∀ k, bitAt W ws' k = if k < s.len * s.bw
          then tgt f (valAt W s.words s.bw) st s.bw k else bitAt W s.words k := by
      by_cases hp : isPow2 s.bw = true
      · obtain ⟨e, he⟩ := hdiv hp
        exact apply_p2 W hW s h f st hf hlen hbw hp e (by rw [he, Nat.mul_comm])
      · exact apply_gn W hW s h f st hf hlen hbw (by simpa using hp)
    obtain ⟨ws', e, hsz, hok, hbits⟩ := hres
    obtain ⟨a1, a2, a3, a4⟩ := apply_finish W s h f st hf ws' hsz hok hbits
    exact ⟨_, by rw [e, a3], a1, rfl, rfl, hsz, a2, a4⟩

end
end Sux.BFV.C10
