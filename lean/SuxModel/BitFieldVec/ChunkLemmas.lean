import SuxModel.BitFieldVec.BulkBase
/-!
# `get_unaligned` and `try_chunks_mut` (C10; proof-only file)
-/
namespace Sux.BFV.C10
open Sux Sux.BFV

/-! ## `get_unaligned` -/

/-- for the admissible widths the value never straddles the `W`-bit window that starts at the
byte containing its first bit -/
theorem unaligned_fits (B bw i : Nat) (hB : 0 < B)
    (hadm : bw ≤ 8 * B - 8 + 2 ∨ bw = 8 * B - 8 + 4 ∨ bw = 8 * B) : (i * bw) % 8 + bw ≤ 8 * B := by
  rcases hadm with h | h | h
  · by_cases h7 : bw ≤ 8 * B - 7
    · have := Nat.mod_lt (i * bw) (show 0 < 8 by omega)
      omega
    · have e : bw = 2 * (4 * B - 3) := by omega
      rw [e, Nat.mul_left_comm]
      generalize i * (4 * B - 3) = x
      omega
  · have e : bw = 4 * (2 * B - 1) := by omega
    rw [e, Nat.mul_left_comm]
    generalize i * (2 * B - 1) = x
    omega
  · rw [h, Nat.mul_left_comm]
    generalize i * B = x
    omega

theorem unaligned_get (W : Nat) (h8 : 8 ∣ W) (hW : 0 < W) (s : St) (h : s.Inv W) (i : Nat)
    (hi : i < s.len) (hadm : s.bw ≤ W - 8 + 2 ∨ s.bw = W - 8 + 4 ∨ s.bw = W)
    (hpad : (i * s.bw) / 8 + W / 8 ≤ s.words.size * (W / 8)) :
    getUnaligned W s i = .ok (valAt W s.words s.bw i) := by
  obtain ⟨B, rfl⟩ := h8
  have hB : 0 < B := by omega
  have hdiv : 8 * B / 8 = B := Nat.mul_div_cancel_left B (by omega)
  rw [hdiv] at hpad
  obtain ⟨hi1, hi2, hi3, hok⟩ := h
  have hfit := unaligned_fits B s.bw i hB hadm
  unfold getUnaligned
  have c1 : (!(decide (s.bw ≤ 8 * B - 8 + 2) || s.bw == 8 * B - 8 + 4 || s.bw == 8 * B)) = false := by
    rcases hadm with h | h | h <;> simp [h]
  have c2 : ¬ (i ≥ s.len) := by omega
  rw [c1, hdiv]
  simp only [Bool.false_eq_true, if_false, if_neg c2]
  have c3 : ¬ (i * s.bw / 8 + B > s.words.size * B) := by omega
  rw [if_neg c3]
  generalize hsb : i * s.bw = sb at *
  have e1 := div_mod_decomp (8 * B) (8 * (sb / 8))
  have b1 : (8 * (sb / 8)) % (8 * B) < 8 * B := Nat.mod_lt _ hW
  have esz : s.words.size * (8 * B) = 8 * (s.words.size * B) := by rw [Nat.mul_left_comm]
  have hwi : (8 * (sb / 8)) / (8 * B) < s.words.size := by
    apply Nat.div_lt_of_lt_mul
    have : 8 * B * s.words.size = 8 * (s.words.size * B) := by rw [Nat.mul_assoc, Nat.mul_comm B]
    omega
  generalize (8 * (sb / 8)) / (8 * B) = wi at *
  generalize (8 * (sb / 8)) % (8 * B) = off at *
  rw [readU_rd hwi]
  simp only [Out.bind_ok]
  -- the window word
  have hword : ∃ word, (if (off == 0) = true then pure (rd s.words wi) else do
        let w1 ← Out.readU s.words (wi + 1)
        pure (rd s.words wi >>> off ||| shlW (8 * B) w1 (8 * B - off)) : Out Nat) = .ok word ∧
      ∀ b, b < 8 * B → word.testBit b = bitAt (8 * B) s.words (8 * (sb / 8) + b) := by
    by_cases h0 : off = 0
    · subst h0
      refine ⟨_, rfl, ?_⟩
      intro b hb
      rw [e1, Nat.add_zero, bitAt_word _ _ _ hb]
    · have hwi1 : wi + 1 < s.words.size := by
        apply Nat.lt_of_not_le
        intro hge
        have := Nat.mul_le_mul_right (8 * B) hge
        rw [Nat.add_mul, esz] at this
        omega
      have : (off == 0) = false := by simp [h0]
      rw [this, readU_rd hwi1]
      refine ⟨_, rfl, ?_⟩
      intro b hb
      rw [funnel_stream hok wi off b (by omega) hb, ← e1]
  obtain ⟨word, hw, hbits⟩ := hword
  rw [hw]
  simp only [Out.bind_ok, Out.pure_eq]
  congr 1
  apply eq_valAt
  intro j
  rw [Nat.testBit_and, Nat.testBit_shiftRight, testBit_maskOf hi1, hsb]
  by_cases hj : j < s.bw
  · rw [hbits _ (by omega)]
    have : 8 * (sb / 8) + (sb % 8 + j) = sb + j := by omega
    rw [this]
    simp [hj]
  · simp [hj]

end Sux.BFV.C10
