import SuxModel.BitFieldVec.BulkBase
/-!
# `get_unaligned` and `try_chunks_mut` (C10; proof-only file)
-/
namespace Sux.BFV.C10
open Sux Sux.BFV

/-! ## `get_unaligned` -/

/-- for the admissible widths the value never straddles the `W`-bit window that starts at the
byte containing its first bit -/
theorem unaligned_fits (B bw i : Nat) (hB : 0 < B)
    (hadm : bw ≤ 8 * B - 8 + 2 ∨ bw = 8 * B - 8 + 4 ∨ bw = 8 * B) : (i * bw) % 8 + bw ≤ 8 * B := by
  rcases hadm with h | h | h
  · by_cases h7 : bw ≤ 8 * B - 7
    · have := Nat.mod_lt (i * bw) (show 0 < 8 by omega)
      omega
    · have e : bw = 2 * (4 * B - 3) := by omega
      rw [e, Nat.mul_left_comm]
      generalize i * (4 * B - 3) = x
      omega
  · have e : bw = 4 * (2 * B - 1) := by omega
    rw [e, Nat.mul_left_comm]
    generalize i * (2 * B - 1) = x
    omega
  · rw [h, Nat.mul_left_comm]
    generalize i * B = x
    omega

theorem unaligned_get (W : Nat) (h8 : 8 ∣ W) (hW : 0 < W) (s : St) (h : s.Inv W) (i : Nat)
    (hi : i < s.len) (hadm : s.bw ≤ W - 8 + 2 ∨ s.bw = W - 8 + 4 ∨ s.bw = W)
    (hpad : (i * s.bw) / 8 + W / 8 ≤ s.words.size * (W / 8)) :
    getUnaligned W s i = .ok (valAt W s.words s.bw i) := by
  obtain ⟨B, rfl⟩ := h8
  have hB : 0 < B := by omega
  have hdiv : 8 * B / 8 = B := Nat.mul_div_cancel_left B (by omega)
  rw [hdiv] at hpad
  obtain ⟨hi1, hi2, hi3, hok⟩ := h
  have hfit := unaligned_fits B s.bw i hB hadm
  unfold getUnaligned
  have c1 : (!(decide (s.bw ≤ 8 * B - 8 + 2) || s.bw == 8 * B - 8 + 4 || s.bw == 8 * B)) = false := by
    rcases hadm with h | h | h <;> simp [h]
  have c2 : ¬ (i ≥ s.len) := by omega
  rw [c1, hdiv]
  simp only [Bool.false_eq_true, if_false, if_neg c2]
  have c3 : ¬ (i * s.bw / 8 + B > s.words.size * B) := by omega
  rw [if_neg c3]
  generalize hsb : i * s.bw = sb at *
  have e1 := div_mod_decomp (8 * B) (8 * (sb / 8))
  have b1 : (8 * (sb / 8)) % (8 * B) < 8 * B := Nat.mod_lt _ hW
  have esz : s.words.size * (8 * B) = 8 * (s.words.size * B) := by rw [Nat.mul_left_comm]
  have hwi : (8 * (sb / 8)) / (8 * B) < s.words.size := by
    apply Nat.div_lt_of_lt_mul
    have : 8 * B * s.words.size = 8 * (s.words.size * B) := by rw [Nat.mul_assoc, Nat.mul_comm B]
    omega
  generalize (8 * (sb / 8)) / (8 * B) = wi at *
  generalize (8 * (sb / 8)) % (8 * B) = off at *
  rw [readU_rd hwi]
  simp only [Out.bind_ok]
  -- the window word
  have hword : ∃ word, (if (off == 0) = true then pure (rd s.words wi) else do
        let w1 ← Out.readU s.words (wi + 1)
        pure (rd s.words wi >>> off ||| shlW (8 * B) w1 (8 * B - off)) : Out Nat) = .ok word ∧
      ∀ b, b < 8 * B → word.testBit b = bitAt (8 * B) s.words (8 * (sb / 8) + b) := by
    by_cases h0 : off = 0
    · subst h0
      refine ⟨_, rfl, ?_⟩
      intro b hb
      rw [e1, Nat.add_zero, bitAt_word _ _ _ hb]
    · have hwi1 : wi + 1 < s.words.size := by
        apply Nat.lt_of_not_le
        intro hge
        have := Nat.mul_le_mul_right (8 * B) hge
        rw [Nat.add_mul, esz] at this
        omega
      have : (off == 0) = false := by simp [h0]
      rw [this, readU_rd hwi1]
      refine ⟨_, rfl, ?_⟩
      intro b hb
      rw [funnel_stream hok wi off b (by omega) hb, ← e1]
  obtain ⟨word, hw, hbits⟩ := hword
  rw [hw]
  simp only [Out.bind_ok, Out.pure_eq]
  congr 1
  apply eq_valAt
  intro j
  rw [Nat.testBit_and, Nat.testBit_shiftRight, testBit_maskOf hi1, hsb]
  by_cases hj : j < s.bw
  · rw [hbits _ (by omega)]
    have : 8 * (sb / 8) + (sb % 8 + j) = sb + j := by omega
    rw [this]
    simp [hj]
  · simp [hj]

/-! ## `get_unchecked` / `set_unchecked` on an arbitrary store (private versions of the C05 layout lemmas) -/

/-- word index of a field that fits in the store -/
theorem field_wi {W p n sz : Nat} (hW : 0 < W) (hp : p + n ≤ W * sz) (hsz : 1 ≤ sz)
    (hn : n = 0 → p = 0) : p / W < sz := by
  apply Nat.div_lt_of_lt_mul
  by_cases h : n = 0
  · have := hn h
    have : W * 1 ≤ W * sz := Nat.mul_le_mul_left W hsz
    omega
  · omega

theorem field_wi_succ {W p n sz : Nat} (_hW : 0 < W) (hp : p + n ≤ W * sz)
    (hn : W < p % W + n) : p / W + 1 < sz := by
  apply Nat.lt_of_not_le
  intro hge
  have := Nat.mul_le_mul_right W hge
  have := div_mod_decomp W p
  rw [Nat.add_mul, Nat.mul_comm sz] at *
  omega

theorem getU_arr {W : Nat} (hW : 0 < W) (s : St) (hbw : s.bw ≤ W) (hok : WordsOK W s.words)
    (hsz : 1 ≤ s.words.size) (i : Nat) (hi : i * s.bw + s.bw ≤ W * s.words.size) :
    getU W s i = .ok (valAt W s.words s.bw i) := by
  unfold getU
  simp only []
  have hd := div_mod_decomp W (i * s.bw)
  have hwi := field_wi hW hi hsz (fun h => by rw [h]; rfl)
  by_cases hc : i * s.bw % W + s.bw ≤ W
  · rw [if_pos hc, readU_rd hwi]
    simp only [Out.bind_ok, Out.pure_eq]
    rw [elem_in_word s.words s.bw _ _ i hbw hc hd]
  · rw [if_neg hc, readU_rd hwi, readU_rd (field_wi_succ hW hi (by omega))]
    simp only [Out.bind_ok, Out.pure_eq]
    have := Nat.mod_lt (i * s.bw) hW
    rw [elem_straddle s.words hok s.bw _ _ i hbw (by omega) hd]

theorem testBit_setOne {W bw : Nat} (w v bi b : Nat) (hbw : bw ≤ W) (hv : v < 2 ^ bw) (hb : b < W) :
    ((w &&& notW W (shlW W (maskOf W bw) bi)) ||| shlW W v bi).testBit b
      = if bi ≤ b ∧ b - bi < bw then v.testBit (b - bi) else w.testBit b := by
  simp only [Nat.testBit_or, Nat.testBit_and, testBit_notW, testBit_shlW, testBit_maskOf hbw]
  by_cases h1 : bi ≤ b
  · by_cases h2 : b - bi < bw
    · simp [h1, h2, hb]
    · have : v.testBit (b - bi) = false := testBit_ge_of_lt hv (by omega)
      simp [h1, h2, hb, this]
  · simp [h1, hb]

theorem testBit_setLo {W : Nat} (w v bi b : Nat) (hb : b < W) :
    ((w &&& lowMask bi) ||| shlW W v bi).testBit b
      = if bi ≤ b then v.testBit (b - bi) else w.testBit b := by
  simp only [Nat.testBit_or, Nat.testBit_and, testBit_lowMask, testBit_shlW]
  by_cases h1 : bi ≤ b
  · have : ¬ b < bi := by omega
    simp [h1, this, hb]
  · have : b < bi := by omega
    simp [h1, this]

theorem testBit_setHi {W bw : Nat} (w v r b : Nat) (hbw : bw ≤ W) (hv : v < 2 ^ bw) (hb : b < W) :
    ((w &&& notW W (maskOf W bw >>> r)) ||| (v >>> r)).testBit b
      = if r + b < bw then v.testBit (r + b) else w.testBit b := by
  simp only [Nat.testBit_or, Nat.testBit_and, testBit_notW, Nat.testBit_shiftRight,
    testBit_maskOf hbw]
  by_cases h1 : r + b < bw
  · simp [h1, hb]
  · have : v.testBit (r + b) = false := testBit_ge_of_lt hv (by omega)
    simp [h1, hb, this]

theorem setWords_arr {W : Nat} (hW : 0 < W) (ws : Array Nat) (hok : WordsOK W ws) (bw i v : Nat)
    (hbw : bw ≤ W) (hsz : 1 ≤ ws.size) (hi : i * bw + bw ≤ W * ws.size) (hv : v < 2 ^ bw) :
    ∃ ws', setWords W ws bw i v = .ok ws' ∧ ws'.size = ws.size ∧ WordsOK W ws' ∧
      ∀ k, bitAt W ws' k =
        if i * bw ≤ k ∧ k < i * bw + bw then v.testBit (k - i * bw) else bitAt W ws k := by
  unfold setWords
  simp only []
  have hd := div_mod_decomp W (i * bw)
  have hwi := field_wi hW hi hsz (fun h => by rw [h]; rfl)
  have hbi := Nat.mod_lt (i * bw) hW
  generalize i * bw = p at *
  generalize p / W = wi at *
  generalize p % W = bi at *
  by_cases hc : bi + bw ≤ W
  · rw [if_pos hc, readU_rd hwi]
    simp only [Out.bind_ok, Out.pure_eq]
    refine ⟨_, rfl, by simp, WordsOK_setIfInBounds hok _ _
      (or_lt (and_lt_left _ (rd_lt hok _)) (shlW_lt _ _ _)), ?_⟩
    by_cases h0 : bw = 0
    · subst h0
      intro k
      rw [bitAt_setIfInBounds W ws wi _ k hwi]
      have hr : ¬ (p ≤ k ∧ k < p + 0) := by omega
      rw [if_neg hr]
      by_cases hk : k / W = wi
      · rw [if_pos hk, testBit_setOne _ _ _ _ hbw hv (Nat.mod_lt k hW), if_neg (by omega), bitAt_rd, hk]
      · rw [if_neg hk]
    · have h := assemble hW (fun t => v.testBit t) ws (ws.setIfInBounds wi
          (rd ws wi &&& notW W (shlW W (maskOf W bw) bi) ||| shlW W v bi)) 0 p bw wi bi wi (by omega)
          hd hbi (by omega) (by omega)
        (by
          intro b hb
          rw [rd_set_self _ _ _ hwi, testBit_setOne _ _ _ _ hbw hv hb]
          by_cases c : bi ≤ b ∧ b - bi < bw
          · rw [if_pos c, if_pos (by omega)]; simp
          · rw [if_neg c, if_neg (by omega)])
        (by intro q h1 h2; omega) (by intro h; omega)
        (by intro q hq; rw [rd_set_ne _ _ _ _ (by omega)])
      intro k
      rw [h k]
      simp
  · rw [if_neg hc, readU_rd hwi]
    simp only [Out.bind_ok, Out.pure_eq]
    have hwi1 : wi + 1 < ws.size := by
      apply Nat.lt_of_not_le
      intro hge
      have := Nat.mul_le_mul_right W hge
      rw [Nat.add_mul, Nat.mul_comm ws.size] at this
      omega
    rw [readU_rd (by simp; omega), rd_set_ne _ _ _ _ (by omega)]
    simp only [Out.bind_ok]
    have hvW : v < 2 ^ W := Nat.lt_of_lt_of_le hv (Nat.pow_le_pow_right (by omega) hbw)
    refine ⟨_, rfl, by simp, ?_, ?_⟩
    · exact WordsOK_setIfInBounds (WordsOK_setIfInBounds hok _ _
        (or_lt (and_lt_left _ (rd_lt hok _)) (shlW_lt _ _ _))) _ _
        (or_lt (and_lt_left _ (rd_lt hok _)) (shiftRight_lt _ hvW))
    · have h := assemble hW (fun t => v.testBit t) ws ((ws.setIfInBounds wi
          (rd ws wi &&& lowMask bi ||| shlW W v bi)).setIfInBounds (wi + 1)
          (rd ws (wi + 1) &&& notW W (maskOf W bw >>> (W - bi)) ||| v >>> (W - bi)))
          0 p bw wi bi (wi + 1) (by omega) hd hbi (by rw [Nat.add_mul]; omega)
          (by rw [Nat.add_mul]; omega)
        (by
          intro b hb
          rw [rd_set_ne _ _ _ _ (by omega), rd_set_self _ _ _ hwi, testBit_setLo _ _ _ _ hb]
          by_cases c : bi ≤ b
          · rw [if_pos c, if_pos (by omega)]; simp
          · rw [if_neg c, if_neg (by omega)])
        (by intro q h1 h2; omega)
        (by
          intro _ b hb
          rw [rd_set_self _ _ _ (by simp; omega), testBit_setHi _ _ _ _ hbw hv hb, Nat.add_mul,
            Nat.one_mul]
          by_cases c : W - bi + b < bw
          · rw [if_pos c, if_pos (by omega)]
            show v.testBit _ = v.testBit _
            congr 1; omega
          · rw [if_neg c, if_neg (by omega)])
        (by intro q hq; rw [rd_set_ne _ _ _ _ (by omega), rd_set_ne _ _ _ _ (by omega)])
      intro k
      rw [h k]
      simp

theorem fits_iff' (W bw v : Nat) (h : bw ≤ W) : fits W bw v = true ↔ v < 2 ^ bw := by
  unfold fits
  rw [beq_iff_eq]
  constructor
  · intro e
    apply Nat.lt_pow_two_of_testBit
    intro j hj
    rw [← e, Nat.testBit_and, testBit_maskOf h]
    have : ¬ j < bw := by omega
    simp [this]
  · intro hv
    apply Nat.eq_of_testBit_eq
    intro j
    rw [Nat.testBit_and, testBit_maskOf h]
    by_cases hj : j < bw
    · simp [hj]
    · rw [testBit_ge_of_lt hv (by omega)]; simp

theorem get_inv (W : Nat) (hW : 0 < W) (s : St) (h : s.Inv W) (i : Nat) :
    get W s i = if i ≥ s.len then .panic else .ok (valAt W s.words s.bw i) := by
  unfold get
  by_cases hi : i ≥ s.len
  · rw [if_pos hi, if_pos hi]
  · rw [if_neg hi, if_neg hi]
    obtain ⟨h1, h2, h3, h4⟩ := h
    have := succ_mul_le s.bw (show i < s.len by omega)
    exact getU_arr hW s h1 h4 h3 i (by omega)

theorem set_inv (W : Nat) (hW : 0 < W) (s : St) (h : s.Inv W) (i v : Nat) :
    (i ≥ s.len ∨ ¬ v < 2 ^ s.bw) ∧ set W s i v = .panic ∨
    i < s.len ∧ v < 2 ^ s.bw ∧ ∃ ws', set W s i v = .ok { s with words := ws' } ∧
      ws'.size = s.words.size ∧ WordsOK W ws' ∧
      ∀ k, bitAt W ws' k =
        if i * s.bw ≤ k ∧ k < i * s.bw + s.bw then v.testBit (k - i * s.bw) else bitAt W s.words k := by
  obtain ⟨h1, h2, h3, h4⟩ := h
  unfold set
  by_cases hi : i ≥ s.len
  · left; exact ⟨Or.inl hi, by rw [if_pos hi]⟩
  · rw [if_neg hi]
    by_cases hv : v < 2 ^ s.bw
    · right
      have hfit : fits W s.bw v = true := (fits_iff' W s.bw v h1).2 hv
      rw [hfit]
      simp only [Bool.not_true, Bool.false_eq_true, if_false]
      have := succ_mul_le s.bw (show i < s.len by omega)
      obtain ⟨ws', e, r⟩ := setWords_arr hW s.words h4 s.bw i v h1 h3 (by omega) hv
      refine ⟨by omega, hv, ws', ?_, r⟩
      unfold setU
      rw [e]; rfl
    · left
      have hfit : fits W s.bw v = false := by
        cases hf : fits W s.bw v with
        | false => rfl
        | true => exact absurd ((fits_iff' W s.bw v h1).1 hf) hv
      rw [hfit]
      exact ⟨Or.inr hv, rfl⟩

/-- `dst[lo + k] = c[k]` for `k < n` -/
theorem writeback (c : Array Nat) (lo : Nat) : ∀ (n : Nat) (ws : Array Nat), lo + n ≤ ws.size →
    ((List.range n).foldl (fun ws k => ws.setIfInBounds (lo + k) (c.getD k 0)) ws).size = ws.size ∧
    ∀ q, rd ((List.range n).foldl (fun ws k => ws.setIfInBounds (lo + k) (c.getD k 0)) ws) q
      = if lo ≤ q ∧ q < lo + n then rd c (q - lo) else rd ws q := by
  intro n
  induction n with
  | zero =>
    intro ws _
    refine ⟨rfl, ?_⟩
    intro q
    rw [if_neg (by omega)]; rfl
  | succ n ih =>
    intro ws h
    obtain ⟨ih1, ih2⟩ := ih ws (by omega)
    rw [List.range_succ, List.foldl_append]
    simp only [List.foldl_cons, List.foldl_nil]
    refine ⟨by rw [Array.size_setIfInBounds]; exact ih1, ?_⟩
    intro q
    rw [rd_set, ih2 q, ih1]
    by_cases hq : q = lo + n
    · subst hq
      rw [if_pos ⟨rfl, by omega⟩, if_pos (by omega)]
      have : lo + n - lo = n := by omega
      rw [this]; rfl
    · rw [if_neg (by omega)]
      by_cases hq2 : lo ≤ q ∧ q < lo + n
      · rw [if_pos hq2, if_pos (by omega)]
      · rw [if_neg hq2, if_neg (by omega)]

/-- element-level reading of a single-field write -/
theorem vals_set_of_bits (W : Nat) (s : St) (ws' : Array Nat) (idx v : Nat) (_hidx : idx < s.len)
    (hv : v < 2 ^ s.bw)
    (bits : ∀ k, bitAt W ws' k = if idx * s.bw ≤ k ∧ k < idx * s.bw + s.bw
      then v.testBit (k - idx * s.bw) else bitAt W s.words k) :
    ({ s with words := ws' } : St).vals W = (s.vals W).set idx v := by
  apply List.ext_getElem
  · simp [vals_length]
  · intro t h1 h2
    rw [vals_getElem, List.getElem_set]
    have ht : t < s.len := by simpa [vals_length] using h1
    show valAt W ws' s.bw t = _
    by_cases hti : idx = t
    · subst hti
      rw [if_pos rfl]
      symm
      apply eq_valAt
      intro j
      by_cases hj : j < s.bw
      · rw [bits, if_pos (by omega)]
        have : idx * s.bw + j - idx * s.bw = j := by omega
        simp [hj, this]
      · rw [testBit_ge_of_lt hv (by omega)]; simp [hj]
    · rw [if_neg hti, vals_getElem]
      unfold valAt
      apply bitsVal_congr
      intro j hj
      rw [bits, if_neg]
      intro hc
      by_cases hlt : t < idx
      · have := succ_mul_le s.bw hlt; omega
      · have := succ_mul_le s.bw (show idx < t by omega); omega

/-! ## `try_chunks_mut` -/

theorem divCeil_zero (W : Nat) (hW : 0 < W) : divCeil 0 W = 0 := by
  unfold divCeil
  apply Nat.div_eq_of_lt
  omega

/-- geometry of chunk `j`: its word range is non-empty, inside the store, starts at the bit where
element `j * cs` starts, and is long enough for the chunk's elements -/
theorem chunk_geom (W : Nat) (hW : 0 < W) (len bw cs j sz : Nat) (hN : len * bw ≤ W * sz)
    (hc : len ≤ cs ∨ (cs * bw) % W = 0) (hcw : divCeil (cs * bw) W ≠ 0)
    (hjn : j * divCeil (cs * bw) W < divCeil (len * bw) W) :
    j * divCeil (cs * bw) W < min ((j + 1) * divCeil (cs * bw) W) (divCeil (len * bw) W) ∧
    min ((j + 1) * divCeil (cs * bw) W) (divCeil (len * bw) W) ≤ sz ∧
    min cs (len - j * cs) * bw
      ≤ W * (min ((j + 1) * divCeil (cs * bw) W) (divCeil (len * bw) W) - j * divCeil (cs * bw) W) ∧
    j * divCeil (cs * bw) W * W = j * cs * bw := by
  have hC : 0 < cs * bw := by
    apply Nat.pos_of_ne_zero
    intro h0
    rw [h0, divCeil_zero W hW] at hcw
    exact hcw rfl
  have hNpos : 0 < len * bw := by
    apply Nat.pos_of_ne_zero
    intro h0
    rw [h0, divCeil_zero W hW] at hjn
    omega
  obtain ⟨m, em, hm1, hm2⟩ := divCeil_arith W (len * bw) hW hNpos
  obtain ⟨c, ec, hc1, hc2⟩ := divCeil_arith W (cs * bw) hW hC
  simp only [em, ec] at hjn hcw ⊢
  have hmsz : m < sz := by
    apply Nat.lt_of_not_le
    intro hge
    have := Nat.mul_le_mul_right W hge
    rw [Nat.mul_comm W] at hN
    omega
  have hlo1 : j * (c + 1) < (j + 1) * (c + 1) := by rw [Nat.add_mul]; omega
  have hnwW : (m + 1) * W = m * W + W := by rw [Nat.add_mul, Nat.one_mul]
  have hcwW : (c + 1) * W = c * W + W := by rw [Nat.add_mul, Nat.one_mul]
  refine ⟨by omega, by omega, ?_⟩
  by_cases hdiv : (cs * bw) % W = 0
  · -- the chunk size in bits is a whole number of words
    have hCW : cs * bw = (c + 1) * W := by
      by_cases ht : cs * bw = c * W + W
      · rw [hcwW]; exact ht
      · exfalso
        obtain ⟨_, e4⟩ := div_mod_of_range W c (cs * bw) (by omega) (by omega)
        omega
    have hX : j * (c + 1) * W = j * cs * bw := by
      rw [Nat.mul_assoc, ← hCW, Nat.mul_assoc]
    refine ⟨?_, hX⟩
    have h1 : min cs (len - j * cs) * bw ≤ cs * bw := Nat.mul_le_mul_right bw (Nat.min_le_left _ _)
    have h2 : min cs (len - j * cs) * bw ≤ len * bw - j * cs * bw := by
      rw [← Nat.sub_mul]
      exact Nat.mul_le_mul_right bw (Nat.min_le_right _ _)
    by_cases hle : (j + 1) * (c + 1) ≤ m + 1
    · rw [Nat.min_eq_left hle]
      have : (j + 1) * (c + 1) - j * (c + 1) = c + 1 := by rw [Nat.add_mul]; omega
      rw [this, Nat.mul_comm W, ← hCW]
      exact h1
    · rw [Nat.min_eq_right (show m + 1 ≤ (j + 1) * (c + 1) by omega)]
      have e : W * (m + 1 - j * (c + 1)) = (m + 1) * W - j * (c + 1) * W := by
        rw [Nat.mul_comm, Nat.sub_mul]
      rw [e, hX, hnwW]
      omega
  · -- a single chunk holding the whole vector
    have hlen : len ≤ cs := by
      cases hc with
      | inl h => exact h
      | inr h => exact absurd h hdiv
    have hNC : len * bw ≤ cs * bw := Nat.mul_le_mul_right bw hlen
    have hmc : m ≤ c := by
      apply Nat.le_of_not_lt
      intro hlt
      have := succ_mul_le W hlt
      omega
    have hj0 : j = 0 := by
      apply Nat.eq_zero_of_not_pos
      intro hpos
      have : c + 1 ≤ j * (c + 1) := Nat.le_mul_of_pos_left _ hpos
      omega
    subst hj0
    simp only [Nat.zero_mul, Nat.zero_add, Nat.one_mul, Nat.sub_zero]
    refine ⟨?_, trivial⟩
    rw [Nat.min_eq_right (by omega : m + 1 ≤ c + 1), Nat.min_eq_right hlen, Nat.mul_comm W, hnwW]
    exact hm2

theorem extract_facts (W : Nat) (ws : Array Nat) (lo hi : Nat) (hhi : hi ≤ ws.size)
    (hok : WordsOK W ws) :
    (ws.extract lo hi).size = hi - lo ∧ WordsOK W (ws.extract lo hi) ∧
    (∀ q, q < hi - lo → rd (ws.extract lo hi) q = rd ws (lo + q)) ∧
    ∀ k, k < (hi - lo) * W → bitAt W (ws.extract lo hi) k = bitAt W ws (lo * W + k) := by
  have hsz : (ws.extract lo hi).size = hi - lo := by
    rw [Array.size_extract, Nat.min_eq_left hhi]
  have hrd : ∀ q, q < hi - lo → rd (ws.extract lo hi) q = rd ws (lo + q) := by
    intro q hq
    unfold rd
    simp only [Array.getD_eq_getD_getElem?, Array.getElem?_extract, Nat.min_eq_left hhi, hq, if_true]
  refine ⟨hsz, ?_, hrd, ?_⟩
  · apply WordsOK_of_getD
    intro i hi'
    rw [hsz] at hi'
    have := hrd i hi'
    unfold rd at this
    rw [this]
    exact getD_lt_of_WordsOK hok _
  · intro k hk
    by_cases hW : W = 0
    · subst hW; omega
    · have hW' : 0 < W := by omega
      have hd := div_mod_decomp W k
      have hr := Nat.mod_lt k hW'
      have hq : k / W < hi - lo := by
        apply Nat.lt_of_not_le
        intro hge
        have := Nat.mul_le_mul_right W hge
        omega
      rw [bitAt_rd, hrd _ hq]
      have e : lo * W + k = (lo + k / W) * W + k % W := by rw [Nat.add_mul]; omega
      rw [e, bitAt_word _ _ _ hr]

/-- the `St` that `ChunksMut::next` hands out for chunk `j` -/
def chunkSt (W : Nat) (s : St) (cs j : Nat) : St :=
  { words := s.words.extract (j * divCeil (cs * s.bw) W)
      (min ((j + 1) * divCeil (cs * s.bw) W) (divCeil (s.len * s.bw) W)),
    bw := s.bw, len := min cs (s.len - j * cs) }

/-- the write-back of a chunk's words -/
def chunkBack (ws c' : Array Nat) (lo n : Nat) : Array Nat :=
  (List.range n).foldl (fun ws k => ws.setIfInBounds (lo + k) (c'.getD k 0)) ws

theorem chunkOp_eq (W : Nat) (s : St) (cs j i : Nat) (v : Option Nat) :
    chunkOp W s cs j i v =
      if s.len ≤ cs || (cs * s.bw) % W == 0 then
        if divCeil (s.len * s.bw) W > s.words.size then .panic
        else if divCeil (cs * s.bw) W == 0 then .panic
        else if j * divCeil (cs * s.bw) W ≥ divCeil (s.len * s.bw) W then .ok .noChunk
        else match v with
          | some v => (set W (chunkSt W s cs j) i v) >>= fun c' =>
              .ok (.done ⟨chunkBack s.words c'.words (j * divCeil (cs * s.bw) W)
                (min ((j + 1) * divCeil (cs * s.bw) W) (divCeil (s.len * s.bw) W)
                  - j * divCeil (cs * s.bw) W), s.bw, s.len⟩)
          | none => (get W (chunkSt W s cs j) i) >>= fun x => .ok (.value x)
      else .ok .err := by
  unfold chunkOp chunkSt chunkBack
  cases v <;> rfl

theorem divCeil_exact (W C : Nat) (hW : 0 < W) (hC : 0 < C) (hdiv : C % W = 0) :
    divCeil C W * W = C := by
  obtain ⟨c, ec, hc1, hc2⟩ := divCeil_arith W C hW hC
  rw [ec, Nat.add_mul, Nat.one_mul]
  by_cases ht : C = c * W + W
  · exact ht.symm
  · exfalso
    obtain ⟨_, e4⟩ := div_mod_of_range W c C (by omega) (by omega)
    omega

theorem divCeil_le_size (W N sz : Nat) (hW : 0 < W) (h : N ≤ W * sz) : divCeil N W ≤ sz := by
  by_cases hN : N = 0
  · subst hN; rw [divCeil_zero W hW]; omega
  · obtain ⟨m, em, hm1, hm2⟩ := divCeil_arith W N hW (by omega)
    rw [em]
    apply Nat.lt_of_not_le
    intro hge
    have := Nat.mul_le_mul_right W hge
    rw [Nat.mul_comm W] at h
    omega

/-- a chunk index that addresses an existing element is produced by the iterator -/
theorem chunk_reach (W : Nat) (hW : 0 < W) (len bw cs j : Nat)
    (hc : len ≤ cs ∨ (cs * bw) % W = 0) (hpos : 0 < cs * bw) (hj : j * cs < len) :
    divCeil (cs * bw) W ≠ 0 ∧ j * divCeil (cs * bw) W < divCeil (len * bw) W := by
  have hbw : 0 < bw := Nat.pos_of_mul_pos_left hpos
  have hNpos : 0 < len * bw := Nat.mul_pos (by omega) hbw
  obtain ⟨m, em, hm1, hm2⟩ := divCeil_arith W (len * bw) hW hNpos
  obtain ⟨c, ec, hc1, hc2⟩ := divCeil_arith W (cs * bw) hW hpos
  refine ⟨by omega, ?_⟩
  by_cases hdiv : (cs * bw) % W = 0
  · have hex := divCeil_exact W (cs * bw) hW hpos hdiv
    have h1 := succ_mul_le bw hj
    have h2 : j * divCeil (cs * bw) W * W = j * cs * bw := by
      rw [Nat.mul_assoc, hex, Nat.mul_assoc]
    rw [em]
    apply Nat.lt_of_mul_lt_mul_right (a := W)
    rw [h2, Nat.add_mul, Nat.one_mul]
    omega
  · have hlen : len ≤ cs := by
      cases hc with
      | inl h => exact h
      | inr h => exact absurd h hdiv
    have hj0 : j = 0 := by
      apply Nat.eq_zero_of_not_pos
      intro hp
      have : cs ≤ j * cs := Nat.le_mul_of_pos_left _ hp
      omega
    subst hj0
    omega

/-- chunk `j` as a `St`: satisfies the invariant, and its bits are the bits of the parent starting
at element `j * cs` -/
theorem chunkSt_facts (W : Nat) (hW : 0 < W) (s : St) (h : s.Inv W) (cs j : Nat)
    (hc : s.len ≤ cs ∨ (cs * s.bw) % W = 0) (hcw : divCeil (cs * s.bw) W ≠ 0)
    (hjn : j * divCeil (cs * s.bw) W < divCeil (s.len * s.bw) W) :
    (chunkSt W s cs j).Inv W ∧
    j * divCeil (cs * s.bw) W + (chunkSt W s cs j).words.size ≤ s.words.size ∧
    (chunkSt W s cs j).words.size = min ((j + 1) * divCeil (cs * s.bw) W) (divCeil (s.len * s.bw) W)
      - j * divCeil (cs * s.bw) W ∧
    j * divCeil (cs * s.bw) W * W = j * cs * s.bw ∧
    ∀ k, k < (chunkSt W s cs j).words.size * W →
      bitAt W (chunkSt W s cs j).words k = bitAt W s.words (j * cs * s.bw + k) := by
  obtain ⟨h1, h2, h3, h4⟩ := h
  obtain ⟨g1, g2, g3, g4⟩ := chunk_geom W hW s.len s.bw cs j s.words.size h2 hc hcw hjn
  obtain ⟨e1, e2, e3, e4⟩ := extract_facts W s.words (j * divCeil (cs * s.bw) W)
    (min ((j + 1) * divCeil (cs * s.bw) W) (divCeil (s.len * s.bw) W)) g2 h4
  refine ⟨⟨h1, ?_, ?_, e2⟩, ?_, e1, g4, ?_⟩
  · show min cs (s.len - j * cs) * s.bw ≤ W * (s.words.extract _ _).size
    rw [e1]; exact g3
  · show 1 ≤ (s.words.extract _ _).size
    rw [e1]; omega
  · show _ + (s.words.extract _ _).size ≤ _
    rw [e1]; omega
  · intro k hk
    have hk' : k < (min ((j + 1) * divCeil (cs * s.bw) W) (divCeil (s.len * s.bw) W)
        - j * divCeil (cs * s.bw) W) * W := by
      have : (chunkSt W s cs j).words.size = _ := e1
      rw [this] at hk; exact hk
    rw [← g4]
    exact e4 k hk'

theorem chunk_get (W : Nat) (hW : 0 < W) (s : St) (h : s.Inv W) (cs j i : Nat)
    (hc : s.len ≤ cs ∨ (cs * s.bw) % W = 0) (hpos : 0 < cs * s.bw) (hj : j * cs < s.len)
    (hi : i < min cs (s.len - j * cs)) :
    chunkOp W s cs j i none = .ok (.value (valAt W s.words s.bw (j * cs + i))) := by
  obtain ⟨hcw, hjn⟩ := chunk_reach W hW s.len s.bw cs j hc hpos hj
  obtain ⟨cinv, f1, f2, f3, f4⟩ := chunkSt_facts W hW s h cs j hc hcw hjn
  rw [chunkOp_eq]
  have c0 : (decide (s.len ≤ cs) || (cs * s.bw) % W == 0) = true := by
    cases hc with
    | inl h => simp [h]
    | inr h => simp [h]
  have c1 : ¬ (divCeil (s.len * s.bw) W > s.words.size) := by
    have := divCeil_le_size W _ _ hW h.2.1
    omega
  have c2 : (divCeil (cs * s.bw) W == 0) = false := by simp [hcw]
  rw [c0, if_pos rfl, if_neg c1, c2]
  simp only [Bool.false_eq_true, if_false]
  rw [if_neg (by omega)]
  rw [get_inv W hW _ cinv i]
  have hlen : (chunkSt W s cs j).len = min cs (s.len - j * cs) := rfl
  rw [if_neg (by rw [hlen]; omega)]
  simp only [Out.bind_ok]
  congr 2
  show valAt W (chunkSt W s cs j).words s.bw i = _
  unfold valAt
  apply bitsVal_congr
  intro t ht
  have hfit := cinv.2.1
  rw [hlen] at hfit
  have hb : (chunkSt W s cs j).bw = s.bw := rfl
  rw [hb] at hfit
  have := succ_mul_le s.bw hi
  have ht' : t < s.bw := ht
  have e := Nat.mul_comm W (chunkSt W s cs j).words.size
  rw [f4 _ (by omega)]
  congr 1
  rw [Nat.add_mul]; omega

theorem chunkBack_bits (W : Nat) (hW : 0 < W) (ws c : Array Nat) (lo n : Nat) (h : lo + n ≤ ws.size)
    (hok : WordsOK W ws) (hcok : WordsOK W c) :
    (chunkBack ws c lo n).size = ws.size ∧ WordsOK W (chunkBack ws c lo n) ∧
    ∀ k, bitAt W (chunkBack ws c lo n) k =
      if lo * W ≤ k ∧ k < lo * W + n * W then bitAt W c (k - lo * W) else bitAt W ws k := by
  obtain ⟨w1, w2⟩ := writeback c lo n ws h
  have hsz : (chunkBack ws c lo n).size = ws.size := w1
  have hrd : ∀ q, rd (chunkBack ws c lo n) q
      = if lo ≤ q ∧ q < lo + n then rd c (q - lo) else rd ws q := w2
  refine ⟨hsz, ?_, ?_⟩
  · apply WordsOK_of_getD
    intro i _
    have := hrd i
    unfold rd at this
    rw [this]
    split
    · exact getD_lt_of_WordsOK hcok _
    · exact getD_lt_of_WordsOK hok _
  · apply bitAt_ext_word hW
    intro q r hr
    rw [hrd q]
    by_cases hq : lo ≤ q ∧ q < lo + n
    · have a1 := Nat.mul_le_mul_right W hq.1
      have a2 := succ_mul_le W hq.2
      rw [Nat.add_mul] at a2
      rw [if_pos hq, if_pos (by omega)]
      obtain ⟨e, rfl⟩ : ∃ e, q = lo + e := ⟨q - lo, by omega⟩
      have e1 : lo + e - lo = e := by omega
      have e2 : (lo + e) * W + r - lo * W = e * W + r := by rw [Nat.add_mul]; omega
      rw [e1, e2, bitAt_word _ _ _ hr]
    · rw [if_neg hq, bitAt_word _ _ _ hr]
      by_cases hlt : q < lo
      · have := succ_mul_le W hlt
        rw [if_neg (by omega)]
      · have : lo + n ≤ q := by omega
        have := Nat.mul_le_mul_right W this
        rw [Nat.add_mul] at this
        rw [if_neg (by omega)]

theorem chunk_set (W : Nat) (hW : 0 < W) (s : St) (h : s.Inv W) (cs j i v : Nat)
    (hc : s.len ≤ cs ∨ (cs * s.bw) % W = 0) (hpos : 0 < cs * s.bw) (hj : j * cs < s.len)
    (hi : i < min cs (s.len - j * cs)) (hv : v < 2 ^ s.bw) :
    ∃ s', chunkOp W s cs j i (some v) = .ok (.done s') ∧ s'.len = s.len ∧ s'.bw = s.bw ∧
      s'.words.size = s.words.size ∧ s'.Inv W ∧
      (∀ k, bitAt W s'.words k =
        if (j * cs + i) * s.bw ≤ k ∧ k < (j * cs + i) * s.bw + s.bw
        then v.testBit (k - (j * cs + i) * s.bw) else bitAt W s.words k) ∧
      s'.vals W = (s.vals W).set (j * cs + i) v := by
  obtain ⟨hcw, hjn⟩ := chunk_reach W hW s.len s.bw cs j hc hpos hj
  obtain ⟨cinv, f1, f2, f3, f4⟩ := chunkSt_facts W hW s h cs j hc hcw hjn
  rw [chunkOp_eq]
  have c0 : (decide (s.len ≤ cs) || (cs * s.bw) % W == 0) = true := by
    cases hc with
    | inl h => simp [h]
    | inr h => simp [h]
  have c1 : ¬ (divCeil (s.len * s.bw) W > s.words.size) := by
    have := divCeil_le_size W _ _ hW h.2.1
    omega
  have c2 : (divCeil (cs * s.bw) W == 0) = false := by simp [hcw]
  rw [c0, if_pos rfl, if_neg c1, c2]
  simp only [Bool.false_eq_true, if_false]
  rw [if_neg (by omega)]
  have hlen : (chunkSt W s cs j).len = min cs (s.len - j * cs) := rfl
  have hb : (chunkSt W s cs j).bw = s.bw := rfl
  rcases set_inv W hW _ cinv i v with ⟨hbad, _⟩ | ⟨_, _, ws', e, sz', ok', bits'⟩
  · rw [hlen, hb] at hbad
    omega
  · rw [e]
    simp only [Out.bind_ok]
    rw [← f2]
    obtain ⟨b1, b2, b3⟩ := chunkBack_bits W hW s.words ws' (j * divCeil (cs * s.bw) W)
      (chunkSt W s cs j).words.size f1 h.2.2.2 ok'
    have hidx : j * cs + i < s.len := by omega
    have hfit := cinv.2.1
    rw [hlen, hb] at hfit
    have hin := succ_mul_le s.bw hi
    have e1 := Nat.mul_comm W (chunkSt W s cs j).words.size
    have hbits : ∀ k, bitAt W (chunkBack s.words ws' (j * divCeil (cs * s.bw) W)
          (chunkSt W s cs j).words.size) k =
        if (j * cs + i) * s.bw ≤ k ∧ k < (j * cs + i) * s.bw + s.bw
        then v.testBit (k - (j * cs + i) * s.bw) else bitAt W s.words k := by
      intro k
      rw [b3 k, f3, Nat.add_mul]
      by_cases hk : j * cs * s.bw ≤ k ∧ k < j * cs * s.bw + (chunkSt W s cs j).words.size * W
      · rw [if_pos hk, bits' _, hb]
        by_cases hk2 : i * s.bw ≤ k - j * cs * s.bw ∧ k - j * cs * s.bw < i * s.bw + s.bw
        · rw [if_pos hk2, if_pos (by omega)]
          congr 1; omega
        · rw [if_neg hk2, if_neg (by omega), f4 _ (by omega)]
          congr 1; omega
      · rw [if_neg hk, if_neg (by omega)]
    refine ⟨_, rfl, rfl, rfl, b1, ⟨h.1, by rw [b1]; exact h.2.1, by rw [b1]; exact h.2.2.1, b2⟩,
      hbits, ?_⟩
    exact vals_set_of_bits W s _ (j * cs + i) v hidx hv hbits

/-- all outcomes of a chunk operation: `Err` exactly when the chunk size is not word aligned and
more than one chunk would be needed; otherwise a panic (`chunks_mut(0)`, index or value out of
range), "no such chunk", or the result — never an out-of-bounds unchecked access -/
theorem chunk_outcomes (W : Nat) (hW : 0 < W) (s : St) (h : s.Inv W) (cs j i : Nat) (v : Option Nat) :
    (¬ (s.len ≤ cs ∨ (cs * s.bw) % W = 0) ∧ chunkOp W s cs j i v = .ok .err) ∨
    ((s.len ≤ cs ∨ (cs * s.bw) % W = 0) ∧
      (chunkOp W s cs j i v = .panic ∨ chunkOp W s cs j i v = .ok .noChunk ∨
        (∃ s', chunkOp W s cs j i v = .ok (.done s')) ∨
        (∃ x, chunkOp W s cs j i v = .ok (.value x)))) := by
  rw [chunkOp_eq]
  by_cases hc : s.len ≤ cs ∨ (cs * s.bw) % W = 0
  · right
    refine ⟨hc, ?_⟩
    have c0 : (decide (s.len ≤ cs) || (cs * s.bw) % W == 0) = true := by
      cases hc with
      | inl h => simp [h]
      | inr h => simp [h]
    rw [c0, if_pos rfl]
    have c1 : ¬ (divCeil (s.len * s.bw) W > s.words.size) := by
      have := divCeil_le_size W _ _ hW h.2.1
      omega
    rw [if_neg c1]
    by_cases hcw : divCeil (cs * s.bw) W = 0
    · left
      simp [hcw]
    · have c2 : (divCeil (cs * s.bw) W == 0) = false := by simp [hcw]
      rw [c2]
      simp only [Bool.false_eq_true, if_false]
      by_cases hjn : j * divCeil (cs * s.bw) W ≥ divCeil (s.len * s.bw) W
      · right; left
        rw [if_pos hjn]
      · rw [if_neg hjn]
        obtain ⟨cinv, _⟩ := chunkSt_facts W hW s h cs j hc hcw (by omega)
        cases v with
        | none =>
          simp only []
          rw [get_inv W hW _ cinv i]
          by_cases hi : i ≥ (chunkSt W s cs j).len
          · left; rw [if_pos hi]; rfl
          · right; right; right
            rw [if_neg hi]
            exact ⟨_, rfl⟩
        | some v =>
          simp only []
          rcases set_inv W hW _ cinv i v with ⟨_, e⟩ | ⟨_, _, ws', e, _⟩
          · left; rw [e]; rfl
          · right; right; left
            rw [e]
            exact ⟨_, rfl⟩
  · left
    refine ⟨hc, ?_⟩
    have c0 : (decide (s.len ≤ cs) || (cs * s.bw) % W == 0) = false := by
      have h1 : ¬ s.len ≤ cs := fun h => hc (Or.inl h)
      have h2 : ¬ (cs * s.bw) % W = 0 := fun h => hc (Or.inr h)
      simp [h1, h2]
    rw [c0]
    simp

theorem chunk_err_iff' (W : Nat) (hW : 0 < W) (s : St) (h : s.Inv W) (cs j i : Nat) (v : Option Nat) :
    chunkOp W s cs j i v = .ok .err ↔ ¬ (s.len ≤ cs ∨ (cs * s.bw) % W = 0) := by
  rcases chunk_outcomes W hW s h cs j i v with ⟨h1, h2⟩ | ⟨h1, h2⟩
  · exact ⟨fun _ => h1, fun _ => h2⟩
  · constructor
    · intro e
      rcases h2 with h2 | h2 | ⟨_, h2⟩ | ⟨_, h2⟩ <;> rw [h2] at e <;> cases e
    · intro hn; exact absurd h1 hn

theorem chunk_no_oob' (W : Nat) (hW : 0 < W) (s : St) (h : s.Inv W) (cs j i : Nat) (v : Option Nat) :
    chunkOp W s cs j i v ≠ .oob := by
  intro e
  rcases chunk_outcomes W hW s h cs j i v with ⟨_, h2⟩ | ⟨_, h2 | h2 | ⟨_, h2⟩ | ⟨_, h2⟩⟩ <;>
    rw [h2] at e <;> cases e

/-- `chunks_mut(0)`: chunk size 0 or bit width 0 panics (when `Err` is not returned first) -/
theorem chunk_zero (W : Nat) (hW : 0 < W) (s : St) (h : s.Inv W) (cs j i : Nat) (v : Option Nat)
    (hc : s.len ≤ cs ∨ (cs * s.bw) % W = 0) (h0 : cs * s.bw = 0) :
    chunkOp W s cs j i v = .panic := by
  rw [chunkOp_eq]
  have c0 : (decide (s.len ≤ cs) || (cs * s.bw) % W == 0) = true := by
    cases hc with
    | inl h => simp [h]
    | inr h => simp [h]
  have c1 : ¬ (divCeil (s.len * s.bw) W > s.words.size) := by
    have := divCeil_le_size W _ _ hW h.2.1
    omega
  rw [c0, if_pos rfl, if_neg c1, h0, divCeil_zero W hW]
  simp

/-- `get_unaligned` agrees with `get` -/
theorem unaligned_get' (W : Nat) (h8 : 8 ∣ W) (hW : 0 < W) (s : St) (h : s.Inv W) (i : Nat)
    (hi : i < s.len) (hadm : s.bw ≤ W - 8 + 2 ∨ s.bw = W - 8 + 4 ∨ s.bw = W)
    (hpad : (i * s.bw) / 8 + W / 8 ≤ s.words.size * (W / 8)) :
    getUnaligned W s i = get W s i := by
  rw [unaligned_get W h8 hW s h i hi hadm hpad, get_inv W hW s h i, if_neg (by omega)]

end Sux.BFV.C10
