import SuxModel.BitFieldVec.Model
/-!
# `get_unaligned` never reads outside the backing words (for C12)

The three `assert!`s of `BitFieldVec::get_unaligned` (admissible width, `index < len`, the `W/8`
bytes starting at the byte of the first bit lie inside the backing store) make the unaligned read
safe for EVERY index, every width and every state: no representation invariant is needed, only
that the word size is a positive multiple of 8.
-/
namespace Sux.BFV

/-- if the `W/8 = B` bytes starting at byte `q` fit in `n` words of `B` bytes, the word holding the
first byte exists, and so does the next one whenever the read is not word-aligned -/
theorem unaligned_words_in_range {B q n : Nat} (hB : 0 < B) (hfit : q + B ≤ n * B) :
    8 * q / (8 * B) < n ∧ (8 * q % (8 * B) ≠ 0 → 8 * q / (8 * B) + 1 < n) := by
  have hdiv : 8 * q / (8 * B) = q / B := Nat.mul_div_mul_left q B (by omega)
  have hmod : 8 * q % (8 * B) = 8 * (q % B) := Nat.mul_mod_mul_left 8 q B
  rw [hdiv, hmod]
  have hdm := Nat.div_add_mod q B
  have hml := Nat.mod_lt q hB
  -- (q / B) * B + q % B + B ≤ n * B
  have h1 : q / B < n := by
    apply Nat.lt_of_mul_lt_mul_right (a := B)
    rw [Nat.mul_comm B (q / B)] at hdm
    omega
  refine ⟨h1, fun hne => ?_⟩
  have hpos : 0 < q % B := by omega
  apply Nat.lt_of_mul_lt_mul_right (a := B)
  rw [Nat.add_mul, Nat.one_mul]
  rw [Nat.mul_comm B (q / B)] at hdm
  omega

/-- **`get_unaligned(i)` answers or panics, for every `i` and every state.** -/
theorem getUnaligned_never_oob (W : Nat) (h8 : 8 ∣ W) (hW : 0 < W) (s : St) (i : Nat) :
    getUnaligned W s i ≠ .oob := by
  obtain ⟨B, rfl⟩ := h8
  have hB : 0 < B := by omega
  have hdiv : 8 * B / 8 = B := Nat.mul_div_cancel_left B (by omega)
  unfold getUnaligned
  simp only [hdiv]
  split
  · intro e; cases e
  · split
    · intro e; cases e
    · split
      · intro e; cases e
      · rename_i hfit
        have hfit' : i * s.bw / 8 + B ≤ s.words.size * B := by omega
        obtain ⟨h0, h1⟩ := unaligned_words_in_range hB hfit'
        have r0 : ∃ w0, Out.readU s.words (8 * (i * s.bw / 8) / (8 * B)) = .ok w0 := by
          unfold Out.readU
          rw [Array.getElem?_eq_getElem h0]
          exact ⟨_, rfl⟩
        obtain ⟨w0, e0⟩ := r0
        rw [e0]
        simp only [Out.bind_ok]
        by_cases hoff : 8 * (i * s.bw / 8) % (8 * B) = 0
        · simp only [hoff, beq_self_eq_true, if_true, Out.pure_eq, Out.bind_ok]
          intro e; cases e
        · have hne : (8 * (i * s.bw / 8) % (8 * B) == 0) = false := by simpa using hoff
          have r1 : ∃ w1, Out.readU s.words (8 * (i * s.bw / 8) / (8 * B) + 1) = .ok w1 := by
            unfold Out.readU
            rw [Array.getElem?_eq_getElem (h1 hoff)]
            exact ⟨_, rfl⟩
          obtain ⟨w1, e1⟩ := r1
          simp only [hne, e1, Out.bind_ok, Out.pure_eq]
          intro e; cases e

/-- the three panic branches, spelled out: inadmissible width, index out of range, missing padding -/
theorem getUnaligned_panics (W : Nat) (s : St) (i : Nat)
    (h : ¬ (s.bw ≤ W - 8 + 2 ∨ s.bw = W - 8 + 4 ∨ s.bw = W) ∨ s.len ≤ i ∨
      s.words.size * (W / 8) < i * s.bw / 8 + W / 8) :
    getUnaligned W s i = .panic := by
  unfold getUnaligned
  simp only
  by_cases hadm : (s.bw ≤ W - 8 + 2 ∨ s.bw = W - 8 + 4 ∨ s.bw = W)
  · have c1 : (!(decide (s.bw ≤ W - 8 + 2) || s.bw == W - 8 + 4 || s.bw == W)) = false := by
      rcases hadm with h | h | h <;> simp [h]
    rw [c1]
    simp only [Bool.false_eq_true, if_false]
    by_cases hi : i ≥ s.len
    · rw [if_pos hi]
    · rw [if_neg hi]
      have : i * s.bw / 8 + W / 8 > s.words.size * (W / 8) := by
        rcases h with h | h | h
        · exact absurd hadm h
        · omega
        · exact h
      rw [if_pos this]
  · have c1 : (!(decide (s.bw ≤ W - 8 + 2) || s.bw == W - 8 + 4 || s.bw == W)) = true := by
      simp only [not_or] at hadm
      obtain ⟨a, b, c⟩ := hadm
      simp [a, b, c]
    rw [c1]
    simp

end Sux.BFV
