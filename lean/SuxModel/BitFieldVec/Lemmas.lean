import SuxModel.Base.BitsLemmasBFV
import SuxModel.BitFieldVec.Spec
/-!
# Layout lemmas for `BitFieldVec` (C05 / C14): `bitsVal`, masks, one- and two-word field reads
and writes at an arbitrary bit position, `getU` / `setU` specifications.
-/
namespace Sux.BFV

/-! ## `bitsVal` -/

theorem bitsVal_lt (f : Nat → Bool) (n : Nat) : bitsVal f n < 2 ^ n := by
  induction n with
  | zero => simp [bitsVal]
  | succ n ih =>
    simp only [bitsVal]
    have : 2 ^ (n + 1) = 2 ^ n + 2 ^ n := by rw [Nat.pow_succ]; omega
    split <;> omega

theorem testBit_bitsVal (f : Nat → Bool) (n j : Nat) :
    (bitsVal f n).testBit j = (decide (j < n) && f j) := by
  induction n with
  | zero => simp [bitsVal]
  | succ n ih =>
    simp only [bitsVal]
    have hlt := bitsVal_lt f n
    by_cases hf : f n = true
    · rw [if_pos hf, Nat.add_comm]
      rcases Nat.lt_trichotomy j n with h | h | h
      · rw [Nat.testBit_two_pow_add_gt h, ih]
        have : j < n + 1 := by omega
        simp [h, this]
      · subst h
        rw [Nat.testBit_two_pow_add_eq, Nat.testBit_lt_two_pow hlt]
        simp [hf]
      · have h1 : 2 ^ n + bitsVal f n < 2 ^ j := by
          have : 2 ^ (n + 1) ≤ 2 ^ j := Nat.pow_le_pow_right (by omega) h
          rw [Nat.pow_succ] at this; omega
        rw [Nat.testBit_lt_two_pow h1]
        have : ¬ j < n + 1 := by omega
        simp [this]
    · have hf' : f n = false := by simpa using hf
      rw [if_neg hf, Nat.add_zero, ih]
      by_cases h : j = n
      · subst h; simp [hf']
      · have : (j < n + 1) ↔ (j < n) := by omega
        simp [this]

theorem bitsVal_congr {f g : Nat → Bool} {n : Nat} (h : ∀ j, j < n → f j = g j) :
    bitsVal f n = bitsVal g n := by
  apply Nat.eq_of_testBit_eq
  intro j
  rw [testBit_bitsVal, testBit_bitsVal]
  by_cases hj : j < n
  · simp [hj, h j hj]
  · simp [hj]

theorem bitsVal_testBit {v n : Nat} (h : v < 2 ^ n) : bitsVal (fun j => v.testBit j) n = v := by
  apply Nat.eq_of_testBit_eq
  intro j
  rw [testBit_bitsVal]
  by_cases hj : j < n
  · simp [hj]
  · have : n ≤ j := by omega
    simp [hj, testBit_ge_of_lt h this]

theorem bitsVal_false (n : Nat) : bitsVal (fun _ => false) n = 0 := by
  apply Nat.eq_of_testBit_eq; intro j; rw [testBit_bitsVal]; simp

/-- the `n`-bit field starting at bit position `p` of the store -/
def fieldAt (W : Nat) (ws : Array Nat) (p n : Nat) : Nat := bitsVal (fun j => bitAt W ws (p + j)) n

theorem valAt_eq_fieldAt (W : Nat) (ws : Array Nat) (bw i : Nat) :
    valAt W ws bw i = fieldAt W ws (i * bw) bw := rfl

theorem fieldAt_lt (W : Nat) (ws : Array Nat) (p n : Nat) : fieldAt W ws p n < 2 ^ n :=
  bitsVal_lt _ _

theorem valAt_lt_pow (W : Nat) (ws : Array Nat) (bw i : Nat) : valAt W ws bw i < 2 ^ bw :=
  bitsVal_lt _ _

theorem testBit_fieldAt (W : Nat) (ws : Array Nat) (p n j : Nat) :
    (fieldAt W ws p n).testBit j = (decide (j < n) && bitAt W ws (p + j)) :=
  testBit_bitsVal _ _ _

theorem fieldAt_congr {W : Nat} {ws ws' : Array Nat} {p n : Nat}
    (h : ∀ k, p ≤ k → k < p + n → bitAt W ws' k = bitAt W ws k) :
    fieldAt W ws' p n = fieldAt W ws p n :=
  bitsVal_congr (fun j hj => h (p + j) (by omega) (by omega))

/-! ## masks -/

theorem maskOf_eq (W bw : Nat) (h : bw ≤ W) : maskOf W bw = lowMask bw := by
  apply Nat.eq_of_testBit_eq
  intro j
  unfold maskOf
  rw [testBit_lowMask]
  by_cases h0 : bw = 0
  · subst h0; simp
  · have : (bw == 0) = false := by simpa using h0
    rw [this]
    simp only [Bool.false_eq_true, if_false]
    rw [Nat.testBit_shiftRight, testBit_allOnes]
    congr 1
    apply propext; omega

theorem fits_iff (W bw v : Nat) (h : bw ≤ W) : fits W bw v = true ↔ v < 2 ^ bw := by
  unfold fits
  rw [maskOf_eq W bw h]
  unfold lowMask
  rw [Nat.and_two_pow_sub_one_eq_mod]
  simp only [beq_iff_eq]
  constructor
  · intro h1; rw [← h1]; exact Nat.mod_lt _ (Nat.two_pow_pos bw)
  · intro h1; exact Nat.mod_eq_of_lt h1

/-! ## reading a field -/

theorem read_one {W : Nat} (hW : 0 < W) (ws : Array Nat) (p n : Nat) (hn : p % W + n ≤ W) :
    (ws.getD (p / W) 0 >>> (p % W)) &&& lowMask n = fieldAt W ws p n := by
  apply Nat.eq_of_testBit_eq
  intro j
  rw [Nat.testBit_and, Nat.testBit_shiftRight, testBit_lowMask, testBit_fieldAt]
  by_cases hj : j < n
  · unfold bitAt
    rw [pos_div_lo hW (by omega), pos_mod_lo (by omega)]
    simp [hj]
  · simp [hj]

theorem read_two {W : Nat} (hW : 0 < W) (ws : Array Nat) (hok : WordsOK W ws) (p n : Nat)
    (hn : n ≤ W) (_h : W < p % W + n) :
    ((ws.getD (p / W) 0 >>> (p % W)) ||| shlW W (ws.getD (p / W + 1) 0) (W - p % W)) &&& lowMask n
      = fieldAt W ws p n := by
  apply Nat.eq_of_testBit_eq
  intro j
  have hb : p % W < W := Nat.mod_lt _ hW
  rw [Nat.testBit_and, Nat.testBit_or, Nat.testBit_shiftRight, testBit_shlW, testBit_lowMask,
    testBit_fieldAt]
  by_cases hj : j < n
  · unfold bitAt
    by_cases hlo : p % W + j < W
    · rw [pos_div_lo hW hlo, pos_mod_lo hlo]
      have : ¬ (W - p % W ≤ j) := by omega
      simp [hj, this]
    · rw [pos_div_hi hW (by omega) (by omega), pos_mod_hi (by omega) (by omega)]
      rw [testBit_ge_of_lt (getD_lt hok _) (by omega : W ≤ p % W + j)]
      have h1 : j < W := by omega
      have h2 : W - p % W ≤ j := by omega
      have h3 : j - (W - p % W) = p % W + j - W := by omega
      simp [hj, h1, h2, h3]
  · simp [hj]

/-! ## writing a field: word-level bit characterisations -/

theorem set_one_bits {W : Nat} (w v b n : Nat) (hn : b + n ≤ W) (hv : v < 2 ^ n) (hw : w < 2 ^ W)
    (j : Nat) :
    ((w &&& notW W (shlW W (lowMask n) b)) ||| shlW W v b).testBit j
      = if b ≤ j ∧ j < b + n then v.testBit (j - b) else w.testBit j := by
  rw [Nat.testBit_or, Nat.testBit_and, testBit_notW, testBit_shlW, testBit_shlW, testBit_lowMask]
  by_cases hjW : j < W
  · by_cases hb : b ≤ j
    · by_cases hjn : j < b + n
      · have : j - b < n := by omega
        simp [hjW, hb, hjn, this]
      · have : ¬ j - b < n := by omega
        have hvf : v.testBit (j - b) = false := testBit_ge_of_lt hv (by omega)
        simp [hjW, hb, hjn, this, hvf]
    · simp [hjW, hb]
  · have : w.testBit j = false := testBit_ge_of_lt hw (by omega)
    have h2 : ¬ (b ≤ j ∧ j < b + n) := by omega
    simp [hjW, this, h2]

theorem set_one_lt {W : Nat} (w v b n : Nat) (hw : w < 2 ^ W) :
    ((w &&& notW W (shlW W (lowMask n) b)) ||| shlW W v b) < 2 ^ W :=
  Nat.or_lt_two_pow (and_lt_left _ hw) (shlW_lt W v b)

theorem set_two_lo_bits {W : Nat} (w v b : Nat) (hw : w < 2 ^ W) (j : Nat) :
    ((w &&& lowMask b) ||| shlW W v b).testBit j
      = if b ≤ j ∧ j < W then v.testBit (j - b) else w.testBit j := by
  rw [Nat.testBit_or, Nat.testBit_and, testBit_lowMask, testBit_shlW]
  by_cases hjW : j < W
  · by_cases hb : b ≤ j
    · have : ¬ j < b := by omega
      simp [hjW, hb, this]
    · have : j < b := by omega
      simp [hjW, hb, this]
  · have : w.testBit j = false := testBit_ge_of_lt hw (by omega)
    simp [hjW, this]

theorem set_two_lo_lt {W : Nat} (w v b : Nat) (hw : w < 2 ^ W) :
    ((w &&& lowMask b) ||| shlW W v b) < 2 ^ W :=
  Nat.or_lt_two_pow (and_lt_left _ hw) (shlW_lt W v b)

theorem set_two_hi_bits {W : Nat} (w v b n : Nat) (hb : b < W) (hn : n ≤ W) (hbn : W < b + n)
    (hv : v < 2 ^ n) (hw : w < 2 ^ W) (j : Nat) :
    ((w &&& notW W (lowMask n >>> (W - b))) ||| (v >>> (W - b))).testBit j
      = if j < b + n - W then v.testBit (W - b + j) else w.testBit j := by
  rw [Nat.testBit_or, Nat.testBit_and, testBit_notW, Nat.testBit_shiftRight, Nat.testBit_shiftRight,
    testBit_lowMask]
  by_cases hj : j < b + n - W
  · have h1 : j < W := by omega
    have h2 : W - b + j < n := by omega
    simp [hj, h1, h2]
  · have h2 : ¬ W - b + j < n := by omega
    have hvf : v.testBit (W - b + j) = false := testBit_ge_of_lt hv (by omega)
    by_cases hjW : j < W
    · simp [hj, hjW, h2, hvf]
    · have : w.testBit j = false := testBit_ge_of_lt hw (by omega)
      simp [hj, hjW, h2, hvf, this]

theorem set_two_hi_lt {W : Nat} (w v b n : Nat) (hn : n ≤ W) (hv : v < 2 ^ n) (hw : w < 2 ^ W) :
    ((w &&& notW W (lowMask n >>> (W - b))) ||| (v >>> (W - b))) < 2 ^ W := by
  apply Nat.or_lt_two_pow (and_lt_left _ hw)
  apply shiftRight_lt
  exact Nat.lt_of_lt_of_le hv (Nat.pow_le_pow_right (by omega) hn)

/-! ## `get_unchecked` / `set_unchecked` on the store, at a bit position `p` -/

/-- word-index facts for a field `[p, p + n)` inside a store of `sz` words -/
theorem field_word_lt {W p n sz : Nat} (hW : 0 < W) (hp : p + n ≤ W * sz)
    (hp0 : n = 0 → p = 0 ∧ 1 ≤ sz) : p / W < sz := by
  apply div_lt_of_lt_mul'
  by_cases h : n = 0
  · have := hp0 h
    have : W * 1 ≤ W * sz := Nat.mul_le_mul_left W this.2
    omega
  · omega

theorem field_word_succ_lt {W p n sz : Nat} (hW : 0 < W) (hp : p + n ≤ W * sz)
    (h : W < p % W + n) : p / W + 1 < sz := by
  have := div_mod_decomp hW p
  apply Nat.lt_of_mul_lt_mul_left (a := W)
  rw [Nat.mul_succ]; omega

/-- the read half of `getU` at a generalised position -/
theorem getU_pos {W : Nat} (hW : 0 < W) (ws : Array Nat) (hok : WordsOK W ws) (p n : Nat)
    (hn : n ≤ W) (hp : p + n ≤ W * ws.size) (hp0 : n = 0 → p = 0 ∧ 1 ≤ ws.size) :
    (if p % W + n ≤ W then do
        let w ← Out.readU ws (p / W)
        pure ((w >>> (p % W)) &&& lowMask n)
      else do
        let w0 ← Out.readU ws (p / W)
        let w1 ← Out.readU ws (p / W + 1)
        pure (((w0 >>> (p % W)) ||| shlW W w1 (W - p % W)) &&& lowMask n) : Out Nat)
      = .ok (fieldAt W ws p n) := by
  have hwi := field_word_lt hW hp hp0
  split
  · rename_i h
    rw [readU_of_lt _ _ hwi]
    simp only [Out.bind_ok, Out.pure_eq]
    rw [read_one hW ws p n h]
  · rename_i h
    have hwi1 := field_word_succ_lt hW hp (by omega : W < p % W + n)
    rw [readU_of_lt _ _ hwi, readU_of_lt _ _ hwi1]
    simp only [Out.bind_ok, Out.pure_eq]
    rw [read_two hW ws hok p n hn (by omega)]

theorem getU_words {W : Nat} (hW : 0 < W) (s : St) (hbw : s.bw ≤ W) (hok : WordsOK W s.words)
    (h1 : s.bw = 0 → 1 ≤ s.words.size) (i : Nat) (hi : (i + 1) * s.bw ≤ W * s.words.size) :
    getU W s i = .ok (valAt W s.words s.bw i) := by
  unfold getU
  simp only
  rw [maskOf_eq W s.bw hbw, valAt_eq_fieldAt]
  rw [Nat.succ_mul] at hi
  exact getU_pos hW s.words hok (i * s.bw) s.bw hbw hi (fun h => ⟨by rw [h]; rfl, h1 h⟩)

theorem getU_of_inv (W : Nat) (hW : 0 < W) (s : St) (h : s.Inv W) (i : Nat) (hi : i < s.len) :
    getU W s i = .ok (valAt W s.words s.bw i) := by
  obtain ⟨hbw, hlen, h1, hok⟩ := h
  apply getU_words hW s hbw hok (fun _ => h1)
  exact Nat.le_trans (succ_mul_le_of_lt hi) hlen

/-- one-word write: bits of the updated store -/
theorem set_store_one {W : Nat} (hW : 0 < W) (ws : Array Nat) (hok : WordsOK W ws) (p n v : Nat)
    (h : p % W + n ≤ W) (hwi : p / W < ws.size) (hv : v < 2 ^ n) (k : Nat) :
    bitAt W (ws.setIfInBounds (p / W)
        ((ws.getD (p / W) 0 &&& notW W (shlW W (lowMask n) (p % W))) ||| shlW W v (p % W))) k
      = if p ≤ k ∧ k < p + n then v.testBit (k - p) else bitAt W ws k := by
  unfold bitAt
  rw [getD_setIfInBounds']
  have hd := div_mod_decomp hW p
  have hk' := div_mod_decomp hW k
  by_cases hk : p / W = k / W
  · rw [if_pos ⟨hk, hwi⟩, set_one_bits _ _ _ _ h hv (getD_lt hok _)]
    rw [← hk] at hk'
    by_cases hin : p ≤ k ∧ k < p + n
    · rw [if_pos hin, if_pos (by omega)]
      congr 1; omega
    · rw [if_neg hin, if_neg (by omega), hk]
  · rw [if_neg (fun hh => hk hh.1)]
    have := lt_or_ge_of_div_ne hW (fun e => hk e.symm)
    rw [if_neg (by omega)]

/-- two-word write: bits of the updated store -/
theorem set_store_two {W : Nat} (hW : 0 < W) (ws : Array Nat) (hok : WordsOK W ws) (p n v : Nat)
    (hn : n ≤ W) (h : W < p % W + n) (hwi : p / W + 1 < ws.size) (hv : v < 2 ^ n) (k : Nat) :
    bitAt W ((ws.setIfInBounds (p / W) ((ws.getD (p / W) 0 &&& lowMask (p % W)) ||| shlW W v (p % W))).setIfInBounds
        (p / W + 1)
        ((ws.getD (p / W + 1) 0 &&& notW W (lowMask n >>> (W - p % W))) ||| (v >>> (W - p % W)))) k
      = if p ≤ k ∧ k < p + n then v.testBit (k - p) else bitAt W ws k := by
  unfold bitAt
  rw [getD_setIfInBounds', getD_setIfInBounds', Array.size_setIfInBounds]
  have hd := div_mod_decomp hW p
  have hk' := div_mod_decomp hW k
  by_cases hk1 : p / W + 1 = k / W
  · rw [if_pos ⟨hk1, hwi⟩, set_two_hi_bits _ _ _ _ hd.2 hn h hv (getD_lt hok _)]
    rw [← hk1, Nat.mul_succ] at hk'
    by_cases hin : p ≤ k ∧ k < p + n
    · rw [if_pos hin, if_pos (by omega)]
      congr 1; omega
    · rw [if_neg hin, if_neg (by omega), hk1]
  · rw [if_neg (fun hh => hk1 hh.1)]
    by_cases hk : p / W = k / W
    · rw [if_pos ⟨hk, by omega⟩, set_two_lo_bits _ _ _ (getD_lt hok _)]
      rw [← hk] at hk'
      by_cases hin : p ≤ k ∧ k < p + n
      · rw [if_pos hin, if_pos (by omega)]
        congr 1; omega
      · rw [if_neg hin, if_neg (by omega), hk]
    · rw [if_neg (fun hh => hk hh.1)]
      have h1 := lt_or_ge_of_div_ne hW (fun e => hk e.symm)
      have h2 := lt_or_ge_of_div_ne hW (fun e => hk1 e.symm)
      rw [Nat.mul_succ] at h2
      rw [if_neg (by omega)]

/-- `set_unchecked` on the store: total, size- and `WordsOK`-preserving, and it rewrites exactly
the bits `[i·bw, (i+1)·bw)` (C05 layout + C14 write frame) -/
theorem setWords_spec {W : Nat} (hW : 0 < W) (ws : Array Nat) (hok : WordsOK W ws) (bw i v : Nat)
    (hbw : bw ≤ W) (h1 : bw = 0 → 1 ≤ ws.size) (hi : (i + 1) * bw ≤ W * ws.size) (hv : v < 2 ^ bw) :
    ∃ ws', setWords W ws bw i v = .ok ws' ∧ ws'.size = ws.size ∧ WordsOK W ws' ∧
      ∀ k, bitAt W ws' k =
        if i * bw ≤ k ∧ k < (i + 1) * bw then v.testBit (k - i * bw) else bitAt W ws k := by
  unfold setWords
  simp only
  rw [maskOf_eq W bw hbw]
  rw [Nat.succ_mul] at hi ⊢
  have hp0 : bw = 0 → i * bw = 0 ∧ 1 ≤ ws.size := fun h => ⟨by rw [h]; rfl, h1 h⟩
  generalize i * bw = p at *
  have hwi := field_word_lt hW hi hp0
  split
  · rename_i h
    rw [readU_of_lt _ _ hwi]
    simp only [Out.bind_ok, Out.pure_eq]
    refine ⟨_, rfl, by simp, ?_, ?_⟩
    · exact WordsOK_setIfInBounds hok _ _ (set_one_lt _ _ _ _ (getD_lt hok _))
    · intro k; exact set_store_one hW ws hok p bw v h hwi hv k
  · rename_i h
    have hwi1 := field_word_succ_lt hW hi (by omega : W < p % W + bw)
    rw [readU_of_lt _ _ hwi]
    simp only [Out.bind_ok]
    rw [readU_of_lt _ _ (by simpa using hwi1), getD_setIfInBounds',
      if_neg (by omega)]
    simp only [Out.bind_ok, Out.pure_eq]
    refine ⟨_, rfl, by simp, ?_, ?_⟩
    · apply WordsOK_setIfInBounds
      · exact WordsOK_setIfInBounds hok _ _ (set_two_lo_lt _ _ _ (getD_lt hok _))
      · exact set_two_hi_lt _ _ _ _ hbw hv (getD_lt hok _)
    · intro k; exact set_store_two hW ws hok p bw v hbw (by omega) hwi1 hv k

theorem setU_of_inv (W : Nat) (hW : 0 < W) (s : St) (h : s.Inv W) (i v : Nat)
    (hi : (i + 1) * s.bw ≤ W * s.words.size) (hv : v < 2 ^ s.bw) :
    ∃ s', setU W s i v = .ok s' ∧ s'.len = s.len ∧ s'.bw = s.bw ∧ s'.words.size = s.words.size ∧
      WordsOK W s'.words ∧
      ∀ k, bitAt W s'.words k =
        if i * s.bw ≤ k ∧ k < (i + 1) * s.bw then v.testBit (k - i * s.bw) else bitAt W s.words k := by
  obtain ⟨hbw, _, h1, hok⟩ := h
  obtain ⟨ws', e, hsz, hok', hbits⟩ := setWords_spec hW s.words hok s.bw i v hbw (fun _ => h1) hi hv
  refine ⟨{ s with words := ws' }, ?_, rfl, rfl, hsz, hok', hbits⟩
  unfold setU
  rw [e]; rfl

end Sux.BFV
