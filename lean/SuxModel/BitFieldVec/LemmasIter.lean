import SuxModel.BitFieldVec.LemmasOps
/-!
# Unchecked iterators of `BitFieldVec` (C05): the forward window iterator yields
`vals.drop from`, the reverse (`rotate_left`) iterator yields the reversed prefix.
-/
namespace Sux.BFV

/-! ## forward iterator -/

/-- the window holds the next `fill` unread bits of the stream, the next unread bit being at
position `p`; the current word ends at `p + fill` -/
def FwdInv (W : Nat) (ws : Array Nat) (it : FwdIt) (p : Nat) : Prop :=
  it.fill ≤ W ∧ (it.wi + 1) * W = p + it.fill ∧
    ∀ j, it.window.testBit j = (decide (j < it.fill) && bitAt W ws (p + j))

theorem fwdNew_ok {W : Nat} (hW : 0 < W) (s : St) (h : s.WInv W) (i : Nat) (hi : i < s.len) :
    ∃ it, fwdNew W s i = .ok it ∧ FwdInv W s.words it (i * s.bw) := by
  obtain ⟨hbw, hlen, h1, hok⟩ := h
  unfold fwdNew
  have hne : (i == s.len) = false := by simp; omega
  rw [if_neg (by omega), hne]
  simp only [Bool.false_eq_true, if_false]
  have hp : i * s.bw + s.bw ≤ W * s.words.size := by
    rw [← Nat.succ_mul]; exact Nat.le_trans (succ_mul_le_of_lt hi) hlen
  have hp0 : s.bw = 0 → i * s.bw = 0 ∧ 1 ≤ s.words.size := fun hz => ⟨by rw [hz]; rfl, h1 hz⟩
  generalize i * s.bw = p at *
  have hwi := field_word_lt hW hp hp0
  rw [readU_of_lt _ _ hwi]
  simp only [Out.bind_ok, Out.pure_eq]
  refine ⟨_, rfl, ?_, ?_, ?_⟩
  · show W - p % W ≤ W
    omega
  · show (p / W + 1) * W = p + (W - p % W)
    have hd := div_mod_decomp hW p
    rw [Nat.succ_mul, Nat.mul_comm]; omega
  · intro j
    show (s.words.getD (p / W) 0 >>> (p % W)).testBit j = (decide (j < W - p % W) && _)
    rw [Nat.testBit_shiftRight]
    have hb : p % W < W := Nat.mod_lt _ hW
    by_cases hj : p % W + j < W
    · have : j < W - p % W := by omega
      unfold bitAt
      rw [pos_div_lo hW hj, pos_mod_lo hj]
      simp [this]
    · have : ¬ j < W - p % W := by omega
      rw [testBit_ge_of_lt (getD_lt hok _) (by omega)]
      simp [this]

theorem fwdNext_ok {W : Nat} (hW : 0 < W) (s : St) (hbw : s.bw ≤ W) (hok : WordsOK W s.words)
    (it : FwdIt) (p : Nat) (hI : FwdInv W s.words it p) (hp : p + s.bw ≤ W * s.words.size) :
    ∃ it', fwdNext W s it = .ok (fieldAt W s.words p s.bw, it') ∧
      FwdInv W s.words it' (p + s.bw) := by
  obtain ⟨hfW, hpos, hwin⟩ := hI
  unfold fwdNext
  simp only
  rw [maskOf_eq W s.bw hbw]
  by_cases hf : it.fill ≥ s.bw
  · rw [if_pos hf]
    have hval : it.window &&& lowMask s.bw = fieldAt W s.words p s.bw := by
      apply Nat.eq_of_testBit_eq
      intro j
      rw [Nat.testBit_and, hwin, testBit_lowMask, testBit_fieldAt]
      by_cases hj : j < s.bw
      · have : j < it.fill := by omega
        simp [hj, this]
      · simp [hj]
    rw [hval]
    refine ⟨_, rfl, ?_, ?_, ?_⟩
    · show it.fill - s.bw ≤ W
      omega
    · show (it.wi + 1) * W = p + s.bw + (it.fill - s.bw)
      omega
    · intro j
      show (if (s.bw == W) = true then 0 else it.window >>> s.bw).testBit j
        = (decide (j < it.fill - s.bw) && bitAt W s.words (p + s.bw + j))
      by_cases hbW : s.bw = W
      · have : (s.bw == W) = true := by simp [hbW]
        rw [this, if_pos rfl, Nat.zero_testBit]
        have : ¬ j < it.fill - s.bw := by omega
        simp [this]
      · have : (s.bw == W) = false := by simp [hbW]
        rw [this]
        simp only [Bool.false_eq_true, if_false]
        rw [Nat.testBit_shiftRight, hwin, Nat.add_assoc]
        congr 1
        apply decide_eq_decide.2; omega
  · rw [if_neg hf]
    have hlt : it.fill < s.bw := by omega
    have hwi1 : it.wi + 1 < s.words.size := by
      apply Nat.lt_of_mul_lt_mul_left (a := W)
      rw [Nat.mul_comm]; omega
    rw [readU_of_lt _ _ hwi1]
    simp only [Out.bind_ok, Out.pure_eq]
    -- the next word holds the stream from position `p + fill`
    have hw' : ∀ t, t < W →
        bitAt W s.words (p + it.fill + t) = (s.words.getD (it.wi + 1) 0).testBit t := by
      intro t ht
      unfold bitAt
      rw [← hpos, (mul_div_mod_eq hW ht).1, (mul_div_mod_eq hW ht).2]
    have hval : (it.window ||| shlW W (s.words.getD (it.wi + 1) 0) it.fill) &&& lowMask s.bw
        = fieldAt W s.words p s.bw := by
      apply Nat.eq_of_testBit_eq
      intro j
      rw [Nat.testBit_and, Nat.testBit_or, hwin, testBit_shlW, testBit_lowMask, testBit_fieldAt]
      by_cases hj : j < s.bw
      · by_cases hjf : j < it.fill
        · have : ¬ it.fill ≤ j := by omega
          simp [hj, hjf, this]
        · have h1 : it.fill ≤ j := by omega
          have h2 : j < W := by omega
          have := hw' (j - it.fill) (by omega)
          rw [show p + it.fill + (j - it.fill) = p + j by omega] at this
          simp [hj, hjf, h1, h2, this]
      · simp [hj]
    rw [hval]
    refine ⟨_, rfl, ?_, ?_, ?_⟩
    · show W - (s.bw - it.fill) ≤ W
      omega
    · show (it.wi + 1 + 1) * W = p + s.bw + (W - (s.bw - it.fill))
      rw [Nat.succ_mul]; omega
    · intro j
      show (if (s.bw - it.fill == W) = true then 0
          else s.words.getD (it.wi + 1) 0 >>> (s.bw - it.fill)).testBit j
        = (decide (j < W - (s.bw - it.fill)) && bitAt W s.words (p + s.bw + j))
      by_cases hu : s.bw - it.fill = W
      · have : (s.bw - it.fill == W) = true := by simp [hu]
        rw [this, if_pos rfl, Nat.zero_testBit]
        have : ¬ j < W - (s.bw - it.fill) := by omega
        simp [this]
      · have : (s.bw - it.fill == W) = false := by simp [hu]
        rw [this]
        simp only [Bool.false_eq_true, if_false]
        rw [Nat.testBit_shiftRight]
        by_cases hj : s.bw - it.fill + j < W
        · have := hw' (s.bw - it.fill + j) hj
          rw [show p + it.fill + (s.bw - it.fill + j) = p + s.bw + j by omega] at this
          have h2 : j < W - (s.bw - it.fill) := by omega
          simp [this, h2]
        · rw [testBit_ge_of_lt (getD_lt hok _) (by omega)]
          have h2 : ¬ j < W - (s.bw - it.fill) := by omega
          simp [h2]

theorem fwdTake_ok {W : Nat} (hW : 0 < W) (s : St) (h : s.WInv W) :
    ∀ (n i : Nat) (it : FwdIt), FwdInv W s.words it (i * s.bw) → i + n ≤ s.len →
      fwdTake W s n it = .ok ((List.range' i n).map (valAt W s.words s.bw)) := by
  intro n
  induction n with
  | zero => intro i it _ _; rfl
  | succ n ih =>
    intro i it hI hin
    have hp : i * s.bw + s.bw ≤ W * s.words.size := by
      rw [← Nat.succ_mul]
      exact Nat.le_trans (succ_mul_le_of_lt (by omega : i < s.len)) h.2.1
    obtain ⟨it', e, hI'⟩ := fwdNext_ok hW s h.1 h.2.2.2 it (i * s.bw) hI hp
    rw [← Nat.succ_mul] at hI'
    have := ih (i + 1) it' hI' (by omega)
    show (fwdNext W s it >>= _) = _
    rw [e]
    simp only [Out.bind_ok]
    rw [this]
    simp only [Out.bind_ok, Out.pure_eq]
    rw [List.range'_succ, List.map_cons, valAt_eq_fieldAt]

theorem vals_drop (W : Nat) (s : St) (k : Nat) :
    (s.vals W).drop k = (List.range' k (s.len - k)).map (valAt W s.words s.bw) := by
  unfold St.vals
  rw [← List.map_drop, List.range_eq_range', List.drop_range']
  simp

theorem iterFrom_ok {W : Nat} (hW : 0 < W) (s : St) (h : s.WInv W) (k : Nat) (hk : k ≤ s.len) :
    iterFrom W s k = .ok ((s.vals W).drop k) := by
  unfold iterFrom
  by_cases hkl : k = s.len
  · have hd : (s.vals W).drop k = [] := by
      apply List.drop_of_length_le; simp; omega
    rw [hd]
    unfold fwdNew
    have : (k == s.len) = true := by simp [hkl]
    rw [if_neg (by omega), this]
    simp only [if_true, Out.bind_ok]
    rw [hkl, Nat.sub_self]; rfl
  · obtain ⟨it, e, hI⟩ := fwdNew_ok hW s h k (by omega)
    rw [e]
    simp only [Out.bind_ok]
    rw [fwdTake_ok hW s h (s.len - k) k it hI (by omega), vals_drop]

theorem iterFrom_panic {W : Nat} (s : St) (k : Nat) (hk : ¬ k ≤ s.len) :
    iterFrom W s k = .panic := by
  unfold iterFrom fwdNew
  rw [if_pos (by omega)]; rfl

/-! ## reverse iterator -/

theorem testBit_rotl {W : Nat} (hW : 0 < W) (x n : Nat) (hx : x < 2 ^ W) (hn : n ≤ W) (j : Nat) :
    (rotl W x n).testBit j
      = (decide (j < W) && x.testBit (if n ≤ j then j - n else j + W - n)) := by
  unfold rotl
  simp only
  by_cases h0 : n % W = 0
  · have : (n % W == 0) = true := by simp [h0]
    rw [this, if_pos rfl]
    have hn' : n = 0 ∨ n = W := by
      by_cases hnW : n < W
      · left; rw [Nat.mod_eq_of_lt hnW] at h0; exact h0
      · right; omega
    by_cases hj : j < W
    · rcases hn' with rfl | rfl
      · simp [hj]
      · have : ¬ n ≤ j := by omega
        rw [if_neg this]
        simp [hj]
    · rw [testBit_ge_of_lt hx (by omega)]; simp [hj]
  · have : (n % W == 0) = false := by simp [h0]
    rw [this]
    simp only [Bool.false_eq_true, if_false]
    have hnW : n < W := by
      rcases Nat.lt_or_ge n W with h | h
      · exact h
      · have : n = W := by omega
        rw [this, Nat.mod_self] at h0; exact absurd rfl h0
    rw [Nat.mod_eq_of_lt hnW, Nat.testBit_or, testBit_shlW, Nat.testBit_shiftRight]
    by_cases hj : j < W
    · by_cases hnj : n ≤ j
      · rw [if_pos hnj, testBit_ge_of_lt hx (by omega : W ≤ W - n + j)]
        simp [hj, hnj]
      · rw [if_neg hnj]
        have : W - n + j = j + W - n := by omega
        simp [hj, hnj, this]
    · rw [testBit_ge_of_lt hx (by omega : W ≤ W - n + j)]
      simp [hj]

theorem rotl_lt {W : Nat} (x n : Nat) (hx : x < 2 ^ W) : rotl W x n < 2 ^ W := by
  unfold rotl
  simp only
  split
  · exact hx
  · exact Nat.or_lt_two_pow (shlW_lt _ _ _) (shiftRight_lt _ hx)

/-- the top `fill` bits of the window are the `fill` bits of the stream just below position `p`
(the low bits are already-consumed garbage); the current word starts at `p - fill` -/
def RevInv (W : Nat) (ws : Array Nat) (it : FwdIt) (p : Nat) : Prop :=
  it.fill ≤ W ∧ it.wi * W + it.fill = p ∧ it.window < 2 ^ W ∧
    ∀ j, W - it.fill ≤ j → j < W → it.window.testBit j = bitAt W ws (p + j - W)

theorem revNew_ok {W : Nat} (hW : 0 < W) (s : St) (h : s.WInv W) (hb0 : 0 < s.bw) (i : Nat)
    (hi0 : 0 < i) (hi : i ≤ s.len) :
    ∃ it, revNew W s i = .ok it ∧ RevInv W s.words it (i * s.bw) := by
  obtain ⟨hbw, hlen, h1, hok⟩ := h
  unfold revNew
  have hne : (i == 0) = false := by simp; omega
  rw [if_neg (by omega), hne]
  simp only [Bool.false_eq_true, if_false]
  have hp : i * s.bw ≤ W * s.words.size := Nat.le_trans (Nat.mul_le_mul_right _ hi) hlen
  have hp1 : 1 ≤ i * s.bw := Nat.mul_le_mul hi0 hb0
  generalize i * s.bw = p at *
  have hwi : (p - 1) / W < s.words.size := div_lt_of_lt_mul' (by omega)
  rw [readU_of_lt _ _ hwi]
  simp only [Out.bind_ok, Out.pure_eq]
  have hd := div_mod_decomp hW (p - 1)
  have hc : (p - 1) / W * W = W * ((p - 1) / W) := Nat.mul_comm _ _
  refine ⟨_, rfl, ?_, ?_, shlW_lt _ _ _, ?_⟩
  · show (p - 1) % W + 1 ≤ W
    omega
  · show (p - 1) / W * W + ((p - 1) % W + 1) = p
    omega
  · intro j hj1 hj2
    simp only at hj1
    show (shlW W (s.words.getD ((p - 1) / W) 0) (W - ((p - 1) % W + 1))).testBit j = _
    rw [testBit_shlW]
    have ht : j - (W - ((p - 1) % W + 1)) < W := by omega
    have : p + j - W = (p - 1) / W * W + (j - (W - ((p - 1) % W + 1))) := by omega
    unfold bitAt
    rw [this, (mul_div_mod_eq hW ht).1, (mul_div_mod_eq hW ht).2]
    simp [hj1, hj2]

theorem revNext_ok {W : Nat} (hW : 0 < W) (s : St) (hbw : s.bw ≤ W) (hb0 : 0 < s.bw)
    (hok : WordsOK W s.words) (it : FwdIt) (p : Nat) (hI : RevInv W s.words it p)
    (hp1 : s.bw ≤ p) (hp2 : p ≤ W * s.words.size) :
    ∃ it', revNext W s it = .ok (fieldAt W s.words (p - s.bw) s.bw, it') ∧
      RevInv W s.words it' (p - s.bw) := by
  obtain ⟨hfW, hpos, hwlt, hwin⟩ := hI
  unfold revNext
  simp only
  rw [maskOf_eq W s.bw hbw]
  by_cases hf : it.fill ≥ s.bw
  · rw [if_pos hf]
    have hval : rotl W it.window s.bw &&& lowMask s.bw = fieldAt W s.words (p - s.bw) s.bw := by
      apply Nat.eq_of_testBit_eq
      intro j
      rw [Nat.testBit_and, testBit_rotl hW _ _ hwlt hbw, testBit_lowMask, testBit_fieldAt]
      by_cases hj : j < s.bw
      · have h1 : ¬ s.bw ≤ j := by omega
        have h2 : j < W := by omega
        rw [if_neg h1, hwin _ (by omega) (by omega)]
        rw [show p + (j + W - s.bw) - W = p - s.bw + j by omega]
        simp [hj, h2]
      · simp [hj]
    rw [hval]
    refine ⟨_, rfl, ?_, ?_, rotl_lt _ _ hwlt, ?_⟩
    · show it.fill - s.bw ≤ W
      omega
    · show it.wi * W + (it.fill - s.bw) = p - s.bw
      omega
    · intro j hj1 hj2
      simp only at hj1
      show (rotl W it.window s.bw).testBit j = _
      rw [testBit_rotl hW _ _ hwlt hbw]
      have h1 : s.bw ≤ j := by omega
      rw [if_pos h1, hwin _ (by omega) (by omega)]
      rw [show p + (j - s.bw) - W = p - s.bw + j - W by omega]
      simp [hj2]
  · rw [if_neg hf]
    have hlt : it.fill < s.bw := by omega
    have hwi0 : it.wi ≠ 0 := by
      intro h0; rw [h0, Nat.zero_mul] at hpos; omega
    have : (it.wi == 0) = false := by simp [hwi0]
    rw [this]
    simp only [Bool.false_eq_true, if_false]
    obtain ⟨q, hq⟩ : ∃ q, it.wi = q + 1 := ⟨it.wi - 1, by omega⟩
    rw [hq, Nat.succ_mul] at hpos
    rw [hq, Nat.add_sub_cancel]
    have hqs : q < s.words.size := by
      apply Nat.lt_of_mul_lt_mul_left (a := W)
      rw [Nat.mul_comm]; omega
    rw [readU_of_lt _ _ hqs]
    simp only [Out.bind_ok]
    have hw' : ∀ t, t < W → bitAt W s.words (q * W + t) = (s.words.getD q 0).testBit t := by
      intro t ht
      unfold bitAt
      rw [(mul_div_mod_eq hW ht).1, (mul_div_mod_eq hW ht).2]
    by_cases hu : s.bw - it.fill = W
    · have : (s.bw - it.fill == W) = true := by simp [hu]
      rw [this, if_pos rfl]
      simp only [Out.pure_eq]
      have hval : s.words.getD q 0 &&& lowMask s.bw = fieldAt W s.words (p - s.bw) s.bw := by
        apply Nat.eq_of_testBit_eq
        intro j
        rw [Nat.testBit_and, testBit_lowMask, testBit_fieldAt]
        by_cases hj : j < s.bw
        · rw [show p - s.bw + j = q * W + j by omega, hw' j (by omega)]
          simp [hj]
        · simp [hj]
      rw [hval]
      refine ⟨_, rfl, ?_, ?_, Nat.two_pow_pos W, ?_⟩
      · show W - (s.bw - it.fill) ≤ W
        omega
      · show q * W + (W - (s.bw - it.fill)) = p - s.bw
        omega
      · intro j hj1 hj2
        simp only at hj1
        omega
    · have : (s.bw - it.fill == W) = false := by simp [hu]
      rw [this]
      simp only [Bool.false_eq_true, if_false, Out.pure_eq]
      have hval : (shlW W (rotl W it.window it.fill) (s.bw - it.fill) |||
            (s.words.getD q 0 >>> (W - (s.bw - it.fill)))) &&& lowMask s.bw
          = fieldAt W s.words (p - s.bw) s.bw := by
        apply Nat.eq_of_testBit_eq
        intro j
        rw [Nat.testBit_and, Nat.testBit_or, testBit_shlW, testBit_rotl hW _ _ hwlt hfW,
          Nat.testBit_shiftRight, testBit_lowMask, testBit_fieldAt]
        by_cases hj : j < s.bw
        · have h2 : j < W := by omega
          by_cases hju : j < s.bw - it.fill
          · have h1 : ¬ s.bw - it.fill ≤ j := by omega
            have := hw' (W - (s.bw - it.fill) + j) (by omega)
            rw [show q * W + (W - (s.bw - it.fill) + j) = p - s.bw + j by omega] at this
            simp [hj, h1, this]
          · have h1 : s.bw - it.fill ≤ j := by omega
            rw [testBit_ge_of_lt (getD_lt hok q) (by omega : W ≤ W - (s.bw - it.fill) + j)]
            have h3 : ¬ it.fill ≤ j - (s.bw - it.fill) := by omega
            have h4 : j - (s.bw - it.fill) < W := by omega
            rw [if_neg h3, hwin _ (by omega) (by omega)]
            rw [show p + (j - (s.bw - it.fill) + W - it.fill) - W = p - s.bw + j by omega]
            simp [hj, h1, h2, h4]
        · simp [hj]
      rw [hval]
      refine ⟨_, rfl, ?_, ?_, shlW_lt _ _ _, ?_⟩
      · show W - (s.bw - it.fill) ≤ W
        omega
      · show q * W + (W - (s.bw - it.fill)) = p - s.bw
        omega
      · intro j hj1 hj2
        simp only at hj1
        show (shlW W (s.words.getD q 0) (s.bw - it.fill)).testBit j = _
        rw [testBit_shlW]
        have h1 : s.bw - it.fill ≤ j := by omega
        have := hw' (j - (s.bw - it.fill)) (by omega)
        rw [show q * W + (j - (s.bw - it.fill)) = p - s.bw + j - W by omega] at this
        simp [hj2, h1, this]

theorem revTake_ok {W : Nat} (hW : 0 < W) (s : St) (h : s.WInv W) (hb0 : 0 < s.bw) :
    ∀ (i : Nat) (it : FwdIt), RevInv W s.words it (i * s.bw) → i ≤ s.len →
      revTake W s i it = .ok ((List.range i).map (valAt W s.words s.bw)).reverse := by
  intro i
  induction i with
  | zero => intro it _ _; rfl
  | succ i ih =>
    intro it hI hi
    have hp2 : (i + 1) * s.bw ≤ W * s.words.size :=
      Nat.le_trans (Nat.mul_le_mul_right _ hi) h.2.1
    have hp1 : s.bw ≤ (i + 1) * s.bw := by rw [Nat.succ_mul]; omega
    obtain ⟨it', e, hI'⟩ := revNext_ok hW s h.1 hb0 h.2.2.2 it _ hI hp1 hp2
    have hsub : (i + 1) * s.bw - s.bw = i * s.bw := by rw [Nat.succ_mul]; omega
    rw [hsub] at e hI'
    have := ih it' hI' (by omega)
    show (revNext W s it >>= _) = _
    rw [e]
    simp only [Out.bind_ok]
    rw [this]
    simp only [Out.bind_ok, Out.pure_eq]
    rw [List.range_succ, List.map_append, List.reverse_append, List.map_singleton,
      List.reverse_singleton, List.singleton_append, valAt_eq_fieldAt]

theorem revTake_zero_width {W : Nat} (s : St) (hb0 : s.bw = 0) :
    ∀ (n : Nat) (it : FwdIt), revTake W s n it = .ok (List.replicate n 0) := by
  intro n
  induction n with
  | zero => intro it; rfl
  | succ n ih =>
    intro it
    have hm : maskOf W s.bw = 0 := by rw [hb0]; rfl
    have e : ∃ it', revNext W s it = .ok (0, it') := by
      unfold revNext
      simp only
      rw [if_pos (by omega), hm, Nat.and_zero]
      exact ⟨_, rfl⟩
    obtain ⟨it', e⟩ := e
    show (revNext W s it >>= _) = _
    rw [e]
    simp only [Out.bind_ok]
    rw [ih it']
    rfl

theorem vals_take (W : Nat) (s : St) (k : Nat) (hk : k ≤ s.len) :
    (s.vals W).take k = (List.range k).map (valAt W s.words s.bw) := by
  unfold St.vals
  rw [← List.map_take, List.take_range, Nat.min_eq_left hk]

theorem revIterFrom_ok {W : Nat} (hW : 0 < W) (s : St) (h : s.WInv W) (k : Nat) (hk : k ≤ s.len) :
    revIterFrom W s k = .ok ((s.vals W).take k).reverse := by
  unfold revIterFrom
  rw [vals_take W s k hk]
  by_cases hk0 : k = 0
  · subst hk0
    unfold revNew
    rw [if_neg (by omega)]
    rfl
  · by_cases hb0 : s.bw = 0
    · -- width 0: every value is 0
      have e : ∃ it, revNew W s k = .ok it := by
        unfold revNew
        have hne : (k == 0) = false := by simp [hk0]
        rw [if_neg (by omega), hne]
        simp only [Bool.false_eq_true, if_false]
        have : (k * s.bw - 1) / W = 0 := by rw [hb0]; simp
        rw [this, readU_of_lt _ _ (h.2.2.1 hb0)]
        exact ⟨_, rfl⟩
      obtain ⟨it, e⟩ := e
      rw [e]
      simp only [Out.bind_ok]
      rw [revTake_zero_width s hb0]
      have : (List.range k).map (valAt W s.words s.bw) = List.replicate k 0 := by
        rw [hb0]
        apply List.ext_getElem
        · simp
        · intro i h1 h2; simp [valAt_zero_width]
      rw [this, List.reverse_replicate]
    · obtain ⟨it, e, hI⟩ := revNew_ok hW s h (by omega) k (by omega) hk
      rw [e]
      simp only [Out.bind_ok]
      exact revTake_ok hW s h (by omega) k it hI hk

theorem revIterFrom_panic {W : Nat} (s : St) (k : Nat) (hk : ¬ k ≤ s.len) :
    revIterFrom W s k = .panic := by
  unfold revIterFrom revNew
  rw [if_pos (by omega)]; rfl

end Sux.BFV
