import SuxModel.BitFieldVec.LemmasOps
/-!
# Unchecked iterators of `BitFieldVec` (C05): the forward window iterator yields
`vals.drop from`, the reverse (`rotate_left`) iterator yields the reversed prefix.
-/
namespace Sux.BFV

/-! ## forward iterator -/

/-- the window holds the next `fill` unread bits of the stream, the next unread bit being at
position `p`; the current word ends at `p + fill` -/
def FwdInv (W : Nat) (ws : Array Nat) (it : FwdIt) (p : Nat) : Prop :=
  it.fill ≤ W ∧ (it.wi + 1) * W = p + it.fill ∧
    ∀ j, it.window.testBit j = (decide (j < it.fill) && bitAt W ws (p + j))

theorem fwdNew_ok {W : Nat} (hW : 0 < W) (s : St) (h : s.WInv W) (i : Nat) (hi : i < s.len) :
    ∃ it, fwdNew W s i = .ok it ∧ FwdInv W s.words it (i * s.bw) := by
  obtain ⟨hbw, hlen, h1, hok⟩ := h
  unfold fwdNew
  have hne : (i == s.len) = false := by simp; omega
  rw [if_neg (by omega), hne]
  simp only [Bool.false_eq_true, if_false]
  have hp : i * s.bw + s.bw ≤ W * s.words.size := by
    rw [← Nat.succ_mul]; exact Nat.le_trans (succ_mul_le_of_lt hi) hlen
  have hp0 : s.bw = 0 → i * s.bw = 0 ∧ 1 ≤ s.words.size := fun hz => ⟨by rw [hz]; rfl, h1 hz⟩
  generalize i * s.bw = p at *
  have hwi := field_word_lt hW hp hp0
  rw [readU_of_lt _ _ hwi]
  simp only [Out.bind_ok, Out.pure_eq]
  refine ⟨_, rfl, ?_, ?_, ?_⟩
  · show W - p % W ≤ W
    omega
  · show (p / W + 1) * W = p + (W - p % W)
    have hd := div_mod_decomp hW p
    rw [Nat.succ_mul, Nat.mul_comm]; omega
  · intro j
    show (s.words.getD (p / W) 0 >>> (p % W)).testBit j = (decide (j < W - p % W) && _)
    rw [Nat.testBit_shiftRight]
    have hb : p % W < W := Nat.mod_lt _ hW
    by_cases hj : p % W + j < W
    · have : j < W - p % W := by omega
      unfold bitAt
      rw [pos_div_lo hW hj, pos_mod_lo hj]
      simp [this]
    · have : ¬ j < W - p % W := by omega
      rw [testBit_ge_of_lt (getD_lt hok _) (by omega)]
      simp [this]

theorem fwdNext_ok {W : Nat} (hW : 0 < W) (s : St) (hbw : s.bw ≤ W) (hok : WordsOK W s.words)
    (it : FwdIt) (p : Nat) (hI : FwdInv W s.words it p) (hp : p + s.bw ≤ W * s.words.size) :
    ∃ it', fwdNext W s it = .ok (fieldAt W s.words p s.bw, it') ∧
      FwdInv W s.words it' (p + s.bw) := by
  obtain ⟨hfW, hpos, hwin⟩ := hI
  unfold fwdNext
  simp only
  rw [maskOf_eq W s.bw hbw]
  by_cases hf : it.fill ≥ s.bw
  · rw [if_pos hf]
    have hval : it.window &&& lowMask s.bw = fieldAt W s.words p s.bw := by
      apply Nat.eq_of_testBit_eq
      intro j
      rw [Nat.testBit_and, hwin, testBit_lowMask, testBit_fieldAt]
      by_cases hj : j < s.bw
      · have : j < it.fill := by omega
        simp [hj, this]
      · simp [hj]
    rw [hval]
    refine ⟨_, rfl, ?_, ?_, ?_⟩
    · show it.fill - s.bw ≤ W
      omega
    · show (it.wi + 1) * W = p + s.bw + (it.fill - s.bw)
      omega
    · intro j
      show (if (s.bw == W) = true then 0 else it.window >>> s.bw).testBit j
        = (decide (j < it.fill - s.bw) && bitAt W s.words (p + s.bw + j))
      by_cases hbW : s.bw = W
      · have : (s.bw == W) = true := by simp [hbW]
        rw [this, if_pos rfl, Nat.zero_testBit]
        have : ¬ j < it.fill - s.bw := by omega
        simp [this]
      · have : (s.bw == W) = false := by simp [hbW]
        rw [this]
        simp only [Bool.false_eq_true, if_false]
        rw [Nat.testBit_shiftRight, hwin, Nat.add_assoc]
        congr 1
        apply decide_eq_decide.2; omega
  · rw [if_neg hf]
    have hlt : it.fill < s.bw := by omega
    have hwi1 : it.wi + 1 < s.words.size := by
      apply Nat.lt_of_mul_lt_mul_left (a := W)
      rw [Nat.mul_comm]; omega
    rw [readU_of_lt _ _ hwi1]
    simp only [Out.bind_ok, Out.pure_eq]
    -- the next word holds the stream from position `p + fill`
    have hw' : ∀ t, t < W →
        bitAt W s.words (p + it.fill + t) = (s.words.getD (it.wi + 1) 0).testBit t := by
      intro t ht
      unfold bitAt
      rw [← hpos, (mul_div_mod_eq hW ht).1, (mul_div_mod_eq hW ht).2]
    have hval : (it.window ||| shlW W (s.words.getD (it.wi + 1) 0) it.fill) &&& lowMask s.bw
        = fieldAt W s.words p s.bw := by
      apply Nat.eq_of_testBit_eq
      intro j
      rw [Nat.testBit_and, Nat.testBit_or, hwin, testBit_shlW, testBit_lowMask, testBit_fieldAt]
      by_cases hj : j < s.bw
      · by_cases hjf : j < it.fill
        · have : ¬ it.fill ≤ j := by omega
          simp [hj, hjf, this]
        · have h1 : it.fill ≤ j := by omega
          have h2 : j < W := by omega
          have := hw' (j - it.fill) (by omega)
          rw [show p + it.fill + (j - it.fill) = p + j by omega] at this
          simp [hj, hjf, h1, h2, this]
      · simp [hj]
    rw [hval]
    refine ⟨_, rfl, ?_, ?_, ?_⟩
    · show W - (s.bw - it.fill) ≤ W
      omega
    · show (it.wi + 1 + 1) * W = p + s.bw + (W - (s.bw - it.fill))
      rw [Nat.succ_mul]; omega
    · intro j
      show (if (s.bw - it.fill == W) = true then 0
          else s.words.getD (it.wi + 1) 0 >>> (s.bw - it.fill)).testBit j
        = (decide (j < W - (s.bw - it.fill)) && bitAt W s.words (p + s.bw + j))
      by_cases hu : s.bw - it.fill = W
      · have : (s.bw - it.fill == W) = true := by simp [hu]
        rw [this, if_pos rfl, Nat.zero_testBit]
        have : ¬ j < W - (s.bw - it.fill) := by omega
        simp [this]
      · have : (s.bw - it.fill == W) = false := by simp [hu]
        rw [this]
        simp only [Bool.false_eq_true, if_false]
        rw [Nat.testBit_shiftRight]
        by_cases hj : s.bw - it.fill + j < W
        · have := hw' (s.bw - it.fill + j) hj
          rw [show p + it.fill + (s.bw - it.fill + j) = p + s.bw + j by omega] at this
          have h2 : j < W - (s.bw - it.fill) := by omega
          simp [this, h2]
        · rw [testBit_ge_of_lt (getD_lt hok _) (by omega)]
          have h2 : ¬ j < W - (s.bw - it.fill) := by omega
          simp [h2]

theorem fwdTake_ok {W : Nat} (hW : 0 < W) (s : St) (h : s.WInv W) :
    ∀ (n i : Nat) (it : FwdIt), FwdInv W s.words it (i * s.bw) → i + n ≤ s.len →
      fwdTake W s n it = .ok ((List.range' i n).map (valAt W s.words s.bw)) := by
  intro n
  induction n with
  | zero => intro i it _ _; rfl
  | succ n ih =>
    intro i it hI hin
    have hp : i * s.bw + s.bw ≤ W * s.words.size := by
      rw [← Nat.succ_mul]
      exact Nat.le_trans (succ_mul_le_of_lt (by omega : i < s.len)) h.2.1
    obtain ⟨it', e, hI'⟩ := fwdNext_ok hW s h.1 h.2.2.2 it (i * s.bw) hI hp
    rw [← Nat.succ_mul] at hI'
    have := ih (i + 1) it' hI' (by omega)
    show (fwdNext W s it >>= _) = _
    rw [e]
    simp only [Out.bind_ok]
    rw [this]
    simp only [Out.bind_ok, Out.pure_eq]
    rw [List.range'_succ, List.map_cons, valAt_eq_fieldAt]

theorem vals_drop (W : Nat) (s : St) (k : Nat) :
    (s.vals W).drop k = (List.range' k (s.len - k)).map (valAt W s.words s.bw) := by
  unfold St.vals
  rw [← List.map_drop, List.range_eq_range', List.drop_range']
  simp

theorem iterFrom_ok {W : Nat} (hW : 0 < W) (s : St) (h : s.WInv W) (k : Nat) (hk : k ≤ s.len) :
    iterFrom W s k = .ok ((s.vals W).drop k) := by
  unfold iterFrom
  by_cases hkl : k = s.len
  · have hd : (s.vals W).drop k = [] := by
      apply List.drop_of_length_le; simp; omega
    rw [hd]
    unfold fwdNew
    have : (k == s.len) = true := by simp [hkl]
    rw [if_neg (by omega), this]
    simp only [if_true, Out.bind_ok]
    rw [hkl, Nat.sub_self]; rfl
  · obtain ⟨it, e, hI⟩ := fwdNew_ok hW s h k (by omega)
    rw [e]
    simp only [Out.bind_ok]
    rw [fwdTake_ok hW s h (s.len - k) k it hI (by omega), vals_drop]

theorem iterFrom_panic {W : Nat} (s : St) (k : Nat) (hk : ¬ k ≤ s.len) :
    iterFrom W s k = .panic := by
  unfold iterFrom fwdNew
  rw [if_pos (by omega)]; rfl

end Sux.BFV
