import SuxModel.Base.Bits
/-!
# Model of `sux::bits::BitFieldVec<W, B>` / `AtomicBitFieldVec` (src/bits/bit_field_vec.rs,
default methods of src/traits/bit_field_slice.rs)

Generic in the word size `W` (8, 16, 32, 64, 128): a word is a `Nat < 2^W`.
Every function mirrors the Rust method of the same name (tree after the `fix:` commits listed
in /verif/KNOWN_FINDINGS.json).  Arithmetic on `usize` that would overflow is not modelled
(lengths are far below 2^64); `dst.len - to` style subtractions panic on underflow as in a
checked build.
-/
namespace Sux.BFV

structure St where
  words : Array Nat
  bw : Nat
  len : Nat
deriving Repr, Inhabited, DecidableEq

/-- `mask(bit_width)` -/
def maskOf (W bw : Nat) : Nat := if bw == 0 then 0 else allOnes W >>> (W - bw)

/-- `div_ceil` -/
def divCeil (a b : Nat) : Nat := (a + b - 1) / b

/-- number of words holding elements -/
def St.logicalWords (W : Nat) (s : St) : Nat := divCeil (s.len * s.bw) W

/-- representation invariant: what the safe constructors establish / `from_raw_parts` demands,
plus the one word the width-zero convention needs -/
def St.Inv (W : Nat) (s : St) : Prop :=
  s.bw ≤ W ∧ s.len * s.bw ≤ W * s.words.size ∧ 1 ≤ s.words.size ∧ WordsOK W s.words

/-! ## element access -/

/-- `get_unchecked` (also `get_atomic_unchecked`) -/
def getU (W : Nat) (s : St) (i : Nat) : Out Nat :=
  let pos := i * s.bw
  let wi := pos / W
  let bi := pos % W
  let mask := maskOf W s.bw
  if bi + s.bw ≤ W then do
    let w ← Out.readU s.words wi
    pure ((w >>> bi) &&& mask)
  else do
    let w0 ← Out.readU s.words wi
    let w1 ← Out.readU s.words (wi + 1)
    pure (((w0 >>> bi) ||| shlW W w1 (W - bi)) &&& mask)

/-- `get` (trait default: bounds check, then `get_unchecked`) -/
def get (W : Nat) (s : St) (i : Nat) : Out Nat :=
  if i ≥ s.len then .panic else getU W s i

/-- `set_unchecked` on the word array (also `set_atomic_unchecked` run single-threaded:
each CAS loop succeeds at its first attempt) -/
def setWords (W : Nat) (ws : Array Nat) (bw i v : Nat) : Out (Array Nat) :=
  let pos := i * bw
  let wi := pos / W
  let bi := pos % W
  let mask := maskOf W bw
  if bi + bw ≤ W then do
    let w ← Out.readU ws wi
    let w := w &&& notW W (shlW W mask bi)
    let w := w ||| shlW W v bi
    pure (ws.setIfInBounds wi w)
  else do
    let w ← Out.readU ws wi
    let w := w &&& lowMask bi
    let w := w ||| shlW W v bi
    let ws := ws.setIfInBounds wi w
    let w ← Out.readU ws (wi + 1)
    let w := w &&& notW W (mask >>> (W - bi))
    let w := w ||| (v >>> (W - bi))
    pure (ws.setIfInBounds (wi + 1) w)

def setU (W : Nat) (s : St) (i v : Nat) : Out St := do
  let ws ← setWords W s.words s.bw i v
  pure { s with words := ws }

/-- `panic_if_value!` -/
def fits (W bw v : Nat) : Bool := v &&& maskOf W bw == v

/-- `set` (also `set_atomic`) -/
def set (W : Nat) (s : St) (i v : Nat) : Out St :=
  if i ≥ s.len then .panic
  else if !fits W s.bw v then .panic
  else setU W s i v

/-! ## constructors -/

def new (W bw len : Nat) : St :=
  { words := Array.replicate (max 1 (divCeil (len * bw) W)) 0, bw := bw, len := len }

def newUnaligned (W bw len : Nat) : St :=
  { words := Array.replicate (divCeil (len * bw) W + 1) 0, bw := bw, len := len }

def withCapacity (_W bw _cap : Nat) : St :=
  { words := if bw == 0 then #[0] else #[], bw := bw, len := 0 }

def clear (s : St) : St := { s with len := 0 }

/-! ## growth -/

def push (W : Nat) (s : St) (v : Nat) : Out St :=
  if !fits W s.bw v then .panic
  else do
    let ws := if (s.len + 1) * s.bw > s.words.size * W then s.words.push 0 else s.words
    let s' ← setU W { s with words := ws } s.len v
    pure { s' with len := s.len + 1 }

/-- `for i in start..start+n { set_unchecked(i, v) }` -/
def setRange (W v : Nat) : Nat → Nat → St → Out St
  | _, 0, s => .ok s
  | start, n + 1, s => do
    let s' ← setU W s start v
    setRange W v (start + 1) n s'

def resize (W : Nat) (s : St) (newLen v : Nat) : Out St :=
  if !fits W s.bw v then .panic
  else if newLen > s.len then do
    let ws := if newLen * s.bw > s.words.size * W
      then s.words ++ Array.replicate (divCeil (newLen * s.bw) W - s.words.size) 0 else s.words
    let s' ← setRange W v s.len (newLen - s.len) { s with words := ws }
    pure { s' with len := newLen }
  else .ok { s with len := newLen }

def pop (W : Nat) (s : St) : Out (St × Option Nat) :=
  if s.len == 0 then .ok (s, none) else do
    let v ← get W s (s.len - 1)
    pure ({ s with len := s.len - 1 }, some v)

def extend (W : Nat) : St → List Nat → Out St
  | s, [] => .ok s
  | s, v :: vs => do
    let s' ← push W s v
    extend W s' vs

/-- `UnsignedInt::len` of common_traits: number of significant bits, with `len(0) = 1` -/
def bitLen (v : Nat) : Nat := if v == 0 then 1 else Nat.log2 v + 1

/-- `for i in 0..n { set_unchecked(i, vals[i]) }` -/
def setAll (W : Nat) : Nat → List Nat → St → Out St
  | _, [], s => .ok s
  | i, v :: vs, s => do
    let s' ← setU W s i v
    setAll W (i + 1) vs s'

/-- `from_slice` of a `&[W]` -/
def fromSlice (W : Nat) (vals : List Nat) : Out St :=
  let maxLen := vals.foldl (fun m v => max m (bitLen v)) 0
  if maxLen > W then .panic   -- `bail!` (never for a slice of the same word type)
  else setAll W 0 vals (new W maxLen vals.length)

/-! ## whole-vector operations -/

/-- `reset` / `par_reset` / `reset_atomic` -/
def reset (W : Nat) (s : St) : Out St :=
  let bitLen := s.len * s.bw
  let full := bitLen / W
  let residual := bitLen % W
  if full > s.words.size then .panic
  else
    let ws1 := s.words.mapIdx (fun i w => if i < full then 0 else w)
    if residual != 0 then do
      let w ← Out.readS ws1 full
      pure { s with words := ws1.setIfInBounds full (w &&& shlW W (allOnes W) residual) }
    else .ok { s with words := ws1 }

def prefixEq (a b : Array Nat) : Nat → Bool
  | 0 => true
  | n + 1 => prefixEq a b n && (a.getD n 0 == b.getD n 0)

/-- `PartialEq` -/
def eq (W : Nat) (a b : St) : Out Bool :=
  if a.bw != b.bw then .ok false
  else if a.len != b.len then .ok false
  else
    let bitLen := a.len * a.bw
    let full := bitLen / W
    if full > a.words.size || full > b.words.size then .panic
    else if !prefixEq a.words b.words full then .ok false
    else
      let residual := bitLen % W
      if residual == 0 then .ok true
      else do
        let x ← Out.readS a.words full
        let y ← Out.readS b.words full
        pure (shlW W (x ^^^ y) (W - residual) == 0)

/-! ## unchecked iterators -/

structure FwdIt where
  wi : Nat
  window : Nat
  fill : Nat
deriving Repr, DecidableEq

/-- `BitFieldVectorUncheckedIterator::new` -/
def fwdNew (W : Nat) (s : St) (index : Nat) : Out FwdIt :=
  if index > s.len then .panic
  else if index == s.len then .ok { wi := 0, window := 0, fill := 0 }
  else do
    let off := index * s.bw
    let bi := off % W
    let wi := off / W
    let w ← Out.readU s.words wi
    pure { wi := wi, window := w >>> bi, fill := W - bi }

/-- `next_unchecked` -/
def fwdNext (W : Nat) (s : St) (it : FwdIt) : Out (Nat × FwdIt) :=
  let mask := maskOf W s.bw
  if it.fill ≥ s.bw then
    .ok (it.window &&& mask,
      { it with fill := it.fill - s.bw, window := if s.bw == W then 0 else it.window >>> s.bw })
  else do
    let res := it.window
    let wi := it.wi + 1
    let window ← Out.readU s.words wi
    let res := (res ||| shlW W window it.fill) &&& mask
    let used := s.bw - it.fill
    pure (res, { wi := wi, window := if used == W then 0 else window >>> used, fill := W - used })

/-- `n` calls of `next_unchecked` -/
def fwdTake (W : Nat) (s : St) : Nat → FwdIt → Out (List Nat)
  | 0, _ => .ok []
  | n + 1, it => do
    let (v, it') ← fwdNext W s it
    let r ← fwdTake W s n it'
    pure (v :: r)

/-- `iter_from(from).collect()` (`BitFieldVecIterator`: yields `len - from` items) -/
def iterFrom (W : Nat) (s : St) (start : Nat) : Out (List Nat) := do
  let it ← fwdNew W s start
  fwdTake W s (s.len - start) it

/-- `rotate_left` on a `W`-bit word -/
def rotl (W x n : Nat) : Nat :=
  let n' := n % W
  if n' == 0 then x else shlW W x n' ||| (x >>> (W - n'))

/-- `BitFieldVectorReverseUncheckedIterator::new` -/
def revNew (W : Nat) (s : St) (index : Nat) : Out FwdIt :=
  if index > s.len then .panic
  else if index == 0 then .ok { wi := 0, window := 0, fill := 0 }
  else do
    let off := index * s.bw - 1      -- saturating_sub(1)
    let bi := off % W
    let wi := off / W
    let fill := bi + 1
    let w ← Out.readU s.words wi
    pure { wi := wi, window := shlW W w (W - fill), fill := fill }

def revNext (W : Nat) (s : St) (it : FwdIt) : Out (Nat × FwdIt) :=
  let mask := maskOf W s.bw
  if it.fill ≥ s.bw then
    let window := rotl W it.window s.bw
    .ok (window &&& mask, { it with fill := it.fill - s.bw, window := window })
  else if it.wi == 0 then .panic      -- `word_index -= 1` underflow
  else do
    let res := rotl W it.window it.fill
    let wi := it.wi - 1
    let window ← Out.readU s.words wi
    let used := s.bw - it.fill
    if used == W then
      pure (window &&& mask, { wi := wi, window := 0, fill := W - used })
    else
      pure ((shlW W res used ||| (window >>> (W - used))) &&& mask,
        { wi := wi, window := shlW W window used, fill := W - used })

def revTake (W : Nat) (s : St) : Nat → FwdIt → Out (List Nat)
  | 0, _ => .ok []
  | n + 1, it => do
    let (v, it') ← revNext W s it
    let r ← revTake W s n it'
    pure (v :: r)

/-- `into_rev_unchecked_iter_from(from)` followed by `from` calls of `next_unchecked` -/
def revIterFrom (W : Nat) (s : St) (start : Nat) : Out (List Nat) := do
  let it ← revNew W s start
  revTake W s start it

/-! ## `copy` (six branches) -/

/-- safe `dest[i] = f(dest[i])` -/
def modS (ws : Array Nat) (i : Nat) (f : Nat → Nat) : Out (Array Nat) := do
  let w ← Out.readS ws i
  pure (ws.setIfInBounds i (f w))

/-- `dest[(1+df)..dl].copy_from_slice(&source[(1+sf)..sl])` -/
def copyWords (src dst : Array Nat) (sf df : Nat) : Nat → Out (Array Nat)
  | 0 => .ok dst
  | n + 1 => do
    let dst ← copyWords src dst sf df n
    let w ← Out.readS src (sf + 1 + n)
    modS dst (df + 1 + n) (fun _ => w)

/-- middle loop of the `src_bit < dst_bit` branch: returns (dest, carry word) -/
def copyLt (W : Nat) (src : Array Nat) (sf df shift : Nat) : Nat → Array Nat → Nat → Out (Array Nat × Nat)
  | 0, dst, word => .ok (dst, word)
  | n + 1, dst, word => do
    -- iterations i = 1 .. n+1 in order: do the first n, then i = n+1
    let (dst, word) ← copyLt W src sf df shift n dst word
    let i := n + 1
    let s ← Out.readS src (sf + i)
    let dst ← modS dst (df + i) (fun _ => word ||| shlW W s shift)
    pure (dst, s >>> (W - shift))

/-- middle loop of the `src_bit > dst_bit` branch -/
def copyGt (W : Nat) (src : Array Nat) (sf df shift : Nat) : Nat → Array Nat → Nat → Out (Array Nat × Nat)
  | 0, dst, word => .ok (dst, word)
  | n + 1, dst, word => do
    let (dst, word) ← copyGt W src sf df shift n dst word
    let i := n + 1
    let s ← Out.readS src (sf + i + 1)
    let word := word ||| shlW W s (W - shift)
    let dst ← modS dst (df + i) (fun _ => word)
    pure (dst, s >>> shift)

/-- `self.copy(from, dst, to, len)`; returns the new `dst` -/
def copy (W : Nat) (src : St) (start : Nat) (dst : St) (to len : Nat) : Out St :=
  if src.bw != dst.bw then .panic
  else if to > dst.len || start > src.len then .panic     -- usize underflow (checked build)
  else
    let len := min (min len (dst.len - to)) (src.len - start)
    if len == 0 then .ok dst
    else
      let bw := min src.bw dst.bw
      let bitLen := len * bw
      if bitLen == 0 then .panic      -- `src_pos + bit_len - 1` underflows (bit width 0)
      else
      let srcPos := start * src.bw
      let dstPos := to * dst.bw
      let srcBit := srcPos % W
      let dstBit := dstPos % W
      let sf := srcPos / W
      let df := dstPos / W
      let sl := (srcPos + bitLen - 1) / W
      let dl := (dstPos + bitLen - 1) / W
      let source := src.words
      let dest := dst.words
      let fin (d : Out (Array Nat)) : Out St := do let d ← d; pure { dst with words := d }
      if sf == sl && df == dl then fin do
        let mask := allOnes W >>> (W - bitLen)
        let s ← Out.readS source sf
        let word := (s >>> srcBit) &&& mask
        let dest ← modS dest df (fun d => d &&& notW W (shlW W mask dstBit))
        modS dest df (fun d => d ||| shlW W word dstBit)
      else if sf == sl then fin do
        let mask := allOnes W >>> (W - bitLen)
        let s ← Out.readS source sf
        let word := (s >>> srcBit) &&& mask
        let dest ← modS dest df (fun d => d &&& notW W (shlW W mask dstBit))
        let dest ← modS dest df (fun d => d ||| shlW W (word &&& mask) dstBit)
        let dest ← modS dest dl (fun d => d &&& notW W (mask >>> (W - dstBit)))
        modS dest dl (fun d => d ||| ((word &&& mask) >>> (W - dstBit)))
      else if df == dl then fin do
        let mask := allOnes W >>> (W - bitLen)
        let s0 ← Out.readS source sf
        let s1 ← Out.readS source sl
        let word := ((s0 >>> srcBit) ||| shlW W s1 (W - srcBit)) &&& mask
        let dest ← modS dest df (fun d => d &&& notW W (shlW W mask dstBit))
        modS dest df (fun d => d ||| shlW W word dstBit)
      else if srcBit == dstBit then fin do
        let mask := shlW W (allOnes W) dstBit
        let s0 ← Out.readS source sf
        let dest ← modS dest df (fun d => d &&& notW W mask)
        let dest ← modS dest df (fun d => d ||| (s0 &&& mask))
        -- copy_from_slice panics unless both ranges are valid and of equal length
        if 1 + df > dl || 1 + sf > sl || dl > dest.size || sl > source.size
            || dl - (1 + df) != sl - (1 + sf) then .panic
        else do
          let dest ← copyWords source dest sf df (dl - (1 + df))
          let residual := bitLen - (W - srcBit) - (dl - df - 1) * W
          let mask := allOnes W >>> (W - residual)
          let s1 ← Out.readS source sl
          let dest ← modS dest dl (fun d => d &&& notW W mask)
          modS dest dl (fun d => d ||| (s1 &&& mask))
      else if srcBit < dstBit then fin do
        let dstMask := shlW W (allOnes W) dstBit
        let srcMask := shlW W (allOnes W) srcBit
        let shift := dstBit - srcBit
        let s0 ← Out.readS source sf
        let dest ← modS dest df (fun d => d &&& notW W dstMask)
        let dest ← modS dest df (fun d => d ||| shlW W (s0 &&& srcMask) shift)
        let word := s0 >>> (W - shift)
        let (dest, word) ← copyLt W source sf df shift (dl - df - 1) dest word
        let word ← (if sf + (dl - df) ≤ sl then do
            let s ← Out.readS source (sf + (dl - df))
            pure (word ||| shlW W s shift)
          else pure word : Out Nat)
        let residual := bitLen - (W - dstBit) - (dl - df - 1) * W
        let mask := allOnes W >>> (W - residual)
        let dest ← modS dest dl (fun d => d &&& notW W mask)
        modS dest dl (fun d => d ||| (word &&& mask))
      else fin do
        let dstMask := shlW W (allOnes W) dstBit
        let srcMask := shlW W (allOnes W) srcBit
        let shift := srcBit - dstBit
        let s0 ← Out.readS source sf
        let s1 ← Out.readS source (sf + 1)
        let dest ← modS dest df (fun d => d &&& notW W dstMask)
        let dest ← modS dest df (fun d => d ||| ((s0 &&& srcMask) >>> shift))
        let dest ← modS dest df (fun d => d ||| shlW W s1 (W - shift))
        let word := s1 >>> shift
        let (dest, word) ← copyGt W source sf df shift (dl - df - 1) dest word
        let sLast ← Out.readS source sl
        let word := word ||| shlW W sLast (W - shift)
        let residual := bitLen - (W - dstBit) - (dl - df - 1) * W
        let mask := allOnes W >>> (W - residual)
        let dest ← modS dest dl (fun d => d &&& notW W mask)
        modS dest dl (fun d => d ||| (word &&& mask))

/-! ## `apply_in_place` with a stateful callback `f : σ → Nat → σ × Nat` -/

section Apply
variable {σ : Type}

/-- `is_power_of_two` -/
def isPow2 (n : Nat) : Bool := n != 0 && (n &&& (n - 1)) == 0

/-- inner `loop` / final `while` of the power-of-two path: consume elements of `rb` while
`bib + bw ≤ limit` -/
def p2Word (W bw mask : Nat) (f : σ → Nat → σ × Nat) (limit : Nat) :
    Nat → σ → Nat → Nat → Nat → σ × Nat × Nat × Nat
  | 0, st, rb, wb, bib => (st, rb, wb, bib)
  | fuel + 1, st, rb, wb, bib =>
    if bib + bw > limit then (st, rb, wb, bib)
    else
      let value := rb &&& mask
      let rb := if bw == W then 0 else rb >>> bw
      let (st, nv) := f st value
      let wb := wb ||| shlW W nv bib
      p2Word W bw mask f limit fuel st rb wb (bib + bw)

/-- `for read_idx in 1..number_of_words` of the power-of-two path -/
def p2Loop (W bw mask : Nat) (f : σ → Nat → σ × Nat) :
    Nat → Nat → Array Nat → σ → Nat → Out (Array Nat × σ × Nat)
  | 0, _, ws, st, rb => .ok (ws, st, rb)
  | n + 1, readIdx, ws, st, rb => do
    let next ← Out.readU ws readIdx
    let (st, _rb, wb, _bib) := p2Word W bw mask f W (W + 1) st rb 0 0
    if readIdx - 1 ≥ ws.size then .oob
    else
      let ws := ws.setIfInBounds (readIdx - 1) wb
      p2Loop W bw mask f n (readIdx + 1) ws st next

/-- `while global_bit_index + bit_width <= upper_word_limit` of the general path -/
def gnWord (W bw mask : Nat) (f : σ → Nat → σ × Nat) (lower upper : Nat) :
    Nat → σ → Nat → Nat → Nat → σ × Nat × Nat
  | 0, st, _rb, wb, gbi => (st, wb, gbi)
  | fuel + 1, st, rb, wb, gbi =>
    if gbi + bw > upper then (st, wb, gbi)
    else
      let offset := gbi - lower
      let element := mask &&& (rb >>> offset)
      let (st, ne) := f st element
      gnWord W bw mask f lower upper fuel st rb (wb ||| shlW W ne offset) (gbi + bw)

/-- `for word_number in 0..last_word_idx` of the general path -/
def gnLoop (W bw mask : Nat) (f : σ → Nat → σ × Nat) :
    Nat → Nat → Array Nat → σ → Nat → Nat → Nat → Nat → Nat → Out (Array Nat × σ × Nat × Nat × Nat × Nat)
  | 0, _, ws, st, rb, wb, gbi, lower, _upper => .ok (ws, st, rb, wb, gbi, lower)
  | n + 1, wn, ws, st, rb, wb, gbi, lower, upper => do
    let (st, wb, gbi) := gnWord W bw mask f lower upper (W + 1) st rb wb gbi
    let next ← Out.readU ws (wn + 1)
    let (st, wb, gbi, nwb) :=
      if upper != gbi then
        let remainder := upper - gbi
        let offset := gbi - lower
        let element := ((rb >>> offset) ||| shlW W next remainder) &&& mask
        let (st, ne) := f st element
        (st, wb ||| shlW W ne offset, gbi + bw, ne >>> remainder)
      else (st, wb, gbi, 0)
    if wn ≥ ws.size then .oob
    else
      let ws := ws.setIfInBounds wn wb
      gnLoop W bw mask f n (wn + 1) ws st next nwb gbi upper (upper + W)

/-- final `while offset < len * bit_width - global_bit_index` of the general path -/
def gnTail (W bw mask : Nat) (f : σ → Nat → σ × Nat) (bound : Nat) :
    Nat → σ → Nat → Nat → Nat → σ × Nat × Nat
  | 0, st, _rb, wb, offset => (st, wb, offset)
  | fuel + 1, st, rb, wb, offset =>
    if offset < bound then
      let element := mask &&& (rb >>> offset)
      let (st, ne) := f st element
      gnTail W bw mask f bound fuel st rb (wb ||| shlW W ne offset) (offset + bw)
    else (st, wb, offset)

/-- `f(0)` once per element (bit width 0) -/
def applyZero (f : σ → Nat → σ × Nat) : Nat → σ → σ
  | 0, st => st
  | n + 1, st => applyZero f n (f st 0).1

/-- `apply_in_place_unchecked` (`apply_in_place` wraps `f` with a value check) -/
def applyInPlace (W : Nat) (s : St) (f : σ → Nat → σ × Nat) (st : σ) : Out (St × σ) :=
  if s.len == 0 then .ok (s, st)
  else if s.bw == 0 then .ok (s, applyZero f s.len st)
  else
    let bw := s.bw
    let mask := maskOf W bw
    let nWords := divCeil (s.len * bw) W
    let lastIdx := nWords - 1
    match s.words[0]? with
    | none => .oob
    | some rb0 =>
    if isPow2 bw then do
      let limit0 := (s.len * bw) % W
      let limit := if limit0 == 0 then W else limit0
      let (ws, st, rb) ← p2Loop W bw mask f (nWords - 1) 1 s.words st rb0
      let (st, rb, wb, bib) := p2Word W bw mask f limit (W + 1) st rb 0 0
      let wb := if bib < W then wb ||| shlW W rb bib else wb
      if lastIdx ≥ ws.size then .oob
      else pure ({ s with words := ws.setIfInBounds lastIdx wb }, st)
    else do
      let (ws, st, rb, wb, gbi, lower) ← gnLoop W bw mask f lastIdx 0 s.words st rb0 0 0 0 W
      let offset := gbi - lower
      if s.len * bw < gbi then .panic     -- usize underflow (checked build)
      else
        let (st, wb, offset) := gnTail W bw mask f (s.len * bw - gbi) (W + 1) st rb wb offset
        let wb := if offset < W then wb ||| (rb &&& shlW W (allOnes W) offset) else wb
        if lastIdx ≥ ws.size then .oob
        else pure ({ s with words := ws.setIfInBounds lastIdx wb }, st)

end Apply

/-! ## `try_chunks_mut` -/

inductive ChunkRes where
  | err                         -- `Err(())`
  | noChunk                     -- the iterator has fewer than `j + 1` chunks
  | done (s : St)               -- op applied to chunk `j`, written back
  | value (v : Nat)
deriving Repr

/-- `try_chunks_mut(cs)` then, on chunk number `j`, either `set(i, v)` (`v = some _`) or `get(i)` -/
def chunkOp (W : Nat) (s : St) (cs j i : Nat) (v : Option Nat) : Out ChunkRes :=
  if s.len ≤ cs || (cs * s.bw) % W == 0 then
    let nw := divCeil (s.len * s.bw) W
    if nw > s.words.size then .panic            -- `bits[..nw]`
    else
      let cw := divCeil (cs * s.bw) W
      if cw == 0 then .panic                    -- `chunks_mut(0)`
      else if j * cw ≥ nw then .ok .noChunk
      else
        let lo := j * cw
        let hi := min ((j + 1) * cw) nw
        let chunkLen := min cs (s.len - j * cs)
        let c : St := { words := s.words.extract lo hi, bw := s.bw, len := chunkLen }
        match v with
        | some v => do
          let c' ← set W c i v
          let ws := (List.range (hi - lo)).foldl
            (fun ws k => ws.setIfInBounds (lo + k) (c'.words.getD k 0)) s.words
          pure (.done { s with words := ws })
        | none => do
          let x ← get W c i
          pure (.value x)
  else .ok .err

/-! ## `get_unaligned` -/

/-- `get_unaligned` (`W` a multiple of 8; bytes are little-endian) -/
def getUnaligned (W : Nat) (s : St) (i : Nat) : Out Nat :=
  let bytes := W / 8
  if !(s.bw ≤ W - 8 + 2 || s.bw == W - 8 + 4 || s.bw == W) then .panic
  else if i ≥ s.len then .panic
  else
    let startBit := i * s.bw
    if startBit / 8 + bytes > s.words.size * bytes then .panic
    else
      let bitPos := 8 * (startBit / 8)
      let wi := bitPos / W
      let off := bitPos % W
      do
        let w0 ← Out.readU s.words wi
        let word ← (if off == 0 then pure w0 else do
          let w1 ← Out.readU s.words (wi + 1)
          pure ((w0 >>> off) ||| shlW W w1 (W - off)) : Out Nat)
        pure ((word >>> (startBit % 8)) &&& maskOf W s.bw)

end Sux.BFV
