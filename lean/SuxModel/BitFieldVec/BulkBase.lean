import SuxModel.Base.BitsLemmas
import SuxModel.BitFieldVec.Spec
/-!
# General lemmas for the bulk operations of `BitFieldVec` (C10; proof-only file)

A reader `rd ws i = ws.getD i 0`, word ↔ bit-stream conversion, the "funnel" (two adjacent words
shifted together), masks, `bitsVal`, evaluation of `readS`/`readU`/`modS`.
Everything lives in `Sux.BFV.C10` so that it cannot clash with the lemmas of other tasks.
-/
namespace Sux.BFV.C10
open Sux Sux.BFV

/-- word reader (words past the end read as 0) -/
def rd (ws : Array Nat) (i : Nat) : Nat := ws.getD i 0

theorem rd_set (ws : Array Nat) (j w i : Nat) :
    rd (ws.setIfInBounds j w) i = if i = j ∧ j < ws.size then w else rd ws i :=
  getD_setIfInBounds ws j w i

theorem rd_set_self (ws : Array Nat) (j w : Nat) (h : j < ws.size) :
    rd (ws.setIfInBounds j w) j = w := by
  rw [rd_set]; simp [h]

theorem rd_set_ne (ws : Array Nat) (j w i : Nat) (h : i ≠ j) :
    rd (ws.setIfInBounds j w) i = rd ws i := by
  rw [rd_set]; simp [h]

theorem rd_lt {W : Nat} {ws : Array Nat} (h : WordsOK W ws) (i : Nat) : rd ws i < 2 ^ W :=
  getD_lt_of_WordsOK h i

theorem rd_of_ge {ws : Array Nat} {i : Nat} (h : ws.size ≤ i) : rd ws i = 0 := getD_of_ge h

theorem readS_rd {ws : Array Nat} {i : Nat} (h : i < ws.size) : Out.readS ws i = .ok (rd ws i) :=
  readS_eq h

theorem readU_rd {ws : Array Nat} {i : Nat} (h : i < ws.size) : Out.readU ws i = .ok (rd ws i) :=
  readU_eq h

theorem modS_rd {ws : Array Nat} {i : Nat} (f : Nat → Nat) (h : i < ws.size) :
    modS ws i f = .ok (ws.setIfInBounds i (f (rd ws i))) := by
  unfold modS
  rw [readS_rd h]; rfl

theorem bitAt_rd (W : Nat) (ws : Array Nat) (k : Nat) :
    bitAt W ws k = (rd ws (k / W)).testBit (k % W) := rfl

/-- bit `r` of word `q` is stream bit `q * W + r` -/
theorem bitAt_word {W : Nat} (ws : Array Nat) (q r : Nat) (hr : r < W) :
    bitAt W ws (q * W + r) = (rd ws q).testBit r := by
  have hW : 0 < W := by omega
  rw [bitAt_rd]
  have h1 : (q * W + r) / W = q := by
    rw [Nat.mul_comm, Nat.mul_add_div hW, Nat.div_eq_of_lt hr, Nat.add_zero]
  have h2 : (q * W + r) % W = r := by
    rw [Nat.mul_comm, Nat.mul_add_mod, Nat.mod_eq_of_lt hr]
  rw [h1, h2]

theorem bitAt_of_range {W : Nat} (ws : Array Nat) (q k : Nat) (h1 : q * W ≤ k) (h2 : k < q * W + W) :
    bitAt W ws k = (rd ws q).testBit (k - q * W) := by
  have : k = q * W + (k - q * W) := by omega
  conv => lhs; rw [this]
  exact bitAt_word ws q _ (by omega)

theorem div_mod_decomp (W k : Nat) : k = (k / W) * W + k % W := by
  rw [Nat.mul_comm]; exact (Nat.div_add_mod k W).symm

/-- the two stores agree bit for bit iff they agree word for word (on the low `W` bits) -/
theorem bitAt_ext_word {W : Nat} (hW : 0 < W) (a : Array Nat) (g : Nat → Bool)
    (h : ∀ q r, r < W → (rd a q).testBit r = g (q * W + r)) : ∀ k, bitAt W a k = g k := by
  intro k
  have hk := div_mod_decomp W k
  have hr : k % W < W := Nat.mod_lt _ hW
  rw [bitAt_rd, h _ _ hr, ← hk]

theorem succ_mul_le {q d : Nat} (W : Nat) (h : q < d) : q * W + W ≤ d * W := by
  have := Nat.mul_le_mul_right W (show q + 1 ≤ d from h)
  rw [Nat.add_mul, Nat.one_mul] at this
  exact this

theorem div_mod_of_range (W q k : Nat) (h1 : q * W ≤ k) (h2 : k < q * W + W) :
    k / W = q ∧ k % W = k - q * W := by
  have hW : 0 < W := by omega
  have e : k = W * q + (k - q * W) := by rw [Nat.mul_comm]; omega
  have hr : k - q * W < W := by omega
  constructor
  · rw [e, Nat.mul_add_div hW, Nat.div_eq_of_lt hr, Nat.add_zero]
  · conv => lhs; rw [e]
    rw [Nat.mul_add_mod, Nat.mod_eq_of_lt hr]

theorem divCeil_arith (W N : Nat) (hW : 0 < W) (hN : 0 < N) :
    ∃ m, divCeil N W = m + 1 ∧ m * W < N ∧ N ≤ m * W + W := by
  unfold divCeil
  have e := div_mod_decomp W (N + W - 1)
  have hr : (N + W - 1) % W < W := Nat.mod_lt _ hW
  generalize (N + W - 1) / W = nW at *
  generalize (N + W - 1) % W = r at *
  cases nW with
  | zero => omega
  | succ m =>
    rw [Nat.add_mul, Nat.one_mul] at e
    exact ⟨m, rfl, by omega, by omega⟩

/-! ## masks -/

theorem testBit_maskR {W r : Nat} (hr : r ≤ W) (j : Nat) :
    (allOnes W >>> (W - r)).testBit j = decide (j < r) := by
  rw [Nat.testBit_shiftRight, testBit_allOnes]
  by_cases h : j < r
  · have : W - r + j < W := by omega
    simp [h, this]
  · have : ¬ (W - r + j < W) := by omega
    simp [h, this]

theorem maskR_lt (W r : Nat) : allOnes W >>> (W - r) < 2 ^ W :=
  Nat.lt_of_le_of_lt (Nat.shiftRight_le _ _) (allOnes_lt W)

theorem testBit_shlAll (W s j : Nat) :
    (shlW W (allOnes W) s).testBit j = (decide (j < W) && decide (s ≤ j)) := by
  rw [testBit_shlW, testBit_allOnes]
  by_cases h1 : j < W <;> by_cases h2 : s ≤ j <;> simp [h1, h2]
  omega

theorem testBit_maskOf {W bw : Nat} (h : bw ≤ W) (j : Nat) :
    (maskOf W bw).testBit j = decide (j < bw) := by
  unfold maskOf
  by_cases h0 : bw = 0
  · simp [h0]
  · have : (bw == 0) = false := by simp [h0]
    rw [this]
    simp only [Bool.false_eq_true, if_false]
    exact testBit_maskR h j

theorem maskOf_lt (W bw : Nat) : maskOf W bw < 2 ^ W := by
  unfold maskOf
  split
  · exact Nat.two_pow_pos W
  · exact maskR_lt W bw

theorem shiftRight_lt {W x : Nat} (s : Nat) (hx : x < 2 ^ W) : x >>> s < 2 ^ W :=
  Nat.lt_of_le_of_lt (Nat.shiftRight_le _ _) hx

/-! ## the funnel: `W` stream bits starting `t` bits into word `x`, continuing into `y` -/

theorem testBit_funnel {W x : Nat} (y t b : Nat) (hx : x < 2 ^ W) (ht : t ≤ W) (hb : b < W) :
    ((x >>> t) ||| shlW W y (W - t)).testBit b
      = if t + b < W then x.testBit (t + b) else y.testBit (t + b - W) := by
  rw [Nat.testBit_or, Nat.testBit_shiftRight, testBit_shlW]
  by_cases h : t + b < W
  · have : ¬ (W - t ≤ b) := by omega
    simp [h, this]
  · have h1 : W - t ≤ b := by omega
    have h2 : b - (W - t) = t + b - W := by omega
    rw [testBit_ge_of_lt hx (by omega)]
    simp [h, h1, h2, hb]

theorem funnel_stream {W : Nat} {ws : Array Nat} (hok : WordsOK W ws) (p t b : Nat)
    (ht : t ≤ W) (hb : b < W) :
    ((rd ws p >>> t) ||| shlW W (rd ws (p + 1)) (W - t)).testBit b = bitAt W ws (p * W + t + b) := by
  rw [testBit_funnel _ t b (rd_lt hok p) ht hb]
  by_cases h : t + b < W
  · rw [if_pos h, Nat.add_assoc, bitAt_word ws p (t + b) h]
  · rw [if_neg h]
    have e : p * W + t + b = (p + 1) * W + (t + b - W) := by
      rw [Nat.add_mul]; omega
    rw [e, bitAt_word ws (p + 1) _ (by omega)]

/-! ## `bitsVal` -/

theorem bitsVal_lt (f : Nat → Bool) (n : Nat) : bitsVal f n < 2 ^ n := by
  induction n with
  | zero => simp [bitsVal]
  | succ n ih =>
    unfold bitsVal
    rw [Nat.pow_succ]
    split <;> omega

theorem testBit_bitsVal (f : Nat → Bool) (n j : Nat) :
    (bitsVal f n).testBit j = (decide (j < n) && f j) := by
  induction n with
  | zero => simp [bitsVal]
  | succ n ih =>
    unfold bitsVal
    have hlt := bitsVal_lt f n
    by_cases hf : f n
    · rw [if_pos hf, Nat.add_comm]
      by_cases h1 : j < n
      · rw [Nat.testBit_two_pow_add_gt h1, ih]
        have : j < n + 1 := by omega
        simp [h1, this]
      · by_cases h2 : j = n
        · subst h2
          rw [Nat.testBit_two_pow_add_eq, ih]
          simp [hf]
        · have h3 : n + 1 ≤ j := by omega
          have : 2 ^ n + bitsVal f n < 2 ^ j := by
            have := Nat.pow_le_pow_right (by omega : 0 < 2) h3
            rw [Nat.pow_succ] at this
            omega
          rw [Nat.testBit_lt_two_pow this]
          have : ¬ j < n + 1 := by omega
          simp [this]
    · rw [if_neg hf, Nat.add_zero, ih]
      by_cases h1 : j < n
      · have : j < n + 1 := by omega
        simp [h1, this]
      · by_cases h2 : j = n
        · subst h2; simp [hf]
        · have : ¬ j < n + 1 := by omega
          simp [h1, this]

theorem bitsVal_congr {f g : Nat → Bool} {n : Nat} (h : ∀ j, j < n → f j = g j) :
    bitsVal f n = bitsVal g n := by
  induction n with
  | zero => rfl
  | succ n ih =>
    unfold bitsVal
    rw [ih (fun j hj => h j (by omega)), h n (by omega)]

/-- a number below `2^n` is the `bitsVal` of its own bits -/
theorem eq_bitsVal {n x : Nat} (hx : x < 2 ^ n) : x = bitsVal (fun j => x.testBit j) n := by
  apply Nat.eq_of_testBit_eq
  intro j
  rw [testBit_bitsVal]
  by_cases h : j < n
  · simp [h]
  · rw [testBit_ge_of_lt hx (by omega)]; simp [h]

theorem valAt_lt (W : Nat) (ws : Array Nat) (bw i : Nat) : valAt W ws bw i < 2 ^ bw :=
  bitsVal_lt _ _

theorem testBit_valAt (W : Nat) (ws : Array Nat) (bw i j : Nat) :
    (valAt W ws bw i).testBit j = (decide (j < bw) && bitAt W ws (i * bw + j)) :=
  testBit_bitsVal _ _ _

/-- a value is `valAt` iff its low `bw` bits are the stream bits and it has no others -/
theorem eq_valAt {W : Nat} {ws : Array Nat} {bw i x : Nat}
    (h : ∀ j, x.testBit j = (decide (j < bw) && bitAt W ws (i * bw + j))) : x = valAt W ws bw i := by
  apply Nat.eq_of_testBit_eq
  intro j
  rw [h, testBit_valAt]

theorem vals_length (W : Nat) (s : St) : (s.vals W).length = s.len := by
  simp [St.vals]

theorem vals_getElem (W : Nat) (s : St) (i : Nat) (h : i < (s.vals W).length) :
    (s.vals W)[i] = valAt W s.words s.bw i := by
  simp [St.vals]

/-! ## an element read off one word or two adjacent words -/

theorem elem_in_word {W : Nat} (orig : Array Nat) (bw q off idx : Nat) (hbw : bw ≤ W)
    (hoff : off + bw ≤ W) (hpos : idx * bw = q * W + off) :
    (rd orig q >>> off) &&& maskOf W bw = valAt W orig bw idx := by
  apply eq_valAt
  intro j
  rw [Nat.testBit_and, Nat.testBit_shiftRight, testBit_maskOf hbw]
  by_cases hj : j < bw
  · rw [hpos, Nat.add_assoc, bitAt_word _ _ _ (by omega)]
    simp [hj]
  · simp [hj]

theorem elem_straddle {W : Nat} (orig : Array Nat) (hok : WordsOK W orig) (bw q off idx : Nat)
    (hbw : bw ≤ W) (hoff : off ≤ W) (hpos : idx * bw = q * W + off) :
    ((rd orig q >>> off) ||| shlW W (rd orig (q + 1)) (W - off)) &&& maskOf W bw
      = valAt W orig bw idx := by
  apply eq_valAt
  intro j
  rw [Nat.testBit_and, testBit_maskOf hbw]
  by_cases hj : j < bw
  · rw [funnel_stream hok q off j hoff (by omega), hpos]
    simp [hj]
  · simp [hj]

/-! ## moving a bit range -/

/-- From a per-word description of the new store (first word, middle words, last word, frame)
to the bit-stream statement "the range `[dp, dp+L)` now holds source bits `[sp, sp+L)`". -/
theorem assemble {W : Nat} (hW : 0 < W) (S : Nat → Bool) (d d' : Array Nat)
    (sp dp L df dstBit dl : Nat) (hL : 0 < L)
    (hdp : dp = df * W + dstBit) (hdb : dstBit < W)
    (hdl1 : dl * W ≤ dp + L - 1) (hdl2 : dp + L - 1 < dl * W + W)
    (first : ∀ b, b < W → (rd d' df).testBit b =
      if dstBit ≤ b ∧ df * W + b < dp + L then S (sp + b - dstBit) else (rd d df).testBit b)
    (middle : ∀ q, df < q → q < dl → ∀ b, b < W → (rd d' q).testBit b = S (sp + q * W + b - dp))
    (last : df < dl → ∀ b, b < W → (rd d' dl).testBit b =
      if dl * W + b < dp + L then S (sp + dl * W + b - dp) else (rd d dl).testBit b)
    (frame : ∀ q, (q < df ∨ dl < q) → rd d' q = rd d q) :
    ∀ k, bitAt W d' k = if dp ≤ k ∧ k < dp + L then S (k - dp + sp) else bitAt W d k := by
  apply bitAt_ext_word hW
  intro q r hr
  rw [bitAt_word d q r hr]
  have hdfdl : df ≤ dl := by
    apply Nat.le_of_not_lt
    intro h
    have := succ_mul_le W h
    omega
  by_cases h1 : q < df
  · rw [frame q (Or.inl h1)]
    have := succ_mul_le W h1
    rw [if_neg (by omega)]
  · by_cases h2 : q = df
    · subst h2
      rw [first r hr]
      by_cases hc : dstBit ≤ r ∧ q * W + r < dp + L
      · rw [if_pos hc, if_pos (by omega)]
        congr 1; omega
      · rw [if_neg hc, if_neg (by omega)]
    · have h3 : df < q := by omega
      have h3' := succ_mul_le W h3
      by_cases h4 : q < dl
      · rw [middle q h3 h4 r hr]
        have := succ_mul_le W h4
        rw [if_pos (by omega)]
        congr 1; omega
      · by_cases h5 : q = dl
        · subst h5
          rw [last h3 r hr]
          by_cases hc : q * W + r < dp + L
          · rw [if_pos hc, if_pos (by omega)]
            congr 1; omega
          · rw [if_neg hc, if_neg (by omega)]
        · have h6 : dl < q := by omega
          rw [frame q (Or.inr h6)]
          have := succ_mul_le W h6
          rw [if_neg (by omega)]

end Sux.BFV.C10
