import SuxModel.Base.Bits
/-!
# Specification vocabulary for rank / select (C01, C02)

A bit vector is `(ws, len)`: bit `k < len` is `bitAt 64 ws k`; whatever the backend holds at or
beyond `len` (stale bits of the last word, extra words) is NOT part of the vector.
-/
namespace Sux.RS

/-- bit `k` of the vector of length `len` over backend `ws` (false beyond `len`) -/
def bitOf (ws : Array Nat) (len k : Nat) : Bool := decide (k < len) && bitAt 64 ws k

/-- number of ones among the first `min p len` bits -/
def rankSpec (ws : Array Nat) (len p : Nat) : Nat := (List.range (min p len)).countP (bitAt 64 ws)

/-- positions of the ones / zeros, increasing -/
def onesList (ws : Array Nat) (len : Nat) : List Nat := (List.range len).filter (bitAt 64 ws)
def zerosList (ws : Array Nat) (len : Nat) : List Nat := (List.range len).filter (fun k => !bitAt 64 ws k)

def numOnes (ws : Array Nat) (len : Nat) : Nat := (onesList ws len).length
def numZeros (ws : Array Nat) (len : Nat) : Nat := (zerosList ws len).length

/-- position of the one of rank `r` (`none` iff `r ≥ numOnes`) -/
def selectSpec (ws : Array Nat) (len r : Nat) : Option Nat := (onesList ws len)[r]?
def selectZeroSpec (ws : Array Nat) (len r : Nat) : Option Nat := (zerosList ws len)[r]?

/-- `p` is the position of the one of rank `r` -/
def IsSelect (ws : Array Nat) (len r p : Nat) : Prop :=
  p < len ∧ bitAt 64 ws p = true ∧ rankSpec ws len p = r

def IsSelectZero (ws : Array Nat) (len r p : Nat) : Prop :=
  p < len ∧ bitAt 64 ws p = false ∧ p - rankSpec ws len p = r

end Sux.RS
