import SuxModel.RankSel.Hinted
import SuxModel.RankSel.CntLemmas
/-!
# Correctness of `select_in_word` and of the hinted selection loops (C02)
-/
namespace Sux.RS

theorem popcount_eq_cnt (w : Nat) : popcount 64 w = cnt (fun j => w.testBit j) 64 := rfl

theorem testBit_div_two (w j : Nat) : (w / 2).testBit j = w.testBit (j + 1) := by
  rw [Nat.testBit_succ]

theorem mod_two_eq_one_iff_testBit (w : Nat) : (w % 2 = 1) ↔ w.testBit 0 = true := by
  rw [Nat.testBit_zero]; simp

theorem cnt_succ_left (g : Nat → Bool) (n : Nat) :
    cnt g (n + 1) = (if g 0 then 1 else 0) + cnt (fun j => g (j + 1)) n := by
  rw [Nat.add_comm n 1, cnt_add, show cnt g 1 = cnt g (0 + 1) from rfl, cnt_succ, cnt_zero]
  simp only [Nat.zero_add]
  congr 1
  apply cnt_congr; intro k _; rw [Nat.add_comm]

theorem popcAux_spec : ∀ (fuel w acc : Nat),
    popcAux fuel w acc = acc + cnt (fun j => w.testBit j) fuel := by
  intro fuel
  induction fuel with
  | zero => intro w acc; simp [popcAux]
  | succ fuel ih =>
    intro w acc
    unfold popcAux
    by_cases hw : w = 0
    · subst hw
      rw [if_pos rfl, cnt_false (by intro k _; simp)]; rfl
    · rw [if_neg hw, ih, cnt_succ_left]
      have hshift : (fun j => w.testBit (j + 1)) = (fun j => (w / 2).testBit j) := by
        funext j; rw [testBit_div_two]
      rw [hshift]
      have : w % 2 = if w.testBit 0 then 1 else 0 := by
        rw [Nat.testBit_zero]
        rcases Nat.mod_two_eq_zero_or_one w with h | h <;> simp [h]
      rw [this]; omega

theorem popc_eq_popcount (w : Nat) : popc w = popcount 64 w := by
  unfold popc; rw [popcAux_spec, Nat.zero_add]; rfl

/-- the scan finds the set bit of rank `k` among the low `fuel` bits -/
theorem selectInWordAux_spec : ∀ (fuel w k pos : Nat), k < cnt (fun j => w.testBit j) fuel →
    ∃ q, q < fuel ∧ selectInWordAux fuel w k pos = pos + q ∧ w.testBit q = true ∧
      cnt (fun j => w.testBit j) q = k := by
  intro fuel
  induction fuel with
  | zero => intro w k pos h; simp at h
  | succ fuel ih =>
    intro w k pos h
    rw [cnt_succ_left] at h
    unfold selectInWordAux
    have hshift : (fun j => w.testBit (j + 1)) = (fun j => (w / 2).testBit j) := by
      funext j; rw [testBit_div_two]
    by_cases h0 : w % 2 = 1
    · have hb := (mod_two_eq_one_iff_testBit w).mp h0
      rw [if_pos h0]
      by_cases hk : k = 0
      · rw [if_pos hk]
        exact ⟨0, by omega, by omega, hb, by simp [hk]⟩
      · rw [if_neg hk]
        simp only [hb, if_true] at h
        rw [hshift] at h
        obtain ⟨q, hq, he, hbq, hc⟩ := ih (w / 2) (k - 1) (pos + 1) (by omega)
        refine ⟨q + 1, by omega, by rw [he]; omega, by rw [← testBit_div_two]; exact hbq, ?_⟩
        rw [cnt_succ_left, hshift, hc]
        simp only [hb, if_true]; omega
    · have hb : w.testBit 0 = false := by
        cases hh : w.testBit 0
        · rfl
        · exact absurd ((mod_two_eq_one_iff_testBit w).mpr hh) h0
      rw [if_neg h0]
      simp only [hb] at h
      rw [hshift] at h
      obtain ⟨q, hq, he, hbq, hc⟩ := ih (w / 2) k (pos + 1) (by simpa using h)
      refine ⟨q + 1, by omega, by rw [he]; omega, by rw [← testBit_div_two]; exact hbq, ?_⟩
      rw [cnt_succ_left, hshift, hc]
      simp [hb]

/-- `select_in_word`: for `k < count_ones(w)` the result is the position `< 64` of the set bit of
rank `k` -/
theorem selectInWord_spec (w k : Nat) (h : k < popcount 64 w) :
    IsSel (fun j => w.testBit j) 64 k (selectInWord w k) := by
  rw [popcount_eq_cnt] at h
  obtain ⟨q, hq, he, hb, hc⟩ := selectInWordAux_spec 64 w k 0 h
  unfold selectInWord
  rw [he, Nat.zero_add]
  exact ⟨hq, hb, hc⟩

/-- masked counting: ones of `f` in `[lo, base + q)` -/
theorem cnt_masked (f : Nat → Bool) (base lo : Nat) (hlo : base ≤ lo) (q : Nat) :
    cnt (fun j => decide (lo ≤ base + j) && f (base + j)) q + cnt f lo = cnt f (max lo (base + q)) := by
  induction q with
  | zero => rw [cnt_zero, Nat.add_zero, Nat.max_eq_left hlo]; omega
  | succ q ih =>
    rw [cnt_succ]
    by_cases h : lo ≤ base + q
    · rw [Nat.max_eq_right h] at ih
      rw [Nat.max_eq_right (show lo ≤ base + (q + 1) by omega), ← Nat.add_assoc, cnt_succ, ← ih]
      simp only [h, decide_true, Bool.true_and]
      omega
    · rw [Nat.max_eq_left (by omega)] at ih
      rw [Nat.max_eq_left (show base + (q + 1) ≤ lo by omega)]
      simp only [h, decide_false, Bool.false_and]
      simpa using ih

theorem polBit_word (zero : Bool) (ws : Array Nat) (i j : Nat) (hj : j < 64) :
    polBit zero ws (64 * i + j) = (polWord zero (ws.getD i 0)).testBit j := by
  unfold polBit polWord bitAt
  have h1 : (64 * i + j) / 64 = i := by omega
  have h2 : (64 * i + j) % 64 = j := by omega
  rw [h1, h2]
  cases zero
  · simp
  · simp only [if_true]
    rw [testBit_notW]
    simp [hj]

theorem testBit_mask_low (w b j : Nat) : ((w >>> b) <<< b).testBit j = (decide (b ≤ j) && w.testBit j) := by
  rw [Nat.testBit_shiftLeft, Nat.testBit_shiftRight]
  by_cases h : b ≤ j
  · simp only [ge_iff_le, h, decide_true, Bool.true_and]
    congr 1; omega
  · simp [h]

theorem readU_ok_of_lt {ws : Array Nat} {i : Nat} (h : i < ws.size) : Out.readU ws i = .ok (ws.getD i 0) := by
  unfold Out.readU
  simp [Array.getD, h]

/-- invariant-style correctness of the word loop -/
theorem selectHintedLoop_correct (zero : Bool) (ws : Array Nat) (len rank p : Nat)
    (hlen : len ≤ 64 * ws.size) (hsel : IsSel (polBit zero ws) len rank p) :
    ∀ (d wi word residual lo : Nat), p / 64 - wi = d → 64 * wi ≤ lo → lo ≤ 64 * wi + 64 →
      (∀ j, j < 64 → word.testBit j = (decide (lo ≤ 64 * wi + j) && polBit zero ws (64 * wi + j))) →
      residual + cnt (polBit zero ws) lo = rank → lo ≤ p →
      selectHintedLoop zero ws wi word residual = .ok p := by
  intro d
  induction d with
  | zero =>
    intro wi word residual lo hd hlo1 hlo2 hword hres hlop
    have hbc : popcount 64 word + cnt (polBit zero ws) lo = cnt (polBit zero ws) (64 * wi + 64) := by
      rw [popcount_eq_cnt, cnt_congr (fun j hj => hword j hj), cnt_masked _ _ _ hlo1,
        Nat.max_eq_right hlo2]
    have hp : p < 64 * wi + 64 := by omega
    have hlt := hsel.at.lt_cnt_of_lt hp
    unfold selectHintedLoop
    simp only [popc_eq_popcount]
    rw [if_pos (by omega)]
    have hs := selectInWord_spec word residual (by omega)
    obtain ⟨hq, hb, hc⟩ := hs
    generalize selectInWord word residual = q at hq hb hc
    have hb' := hword q hq
    have hb0 : word.testBit q = true := hb
    rw [hb0] at hb'
    have hb'' : lo ≤ 64 * wi + q ∧ polBit zero ws (64 * wi + q) = true := by
      simpa using hb'.symm
    have hcq := cnt_masked (polBit zero ws) (64 * wi) lo hlo1 q
    rw [← cnt_congr (fun j hj => hword j (by omega)), hc, Nat.max_eq_right hb''.1] at hcq
    have : IsSelAt (polBit zero ws) rank (64 * wi + q) := ⟨hb''.2, by omega⟩
    have := this.unique hsel.at
    congr 1; omega
  | succ d ih =>
    intro wi word residual lo hd hlo1 hlo2 hword hres hlop
    have hbc : popcount 64 word + cnt (polBit zero ws) lo = cnt (polBit zero ws) (64 * wi + 64) := by
      rw [popcount_eq_cnt, cnt_congr (fun j hj => hword j hj), cnt_masked _ _ _ hlo1,
        Nat.max_eq_right hlo2]
    have hp : 64 * wi + 64 ≤ p := by omega
    have hle := hsel.at.cnt_le_of_le hp
    unfold selectHintedLoop
    simp only [popc_eq_popcount]
    rw [if_neg (by omega)]
    have hsz : wi + 1 < ws.size := by have := hsel.1; omega
    have hrd := readU_ok_of_lt hsz
    have hrec := ih (wi + 1) (polWord zero (ws.getD (wi + 1) 0)) (residual - popcount 64 word)
      (64 * (wi + 1)) (by omega) (by omega) (by omega)
      (by intro j hj; rw [polBit_word zero ws (wi + 1) j hj]; simp)
      (by rw [show 64 * (wi + 1) = 64 * wi + 64 by omega]; omega) (by omega)
    split
    · rename_i w hw
      rw [hrd] at hw
      cases hw
      exact hrec
    · rename_i hw; rw [hrd] at hw; cases hw
    · rename_i hw; rw [hrd] at hw; cases hw

/-- polarity-generic statement: hint at or before the target, hint rank = count before the hint -/
theorem selectHintedP_correct (zero : Bool) (ws : Array Nat) (len rank hintPos hintRank p : Nat)
    (hlen : len ≤ 64 * ws.size) (hsel : IsSel (polBit zero ws) len rank p)
    (hpos : hintPos ≤ p) (hrank : hintRank = cnt (polBit zero ws) hintPos) :
    selectHintedP zero ws rank hintPos hintRank = .ok p := by
  have hle := hsel.at.cnt_le_of_le hpos
  unfold selectHintedP
  simp only [bind, Out.bind]
  rw [if_neg (by omega)]
  have hsz : hintPos / 64 < ws.size := by have := hsel.1; omega
  rw [readU_ok_of_lt hsz]
  simp only
  apply selectHintedLoop_correct zero ws len rank p hlen hsel (p / 64 - hintPos / 64) (hintPos / 64) _ _
    hintPos rfl (by omega) (by omega)
  · intro j hj
    rw [testBit_mask_low, polBit_word zero ws _ j hj]
    congr 1
    have : (hintPos % 64 ≤ j) ↔ (hintPos ≤ 64 * (hintPos / 64) + j) := by omega
    exact decide_eq_decide.mpr this
  · omega
  · exact hpos

/-- **`select_hinted` is correct** (C02, T-A i).  `rank < numOnes` guarantees the target exists; the hint
must not be after it and `hintRank` must be the number of ones before `hintPos`.  Stale bits at or
beyond `len` are irrelevant. -/
theorem select_hinted_correct (ws : Array Nat) (len rank hintPos hintRank : Nat)
    (hlen : len ≤ 64 * ws.size) (hr : rank < numOnes ws len)
    (hpos : ∀ p, IsSelect ws len rank p → hintPos ≤ p)
    (hrank : hintRank = rankSpec ws len hintPos) :
    ∃ p, selectHinted ws rank hintPos hintRank = .ok p ∧ IsSelect ws len rank p := by
  rw [numOnes_eq_cnt] at hr
  obtain ⟨p, hp⟩ := IsSel.exists hr
  have hp' := (isSelect_iff ws len rank p).mpr hp
  have hh := hpos p hp'
  refine ⟨p, ?_, hp'⟩
  have hpl := hp.1
  rw [rankSpec_eq_cnt, Nat.min_eq_left (by omega)] at hrank
  exact selectHintedP_correct false ws len rank hintPos hintRank p hlen hp hh hrank

/-- **`select_zero_hinted` is correct** -/
theorem select_zero_hinted_correct (ws : Array Nat) (len rank hintPos hintRank : Nat)
    (hlen : len ≤ 64 * ws.size) (hr : rank < numZeros ws len)
    (hpos : ∀ p, IsSelectZero ws len rank p → hintPos ≤ p)
    (hrank : hintRank = hintPos - rankSpec ws len hintPos) :
    ∃ p, selectZeroHinted ws rank hintPos hintRank = .ok p ∧ IsSelectZero ws len rank p := by
  rw [numZeros_eq_cnt] at hr
  obtain ⟨p, hp⟩ := IsSel.exists hr
  have hp' := (isSelectZero_iff ws len rank p).mpr hp
  have hh := hpos p hp'
  refine ⟨p, ?_, hp'⟩
  have hpl := hp.1
  rw [rankSpec_eq_cnt, Nat.min_eq_left (by omega)] at hrank
  have hc := cnt_not (bitAt 64 ws) hintPos
  refine selectHintedP_correct true ws len rank hintPos hintRank p hlen hp hh ?_
  have : polBit true ws = fun k => !bitAt 64 ws k := by funext k; simp [polBit]
  rw [this]; omega

end Sux.RS
