import SuxModel.Base.BitsLemmas
import SuxModel.RankSel.Spec
import SuxModel.RankSel.Rank9.Model
import SuxModel.RankSel.RankSmall.Model
/-!
# Lemmas about `rankSpec` shared by the proofs for `Rank9` and `RankSmall` (proof-only file)

`pc ws p` is the number of ones among the first `p` bits of the backend (no clamp); `rankSpec` is
`pc` at `min p len`.  The word-level facts: a (masked) word popcount is the increment of `rankSpec`
over that word, and the closure `count_ones` of both builders computes exactly that increment.
-/
namespace Sux.RS

/-- ones among the first `p` bits of the backend -/
def pc (ws : Array Nat) (p : Nat) : Nat := (List.range p).countP (bitAt 64 ws)

theorem rankSpec_eq_pc (ws : Array Nat) (len p : Nat) : rankSpec ws len p = pc ws (min p len) := rfl

theorem pc_zero (ws : Array Nat) : pc ws 0 = 0 := rfl

theorem pc_succ (ws : Array Nat) (p : Nat) :
    pc ws (p + 1) = pc ws p + (if bitAt 64 ws p then 1 else 0) := by
  unfold pc
  rw [List.range_succ, List.countP_append, List.countP_singleton]

theorem pc_add_le (ws : Array Nat) (p : Nat) : ∀ d, pc ws (p + d) ≤ pc ws p + d := by
  intro d
  induction d with
  | zero => exact Nat.le_refl _
  | succ d ih =>
    rw [← Nat.add_assoc, pc_succ]
    split <;> omega

theorem pc_le_add (ws : Array Nat) (p : Nat) : ∀ d, pc ws p ≤ pc ws (p + d) := by
  intro d
  induction d with
  | zero => exact Nat.le_refl _
  | succ d ih =>
    rw [← Nat.add_assoc, pc_succ]
    omega

theorem pc_mono (ws : Array Nat) {p q : Nat} (h : p ≤ q) : pc ws p ≤ pc ws q := by
  obtain ⟨d, rfl⟩ := Nat.exists_eq_add_of_le h
  exact pc_le_add ws p d

theorem pc_le_of_le (ws : Array Nat) {p q : Nat} (h : p ≤ q) : pc ws q ≤ pc ws p + (q - p) := by
  obtain ⟨d, rfl⟩ := Nat.exists_eq_add_of_le h
  have := pc_add_le ws p d
  omega

/-- `r ≤ 64` bits of word `i` -/
theorem pc_word (ws : Array Nat) (i r : Nat) (hr : r ≤ 64) :
    pc ws (64 * i + r) = pc ws (64 * i) + (List.range r).countP (fun j => (ws.getD i 0).testBit j) := by
  unfold pc
  rw [List.range_add, List.countP_append, List.countP_map]
  congr 1
  apply List.countP_congr
  intro j hj
  rw [List.mem_range] at hj
  simp only [Function.comp, bitAt]
  have h1 : (64 * i + j) / 64 = i := by omega
  have h2 : (64 * i + j) % 64 = j := by omega
  rw [h1, h2]

/-- `(w & ((1 << r) - 1)).count_ones()` counts the `r` low bits of `w` -/
theorem popcount_mask (w r : Nat) (hr : r ≤ 64) :
    popcount 64 (w &&& ((1 <<< r) - 1)) = (List.range r).countP (fun j => w.testBit j) := by
  unfold popcount
  have h64 : 64 = r + (64 - r) := by omega
  conv => lhs; arg 2; rw [h64]
  rw [List.range_add, List.countP_append, List.countP_map]
  have h2 : (List.range (64 - r)).countP
      ((fun j => (w &&& ((1 <<< r) - 1)).testBit j) ∘ fun x => r + x) = 0 := by
    rw [List.countP_eq_zero]
    intro j _
    simp only [Function.comp, Nat.testBit_and, Nat.one_shiftLeft, Nat.testBit_two_pow_sub_one]
    have : ¬ (r + j < r) := by omega
    simp [this]
  rw [h2, Nat.add_zero]
  apply List.countP_congr
  intro j hj
  rw [List.mem_range] at hj
  simp only [Nat.testBit_and, Nat.one_shiftLeft, Nat.testBit_two_pow_sub_one]
  simp [hj]

theorem popcount_le (w : Nat) : popcount 64 w ≤ 64 := by
  unfold popcount
  have := List.countP_le_length (p := fun j => w.testBit j) (l := List.range 64)
  simpa using this

/-! ## `rankSpec` -/

theorem rankSpec_zero (ws : Array Nat) (len : Nat) : rankSpec ws len 0 = 0 := by
  rw [rankSpec_eq_pc, Nat.zero_min]; rfl

theorem rankSpec_of_le (ws : Array Nat) {len p : Nat} (h : p ≤ len) : rankSpec ws len p = pc ws p := by
  rw [rankSpec_eq_pc, Nat.min_eq_left h]

theorem rankSpec_of_ge (ws : Array Nat) {len p : Nat} (h : len ≤ p) :
    rankSpec ws len p = rankSpec ws len len := by
  rw [rankSpec_eq_pc, rankSpec_eq_pc, Nat.min_eq_right h, Nat.min_self]

theorem rankSpec_mono (ws : Array Nat) (len : Nat) {p q : Nat} (h : p ≤ q) :
    rankSpec ws len p ≤ rankSpec ws len q := by
  rw [rankSpec_eq_pc, rankSpec_eq_pc]
  apply pc_mono
  omega

theorem rankSpec_le_add (ws : Array Nat) (len : Nat) {p q : Nat} (h : p ≤ q) :
    rankSpec ws len q ≤ rankSpec ws len p + (q - p) := by
  rw [rankSpec_eq_pc, rankSpec_eq_pc]
  have := pc_le_of_le ws (p := min p len) (q := min q len) (by omega)
  omega

theorem rankSpec_le (ws : Array Nat) (len p : Nat) : rankSpec ws len p ≤ p := by
  have := rankSpec_le_add ws len (Nat.zero_le p)
  rw [rankSpec_zero] at this
  omega

theorem numOnes_eq_rankSpec (ws : Array Nat) (len : Nat) : numOnes ws len = rankSpec ws len len := by
  unfold numOnes onesList
  rw [rankSpec_eq_pc, Nat.min_self, ← List.countP_eq_length_filter]
  rfl

theorem numZeros_eq (ws : Array Nat) (len : Nat) : numZeros ws len = len - numOnes ws len := by
  unfold numZeros numOnes zerosList onesList
  have h := List.length_eq_countP_add_countP (l := List.range len) (bitAt 64 ws)
  rw [List.length_range] at h
  rw [← List.countP_eq_length_filter, ← List.countP_eq_length_filter]
  have : (List.range len).countP (fun k => !bitAt 64 ws k)
      = (List.range len).countP (fun a => ¬ bitAt 64 ws a = true) := by
    apply List.countP_congr
    intro k _
    simp
  omega

/-- position `p < len` inside word `p / 64`: rank splits at the word boundary -/
theorem rankSpec_split (ws : Array Nat) {len p : Nat} (hp : p ≤ len) :
    rankSpec ws len p = rankSpec ws len (64 * (p / 64))
      + popcount 64 (ws.getD (p / 64) 0 &&& ((1 <<< (p % 64)) - 1)) := by
  rw [rankSpec_of_le ws hp, rankSpec_of_le ws (by omega : 64 * (p / 64) ≤ len),
    popcount_mask _ _ (by omega)]
  have h := pc_word ws (p / 64) (p % 64) (by omega)
  have e : 64 * (p / 64) + p % 64 = p := by omega
  rw [e] at h
  exact h

/-- a word entirely below `len` -/
theorem rankSpec_full_word (ws : Array Nat) {len i : Nat} (h : 64 * (i + 1) ≤ len) :
    rankSpec ws len (64 * (i + 1)) = rankSpec ws len (64 * i) + popcount 64 (ws.getD i 0) := by
  rw [rankSpec_of_le ws h, rankSpec_of_le ws (by omega : 64 * i ≤ len)]
  have := pc_word ws i 64 (Nat.le_refl _)
  rw [Nat.mul_succ]
  exact this

/-- a word index at or beyond the last word: nothing more to count -/
theorem rankSpec_past (ws : Array Nat) {len i : Nat} (h : len ≤ 64 * i) :
    rankSpec ws len (64 * (i + 1)) = rankSpec ws len (64 * i) := by
  rw [rankSpec_of_ge ws h, rankSpec_of_ge ws (by omega : len ≤ 64 * (i + 1))]

/-! ## `divCeil` -/

theorem divCeil_eq (a b : Nat) : RankSmall.divCeil a b = if a % b > 0 then a / b + 1 else a / b := rfl

theorem rank9_divCeil_eq : Rank9.divCeil = RankSmall.divCeil := rfl

theorem divCeil_64 (len : Nat) :
    64 * (RankSmall.divCeil len 64 - 1) < len ∨ len = 0 := by
  rw [divCeil_eq]; split <;> omega

theorem lt_divCeil_64 {len i : Nat} : i < RankSmall.divCeil len 64 ↔ 64 * i < len := by
  rw [divCeil_eq]; split <;> omega

/-- `i < divCeil n b ↔ b * i < n` -/
theorem lt_divCeil {n b i : Nat} (hb : 0 < b) : i < RankSmall.divCeil n b ↔ b * i < n := by
  rw [divCeil_eq]
  have h1 := Nat.div_add_mod n b
  have h2 := Nat.mod_lt n hb
  generalize n / b = q at *
  generalize n % b = r at *
  constructor
  · intro h
    split at h
    · have : i ≤ q := by omega
      have := Nat.mul_le_mul_left b this
      omega
    · have : i + 1 ≤ q := by omega
      have := Nat.mul_le_mul_left b this
      rw [Nat.mul_succ] at this
      omega
  · intro h
    have hlt : b * i < b * (q + 1) := by rw [Nat.mul_succ]; omega
    have hi : i < q + 1 := Nat.lt_of_mul_lt_mul_left hlt
    split
    · exact hi
    · rename_i hr
      have hr0 : r = 0 := by omega
      subst hr0
      have : b * i < b * q := by omega
      exact Nat.lt_of_mul_lt_mul_left this

/-! ## the closure `count_ones` of the two builders -/

theorem rank9_countOnes_eq : Rank9.countOnes = RankSmall.countOnes := rfl

/-- for a word index below `num_words`, `count_ones(i)` is the increment of `rankSpec` over word `i`
(stale bits of the last word are masked) -/
theorem countOnes_spec (ws : Array Nat) (len : Nat) (hlen : len ≤ 64 * ws.size) {i : Nat}
    (hi : i < RankSmall.divCeil len 64) :
    ∃ c, RankSmall.countOnes ws len (RankSmall.divCeil len 64) i = .ok c ∧ c ≤ 64 ∧
      rankSpec ws len (64 * (i + 1)) = rankSpec ws len (64 * i) + c := by
  have hi' : 64 * i < len := lt_divCeil_64.mp hi
  have his : i < ws.size := by omega
  unfold RankSmall.countOnes
  rw [readS_eq his]
  simp only [Out.bind_ok, Out.pure_eq]
  refine ⟨_, rfl, popcount_le _, ?_⟩
  by_cases hc : (len % 64 != 0 && i == RankSmall.divCeil len 64 - 1) = true
  · rw [if_pos hc]
    simp only [Bool.and_eq_true, bne_iff_ne, ne_eq, beq_iff_eq] at hc
    obtain ⟨hr, hlast⟩ := hc
    rw [divCeil_eq] at hlast
    have hpos : len % 64 > 0 := by omega
    rw [if_pos hpos] at hlast
    have hl : len = 64 * i + len % 64 := by omega
    rw [popcount_mask _ _ (by omega), rankSpec_of_ge ws (by omega : len ≤ 64 * (i + 1)),
      rankSpec_of_le ws (Nat.le_refl len), rankSpec_of_le ws (by omega : 64 * i ≤ len)]
    have := pc_word ws i (len % 64) (by omega)
    rw [← hl] at this
    exact this
  · rw [if_neg hc]
    have hfull : 64 * (i + 1) ≤ len := by
      simp only [Bool.and_eq_true, bne_iff_ne, ne_eq, beq_iff_eq, not_and] at hc
      rw [divCeil_eq] at hc hi
      by_cases hr : len % 64 = 0
      · omega
      · have := hc hr
        have hpos : len % 64 > 0 := by omega
        rw [if_pos hpos] at this hi
        omega
    exact rankSpec_full_word ws hfull

end Sux.RS
