import SuxModel.RankSel.Select9.LemmasSubCounters
/-!
# (B), second phase of `Select9::new`, span classes `128..=255`, `256..=511`, `≥ 512`:
the explicit position scan (`word &= word - 1` loop) into `u16` / `u32` / `u64` lanes
-/
namespace Sux.RS.Select9
open Sux Sux.RS Sux.RS.Priv Sux.RS.Small

/-! ## lanes of the three scan states (`0` = `u64`, `1` = `u32`, `2` = `u16`) -/

def laneGet (state : Nat) (sub : Array Nat) (subStart j : Nat) : Nat :=
  match state with
  | 0 => sub.getD (subStart + j) 0
  | 1 => getSub 32 sub subStart j
  | _ => getSub 16 sub subStart j

def lanePer (state : Nat) : Nat := match state with | 0 => 1 | 1 => 2 | _ => 4
def laneBits (state : Nat) : Nat := match state with | 0 => 64 | 1 => 32 | _ => 16
def laneVal (state invL e : Nat) : Nat := match state with | 0 => e | _ => e - invL

/-- the `match state { … }` of the scan (same text as in `scanWord`) -/
def writeStep (state subStart spanLen : Nat) (sub : Array Nat) (si bitIndex off : Nat) : Out (Array Nat) :=
  match state with
  | 0 =>
    if subStart + si < sub.size then
      (check (sub.getD (subStart + si) 0 == 0)) >>= fun _ =>
        .ok (sub.setIfInBounds (subStart + si) bitIndex)
    else .panic
  | 1 =>
    if si < 2 * spanLen then
      (check (getSub 32 sub subStart si == 0)) >>= fun _ =>
      (check (decide (off < 2 ^ 32))) >>= fun _ =>
        .ok (setSub 32 sub subStart si off)
    else .panic
  | _ =>
    if si < 4 * spanLen then
      (check (getSub 16 sub subStart si == 0)) >>= fun _ =>
      (check (decide (off < 2 ^ 16))) >>= fun _ =>
        .ok (setSub 16 sub subStart si off)
    else .panic

theorem scanWord_succ (state subStart spanLen startBit wordIdx fuel word : Nat) (sub : Array Nat) (si : Nat) :
    scanWord state subStart spanLen startBit wordIdx (fuel + 1) word sub si =
      if word = 0 then .ok (sub, si, false) else
      (subU (wordIdx * 64 + ctz 64 word) startBit) >>= fun off =>
      (writeStep state subStart spanLen sub si (wordIdx * 64 + ctz 64 word) off) >>= fun sub' =>
      if si + 1 = 512 then .ok (sub', si + 1, true)
      else scanWord state subStart spanLen startBit wordIdx fuel (word &&& (word - 1)) sub' (si + 1) := by
  rw [scanWord]
  rfl

theorem writeStep_spec (state subStart spanLen invL : Nat) (sub : Array Nat) (si bitIndex : Nat)
    (hst : state ≤ 2) (hsi : si < lanePer state * spanLen) (hsz : subStart + spanLen ≤ sub.size)
    (hz : laneGet state sub subStart si = 0) (hw : ∀ j, sub.getD j 0 < 2 ^ 64)
    (hv : laneVal state invL bitIndex < 2 ^ laneBits state) :
    ∃ sub', writeStep state subStart spanLen sub si bitIndex (bitIndex - invL) = .ok sub' ∧
      sub'.size = sub.size ∧ (∀ j, sub'.getD j 0 < 2 ^ 64) ∧
      laneGet state sub' subStart si = laneVal state invL bitIndex ∧
      (∀ j, j ≠ si → laneGet state sub' subStart j = laneGet state sub subStart j) ∧
      (∀ j, (j < subStart ∨ subStart + spanLen ≤ j) → sub'.getD j 0 = sub.getD j 0) := by
  match state, hst with
  | 0, _ =>
    simp only [lanePer, laneGet, laneVal, laneBits] at hsi hz hv ⊢
    unfold writeStep
    simp only []
    rw [if_pos (by omega), check_ok (by rw [hz]; rfl), Out.bind_ok]
    refine ⟨_, rfl, Array.size_setIfInBounds, ?_, ?_, ?_, ?_⟩
    · intro j
      rw [getD_setIfInBounds]
      split
      · exact hv
      · exact hw j
    · rw [getD_setIfInBounds, if_pos ⟨rfl, by omega⟩]
    · intro j hj
      rw [getD_setIfInBounds, if_neg (by omega)]
    · intro j hj
      rw [getD_setIfInBounds, if_neg (by omega)]
  | 1, _ =>
    simp only [lanePer, laneGet, laneVal, laneBits] at hsi hz hv ⊢
    unfold writeStep
    simp only []
    rw [if_pos (by omega), check_ok (by rw [hz]; rfl), Out.bind_ok, check_ok (by simpa using hv), Out.bind_ok]
    refine ⟨_, rfl, size_setSub _ _ _ _ _, setSub_words laneW32 _ _ _ _ hw, ?_, ?_, ?_⟩
    · rw [getSub_setSub_same laneW32 _ _ _ _ hw (by omega), Nat.mod_eq_of_lt hv]
    · intro j hj
      exact getSub_setSub_ne laneW32 _ _ _ _ _ hw hj
    · intro j hj
      exact getD_setSub_of_ne _ _ _ _ _ _ (by omega)
  | 2, _ =>
    simp only [lanePer, laneGet, laneVal, laneBits] at hsi hz hv ⊢
    unfold writeStep
    simp only []
    rw [if_pos (by omega), check_ok (by rw [hz]; rfl), Out.bind_ok, check_ok (by simpa using hv), Out.bind_ok]
    refine ⟨_, rfl, size_setSub _ _ _ _ _, setSub_words laneW16 _ _ _ _ hw, ?_, ?_, ?_⟩
    · rw [getSub_setSub_same laneW16 _ _ _ _ hw (by omega), Nat.mod_eq_of_lt hv]
    · intro j hj
      exact getSub_setSub_ne laneW16 _ _ _ _ _ hw hj
    · intro j hj
      exact getD_setSub_of_ne _ _ _ _ _ _ (by omega)

/-! ## counting -/

theorem cnt_eq_of_no_bits (f : Nat → Bool) {p q : Nat} (hpq : p ≤ q)
    (h : ∀ k, p ≤ k → k < q → f k = false) : cnt f q = cnt f p := by
  have := cnt_add f p (q - p)
  rw [show p + (q - p) = q by omega] at this
  rw [this, cnt_false (fun k hk => h (p + k) (by omega) (by omega))]
  omega

theorem polBit_false_word (ws : Array Nat) (i j : Nat) (hj : j < 64) :
    polBit false ws (64 * i + j) = (ws.getD i 0).testBit j :=
  polBit_word false ws i j hj

/-! ## the scan invariant -/

/-- static facts of one scan -/
structure ScanCtx (ws : Array Nat) (state subStart spanLen invL base endWord : Nat) (sub0 : Array Nat) : Prop where
  hWO : WordsOK 64 ws
  hst : state ≤ 2
  hcap : 512 ≤ lanePer state * spanLen
  hsz : subStart + spanLen ≤ sub0.size
  hval : ∀ j e, j < 512 → IsSelAt (polBit false ws) (base + j) e → e < 64 * endWord →
    laneVal state invL e < 2 ^ laneBits state

/-- lanes `0..si` hold the positions of the ones of rank `base..base + si`, the rest of the
subinventory is as before -/
structure ScanDone (ws : Array Nat) (state subStart spanLen invL base : Nat) (sub0 : Array Nat)
    (si : Nat) (sub : Array Nat) : Prop where
  size : sub.size = sub0.size
  words : ∀ j, sub.getD j 0 < 2 ^ 64
  done : ∀ j e, j < si → IsSelAt (polBit false ws) (base + j) e →
    laneGet state sub subStart j = laneVal state invL e
  zero : ∀ j, si ≤ j → laneGet state sub subStart j = 0
  frame : ∀ j, (j < subStart ∨ subStart + spanLen ≤ j) → sub.getD j 0 = sub0.getD j 0

/-- state of the scan inside word `wordIdx`: `word` is that backend word with the bits below `lo`
cleared, `si` ones (those in `[invL, 64 wordIdx + lo)`) have been written -/
structure ScanSt (ws : Array Nat) (state subStart spanLen invL base : Nat) (sub0 : Array Nat)
    (wordIdx lo si word : Nat) (sub : Array Nat) : Prop where
  wordBits : ∀ b, word.testBit b = (decide (lo ≤ b) && (ws.getD wordIdx 0).testBit b)
  pos : invL ≤ 64 * wordIdx + lo
  lo64 : lo ≤ 64
  si_eq : base + si = cnt (polBit false ws) (64 * wordIdx + lo)
  si_lt : si < 512
  dn : ScanDone ws state subStart spanLen invL base sub0 si sub

theorem ScanSt.exhaust {ws : Array Nat} {state subStart spanLen invL base : Nat} {sub0 : Array Nat}
    {wordIdx lo si word : Nat} {sub : Array Nat}
    (h : ScanSt ws state subStart spanLen invL base sub0 wordIdx lo si word sub)
    (hWO : WordsOK 64 ws) (h0 : word = 0) :
    ScanSt ws state subStart spanLen invL base sub0 wordIdx 64 si 0 sub := by
  have hwlt := getD_lt_of_WordsOK hWO wordIdx
  have hnb : ∀ k, 64 * wordIdx + lo ≤ k → k < 64 * wordIdx + 64 → polBit false ws k = false := by
    intro k h1 h2
    have hk : k = 64 * wordIdx + (k - 64 * wordIdx) := by omega
    rw [hk, polBit_false_word ws wordIdx _ (by omega)]
    have := h.wordBits (k - 64 * wordIdx)
    rw [h0, Nat.zero_testBit] at this
    have hd : decide (lo ≤ k - 64 * wordIdx) = true := by simp; omega
    rw [hd, Bool.true_and] at this
    exact this.symm
  refine ⟨?_, by have := h.pos; have := h.lo64; omega, Nat.le_refl _, ?_, h.si_lt, h.dn⟩
  · intro b
    rw [Nat.zero_testBit]
    by_cases hb : 64 ≤ b
    · rw [testBit_ge_of_lt hwlt hb]; simp
    · simp [hb]
  · rw [h.si_eq]
    exact (cnt_eq_of_no_bits _ (by have := h.lo64; omega) hnb).symm

theorem scanWord_spec (ws : Array Nat) (state subStart spanLen invL base endWord : Nat) (sub0 : Array Nat)
    (hc : ScanCtx ws state subStart spanLen invL base endWord sub0) (wordIdx : Nat) (hwi : wordIdx < endWord) :
    ∀ (fuel word : Nat) (sub : Array Nat) (si lo : Nat),
      ScanSt ws state subStart spanLen invL base sub0 wordIdx lo si word sub → 64 ≤ fuel + lo →
      ∃ sub' si' brk, scanWord state subStart spanLen invL wordIdx fuel word sub si = .ok (sub', si', brk) ∧
        (brk = true → ScanDone ws state subStart spanLen invL base sub0 512 sub') ∧
        (brk = false → ScanSt ws state subStart spanLen invL base sub0 wordIdx 64 si' 0 sub')
  | 0, word, sub, si, lo, hs, hf => by
    have hlo : lo = 64 := by have := hs.lo64; omega
    have hwlt := getD_lt_of_WordsOK hc.hWO wordIdx
    have h0 : word = 0 := by
      apply Nat.eq_of_testBit_eq
      intro b
      rw [hs.wordBits b, Nat.zero_testBit, hlo]
      by_cases hb : 64 ≤ b
      · rw [testBit_ge_of_lt hwlt hb]; simp
      · simp [hb]
    refine ⟨sub, si, false, rfl, (fun h => by cases h), fun _ => hs.exhaust hc.hWO h0⟩
  | fuel + 1, word, sub, si, lo, hs, hf => by
    rw [scanWord_succ]
    by_cases h0 : word = 0
    · rw [if_pos h0]
      exact ⟨sub, si, false, rfl, (fun h => by cases h), fun _ => hs.exhaust hc.hWO h0⟩
    · rw [if_neg h0]
      have hwlt := getD_lt_of_WordsOK hc.hWO wordIdx
      have hwordlt : word < 2 ^ 64 := by
        apply Nat.lt_pow_two_of_testBit
        intro b hb
        rw [hs.wordBits b, testBit_ge_of_lt hwlt hb]; simp
      obtain ⟨ht, htb, htl⟩ := ctz_spec 64 word (by omega) hwordlt
      generalize ctz 64 word = t at ht htb htl
      have hb1 := hs.wordBits t
      rw [htb] at hb1
      have hlot : lo ≤ t := by
        apply Nat.le_of_not_lt; intro hlt
        have : decide (lo ≤ t) = false := by simp; omega
        rw [this] at hb1; simp at hb1
      have hwt : (ws.getD wordIdx 0).testBit t = true := by
        have : decide (lo ≤ t) = true := by simp; omega
        rw [this, Bool.true_and] at hb1; exact hb1.symm
      have hft : polBit false ws (64 * wordIdx + t) = true := by
        rw [polBit_false_word ws wordIdx t ht]; exact hwt
      have hnb : ∀ k, 64 * wordIdx + lo ≤ k → k < 64 * wordIdx + t → polBit false ws k = false := by
        intro k h1 h2
        have hk : k = 64 * wordIdx + (k - 64 * wordIdx) := by omega
        rw [hk, polBit_false_word ws wordIdx _ (by omega)]
        have := hs.wordBits (k - 64 * wordIdx)
        rw [htl _ (by omega)] at this
        have hd : decide (lo ≤ k - 64 * wordIdx) = true := by simp; omega
        rw [hd, Bool.true_and] at this
        exact this.symm
      have hcnt : cnt (polBit false ws) (64 * wordIdx + t) = base + si := by
        rw [hs.si_eq]; exact cnt_eq_of_no_bits _ (by omega) hnb
      have hsel : IsSelAt (polBit false ws) (base + si) (64 * wordIdx + t) := ⟨hft, hcnt⟩
      have hbi : wordIdx * 64 + t = 64 * wordIdx + t := by omega
      rw [hbi, subU_ok (by have := hs.pos; omega), Out.bind_ok]
      obtain ⟨sub', w1, w2, w3, w4, w5, w6⟩ := writeStep_spec state subStart spanLen invL sub si
        (64 * wordIdx + t) hc.hst (by have := hc.hcap; have := hs.si_lt; omega)
        (by rw [hs.dn.size]; exact hc.hsz) (hs.dn.zero si (Nat.le_refl _)) hs.dn.words
        (hc.hval si _ hs.si_lt hsel (by omega))
      rw [w1, Out.bind_ok]
      have hdn' : ScanDone ws state subStart spanLen invL base sub0 (si + 1) sub' := by
        refine ⟨by rw [w2, hs.dn.size], w3, ?_, ?_, ?_⟩
        · intro j e hj he
          by_cases hjs : j = si
          · subst hjs
            rw [← he.unique hsel] at w4
            exact w4
          · rw [w5 j hjs]
            exact hs.dn.done j e (by omega) he
        · intro j hj
          rw [w5 j (by omega)]
          exact hs.dn.zero j (by omega)
        · intro j hj
          rw [w6 j hj]
          exact hs.dn.frame j hj
      by_cases h512 : si + 1 = 512
      · rw [if_pos h512]
        refine ⟨sub', si + 1, true, rfl, (fun _ => by rw [← h512]; exact hdn'), (fun h => by cases h)⟩
      · rw [if_neg h512]
        apply scanWord_spec ws state subStart spanLen invL base endWord sub0 hc wordIdx hwi fuel
          (word &&& (word - 1)) sub' (si + 1) (t + 1)
        · have hpos := hs.pos
          refine ⟨?_, by omega, by omega, ?_, by have := hs.si_lt; omega, hdn'⟩
          · intro b
            rw [testBit_and_pred t word htb htl b, hs.wordBits b]
            by_cases hbt : b = t
            · have e1 : decide (b ≠ t) = false := by simp [hbt]
              have e2 : decide (t + 1 ≤ b) = false := by simp; omega
              rw [e1, e2]; simp
            · by_cases hlt : b < t
              · have h1 := htl b hlt
                rw [hs.wordBits b] at h1
                rw [h1]
                have : decide (t + 1 ≤ b) = false := by simp; omega
                simp [this]
              · have e1 : decide (lo ≤ b) = true := by simp; omega
                have e2 : decide (t + 1 ≤ b) = true := by simp; omega
                simp [e1, e2, hbt]
          · rw [show 64 * wordIdx + (t + 1) = (64 * wordIdx + t) + 1 by omega, cnt_succ_true hft, hcnt]
            omega
        · omega

theorem scanLoop_spec (ws : Array Nat) (state subStart spanLen invL base endWord : Nat) (sub0 : Array Nat)
    (hc : ScanCtx ws state subStart spanLen invL base endWord sub0) (hew : endWord ≤ ws.size) :
    ∀ (fuel wordIdx word : Nat) (sub : Array Nat) (si lo : Nat),
      ScanSt ws state subStart spanLen invL base sub0 wordIdx lo si word sub →
      wordIdx < endWord → endWord ≤ wordIdx + fuel →
      ∃ sub' si', scanLoop ws state subStart spanLen invL endWord fuel wordIdx word sub si = .ok sub' ∧
        ScanDone ws state subStart spanLen invL base sub0 si' sub' ∧
        (si' = 512 ∨ base + si' = cnt (polBit false ws) (64 * endWord))
  | 0, wordIdx, word, sub, si, lo, _, h1, h2 => by omega
  | fuel + 1, wordIdx, word, sub, si, lo, hs, h1, h2 => by
    obtain ⟨sub', si', brk, e, hb1, hb2⟩ := scanWord_spec ws state subStart spanLen invL base endWord sub0 hc
      wordIdx h1 64 word sub si lo hs (by omega)
    rw [scanLoop, e, Out.bind_ok]
    cases brk with
    | true =>
      simp only [if_true]
      exact ⟨sub', 512, rfl, hb1 rfl, Or.inl rfl⟩
    | false =>
      have hs' := hb2 rfl
      simp only [Bool.false_eq_true, if_false]
      by_cases hend : wordIdx + 1 = endWord
      · rw [if_pos hend]
        refine ⟨sub', si', rfl, hs'.dn, Or.inr ?_⟩
        rw [hs'.si_eq, ← hend]
        congr 1
      · rw [if_neg hend, readS_eq (by omega), Out.bind_ok]
        apply scanLoop_spec ws state subStart spanLen invL base endWord sub0 hc hew fuel (wordIdx + 1)
          (ws.getD (wordIdx + 1) 0) sub' si' 0 ?_ (by omega) (by omega)
        refine ⟨?_, by have := hs'.pos; omega, by omega, ?_, hs'.si_lt, hs'.dn⟩
        · intro b; simp
        · rw [hs'.si_eq]; congr 1

/-- the whole scan of one inventory entry -/
theorem scan_core (ws : Array Nat) (len i L Rt state : Nat) (sub : Array Nat)
    (hpre : StepPre len L Rt sub) (hWO : WordsOK 64 ws) (hlen : len ≤ 64 * ws.size)
    (hLlen : L < len) (hLR : L < Rt)
    (hbase : cnt (polBit false ws) L = i * 512)
    (hR : ∀ j e, j < 512 → IsSelAt (polBit false ws) (i * 512 + j) e →
      e < 64 * min ((Rt + 63) / 64) ((len + 63) / 64) → e < Rt)
    (hR' : ∀ j e, j < 512 → IsSel (polBit false ws) len (i * 512 + j) e → e < Rt)
    (hcls : (state = 2 ∧ 128 ≤ Rt / 256 - L / 256 ∧ Rt / 256 - L / 256 ≤ 255) ∨
      (state = 1 ∧ 256 ≤ Rt / 256 - L / 256 ∧ Rt / 256 - L / 256 ≤ 511) ∨
      (state = 0 ∧ 512 ≤ Rt / 256 - L / 256)) :
    ∃ sub', scanLoop ws state (L / 256) (Rt / 256 - L / 256) L (min ((Rt + 63) / 64) ((len + 63) / 64))
        (ws.size + 1) (L / 64) (shlW 64 (ws.getD (L / 64) 0 >>> (L % 64)) (L % 64)) sub 0 = .ok sub' ∧
      sub'.size = sub.size ∧ (∀ j, sub'.getD j 0 < 2 ^ 64) ∧
      (∀ j, (j < L / 256 ∨ Rt / 256 ≤ j) → sub'.getD j 0 = sub.getD j 0) ∧
      (∀ j e, j < 512 → IsSel (polBit false ws) len (i * 512 + j) e →
        laneGet state sub' (L / 256) j = laneVal state L e) := by
  obtain ⟨_, hRs, hsz, hw, hzero, hl64⟩ := hpre
  unfold sentinelOf at hRs
  have hwlt := getD_lt_of_WordsOK hWO (L / 64)
  have hctx : ScanCtx ws state (L / 256) (Rt / 256 - L / 256) L (i * 512)
      (min ((Rt + 63) / 64) ((len + 63) / 64)) sub := by
    refine ⟨hWO, by omega, ?_, by omega, ?_⟩
    · rcases hcls with ⟨h, _, _⟩ | ⟨h, _, _⟩ | ⟨h, _⟩ <;> subst h <;> simp only [lanePer] <;> omega
    · intro j e hj he hlt
      have := hR j e hj he hlt
      rcases hcls with ⟨h, _, _⟩ | ⟨h, _, _⟩ | ⟨h, _⟩ <;> subst h <;> simp only [laneVal, laneBits] <;> omega
  have hst0 : ScanSt ws state (L / 256) (Rt / 256 - L / 256) L (i * 512) sub (L / 64) (L % 64) 0
      (shlW 64 (ws.getD (L / 64) 0 >>> (L % 64)) (L % 64)) sub := by
    refine ⟨?_, by omega, by omega, ?_, by omega, ⟨rfl, hw, ?_, ?_, fun _ _ => rfl⟩⟩
    · intro b
      rw [testBit_shlW, Nat.testBit_shiftRight]
      by_cases hb : b < 64
      · by_cases hlo : L % 64 ≤ b
        · have : L % 64 + (b - L % 64) = b := by omega
          simp [hb, hlo, this]
        · simp [hb, hlo]
      · have hf : (ws.getD (L / 64) 0).testBit b = false := testBit_ge_of_lt hwlt (by omega)
        rw [hf]; simp [hb]
    · have hL : 64 * (L / 64) + L % 64 = L := by omega
      rw [hL, hbase, Nat.add_zero]
    · intro j e hj; omega
    · intro j _
      rcases hcls with ⟨h, _, _⟩ | ⟨h, _, _⟩ | ⟨h, _⟩ <;> subst h <;> simp only [laneGet]
      · exact getSub_zero _ _ _ _ (hzero _ (by omega))
      · exact getSub_zero _ _ _ _ (hzero _ (by omega))
      · exact hzero _ (by omega)
  obtain ⟨sub', si', e, hdn, hfin⟩ := scanLoop_spec ws state (L / 256) (Rt / 256 - L / 256) L (i * 512)
    (min ((Rt + 63) / 64) ((len + 63) / 64)) sub hctx (by omega) (ws.size + 1) (L / 64) _ sub 0 (L % 64)
    hst0 (by omega) (by omega)
  refine ⟨sub', e, hdn.size, hdn.words, fun j hj => hdn.frame j (by omega), ?_⟩
  intro j e hj he
  apply hdn.done j e ?_ he.at
  rcases hfin with h | h
  · omega
  · have h1 := hR' j e hj he
    have h2 := he.1
    have := he.at.lt_cnt_of_lt (show e < 64 * min ((Rt + 63) / 64) ((len + 63) / 64) by omega)
    omega

theorem subBody_scan (ws : Array Nat) (len i L Rt : Nat) (sub : Array Nat)
    (hpre : StepPre len L Rt sub) (hWO : WordsOK 64 ws) (hlen : len ≤ 64 * ws.size)
    (hLlen : L < len) (hLR : L < Rt)
    (hbase : cnt (polBit false ws) L = i * 512)
    (hR : ∀ j e, j < 512 → IsSelAt (polBit false ws) (i * 512 + j) e →
      e < 64 * min ((Rt + 63) / 64) ((len + 63) / 64) → e < Rt)
    (hR' : ∀ j e, j < 512 → IsSel (polBit false ws) len (i * 512 + j) e → e < Rt)
    (hs1 : 128 ≤ Rt / 256 - L / 256) :
    ∃ sub', subBody ws (viewOf ws len) ((len + 63) / 64) sub L Rt = .ok sub' ∧
      StepPost ws len i L Rt sub sub' := by
  have hpre' := hpre
  obtain ⟨_, hRs, hsz, hw, hzero, hl64⟩ := hpre'
  unfold sentinelOf at hRs
  have e1 : L / 64 / 4 = L / 256 := by omega
  have e2 : Rt / 64 / 4 = Rt / 256 := by omega
  have e3 : L / 64 / 8 = L / 512 := by omega
  have e4 : Rt / 64 / 8 = Rt / 512 := by omega
  unfold subBody
  simp only [e1, e2, e3, e4]
  rw [subU_ok (by omega), Out.bind_ok, subU_ok (by omega), Out.bind_ok,
    abs_readS9 ws len _ (by omega), Out.bind_ok, check_ok (by simp; omega), Out.bind_ok,
    if_neg (by omega), if_neg (by omega), if_neg (by omega), readS_eq (by omega), Out.bind_ok]
  by_cases h255 : Rt / 256 - L / 256 ≤ 255
  · rw [if_pos h255]
    obtain ⟨sub', e, z, w, fr, dn⟩ := scan_core ws len i L Rt 2 sub hpre hWO hlen hLlen hLR hbase hR hR'
      (Or.inl ⟨rfl, hs1, h255⟩)
    refine ⟨sub', e, z, w, fr, ?_⟩
    constructor
    · intro h; omega
    · intro h; omega
    · intro h; omega
    · intro _ _ j e hj he; exact dn j e hj he
    · intro h; omega
    · intro h; omega
  · rw [if_neg h255]
    by_cases h511 : Rt / 256 - L / 256 ≤ 511
    · rw [if_pos h511]
      obtain ⟨sub', e, z, w, fr, dn⟩ := scan_core ws len i L Rt 1 sub hpre hWO hlen hLlen hLR hbase hR hR'
        (Or.inr (Or.inl ⟨rfl, by omega, h511⟩))
      refine ⟨sub', e, z, w, fr, ?_⟩
      constructor
      · intro h; omega
      · intro h; omega
      · intro h; omega
      · intro h; omega
      · intro _ _ j e hj he; exact dn j e hj he
      · intro h; omega
    · rw [if_neg h511]
      obtain ⟨sub', e, z, w, fr, dn⟩ := scan_core ws len i L Rt 0 sub hpre hWO hlen hLlen hLR hbase hR hR'
        (Or.inr (Or.inr ⟨rfl, by omega⟩))
      refine ⟨sub', e, z, w, fr, ?_⟩
      constructor
      · intro h; omega
      · intro h; omega
      · intro h; omega
      · intro h; omega
      · intro h; omega
      · intro _ j e hj he; exact dn j e hj he

end Sux.RS.Select9
