import SuxModel.RankSel.Select9.Helpers
import SuxModel.RankSel.CntLemmas
import SuxModel.RankSel.HintedLemmas
/-!
# `cumOnes` / `obOf` compute `onesBefore` (the executable counters view is the spec-level view)
-/
namespace Sux.RS.Priv
open Sux Sux.RS

/-- bits of `wordBelow` -/
theorem testBit_wordBelow (ws : Array Nat) (len i j : Nat) (hj : j < 64) :
    (wordBelow ws len i).testBit j = (decide (64 * i + j < len) && bitAt 64 ws (64 * i + j)) := by
  unfold wordBelow bitAt
  have h1 : (64 * i + j) / 64 = i := by omega
  have h2 : (64 * i + j) % 64 = j := by omega
  rw [h1, h2]
  by_cases h : 64 * (i + 1) ≤ len
  · simp only [h, if_true]
    have : 64 * i + j < len := by omega
    simp [this]
  · simp only [h, if_false]
    rw [Nat.testBit_mod_two_pow]
    congr 1
    simp only [decide_eq_decide]; omega

theorem popc_wordBelow (ws : Array Nat) (len i : Nat) :
    pc64 (wordBelow ws len i) = rankSpec ws len (64 * (i + 1)) - rankSpec ws len (64 * i) ∧
    rankSpec ws len (64 * i) ≤ rankSpec ws len (64 * (i + 1)) := by
  have hmono : rankSpec ws len (64 * i) ≤ rankSpec ws len (64 * (i + 1)) := by
    rw [rankSpec_eq_cnt, rankSpec_eq_cnt]; apply cnt_mono; omega
  refine ⟨?_, hmono⟩
  unfold pc64
  rw [popcount_eq_cnt]
  have hc : cnt (fun j => (wordBelow ws len i).testBit j) 64
      = cnt (fun j => decide (64 * i + j < len) && bitAt 64 ws (64 * i + j)) 64 :=
    cnt_congr (fun j hj => testBit_wordBelow ws len i j hj)
  rw [hc]
  -- count of the bits below `len` in `[64 i, 64 i + 64)`
  have key : ∀ d, cnt (fun j => decide (64 * i + j < len) && bitAt 64 ws (64 * i + j)) d
      = cnt (bitAt 64 ws) (min (64 * i + d) len) - cnt (bitAt 64 ws) (min (64 * i) len) := by
    intro d
    induction d with
    | zero => simp
    | succ d ih =>
      rw [cnt_succ, ih]
      have hm := cnt_mono (bitAt 64 ws) (show min (64 * i) len ≤ min (64 * i + d) len by
        apply (Nat.le_min).2; constructor
        · exact Nat.le_trans (Nat.min_le_left _ _) (by omega)
        · exact Nat.min_le_right _ _)
      by_cases hlt : 64 * i + d < len
      · rw [Nat.min_eq_left (show 64 * i + d ≤ len by omega),
          Nat.min_eq_left (show 64 * i + (d + 1) ≤ len by omega)]
        rw [Nat.min_eq_left (show 64 * i + d ≤ len by omega)] at hm
        rw [show 64 * i + (d + 1) = 64 * i + d + 1 by omega, cnt_succ]
        simp only [hlt, decide_true, Bool.true_and]
        split <;> omega
      · rw [Nat.min_eq_right (show len ≤ 64 * i + d by omega),
          Nat.min_eq_right (show len ≤ 64 * i + (d + 1) by omega)]
        simp [hlt]
  rw [key 64, rankSpec_eq_cnt, rankSpec_eq_cnt]
  congr 2

theorem cumOnes_fold (ws : Array Nat) (len : Nat) : ∀ n,
    ((List.range n).foldl (fun acc i => acc.push (acc.getD i 0 + pc64 (wordBelow ws len i))) #[0]).size = n + 1 ∧
    ∀ i, i ≤ n → ((List.range n).foldl (fun acc i => acc.push (acc.getD i 0 + pc64 (wordBelow ws len i))) #[0]).getD i 0
      = rankSpec ws len (64 * i)
  | 0 => by
    refine ⟨rfl, ?_⟩
    intro i hi
    have : i = 0 := by omega
    subst this
    show (#[0] : Array Nat).getD 0 0 = _
    rw [rankSpec_eq_cnt]; simp
  | n + 1 => by
    obtain ⟨hs, hv⟩ := cumOnes_fold ws len n
    rw [List.range_succ, List.foldl_append]
    simp only [List.foldl_cons, List.foldl_nil]
    constructor
    · rw [Array.size_push, hs]
    · intro i hi
      rw [Array.getD_eq_getD_getElem?, Array.getElem?_push]
      by_cases hin : i = n + 1
      · subst hin
        rw [hs, if_pos rfl, hv n (Nat.le_refl _)]
        obtain ⟨hp, hm⟩ := popc_wordBelow ws len n
        rw [hp]; simp only [Option.getD_some]; omega
      · rw [hs, if_neg hin, ← Array.getD_eq_getD_getElem?]
        exact hv i (by omega)

theorem obOf_cumOnes (ws : Array Nat) (len : Nat) : obOf (cumOnes ws len) = onesBefore ws len := by
  funext w
  obtain ⟨hs, hv⟩ := cumOnes_fold ws len ((len + 63) / 64)
  unfold obOf cumOnes onesBefore
  rw [hs, Nat.add_sub_cancel, hv _ (Nat.min_le_right _ _)]
  rw [rankSpec_eq_cnt, rankSpec_eq_cnt]
  congr 1
  rcases Nat.le_total w ((len + 63) / 64) with h | h
  · rw [Nat.min_eq_left h]
  · rw [Nat.min_eq_right h]
    rw [Nat.min_eq_right (by omega), Nat.min_eq_right (by omega)]

end Sux.RS.Priv
