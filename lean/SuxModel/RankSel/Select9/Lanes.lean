import SuxModel.RankSel.Select9.Broadword
import SuxModel.RankSel.Select9.Helpers
import SuxModel.Base.BitsLemmas
/-!
# Packed lanes: `packL`, lane extraction, `rank * ONES_STEP`, and the bridge from the word expressions
of the models (`notW`, checked subtraction, `popcount`) to `BW.F` / `BW.uleq_count`
-/
namespace Sux.RS.BW
open Sux Sux.RS Sux.RS.Priv

theorem packL_lt (w : Nat) : ∀ (cs : List Nat), (∀ c ∈ cs, c < 2 ^ w) → packL w cs < 2 ^ (w * cs.length)
  | [], _ => by simp [packL]
  | c :: cs, h => by
    have hc : c < 2 ^ w := h c (List.mem_cons_self)
    have ih := packL_lt w cs (fun d hd => h d (List.mem_cons_of_mem _ hd))
    show c + 2 ^ w * packL w cs < 2 ^ (w * (cs.length + 1))
    rw [Nat.mul_succ, Nat.pow_add]
    have : 2 ^ w * (packL w cs + 1) ≤ 2 ^ w * 2 ^ (w * cs.length) := Nat.mul_le_mul_left _ ih
    rw [Nat.mul_add, Nat.mul_one] at this
    rw [Nat.mul_comm (2 ^ (w * cs.length))]
    omega

theorem packL_cons_mod {w c : Nat} (cs : List Nat) (hc : c < 2 ^ w) : packL w (c :: cs) % 2 ^ w = c := by
  show (c + 2 ^ w * packL w cs) % 2 ^ w = c
  rw [Nat.add_mul_mod_self_left, Nat.mod_eq_of_lt hc]

theorem packL_cons_div {w c : Nat} (cs : List Nat) (hc : c < 2 ^ w) : packL w (c :: cs) / 2 ^ w = packL w cs := by
  show (c + 2 ^ w * packL w cs) / 2 ^ w = packL w cs
  rw [Nat.add_mul_div_left _ _ (Nat.two_pow_pos w), Nat.div_eq_of_lt hc, Nat.zero_add]

/-- lane-wise comparison of a packed word with a constant lane value -/
theorem leCount_pack (w r : Nat) (hr : r < 2 ^ w) : ∀ (cs : List Nat), (∀ c ∈ cs, c < 2 ^ w) →
    leCount w cs.length (packL w cs) (packL w (List.replicate cs.length r)) = cs.countP (fun c => decide (c ≤ r))
  | [], _ => rfl
  | c :: cs, h => by
    have hc : c < 2 ^ w := h c (List.mem_cons_self)
    have ih := leCount_pack w r hr cs (fun d hd => h d (List.mem_cons_of_mem _ hd))
    show leCount w (cs.length + 1) (packL w (c :: cs)) (packL w (r :: List.replicate cs.length r)) = _
    unfold leCount
    rw [packL_cons_mod cs hc, packL_cons_mod _ hr, packL_cons_div cs hc, packL_cons_div _ hr, ih,
      List.countP_cons]
    by_cases hcr : c ≤ r <;> simp [hcr] <;> omega

theorem mul_packL_ones (w r : Nat) : ∀ n, r * packL w (List.replicate n 1) = packL w (List.replicate n r)
  | 0 => by simp [packL]
  | n + 1 => by
    show r * (1 + 2 ^ w * packL w (List.replicate n 1)) = r + 2 ^ w * packL w (List.replicate n r)
    rw [← mul_packL_ones w r n, Nat.mul_add, Nat.mul_one, Nat.mul_left_comm]

/-- lane `j` of a packed word -/
theorem packL_lane (w : Nat) : ∀ (cs : List Nat) (j : Nat), (∀ c ∈ cs, c < 2 ^ w) →
    (packL w cs >>> (w * j)) &&& (2 ^ w - 1) = cs.getD j 0
  | [], j, _ => by simp [packL]
  | c :: cs, 0, h => by
    have hc : c < 2 ^ w := h c (List.mem_cons_self)
    rw [Nat.mul_zero, Nat.shiftRight_zero, Nat.and_two_pow_sub_one_eq_mod, packL_cons_mod cs hc]
    rfl
  | c :: cs, j + 1, h => by
    have hc : c < 2 ^ w := h c (List.mem_cons_self)
    have ih := packL_lane w cs j (fun d hd => h d (List.mem_cons_of_mem _ hd))
    rw [Nat.mul_succ, Nat.add_comm, Nat.shiftRight_add, Nat.shiftRight_eq_div_pow (packL w (c :: cs)) w,
      packL_cons_div cs hc, ih]
    rfl

/-- lane-wise subtraction -/
theorem packL_sub (w : Nat) : ∀ (ps cs : List Nat), ps.length = cs.length →
    (∀ i, i < cs.length → cs.getD i 0 ≤ ps.getD i 0) →
    packL w cs ≤ packL w ps ∧ packL w ps - packL w cs = packL w (List.zipWith (· - ·) ps cs)
  | [], [], _, _ => by simp [packL]
  | [], _ :: _, h, _ => by simp at h
  | _ :: _, [], h, _ => by simp at h
  | p :: ps, c :: cs, hl, h => by
    have h0 : c ≤ p := by simpa using h 0 (by simp)
    have ih := packL_sub w ps cs (by simpa using hl) (fun i hi => by
      have := h (i + 1) (by simp; omega)
      simpa using this)
    show c + 2 ^ w * packL w cs ≤ p + 2 ^ w * packL w ps ∧
      p + 2 ^ w * packL w ps - (c + 2 ^ w * packL w cs) = (p - c) + 2 ^ w * packL w (List.zipWith (· - ·) ps cs)
    rw [← ih.2, Nat.mul_sub]
    have := Nat.mul_le_mul_left (2 ^ w) ih.1
    omega

/-! ## bridge from the model expressions -/

theorem and_notW_eq_andn {B x : Nat} (m : Nat) (hx : x < 2 ^ B) : x &&& notW B m = andn x m := by
  apply Nat.eq_of_testBit_eq
  intro j
  unfold andn
  rw [Nat.testBit_and, testBit_notW, Nat.testBit_xor, Nat.testBit_and]
  by_cases hj : j < B
  · cases x.testBit j <;> cases m.testBit j <;> simp [hj]
  · have : x.testBit j = false := testBit_ge_of_lt hx (by omega)
    simp [this]

theorem popcount_eq_bc (B z : Nat) : popcount B z = bc z B := rfl

end Sux.RS.BW
