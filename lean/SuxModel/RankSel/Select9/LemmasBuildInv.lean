import SuxModel.RankSel.Select9.LemmasCheck
import SuxModel.RankSel.Small.LemmasBuild
/-!
# (B), first phase, for `Select9`: the inventory loop of `Select9::new`

After the loop over ALL backend words the inventory holds, for every `i` with `512 i < N`
(`N` = number of ones below `len`), the position of the one of rank `512 i`, and nothing else; the
pushed sentinel is `sentinelOf len`.  (The second phase — the subinventory — is proved in
`LemmasSub{Lanes,Counters,Scan,Frame}.lean`; the full builder theorem is `build_inv` in `LemmasSubFrame.lean`.)
-/
namespace Sux.RS.Select9
open Sux Sux.RS Sux.RS.Priv Sux.RS.BW Sux.RS.Small

/-- entry `i` of the inventory: the position of the one of rank `512 i` -/
def Entry9 (ws : Array Nat) (bound : Nat) (inv : Array Nat) (i : Nat) : Prop :=
  ∃ e, IsSelAt (polBit false ws) (i * 512) e ∧ e < bound ∧ inv.getD i 0 = e

theorem invWhile9_spec (ws : Array Nat) (g past oiw : Nat)
    (hpast : past = cnt (polBit false ws) (64 * g) ∨ oiw = 0)
    (hoiw : oiw ≤ popcount 64 (ws.getD g 0)) :
    ∀ (fuel : Nat) (inv : Array Nat) (nq : Nat), nq = inv.size * 512 → past ≤ nq →
      past + oiw ≤ nq + fuel * 512 →
      (∀ i, i < inv.size → i * 512 < past + oiw) →
      (∀ i, i < inv.size → Entry9 ws (64 * (g + 1)) inv i) →
      ∃ inv', invWhile 512 g (ws.getD g 0) past oiw fuel inv nq = .ok (inv', inv'.size * 512) ∧
        inv'.size = K 512 (past + oiw) ∧
        (∀ i, i < inv'.size → Entry9 ws (64 * (g + 1)) inv' i)
  | 0, inv, nq, hnq, hle, hf, hlim, hent => by
    unfold invWhile
    refine ⟨inv, by rw [hnq], ?_, hent⟩
    apply Nat.le_antisymm
    · apply Nat.le_of_not_lt; intro hlt
      have h1 := hlim _ hlt
      have h2 := (K_le_iff (by decide : 0 < 512) (past + oiw) (K 512 (past + oiw))).1 (Nat.le_refl _)
      omega
    · apply (K_le_iff (by decide) _ _).2; rw [← hnq]; omega
  | fuel + 1, inv, nq, hnq, hle, hf, hlim, hent => by
    unfold invWhile
    by_cases hgt : past + oiw > nq
    · rw [if_pos hgt, subU_ok hle, Out.bind_ok]
      have hr' : nq - past < popcount 64 (ws.getD g 0) := by omega
      have hsel := selectInWord_spec (ws.getD g 0) (nq - past) hr'
      unfold selInWord pc64
      rw [if_pos hr', Out.bind_ok]
      have hpc : past = cnt (polBit false ws) (64 * g) := by
        rcases hpast with h | h
        · exact h
        · omega
      have hnew : Entry9 ws (64 * (g + 1)) (inv.push (g * 64 + selectInWord (ws.getD g 0) (nq - past))) inv.size := by
        refine ⟨64 * g + selectInWord (ws.getD g 0) (nq - past), ⟨?_, ?_⟩, ?_, ?_⟩
        · rw [polBit_word false ws g _ hsel.1]; exact hsel.2.1
        · have := cnt_word false ws g _ (Nat.le_of_lt hsel.1)
          rw [this]
          have h2 : cnt (fun j => (polWord false (ws.getD g 0)).testBit j) (selectInWord (ws.getD g 0) (nq - past))
              = nq - past := hsel.2.2
          rw [h2, ← hpc, ← hnq]; omega
        · have := hsel.1; omega
        · rw [getD_push_eq]; omega
      have := invWhile9_spec ws g past oiw hpast hoiw fuel
        (inv.push (g * 64 + selectInWord (ws.getD g 0) (nq - past)))
        (nq + 512) (by rw [Array.size_push, Nat.add_mul, Nat.one_mul, hnq]) (by omega)
        (by rw [Nat.add_mul, Nat.one_mul] at hf; omega)
        (by
          intro i hi
          rw [Array.size_push] at hi
          by_cases hi' : i < inv.size
          · exact hlim i hi'
          · have : i = inv.size := by omega
            rw [this, ← hnq]; omega)
        (by
          intro i hi
          rw [Array.size_push] at hi
          by_cases hi' : i < inv.size
          · obtain ⟨e, h1, h2, h3⟩ := hent i hi'
            exact ⟨e, h1, h2, by rw [getD_push_lt _ _ hi']; exact h3⟩
          · have : i = inv.size := by omega
            rw [this]; exact hnew)
      exact this
    · rw [if_neg hgt]
      refine ⟨inv, by rw [hnq], ?_, hent⟩
      apply Nat.le_antisymm
      · apply Nat.le_of_not_lt; intro hlt
        have h1 := hlim _ hlt
        have h2 := (K_le_iff (by decide : 0 < 512) (past + oiw) (K 512 (past + oiw))).1 (Nat.le_refl _)
        omega
      · apply (K_le_iff (by decide) _ _).2; rw [← hnq]; omega

structure LoopInv9 (ws : Array Nat) (N g : Nat) (inv : Array Nat) (past nq : Nat) : Prop where
  past_eq : past = min (cnt (polBit false ws) (64 * g)) N
  nq_eq : nq = inv.size * 512
  size_eq : inv.size = K 512 past
  ent : ∀ i, i < inv.size → Entry9 ws (64 * g) inv i

theorem invLoop9_spec (ws : Array Nat) (N : Nat) :
    ∀ (rest : List Nat) (g : Nat) (inv : Array Nat) (past nq : Nat),
      ws.toList.drop g = rest → g + rest.length = ws.size →
      LoopInv9 ws N g inv past nq →
      ∃ inv' past' nq', invLoop N rest g inv past nq = .ok inv' ∧ LoopInv9 ws N ws.size inv' past' nq'
  | [], g, inv, past, nq, _, hg, hI => by
    have : g = ws.size := by simpa using hg
    subst this
    exact ⟨inv, past, nq, rfl, hI⟩
  | w :: rest, g, inv, past, nq, hd, hg, hI => by
    have hw : ws.getD g 0 = w := by
      have h0 : (ws.toList.drop g)[0]? = some w := by rw [hd]; rfl
      rw [List.getElem?_drop, Nat.add_zero, Array.getElem?_toList] at h0
      rw [Array.getD_eq_getD_getElem?, h0]; rfl
    have hd' : ws.toList.drop (g + 1) = rest := by
      have := congrArg List.tail hd
      rw [List.tail_drop] at this
      exact this
    have hcw : cnt (polBit false ws) (64 * (g + 1))
        = cnt (polBit false ws) (64 * g) + popcount 64 (ws.getD g 0) := by
      rw [show 64 * (g + 1) = 64 * g + 64 by omega, cnt_word false ws g 64 (Nat.le_refl _), popcount_eq_cnt]
      rfl
    have hpe := hI.past_eq
    have hpast : past = cnt (polBit false ws) (64 * g) ∨ min (popcount 64 (ws.getD g 0)) (N - past) = 0 := by
      omega
    have hnq := hI.nq_eq
    have hse := hI.size_eq
    have hle : past ≤ nq := by
      rw [hnq, hse]
      exact (K_le_iff (by decide : 0 < 512) past (K 512 past)).1 (Nat.le_refl _)
    have hpw : popcount 64 (ws.getD g 0) ≤ 64 := by
      rw [popcount_eq_cnt]; exact cnt_le _ _
    obtain ⟨inv', h1, h2, h4⟩ := invWhile9_spec ws g past
      (min (popcount 64 (ws.getD g 0)) (N - past)) hpast (Nat.min_le_left _ _)
      65 inv nq hnq hle (by omega)
      (by
        intro i hi
        rw [hse] at hi
        have := (lt_K_iff (by decide : 0 < 512) past i).1 hi
        omega)
      (by
        intro i hi
        obtain ⟨e, e1, e2, e3⟩ := hI.ent i hi
        exact ⟨e, e1, by omega, e3⟩)
    have hI' : LoopInv9 ws N (g + 1) inv' (past + min (popcount 64 (ws.getD g 0)) (N - past)) (inv'.size * 512) :=
      ⟨by rw [hcw]; omega, rfl, h2, h4⟩
    obtain ⟨inv'', past'', nq'', r1, r2⟩ := invLoop9_spec ws N rest (g + 1) inv'
      (past + min (popcount 64 (ws.getD g 0)) (N - past)) (inv'.size * 512) hd' (by simp at hg; omega) hI'
    refine ⟨inv'', past'', nq'', ?_, r2⟩
    unfold invLoop
    rw [← hw]
    show (invWhile 512 g (ws.getD g 0) past (min (pc64 (ws.getD g 0)) (N - past)) 65 inv nq) >>= _ = _
    have h1' : invWhile 512 g (ws.getD g 0) past (min (pc64 (ws.getD g 0)) (N - past)) 65 inv nq
        = .ok (inv', inv'.size * 512) := h1
    rw [h1', Out.bind_ok]
    exact r1

/-- (B), inventory phase of `Select9::new`: the loop returns an inventory `inv0` of
`⌈N / 512⌉` entries, entry `i` is the position of the one of rank `512 i`; with the pushed sentinel the
`invSize` / `iszEq` / `entry` / `sentinel` fields of `S9InvOK` hold and the `assert!` passes -/
theorem build_inventory_partial (ws : Array Nat) (len : Nat) (hlen : len ≤ 64 * ws.size) (hl64 : len < 2 ^ 64) :
    ∃ inv0, invLoop (cnt (polBit false ws) len) ws.toList 0 #[] 0 0 = .ok inv0 ∧
      (inv0.push (andNot ((len + 63) / 64 + 3) 3 * 64)).size = (cnt (polBit false ws) len + 511) / 512 + 1 ∧
      (∀ i e, IsSel (polBit false ws) len (i * 512) e →
        (inv0.push (andNot ((len + 63) / 64 + 3) 3 * 64)).getD i 0 = e) ∧
      (inv0.push (andNot ((len + 63) / 64 + 3) 3 * 64)).getD ((cnt (polBit false ws) len + 511) / 512) 0
        = sentinelOf len := by
  have hI0 : LoopInv9 ws (cnt (polBit false ws) len) 0 #[] 0 0 := by
    refine ⟨by simp, by simp, ?_, ?_⟩
    · show 0 = K 512 0
      decide
    · intro i hi; simp at hi
  obtain ⟨inv0, past, nq, h1, h2⟩ := invLoop9_spec ws (cnt (polBit false ws) len) ws.toList 0 #[] 0 0
    (by simp) (by simp) hI0
  have hN : cnt (polBit false ws) len ≤ cnt (polBit false ws) (64 * ws.size) := cnt_mono _ hlen
  have hpast : past = cnt (polBit false ws) len := by rw [h2.past_eq]; omega
  have hsz : inv0.size = (cnt (polBit false ws) len + 511) / 512 := by rw [h2.size_eq, hpast]; rfl
  refine ⟨inv0, h1, by rw [Array.size_push, hsz], ?_, ?_⟩
  · intro i e he
    have hi : i < inv0.size := by
      rw [h2.size_eq, hpast]; exact (lt_K_iff (by decide) _ _).2 he.lt_cnt
    obtain ⟨e', e1, -, e3⟩ := h2.ent i hi
    rw [getD_push_lt _ _ hi, e3]
    exact e1.unique he.at
  · rw [← hsz, getD_push_eq, andNot_3 (by omega)]
    unfold sentinelOf; omega

end Sux.RS.Select9
