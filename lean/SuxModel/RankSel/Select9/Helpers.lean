import SuxModel.Base.Bits
import SuxModel.RankSel.Spec
import SuxModel.RankSel.Hinted
/-!
# Private helpers of the Select9 / SelectSmall / SelectZeroSmall models (task C02b)

* checked `usize` arithmetic of the dev profile (`subU`, `mulU`): the harness is built with overflow
  checks and debug assertions on, so an overflowing `-` / `*` is a `panic`.  The *value* computed
  when no overflow happens is the exact word value (which is also what the wrapping release build
  computes).  Additions and multiplications by the block-size constants are left unchecked: every
  such intermediate is bounded by `64 * ws.size + 2^32` under the invariants (and real backends have
  fewer than `2^58` words).
* `selInWord`: `common_traits::SelectInWord::select_in_word` for `usize` with its
  `debug_assert!(rank < count_ones)` made explicit (`selectHinted` / `selectZeroHinted` are taken
  from `SuxModel/RankSel/Hinted.lean`).
* spec-level view of the counters of the wrapped rank structure: `onesBefore ws len w` (= number of
  ones of the vector in words `0..w`), its fast executable twin `cumOnes`, and the counter arrays of
  `Rank9` (`absolute`, `relative`) and `RankSmall` (`upper_counts`, `absolute`, `all_rel()`)
  expressed through a function `ob : Nat → Nat` ("ones before word").  PRIVATE: the owner of
  `SuxModel/RankSel/Rank9`, `…/RankSmall` models the real builders; a lemma will identify them.
-/
namespace Sux.RS.Priv
open Sux

/-! ## checked arithmetic -/

/-- `a - b` on `usize` with overflow checks -/
@[inline] def subU (a b : Nat) : Out Nat := if b ≤ a then .ok (a - b) else .panic

/-- `a * b` on a `B`-bit unsigned type with overflow checks -/
@[inline] def mulU (B a b : Nat) : Out Nat := if a * b < 2 ^ B then .ok (a * b) else .panic

/-- `debug_assert!(c)` / `assert!(c)` -/
@[inline] def check (c : Bool) : Out Unit := if c then .ok () else .panic

@[inline] def pc64 (w : Nat) : Nat := popcount 64 w

/-- `x & !(2^k - 1)` written as in the source: `x & !m` on 64-bit words -/
@[inline] def andNot (x m : Nat) : Nat := x &&& notW 64 m

/-! ## select in word -/

/-- `usize::select_in_word` with its `debug_assert!(rank < self.count_ones())`; the in-domain value
is `Sux.RS.selectInWord` (`SuxModel/RankSel/Hinted.lean`) -/
def selInWord (w r : Nat) : Out Nat :=
  if r < pc64 w then .ok (Sux.RS.selectInWord w r) else .panic

/-! ## ones before a word -/

/-- number of ones of the vector `(ws, len)` in words `0..w` (positions `< min (64 w) len`) -/
def onesBefore (ws : Array Nat) (len w : Nat) : Nat := rankSpec ws len (64 * w)

/-- word `i` with the bits at or beyond `len` cleared -/
def wordBelow (ws : Array Nat) (len i : Nat) : Nat :=
  let w := ws.getD i 0
  if 64 * (i + 1) ≤ len then w else w % 2 ^ (len - 64 * i)

/-- `cumOnes ws len` has `len.div_ceil 64 + 1` entries; entry `i` is `onesBefore ws len i` -/
def cumOnes (ws : Array Nat) (len : Nat) : Array Nat :=
  (List.range ((len + 63) / 64)).foldl
    (fun acc i => acc.push (acc.getD i 0 + pc64 (wordBelow ws len i))) #[0]

/-- executable "ones before word `w`" read off `cumOnes` (clamped like `onesBefore`) -/
def obOf (cum : Array Nat) (w : Nat) : Nat := cum.getD (min w (cum.size - 1)) 0

/-! ## spec-level view of the Rank9 counters -/

structure R9View where
  abs : Array Nat
  rel : Array Nat

/-- lanes of width `w` packed into one number, lowest lane first -/
def packL (w : Nat) : List Nat → Nat
  | [] => 0
  | c :: cs => c + 2 ^ w * packL w cs

/-- packed relative counters of the block starting at word `w0`: 7 fields of 9 bits,
field `j` (`1 ≤ j ≤ 7`) at bit `9 * (j xor 7) = 9 * (7 - j)`, i.e. lane `i` holds field `7 - i` -/
def r9Rel (ob : Nat → Nat) (w0 : Nat) : Nat :=
  packL 9 ((List.range 7).map (fun i => ob (w0 + (7 - i)) - ob w0))

/-- `Rank9::new`: one counter per 8 words plus the final one holding the total -/
def r9View (ob : Nat → Nat) (len : Nat) : R9View :=
  let nc := (len + 511) / 512
  { abs := Array.ofFn (n := nc + 1) (fun b => ob (8 * b.val)),
    rel := Array.ofFn (n := nc + 1) (fun b => if b.val < nc then r9Rel ob (8 * b.val) else 0) }

/-! ## spec-level view of the RankSmall counters -/

/-- the five `rank_small!` variants -/
structure SmallParams where
  wpb : Nat      -- words per block
  wps : Nat      -- words per subblock
  cw : Nat       -- counter width
  nsub : Nat     -- subblocks per block (4 or 8)
  bits : Nat     -- width of the type `all_rel()` returns (64 / 128)
deriving Repr

def smallParams (k : Nat) : SmallParams :=
  match k with
  | 0 => ⟨8, 1, 9, 8, 64⟩
  | 1 => ⟨8, 2, 9, 4, 64⟩
  | 2 => ⟨16, 4, 10, 4, 64⟩
  | 3 => ⟨32, 8, 11, 4, 64⟩
  | _ => ⟨128, 16, 13, 8, 128⟩

structure SmallView where
  upper : Array Nat
  abs : Array Nat
  /-- `all_rel()` of every block -/
  rel : Array Nat

/-- `all_rel()` of the block starting at word `w0`: field `t` (`1 ≤ t < nsub`) at bit
`cw * (t xor (nsub - 1)) = cw * (nsub - 1 - t)`, i.e. lane `i` holds field `nsub - 1 - i` -/
def smallRel (P : SmallParams) (ob : Nat → Nat) (w0 : Nat) : Nat :=
  packL P.cw ((List.range (P.nsub - 1)).map (fun i => ob (w0 + (P.nsub - 1 - i) * P.wps) - ob w0))

/-- `RankSmall::new` -/
def smallView (P : SmallParams) (ob : Nat → Nat) (len : Nat) : SmallView :=
  let nu := (len + (2 ^ 32 - 1)) / 2 ^ 32
  let nc := (len + (64 * P.wpb - 1)) / (64 * P.wpb)
  { upper := Array.ofFn (n := nu) (fun s => ob (s.val * 2 ^ 26)),
    abs := Array.ofFn (n := nc)
      (fun b => (ob (b.val * P.wpb) - ob ((b.val * P.wpb) / 2 ^ 26 * 2 ^ 26)) % 2 ^ 32),
    rel := Array.ofFn (n := nc) (fun b => smallRel P ob (b.val * P.wpb)) }

/-! ## little-endian sub-word views of a `[u64]` slice (`align_to::<u16>` / `::<u32>`) -/

/-- `n`-bit element `i` (`n` = 16 / 32) of the slice starting at word `base` -/
@[inline] def getSub (n : Nat) (a : Array Nat) (base i : Nat) : Nat :=
  let per := 64 / n
  (a.getD (base + i / per) 0 >>> (n * (i % per))) % 2 ^ n

/-- assignment of the `n`-bit element `i` of the slice starting at word `base` -/
@[inline] def setSub (n : Nat) (a : Array Nat) (base i v : Nat) : Array Nat :=
  let per := 64 / n
  let wi := base + i / per
  let sh := n * (i % per)
  let w := a.getD wi 0
  a.setIfInBounds wi ((w &&& notW 64 ((2 ^ n - 1) <<< sh)) ||| ((v % 2 ^ n) <<< sh))

end Sux.RS.Priv
