import SuxModel.RankSel.Select9.LemmasFinish
/-!
# `Select9`: clearing low bits, the four 16-bit lanes of a word, and the `ULEQ_STEP_16` counting step
-/
namespace Sux.RS.Select9
open Sux Sux.RS Sux.RS.Priv Sux.RS.BW Sux.RS.Small

/-- `x & !7` on 64-bit words clears the three low bits -/
theorem andNot_7 {x : Nat} (hx : x < 2 ^ 64) : andNot x 7 = x / 8 * 8 := by
  unfold andNot
  rw [and_notW_eq_andn 7 hx]
  unfold andn
  have h7 : x &&& 7 = x % 8 := Nat.and_two_pow_sub_one_eq_mod x 3
  rw [h7]
  have hx' : x = 2 ^ 3 * (x / 8) + x % 8 := by omega
  have hm : x % 8 = 2 ^ 3 * 0 + x % 8 := by omega
  have hlt : x % 8 < 2 ^ 3 := by omega
  have := xor_decomp (i := 3) (x / 8) 0 hlt hlt
  rw [← hx', ← hm] at this
  rw [this, Nat.xor_zero, Nat.xor_self]; omega

theorem andNot_3 {x : Nat} (hx : x < 2 ^ 64) : andNot x 3 = x / 4 * 4 := by
  unfold andNot
  rw [and_notW_eq_andn 3 hx]
  unfold andn
  have h3 : x &&& 3 = x % 4 := Nat.and_two_pow_sub_one_eq_mod x 2
  rw [h3]
  have hx' : x = 2 ^ 2 * (x / 4) + x % 4 := by omega
  have hm : x % 4 = 2 ^ 2 * 0 + x % 4 := by omega
  have hlt : x % 4 < 2 ^ 2 := by omega
  have := xor_decomp (i := 2) (x / 4) 0 hlt hlt
  rw [← hx', ← hm] at this
  rw [this, Nat.xor_zero, Nat.xor_self]; omega

theorem ones16_eq : ONES_STEP_16 = packL 16 (List.replicate 4 1) := by decide
theorem msbs16_eq : MSBS_STEP_16 = hmask 16 4 := by decide

/-- lane `k` of a word -/
def lane16 (x k : Nat) : Nat := (x >>> (16 * k)) % 2 ^ 16

theorem word_lanes16 {x : Nat} (hx : x < 2 ^ 64) :
    x = packL 16 [lane16 x 0, lane16 x 1, lane16 x 2, lane16 x 3] := by
  unfold lane16 packL packL packL packL packL
  simp only [Nat.shiftRight_eq_div_pow]
  omega

theorem getSub16_lane (a : Array Nat) (base k : Nat) :
    getSub 16 a base k = lane16 (a.getD (base + k / 4) 0) (k % 4) := rfl

/-- one `ULEQ_STEP_16` with popcount: the number of lanes `≤ ris` -/
theorem uleq16_count {x ris : Nat} (hx : x < 2 ^ 64) (hris : ris < 2 ^ 16) :
    ∃ u, uleqStep MSBS_STEP_16 x (ris * ONES_STEP_16) = .ok u ∧
      pc64 u = [lane16 x 0, lane16 x 1, lane16 x 2, lane16 x 3].countP (fun c => decide (c ≤ ris)) := by
  have hl : ∀ c ∈ [lane16 x 0, lane16 x 1, lane16 x 2, lane16 x 3], c < 2 ^ 16 := by
    intro c hc
    simp only [List.mem_cons, List.mem_nil_iff, or_false] at hc
    rcases hc with rfl | rfl | rfl | rfl <;> exact Nat.mod_lt _ (by decide)
  have hy : ris * ONES_STEP_16 = packL 16 (List.replicate 4 ris) := by rw [ones16_eq, mul_packL_ones]
  have hylt : packL 16 (List.replicate 4 ris) < 2 ^ (16 * 4) := by
    have := packL_lt 16 (List.replicate 4 ris) (by
      intro c hc; rw [List.mem_replicate] at hc; rw [hc.2]; exact hris)
    simpa using this
  have hx' : x < 2 ^ (16 * 4) := hx
  obtain ⟨hle, hc⟩ := uleq_count 16 4 64 (by decide) (by decide) x _ hx' hylt
  refine ⟨F (hmask 16 4) x (packL 16 (List.replicate 4 ris)), ?_, ?_⟩
  · unfold uleqStep
    rw [hy, msbs16_eq, and_notW_eq_andn _ hx, and_notW_eq_andn _ hx, subU_ok hle, Out.bind_ok]
    rfl
  · show popcount 64 _ = _
    rw [popcount_eq_bc, hc]
    have h := leCount_pack 16 ris hris [lane16 x 0, lane16 x 1, lane16 x 2, lane16 x 3] hl
    rw [← word_lanes16 hx] at h
    exact h

/-- eight consecutive 16-bit lanes, counters `≤ ris` exactly for the first `d` -/
theorem where16_correct (a : Array Nat) (base ris d : Nat) (hw : ∀ j, a.getD j 0 < 2 ^ 64)
    (hris : ris < 2 ^ 16) (hd : d ≤ 8)
    (hv : ∀ k, k < 8 → (getSub 16 a base k ≤ ris ↔ k < d)) :
    where16 (a.getD base 0) (a.getD (base + 1) 0) (ris * ONES_STEP_16) = .ok (d * 2) := by
  obtain ⟨u1, h1, c1⟩ := uleq16_count (hw base) hris
  obtain ⟨u2, h2, c2⟩ := uleq16_count (hw (base + 1)) hris
  unfold where16
  rw [h1, Out.bind_ok, h2, Out.bind_ok, c1, c2]
  have e0 := hv 0 (by omega); have e1 := hv 1 (by omega); have e2 := hv 2 (by omega)
  have e3 := hv 3 (by omega); have e4 := hv 4 (by omega); have e5 := hv 5 (by omega)
  have e6 := hv 6 (by omega); have e7 := hv 7 (by omega)
  rw [getSub16_lane] at e0 e1 e2 e3 e4 e5 e6 e7
  simp only [Nat.reduceDiv, Nat.reduceMod, Nat.add_zero] at e0 e1 e2 e3 e4 e5 e6 e7
  simp only [List.countP_cons, List.countP_nil, decide_eq_true_eq, e0, e1, e2, e3, e4, e5, e6, e7]
  congr 1
  have : d = 0 ∨ d = 1 ∨ d = 2 ∨ d = 3 ∨ d = 4 ∨ d = 5 ∨ d = 6 ∨ d = 7 ∨ d = 8 := by omega
  rcases this with h | h | h | h | h | h | h | h | h <;> subst h <;> decide

end Sux.RS.Select9
