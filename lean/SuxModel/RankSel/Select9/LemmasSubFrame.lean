import SuxModel.RankSel.Select9.LemmasSubScan
/-!
# (B) for `Select9::new`: the subinventory loop (frame: the entries write pairwise disjoint word
ranges `[inventory[i] / 256, inventory[i + 1] / 256)`) and the assembled builder theorem
-/
namespace Sux.RS.Select9
open Sux Sux.RS Sux.RS.Priv Sux.RS.Small

/-- what the first phase establishes about the inventory (with the sentinel pushed) -/
structure InvFacts (ws : Array Nat) (len : Nat) (inv : Array Nat) : Prop where
  size : inv.size = (cnt (polBit false ws) len + 511) / 512 + 1
  entry : ∀ i e, IsSel (polBit false ws) len (i * 512) e → inv.getD i 0 = e
  sentinel : inv.getD ((cnt (polBit false ws) len + 511) / 512) 0 = sentinelOf len

theorem len_le_sentinel (len : Nat) : len ≤ sentinelOf len := by unfold sentinelOf; omega

theorem InvFacts.left {ws : Array Nat} {len : Nat} {inv : Array Nat} (h : InvFacts ws len inv) {i : Nat}
    (hi : i < (cnt (polBit false ws) len + 511) / 512) :
    IsSel (polBit false ws) len (i * 512) (inv.getD i 0) := by
  obtain ⟨e, he⟩ := IsSel.exists (f := polBit false ws) (n := len) (r := i * 512) (by omega)
  rw [h.entry i e he]; exact he

theorem InvFacts.right {ws : Array Nat} {len : Nat} {inv : Array Nat} (h : InvFacts ws len inv) {i : Nat}
    (hi : i < (cnt (polBit false ws) len + 511) / 512) :
    IsSel (polBit false ws) len ((i + 1) * 512) (inv.getD (i + 1) 0) ∨
    (cnt (polBit false ws) len ≤ (i + 1) * 512 ∧ inv.getD (i + 1) 0 = sentinelOf len) := by
  by_cases hn : (i + 1) * 512 < cnt (polBit false ws) len
  · left
    obtain ⟨e, he⟩ := IsSel.exists hn
    rw [h.entry (i + 1) e he]; exact he
  · right
    have : i + 1 = (cnt (polBit false ws) len + 511) / 512 := by omega
    rw [this]
    exact ⟨by omega, h.sentinel⟩

/-- everything the step lemmas need about two consecutive inventory entries -/
theorem InvFacts.pair {ws : Array Nat} {len : Nat} {inv : Array Nat} (h : InvFacts ws len inv) {i : Nat}
    (hi : i < (cnt (polBit false ws) len + 511) / 512) :
    inv.getD i 0 < len ∧ inv.getD i 0 < inv.getD (i + 1) 0 ∧ inv.getD (i + 1) 0 ≤ sentinelOf len ∧
    cnt (polBit false ws) (inv.getD i 0) = i * 512 ∧
    (∀ j e, j < 512 → IsSelAt (polBit false ws) (i * 512 + j) e →
      e < 64 * min ((inv.getD (i + 1) 0 + 63) / 64) ((len + 63) / 64) → e < inv.getD (i + 1) 0) ∧
    (∀ j e, j < 512 → IsSel (polBit false ws) len (i * 512 + j) e → e < inv.getD (i + 1) 0) := by
  have hL := h.left hi
  have hZ := len_le_sentinel len
  rcases h.right hi with hR | ⟨hN, hR⟩
  · refine ⟨hL.1, hL.at.lt_of_lt hR.at (by omega), by have := hR.1; omega, hL.2.2, ?_, ?_⟩
    · intro j e hj he _
      exact he.lt_of_lt hR.at (by omega)
    · intro j e hj he
      exact he.at.lt_of_lt hR.at (by omega)
  · rw [hR]
    refine ⟨hL.1, by have := hL.1; omega, Nat.le_refl _, hL.2.2, ?_, ?_⟩
    · intro j e hj he hlt
      unfold sentinelOf at hlt ⊢
      omega
    · intro j e hj he
      have := he.1; omega

/-- the inventory is monotone -/
theorem InvFacts.mono {ws : Array Nat} {len : Nat} {inv : Array Nat} (h : InvFacts ws len inv) {i' i : Nat}
    (hi' : i' < i) (hi : i < (cnt (polBit false ws) len + 511) / 512) :
    inv.getD (i' + 1) 0 ≤ inv.getD i 0 := by
  have h1 := h.left (i := i' + 1) (by omega)
  have h2 := h.left hi
  exact h1.at.le_of_le h2.at (by omega)

/-- invariant of the subinventory loop before entry `idx` -/
structure SubInv (ws : Array Nat) (len : Nat) (inv : Array Nat) (idx : Nat) (sub : Array Nat) : Prop where
  size : sub.size = ((len + 63) / 64 + 3) / 4
  words : ∀ j, sub.getD j 0 < 2 ^ 64
  zero : ∀ j, inv.getD idx 0 / 256 ≤ j → sub.getD j 0 = 0
  done : ∀ i, i < idx → EntryOK ws len i (inv.getD i 0) (inv.getD (i + 1) 0) sub

/-- one step, any span class -/
theorem subBody_any (ws : Array Nat) (len i L Rt : Nat) (sub : Array Nat)
    (hpre : StepPre len L Rt sub) (hWO : WordsOK 64 ws) (hlen : len ≤ 64 * ws.size)
    (hLlen : L < len) (hLR : L < Rt)
    (hbase : cnt (polBit false ws) L = i * 512)
    (hR : ∀ j e, j < 512 → IsSelAt (polBit false ws) (i * 512 + j) e →
      e < 64 * min ((Rt + 63) / 64) ((len + 63) / 64) → e < Rt)
    (hR' : ∀ j e, j < 512 → IsSel (polBit false ws) len (i * 512 + j) e → e < Rt) :
    ∃ sub', subBody ws (viewOf ws len) ((len + 63) / 64) sub L Rt = .ok sub' ∧
      StepPost ws len i L Rt sub sub' := by
  by_cases h1 : Rt / 256 - L / 256 ≤ 1
  · exact subBody_small ws len i L Rt _ sub hpre h1
  · by_cases h15 : Rt / 256 - L / 256 ≤ 15
    · exact subBody_mid ws len i L Rt _ sub hpre (by omega) h15
    · by_cases h127 : Rt / 256 - L / 256 ≤ 127
      · exact subBody_mid2 ws len i L Rt _ sub hpre (by omega) h127
      · exact subBody_scan ws len i L Rt sub hpre hWO hlen hLlen hLR hbase hR hR' (by omega)

theorem subLoop_spec (ws : Array Nat) (len : Nat) (inv : Array Nat) (hl64 : len < 2 ^ 64)
    (hWO : WordsOK 64 ws) (hlen : len ≤ 64 * ws.size) (hinv : InvFacts ws len inv) :
    ∀ (n idx : Nat) (sub : Array Nat), idx + n = (cnt (polBit false ws) len + 511) / 512 →
      SubInv ws len inv idx sub →
      ∃ sub', subLoop ws (viewOf ws len) ((len + 63) / 64) inv n idx sub = .ok sub' ∧
        SubInv ws len inv ((cnt (polBit false ws) len + 511) / 512) sub'
  | 0, idx, sub, hn, hs => by
    rw [Nat.add_zero] at hn
    subst hn
    exact ⟨sub, rfl, hs⟩
  | n + 1, idx, sub, hn, hs => by
    have hi : idx < (cnt (polBit false ws) len + 511) / 512 := by omega
    obtain ⟨p1, p2, p3, p4, p5, p6⟩ := hinv.pair hi
    have hpre : StepPre len (inv.getD idx 0) (inv.getD (idx + 1) 0) sub :=
      ⟨by omega, p3, hs.size, hs.words, hs.zero, hl64⟩
    obtain ⟨sub', e, hpost⟩ := subBody_any ws len idx _ _ sub hpre hWO hlen p1 p2 p4 p5 p6
    rw [subLoop, subStep_eq ws _ _ inv sub idx (by rw [hinv.size]; omega), e, Out.bind_ok]
    apply subLoop_spec ws len inv hl64 hWO hlen hinv n (idx + 1) sub' (by omega)
    refine ⟨by rw [hpost.size, hs.size], hpost.words, ?_, ?_⟩
    · intro j hj
      rw [hpost.frame j (Or.inr hj)]
      exact hs.zero j (by omega)
    · intro i hi'
      by_cases hii : i = idx
      · subst hii; exact hpost.entry
      · have hm := hinv.mono (show i < idx by omega) hi
        apply (hs.done i (by omega)).congr
        intro j _ hj2
        exact hpost.frame j (Or.inl (by omega))

theorem polBit_false9 (ws : Array Nat) : polBit false ws = bitAt 64 ws := by
  funext k; simp [polBit]

/-- (B) for `Select9`: `Select9::new` over ANY backend `(ws, len)` with `len ≤ 64 * ws.size`
(stale bits at or beyond `len`, extra words) neither panics nor reads out of bounds — in particular
every `debug_assert!` of the builder holds — and returns arrays satisfying `S9InvOK` -/
theorem build_inv (ws : Array Nat) (len : Nat) (hWO : WordsOK 64 ws) (hlen : len ≤ 64 * ws.size)
    (hl64 : len < 2 ^ 64) :
    ∃ s, build ws len (numOnes ws len) (viewOf ws len) = .ok s ∧ S9InvOK ws len s := by
  obtain ⟨inv0, e0, f1, f2, f3⟩ := build_inventory_partial ws len hlen hl64
  have hN : numOnes ws len = cnt (polBit false ws) len := by rw [numOnes_eq_cnt, polBit_false9]
  have hinv : InvFacts ws len (inv0.push (andNot ((len + 63) / 64 + 3) 3 * 64)) := ⟨f1, f2, f3⟩
  have hs0 : SubInv ws len (inv0.push (andNot ((len + 63) / 64 + 3) 3 * 64)) 0
      (Array.replicate (((len + 63) / 64 + 3) / 4) 0) := by
    refine ⟨Array.size_replicate, ?_, ?_, ?_⟩
    · intro j; rw [getD_replicate]; split <;> omega
    · intro j _; rw [getD_replicate]; split <;> rfl
    · intro i hi; omega
  obtain ⟨sub, e1, hs⟩ := subLoop_spec ws len _ hl64 hWO hlen hinv _ 0 _ (Nat.zero_add _) hs0
  unfold build
  simp only []
  rw [hN, e0, Out.bind_ok, check_ok (by rw [f1]; simp), Out.bind_ok, e1, Out.bind_ok]
  refine ⟨_, rfl, ?_⟩
  exact {
    invSize := f1
    iszEq := rfl
    entry := f2
    sentinel := f3
    subSize := hs.size
    sszEq := rfl
    subWords := hs.words
    span15 := fun i hi h1 h2 => (hs.done i hi).span15 h1 h2
    span127a := fun i hi h1 h2 => (hs.done i hi).span127a h1 h2
    span127b := fun i hi h1 h2 => (hs.done i hi).span127b h1 h2
    span255 := fun i hi h1 h2 => (hs.done i hi).span255 h1 h2
    span511 := fun i hi h1 h2 => (hs.done i hi).span511 h1 h2
    spanBig := fun i hi h1 => (hs.done i hi).spanBig h1 }

/-- end to end: the layer `.s9` (what `modelOf` returns) answers `select` with the specification -/
theorem layer_correct (ws : Array Nat) (len : Nat) (hWO : WordsOK 64 ws) (hlen : len ≤ 64 * ws.size)
    (hl64 : len < 2 ^ 64) :
    ∃ f, (layer ws len (numOnes ws len)).select = some f ∧ ∀ r, f r = .ok (selectSpec ws len r) := by
  obtain ⟨s, hb, hinv⟩ := build_inv ws len hWO hlen hl64
  unfold layer
  simp only []
  rw [hb]
  refine ⟨_, rfl, ?_⟩
  intro r
  obtain ⟨h1, h2⟩ := select9_correct ws len hlen hl64 s hinv r
  by_cases hr : r < numOnes ws len
  · obtain ⟨p, hp, hsel⟩ := h1 hr
    rw [hp, (selectSpec_eq_some_iff ws len r p).2 hsel]
  · rw [h2 (by omega), (selectSpec_eq_none_iff ws len r).2 (by omega)]

end Sux.RS.Select9
