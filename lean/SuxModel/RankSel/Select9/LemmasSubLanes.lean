import SuxModel.RankSel.Select9.LemmasBuildInv
/-!
# `getSub` / `setSub`: reading and writing `u16` / `u32` lanes of the subinventory (builder of `Select9`)
-/
namespace Sux.RS.Select9
open Sux Sux.RS Sux.RS.Priv Sux.RS.Small

/-- one lane of `n` bits at bit offset `sh` of a 64-bit word is overwritten -/
def laneUpd (n sh w v : Nat) : Nat := (w &&& notW 64 ((2 ^ n - 1) <<< sh)) ||| ((v % 2 ^ n) <<< sh)

theorem testBit_laneUpd (n sh w v j : Nat) (hw : w < 2 ^ 64) (hsh : sh + n ≤ 64) :
    (laneUpd n sh w v).testBit j =
      if sh ≤ j ∧ j < sh + n then v.testBit (j - sh) else w.testBit j := by
  unfold laneUpd
  rw [Nat.testBit_or, Nat.testBit_and, testBit_notW, Nat.testBit_shiftLeft, Nat.testBit_shiftLeft,
    Nat.testBit_two_pow_sub_one, Nat.testBit_mod_two_pow]
  by_cases h1 : sh ≤ j
  · by_cases h2 : j < sh + n
    · have h3 : j - sh < n := by omega
      have h4 : j < 64 := by omega
      simp [h1, h2, h3, h4]
    · have h3 : ¬ (j - sh < n) := by omega
      by_cases h4 : j < 64
      · simp [h1, h2, h3, h4]
      · have : w.testBit j = false := testBit_ge_of_lt hw (by omega)
        simp [h1, h2, h3, h4, this]
  · have h2 : ¬ (sh ≤ j ∧ j < sh + n) := by omega
    have h4 : j < 64 := by omega
    simp [h1, h4]

theorem laneUpd_lt (n sh w v : Nat) (hw : w < 2 ^ 64) (hsh : sh + n ≤ 64) : laneUpd n sh w v < 2 ^ 64 := by
  apply Nat.lt_pow_two_of_testBit
  intro j hj
  rw [testBit_laneUpd n sh w v j hw hsh, if_neg (by omega)]
  exact testBit_ge_of_lt hw hj

theorem laneUpd_same (n sh w v : Nat) (hw : w < 2 ^ 64) (hsh : sh + n ≤ 64) :
    (laneUpd n sh w v >>> sh) % 2 ^ n = v % 2 ^ n := by
  apply Nat.eq_of_testBit_eq
  intro j
  rw [Nat.testBit_mod_two_pow, Nat.testBit_mod_two_pow, Nat.testBit_shiftRight,
    testBit_laneUpd n sh w v _ hw hsh]
  by_cases hj : j < n
  · rw [if_pos (by omega)]
    congr 2; omega
  · simp [hj]

theorem laneUpd_other (n sh w v sh' : Nat) (hw : w < 2 ^ 64) (hsh : sh + n ≤ 64)
    (hd : sh' + n ≤ sh ∨ sh + n ≤ sh') :
    (laneUpd n sh w v >>> sh') % 2 ^ n = (w >>> sh') % 2 ^ n := by
  apply Nat.eq_of_testBit_eq
  intro j
  rw [Nat.testBit_mod_two_pow, Nat.testBit_mod_two_pow, Nat.testBit_shiftRight, Nat.testBit_shiftRight,
    testBit_laneUpd n sh w v _ hw hsh]
  by_cases hj : j < n
  · rw [if_neg (by omega)]
  · simp [hj]

theorem setSub_eq (n : Nat) (a : Array Nat) (base i v : Nat) :
    setSub n a base i v = a.setIfInBounds (base + i / (64 / n))
      (laneUpd n (n * (i % (64 / n))) (a.getD (base + i / (64 / n)) 0) v) := rfl

theorem size_setSub (n : Nat) (a : Array Nat) (base i v : Nat) : (setSub n a base i v).size = a.size := by
  rw [setSub_eq, Array.size_setIfInBounds]

/-- `n = 16` or `n = 32` -/
def LaneW (n : Nat) : Prop := n = 16 ∨ n = 32

theorem laneW_off {n : Nat} (hn : LaneW n) (i : Nat) : n * (i % (64 / n)) + n ≤ 64 := by
  rcases hn with h | h <;> subst h <;> omega

theorem getD_setSub_of_ne (n : Nat) (a : Array Nat) (base i v j : Nat) (h : j ≠ base + i / (64 / n)) :
    (setSub n a base i v).getD j 0 = a.getD j 0 := by
  rw [setSub_eq, getD_setIfInBounds, if_neg (by omega)]

theorem setSub_words {n : Nat} (hn : LaneW n) (a : Array Nat) (base i v : Nat)
    (hw : ∀ j, a.getD j 0 < 2 ^ 64) : ∀ j, (setSub n a base i v).getD j 0 < 2 ^ 64 := by
  intro j
  rw [setSub_eq, getD_setIfInBounds]
  split
  · exact laneUpd_lt _ _ _ _ (hw _) (laneW_off hn i)
  · exact hw j

theorem getSub_setSub_same {n : Nat} (hn : LaneW n) (a : Array Nat) (base i v : Nat)
    (hw : ∀ j, a.getD j 0 < 2 ^ 64) (hin : base + i / (64 / n) < a.size) :
    getSub n (setSub n a base i v) base i = v % 2 ^ n := by
  show ((setSub n a base i v).getD (base + i / (64 / n)) 0 >>> (n * (i % (64 / n)))) % 2 ^ n = _
  rw [setSub_eq, getD_setIfInBounds, if_pos ⟨rfl, hin⟩]
  exact laneUpd_same _ _ _ _ (hw _) (laneW_off hn i)

theorem getSub_setSub_ne {n : Nat} (hn : LaneW n) (a : Array Nat) (base i v i' : Nat)
    (hw : ∀ j, a.getD j 0 < 2 ^ 64) (hne : i' ≠ i) :
    getSub n (setSub n a base i v) base i' = getSub n a base i' := by
  show ((setSub n a base i v).getD (base + i' / (64 / n)) 0 >>> (n * (i' % (64 / n)))) % 2 ^ n
    = (a.getD (base + i' / (64 / n)) 0 >>> (n * (i' % (64 / n)))) % 2 ^ n
  rw [setSub_eq, getD_setIfInBounds]
  split
  · rename_i h
    have hwd : i' / (64 / n) = i / (64 / n) := by omega
    rw [hwd]
    apply laneUpd_other _ _ _ _ _ (hw _) (laneW_off hn i)
    rcases hn with h | h <;> subst h <;> omega
  · rfl

/-- a lane read depends on one word only -/
theorem getSub_congr (n : Nat) (a b : Array Nat) (base i : Nat)
    (h : a.getD (base + i / (64 / n)) 0 = b.getD (base + i / (64 / n)) 0) :
    getSub n a base i = getSub n b base i := by
  show (a.getD (base + i / (64 / n)) 0 >>> _) % _ = (b.getD (base + i / (64 / n)) 0 >>> _) % _
  rw [h]

theorem getSub_zero (n : Nat) (a : Array Nat) (base i : Nat) (h : a.getD (base + i / (64 / n)) 0 = 0) :
    getSub n a base i = 0 := by
  show (a.getD (base + i / (64 / n)) 0 >>> _) % _ = 0
  rw [h]; simp

/-! ## the body of one subinventory step, with the two inventory reads done -/

/-- `subStep` after `inventory[idx]`, `inventory[idx + 1]` have been read (same text as the model) -/
def subBody (ws : Array Nat) (cnt : R9View) (numWords : Nat) (sub : Array Nat) (invL invR : Nat) :
    Out (Array Nat) :=
  let subStart := invL / 64 / 4
  let subEnd := invR / 64 / 4
  (subU subEnd subStart) >>= fun span =>
  let blockLeft := invL / 64 / 8
  (subU (invR / 64 / 8) blockLeft) >>= fun blockSpan =>
  (Out.readS cnt.abs blockLeft) >>= fun atStart =>
  (check (decide (subEnd ≤ sub.size))) >>= fun _ =>
  let lim := 4 * span
  let pad := andNot (blockSpan + 8) 7
  let cntAt := fun (j : Nat) => (Out.readS cnt.abs j) >>= fun a =>
    (subU a atStart) >>= fun d => Out.ok (d % 2 ^ 16)
  if span ≤ 1 then .ok sub
  else if span ≤ 15 then
    (check (decide (pad ≤ span * 4))) >>= fun _ =>
    (fill16 subStart lim false (fun k => cntAt (blockLeft + k + 1)) blockSpan 0 sub) >>= fun s1 =>
      fill16 subStart lim false (fun _ => .ok 0xFFFF) (pad - blockSpan) blockSpan s1
  else if span ≤ 127 then
    (check (decide (pad + 8 ≤ span * 4))) >>= fun _ =>
    (check (decide (blockSpan / 8 ≤ 8))) >>= fun _ =>
    (fill16 subStart lim true (fun k => cntAt (blockLeft + (k - 8) + 1)) blockSpan 8 sub) >>= fun s1 =>
    (fill16 subStart lim true (fun _ => .ok 0xFFFF) (pad - blockSpan) (blockSpan + 8) s1) >>= fun s2 =>
    (fill16 subStart lim false (fun k => cntAt (blockLeft + (k + 1) * 8)) (blockSpan / 8) 0 s2) >>= fun s3 =>
      fill16 subStart lim false (fun _ => .ok 0xFFFF) (8 - blockSpan / 8) (blockSpan / 8) s3
  else
    let state := if span ≤ 255 then 2 else if span ≤ 511 then 1 else 0
    let wordIdx := invL / 64
    let bitIdx := invL % 64
    (Out.readS ws wordIdx) >>= fun w0 =>
    let word := shlW 64 (w0 >>> bitIdx) bitIdx
    let endWord := min ((invR + 63) / 64) numWords
    scanLoop ws state subStart span invL endWord (ws.size + 1) wordIdx word sub 0

theorem subStep_eq (ws : Array Nat) (cnt : R9View) (numWords : Nat) (inv sub : Array Nat) (idx : Nat)
    (h : idx + 1 < inv.size) :
    subStep ws cnt numWords inv sub idx
      = subBody ws cnt numWords sub (inv.getD idx 0) (inv.getD (idx + 1) 0) := by
  unfold subStep
  rw [readS_eq (show idx < inv.size by omega), Out.bind_ok, readS_eq h, Out.bind_ok]
  rfl

theorem readS_of_readU {a : Array Nat} {i x : Nat} (h : Out.readU a i = .ok x) : Out.readS a i = .ok x := by
  unfold Out.readU at h
  unfold Out.readS
  cases hq : a[i]? with
  | none => rw [hq] at h; cases h
  | some w => rw [hq] at h; exact h

theorem abs_readS9 (ws : Array Nat) (len c : Nat) (hc : c ≤ (len + 511) / 512) :
    Out.readS (viewOf ws len).abs c = .ok (rankSpec ws len (512 * c)) := by
  unfold viewOf
  rw [obOf_cumOnes]
  exact readS_of_readU (abs_read9 ws len c hc)

/-- what `S9InvOK` says about the subinventory of one inventory entry `i` with `inventory[i] = L`,
`inventory[i + 1] = Rt` -/
structure EntryOK (ws : Array Nat) (len i L Rt : Nat) (sub : Array Nat) : Prop where
  span15 : 2 ≤ Rt / 256 - L / 256 → Rt / 256 - L / 256 ≤ 15 →
    ∀ k, k < 8 → getSub 16 sub (L / 256) k =
      if k < Rt / 512 - L / 512 then
        rankSpec ws len (512 * (L / 512 + k + 1)) - rankSpec ws len (512 * (L / 512))
      else 0xFFFF
  span127a : 16 ≤ Rt / 256 - L / 256 → Rt / 256 - L / 256 ≤ 127 →
    ∀ k, k < 8 → getSub 16 sub (L / 256) k =
      if k < (Rt / 512 - L / 512) / 8 then
        rankSpec ws len (512 * (L / 512 + (k + 1) * 8)) - rankSpec ws len (512 * (L / 512))
      else 0xFFFF
  span127b : 16 ≤ Rt / 256 - L / 256 → Rt / 256 - L / 256 ≤ 127 →
    ∀ k, k < ((Rt / 512 - L / 512) / 8 + 1) * 8 →
      getSub 16 sub (L / 256) (8 + k) =
      if k < Rt / 512 - L / 512 then
        rankSpec ws len (512 * (L / 512 + k + 1)) - rankSpec ws len (512 * (L / 512))
      else 0xFFFF
  span255 : 128 ≤ Rt / 256 - L / 256 → Rt / 256 - L / 256 ≤ 255 →
    ∀ j e, j < 512 → IsSel (polBit false ws) len (i * 512 + j) e → getSub 16 sub (L / 256) j = e - L
  span511 : 256 ≤ Rt / 256 - L / 256 → Rt / 256 - L / 256 ≤ 511 →
    ∀ j e, j < 512 → IsSel (polBit false ws) len (i * 512 + j) e → getSub 32 sub (L / 256) j = e - L
  spanBig : 512 ≤ Rt / 256 - L / 256 →
    ∀ j e, j < 512 → IsSel (polBit false ws) len (i * 512 + j) e → sub.getD (bigIdx (L / 256) j) 0 = e

/-- `EntryOK` reads only the words `[L / 256, Rt / 256)` of the subinventory -/
theorem EntryOK.congr {ws : Array Nat} {len i L Rt : Nat} {sub sub' : Array Nat}
    (h : EntryOK ws len i L Rt sub)
    (hfr : ∀ j, L / 256 ≤ j → j < Rt / 256 → sub'.getD j 0 = sub.getD j 0) :
    EntryOK ws len i L Rt sub' := by
  constructor
  · intro h1 h2 k hk
    rw [← h.span15 h1 h2 k hk]
    exact getSub_congr _ _ _ _ _ (hfr _ (by omega) (by omega))
  · intro h1 h2 k hk
    rw [← h.span127a h1 h2 k hk]
    exact getSub_congr _ _ _ _ _ (hfr _ (by omega) (by omega))
  · intro h1 h2 k hk
    rw [← h.span127b h1 h2 k hk]
    exact getSub_congr _ _ _ _ _ (hfr _ (by omega) (by omega))
  · intro h1 h2 j e hj he
    rw [← h.span255 h1 h2 j e hj he]
    exact getSub_congr _ _ _ _ _ (hfr _ (by omega) (by omega))
  · intro h1 h2 j e hj he
    rw [← h.span511 h1 h2 j e hj he]
    exact getSub_congr _ _ _ _ _ (hfr _ (by omega) (by omega))
  · intro h1 j e hj he
    rw [← h.spanBig h1 j e hj he]
    exact hfr _ (by unfold bigIdx; omega) (by unfold bigIdx; omega)

end Sux.RS.Select9
