import SuxModel.RankSel.CntLemmas
/-!
# The broadword comparison `ULEQ_STEP_w` counts the lanes with `x_j ≤ y_j` (kernel proof)

`F H x y = ((((y | H) - (x & !H)) | (x ^ y)) ^ (x & !y)) & H` for the lane-msb mask
`H = hmask w n` (`n` lanes of `w` bits).  Main result `uleq_lanes`: for `x, y < 2^(w n)` the
subtraction does not underflow and `F H x y = G w n x y`, the word that has the msb of lane `j` set
iff `lane j x ≤ lane j y`; `bc_G`: its number of set bits is `leCount w n x y`.
Proof: induction on the number of lanes; a lane is split as `2^(w-1) * (2 * rest + msb) + low`, and
`|||`, `&&&`, `^^^` distribute over such decompositions (`or_decomp`, …).
-/
namespace Sux.RS.BW
open Sux.RS

/-- `x & !m` for words: on naturals `x ^^^ (x &&& m)` -/
def andn (x m : Nat) : Nat := x ^^^ (x &&& m)

def F (H x y : Nat) : Nat := ((((y ||| H) - andn x H) ||| (x ^^^ y)) ^^^ andn x y) &&& H

/-- lane-msb mask: bit `w - 1` of each of `n` lanes of width `w` -/
def hmask (w : Nat) : Nat → Nat
  | 0 => 0
  | n + 1 => 2 ^ (w - 1) * (2 * hmask w n + 1)

/-- the expected result: msb of lane `j` set iff `lane j x ≤ lane j y` -/
def G (w : Nat) : Nat → Nat → Nat → Nat
  | 0, _, _ => 0
  | n + 1, x, y => 2 ^ (w - 1) * (2 * G w n (x / 2 ^ w) (y / 2 ^ w) + (if x % 2 ^ w ≤ y % 2 ^ w then 1 else 0))

/-- number of lanes `j < n` with `lane j x ≤ lane j y` -/
def leCount (w : Nat) : Nat → Nat → Nat → Nat
  | 0, _, _ => 0
  | n + 1, x, y => (if x % 2 ^ w ≤ y % 2 ^ w then 1 else 0) + leCount w n (x / 2 ^ w) (y / 2 ^ w)

/-- number of set bits among the low `n` bits -/
def bc (z n : Nat) : Nat := cnt (fun j => z.testBit j) n

/-! ## bitwise operations distribute over `2^i * a + b` -/

theorem or_decomp {i b d : Nat} (a c : Nat) (hb : b < 2 ^ i) (hd : d < 2 ^ i) :
    (2 ^ i * a + b) ||| (2 ^ i * c + d) = 2 ^ i * (a ||| c) + (b ||| d) := by
  apply Nat.eq_of_testBit_eq
  intro j
  rw [Nat.testBit_or, Nat.testBit_two_pow_mul_add _ hb, Nat.testBit_two_pow_mul_add _ hd,
    Nat.testBit_two_pow_mul_add _ (Nat.or_lt_two_pow hb hd)]
  split <;> simp

theorem and_decomp {i b d : Nat} (a c : Nat) (hb : b < 2 ^ i) (hd : d < 2 ^ i) :
    (2 ^ i * a + b) &&& (2 ^ i * c + d) = 2 ^ i * (a &&& c) + (b &&& d) := by
  apply Nat.eq_of_testBit_eq
  intro j
  rw [Nat.testBit_and, Nat.testBit_two_pow_mul_add _ hb, Nat.testBit_two_pow_mul_add _ hd,
    Nat.testBit_two_pow_mul_add _ (Nat.and_lt_two_pow _ hd)]
  split <;> simp

theorem xor_decomp {i b d : Nat} (a c : Nat) (hb : b < 2 ^ i) (hd : d < 2 ^ i) :
    (2 ^ i * a + b) ^^^ (2 ^ i * c + d) = 2 ^ i * (a ^^^ c) + (b ^^^ d) := by
  apply Nat.eq_of_testBit_eq
  intro j
  rw [Nat.testBit_xor, Nat.testBit_two_pow_mul_add _ hb, Nat.testBit_two_pow_mul_add _ hd,
    Nat.testBit_two_pow_mul_add _ (Nat.xor_lt_two_pow hb hd)]
  split <;> simp

theorem andn_decomp {i b d : Nat} (a c : Nat) (hb : b < 2 ^ i) (hd : d < 2 ^ i) :
    andn (2 ^ i * a + b) (2 ^ i * c + d) = 2 ^ i * andn a c + andn b d := by
  unfold andn
  rw [and_decomp a c hb hd, xor_decomp a (a &&& c) hb (Nat.and_lt_two_pow _ hd)]

theorem andn_le (x m : Nat) : andn x m ≤ x := by
  apply Nat.le_of_testBit
  intro i h
  unfold andn at h
  rw [Nat.testBit_xor, Nat.testBit_and] at h
  cases hx : x.testBit i <;> simp_all

theorem andn_lt {i x : Nat} (m : Nat) (hx : x < 2 ^ i) : andn x m < 2 ^ i :=
  Nat.lt_of_le_of_lt (andn_le x m) hx

/-! ## three-part decomposition `2^k * (2 * A + a) + x1` (rest, lane msb, low part of the lane) -/

theorem or3 {k a b x1 y1 : Nat} (A B : Nat) (ha : a < 2) (hb : b < 2) (hx : x1 < 2 ^ k) (hy : y1 < 2 ^ k) :
    (2 ^ k * (2 * A + a) + x1) ||| (2 ^ k * (2 * B + b) + y1)
      = 2 ^ k * (2 * (A ||| B) + (a ||| b)) + (x1 ||| y1) := by
  rw [or_decomp _ _ hx hy]
  have := or_decomp (i := 1) A B (b := a) (d := b) (by simpa using ha) (by simpa using hb)
  rw [Nat.pow_one] at this
  rw [this]

theorem and3 {k a b x1 y1 : Nat} (A B : Nat) (ha : a < 2) (hb : b < 2) (hx : x1 < 2 ^ k) (hy : y1 < 2 ^ k) :
    (2 ^ k * (2 * A + a) + x1) &&& (2 ^ k * (2 * B + b) + y1)
      = 2 ^ k * (2 * (A &&& B) + (a &&& b)) + (x1 &&& y1) := by
  rw [and_decomp _ _ hx hy]
  have := and_decomp (i := 1) A B (b := a) (d := b) (by simpa using ha) (by simpa using hb)
  rw [Nat.pow_one] at this
  rw [this]

theorem xor3 {k a b x1 y1 : Nat} (A B : Nat) (ha : a < 2) (hb : b < 2) (hx : x1 < 2 ^ k) (hy : y1 < 2 ^ k) :
    (2 ^ k * (2 * A + a) + x1) ^^^ (2 ^ k * (2 * B + b) + y1)
      = 2 ^ k * (2 * (A ^^^ B) + (a ^^^ b)) + (x1 ^^^ y1) := by
  rw [xor_decomp _ _ hx hy]
  have := xor_decomp (i := 1) A B (b := a) (d := b) (by simpa using ha) (by simpa using hb)
  rw [Nat.pow_one] at this
  rw [this]

theorem andn3 {k a b x1 y1 : Nat} (A B : Nat) (ha : a < 2) (hb : b < 2) (hx : x1 < 2 ^ k) (hy : y1 < 2 ^ k) :
    andn (2 ^ k * (2 * A + a) + x1) (2 ^ k * (2 * B + b) + y1)
      = 2 ^ k * (2 * andn A B + andn a b) + andn x1 y1 := by
  rw [andn_decomp _ _ hx hy]
  have := andn_decomp (i := 1) A B (b := a) (d := b) (by simpa using ha) (by simpa using hb)
  rw [Nat.pow_one] at this
  rw [this]

theorem lt2_cases {a : Nat} (h : a < 2) : a = 0 ∨ a = 1 := by omega

/-- the lane-msb bit of the result -/
theorem msb_bit {p a c x1 y1 e : Nat} (ha : a < 2) (hc : c < 2) (hx : x1 < p) (hy : y1 < p)
    (he : e = if x1 ≤ y1 then 1 else 0) :
    ((e ||| (a ^^^ c)) ^^^ andn a c) &&& 1 = if p * a + x1 ≤ p * c + y1 then 1 else 0 := by
  rcases lt2_cases ha with rfl | rfl <;> rcases lt2_cases hc with rfl | rfl <;>
    by_cases hxy : x1 ≤ y1 <;> simp only [hxy, if_true, if_false] at he <;> subst he
  all_goals first
    | (have h : p * 0 + x1 ≤ p * 0 + y1 := by omega
       rw [if_pos h]; decide)
    | (have h : ¬ (p * 0 + x1 ≤ p * 0 + y1) := by omega
       rw [if_neg h]; decide)
    | (have h : p * 0 + x1 ≤ p * 1 + y1 := by omega
       rw [if_pos h]; decide)
    | (have h : ¬ (p * 1 + x1 ≤ p * 0 + y1) := by omega
       rw [if_neg h]; decide)
    | (have h : p * 1 + x1 ≤ p * 1 + y1 := by omega
       rw [if_pos h]; decide)
    | (have h : ¬ (p * 1 + x1 ≤ p * 1 + y1) := by omega
       rw [if_neg h]; decide)

theorem andn_zero_right (x : Nat) : andn x 0 = x := by simp [andn]

theorem andn_one_of_lt2 {a : Nat} (h : a < 2) : andn a 1 = 0 := by
  rcases lt2_cases h with rfl | rfl <;> decide

theorem or_one_of_lt2 {a : Nat} (h : a < 2) : a ||| 1 = 1 := by
  rcases lt2_cases h with rfl | rfl <;> decide

/-- the subtraction of one lane step, in components -/
theorem sub_step {p Y' X' x1 y1 : Nat} (hp : 0 < p) (hle : X' ≤ Y') (hx : x1 < p) (hy : y1 < p) :
    p * (2 * X' + 0) + x1 ≤ p * (2 * Y' + 1) + y1 ∧
    p * (2 * Y' + 1) + y1 - (p * (2 * X' + 0) + x1)
      = p * (2 * (Y' - X') + (if x1 ≤ y1 then 1 else 0)) + (if x1 ≤ y1 then y1 - x1 else p + y1 - x1) := by
  have hA : p * X' ≤ p * Y' := Nat.mul_le_mul_left p hle
  have _ := hy
  have hS : p * (Y' - X') = p * Y' - p * X' := Nat.mul_sub p Y' X'
  simp only [Nat.mul_add, Nat.add_zero, Nat.mul_one]
  rw [← Nat.mul_assoc, ← Nat.mul_assoc, ← Nat.mul_assoc, Nat.mul_comm p 2, Nat.mul_assoc, Nat.mul_assoc,
    Nat.mul_assoc, hS]
  generalize p * X' = B at *
  generalize p * Y' = A at *
  by_cases hxy : x1 ≤ y1
  · simp only [hxy, if_true, Nat.mul_one]; omega
  · simp only [hxy, if_false, Nat.mul_zero]; omega

/-- one lane step of `F` -/
theorem F_step {k a c x1 y1 : Nat} (x' y' H' : Nat) (ha : a < 2) (hc : c < 2)
    (hx : x1 < 2 ^ k) (hy : y1 < 2 ^ k) (hle : andn x' H' ≤ y' ||| H') :
    andn (2 ^ k * (2 * x' + a) + x1) (2 ^ k * (2 * H' + 1)) ≤ (2 ^ k * (2 * y' + c) + y1) ||| (2 ^ k * (2 * H' + 1)) ∧
    F (2 ^ k * (2 * H' + 1)) (2 ^ k * (2 * x' + a) + x1) (2 ^ k * (2 * y' + c) + y1)
      = 2 ^ k * (2 * F H' x' y' + (if 2 ^ k * a + x1 ≤ 2 ^ k * c + y1 then 1 else 0)) := by
  have hp : 0 < 2 ^ k := Nat.two_pow_pos k
  have hH : 2 ^ k * (2 * H' + 1) = 2 ^ k * (2 * H' + 1) + 0 := rfl
  have hor : (2 ^ k * (2 * y' + c) + y1) ||| (2 ^ k * (2 * H' + 1)) = 2 ^ k * (2 * (y' ||| H') + 1) + y1 := by
    rw [hH, or3 y' H' hc (by omega) hy hp, or_one_of_lt2 hc, Nat.or_zero]
  have han : andn (2 ^ k * (2 * x' + a) + x1) (2 ^ k * (2 * H' + 1)) = 2 ^ k * (2 * andn x' H' + 0) + x1 := by
    rw [hH, andn3 x' H' ha (by omega) hx hp, andn_one_of_lt2 ha, andn_zero_right]
  obtain ⟨hs1, hs2⟩ := sub_step (p := 2 ^ k) hp hle hx hy
  refine ⟨by rw [hor, han]; omega, ?_⟩
  unfold F
  rw [hor, han, hs2]
  -- now everything is in three-part form
  have he : (if x1 ≤ y1 then 1 else 0) < 2 := by split <;> omega
  have hd : (if x1 ≤ y1 then y1 - x1 else 2 ^ k + y1 - x1) < 2 ^ k := by split <;> omega
  have hax : a ^^^ c < 2 := Nat.xor_lt_two_pow (n := 1) (by simpa using ha) (by simpa using hc)
  have hxy1 : x1 ^^^ y1 < 2 ^ k := Nat.xor_lt_two_pow hx hy
  rw [xor3 x' y' ha hc hx hy, andn3 x' y' ha hc hx hy]
  rw [or3 _ _ he hax hd hxy1]
  have h1 : ((if x1 ≤ y1 then 1 else 0) ||| (a ^^^ c)) < 2 :=
    Nat.or_lt_two_pow (n := 1) (by simpa using he) (by simpa using hax)
  have h2 : ((if x1 ≤ y1 then y1 - x1 else 2 ^ k + y1 - x1) ||| (x1 ^^^ y1)) < 2 ^ k := Nat.or_lt_two_pow hd hxy1
  have h3 : andn a c < 2 := andn_lt (i := 1) c (by simpa using ha)
  have h4 : andn x1 y1 < 2 ^ k := andn_lt y1 hx
  rw [xor3 _ _ h1 h3 h2 h4]
  have h5 : (((if x1 ≤ y1 then 1 else 0) ||| (a ^^^ c)) ^^^ andn a c) < 2 :=
    Nat.xor_lt_two_pow (n := 1) (by simpa using h1) (by simpa using h3)
  have h6 := Nat.xor_lt_two_pow h2 h4
  rw [hH, and3 _ _ h5 (by omega) h6 hp, Nat.and_zero, Nat.add_zero]
  rw [msb_bit (p := 2 ^ k) ha hc hx hy rfl]

/-! ## main induction over the lanes -/

theorem hmask_succ (w n : Nat) : hmask w (n + 1) = 2 ^ (w - 1) * (2 * hmask w n + 1) := rfl

/-- splitting off the lowest lane of a number -/
theorem lane_split {w : Nat} (hw : 1 ≤ w) (x : Nat) :
    x = 2 ^ (w - 1) * (2 * (x / 2 ^ w) + (x % 2 ^ w) / 2 ^ (w - 1)) + (x % 2 ^ w) % 2 ^ (w - 1) ∧
    (x % 2 ^ w) / 2 ^ (w - 1) < 2 ∧ (x % 2 ^ w) % 2 ^ (w - 1) < 2 ^ (w - 1) ∧
    x % 2 ^ w = 2 ^ (w - 1) * ((x % 2 ^ w) / 2 ^ (w - 1)) + (x % 2 ^ w) % 2 ^ (w - 1) := by
  have hpw : 2 ^ w = 2 ^ (w - 1) * 2 := by
    rw [← Nat.pow_succ]; congr 1; omega
  have hp : 0 < 2 ^ (w - 1) := Nat.two_pow_pos _
  have h0 : x % 2 ^ w < 2 ^ (w - 1) * 2 := by rw [← hpw]; exact Nat.mod_lt _ (Nat.two_pow_pos w)
  have h1 : (x % 2 ^ w) / 2 ^ (w - 1) < 2 := Nat.div_lt_of_lt_mul h0
  have h2 := Nat.mod_lt (x % 2 ^ w) hp
  have h3 := Nat.div_add_mod (x % 2 ^ w) (2 ^ (w - 1))
  have h4 := Nat.div_add_mod x (2 ^ w)
  refine ⟨?_, h1, h2, h3.symm⟩
  rw [Nat.mul_add, ← Nat.mul_assoc, ← hpw, Nat.add_assoc, h3, h4]

theorem uleq_lanes (w : Nat) (hw : 1 ≤ w) : ∀ (n x y : Nat), x < 2 ^ (w * n) → y < 2 ^ (w * n) →
    andn x (hmask w n) ≤ y ||| hmask w n ∧ F (hmask w n) x y = G w n x y := by
  intro n
  induction n with
  | zero =>
    intro x y hx hy
    have hx0 : x = 0 := by simpa using hx
    have hy0 : y = 0 := by simpa using hy
    subst hx0; subst hy0
    refine ⟨?_, ?_⟩
    · show andn 0 0 ≤ 0 ||| 0
      decide
    · show F 0 0 0 = 0
      decide
  | succ n ih =>
    intro x y hx hy
    have hdiv : ∀ z, z < 2 ^ (w * (n + 1)) → z / 2 ^ w < 2 ^ (w * n) := by
      intro z hz
      apply Nat.div_lt_of_lt_mul
      rw [← Nat.pow_add]
      rw [show w + w * n = w * (n + 1) by rw [Nat.mul_succ]; omega]
      exact hz
    obtain ⟨ihle, ihF⟩ := ih (x / 2 ^ w) (y / 2 ^ w) (hdiv x hx) (hdiv y hy)
    obtain ⟨ex, hxa, hx1, exl⟩ := lane_split hw x
    obtain ⟨ey, hyc, hy1, eyl⟩ := lane_split hw y
    obtain ⟨s1, s2⟩ := F_step (x / 2 ^ w) (y / 2 ^ w) (hmask w n) hxa hyc hx1 hy1 ihle
    rw [← ex, ← ey, ← hmask_succ, ← exl, ← eyl, ihF] at s2
    rw [← ex, ← ey, ← hmask_succ] at s1
    exact ⟨s1, s2⟩

/-! ## counting the set bits of the result -/

theorem bc_zero (n : Nat) : bc 0 n = 0 := by
  unfold bc; apply cnt_false; intro k _; exact Nat.zero_testBit k

theorem bc_decomp {i b : Nat} (a : Nat) (hb : b < 2 ^ i) (m : Nat) :
    bc (2 ^ i * a + b) (i + m) = bc b i + bc a m := by
  unfold bc
  rw [cnt_add]
  congr 1
  · apply cnt_congr; intro k hk
    rw [Nat.testBit_two_pow_mul_add a hb, if_pos hk]
  · apply cnt_congr; intro k _
    rw [Nat.testBit_two_pow_mul_add a hb, if_neg (by omega)]
    congr 1; omega

theorem bc_lt2 {t : Nat} (h : t < 2) : bc t 1 = t := by
  rcases lt2_cases h with rfl | rfl <;> decide

/-- bits at or above the size of the number do not count -/
theorem bc_of_lt {z n : Nat} (h : z < 2 ^ n) (d : Nat) : bc z (n + d) = bc z n := by
  unfold bc
  rw [cnt_add]
  have : cnt (fun k => z.testBit (n + k)) d = 0 := by
    apply cnt_false; intro k _
    apply Nat.testBit_lt_two_pow
    exact Nat.lt_of_lt_of_le h (Nat.pow_le_pow_right (by omega) (by omega))
  omega

theorem G_lt (w : Nat) (hw : 1 ≤ w) : ∀ (n x y : Nat), G w n x y < 2 ^ (w * n) := by
  intro n
  induction n with
  | zero => intro x y; show 0 < 2 ^ (w * 0); exact Nat.two_pow_pos _
  | succ n ih =>
    intro x y
    have h := ih (x / 2 ^ w) (y / 2 ^ w)
    show 2 ^ (w - 1) * (2 * G w n (x / 2 ^ w) (y / 2 ^ w) + (if x % 2 ^ w ≤ y % 2 ^ w then 1 else 0)) < _
    have e : 2 ^ (w * (n + 1)) = 2 ^ (w - 1) * (2 * 2 ^ (w * n)) := by
      rw [← Nat.pow_succ', ← Nat.pow_add]; congr 1; rw [Nat.mul_succ]; omega
    rw [e]
    apply Nat.mul_lt_mul_of_pos_left _ (Nat.two_pow_pos _)
    split <;> omega

theorem bc_G (w : Nat) (hw : 1 ≤ w) : ∀ (n x y : Nat), bc (G w n x y) (w * n) = leCount w n x y := by
  intro n
  induction n with
  | zero => intro x y; rfl
  | succ n ih =>
    intro x y
    have h := ih (x / 2 ^ w) (y / 2 ^ w)
    show bc (2 ^ (w - 1) * (2 * G w n (x / 2 ^ w) (y / 2 ^ w) + (if x % 2 ^ w ≤ y % 2 ^ w then 1 else 0))) _
      = (if x % 2 ^ w ≤ y % 2 ^ w then 1 else 0) + leCount w n (x / 2 ^ w) (y / 2 ^ w)
    have ht : (if x % 2 ^ w ≤ y % 2 ^ w then 1 else 0) < 2 := by split <;> omega
    rw [show w * (n + 1) = (w - 1) + (1 + w * n) by rw [Nat.mul_succ]; omega]
    have := bc_decomp (i := w - 1) (b := 0)
      (2 * G w n (x / 2 ^ w) (y / 2 ^ w) + (if x % 2 ^ w ≤ y % 2 ^ w then 1 else 0)) (Nat.two_pow_pos _) (1 + w * n)
    rw [Nat.add_zero] at this
    rw [this, bc_zero, Nat.zero_add]
    have h2 := bc_decomp (i := 1) (G w n (x / 2 ^ w) (y / 2 ^ w)) (by simpa using ht) (w * n)
    rw [Nat.pow_one] at h2
    rw [h2, bc_lt2 ht, h]

/-- the statement used by the models: for `x, y` of `n` lanes of width `w` inside a `B`-bit word the
checked subtraction succeeds and the number of set bits of `F` is the number of lanes with
`lane x ≤ lane y` -/
theorem uleq_count (w n B : Nat) (hw : 1 ≤ w) (hB : w * n ≤ B) (x y : Nat)
    (hx : x < 2 ^ (w * n)) (hy : y < 2 ^ (w * n)) :
    andn x (hmask w n) ≤ y ||| hmask w n ∧ bc (F (hmask w n) x y) B = leCount w n x y := by
  obtain ⟨h1, h2⟩ := uleq_lanes w hw n x y hx hy
  refine ⟨h1, ?_⟩
  rw [h2, show B = w * n + (B - w * n) by omega, bc_of_lt (G_lt w hw n x y), bc_G w hw]

end Sux.RS.BW
