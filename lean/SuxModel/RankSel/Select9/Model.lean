import SuxModel.RankSel.Layer
import SuxModel.RankSel.Select9.Helpers
import SuxModel.Base.Proto
/-!
# Model of `Select9` (src/rank_sel/select9.rs), dev profile

`build` mirrors `Select9::new`, `selectUnchecked` mirrors `select_unchecked`, `select` is the trait
default `Select::select`.  The Rank9 counters (`counts[i].absolute`, `counts[i].relative`) are an
input (`R9View`); `layer` instantiates them with the spec-level view `r9View (obOf (cumOnes ws len))`.

Debug assertions and overflow checks of the dev profile are modelled (`check`, `subU`, `mulU`):
they are `panic`s.  `get_unchecked` is `Out.readU` (→ `oob`), safe indexing `Out.readS` (→ `panic`).
-/
namespace Sux.RS.Select9
open Sux Sux.RS.Priv

/-! ## broadword constants and steps (exact 64-bit word expressions) -/

def ONES_STEP_9 : Nat :=
  (1 <<< 0) ||| (1 <<< 9) ||| (1 <<< 18) ||| (1 <<< 27) ||| (1 <<< 36) ||| (1 <<< 45) ||| (1 <<< 54)
def MSBS_STEP_9 : Nat := 0x100 * ONES_STEP_9
def ONES_STEP_16 : Nat := (1 <<< 0) ||| (1 <<< 16) ||| (1 <<< 32) ||| (1 <<< 48)
def MSBS_STEP_16 : Nat := 0x8000 * ONES_STEP_16

/-- `ULEQ_STEP_k!(x, y)` for the lane-msb mask `msbs`:
`((((y | MSBS) - (x & !MSBS)) | (x ^ y)) ^ (x & !y)) & MSBS`; the subtraction is overflow-checked -/
def uleqStep (msbs x y : Nat) : Out Nat :=
  (subU (y ||| msbs) (x &&& notW 64 msbs)) >>= fun d =>
    .ok (((d ||| (x ^^^ y)) ^^^ (x &&& notW 64 y)) &&& msbs)

/-- `ULEQ_STEP_16!(first, y).count_ones() + ULEQ_STEP_16!(second, y).count_ones()) * 2` -/
def where16 (first second y : Nat) : Out Nat :=
  (uleqStep MSBS_STEP_16 first y) >>= fun a =>
  (uleqStep MSBS_STEP_16 second y) >>= fun b =>
    .ok ((pc64 a + pc64 b) * 2)

/-- `BlockCounters::rel` -/
def relOf (relative word : Nat) : Nat := (relative >>> (9 * (word ^^^ 7))) &&& 0x1FF

structure S9 where
  inv : Array Nat
  sub : Array Nat
  isz : Nat
  ssz : Nat
deriving Repr

/-! ## builder -/

/-- the `while curr + ones_in_word > next_quantum` loop of the inventory phase
(`q` = ones per inventory entry) -/
def invWhile (q i word curr onesInWord : Nat) : Nat → Array Nat → Nat → Out (Array Nat × Nat)
  | 0, inv, nq => .ok (inv, nq)
  | fuel + 1, inv, nq =>
    if curr + onesInWord > nq then
      (subU nq curr) >>= fun r =>
      (selInWord word r) >>= fun p =>
        invWhile q i word curr onesInWord fuel (inv.push (i * 64 + p)) (nq + q)
    else .ok (inv, nq)

/-- inventory phase: `for (i, word) in bits.iter().enumerate()` over ALL backend words -/
def invLoop (numOnes : Nat) : List Nat → Nat → Array Nat → Nat → Nat → Out (Array Nat)
  | [], _, inv, _, _ => .ok inv
  | word :: rest, i, inv, curr, nq =>
    let onesInWord := min (pc64 word) (numOnes - curr)
    (invWhile 512 i word curr onesInWord 65 inv nq) >>= fun (inv', nq') =>
      invLoop numOnes rest (i + 1) inv' (curr + onesInWord) nq'

/-- writes `s16[k] = v` for `k ∈ [k0, k1)`, each preceded by `debug_assert!(s16[k] == 0)`, with the
slice bound `lim` (`safe` = indexed access `s16[k]`: out of range panics; otherwise the iterator
simply stops) -/
def fill16 (base lim : Nat) (safe : Bool) (v : Nat → Out Nat) :
    Nat → Nat → Array Nat → Out (Array Nat)
  | 0, _, sub => .ok sub
  | n + 1, k, sub =>
    if k < lim then
      (check (getSub 16 sub base k == 0)) >>= fun _ =>
      (v k) >>= fun x =>
        fill16 base lim safe v n (k + 1) (setSub 16 sub base k x)
    else if safe then .panic else .ok sub

/-- inner `while word != 0` loop of the position scan; returns the new subinventory, the new
`subinventory_idx` and whether `break 'outer` was taken -/
def scanWord (state subStart spanLen startBit wordIdx : Nat) :
    Nat → Nat → Array Nat → Nat → Out (Array Nat × Nat × Bool)
  | 0, _, sub, si => .ok (sub, si, false)
  | fuel + 1, word, sub, si =>
    if word = 0 then .ok (sub, si, false) else
    let bitIndex := wordIdx * 64 + ctz 64 word
    (subU bitIndex startBit) >>= fun off =>
    (match state with
      | 0 =>
        -- subinventory[subinv_start + subinventory_idx] = bit_index (safe indexing)
        if subStart + si < sub.size then
          (check (sub.getD (subStart + si) 0 == 0)) >>= fun _ =>
            .ok (sub.setIfInBounds (subStart + si) bitIndex)
        else .panic
      | 1 =>
        if si < 2 * spanLen then
          (check (getSub 32 sub subStart si == 0)) >>= fun _ =>
          (check (decide (off < 2 ^ 32))) >>= fun _ =>
            .ok (setSub 32 sub subStart si off)
        else .panic
      | _ =>
        if si < 4 * spanLen then
          (check (getSub 16 sub subStart si == 0)) >>= fun _ =>
          (check (decide (off < 2 ^ 16))) >>= fun _ =>
            .ok (setSub 16 sub subStart si off)
        else .panic) >>= fun sub' =>
    if si + 1 = 512 then .ok (sub', si + 1, true)
    else scanWord state subStart spanLen startBit wordIdx fuel (word &&& (word - 1)) sub' (si + 1)

/-- outer `loop` of the position scan -/
def scanLoop (ws : Array Nat) (state subStart spanLen startBit endWord : Nat) :
    Nat → Nat → Nat → Array Nat → Nat → Out (Array Nat)
  | 0, _, _, _, _ => .panic
  | fuel + 1, wordIdx, word, sub, si =>
    (scanWord state subStart spanLen startBit wordIdx 64 word sub si) >>= fun (sub', si', brk) =>
      if brk then .ok sub'
      else if wordIdx + 1 = endWord then .ok sub'
      else (Out.readS ws (wordIdx + 1)) >>= fun w =>
        scanLoop ws state subStart spanLen startBit endWord fuel (wordIdx + 1) w sub' si'

/-- body of `iter.for_each(|inventory_idx| …)` -/
def subStep (ws : Array Nat) (cnt : R9View) (numWords : Nat) (inv : Array Nat) (sub : Array Nat)
    (idx : Nat) : Out (Array Nat) :=
  (Out.readS inv idx) >>= fun invL =>
  (Out.readS inv (idx + 1)) >>= fun invR =>
  let subStart := invL / 64 / 4
  let subEnd := invR / 64 / 4
  (subU subEnd subStart) >>= fun span =>
  let blockLeft := invL / 64 / 8
  (subU (invR / 64 / 8) blockLeft) >>= fun blockSpan =>
  (Out.readS cnt.abs blockLeft) >>= fun atStart =>
  -- `subinventory[subinv_start..subinv_end]` (safe slicing)
  (check (decide (subEnd ≤ sub.size))) >>= fun _ =>
  let lim := 4 * span
  let pad := andNot (blockSpan + 8) 7
  let cntAt := fun (j : Nat) => (Out.readS cnt.abs j) >>= fun a =>
    (subU a atStart) >>= fun d => Out.ok (d % 2 ^ 16)
  if span ≤ 1 then .ok sub
  else if span ≤ 15 then
    (check (decide (pad ≤ span * 4))) >>= fun _ =>
    (fill16 subStart lim false (fun k => cntAt (blockLeft + k + 1)) blockSpan 0 sub) >>= fun s1 =>
      fill16 subStart lim false (fun _ => .ok 0xFFFF) (pad - blockSpan) blockSpan s1
  else if span ≤ 127 then
    (check (decide (pad + 8 ≤ span * 4))) >>= fun _ =>
    (check (decide (blockSpan / 8 ≤ 8))) >>= fun _ =>
    (fill16 subStart lim true (fun k => cntAt (blockLeft + (k - 8) + 1)) blockSpan 8 sub) >>= fun s1 =>
    (fill16 subStart lim true (fun _ => .ok 0xFFFF) (pad - blockSpan) (blockSpan + 8) s1) >>= fun s2 =>
    (fill16 subStart lim false (fun k => cntAt (blockLeft + (k + 1) * 8)) (blockSpan / 8) 0 s2) >>= fun s3 =>
      fill16 subStart lim false (fun _ => .ok 0xFFFF) (8 - blockSpan / 8) (blockSpan / 8) s3
  else
    let state := if span ≤ 255 then 2 else if span ≤ 511 then 1 else 0
    let wordIdx := invL / 64
    let bitIdx := invL % 64
    (Out.readS ws wordIdx) >>= fun w0 =>
    let word := shlW 64 (w0 >>> bitIdx) bitIdx
    let endWord := min ((invR + 63) / 64) numWords
    scanLoop ws state subStart span invL endWord (ws.size + 1) wordIdx word sub 0

def subLoop (ws : Array Nat) (cnt : R9View) (numWords : Nat) (inv : Array Nat) :
    Nat → Nat → Array Nat → Out (Array Nat)
  | 0, _, sub => .ok sub
  | n + 1, idx, sub =>
    (subStep ws cnt numWords inv sub idx) >>= fun sub' => subLoop ws cnt numWords inv n (idx + 1) sub'

/-- `Select9::new` over the vector `(ws, len)` whose Rank9 reports `numOnes` ones and has the
counters `cnt` -/
def build (ws : Array Nat) (len numOnes : Nat) (cnt : R9View) : Out S9 :=
  let numWords := (len + 63) / 64
  let isz := (numOnes + 511) / 512
  let ssz := (numWords + 3) / 4
  (invLoop numOnes ws.toList 0 #[] 0 0) >>= fun inv0 =>
  let inv := inv0.push (andNot (numWords + 3) 3 * 64)
  (check (inv.size == isz + 1)) >>= fun _ =>
  (subLoop ws cnt numWords inv isz 0 (Array.replicate ssz 0)) >>= fun sub =>
    .ok { inv := inv, sub := sub, isz := isz, ssz := ssz }

/-! ## query -/

/-- index read by the span class `≥ 512`:
`subinv_ref.get_unchecked(subinv_pos + rank % ONES_PER_INVENTORY)` (/repo @ 53d5514; before that
commit the source did not add `subinv_pos`, finding D27) -/
def bigIdx (subPos j : Nat) : Nat := subPos + j

/-- common tail of `select_unchecked`: search inside the Rank9 block `count_left` whose first word
is `block_left`, for the one of rank `rank_in_block` inside the block -/
def finish (ws : Array Nat) (cnt : R9View) (blockLeft countLeft rankInBlock : Nat) : Out Nat :=
  (mulU 64 rankInBlock ONES_STEP_9) >>= fun step9 =>
  (Out.readU cnt.rel countLeft) >>= fun relative =>
  (uleqStep MSBS_STEP_9 relative step9) >>= fun u =>
  let off := pc64 u
  (check (decide (off ≤ 7))) >>= fun _ =>
  let word := blockLeft + off
  (subU rankInBlock (relOf relative off)) >>= fun rankInWord =>
  (Out.readU ws word) >>= fun w =>
  (selInWord w rankInWord) >>= fun p => .ok (word * 64 + p)

/-- `Select9::select_unchecked` -/
def selectUnchecked (ws : Array Nat) (cnt : R9View) (s : S9) (rank : Nat) : Out Nat :=
  let invIdx := rank >>> 9
  (check (decide (invIdx ≤ s.isz))) >>= fun _ =>
  (Out.readU s.inv invIdx) >>= fun invLeft =>
  (Out.readU s.inv (invIdx + 1)) >>= fun invRight =>
  let blockRight := invRight / 64
  let blockLeft := invLeft / 64
  (subU (blockRight / 4) (blockLeft / 4)) >>= fun span =>
  let subPos := blockLeft / 4
  if span ≤ 1 then
    let blockLeft := andNot blockLeft 7
    let countLeft := blockLeft / 8
    (Out.readU cnt.abs (countLeft + 1)) >>= fun nxt =>
    (check (decide (rank < nxt))) >>= fun _ =>
    (Out.readU cnt.abs countLeft) >>= fun a =>
    (subU rank a) >>= fun rankInBlock =>
      finish ws cnt blockLeft countLeft rankInBlock
  else if span ≤ 15 then
    let blockLeft := andNot blockLeft 7
    let countLeft := blockLeft / 8
    (Out.readU cnt.abs countLeft) >>= fun a =>
    (subU rank a) >>= fun rankInSuper =>
    (mulU 64 rankInSuper ONES_STEP_16) >>= fun step16 =>
    (Out.readU s.sub subPos) >>= fun first =>
    (Out.readU s.sub (subPos + 1)) >>= fun second =>
    (where16 first second step16) >>= fun wh =>
    (check (decide (wh ≤ 16))) >>= fun _ =>
    let blockLeft := blockLeft + wh * 4
    let countLeft := countLeft + wh / 2
    (Out.readU cnt.abs countLeft) >>= fun a' =>
    (subU rank a') >>= fun rankInBlock =>
    (check (decide (rankInBlock < 512))) >>= fun _ =>
      finish ws cnt blockLeft countLeft rankInBlock
  else if span ≤ 127 then
    let blockLeft := andNot blockLeft 7
    let countLeft := blockLeft / 8
    (Out.readU cnt.abs countLeft) >>= fun a =>
    (subU rank a) >>= fun rankInSuper =>
    (mulU 64 rankInSuper ONES_STEP_16) >>= fun step16 =>
    (Out.readU s.sub subPos) >>= fun first =>
    (Out.readU s.sub (subPos + 1)) >>= fun second =>
    (where16 first second step16) >>= fun wh0 =>
    (check (decide (wh0 ≤ 16))) >>= fun _ =>
    (Out.readU s.sub (subPos + wh0 + 2)) >>= fun firstBis =>
    (Out.readU s.sub (subPos + wh0 + 2 + 1)) >>= fun secondBis =>
    (where16 firstBis secondBis step16) >>= fun wh1' =>
    let wh1 := wh0 * 8 + wh1'
    let blockLeft := blockLeft + wh1 * 4
    let countLeft := countLeft + wh1 / 2
    (Out.readU cnt.abs countLeft) >>= fun a' =>
    (subU rank a') >>= fun rankInBlock =>
    (check (decide (rankInBlock < 512))) >>= fun _ =>
      finish ws cnt blockLeft countLeft rankInBlock
  else if span ≤ 255 then
    -- `subinv_ref.get_unchecked(subinv_pos..subinventory_size).align_to::<u16>()`
    if subPos ≤ s.ssz ∧ s.ssz ≤ s.sub.size ∧ rank % 512 < 4 * (s.ssz - subPos) then
      .ok (getSub 16 s.sub subPos (rank % 512) + invLeft)
    else .oob
  else if span ≤ 511 then
    if subPos ≤ s.ssz ∧ s.ssz ≤ s.sub.size ∧ rank % 512 < 2 * (s.ssz - subPos) then
      .ok (getSub 32 s.sub subPos (rank % 512) + invLeft)
    else .oob
  else
    Out.readU s.sub (bigIdx subPos (rank % 512))

/-- `Select::select` (trait default) with `num_ones()` delegated to Rank9 -/
def select (ws : Array Nat) (cnt : R9View) (numOnes : Nat) (s : S9) (rank : Nat) : Out (Option Nat) :=
  if rank ≥ numOnes then .ok none
  else (selectUnchecked ws cnt s rank) >>= fun p => .ok (some p)

/-! ## layer -/

def partsOf (s : S9) : String :=
  s!"s9 inv={Sux.Proto.fmtNatList s.inv.toList} sub={Sux.Proto.fmtNatList s.sub.toList} isz={s.isz} ssz={s.ssz}"

/-- the Rank9 counters as the spec-level view (see `Helpers.lean`) -/
def viewOf (ws : Array Nat) (len : Nat) : R9View := r9View (obOf (cumOnes ws len)) len

def layer (ws : Array Nat) (len n1 : Nat) : LayerModel :=
  let cnt := viewOf ws len
  match build ws len n1 cnt with
  | .ok s => { parts := partsOf s, select := some (select ws cnt n1 s) }
  | .panic => { parts := "build-panic", select := some (fun _ => .panic) }
  | .oob => { parts := "build-oob", select := some (fun _ => .oob) }

end Sux.RS.Select9
