import SuxModel.RankSel.Select9.Model
import SuxModel.RankSel.Small.LemmasQuery
/-!
# `Select9`: the in-block search `finish` (broadword step over the Rank9 relative counters)
-/
namespace Sux.RS.Select9
open Sux Sux.RS Sux.RS.Priv Sux.RS.BW Sux.RS.Small

/-- `Rank9` as the `RankSmall` shape `⟨8, 1, 9, 8, 64⟩` -/
def P0 : SmallParams := smallParams 0

theorem ones9_eq : ONES_STEP_9 = onesStep P0 := by decide
theorem msbs9_eq : MSBS_STEP_9 = msbsStep P0 := by decide

theorem uleqStep9_eq (x y : Nat) : uleqStep MSBS_STEP_9 x y = Small.uleqStep P0 x y := by
  unfold uleqStep Small.uleqStep
  rw [msbs9_eq]; rfl

theorem relOf_eq (x t : Nat) : relOf x t = Small.relOf P0 x t := rfl

theorem r9Rel_eq (ob : Nat → Nat) (w0 : Nat) :
    r9Rel ob w0 = packL 9 (laneList 7 (fun t => ob (w0 + t) - ob w0)) := rfl

theorem rel_read9 (ws : Array Nat) (len c : Nat) (hc : c < (len + 511) / 512) :
    Out.readU (r9View (onesBefore ws len) len).rel c = .ok (r9Rel (onesBefore ws len) (8 * c)) := by
  show Out.readU (Array.ofFn (n := (len + 511) / 512 + 1)
    (fun b => if b.val < (len + 511) / 512 then r9Rel (onesBefore ws len) (8 * b.val) else 0)) c = _
  rw [readU_ofFn _ (fun b => if b < (len + 511) / 512 then r9Rel (onesBefore ws len) (8 * b) else 0) (by omega),
    if_pos hc]

theorem abs_read9 (ws : Array Nat) (len c : Nat) (hc : c ≤ (len + 511) / 512) :
    Out.readU (r9View (onesBefore ws len) len).abs c = .ok (rankSpec ws len (512 * c)) := by
  show Out.readU (Array.ofFn (n := (len + 511) / 512 + 1) (fun b => onesBefore ws len (8 * b.val))) c = _
  rw [readU_ofFn _ (fun b => onesBefore ws len (8 * b)) (by omega)]
  unfold onesBefore; congr 2; omega

theorem ob9 (ws : Array Nat) (len c t : Nat) :
    onesBefore ws len (8 * c + t) = rankSpec ws len (512 * c + 64 * t) := by
  unfold onesBefore; congr 1; omega

theorem finish_correct (ws : Array Nat) (len : Nat) (hlen : len ≤ 64 * ws.size) (r p c : Nat)
    (hsel : IsSel (polBit false ws) len r p) (hc1 : 512 * c ≤ p) (hc2 : p < 512 * c + 512) :
    finish ws (r9View (onesBefore ws len) len) (8 * c) c (r - rankSpec ws len (512 * c)) = .ok p := by
  have hp := hsel.1
  have hcn : c < (len + 511) / 512 := by omega
  let T := (p - 512 * c) / 64
  have hT : T < 8 := by omega
  have hCb : rankSpec ws len (512 * c) ≤ r := by
    rw [← C_false]; exact (C_le_iff hsel _).2 hc1
  have hrib : r - rankSpec ws len (512 * c) < 2 ^ 9 := by
    have := pos_add_le hsel (q := 512 * c) (by rw [C_false]; exact hCb)
    rw [C_false] at this
    omega
  let D : Nat → Nat := fun t => onesBefore ws len (8 * c + t) - onesBefore ws len (8 * c)
  have hD0 : ∀ t, D t = rankSpec ws len (512 * c + 64 * t) - rankSpec ws len (512 * c) := by
    intro t
    show onesBefore ws len (8 * c + t) - onesBefore ws len (8 * c) = _
    rw [ob9, show onesBefore ws len (8 * c) = rankSpec ws len (512 * c) by unfold onesBefore; congr 1; omega]
  have hmono : ∀ t, rankSpec ws len (512 * c) ≤ rankSpec ws len (512 * c + 64 * t) := by
    intro t
    have := C_mono false ws len (show 512 * c ≤ 512 * c + 64 * t by omega)
    rwa [C_false, C_false] at this
  have hDlt : ∀ t, t ≤ P0.nsub - 1 → D t < 2 ^ P0.cw := by
    intro t ht
    have ht' : t ≤ 7 := ht
    rw [hD0]
    have := C_sub_le false ws len (show 512 * c ≤ 512 * c + 64 * t by omega)
    rw [C_false, C_false] at this
    show _ < 2 ^ 9
    omega
  have hDT : ∀ t, 1 ≤ t → t ≤ P0.nsub - 1 → (D t ≤ r - rankSpec ws len (512 * c) ↔ t ≤ T) := by
    intro t _ _
    rw [hD0]
    have h1 := hmono t
    have h3 := C_le_iff hsel (512 * c + 64 * t)
    rw [C_false] at h3
    constructor
    · intro h; have := h3.1 (by omega); omega
    · intro h; have := h3.2 (by omega); omega
  obtain ⟨y, u, hy, hu, hpc, hrel⟩ := uleq_off P0 (smallOK 0) D (r - rankSpec ws len (512 * c)) T hT hrib hDlt hDT
  have hrelT : Small.relOf P0 (packL 9 (laneList 7 D)) T = D T := by
    have := hrel
    show Small.relOf P0 (packL P0.cw (laneList (P0.nsub - 1) D)) T = D T
    rw [this]
    by_cases h0 : T = 0
    · rw [if_pos h0, h0, hD0]; simp
    · rw [if_neg h0]
  have hhp1 : 512 * c + 64 * T ≤ p := by omega
  have hRhp : rankSpec ws len (512 * c + 64 * T) = cnt (polBit false ws) (512 * c + 64 * T) := by
    rw [← C_false, C_eq_cnt false ws len (by omega)]
  unfold finish
  rw [ones9_eq]
  have hy' : mulU 64 (r - rankSpec ws len (512 * c)) (onesStep P0) = .ok y := hy
  rw [hy', Out.bind_ok, rel_read9 ws len c hcn, Out.bind_ok, uleqStep9_eq, r9Rel_eq]
  have hu' : Small.uleqStep P0 (packL 9 (laneList 7 D)) y = .ok u := hu
  rw [hu', Out.bind_ok]
  have hpc' : pc64 u = T := hpc
  rw [hpc']
  dsimp only
  rw [check_ok (by simp; omega), Out.bind_ok, relOf_eq, hrelT, hD0 T]
  have hle : rankSpec ws len (512 * c + 64 * T) - rankSpec ws len (512 * c) ≤ r - rankSpec ws len (512 * c) := by
    have h3 := (C_le_iff hsel (512 * c + 64 * T)).2 hhp1
    rw [C_false] at h3; omega
  rw [subU_ok hle, Out.bind_ok]
  have hword : 8 * c + T = (512 * c + 64 * T) / 64 := by omega
  have hlt : 8 * c + T < ws.size := by omega
  rw [readU_ok_of_lt hlt, Out.bind_ok]
  have := selInWord_correct false ws len r p (512 * c + 64 * T) hsel (by omega) hhp1 (by omega)
  rw [← hRhp, ← hword] at this
  have hm := hmono T
  rw [show r - rankSpec ws len (512 * c) - (rankSpec ws len (512 * c + 64 * T) - rankSpec ws len (512 * c))
      = r - rankSpec ws len (512 * c + 64 * T) by omega]
  have this' : selInWord (ws.getD (8 * c + T) 0) (r - rankSpec ws len (512 * c + 64 * T)) = .ok (p - (512 * c + 64 * T)) := this
  rw [this', Out.bind_ok]
  congr 1; omega

end Sux.RS.Select9
