import SuxModel.RankSel.Rank9.Lemmas
import SuxModel.RankSel.Select9.LemmasSubFrame
/-!
# The spec-level Rank9 view read by the `Select9` model IS what `Rank9::new` builds

`viewOf ws len = r9View (obOf (cumOnes ws len)) len` (the `R9View` the `Select9` layer model is
instantiated with) equals, array for array and word for word, the `absolute` / `relative` columns of
the `counts` array returned by the model of `Rank9::new` (`Rank9.build`).  Consequence: the theorems
about `Select9` hold for `Select9` over the REAL `Rank9` layer.
-/
namespace Sux.RS.Select9
open Sux Sux.RS Sux.RS.Priv Sux.RS.BW

/-- the `R9View` of a built `counts` array -/
def viewOfCounts (counts : Array Rank9.BlockCounters) : R9View :=
  { abs := counts.map (·.absolute), rel := counts.map (·.relative) }

theorem eq_of_slotVal_eq {cw a b : Nat} (hcw : 0 < cw) (h : ∀ t, slotVal cw a t = slotVal cw b t) : a = b := by
  apply Nat.eq_of_testBit_eq
  intro j
  have h1 := testBit_slotVal cw a (j / cw) (j % cw)
  have h2 := testBit_slotVal cw b (j / cw) (j % cw)
  have hj : cw * (j / cw) + j % cw = j := Nat.div_add_mod j cw
  have hm : j % cw < cw := Nat.mod_lt _ hcw
  rw [hj] at h1 h2
  simp only [hm, decide_true, Bool.true_and] at h1 h2
  rw [← h1, ← h2, h]

theorem slotVal_packL (w : Nat) (cs : List Nat) (t : Nat) (h : ∀ c ∈ cs, c < 2 ^ w) :
    slotVal w (packL w cs) t = cs.getD t 0 := by
  unfold slotVal
  rw [← Nat.and_two_pow_sub_one_eq_mod]
  exact packL_lane w cs t h

theorem xor7 : ∀ T, T < 8 → T ^^^ 7 = 7 - T := by decide

/-- a word all of whose 9-bit slots are known is the packed list of the seven fields -/
theorem rel9_of_slots (F : Nat → Nat) (r : Nat) (hF : ∀ s, F s ≤ s * 1 * 64)
    (hs : Slots 9 7 1 8 F 8 r) :
    r = packL 9 ((List.range 7).map (fun i => F (7 - i))) := by
  have hlt : ∀ c ∈ (List.range 7).map (fun i => F (7 - i)), c < 2 ^ 9 := by
    intro c hc
    simp only [List.mem_map, List.mem_range] at hc
    obtain ⟨i, _, rfl⟩ := hc
    have := hF (7 - i)
    omega
  apply eq_of_slotVal_eq (cw := 9) (by decide)
  intro t
  rw [hs t, slotVal_packL 9 _ t hlt, List.getD_eq_getElem?_getD, List.getElem?_map]
  by_cases ht : t < 7
  · rw [List.getElem?_range ht, xor7 t (by omega), if_pos ⟨by omega, by omega, by omega⟩]
    rfl
  · rw [List.getElem?_eq_none (by simp; omega)]
    by_cases h7 : t = 7
    · subst h7
      rw [if_neg (by decide)]
      rfl
    · rw [if_neg (by omega)]
      rfl

/-- one block of `Rank9::new`, with the packed word identified -/
theorem relLoop_block_view (ws : Array Nat) (len : Nat) (hlen : len ≤ 64 * ws.size) (k : Nat) :
    Rank9.relLoop ws len (RankSmall.divCeil len 64) (8 * k) (Rank9.R ws len (8 * k)) 7 1
        (Rank9.R ws len (8 * k + 1)) 0
      = .ok (Rank9.R ws len (8 * (k + 1)), r9Rel (onesBefore ws len) (8 * k)) := by
  have h := relLoop_generic Rank9.packOK9 Rank9.setRel
    (fun r word v hr hv => Rank9.setRel_eq r word v hr hv) ws len hlen (8 * k) (Rank9.R ws len (8 * k)) rfl
    (fun f j n r => Rank9.relLoop ws len (RankSmall.divCeil len 64) (8 * k) (Rank9.R ws len (8 * k)) f j n r)
    (fun j n r => by simp only [Rank9.relLoop])
    (fun f j n r _ => Rank9.relLoop_step ws len (8 * k) (Rank9.R ws len (8 * k)) f j n r)
    7 1 (Rank9.R ws len (8 * k + 1)) 0 (by omega) (by omega)
    ⟨rfl, Nat.two_pow_pos 64, slots_init _ _ _ _ _ (by omega)⟩
  obtain ⟨n', r', he, hn, _, hsl⟩ := h
  rw [he]
  have hn' : n' = Rank9.R ws len (8 * (k + 1)) := by
    rw [hn]
    show rankSpec ws len (64 * (8 * k + (1 + 7))) = rankSpec ws len (64 * (8 * (k + 1)))
    congr 1
  have hr' := rel9_of_slots _ r' (by
    intro s
    have := rankSpec_le_add ws len (p := 64 * (8 * k)) (q := 64 * (8 * k + s * 1)) (by omega)
    show rankSpec ws len (64 * (8 * k + s * 1)) - rankSpec ws len (64 * (8 * k)) ≤ s * 1 * 64
    omega) hsl
  rw [hn', hr']
  unfold r9Rel onesBefore
  congr 3

/-- expected entry `b` of the built array -/
def expC (ws : Array Nat) (len b : Nat) : Rank9.BlockCounters :=
  { absolute := Rank9.R ws len (8 * b), relative := r9Rel (onesBefore ws len) (8 * b) }

theorem blockLoop_view (ws : Array Nat) (len : Nat) (hlen : len ≤ 64 * ws.size) :
    ∀ f b (cs : Array Rank9.BlockCounters),
      b + f ≤ Rank9.numBlocks len → cs.size = b → (∀ k, k < b → cs[k]? = some (expC ws len k)) →
      ∃ cs', Rank9.blockLoop ws len (RankSmall.divCeil len 64) f (8 * b) (Rank9.R ws len (8 * b)) cs
          = .ok (Rank9.R ws len (8 * (b + f)), cs') ∧ cs'.size = b + f ∧
        (∀ k, k < b + f → cs'[k]? = some (expC ws len k)) := by
  intro f
  induction f with
  | zero =>
    intro b cs _ hsz hok
    exact ⟨cs, rfl, hsz, hok⟩
  | succ f ih =>
    intro b cs hbf hsz hok
    have hb : b < RankSmall.divCeil (RankSmall.divCeil len 64) 8 := by
      unfold Rank9.numBlocks at hbf; omega
    have hi : 8 * b < RankSmall.divCeil len 64 := (lt_divCeil (by omega)).mp hb
    obtain ⟨c, hc, _, hcs⟩ := countOnes_spec ws len hlen hi
    unfold Rank9.blockLoop
    rw [rank9_countOnes_eq, hc]
    simp only [Out.bind_ok]
    have e1 : Rank9.R ws len (8 * b) + c = Rank9.R ws len (8 * b + 1) := by
      show _ = rankSpec ws len (64 * (8 * b + 1)); rw [hcs]
    rw [e1, relLoop_block_view ws len hlen b]
    simp only [Out.bind_ok]
    have e3 : 8 * b + Rank9.wordsPerBlock = 8 * (b + 1) := by unfold Rank9.wordsPerBlock; omega
    rw [e3]
    obtain ⟨cs', h1, h2, h3⟩ := ih (b + 1) (cs.push (expC ws len b)) (by omega)
      (by rw [Array.size_push, hsz])
      (by
        intro k hk
        rw [Array.getElem?_push]
        by_cases hkb : k = b
        · rw [if_pos (by omega), hkb]
        · rw [if_neg (by omega)]; exact hok k (by omega))
    have e2 : b + 1 + f = b + (f + 1) := by omega
    rw [e2] at h1 h2 h3
    exact ⟨cs', h1, h2, h3⟩

theorem numBlocks_eq (len : Nat) : Rank9.numBlocks len = (len + 511) / 512 := by
  unfold Rank9.numBlocks RankSmall.divCeil
  split <;> split <;> omega

/-- **the view theorem**: `Rank9::new` succeeds and its `counts` array is, column for column, the
spec-level view the `Select9` model reads (`absolute[b]` = ones before block `b`, `relative[b]` = the
seven packed 9-bit fields, sentinel `(num_ones, 0)`) -/
theorem rank9_build_view (ws : Array Nat) (len : Nat) (hlen : len ≤ 64 * ws.size) :
    ∃ counts, Rank9.build ws len = .ok counts ∧ viewOf ws len = viewOfCounts counts := by
  obtain ⟨cs', h1, h2, h3⟩ := blockLoop_view ws len hlen (Rank9.numBlocks len) 0 #[] (by omega) rfl
    (by intro k hk; omega)
  have hR0 : Rank9.R ws len (8 * 0) = 0 := by
    show rankSpec ws len (64 * (8 * 0)) = 0; rw [rankSpec_zero]
  rw [hR0, Nat.zero_add] at h1
  rw [Nat.zero_add] at h2 h3
  unfold Rank9.build
  rw [rank9_divCeil_eq]
  show ∃ counts, (Rank9.blockLoop ws len (RankSmall.divCeil len 64) (Rank9.numBlocks len) (8 * 0) 0 #[] >>= _) = _ ∧ _
  rw [h1]
  simp only [Out.bind_ok, Out.pure_eq]
  refine ⟨_, rfl, ?_⟩
  have hnb := numBlocks_eq len
  unfold viewOf viewOfCounts
  rw [obOf_cumOnes]
  unfold r9View
  simp only []
  congr 1
  · apply Array.ext
    · simp [h2, hnb]
    · intro i hi1 hi2
      simp only [Array.size_ofFn] at hi1
      rw [Array.getElem_ofFn, Array.getElem_map, Array.getElem_push]
      by_cases hlt : i < cs'.size
      · rw [dif_pos hlt]
        have := h3 i (by omega)
        rw [Array.getElem?_eq_getElem hlt] at this
        rw [Option.some.inj this]
        rfl
      · rw [dif_neg hlt]
        have : i = Rank9.numBlocks len := by omega
        subst this
        rfl
  · apply Array.ext
    · simp [h2, hnb]
    · intro i hi1 hi2
      simp only [Array.size_ofFn] at hi1
      rw [Array.getElem_ofFn, Array.getElem_map, Array.getElem_push]
      dsimp only
      by_cases hlt : i < cs'.size
      · rw [dif_pos hlt]
        have := h3 i (by omega)
        rw [Array.getElem?_eq_getElem hlt] at this
        rw [Option.some.inj this, if_pos (by omega)]
        rfl
      · rw [dif_neg hlt, if_neg (by omega)]

/-- `Select9::new(Rank9::new(bits))` with the counters and `num_ones` taken from the REAL (modelled)
`Rank9` builder: both builders succeed, the invariant holds, and `select` answers the specification -/
theorem select9_over_rank9 (ws : Array Nat) (len : Nat) (hWO : WordsOK 64 ws) (hlen : len ≤ 64 * ws.size)
    (hl64 : len < 2 ^ 64) :
    ∃ counts n1, Rank9.build ws len = .ok counts ∧ Rank9.numOnes counts = .ok n1 ∧ n1 = numOnes ws len ∧
      ∃ s, build ws len n1 (viewOfCounts counts) = .ok s ∧ S9InvOK ws len s ∧
        ∀ r, select ws (viewOfCounts counts) n1 s r = .ok (selectSpec ws len r) := by
  obtain ⟨counts, hb, hv⟩ := rank9_build_view ws len hlen
  obtain ⟨counts', hb', hinv⟩ := Rank9.build_inv ws len hlen
  have hcc : counts' = counts := by rw [hb] at hb'; exact (Out.ok.inj hb').symm
  subst hcc
  obtain ⟨s, hs, hsi⟩ := build_inv ws len hWO hlen hl64
  refine ⟨counts', numOnes ws len, hb, ?_, rfl, s, ?_, hsi, ?_⟩
  · rw [numOnes_eq_rankSpec]; exact Rank9.numOnes_of_inv hinv
  · rw [← hv]; exact hs
  · intro r
    rw [← hv]
    obtain ⟨h1, h2⟩ := select9_correct ws len hlen hl64 s hsi r
    by_cases hr : r < numOnes ws len
    · obtain ⟨p, hp, hsel⟩ := h1 hr
      rw [hp, (selectSpec_eq_some_iff ws len r p).2 hsel]
    · rw [h2 (by omega), (selectSpec_eq_none_iff ws len r).2 (by omega)]

end Sux.RS.Select9
