import SuxModel.RankSel.Select9.LemmasQuery
/-!
# (Q) for `Select9`: `select_unchecked` returns the position of the one of rank `r`
-/
namespace Sux.RS.Select9
open Sux Sux.RS Sux.RS.Priv Sux.RS.BW Sux.RS.Small

theorem rank_lt_of_pos_lt {ws : Array Nat} {len r p q : Nat} (hsel : IsSel (polBit false ws) len r p)
    (h : p < q) : r < rankSpec ws len q := by
  have := (C_le_iff hsel q)
  rw [C_false] at this
  apply Nat.lt_of_not_le; intro hle
  have := this.1 hle; omega

theorem rank_le_of_le_pos {ws : Array Nat} {len r p q : Nat} (hsel : IsSel (polBit false ws) len r p)
    (h : q ≤ p) : rankSpec ws len q ≤ r := by
  have := (C_le_iff hsel q).2 h
  rwa [C_false] at this

/-- span classes `0..=1`: the one lies in the Rank9 block of the inventory entry -/
theorem case_small (ws : Array Nat) (len : Nat) (hlen : len ≤ 64 * ws.size) (r p L : Nat)
    (hsel : IsSel (polBit false ws) len r p) (hL64 : L / 64 < 2 ^ 64) (hLp : p / 512 = L / 512) :
    ((Out.readU (r9View (onesBefore ws len) len).abs (andNot (L / 64) 7 / 8 + 1)) >>= fun nxt =>
      (check (decide (r < nxt))) >>= fun _ =>
      (Out.readU (r9View (onesBefore ws len) len).abs (andNot (L / 64) 7 / 8)) >>= fun a =>
      (subU r a) >>= fun rankInBlock =>
        finish ws (r9View (onesBefore ws len) len) (andNot (L / 64) 7) (andNot (L / 64) 7 / 8) rankInBlock)
      = .ok p := by
  have hp := hsel.1
  have hbl : andNot (L / 64) 7 = 8 * (p / 512) := by rw [andNot_7 hL64]; omega
  have hcl : 8 * (p / 512) / 8 = p / 512 := by omega
  rw [hbl, hcl, abs_read9 ws len _ (by omega), Out.bind_ok,
    check_ok (by simp; exact rank_lt_of_pos_lt hsel (by omega)), Out.bind_ok,
    abs_read9 ws len _ (by omega), Out.bind_ok, subU_ok (rank_le_of_le_pos hsel (by omega)), Out.bind_ok]
  exact finish_correct ws len hlen r p (p / 512) hsel (by omega) (by omega)

theorem mulU16_ok {ris : Nat} (h : ris < 2 ^ 16) : mulU 64 ris ONES_STEP_16 = .ok (ris * ONES_STEP_16) := by
  unfold mulU
  have : ris * ONES_STEP_16 < 2 ^ 64 := by
    rw [ones16_eq, mul_packL_ones]
    have := packL_lt 16 (List.replicate 4 ris) (by
      intro c hc; rw [List.mem_replicate] at hc; rw [hc.2]; exact h)
    simpa using this
  rw [if_pos this]

/-- rank inside the "superblock" that starts at the Rank9 block of the inventory entry -/
theorem ris_lt {ws : Array Nat} {len r p L : Nat} (hsel : IsSel (polBit false ws) len r p)
    (hL : IsSel (polBit false ws) len (r / 512 * 512) L) :
    rankSpec ws len (512 * (L / 512)) ≤ r ∧ r - rankSpec ws len (512 * (L / 512)) < 1024 := by
  have hLp : L ≤ p := hL.at.le_of_le hsel.at (by omega)
  have h1 := rank_le_of_le_pos hsel (show 512 * (L / 512) ≤ p by omega)
  have h2 := C_sub_le false ws len (show 512 * (L / 512) ≤ L by omega)
  rw [C_false, C_false] at h2
  have h3 : rankSpec ws len L = r / 512 * 512 := by rw [← C_false]; exact C_at hL
  refine ⟨h1, ?_⟩
  omega

/-- span classes `2..=15` -/
theorem case_mid (ws : Array Nat) (len : Nat) (hlen : len ≤ 64 * ws.size) (sub : Array Nat) (r p L Rt : Nat)
    (hsel : IsSel (polBit false ws) len r p) (hL : IsSel (polBit false ws) len (r / 512 * 512) L)
    (hL64 : L / 64 < 2 ^ 64) (hpR : p < Rt)
    (hs1 : 2 ≤ Rt / 256 - L / 256) (hs2 : Rt / 256 - L / 256 ≤ 15)
    (hsz : L / 256 + 2 ≤ sub.size) (hw : ∀ j, sub.getD j 0 < 2 ^ 64)
    (hv : ∀ k, k < 8 → getSub 16 sub (L / 256) k =
      if k < Rt / 512 - L / 512 then
        rankSpec ws len (512 * (L / 512 + k + 1)) - rankSpec ws len (512 * (L / 512))
      else 0xFFFF) :
    ((Out.readU (r9View (onesBefore ws len) len).abs (andNot (L / 64) 7 / 8)) >>= fun a =>
      (subU r a) >>= fun rankInSuper =>
      (mulU 64 rankInSuper ONES_STEP_16) >>= fun step16 =>
      (Out.readU sub (L / 64 / 4)) >>= fun first =>
      (Out.readU sub (L / 64 / 4 + 1)) >>= fun second =>
      (where16 first second step16) >>= fun wh =>
      (check (decide (wh ≤ 16))) >>= fun _ =>
      (Out.readU (r9View (onesBefore ws len) len).abs (andNot (L / 64) 7 / 8 + wh / 2)) >>= fun a' =>
      (subU r a') >>= fun rankInBlock =>
      (check (decide (rankInBlock < 512))) >>= fun _ =>
        finish ws (r9View (onesBefore ws len) len) (andNot (L / 64) 7 + wh * 4) (andNot (L / 64) 7 / 8 + wh / 2)
          rankInBlock) = .ok p := by
  have hp := hsel.1
  have hLp : L ≤ p := hL.at.le_of_le hsel.at (by omega)
  obtain ⟨hr1, hr2⟩ := ris_lt hsel hL
  have hbl : andNot (L / 64) 7 = 8 * (L / 512) := by rw [andNot_7 hL64]; omega
  have hcl : 8 * (L / 512) / 8 = L / 512 := by omega
  have hsp : L / 64 / 4 = L / 256 := by omega
  have hd8 : p / 512 - L / 512 ≤ 8 := by omega
  have hvv : ∀ k, k < 8 → (getSub 16 sub (L / 256) k ≤ r - rankSpec ws len (512 * (L / 512)) ↔ k < p / 512 - L / 512) := by
    intro k hk
    rw [hv k hk]
    by_cases hkb : k < Rt / 512 - L / 512
    · rw [if_pos hkb]
      have h3 := C_le_iff hsel (512 * (L / 512 + k + 1))
      rw [C_false] at h3
      have hm := C_mono false ws len (show 512 * (L / 512) ≤ 512 * (L / 512 + k + 1) by omega)
      rw [C_false, C_false] at hm
      constructor
      · intro h; have := h3.1 (by omega); omega
      · intro h; have := h3.2 (by omega); omega
    · rw [if_neg hkb]
      constructor
      · intro h; omega
      · intro h; omega
  have hwh := where16_correct sub (L / 256) (r - rankSpec ws len (512 * (L / 512))) (p / 512 - L / 512) hw
    (by omega) hd8 hvv
  rw [hbl, hcl, hsp, abs_read9 ws len _ (by omega), Out.bind_ok, subU_ok hr1, Out.bind_ok,
    mulU16_ok (by omega), Out.bind_ok, readU_ok_of_lt (by omega), Out.bind_ok, readU_ok_of_lt (by omega),
    Out.bind_ok, hwh, Out.bind_ok, check_ok (by simp; omega), Out.bind_ok]
  have e1 : L / 512 + (p / 512 - L / 512) * 2 / 2 = p / 512 := by omega
  have e2 : 8 * (L / 512) + (p / 512 - L / 512) * 2 * 4 = 8 * (p / 512) := by omega
  rw [e1, e2, abs_read9 ws len _ (by omega), Out.bind_ok, subU_ok (rank_le_of_le_pos hsel (by omega)), Out.bind_ok]
  have hrib : r - rankSpec ws len (512 * (p / 512)) < 512 := by
    have := pos_add_le hsel (q := 512 * (p / 512)) (by rw [C_false]; exact rank_le_of_le_pos hsel (by omega))
    rw [C_false] at this; omega
  rw [check_ok (by simp; exact hrib), Out.bind_ok]
  exact finish_correct ws len hlen r p (p / 512) hsel (by omega) (by omega)

theorem getSub16_shift (a : Array Nat) (base m k : Nat) :
    getSub 16 a (base + m) k = getSub 16 a base (4 * m + k) := by
  rw [getSub16_lane, getSub16_lane]
  have h1 : (4 * m + k) / 4 = m + k / 4 := by omega
  have h2 : (4 * m + k) % 4 = k % 4 := by omega
  rw [h1, h2, Nat.add_assoc]

/-- span classes `16..=127` (two-level search) -/
theorem case_mid2 (ws : Array Nat) (len : Nat) (hlen : len ≤ 64 * ws.size) (sub : Array Nat) (r p L Rt : Nat)
    (hsel : IsSel (polBit false ws) len r p) (hL : IsSel (polBit false ws) len (r / 512 * 512) L)
    (hL64 : L / 64 < 2 ^ 64) (hpR : p < Rt)
    (hs1 : 16 ≤ Rt / 256 - L / 256) (hs2 : Rt / 256 - L / 256 ≤ 127)
    (hsz : Rt / 256 ≤ sub.size) (hw : ∀ j, sub.getD j 0 < 2 ^ 64)
    (hv0 : ∀ k, k < 8 → getSub 16 sub (L / 256) k =
      if k < (Rt / 512 - L / 512) / 8 then
        rankSpec ws len (512 * (L / 512 + (k + 1) * 8)) - rankSpec ws len (512 * (L / 512))
      else 0xFFFF)
    (hv1 : ∀ k, k < ((Rt / 512 - L / 512) / 8 + 1) * 8 → getSub 16 sub (L / 256) (8 + k) =
      if k < Rt / 512 - L / 512 then
        rankSpec ws len (512 * (L / 512 + k + 1)) - rankSpec ws len (512 * (L / 512))
      else 0xFFFF) :
    ((Out.readU (r9View (onesBefore ws len) len).abs (andNot (L / 64) 7 / 8)) >>= fun a =>
      (subU r a) >>= fun rankInSuper =>
      (mulU 64 rankInSuper ONES_STEP_16) >>= fun step16 =>
      (Out.readU sub (L / 64 / 4)) >>= fun first =>
      (Out.readU sub (L / 64 / 4 + 1)) >>= fun second =>
      (where16 first second step16) >>= fun wh0 =>
      (check (decide (wh0 ≤ 16))) >>= fun _ =>
      (Out.readU sub (L / 64 / 4 + wh0 + 2)) >>= fun firstBis =>
      (Out.readU sub (L / 64 / 4 + wh0 + 2 + 1)) >>= fun secondBis =>
      (where16 firstBis secondBis step16) >>= fun wh1' =>
      (Out.readU (r9View (onesBefore ws len) len).abs (andNot (L / 64) 7 / 8 + (wh0 * 8 + wh1') / 2)) >>= fun a' =>
      (subU r a') >>= fun rankInBlock =>
      (check (decide (rankInBlock < 512))) >>= fun _ =>
        finish ws (r9View (onesBefore ws len) len) (andNot (L / 64) 7 + (wh0 * 8 + wh1') * 4)
          (andNot (L / 64) 7 / 8 + (wh0 * 8 + wh1') / 2) rankInBlock) = .ok p := by
  have hp := hsel.1
  have hLp : L ≤ p := hL.at.le_of_le hsel.at (by omega)
  obtain ⟨hr1, hr2⟩ := ris_lt hsel hL
  have hbl : andNot (L / 64) 7 = 8 * (L / 512) := by rw [andNot_7 hL64]; omega
  have hcl : 8 * (L / 512) / 8 = L / 512 := by omega
  have hsp : L / 64 / 4 = L / 256 := by omega
  have hd : p / 512 - L / 512 ≤ Rt / 512 - L / 512 := by omega
  have hbs : Rt / 512 - L / 512 ≤ 64 := by omega
  -- first level
  have hvv0 : ∀ k, k < 8 → (getSub 16 sub (L / 256) k ≤ r - rankSpec ws len (512 * (L / 512))
      ↔ k < (p / 512 - L / 512) / 8) := by
    intro k hk
    rw [hv0 k hk]
    by_cases hkb : k < (Rt / 512 - L / 512) / 8
    · rw [if_pos hkb]
      have h3 := C_le_iff hsel (512 * (L / 512 + (k + 1) * 8))
      rw [C_false] at h3
      have hm := C_mono false ws len (show 512 * (L / 512) ≤ 512 * (L / 512 + (k + 1) * 8) by omega)
      rw [C_false, C_false] at hm
      constructor
      · intro h; have := h3.1 (by omega); omega
      · intro h; have := h3.2 (by omega); omega
    · rw [if_neg hkb]
      constructor
      · intro h; omega
      · intro h; omega
  have hwh0 := where16_correct sub (L / 256) (r - rankSpec ws len (512 * (L / 512)))
    ((p / 512 - L / 512) / 8) hw (by omega) (by omega) hvv0
  -- second level
  have hvv1 : ∀ k, k < 8 → (getSub 16 sub (L / 256 + (p / 512 - L / 512) / 8 * 2 + 2) k
      ≤ r - rankSpec ws len (512 * (L / 512)) ↔ k < (p / 512 - L / 512) % 8) := by
    intro k hk
    rw [Nat.add_assoc, getSub16_shift,
      show 4 * ((p / 512 - L / 512) / 8 * 2 + 2) + k = 8 + ((p / 512 - L / 512) / 8 * 8 + k) by omega,
      hv1 _ (by omega)]
    by_cases hkb : (p / 512 - L / 512) / 8 * 8 + k < Rt / 512 - L / 512
    · rw [if_pos hkb]
      have h3 := C_le_iff hsel (512 * (L / 512 + ((p / 512 - L / 512) / 8 * 8 + k) + 1))
      rw [C_false] at h3
      have hm := C_mono false ws len
        (show 512 * (L / 512) ≤ 512 * (L / 512 + ((p / 512 - L / 512) / 8 * 8 + k) + 1) by omega)
      rw [C_false, C_false] at hm
      constructor
      · intro h; have := h3.1 (by omega); omega
      · intro h; have := h3.2 (by omega); omega
    · rw [if_neg hkb]
      constructor
      · intro h; omega
      · intro h; omega
  have hwh1 := where16_correct sub (L / 256 + (p / 512 - L / 512) / 8 * 2 + 2)
    (r - rankSpec ws len (512 * (L / 512))) ((p / 512 - L / 512) % 8) hw (by omega) (by omega) hvv1
  rw [hbl, hcl, hsp, abs_read9 ws len _ (by omega), Out.bind_ok, subU_ok hr1, Out.bind_ok,
    mulU16_ok (by omega), Out.bind_ok, readU_ok_of_lt (by omega), Out.bind_ok, readU_ok_of_lt (by omega),
    Out.bind_ok, hwh0, Out.bind_ok, check_ok (by simp; omega), Out.bind_ok,
    readU_ok_of_lt (by omega), Out.bind_ok, readU_ok_of_lt (by omega), Out.bind_ok, hwh1, Out.bind_ok]
  have e1 : L / 512 + ((p / 512 - L / 512) / 8 * 2 * 8 + (p / 512 - L / 512) % 8 * 2) / 2 = p / 512 := by omega
  have e2 : 8 * (L / 512) + ((p / 512 - L / 512) / 8 * 2 * 8 + (p / 512 - L / 512) % 8 * 2) * 4
      = 8 * (p / 512) := by omega
  rw [e1, e2, abs_read9 ws len _ (by omega), Out.bind_ok, subU_ok (rank_le_of_le_pos hsel (by omega)), Out.bind_ok]
  have hrib : r - rankSpec ws len (512 * (p / 512)) < 512 := by
    have := pos_add_le hsel (q := 512 * (p / 512)) (by rw [C_false]; exact rank_le_of_le_pos hsel (by omega))
    rw [C_false] at this; omega
  rw [check_ok (by simp; exact hrib), Out.bind_ok]
  exact finish_correct ws len hlen r p (p / 512) hsel (by omega) (by omega)

end Sux.RS.Select9

namespace Sux.RS.Select9
open Sux Sux.RS Sux.RS.Priv Sux.RS.BW Sux.RS.Small

theorem bigIdx_lt (sp j : Nat) (h : j < 512) : bigIdx sp j < sp + 512 := by
  unfold bigIdx; omega

/-- (Q) `Select9::select_unchecked` from `S9InvOK` -/
theorem selectUnchecked_correct (ws : Array Nat) (len : Nat) (hlen : len ≤ 64 * ws.size) (hl64 : len < 2 ^ 64)
    (s : S9) (hinv : S9InvOK ws len s) (r p : Nat) (hsel : IsSel (polBit false ws) len r p) :
    selectUnchecked ws (r9View (onesBefore ws len) len) s r = .ok p := by
  have hp := hsel.1
  obtain ⟨hi, hL, hLp, hpR, hRZ, hsmall⟩ := entries hinv hsel
  have hshift : r >>> 9 = r / 512 := by rw [Nat.shiftRight_eq_div_pow]
  have hL64 : s.inv.getD (r / 512) 0 / 64 < 2 ^ 64 := by omega
  have hG : sentinelOf len / 256 = ((len + 63) / 64 + 3) / 4 := by unfold sentinelOf; omega
  have hsub := hinv.subSize
  have hRG : s.inv.getD (r / 512 + 1) 0 / 256 ≤ s.sub.size := by
    rw [hsub, ← hG]; exact Nat.div_le_div_right hRZ
  have hj : r % 512 < 512 := Nat.mod_lt _ (by decide)
  have hrj : r / 512 * 512 + r % 512 = r := by omega
  unfold selectUnchecked
  rw [hshift]
  dsimp only
  rw [check_ok (by simp; omega), Out.bind_ok,
    readU_ok_of_lt (by rw [hinv.invSize]; omega), Out.bind_ok,
    readU_ok_of_lt (by rw [hinv.invSize]; omega), Out.bind_ok,
    show s.inv.getD (r / 512 + 1) 0 / 64 / 4 = s.inv.getD (r / 512 + 1) 0 / 256 by omega,
    show s.inv.getD (r / 512) 0 / 64 / 4 = s.inv.getD (r / 512) 0 / 256 by omega,
    subU_ok (by omega), Out.bind_ok]
  by_cases h1 : s.inv.getD (r / 512 + 1) 0 / 256 - s.inv.getD (r / 512) 0 / 256 ≤ 1
  · rw [if_pos h1]
    exact case_small ws len hlen r p _ hsel hL64 (by have := hsmall h1; omega)
  rw [if_neg h1]
  by_cases h15 : s.inv.getD (r / 512 + 1) 0 / 256 - s.inv.getD (r / 512) 0 / 256 ≤ 15
  · rw [if_pos h15]
    have := case_mid ws len hlen s.sub r p _ _ hsel hL hL64 hpR (by omega) h15 (by omega) hinv.subWords
      (hinv.span15 _ hi (by omega) h15)
    rw [show s.inv.getD (r / 512) 0 / 64 / 4 = s.inv.getD (r / 512) 0 / 256 by omega] at this
    exact this
  rw [if_neg h15]
  by_cases h127 : s.inv.getD (r / 512 + 1) 0 / 256 - s.inv.getD (r / 512) 0 / 256 ≤ 127
  · rw [if_pos h127]
    have := case_mid2 ws len hlen s.sub r p _ _ hsel hL hL64 hpR (by omega) h127 hRG hinv.subWords
      (hinv.span127a _ hi (by omega) h127) (hinv.span127b _ hi (by omega) h127)
    rw [show s.inv.getD (r / 512) 0 / 64 / 4 = s.inv.getD (r / 512) 0 / 256 by omega] at this
    exact this
  rw [if_neg h127]
  by_cases h255 : s.inv.getD (r / 512 + 1) 0 / 256 - s.inv.getD (r / 512) 0 / 256 ≤ 255
  · rw [if_pos h255, if_pos (by rw [hinv.sszEq, ← hsub]; omega)]
    have := hinv.span255 _ hi (by omega) h255 (r % 512) p hj (by rw [hrj]; exact hsel)
    rw [this]; congr 1; omega
  rw [if_neg h255]
  by_cases h511 : s.inv.getD (r / 512 + 1) 0 / 256 - s.inv.getD (r / 512) 0 / 256 ≤ 511
  · rw [if_pos h511, if_pos (by rw [hinv.sszEq, ← hsub]; omega)]
    have := hinv.span511 _ hi (by omega) h511 (r % 512) p hj (by rw [hrj]; exact hsel)
    rw [this]; congr 1; omega
  rw [if_neg h511]
  have hb := bigIdx_lt (s.inv.getD (r / 512) 0 / 256) (r % 512) hj
  rw [readU_ok_of_lt (by omega)]
  have := hinv.spanBig _ hi (by omega) (r % 512) p hj (by rw [hrj]; exact hsel)
  rw [this]

end Sux.RS.Select9
