import SuxModel.RankSel.Select9.LemmasSubLanes
/-!
# (B), second phase of `Select9::new`, span classes `2..=15` and `16..=127`:
the `u16` counter fills derived from the Rank9 block counters
-/
namespace Sux.RS.Select9
open Sux Sux.RS Sux.RS.Priv Sux.RS.Small

theorem laneW16 : LaneW 16 := Or.inl rfl
theorem laneW32 : LaneW 32 := Or.inr rfl

/-- one `fill16` run over the lanes `[k, k + n)`, all inside the slice and all still zero -/
theorem fill16_spec (base lim : Nat) (safe : Bool) (v : Nat → Out Nat) (x : Nat → Nat) :
    ∀ (n k : Nat) (sub : Array Nat),
      k + n ≤ lim →
      (∀ k', k ≤ k' → k' < k + n → v k' = .ok (x k')) →
      (∀ k', k ≤ k' → k' < k + n → getSub 16 sub base k' = 0) →
      (∀ j, sub.getD j 0 < 2 ^ 64) →
      base * 4 + lim ≤ sub.size * 4 →
      ∃ sub', fill16 base lim safe v n k sub = .ok sub' ∧ sub'.size = sub.size ∧
        (∀ j, sub'.getD j 0 < 2 ^ 64) ∧
        (∀ k', k ≤ k' → k' < k + n → getSub 16 sub' base k' = x k' % 2 ^ 16) ∧
        (∀ k', (k' < k ∨ k + n ≤ k') → getSub 16 sub' base k' = getSub 16 sub base k') ∧
        (∀ j, (j < base ∨ base * 4 + lim ≤ j * 4) → sub'.getD j 0 = sub.getD j 0)
  | 0, k, sub, _, _, _, hw, _ => by
    refine ⟨sub, rfl, rfl, hw, ?_, fun _ _ => rfl, fun _ _ => rfl⟩
    intro k' h1 h2; omega
  | n + 1, k, sub, hlim, hv, hz, hw, hsz => by
    unfold fill16
    rw [if_pos (by omega), check_ok (by rw [hz k (Nat.le_refl _) (by omega)]; rfl), Out.bind_ok,
      hv k (Nat.le_refl _) (by omega), Out.bind_ok]
    obtain ⟨sub', h1, h2, h3, h4, h5, h6⟩ := fill16_spec base lim safe v x n (k + 1)
      (setSub 16 sub base k (x k)) (by omega)
      (fun k' a b => hv k' (by omega) (by omega))
      (fun k' a b => by
        rw [getSub_setSub_ne laneW16 _ _ _ _ _ hw (by omega)]
        exact hz k' (by omega) (by omega))
      (setSub_words laneW16 _ _ _ _ hw)
      (by rw [size_setSub]; exact hsz)
    refine ⟨sub', h1, by rw [h2, size_setSub], h3, ?_, ?_, ?_⟩
    · intro k' a b
      by_cases hk : k' = k
      · subst hk
        rw [h5 k' (by omega)]
        exact getSub_setSub_same laneW16 _ _ _ _ hw (by omega)
      · exact h4 k' (by omega) (by omega)
    · intro k' hk
      rw [h5 k' (by omega)]
      exact getSub_setSub_ne laneW16 _ _ _ _ _ hw (by omega)
    · intro j hj
      rw [h6 j hj]
      exact getD_setSub_of_ne _ _ _ _ _ _ (by omega)

theorem rs_mono (ws : Array Nat) (len : Nat) {p q : Nat} (h : p ≤ q) :
    rankSpec ws len p ≤ rankSpec ws len q := by
  have := C_mono false ws len h
  rwa [C_false, C_false] at this

theorem rs_le_add (ws : Array Nat) (len : Nat) {p q : Nat} (h : p ≤ q) :
    rankSpec ws len q ≤ rankSpec ws len p + (q - p) := by
  have := C_sub_le false ws len h
  rw [C_false, C_false] at this
  omega

/-- the counter closure of the builder -/
theorem cntAt_ok (ws : Array Nat) (len c j : Nat) (hcj : c ≤ j) (hj : j ≤ (len + 511) / 512) :
    ((Out.readS (viewOf ws len).abs j) >>= fun a =>
      (subU a (rankSpec ws len (512 * c))) >>= fun d => Out.ok (d % 2 ^ 16))
      = .ok ((rankSpec ws len (512 * j) - rankSpec ws len (512 * c)) % 2 ^ 16) := by
  rw [abs_readS9 ws len j hj, Out.bind_ok,
    subU_ok (rs_mono ws len (by omega)), Out.bind_ok]

theorem counter_lt (ws : Array Nat) (len c j : Nat) (hcj : c ≤ j) (hd : j - c ≤ 64) :
    (rankSpec ws len (512 * j) - rankSpec ws len (512 * c)) % 2 ^ 16
      = rankSpec ws len (512 * j) - rankSpec ws len (512 * c) := by
  apply Nat.mod_eq_of_lt
  have := rs_le_add ws len (show 512 * c ≤ 512 * j by omega)
  omega

/-- what one subinventory step needs about the state before it -/
structure StepPre (len L Rt : Nat) (sub : Array Nat) : Prop where
  hLR : L ≤ Rt
  hRs : Rt ≤ sentinelOf len
  hsz : sub.size = ((len + 63) / 64 + 3) / 4
  hw : ∀ j, sub.getD j 0 < 2 ^ 64
  hzero : ∀ j, L / 256 ≤ j → sub.getD j 0 = 0
  hl64 : len < 2 ^ 64

/-- what one subinventory step establishes -/
structure StepPost (ws : Array Nat) (len i L Rt : Nat) (sub sub' : Array Nat) : Prop where
  size : sub'.size = sub.size
  words : ∀ j, sub'.getD j 0 < 2 ^ 64
  frame : ∀ j, (j < L / 256 ∨ Rt / 256 ≤ j) → sub'.getD j 0 = sub.getD j 0
  entry : EntryOK ws len i L Rt sub'

theorem subBody_mid (ws : Array Nat) (len i L Rt numWords : Nat) (sub : Array Nat)
    (hpre : StepPre len L Rt sub)
    (hs1 : 2 ≤ Rt / 256 - L / 256) (hs2 : Rt / 256 - L / 256 ≤ 15) :
    ∃ sub', subBody ws (viewOf ws len) numWords sub L Rt = .ok sub' ∧ StepPost ws len i L Rt sub sub' := by
  obtain ⟨hLR, hRs, hsz, hw, hzero, hl64⟩ := hpre
  unfold sentinelOf at hRs
  have e1 : L / 64 / 4 = L / 256 := by omega
  have e2 : Rt / 64 / 4 = Rt / 256 := by omega
  have e3 : L / 64 / 8 = L / 512 := by omega
  have e4 : Rt / 64 / 8 = Rt / 512 := by omega
  unfold subBody
  simp only [e1, e2, e3, e4]
  rw [subU_ok (by omega), Out.bind_ok, subU_ok (by omega), Out.bind_ok,
    abs_readS9 ws len _ (by omega), Out.bind_ok, check_ok (by simp; omega), Out.bind_ok]
  have hpad : andNot (Rt / 512 - L / 512 + 8) 7 = (Rt / 512 - L / 512 + 8) / 8 * 8 := andNot_7 (by omega)
  rw [if_neg (by omega), if_pos hs2, hpad, check_ok (by simp; omega), Out.bind_ok]
  obtain ⟨s1, f1, z1, w1, v1, o1, r1⟩ := fill16_spec (L / 256) (4 * (Rt / 256 - L / 256)) false
    (fun k => (Out.readS (viewOf ws len).abs (L / 512 + k + 1)) >>= fun a =>
      (subU a (rankSpec ws len (512 * (L / 512)))) >>= fun d => Out.ok (d % 2 ^ 16))
    (fun k => rankSpec ws len (512 * (L / 512 + k + 1)) - rankSpec ws len (512 * (L / 512)))
    (Rt / 512 - L / 512) 0 sub (by omega)
    (fun k' _ hk => by
      show (Out.readS (viewOf ws len).abs (L / 512 + k' + 1) >>= _) = _
      rw [cntAt_ok ws len (L / 512) (L / 512 + k' + 1) (by omega) (by omega),
        counter_lt ws len _ _ (by omega) (by omega)])
    (fun k' _ _ => getSub_zero _ _ _ _ (hzero _ (by omega))) hw (by omega)
  rw [f1, Out.bind_ok]
  obtain ⟨s2, f2, z2, w2, v2, o2, r2⟩ := fill16_spec (L / 256) (4 * (Rt / 256 - L / 256)) false
    (fun _ => Out.ok 65535) (fun _ => 65535)
    ((Rt / 512 - L / 512 + 8) / 8 * 8 - (Rt / 512 - L / 512)) (Rt / 512 - L / 512) s1 (by omega)
    (fun _ _ _ => rfl)
    (fun k' _ _ => by
      rw [o1 k' (by omega)]
      exact getSub_zero _ _ _ _ (hzero _ (by omega))) w1 (by omega)
  refine ⟨s2, f2, by rw [z2, z1], w2, ?_, ?_⟩
  · intro j hj
    rw [r2 j (by omega), r1 j (by omega)]
  · constructor
    · intro _ _ k hk
      by_cases hkb : k < Rt / 512 - L / 512
      · rw [if_pos hkb, o2 k (by omega), v1 k (by omega) (by omega)]
        exact counter_lt ws len _ _ (by omega) (by omega)
      · rw [if_neg hkb, v2 k (by omega) (by omega)]
    · intro h; omega
    · intro h; omega
    · intro h; omega
    · intro h; omega
    · intro h; omega

theorem subBody_small (ws : Array Nat) (len i L Rt numWords : Nat) (sub : Array Nat)
    (hpre : StepPre len L Rt sub) (hs2 : Rt / 256 - L / 256 ≤ 1) :
    ∃ sub', subBody ws (viewOf ws len) numWords sub L Rt = .ok sub' ∧ StepPost ws len i L Rt sub sub' := by
  obtain ⟨hLR, hRs, hsz, hw, hzero, hl64⟩ := hpre
  unfold sentinelOf at hRs
  have e1 : L / 64 / 4 = L / 256 := by omega
  have e2 : Rt / 64 / 4 = Rt / 256 := by omega
  have e3 : L / 64 / 8 = L / 512 := by omega
  have e4 : Rt / 64 / 8 = Rt / 512 := by omega
  unfold subBody
  simp only [e1, e2, e3, e4]
  rw [subU_ok (by omega), Out.bind_ok, subU_ok (by omega), Out.bind_ok,
    abs_readS9 ws len _ (by omega), Out.bind_ok, check_ok (by simp; omega), Out.bind_ok, if_pos hs2]
  refine ⟨sub, rfl, rfl, hw, fun _ _ => rfl, ?_⟩
  constructor <;> (intro h; omega)

theorem subBody_mid2 (ws : Array Nat) (len i L Rt numWords : Nat) (sub : Array Nat)
    (hpre : StepPre len L Rt sub)
    (hs1 : 16 ≤ Rt / 256 - L / 256) (hs2 : Rt / 256 - L / 256 ≤ 127) :
    ∃ sub', subBody ws (viewOf ws len) numWords sub L Rt = .ok sub' ∧ StepPost ws len i L Rt sub sub' := by
  obtain ⟨hLR, hRs, hsz, hw, hzero, hl64⟩ := hpre
  unfold sentinelOf at hRs
  have e1 : L / 64 / 4 = L / 256 := by omega
  have e2 : Rt / 64 / 4 = Rt / 256 := by omega
  have e3 : L / 64 / 8 = L / 512 := by omega
  have e4 : Rt / 64 / 8 = Rt / 512 := by omega
  unfold subBody
  simp only [e1, e2, e3, e4]
  rw [subU_ok (by omega), Out.bind_ok, subU_ok (by omega), Out.bind_ok,
    abs_readS9 ws len _ (by omega), Out.bind_ok, check_ok (by simp; omega), Out.bind_ok]
  have hpad : andNot (Rt / 512 - L / 512 + 8) 7 = (Rt / 512 - L / 512 + 8) / 8 * 8 := andNot_7 (by omega)
  rw [if_neg (by omega), if_neg (by omega), if_pos hs2, hpad, check_ok (by simp; omega), Out.bind_ok,
    check_ok (by simp; omega), Out.bind_ok]
  obtain ⟨s1, f1, z1, w1, v1, o1, r1⟩ := fill16_spec (L / 256) (4 * (Rt / 256 - L / 256)) true
    (fun k => (Out.readS (viewOf ws len).abs (L / 512 + (k - 8) + 1)) >>= fun a =>
      (subU a (rankSpec ws len (512 * (L / 512)))) >>= fun d => Out.ok (d % 2 ^ 16))
    (fun k => rankSpec ws len (512 * (L / 512 + (k - 8) + 1)) - rankSpec ws len (512 * (L / 512)))
    (Rt / 512 - L / 512) 8 sub (by omega)
    (fun k' _ hk => by
      show (Out.readS (viewOf ws len).abs (L / 512 + (k' - 8) + 1) >>= _) = _
      rw [cntAt_ok ws len (L / 512) (L / 512 + (k' - 8) + 1) (by omega) (by omega),
        counter_lt ws len _ _ (by omega) (by omega)])
    (fun k' _ _ => getSub_zero _ _ _ _ (hzero _ (by omega))) hw (by omega)
  rw [f1, Out.bind_ok]
  obtain ⟨s2, f2, z2, w2, v2, o2, r2⟩ := fill16_spec (L / 256) (4 * (Rt / 256 - L / 256)) true
    (fun _ => Out.ok 65535) (fun _ => 65535)
    ((Rt / 512 - L / 512 + 8) / 8 * 8 - (Rt / 512 - L / 512)) (Rt / 512 - L / 512 + 8) s1 (by omega)
    (fun _ _ _ => rfl)
    (fun k' _ _ => by
      rw [o1 k' (by omega)]
      exact getSub_zero _ _ _ _ (hzero _ (by omega))) w1 (by omega)
  rw [f2, Out.bind_ok]
  obtain ⟨s3, f3, z3, w3, v3, o3, r3⟩ := fill16_spec (L / 256) (4 * (Rt / 256 - L / 256)) false
    (fun k => (Out.readS (viewOf ws len).abs (L / 512 + (k + 1) * 8)) >>= fun a =>
      (subU a (rankSpec ws len (512 * (L / 512)))) >>= fun d => Out.ok (d % 2 ^ 16))
    (fun k => rankSpec ws len (512 * (L / 512 + (k + 1) * 8)) - rankSpec ws len (512 * (L / 512)))
    ((Rt / 512 - L / 512) / 8) 0 s2 (by omega)
    (fun k' _ hk => by
      show (Out.readS (viewOf ws len).abs (L / 512 + (k' + 1) * 8) >>= _) = _
      rw [cntAt_ok ws len (L / 512) (L / 512 + (k' + 1) * 8) (by omega) (by omega),
        counter_lt ws len _ _ (by omega) (by omega)])
    (fun k' _ _ => by
      rw [o2 k' (by omega), o1 k' (by omega)]
      exact getSub_zero _ _ _ _ (hzero _ (by omega))) w2 (by omega)
  rw [f3, Out.bind_ok]
  obtain ⟨s4, f4, z4, w4, v4, o4, r4⟩ := fill16_spec (L / 256) (4 * (Rt / 256 - L / 256)) false
    (fun _ => Out.ok 65535) (fun _ => 65535)
    (8 - (Rt / 512 - L / 512) / 8) ((Rt / 512 - L / 512) / 8) s3 (by omega)
    (fun _ _ _ => rfl)
    (fun k' _ _ => by
      rw [o3 k' (by omega), o2 k' (by omega), o1 k' (by omega)]
      exact getSub_zero _ _ _ _ (hzero _ (by omega))) w3 (by omega)
  refine ⟨s4, f4, by rw [z4, z3, z2, z1], w4, ?_, ?_⟩
  · intro j hj
    rw [r4 j (by omega), r3 j (by omega), r2 j (by omega), r1 j (by omega)]
  · constructor
    · intro h; omega
    · intro _ _ k hk
      by_cases hkb : k < (Rt / 512 - L / 512) / 8
      · rw [if_pos hkb, o4 k (by omega), v3 k (by omega) (by omega)]
        exact counter_lt ws len _ _ (by omega) (by omega)
      · rw [if_neg hkb, v4 k (by omega) (by omega)]
    · intro _ _ k hk
      rw [o4 (8 + k) (by omega), o3 (8 + k) (by omega)]
      by_cases hkb : k < Rt / 512 - L / 512
      · rw [if_pos hkb, o2 (8 + k) (by omega), v1 (8 + k) (by omega) (by omega)]
        have e : 8 + k - 8 = k := by omega
        rw [e]
        exact counter_lt ws len _ _ (by omega) (by omega)
      · rw [if_neg hkb, v2 (8 + k) (by omega) (by omega)]
    · intro h; omega
    · intro h; omega
    · intro h; omega

end Sux.RS.Select9
