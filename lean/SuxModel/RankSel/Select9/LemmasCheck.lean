import SuxModel.RankSel.Select9.LemmasQuery2
import SuxModel.RankSel.Small.LemmasCheck
/-!
# Decidable form of `S9InvOK` (certificate check) and the layer-level statement of (Q) for `Select9`
-/
namespace Sux.RS.Select9
open Sux Sux.RS Sux.RS.Priv Sux.RS.BW Sux.RS.Small

/-- for every `j < 512` such that the one of rank `base + j` exists at `e`, `P j e` -/
def allRanks (ws : Array Nat) (len base : Nat) (P : Nat → Nat → Bool) : Bool :=
  (List.range 512).all (fun j => match selPos false ws len (base + j) with
    | some e => P j e
    | none => true)

theorem allRanks_spec {ws : Array Nat} {len base : Nat} {P : Nat → Nat → Bool}
    (h : allRanks ws len base P = true) (j e : Nat) (hj : j < 512)
    (he : IsSel (polBit false ws) len (base + j) e) : P j e = true := by
  unfold allRanks at h
  rw [List.all_eq_true] at h
  have := h j (List.mem_range.mpr hj)
  have hpos : selPos false ws len (base + j) = some e := (filter_range_getElem? _ _ _ _).2 he
  rw [hpos] at this
  exact this

/-- executable check of `S9InvOK` -/
def s9InvCheck (ws : Array Nat) (len : Nat) (s : S9) : Bool :=
  let G := ((len + 63) / 64 + 3) / 4
  decide (s.inv.size = s.isz + 1) &&
  decide (s.isz = (cnt (polBit false ws) len + 511) / 512) &&
  (List.range s.isz).all (fun i => match selPos false ws len (i * 512) with
    | some e => decide (s.inv.getD i 0 = e)
    | none => true) &&
  decide (s.inv.getD s.isz 0 = sentinelOf len) &&
  decide (s.sub.size = G) && decide (s.ssz = G) &&
  (List.range s.sub.size).all (fun j => decide (s.sub.getD j 0 < 2 ^ 64)) &&
  (List.range s.isz).all (fun i =>
    let L := s.inv.getD i 0
    let Rt := s.inv.getD (i + 1) 0
    let span := Rt / 256 - L / 256
    let bs := Rt / 512 - L / 512
    let R := fun q => rankSpec ws len q
    if span ≤ 1 then true
    else if span ≤ 15 then
      (List.range 8).all (fun k => decide (getSub 16 s.sub (L / 256) k =
        if k < bs then R (512 * (L / 512 + k + 1)) - R (512 * (L / 512)) else 0xFFFF))
    else if span ≤ 127 then
      (List.range 8).all (fun k => decide (getSub 16 s.sub (L / 256) k =
        if k < bs / 8 then R (512 * (L / 512 + (k + 1) * 8)) - R (512 * (L / 512)) else 0xFFFF)) &&
      (List.range ((bs / 8 + 1) * 8)).all (fun k => decide (getSub 16 s.sub (L / 256) (8 + k) =
        if k < bs then R (512 * (L / 512 + k + 1)) - R (512 * (L / 512)) else 0xFFFF))
    else if span ≤ 255 then
      allRanks ws len (i * 512) (fun j e => decide (getSub 16 s.sub (L / 256) j = e - L))
    else if span ≤ 511 then
      allRanks ws len (i * 512) (fun j e => decide (getSub 32 s.sub (L / 256) j = e - L))
    else
      allRanks ws len (i * 512) (fun j e => decide (s.sub.getD (bigIdx (L / 256) j) 0 = e)))

theorem s9InvCheck_sound (ws : Array Nat) (len : Nat) (s : S9) (h : s9InvCheck ws len s = true) :
    S9InvOK ws len s := by
  unfold s9InvCheck at h
  simp only [Bool.and_eq_true, decide_eq_true_eq, List.all_eq_true, List.mem_range] at h
  obtain ⟨⟨⟨⟨⟨⟨⟨h1, h2⟩, h3⟩, h4⟩, h5⟩, h6⟩, h7⟩, h8⟩ := h
  have hisz : ∀ i e, IsSel (polBit false ws) len (i * 512) e → i < s.isz := by
    intro i e he
    have := he.lt_cnt
    rw [h2]; omega
  refine ⟨h1, h2, ?_, h4, h5, h6, ?_, ?_, ?_, ?_, ?_, ?_, ?_⟩
  · intro i e he
    have := h3 i (hisz i e he)
    have hpos : selPos false ws len (i * 512) = some e := (filter_range_getElem? _ _ _ _).2 he
    rw [hpos] at this
    simpa using this
  · intro j
    by_cases hj : j < s.sub.size
    · exact h7 j hj
    · rw [Array.getD_eq_getD_getElem?, Array.getElem?_eq_none (by omega)]
      exact Nat.two_pow_pos 64
  · intro i hi hs1 hs2 k hk
    have := h8 i hi
    rw [if_neg (by omega), if_pos hs2] at this
    simp only [List.all_eq_true, List.mem_range, decide_eq_true_eq] at this
    exact this k hk
  · intro i hi hs1 hs2 k hk
    have := h8 i hi
    rw [if_neg (by omega), if_neg (by omega), if_pos hs2] at this
    simp only [Bool.and_eq_true, List.all_eq_true, List.mem_range, decide_eq_true_eq] at this
    exact this.1 k hk
  · intro i hi hs1 hs2 k hk
    have := h8 i hi
    rw [if_neg (by omega), if_neg (by omega), if_pos hs2] at this
    simp only [Bool.and_eq_true, List.all_eq_true, List.mem_range, decide_eq_true_eq] at this
    exact this.2 k hk
  · intro i hi hs1 hs2 j e hj he
    have := h8 i hi
    rw [if_neg (by omega), if_neg (by omega), if_neg (by omega), if_pos hs2] at this
    simpa using allRanks_spec this j e hj he
  · intro i hi hs1 hs2 j e hj he
    have := h8 i hi
    rw [if_neg (by omega), if_neg (by omega), if_neg (by omega), if_neg (by omega), if_pos hs2] at this
    simpa using allRanks_spec this j e hj he
  · intro i hi hs1 j e hj he
    have := h8 i hi
    rw [if_neg (by omega), if_neg (by omega), if_neg (by omega), if_neg (by omega), if_neg (by omega)] at this
    simpa using allRanks_spec this j e hj he

/-- (Q) for `Select9`, on the layer's query function -/
theorem select9_correct (ws : Array Nat) (len : Nat) (hlen : len ≤ 64 * ws.size) (hl64 : len < 2 ^ 64)
    (s : S9) (hinv : S9InvOK ws len s) (r : Nat) :
    (r < numOnes ws len → ∃ p, select ws (viewOf ws len) (numOnes ws len) s r = .ok (some p) ∧
        IsSelect ws len r p) ∧
    (numOnes ws len ≤ r → select ws (viewOf ws len) (numOnes ws len) s r = .ok none) := by
  constructor
  · intro hr
    have hr' : r < cnt (polBit false ws) len := by rw [numOnes_eq_cnt] at hr; exact hr
    obtain ⟨p, hp⟩ := IsSel.exists hr'
    refine ⟨p, ?_, (isSelect_iff ws len r p).2 hp⟩
    unfold select viewOf
    rw [if_neg (by omega), obOf_cumOnes, selectUnchecked_correct ws len hlen hl64 s hinv r p hp]
    rfl
  · intro hr
    unfold select
    rw [if_pos hr]

end Sux.RS.Select9
