import SuxModel.RankSel.Select9.LemmasWhere
/-!
# (Q) for `Select9`: the explicit invariant `S9InvOK` and the case analysis of `select_unchecked`
-/
namespace Sux.RS.Select9
open Sux Sux.RS Sux.RS.Priv Sux.RS.BW Sux.RS.Small

/-- the sentinel `((num_words + 3) & !3) * 64` in arithmetic form -/
def sentinelOf (len : Nat) : Nat := ((len + 63) / 64 + 3) / 4 * 256

/-- explicit invariant on the arrays of a `Select9` over the vector `(ws, len)`;
`R q = rankSpec ws len q` is the number of ones before position `q`.  With `L = inventory[i]`,
`Rt = inventory[i+1]`, `span = Rt/256 - L/256` (in subinventory words), `c = L/512`,
`bs = Rt/512 - L/512` (in Rank9 blocks):
* `entry`/`sentinel`: `inventory[i]` is the position of the one of rank `512 i`, the last entry is
  the sentinel;
* `span15`: for `2 ≤ span ≤ 15` the first eight 16-bit fields are the block counters relative to
  block `c`, padded with `0xFFFF`;
* `span127a/b`: for `16 ≤ span ≤ 127` fields `0..8` hold every eighth counter, fields `8 + k` all;
* `span255`, `span511`, `spanBig`: explicit positions (16 / 32 / 64 bits) of the ones of the span. -/
structure S9InvOK (ws : Array Nat) (len : Nat) (s : S9) : Prop where
  invSize : s.inv.size = s.isz + 1
  iszEq : s.isz = (cnt (polBit false ws) len + 511) / 512
  entry : ∀ i e, IsSel (polBit false ws) len (i * 512) e → s.inv.getD i 0 = e
  sentinel : s.inv.getD s.isz 0 = sentinelOf len
  subSize : s.sub.size = ((len + 63) / 64 + 3) / 4
  sszEq : s.ssz = ((len + 63) / 64 + 3) / 4
  subWords : ∀ j, s.sub.getD j 0 < 2 ^ 64
  span15 : ∀ i, i < s.isz →
    2 ≤ s.inv.getD (i + 1) 0 / 256 - s.inv.getD i 0 / 256 → s.inv.getD (i + 1) 0 / 256 - s.inv.getD i 0 / 256 ≤ 15 →
    ∀ k, k < 8 → getSub 16 s.sub (s.inv.getD i 0 / 256) k =
      if k < s.inv.getD (i + 1) 0 / 512 - s.inv.getD i 0 / 512 then
        rankSpec ws len (512 * (s.inv.getD i 0 / 512 + k + 1)) - rankSpec ws len (512 * (s.inv.getD i 0 / 512))
      else 0xFFFF
  span127a : ∀ i, i < s.isz →
    16 ≤ s.inv.getD (i + 1) 0 / 256 - s.inv.getD i 0 / 256 → s.inv.getD (i + 1) 0 / 256 - s.inv.getD i 0 / 256 ≤ 127 →
    ∀ k, k < 8 → getSub 16 s.sub (s.inv.getD i 0 / 256) k =
      if k < (s.inv.getD (i + 1) 0 / 512 - s.inv.getD i 0 / 512) / 8 then
        rankSpec ws len (512 * (s.inv.getD i 0 / 512 + (k + 1) * 8)) - rankSpec ws len (512 * (s.inv.getD i 0 / 512))
      else 0xFFFF
  span127b : ∀ i, i < s.isz →
    16 ≤ s.inv.getD (i + 1) 0 / 256 - s.inv.getD i 0 / 256 → s.inv.getD (i + 1) 0 / 256 - s.inv.getD i 0 / 256 ≤ 127 →
    ∀ k, k < ((s.inv.getD (i + 1) 0 / 512 - s.inv.getD i 0 / 512) / 8 + 1) * 8 →
      getSub 16 s.sub (s.inv.getD i 0 / 256) (8 + k) =
      if k < s.inv.getD (i + 1) 0 / 512 - s.inv.getD i 0 / 512 then
        rankSpec ws len (512 * (s.inv.getD i 0 / 512 + k + 1)) - rankSpec ws len (512 * (s.inv.getD i 0 / 512))
      else 0xFFFF
  span255 : ∀ i, i < s.isz →
    128 ≤ s.inv.getD (i + 1) 0 / 256 - s.inv.getD i 0 / 256 → s.inv.getD (i + 1) 0 / 256 - s.inv.getD i 0 / 256 ≤ 255 →
    ∀ j e, j < 512 → IsSel (polBit false ws) len (i * 512 + j) e →
      getSub 16 s.sub (s.inv.getD i 0 / 256) j = e - s.inv.getD i 0
  span511 : ∀ i, i < s.isz →
    256 ≤ s.inv.getD (i + 1) 0 / 256 - s.inv.getD i 0 / 256 → s.inv.getD (i + 1) 0 / 256 - s.inv.getD i 0 / 256 ≤ 511 →
    ∀ j e, j < 512 → IsSel (polBit false ws) len (i * 512 + j) e →
      getSub 32 s.sub (s.inv.getD i 0 / 256) j = e - s.inv.getD i 0
  spanBig : ∀ i, i < s.isz →
    512 ≤ s.inv.getD (i + 1) 0 / 256 - s.inv.getD i 0 / 256 →
    ∀ j e, j < 512 → IsSel (polBit false ws) len (i * 512 + j) e →
      s.sub.getD (bigIdx (s.inv.getD i 0 / 256) j) 0 = e

/-- what the query needs about the two inventory entries around rank `r` -/
theorem entries {ws : Array Nat} {len : Nat} {s : S9} (hinv : S9InvOK ws len s) {r p : Nat}
    (hsel : IsSel (polBit false ws) len r p) :
    r / 512 < s.isz ∧
    IsSel (polBit false ws) len (r / 512 * 512) (s.inv.getD (r / 512) 0) ∧
    s.inv.getD (r / 512) 0 ≤ p ∧ p < s.inv.getD (r / 512 + 1) 0 ∧
    s.inv.getD (r / 512 + 1) 0 ≤ sentinelOf len ∧
    (s.inv.getD (r / 512 + 1) 0 / 256 - s.inv.getD (r / 512) 0 / 256 ≤ 1 →
      p / 256 = s.inv.getD (r / 512) 0 / 256) := by
  have hp := hsel.1
  have hN : r < cnt (polBit false ws) len := hsel.lt_cnt
  have hi : r / 512 < s.isz := by rw [hinv.iszEq]; omega
  obtain ⟨e, he⟩ := IsSel.exists (f := polBit false ws) (n := len) (r := r / 512 * 512) (by omega)
  have hent := hinv.entry _ e he
  have hep : e ≤ p := he.at.le_of_le hsel.at (by omega)
  have hZ : len ≤ sentinelOf len := by unfold sentinelOf; omega
  rw [hent]
  refine ⟨hi, he, hep, ?_⟩
  by_cases hnx : (r / 512 + 1) * 512 < cnt (polBit false ws) len
  · obtain ⟨e', he'⟩ := IsSel.exists hnx
    have hent' := hinv.entry _ e' he'
    have hpe : p < e' := hsel.at.lt_of_lt he'.at (by omega)
    have hd := he.at.sub_le he'.at (by omega)
    rw [hent']
    refine ⟨hpe, by have := he'.1; omega, ?_⟩
    intro hspan; omega
  · have hisz : r / 512 + 1 = s.isz := by rw [hinv.iszEq]; omega
    rw [hisz, hinv.sentinel]
    refine ⟨by omega, Nat.le_refl _, ?_⟩
    intro hspan
    unfold sentinelOf at hspan hZ
    omega

end Sux.RS.Select9
