import SuxModel.RankSel.Runner
/-!
# The layers used for `bits_sparse` vectors answer exactly like the model layers

`Sparse.modelOf` (digest `parts`, tasks) and `Runner.modelOf` (the layers the C01 / C02 / C12 theorems are
about) have the same `rank`, `numOnes`, `select`, `selectZero` fields for every input: only the text of
`parts` differs.
-/
namespace Sux.RS.Sparse

/-- the query side of a layer -/
def queries (l : LayerModel) :
    Option (Nat → Out Nat) × Option Nat × Option (Nat → Out (Option Nat)) × Option (Nat → Out (Option Nat)) :=
  (l.rank, l.numOnes, l.select, l.selectZero)

theorem r9Layer_queries (ws : Array Nat) (len n1 : Nat) :
    queries (r9Layer ws len) = queries (Rank9.layer ws len n1) := by
  unfold r9Layer Rank9.layer
  cases Rank9.build ws len <;> rfl

theorem rsLayer_queries (ws : Array Nat) (len n1 k : Nat) :
    queries (rsLayer ws len k) = queries (RankSmall.layer ws len n1 k) := by
  unfold rsLayer RankSmall.layer
  dsimp only
  cases RankSmall.build (RankSmall.variant k) ws len <;> rfl

theorem s9Layer_queries (ws : Array Nat) (len n1 : Nat) :
    queries (s9Layer ws len n1) = queries (Select9.layer ws len n1) := by
  unfold s9Layer Select9.layer
  dsimp only
  cases Select9.build ws len n1 (Select9.viewOf ws len) <;> rfl

theorem smallLayer_queries (zero : Bool) (ws : Array Nat) (len n1 k : Nat) (b : Option Nat) :
    queries (smallLayer zero ws len n1 k b) = queries (Small.mkLayer zero ws len n1 k b) := by
  unfold smallLayer Small.mkLayer
  simp only [par_get]
  cases Small.buildWithInv (Priv.smallParams k) zero ws len (if zero then len - n1 else n1) (b.getD 8) <;>
    cases zero <;> rfl

theorem adaptRun_queries (zero : Bool) (how : String) (p1 p2 : Nat) (ws : Array Nat) (len n1 : Nat) :
    queries (adaptRun zero how p1 p2 ws len n1) = queries (Adapt.layerRun zero how p1 p2 ws len n1) := by
  unfold adaptRun Adapt.layerRun
  cases Adapt.buildRun zero how p1 p2 ws len n1 with
  | ok x => obtain ⟨P, idx⟩ := x; unfold Adapt.mkLayer; dsimp only; cases P.zero <;> rfl
  | panic => rfl
  | oob => rfl

theorem adaptConst_queries (zero : Bool) (l m : Nat) (ws : Array Nat) (len n1 : Nat) :
    queries (adaptConst zero l m ws len n1) = queries (Adapt.layerConst zero l m ws len n1) := by
  unfold adaptConst Adapt.layerConst
  cases Adapt.buildConst zero l m ws len n1 with
  | ok x => obtain ⟨P, idx⟩ := x; unfold Adapt.mkLayer; dsimp only; cases P.zero <;> rfl
  | panic => rfl
  | oob => rfl

/-- every layer kind: same queries as the layer of `Runner.modelOf` -/
theorem modelOf_queries (ws : Array Nat) (len n1 : Nat) (k : LayerKind) :
    (Sparse.modelOf ws len n1 k).map queries = (Sux.RS.modelOf ws len n1 k).map queries := by
  cases k <;> simp only [Sparse.modelOf, Sux.RS.modelOf, Option.map_some, Option.some.injEq]
  · exact r9Layer_queries ws len n1
  · exact rsLayer_queries ws len n1 _
  · exact s9Layer_queries ws len n1
  · exact adaptRun_queries false _ _ _ ws len n1
  · exact adaptRun_queries true _ _ _ ws len n1
  · exact adaptConst_queries false _ _ ws len n1
  · exact adaptConst_queries true _ _ ws len n1
  · exact smallLayer_queries false ws len n1 _ _
  · exact smallLayer_queries true ws len n1 _ _

/-- the concurrent construction is the plain map -/
theorem modelsOf_eq (ws : Array Nat) (len n1 : Nat) (ks : List LayerKind) :
    modelsOf ws len n1 ks = ks.map (Sparse.modelOf ws len n1) := by
  unfold modelsOf
  split
  · rfl
  · rw [List.map_map]
    rfl

end Sux.RS.Sparse

#print axioms Sux.RS.Sparse.modelOf_queries
#print axioms Sux.RS.Sparse.modelsOf_eq
