import SuxModel.Base.Proto
import SuxModel.RankSel.Spec
import SuxModel.RankSel.Layer
import SuxModel.RankSel.Rank9.Model
import SuxModel.RankSel.RankSmall.Model
import SuxModel.RankSel.Select9.Model
import SuxModel.RankSel.Small.Model
import SuxModel.RankSel.Adapt.Model
/-!
# Runner-side plumbing for huge, sparsely stated bit vectors (`bits_sparse`, runner `ranksel`)

Bit vectors longer than 2^32 bits (64-bit span encoding of the adaptive selectors, second and third
superblock of `RankSmall` / `SelectSmall`, `Select9` spans of more than 2^32 bits) are stated as
`bits_sparse <len> <nwords> <fill> <[flipped positions]>`: a backend of `nwords` words all equal to
`0` (`fill = 0`) or `2^64 - 1` (`fill = 1`) in which the listed bit positions (strictly increasing,
`< 64 * nwords`; positions `≥ len` are stale bits) are flipped.

Nothing here is a model definition: the layers below call the *same* builder and query functions as
`Rank9.layer`, `RankSmall.layer`, `Select9.layer`, `Small.layer[Zero]`, `Adapt.layerRun/layerConst`
(theorem `modelOf_queries`: the query fields are equal to those of `Runner.modelOf`); only the
`parts` dump differs: a list of more than `LIST_MAX` numbers is printed as
`#<length>:<FNV-1a style hash of the numbers as u64>` (the counter arrays of the rank layers have
`2^23`–`2^25` entries on such vectors), and it is produced without going through `List`.
-/
namespace Sux.RS.Sparse
open Sux.Proto

/-- lists longer than this are printed as a digest -/
def LIST_MAX : Nat := 4096

/-- `h = (h xor x) * 0x100000001b3` over `u64`, from `0xcbf29ce484222325` -/
def hashNats (xs : Array Nat) : UInt64 :=
  xs.foldl (fun h x => (h ^^^ x.toUInt64) * 1099511628211) 14695981039346656037

def fmtL (xs : Array Nat) : String :=
  if xs.size ≤ LIST_MAX then fmtNatList xs.toList else s!"#{xs.size}:{(hashNats xs).toNat}"

/-- the backend of `bits_sparse` -/
def mkWords (nw : Nat) (fill : Bool) (flips : Array Nat) : Array Nat :=
  flips.foldl (fun a p => a.modify (p / 64) (fun w => w ^^^ (1 <<< (p % 64))))
    (Array.replicate nw (if fill then 2 ^ 64 - 1 else 0))

/-- strictly increasing and below `bound` -/
def flipsOK (flips : Array Nat) (bound : Nat) : Bool :=
  (flips.all (· < bound)) &&
  (List.range (flips.size - 1)).all (fun i => flips.getD i 0 < flips.getD (i + 1) 0)

/-- number of ones among the first `len` bits -/
def numOnesOf (len : Nat) (fill : Bool) (flips : Array Nat) : Nat :=
  let f := (flips.filter (· < len)).size
  if fill then len - f else f

/-- backends of more than this many words are processed without concurrency (peak memory) -/
def PAR_MAX : Nat := 100000000

/-- run `f` as a task, or right away when `seq` -/
def par {α : Type} (seq : Bool) (f : Unit → α) : Task α :=
  if seq then Task.pure (f ()) else Task.spawn f

theorem par_get {α : Type} (seq : Bool) (f : Unit → α) : (par seq f).get = f () := by
  unfold par; cases seq <;> rfl

/-! ## layers: same builders and queries as the model layers, digest `parts` -/

def r9Layer (ws : Array Nat) (len : Nat) : LayerModel :=
  match Rank9.build ws len with
  | .ok counts =>
    { parts := s!"r9 abs={fmtL (counts.map (·.absolute))} rel={fmtL (counts.map (·.relative))}"
      rank := some (Rank9.rank ws len counts)
      numOnes := match Rank9.numOnes counts with | .ok n => some n | _ => none }
  | .panic => { parts := "panic" }
  | .oob => { parts := "oob" }

def rsLayer (ws : Array Nat) (len k : Nat) : LayerModel :=
  let P := RankSmall.variant k
  match RankSmall.build P ws len with
  | .ok x =>
    { parts :=
        let rel := x.counts.foldl (fun acc c => (RankSmall.relWords P c.relative).foldl Array.push acc) #[]
        s!"rs upper={fmtL x.upper} abs={fmtL (x.counts.map (·.absolute))} rel={fmtL rel} ones={x.numOnes}"
      rank := some (RankSmall.rank P ws len x)
      numOnes := some x.numOnes }
  | .panic => { parts := "panic" }
  | .oob => { parts := "oob" }

def s9Layer (ws : Array Nat) (len n1 : Nat) : LayerModel :=
  let cnt := Select9.viewOf ws len
  match Select9.build ws len n1 cnt with
  | .ok s =>
    { parts := s!"s9 inv={fmtL s.inv} sub={fmtL s.sub} isz={s.isz} ssz={s.ssz}"
      select := some (Select9.select ws cnt n1 s) }
  | .panic => { parts := "build-panic", select := some (fun _ => .panic) }
  | .oob => { parts := "build-oob", select := some (fun _ => .oob) }

def smallLayer (zero : Bool) (ws : Array Nat) (len n1 k : Nat) (b : Option Nat) : LayerModel :=
  let P := Priv.smallParams k
  let count := if zero then len - n1 else n1
  -- the counter view and the inventory are independent: computed concurrently
  let seq := decide (PAR_MAX < ws.size)
  let tcnt := par seq fun _ => Small.viewOf P ws len
  let tsel := par seq fun _ => Small.buildWithInv P zero ws len count (b.getD 8)
  let cnt := tcnt.get
  let tag := if zero then "szs" else "ss"
  let q : Option (Nat → Out (Option Nat)) → LayerModel := fun f =>
    if zero then { parts := tag, selectZero := f } else { parts := tag, select := f }
  match tsel.get with
  | .ok s => { q (some (Small.select P zero ws len count cnt s)) with
               parts := s!"{tag} inv={fmtL s.inv} begin={fmtL s.begin} l={s.l}" }
  | .panic => { q (some (fun _ => .panic)) with parts := "build-panic" }
  | .oob => { q (some (fun _ => .oob)) with parts := "build-oob" }

def adaptRun (zero : Bool) (how : String) (p1 p2 : Nat) (ws : Array Nat) (len n1 : Nat) : LayerModel :=
  match Adapt.buildRun zero how p1 p2 ws len n1 with
  | .ok (P, idx) =>
    let tag := if zero then "sza" else "sa"
    Adapt.mkLayer s!"{tag} inv={fmtL idx.inv} spill={fmtL idx.spill} l={P.L} s16={P.s16} m={P.M}"
      P ws len n1 idx
  | _ => Adapt.failedLayer

def adaptConst (zero : Bool) (l m : Nat) (ws : Array Nat) (len n1 : Nat) : LayerModel :=
  match Adapt.buildConst zero l m ws len n1 with
  | .ok (P, idx) =>
    let tag := if zero then "szac" else "sac"
    Adapt.mkLayer s!"{tag} inv={fmtL idx.inv} spill={fmtL idx.spill} l={l} m={m}" P ws len n1 idx
  | _ => Adapt.failedLayer

/-- counterpart of `Runner.modelOf` -/
def modelOf (ws : Array Nat) (len n1 : Nat) (k : LayerKind) : Option LayerModel :=
  match k with
  | .r9 => some (r9Layer ws len)
  | .rs k => some (rsLayer ws len k)
  | .s9 => some (s9Layer ws len n1)
  | .ss k b => some (smallLayer false ws len n1 k b)
  | .szs k b => some (smallLayer true ws len n1 k b)
  | .sa how p1 p2 => some (adaptRun false how p1 p2 ws len n1)
  | .sza how p1 p2 => some (adaptRun true how p1 p2 ws len n1)
  | .sac l m => some (adaptConst false l m ws len n1)
  | .szac l m => some (adaptConst true l m ws len n1)

/-- the layers of a composition, built concurrently (one task per layer) unless the backend is larger
than `PAR_MAX` words -/
def modelsOf (ws : Array Nat) (len n1 : Nat) (ks : List LayerKind) : List (Option LayerModel) :=
  if PAR_MAX < ws.size then ks.map (modelOf ws len n1)
  else (ks.map (fun k => Task.spawn fun _ => modelOf ws len n1 k)).map Task.get

end Sux.RS.Sparse
