import SuxModel.Base.Bits
import SuxModel.RankSel.Spec
/-!
# Counting / selection theory over a predicate `f : Nat → Bool`

`cnt f p` = number of `k < p` with `f k`; `IsSel f n r p` = `p < n` is the position of the `f`-bit of
rank `r`.  Connection with the vocabulary of `Spec.lean` (`rankSpec`, `IsSelect`, `IsSelectZero`,
`numOnes`, `selectSpec`, …) at the end.
-/
namespace Sux.RS

def cnt (f : Nat → Bool) (p : Nat) : Nat := (List.range p).countP f

@[simp] theorem cnt_zero (f : Nat → Bool) : cnt f 0 = 0 := by simp [cnt]

theorem cnt_succ (f : Nat → Bool) (p : Nat) : cnt f (p + 1) = cnt f p + (if f p then 1 else 0) := by
  unfold cnt
  rw [List.range_succ, List.countP_append]
  simp [List.countP_cons]

theorem cnt_succ_true {f : Nat → Bool} {p : Nat} (h : f p = true) : cnt f (p + 1) = cnt f p + 1 := by
  rw [cnt_succ, if_pos h]

theorem cnt_succ_false {f : Nat → Bool} {p : Nat} (h : f p = false) : cnt f (p + 1) = cnt f p := by
  rw [cnt_succ]; simp [h]

theorem cnt_le (f : Nat → Bool) (p : Nat) : cnt f p ≤ p := by
  induction p with
  | zero => simp
  | succ p ih => rw [cnt_succ]; split <;> omega

theorem cnt_mono (f : Nat → Bool) {p q : Nat} (h : p ≤ q) : cnt f p ≤ cnt f q := by
  induction q with
  | zero => have : p = 0 := by omega
            subst this; exact Nat.le_refl _
  | succ q ih =>
    by_cases hq : p = q + 1
    · subst hq; exact Nat.le_refl _
    · have := ih (by omega)
      rw [cnt_succ]; omega

/-- the count grows by at most the distance -/
theorem cnt_le_add (f : Nat → Bool) (p d : Nat) : cnt f (p + d) ≤ cnt f p + d := by
  induction d with
  | zero => simp
  | succ d ih => rw [← Nat.add_assoc, cnt_succ]; split <;> omega

theorem cnt_congr {f g : Nat → Bool} {p : Nat} (h : ∀ k, k < p → f k = g k) : cnt f p = cnt g p := by
  induction p with
  | zero => simp
  | succ p ih =>
    rw [cnt_succ, cnt_succ, ih (fun k hk => h k (by omega)), h p (by omega)]

theorem cnt_add (f : Nat → Bool) (p q : Nat) :
    cnt f (p + q) = cnt f p + cnt (fun k => f (p + k)) q := by
  induction q with
  | zero => simp
  | succ q ih => rw [← Nat.add_assoc, cnt_succ, cnt_succ, ih]; omega

theorem cnt_not (f : Nat → Bool) (p : Nat) : cnt (fun k => !f k) p + cnt f p = p := by
  induction p with
  | zero => simp
  | succ p ih =>
    rw [cnt_succ, cnt_succ]
    cases f p <;> simp <;> omega

theorem cnt_false {f : Nat → Bool} {p : Nat} (h : ∀ k, k < p → f k = false) : cnt f p = 0 := by
  induction p with
  | zero => simp
  | succ p ih => rw [cnt_succ, ih (fun k hk => h k (by omega)), h p (by omega)]; simp

/-- `p` is the position of the `f`-bit of rank `r` (no length bound) -/
def IsSelAt (f : Nat → Bool) (r p : Nat) : Prop := f p = true ∧ cnt f p = r

/-- `p < n` is the position of the `f`-bit of rank `r` -/
def IsSel (f : Nat → Bool) (n r p : Nat) : Prop := p < n ∧ f p = true ∧ cnt f p = r

theorem IsSel.at {f : Nat → Bool} {n r p : Nat} (h : IsSel f n r p) : IsSelAt f r p := ⟨h.2.1, h.2.2⟩

/-- strictly below a set bit of rank `r` the count is `≤ r`, strictly above it is `> r` -/
theorem IsSelAt.cnt_le_of_le {f : Nat → Bool} {r p q : Nat} (h : IsSelAt f r p) (hq : q ≤ p) :
    cnt f q ≤ r := by
  have := cnt_mono f hq; rw [h.2] at this; exact this

theorem IsSelAt.lt_cnt_of_lt {f : Nat → Bool} {r p q : Nat} (h : IsSelAt f r p) (hq : p < q) :
    r < cnt f q := by
  have h1 := cnt_mono f (show p + 1 ≤ q by omega)
  rw [cnt_succ_true h.1, h.2] at h1; omega

theorem IsSelAt.lt_of_lt {f : Nat → Bool} {r r' p p' : Nat} (h : IsSelAt f r p) (h' : IsSelAt f r' p')
    (hr : r < r') : p < p' := by
  apply Nat.lt_of_not_le
  intro hle
  have := h.cnt_le_of_le hle
  rw [h'.2] at this; omega

theorem IsSelAt.unique {f : Nat → Bool} {r p p' : Nat} (h : IsSelAt f r p) (h' : IsSelAt f r p') :
    p = p' := by
  rcases Nat.lt_trichotomy p p' with hlt | heq | hgt
  · have := h.lt_cnt_of_lt hlt; rw [h'.2] at this; omega
  · exact heq
  · have := h'.lt_cnt_of_lt hgt; rw [h.2] at this; omega

theorem IsSelAt.le_of_le {f : Nat → Bool} {r r' p p' : Nat} (h : IsSelAt f r p) (h' : IsSelAt f r' p')
    (hr : r ≤ r') : p ≤ p' := by
  rcases Nat.lt_or_ge r r' with hlt | hge
  · exact Nat.le_of_lt (h.lt_of_lt h' hlt)
  · have : r = r' := by omega
    subst this; exact Nat.le_of_eq (h.unique h')

/-- the position of a bit is at least its rank -/
theorem IsSelAt.rank_le {f : Nat → Bool} {r p : Nat} (h : IsSelAt f r p) : r ≤ p := by
  have := cnt_le f p; rw [h.2] at this; exact this

/-- distance between positions is at least the distance between ranks -/
theorem IsSelAt.sub_le {f : Nat → Bool} {r r' p p' : Nat} (h : IsSelAt f r p) (h' : IsSelAt f r' p')
    (hr : r ≤ r') : r' - r ≤ p' - p := by
  have hp := h.le_of_le h' hr
  have := cnt_le_add f p (p' - p)
  rw [show p + (p' - p) = p' by omega, h.2, h'.2] at this
  omega

theorem IsSel.unique {f : Nat → Bool} {n r p p' : Nat} (h : IsSel f n r p) (h' : IsSel f n r p') :
    p = p' := h.at.unique h'.at

theorem IsSel.lt_cnt {f : Nat → Bool} {n r p : Nat} (h : IsSel f n r p) : r < cnt f n :=
  h.at.lt_cnt_of_lt h.1

theorem IsSel.exists {f : Nat → Bool} {n r : Nat} (h : r < cnt f n) : ∃ p, IsSel f n r p := by
  induction n with
  | zero => simp at h
  | succ n ih =>
    by_cases hn : r < cnt f n
    · obtain ⟨p, hp, h2⟩ := ih hn
      exact ⟨p, by omega, h2⟩
    · rw [cnt_succ] at h
      by_cases hf : f n = true
      · rw [if_pos hf] at h
        exact ⟨n, by omega, hf, by omega⟩
      · rw [if_neg hf] at h; omega

theorem IsSel.mono {f : Nat → Bool} {n m r p : Nat} (h : IsSel f n r p) (hnm : n ≤ m) : IsSel f m r p :=
  ⟨by have := h.1; omega, h.2⟩

/-- `IsSelAt` below a bound is `IsSel` -/
theorem IsSelAt.toSel {f : Nat → Bool} {n r p : Nat} (h : IsSelAt f r p) (hp : p < n) : IsSel f n r p :=
  ⟨hp, h.1, h.2⟩

/-- a selected position of rank `< cnt f n` is below `n` -/
theorem IsSelAt.lt_of_lt_cnt {f : Nat → Bool} {n r p : Nat} (h : IsSelAt f r p) (hr : r < cnt f n) :
    p < n := by
  apply Nat.lt_of_not_le
  intro hle
  have := h.cnt_le_of_le hle
  omega

theorem isSel_congr {f g : Nat → Bool} {n r p : Nat} (hfg : ∀ k, k < n → f k = g k) :
    IsSel f n r p ↔ IsSel g n r p := by
  constructor
  · rintro ⟨h1, h2, h3⟩
    refine ⟨h1, by rw [← hfg p h1]; exact h2, ?_⟩
    rw [← h3]; exact (cnt_congr (fun k hk => hfg k (by omega))).symm
  · rintro ⟨h1, h2, h3⟩
    refine ⟨h1, by rw [hfg p h1]; exact h2, ?_⟩
    rw [← h3]; exact cnt_congr (fun k hk => hfg k (by omega))

/-! ## filter characterisation -/

theorem length_filter_range (f : Nat → Bool) (n : Nat) : ((List.range n).filter f).length = cnt f n := by
  unfold cnt; rw [List.countP_eq_length_filter]

theorem filter_range_getElem? (f : Nat → Bool) (n r p : Nat) :
    ((List.range n).filter f)[r]? = some p ↔ IsSel f n r p := by
  induction n with
  | zero => simp [IsSel]
  | succ n ih =>
    rw [List.range_succ, List.filter_append]
    by_cases hr : r < ((List.range n).filter f).length
    · rw [List.getElem?_append_left hr, ih]
      constructor
      · exact fun h => h.mono (by omega)
      · intro h
        refine ⟨?_, h.2⟩
        rw [length_filter_range] at hr
        exact h.at.lt_of_lt_cnt hr
    · have hr' : ((List.range n).filter f).length ≤ r := by omega
      rw [List.getElem?_append_right hr']
      rw [length_filter_range] at hr hr' ⊢
      by_cases hf : f n = true
      · simp only [List.filter_cons, hf, if_true, List.filter_nil]
        constructor
        · intro h
          have h0 : r - cnt f n = 0 := by
            rcases Nat.eq_zero_or_pos (r - cnt f n) with h0 | h0
            · exact h0
            · rw [List.getElem?_eq_none (by simp; omega)] at h; cases h
          rw [h0] at h
          simp at h
          subst h
          exact ⟨by omega, hf, by omega⟩
        · rintro ⟨h1, h2, h3⟩
          have : p = n := by
            rcases Nat.lt_or_ge p n with hlt | hge
            · have := cnt_mono f (show p + 1 ≤ n by omega)
              rw [cnt_succ_true h2] at this; omega
            · omega
          subst this
          rw [h3]; simp
      · have hf' : f n = false := by cases h : f n <;> simp_all
        simp only [List.filter_cons, hf', List.filter_nil]
        simp only [Bool.false_eq_true, if_false, List.getElem?_nil]
        constructor
        · intro h; cases h
        rintro ⟨h1, h2, h3⟩
        exfalso
        have : p ≠ n := by intro e; subst e; rw [hf'] at h2; cases h2
        have := cnt_mono f (show p + 1 ≤ n by omega)
        rw [cnt_succ_true h2] at this; omega

/-! ## connection with `Spec.lean` -/

/-- the bit function of polarity `zero` over the backend `ws` (not clipped to `len`) -/
def polBit (zero : Bool) (ws : Array Nat) (k : Nat) : Bool := if zero then !bitAt 64 ws k else bitAt 64 ws k

theorem rankSpec_eq_cnt (ws : Array Nat) (len p : Nat) : rankSpec ws len p = cnt (bitAt 64 ws) (min p len) := rfl

theorem numOnes_eq_cnt (ws : Array Nat) (len : Nat) : numOnes ws len = cnt (bitAt 64 ws) len := by
  unfold numOnes onesList; exact length_filter_range _ _

theorem numZeros_eq_cnt (ws : Array Nat) (len : Nat) : numZeros ws len = cnt (fun k => !bitAt 64 ws k) len := by
  unfold numZeros zerosList; exact length_filter_range _ _

theorem numZeros_add_numOnes (ws : Array Nat) (len : Nat) : numZeros ws len + numOnes ws len = len := by
  rw [numOnes_eq_cnt, numZeros_eq_cnt]; exact cnt_not _ _

theorem isSelect_iff (ws : Array Nat) (len r p : Nat) :
    IsSelect ws len r p ↔ IsSel (bitAt 64 ws) len r p := by
  unfold IsSelect IsSel
  constructor
  · rintro ⟨h1, h2, h3⟩
    refine ⟨h1, h2, ?_⟩
    rw [rankSpec_eq_cnt, Nat.min_eq_left (by omega)] at h3; exact h3
  · rintro ⟨h1, h2, h3⟩
    refine ⟨h1, h2, ?_⟩
    rw [rankSpec_eq_cnt, Nat.min_eq_left (by omega)]; exact h3

theorem isSelectZero_iff (ws : Array Nat) (len r p : Nat) :
    IsSelectZero ws len r p ↔ IsSel (fun k => !bitAt 64 ws k) len r p := by
  unfold IsSelectZero IsSel
  have hc := cnt_not (bitAt 64 ws) p
  have hle := cnt_le (bitAt 64 ws) p
  constructor
  · rintro ⟨h1, h2, h3⟩
    refine ⟨h1, by simp [h2], ?_⟩
    rw [rankSpec_eq_cnt, Nat.min_eq_left (by omega)] at h3; omega
  · rintro ⟨h1, h2, h3⟩
    refine ⟨h1, by simpa using h2, ?_⟩
    rw [rankSpec_eq_cnt, Nat.min_eq_left (by omega)]; omega

theorem selectSpec_eq_some_iff (ws : Array Nat) (len r p : Nat) :
    selectSpec ws len r = some p ↔ IsSelect ws len r p := by
  rw [isSelect_iff]; unfold selectSpec onesList; exact filter_range_getElem? _ _ _ _

theorem selectZeroSpec_eq_some_iff (ws : Array Nat) (len r p : Nat) :
    selectZeroSpec ws len r = some p ↔ IsSelectZero ws len r p := by
  rw [isSelectZero_iff]; unfold selectZeroSpec zerosList; exact filter_range_getElem? _ _ _ _

theorem selectSpec_eq_none_iff (ws : Array Nat) (len r : Nat) :
    selectSpec ws len r = none ↔ numOnes ws len ≤ r := by
  unfold selectSpec numOnes; exact List.getElem?_eq_none_iff

theorem selectZeroSpec_eq_none_iff (ws : Array Nat) (len r : Nat) :
    selectZeroSpec ws len r = none ↔ numZeros ws len ≤ r := by
  unfold selectZeroSpec numZeros; exact List.getElem?_eq_none_iff

end Sux.RS
