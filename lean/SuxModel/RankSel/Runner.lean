import SuxModel.Base.Proto
import SuxModel.RankSel.Spec
import SuxModel.RankSel.Layer
import SuxModel.RankSel.Rank9.Model
import SuxModel.RankSel.RankSmall.Model
import SuxModel.RankSel.Select9.Model
import SuxModel.RankSel.Small.Model
import SuxModel.RankSel.Adapt.Model
import SuxModel.RankSel.Sparse
/-!
# Protocol runner `ranksel` (C01, C02, C12)

`bits <len> <[words]>` or `bits_sparse <len> <nwords> <fill> <[flipped positions]>` (huge vectors, see
`Sparse.lean`), `build <sid> <p1> <p2>`, then queries.  Structures whose builder / query
algorithm is modelled answer through the model (see `SuxModel/RankSel/*`); the others answer through
the specification (fast evaluation below), and reply `unmodelled` to `parts`.
-/
namespace Sux.RS
open Sux.Proto

/-- number of elements `< x` in the sorted array `a` (binary search) -/
def lowerBound (a : Array Nat) (x : Nat) : Nat :=
  let rec go (lo hi fuel : Nat) : Nat :=
    match fuel with
    | 0 => lo
    | fuel + 1 =>
      if lo < hi then
        let mid := (lo + hi) / 2
        if a.getD mid 0 < x then go (mid + 1) hi fuel else go lo mid fuel
      else lo
  go 0 a.size (a.size + 1)

structure Caps where
  rank : Bool := false
  numbits : Bool := false
  count : Bool := false
  select : Bool := false
  selectZero : Bool := false

def capsOf (sid : String) : Option Caps :=
  match sid with
  | "rank9" | "r9_map" | "s9_inner" | "sa_inner" | "sac_inner" =>
    some { rank := true, numbits := true, count := true }
  -- (`BitCount` of `RankSmall` is hand-written, and delegated by the selectors over it)
  | "rs" | "rs_inner" | "ss_inner" | "szs_inner" | "rs_macro" =>
    some { rank := true, numbits := true, count := true }
  | "sel9" => some { rank := true, numbits := true, count := true, select := true }
  | "sa" | "sa_new" | "sa_span" | "sac" | "r9_inner_sa" | "sza_inner" | "sa_anb" | "szac_inner" =>
    some { numbits := true, count := true, select := true }
  | "sza" | "sza_new" | "sza_span" | "szac" => some { numbits := true, count := true, selectZero := true }
  | "sa_r9" | "sa_map" | "sac_map" | "r9_map_sa" | "rs_map_sa" =>
    some { rank := true, numbits := true, count := true, select := true }
  | "sza_sa" | "sa_sza" | "sza_map" | "sa_map_sza" => some { numbits := true, count := true, select := true, selectZero := true }
  | "sza_sa_r9" | "sza_sel9" | "szac_sac_r9" | "szac_map" =>
    some { rank := true, numbits := true, count := true, select := true, selectZero := true }
  | "ss" | "ss_new" | "szs_ss_inner" => some { rank := true, numbits := true, count := true, select := true }
  | "szs" | "szs_new" => some { rank := true, numbits := true, count := true, selectZero := true }
  | "szs_ss" => some { rank := true, numbits := true, count := true, select := true, selectZero := true }
  | _ => none

/-- model of one layer over the bit vector `(ws, len)` whose number of ones is `n1`;
`none` = this layer kind is not modelled yet (its queries are answered by the specification) -/
def modelOf (ws : Array Nat) (len n1 : Nat) (k : LayerKind) : Option LayerModel :=
  match k with
  | .r9 => some (Rank9.layer ws len n1)
  | .rs k => some (RankSmall.layer ws len n1 k)
  | .s9 => some (Select9.layer ws len n1)
  | .ss k b => some (Small.layer ws len n1 k b)
  | .szs k b => some (Small.layerZero ws len n1 k b)
  | .sa how p1 p2 => some (Adapt.layerRun false how p1 p2 ws len n1)
  | .sza how p1 p2 => some (Adapt.layerRun true how p1 p2 ws len n1)
  | .sac l m => some (Adapt.layerConst false l m ws len n1)
  | .szac l m => some (Adapt.layerConst true l m ws len n1)

structure RSt where
  len : Nat := 0
  words : Array Nat := #[]
  ones : Array Nat := #[]
  zeros : Array Nat := #[]
  built : Option (String × Nat × Nat) := none
  /-- set by `bits_sparse`: `ones` / `zeros` are not materialised, `n1` is the number of ones, and the
  layers come from `Sparse.modelOf` (same builders and queries, digest `parts`) -/
  sparse : Bool := false
  n1 : Nat := 0
  layers : List (Option LayerModel) := []

def fmtOutNat (o : Out Nat) : String :=
  match o with | .ok v => s!"ok {v}" | .panic => "panic" | .oob => "oob"
def fmtOutO (o : Out (Option Nat)) : String :=
  match o with | .ok (some v) => s!"ok {v}" | .ok none => "ok none" | .panic => "panic" | .oob => "oob"

/-- first modelled layer offering a query -/
def firstSome {α} (ls : List (Option LayerModel)) (f : LayerModel → Option α) : Option α :=
  ls.findSome? (fun l => l.bind f)

def mkBits (len : Nat) (ws : Array Nat) : RSt :=
  let idx := Array.range len
  { len := len, words := ws,
    ones := idx.filter (fun k => bitAt 64 ws k),
    zeros := idx.filter (fun k => !bitAt 64 ws k) }

def mkSparse (len nw : Nat) (fill : Bool) (flips : Array Nat) : RSt :=
  { len := len, words := Sparse.mkWords nw fill flips, sparse := true,
    n1 := Sparse.numOnesOf len fill flips }

def fmtO (o : Option Nat) : String := match o with | some v => s!"ok {v}" | none => "ok none"

def step (r : RSt) (toks : List String) : RSt × String :=
  let bad := (r, "bad-op")
  match toks with
  | ["case", _] => ({}, "case")
  | ["bits", len, ws] => match parseNat len, parseNatList ws with
    | some len, some ws => (mkBits len ws.toArray, "ok") | _, _ => bad
  | ["bits_sparse", len, nw, fill, flips] =>
    match parseNat len, parseNat nw, parseBool fill, parseNatList flips with
    | some len, some nw, some fill, some flips =>
      let flips := flips.toArray
      if len ≤ 64 * nw && Sparse.flipsOK flips (64 * nw) then (mkSparse len nw fill flips, "ok") else bad
    | _, _, _, _ => bad
  | ["build", sid, p1, p2] => match capsOf sid, parseNat p1, parseNat p2 with
    | some _, some p1, some p2 =>
      let ls := (layersOf sid p1 p2).getD []
      ({ r with built := some (sid, p1, p2),
                layers := if r.sparse then Sparse.modelsOf r.words r.len r.n1 ls
                          else ls.map (modelOf r.words r.len r.ones.size) }, "ok")
    | _, _, _ => bad
  | q :: args =>
    match r.built with
    | none => (r, "nostruct")
    | some (sid, _, _) =>
      match capsOf sid with
      | none => bad
      | some c =>
        let n1 := if r.sparse then r.n1 else r.ones.size
        let n0 := if r.sparse then r.len - r.n1 else r.zeros.size
        match q, args with
        | "rank", [p] => match parseNat p with
          | some p => (r, if c.rank then
              (match firstSome r.layers (·.rank) with
               | some f => fmtOutNat (f p)
               | none => s!"ok {lowerBound r.ones p}") else "na") | none => bad
        | "rank_zero", [p] => match parseNat p with
          | some p => (r, if c.rank then
              (match firstSome r.layers (·.rank) with
               | some f => (match f p with | .ok v => s!"ok {p - v}" | .panic => "panic" | .oob => "oob")
               | none => s!"ok {p - lowerBound r.ones p}") else "na") | none => bad
        | "num_ones", [] => (r, if c.numbits then
            s!"ok {(firstSome r.layers (·.numOnes)).getD n1}" else "na")
        | "num_zeros", [] => (r, if c.numbits then
            s!"ok {r.len - (firstSome r.layers (·.numOnes)).getD n1}" else "na")
        | "count_ones", [] => (r, if c.count then s!"ok {n1}" else "na")
        | "len", [] => (r, s!"ok {r.len}")
        | "parts", [] =>
          (r, if r.layers.all (·.isSome) && !r.layers.isEmpty
              then "ok " ++ " | ".intercalate (r.layers.filterMap (fun l => l.map (·.parts)))
              else "unmodelled")
        | "index", [i] => match parseNat i with
          | some i => (r, if i < r.len then s!"ok {fmtBool (bitAt 64 r.words i)}" else "panic") | none => bad
        | "select", [k] => match parseNat k with
          | some k => (r, if c.select then
              (match firstSome r.layers (·.select) with
               | some f => fmtOutO (f k)
               | none => fmtO (if k < n1 then r.ones[k]? else none)) else "na") | none => bad
        | "select_zero", [k] => match parseNat k with
          | some k => (r, if c.selectZero then
              (match firstSome r.layers (·.selectZero) with
               | some f => fmtOutO (f k)
               | none => fmtO (if k < n0 then r.zeros[k]? else none)) else "na") | none => bad
        | _, _ => bad
  | _ => bad

def runner : Runner := { σ := RSt, init := {}, step := step }

end Sux.RS
