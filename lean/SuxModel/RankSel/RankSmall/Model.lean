import SuxModel.Base.Bits
import SuxModel.Base.Proto
import SuxModel.RankSel.Layer
/-!
# Model of `RankSmall<NUM_U32S, COUNTER_WIDTH>` (`src/rank_sel/rank_small.rs`) over a `BitVec`

One model for the five instantiations of `impl_rank_small!`, parameterised by `SmallParams`.

Representation of `Block32Counters.relative : [u32; NUM_U32S]`: the little-endian integer held by
those `4 * NUM_U32S` bytes (`relWords` gives back the `u32` words; this is what `read_unaligned`
as `u64` / `u128 >> 32` yields on the little-endian target, and `relative[0]` when `NUM_U32S = 1`).
The five `set_rel` differ only in the integer type in which `counter << shift` is evaluated
(`castBits`: `u32`, `u64`, `u128`) and all of them store the low `32 * NUM_U32S` bits.

Machine arithmetic: every `usize` quantity is bounded by `len`; the subtractions of the builder are
modelled as checked (`.panic` on underflow, as in a build with overflow checks), `as u32` as
`% 2^32`, shifts with `shlW`.
-/
namespace Sux.RS.RankSmall

/-- `usize::div_ceil` -/
def divCeil (a b : Nat) : Nat := if a % b > 0 then a / b + 1 else a / b

/-- the const generics `<NUM_U32S, COUNTER_WIDTH>` -/
structure SmallParams where
  numU32 : Nat
  counterWidth : Nat
deriving Repr, DecidableEq, Inhabited

namespace SmallParams

/-- `WORDS_PER_BLOCK = 1 << (COUNTER_WIDTH - usize::BITS.ilog2())` -/
def wordsPerBlock (P : SmallParams) : Nat := 1 <<< (P.counterWidth - 6)

/-- number of subblocks: `match NUM_U32S { 1 => 4, 2 => 8, 3 => 8, _ => panic!(…) }`
(other values do not compile; `0` here) -/
def subblocks (P : SmallParams) : Nat :=
  match P.numU32 with
  | 1 => 4
  | 2 => 8
  | 3 => 8
  | _ => 0

/-- `WORDS_PER_SUBBLOCK` -/
def wordsPerSubblock (P : SmallParams) : Nat := P.wordsPerBlock / P.subblocks

/-- the constant xor-ed to the subblock index in `rel` / `set_rel` (`3` or `7`) -/
def xorMask (P : SmallParams) : Nat := P.subblocks - 1

/-- number of bits of `relative` -/
def relBits (P : SmallParams) : Nat := 32 * P.numU32

/-- width of the integer type in which `set_rel` shifts the counter -/
def castBits (P : SmallParams) : Nat := if P.numU32 = 3 then 128 else 32 * P.numU32

end SmallParams

/-- `rank_small![k; …]` -/
def variant (k : Nat) : SmallParams :=
  match k with
  | 0 => ⟨2, 9⟩
  | 1 => ⟨1, 9⟩
  | 2 => ⟨1, 10⟩
  | 3 => ⟨1, 11⟩
  | _ => ⟨3, 13⟩

/-- `Block32Counters` (`relative` as one little-endian integer of `32 * NUM_U32S` bits) -/
structure Block32 where
  absolute : Nat
  relative : Nat
deriving Repr, DecidableEq, Inhabited

/-- the `u32` words `relative[0..NUM_U32S]` -/
def relWords (P : SmallParams) (relative : Nat) : List Nat :=
  (List.range P.numU32).map (fun i => (relative >>> (32 * i)) % 2 ^ 32)

/-- `Block32Counters::rel` -/
def rel (P : SmallParams) (relative word : Nat) : Nat :=
  (relative >>> (P.counterWidth * (word ^^^ P.xorMask))) &&& ((1 <<< P.counterWidth) - 1)

/-- `Block32Counters::set_rel` -/
def setRel (P : SmallParams) (relative word counter : Nat) : Nat :=
  (relative ||| shlW P.castBits (counter % 2 ^ P.castBits) (P.counterWidth * (word ^^^ P.xorMask)))
    % 2 ^ P.relBits

/-- `RankSmall { upper_counts, counts, num_ones }` (the backend is not copied) -/
structure Idx where
  upper : Array Nat
  counts : Array Block32
  numOnes : Nat
deriving Repr, DecidableEq, Inhabited

/-- unchecked access to the counter array -/
def readC (cs : Array Block32) (i : Nat) : Out Block32 :=
  match cs[i]? with
  | some c => .ok c
  | none => .oob

/-- `a - b` with overflow check -/
def checkedSub (a b : Nat) : Out Nat := if b ≤ a then .ok (a - b) else .panic

/-- the closure `count_ones` of `RankSmall::new` -/
def countOnes (ws : Array Nat) (len numWords i : Nat) : Out Nat := do
  let word ← Out.readS ws i
  let residual := len % 64
  let word := if residual != 0 && i == numWords - 1 then word &&& ((1 <<< residual) - 1) else word
  pure (popcount 64 word)

/-- `for j in 1..Self::WORDS_PER_BLOCK { … }`; `fuel` iterations starting at `j`;
returns `(past_ones, count.relative)` -/
def relLoop (P : SmallParams) (ws : Array Nat) (len numWords i upperCount absolute : Nat) :
    (fuel j pastOnes relative : Nat) → Out (Nat × Nat)
  | 0, _, pastOnes, relative => .ok (pastOnes, relative)
  | fuel + 1, j, pastOnes, relative => do
    let relative ← if j % P.wordsPerSubblock = 0 then (do
        let d ← checkedSub pastOnes upperCount
        let relCount ← checkedSub d absolute
        pure (setRel P relative (j / P.wordsPerSubblock) relCount)) else pure relative
    let pastOnes ← if i + j < numWords then (do
        let c ← countOnes ws len numWords (i + j)
        pure (pastOnes + c)) else pure pastOnes
    relLoop P ws len numWords i upperCount absolute fuel (j + 1) pastOnes relative

/-- state of the outer loop of `RankSmall::new` -/
structure BuildSt where
  pastOnes : Nat
  upperCount : Nat
  upper : Array Nat
  counts : Array Block32

/-- `for i in (0..num_words).step_by(Self::WORDS_PER_BLOCK) { … }`; `fuel` iterations from word `i` -/
def blockLoop (P : SmallParams) (ws : Array Nat) (len numWords : Nat) :
    (fuel i : Nat) → BuildSt → Out BuildSt
  | 0, _, st => .ok st
  | fuel + 1, i, st => do
    let st := if i % (1 <<< 26) = 0
      then { st with upperCount := st.pastOnes, upper := st.upper.push st.pastOnes } else st
    let d ← checkedSub st.pastOnes st.upperCount
    let absolute := d % 2 ^ 32
    let c ← countOnes ws len numWords i
    let (pastOnes, relative) ←
      relLoop P ws len numWords i st.upperCount absolute (P.wordsPerBlock - 1) 1 (st.pastOnes + c) 0
    blockLoop P ws len numWords fuel (i + P.wordsPerBlock)
      { st with pastOnes := pastOnes,
                counts := st.counts.push { absolute := absolute, relative := relative } }

/-- `RankSmall::new` -/
def build (P : SmallParams) (ws : Array Nat) (len : Nat) : Out Idx := do
  let numWords := divCeil len 64
  let numUpperCounts := divCeil len (1 <<< 32)
  let numCounts := divCeil len (64 * P.wordsPerBlock)
  let st ← blockLoop P ws len numWords (divCeil numWords P.wordsPerBlock) 0
    { pastOnes := 0, upperCount := 0, upper := #[], counts := #[] }
  if st.upper.size ≠ numUpperCounts then .panic      -- assert_eq!
  else if st.counts.size ≠ numCounts then .panic     -- assert_eq!
  else pure { upper := st.upper, counts := st.counts, numOnes := st.pastOnes }

/-- the `while` loop of `BitVec::rank_hinted`; returns `(hint_pos, rank)` -/
def rankHintedLoop (ws : Array Nat) (pos : Nat) : (fuel hintPos rank : Nat) → Out (Nat × Nat)
  | 0, hintPos, rank => .ok (hintPos, rank)
  | fuel + 1, hintPos, rank =>
    if (hintPos + 1) * 64 ≤ pos then do
      let w ← Out.readU ws hintPos
      rankHintedLoop ws pos fuel (hintPos + 1) (rank + popcount 64 w)
    else .ok (hintPos, rank)

/-- `RankHinted::<64>::rank_hinted` of `BitVec` (`src/bits/bit_vec.rs`); the `debug_assert!` is
active in the builds the harness runs; the loop runs at most `pos / 64` times -/
def rankHinted (ws : Array Nat) (pos hintPos hintRank : Nat) : Out Nat :=
  if ¬ hintPos < ws.size then .panic else do
    let (hintPos, rank) ← rankHintedLoop ws pos (pos / 64 + 1) hintPos hintRank
    let w ← Out.readU ws hintPos
    pure (rank + popcount 64 (w &&& ((1 <<< (pos % 64)) - 1)))

/-- `RankUnchecked::rank_unchecked` -/
def rankUnchecked (P : SmallParams) (ws : Array Nat) (x : Idx) (pos : Nat) : Out Nat := do
  let wordPos := pos / 64
  let block := wordPos / P.wordsPerBlock
  let offset := (wordPos % P.wordsPerBlock) / P.wordsPerSubblock
  let c ← readC x.counts block
  let upperCount ← Out.readU x.upper (wordPos / (1 <<< 26))
  let hintRank := upperCount + c.absolute + rel P c.relative offset
  if P.wordsPerSubblock = 1 then do
    let word ← Out.readU ws wordPos
    pure (hintRank + popcount 64 (word &&& ((1 <<< (pos % 64)) - 1)))
  else
    let hintPos := wordPos - ((wordPos % P.wordsPerBlock) % P.wordsPerSubblock)
    rankHinted ws pos hintPos hintRank

/-- `Rank::rank` (trait default, with its clamp; `num_ones` is the stored field) -/
def rank (P : SmallParams) (ws : Array Nat) (len : Nat) (x : Idx) (pos : Nat) : Out Nat :=
  if pos ≥ len then .ok x.numOnes else rankUnchecked P ws x pos

/-- `RankZero::rank_zero` (trait default) -/
def rankZero (P : SmallParams) (ws : Array Nat) (len : Nat) (x : Idx) (pos : Nat) : Out Nat := do
  let r ← rank P ws len x pos
  pure (pos - r)

/-- `NumBits::num_zeros` (trait default) -/
def numZeros (len : Nat) (x : Idx) : Nat := len - x.numOnes

/-- `RankSmall::new(bits).rank(pos)` -/
def rankOf (P : SmallParams) (ws : Array Nat) (len pos : Nat) : Out Nat := do
  let x ← build P ws len
  rank P ws len x pos

def partsOf (P : SmallParams) (x : Idx) : String :=
  s!"rs upper={Sux.Proto.fmtNatList x.upper.toList} abs={Sux.Proto.fmtNatList (x.counts.toList.map (·.absolute))} rel={Sux.Proto.fmtNatList (x.counts.toList.flatMap (fun c => relWords P c.relative))} ones={x.numOnes}"

/-- the layer `RankSmall<…>` (variant `k` of `rank_small!`) over `(ws, len)`; `n1` is not used:
`RankSmall` counts by itself -/
def layer (ws : Array Nat) (len _n1 k : Nat) : LayerModel :=
  let P := variant k
  match build P ws len with
  | .ok x =>
    { parts := partsOf P x
      rank := some (rank P ws len x)
      numOnes := some x.numOnes }
  | .panic => { parts := "panic" }
  | .oob => { parts := "oob" }

end Sux.RS.RankSmall
