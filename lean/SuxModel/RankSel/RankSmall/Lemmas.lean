import SuxModel.RankSel.LemmasPack
/-!
# `RankSmall`: builder invariant and query correctness for every admissible parameter tuple

`Admissible P` collects the arithmetic side conditions on `(NUM_U32S, COUNTER_WIDTH)` that the
proofs need (a decidable proposition; the five tuples of `rank_small!` satisfy it by evaluation).
`InvOK P ws len x` is the explicit invariant on the built arrays.  (Q) `rank_of_inv`,
(B) `build_inv`.  No bound on `len` is needed: `absolute` never truncates because the base
`upper_count` is reset every `2^26` words (`absolute_no_trunc` inside `blockLoop_spec`).
-/
namespace Sux.RS.RankSmall

/-- ones before word `i` -/
abbrev R (ws : Array Nat) (len i : Nat) : Nat := rankSpec ws len (64 * i)

/-- side conditions on the parameter tuple: block of `2^(cw-6)` words dividing `2^26`, split in
`subblocks` subblocks; the ones preceding subblock `s` inside a block (at most `s * wps * 64`) fit
in a `cw`-bit field and, shifted to their slot, in the `32 * NUM_U32S` bits of `relative` -/
def Admissible (P : SmallParams) : Prop :=
  6 ≤ P.counterWidth ∧ P.counterWidth ≤ 32 ∧ 0 < P.wordsPerSubblock ∧
  P.subblocks * P.wordsPerSubblock = P.wordsPerBlock ∧ P.relBits ≤ P.castBits ∧
  (∀ s, s < P.subblocks → s ^^^ P.xorMask < P.subblocks) ∧
  (∀ s, s < P.subblocks → 1 ≤ s → s * P.wordsPerSubblock * 64 < 2 ^ P.counterWidth ∧
     (s * P.wordsPerSubblock * 64) <<< (P.counterWidth * (s ^^^ P.xorMask)) < 2 ^ P.relBits)

instance (P : SmallParams) : Decidable (Admissible P) := by unfold Admissible; infer_instance

/-- the five instantiations of `impl_rank_small!` are admissible -/
theorem variant_admissible : ∀ k, Admissible (variant k)
  | 0 => by decide
  | 1 => by decide
  | 2 => by decide
  | 3 => by decide
  | n + 4 => by show Admissible ⟨3, 13⟩; decide

theorem wpb_eq (P : SmallParams) : P.wordsPerBlock = 2 ^ (P.counterWidth - 6) := Nat.one_shiftLeft _

theorem wpb_pos (P : SmallParams) : 0 < P.wordsPerBlock := by
  rw [wpb_eq]; exact Nat.two_pow_pos _

theorem rel_eq_slotVal (P : SmallParams) (r s : Nat) :
    rel P r s = slotVal P.counterWidth r (s ^^^ P.xorMask) := by
  unfold rel slotVal
  rw [Nat.one_shiftLeft]
  exact Nat.and_two_pow_sub_one_eq_mod _ _

section
variable {P : SmallParams} (hP : Admissible P)
include hP

theorem packOK : PackOK P.counterWidth P.xorMask P.wordsPerSubblock P.subblocks P.relBits where
  wps_pos := hP.2.2.1
  xor_lt := hP.2.2.2.2.2.1
  fit := hP.2.2.2.2.2.2

theorem sub_wps : P.subblocks * P.wordsPerSubblock = P.wordsPerBlock := hP.2.2.2.1

/-- a block divides the span of an upper counter -/
theorem wpb_dvd : 2 ^ 26 = 2 ^ (32 - P.counterWidth) * P.wordsPerBlock := by
  have e : P.wordsPerBlock = 2 ^ (P.counterWidth - 6) := Nat.one_shiftLeft _
  rw [e, ← Nat.pow_add]
  have h1 := hP.1
  have h2 := hP.2.1
  congr 1
  omega

/-- a block that starts inside the span of an upper counter ends inside it -/
theorem block_in_span (i : Nat) (hi : i % P.wordsPerBlock = 0) :
    i % 2 ^ 26 + P.wordsPerBlock ≤ 2 ^ 26 := by
  have hd := wpb_dvd hP
  have hw := wpb_pos P
  generalize P.wordsPerBlock = w at *
  generalize 2 ^ (32 - P.counterWidth) = q at *
  have hdvd : w ∣ 2 ^ 26 := ⟨q, by rw [hd, Nat.mul_comm]⟩
  have hm : i % 2 ^ 26 % w = 0 := by rw [Nat.mod_mod_of_dvd i hdvd]; exact hi
  have hlt : i % 2 ^ 26 < 2 ^ 26 := Nat.mod_lt _ (Nat.two_pow_pos 26)
  generalize i % 2 ^ 26 = m at *
  have hmw : w * (m / w) = m := by
    have := Nat.div_add_mod m w
    omega
  have hq : m / w < q := by
    apply (Nat.div_lt_iff_lt_mul hw).mpr
    omega
  have h3 : w * (m / w + 1) ≤ w * q := Nat.mul_le_mul_left w hq
  rw [Nat.mul_succ, hmw] at h3
  rw [hd, Nat.mul_comm q w]
  exact h3

/-- the block of word `x` lies in the span of the same upper counter as `x` -/
theorem block_same_span (x : Nat) :
    x / P.wordsPerBlock * P.wordsPerBlock / 2 ^ 26 = x / 2 ^ 26 := by
  have hd := wpb_dvd hP
  have hw := wpb_pos P
  generalize P.wordsPerBlock = w at *
  generalize 2 ^ (32 - P.counterWidth) = q at *
  have h1 : x / w * w ≤ x := Nat.div_mul_le_self x w
  have h2 : x / 2 ^ 26 * 2 ^ 26 ≤ x / w * w := by
    have e : x / 2 ^ 26 * 2 ^ 26 = (x / 2 ^ 26 * q) * w := by rw [hd, Nat.mul_assoc]
    rw [e]
    apply Nat.mul_le_mul_right
    apply (Nat.le_div_iff_mul_le hw).mpr
    rw [← e]
    exact Nat.div_mul_le_self x _
  generalize x / w * w = y at *
  omega

theorem setRel_eq (r word v : Nat) (hr : r < 2 ^ P.relBits)
    (hv : v <<< (P.counterWidth * (word ^^^ P.xorMask)) < 2 ^ P.relBits) :
    setRel P r word v = r ||| (v <<< (P.counterWidth * (word ^^^ P.xorMask))) := by
  have hcb : 2 ^ P.relBits ≤ 2 ^ P.castBits := Nat.pow_le_pow_right (by omega) hP.2.2.2.2.1
  have hvle : v ≤ v <<< (P.counterWidth * (word ^^^ P.xorMask)) := by
    rw [Nat.shiftLeft_eq]
    exact Nat.le_mul_of_pos_right _ (Nat.two_pow_pos _)
  unfold setRel shlW
  rw [Nat.mod_eq_of_lt (by omega : v < 2 ^ P.castBits),
    Nat.mod_eq_of_lt (by omega : v <<< (P.counterWidth * (word ^^^ P.xorMask)) < 2 ^ P.castBits),
    Nat.mod_eq_of_lt (Nat.or_lt_two_pow hr hv)]

end

/-! ## the inner loop -/

theorem checkedSub_ok {a b : Nat} (h : b ≤ a) : checkedSub a b = .ok (a - b) := by
  unfold checkedSub; rw [if_pos h]

theorem relLoop_step (P : SmallParams) (ws : Array Nat) (len i uc a f j n r : Nat)
    (h : uc + a ≤ n) :
    relLoop P ws len (divCeil len 64) i uc a (f + 1) j n r =
      (if i + j < divCeil len 64 then
        (countOnes ws len (divCeil len 64) (i + j)) >>= fun c =>
          relLoop P ws len (divCeil len 64) i uc a f (j + 1) (n + c)
            (if j % P.wordsPerSubblock = 0
              then setRel P r (j / P.wordsPerSubblock) (n - (uc + a)) else r)
       else relLoop P ws len (divCeil len 64) i uc a f (j + 1) n
            (if j % P.wordsPerSubblock = 0
              then setRel P r (j / P.wordsPerSubblock) (n - (uc + a)) else r)) := by
  conv => lhs; unfold relLoop
  have h1 : uc ≤ n := by omega
  have h2 : a ≤ n - uc := by omega
  by_cases hm : j % P.wordsPerSubblock = 0
  · simp only [if_pos hm, checkedSub_ok h1, checkedSub_ok h2, Out.bind_ok, Out.pure_eq, Nat.sub_sub]
    by_cases hw : i + j < divCeil len 64
    · rw [if_pos hw, if_pos hw]
      cases countOnes ws len (divCeil len 64) (i + j) <;> rfl
    · rw [if_neg hw, if_neg hw]
  · simp only [if_neg hm, Out.bind_ok, Out.pure_eq]
    by_cases hw : i + j < divCeil len 64
    · rw [if_pos hw, if_pos hw]
      cases countOnes ws len (divCeil len 64) (i + j) <;> rfl
    · rw [if_neg hw, if_neg hw]

/-- one block of `RankSmall::new`, given that `upper_count + absolute` is the number of ones
before the block -/
theorem relLoop_block {P : SmallParams} (hP : Admissible P) (ws : Array Nat) (len : Nat)
    (hlen : len ≤ 64 * ws.size) (i uc a : Nat) (hbase : uc + a = R ws len i) :
    ∃ n' r', relLoop P ws len (divCeil len 64) i uc a (P.wordsPerBlock - 1) 1 (R ws len (i + 1)) 0
        = .ok (n', r') ∧
      n' = R ws len (i + P.wordsPerBlock) ∧
      ∀ s, s < P.subblocks →
        rel P r' s = R ws len (i + s * P.wordsPerSubblock) - R ws len i := by
  have hw := wpb_pos P
  have hsw := sub_wps hP
  have h := relLoop_generic (packOK hP) (setRel P)
    (fun r word v hr hv => setRel_eq hP r word v hr hv) ws len hlen i (uc + a) hbase
    (fun f j n r => relLoop P ws len (divCeil len 64) i uc a f j n r)
    (fun j n r => by simp only [relLoop])
    (fun f j n r hb => relLoop_step P ws len i uc a f j n r hb)
    (P.wordsPerBlock - 1) 1 (R ws len (i + 1)) 0 (by omega) (by omega)
    ⟨rfl, Nat.two_pow_pos _, slots_init _ _ _ _ _ (packOK hP).wps_pos⟩
  obtain ⟨n', r', he, hn, _, hsl⟩ := h
  have e1 : 1 + (P.wordsPerBlock - 1) = P.subblocks * P.wordsPerSubblock := by omega
  refine ⟨n', r', he, ?_, ?_⟩
  · rw [hn]
    have : 64 * (i + (1 + (P.wordsPerBlock - 1))) = 64 * (i + P.wordsPerBlock) := by omega
    rw [this]
  · intro s hs
    rw [e1] at hsl
    rw [rel_eq_slotVal P, slots_read (packOK hP) _ (by simp) hsl hs]

/-! ## the outer loop -/

/-- the counters of block `k` -/
def BlockOK (P : SmallParams) (ws : Array Nat) (len k : Nat) (c : Block32) : Prop :=
  R ws len (k * P.wordsPerBlock / 2 ^ 26 * 2 ^ 26) + c.absolute = R ws len (k * P.wordsPerBlock) ∧
  ∀ s, s < P.subblocks → rel P c.relative s
    = R ws len (k * P.wordsPerBlock + s * P.wordsPerSubblock) - R ws len (k * P.wordsPerBlock)

/-- state of the outer loop before block `b` -/
structure LoopSt (P : SmallParams) (ws : Array Nat) (len b : Nat) (st : BuildSt) : Prop where
  past : st.pastOnes = R ws len (b * P.wordsPerBlock)
  uc : b * P.wordsPerBlock % 2 ^ 26 ≠ 0 →
    st.upperCount = R ws len (b * P.wordsPerBlock / 2 ^ 26 * 2 ^ 26)
  usize : st.upper.size = divCeil (b * P.wordsPerBlock) (2 ^ 26)
  uok : ∀ u v, st.upper[u]? = some v → v = R ws len (u * 2 ^ 26)
  csize : st.counts.size = b
  cok : ∀ k c, st.counts[k]? = some c → BlockOK P ws len k c

theorem getElem?_push_some {α} {cs : Array α} {x c : α} {k : Nat}
    (h : (cs.push x)[k]? = some c) : (k < cs.size ∧ cs[k]? = some c) ∨ (k = cs.size ∧ c = x) := by
  rw [Array.getElem?_push] at h
  by_cases e : k = cs.size
  · right; rw [if_pos e] at h; exact ⟨e, (Option.some.inj h).symm⟩
  · left; rw [if_neg e] at h
    refine ⟨?_, h⟩
    by_cases hk : k < cs.size
    · exact hk
    · rw [Array.getElem?_eq_none (by omega)] at h; cases h

/-- the counter increment inside the span of one upper counter fits in 32 bits -/
theorem absolute_no_trunc (ws : Array Nat) (len i : Nat) :
    R ws len i - R ws len (i / 2 ^ 26 * 2 ^ 26) < 2 ^ 32 := by
  have := rankSpec_le_add ws len (p := 64 * (i / 2 ^ 26 * 2 ^ 26)) (q := 64 * i) (by omega)
  simp only [R]
  omega

theorem blockLoop_spec {P : SmallParams} (hP : Admissible P) (ws : Array Nat) (len : Nat)
    (hlen : len ≤ 64 * ws.size) :
    ∀ f b st, b + f ≤ divCeil (divCeil len 64) P.wordsPerBlock → LoopSt P ws len b st →
      ∃ st', blockLoop P ws len (divCeil len 64) f (b * P.wordsPerBlock) st = .ok st' ∧
        LoopSt P ws len (b + f) st' := by
  intro f
  induction f with
  | zero => intro b st _ hst; exact ⟨st, rfl, hst⟩
  | succ f ih =>
    intro b st hbf hst
    have hw := wpb_pos P
    have hb : b < divCeil (divCeil len 64) P.wordsPerBlock := by omega
    have hi : b * P.wordsPerBlock < divCeil len 64 := by
      have := (lt_divCeil hw).mp hb
      rwa [Nat.mul_comm] at this
    have hK := block_in_span hP (b * P.wordsPerBlock) (Nat.mul_mod_left b _)
    have hsucc : (b + 1) * P.wordsPerBlock = b * P.wordsPerBlock + P.wordsPerBlock := Nat.succ_mul _ _
    obtain ⟨hpast, huc, husz, huok, hcsz, hcok⟩ := hst
    unfold blockLoop
    dsimp only
    rw [Nat.one_shiftLeft]
    generalize hst1 : (if b * P.wordsPerBlock % 2 ^ 26 = 0
      then ({ pastOnes := st.pastOnes, upperCount := st.pastOnes,
              upper := st.upper.push st.pastOnes, counts := st.counts } : BuildSt) else st) = st1
    generalize hi0 : b * P.wordsPerBlock = i at *
    have h1 : st1.pastOnes = R ws len i ∧ st1.counts = st.counts ∧
        st1.upperCount = R ws len (i / 2 ^ 26 * 2 ^ 26) ∧ st1.upper.size = i / 2 ^ 26 + 1 ∧
        (∀ u v, st1.upper[u]? = some v → v = R ws len (u * 2 ^ 26)) := by
      have hus := husz
      rw [divCeil] at hus
      by_cases h0 : i % 2 ^ 26 = 0
      · rw [if_pos h0] at hst1
        subst hst1
        refine ⟨hpast, rfl, ?_, ?_, ?_⟩
        · show st.pastOnes = _
          rw [hpast]
          have : i / 2 ^ 26 * 2 ^ 26 = i := by omega
          rw [this]
        · show (st.upper.push st.pastOnes).size = _
          rw [Array.size_push, hus, if_neg (by omega)]
        · intro u v huv
          rcases getElem?_push_some huv with ⟨_, h⟩ | ⟨h1, h2⟩
          · exact huok u v h
          · rw [h2, hpast, h1, hus, if_neg (by omega)]
            have : i / 2 ^ 26 * 2 ^ 26 = i := by omega
            rw [this]
      · rw [if_neg h0] at hst1
        subst hst1
        refine ⟨hpast, rfl, huc h0, ?_, huok⟩
        rw [hus, if_pos (by omega)]
    obtain ⟨hp1, hc1, hu1, hs1, hok1⟩ := h1
    have hmono : R ws len (i / 2 ^ 26 * 2 ^ 26) ≤ R ws len i :=
      rankSpec_mono ws len (by omega)
    have hnt := absolute_no_trunc ws len i
    rw [hp1, hu1, checkedSub_ok hmono]
    simp only [Out.bind_ok]
    rw [Nat.mod_eq_of_lt hnt]
    obtain ⟨c, hc, _, hcs⟩ := countOnes_spec ws len hlen hi
    rw [hc]
    simp only [Out.bind_ok]
    have e1 : R ws len i + c = R ws len (i + 1) := by
      show _ = rankSpec ws len (64 * (i + 1)); rw [hcs]
    rw [e1]
    obtain ⟨n', r', hrl, hn', hrel⟩ := relLoop_block hP ws len hlen i
      (R ws len (i / 2 ^ 26 * 2 ^ 26)) (R ws len i - R ws len (i / 2 ^ 26 * 2 ^ 26)) (by omega)
    rw [hrl]
    simp only [Out.bind_ok]
    have hnext := ih (b + 1)
      { pastOnes := n', upperCount := R ws len (i / 2 ^ 26 * 2 ^ 26), upper := st1.upper,
        counts := st1.counts.push
          { absolute := R ws len i - R ws len (i / 2 ^ 26 * 2 ^ 26), relative := r' } }
      (by omega)
      { past := by rw [hsucc]; exact hn'
        uc := by
          intro hne
          rw [hsucc] at hne ⊢
          show R ws len (i / 2 ^ 26 * 2 ^ 26) = _
          have : (i + P.wordsPerBlock) / 2 ^ 26 = i / 2 ^ 26 := by omega
          rw [this]
        usize := by
          show st1.upper.size = _
          rw [hs1, hsucc, divCeil]
          split <;> omega
        uok := hok1
        csize := by
          show (st1.counts.push _).size = _
          rw [Array.size_push, hc1, hcsz]
        cok := by
          intro k c0 hk
          rcases getElem?_push_some hk with ⟨_, h⟩ | ⟨h1, h2⟩
          · rw [hc1] at h; exact hcok k c0 h
          · rw [hc1, hcsz] at h1
            rw [h1, h2]
            unfold BlockOK
            rw [hi0]
            refine ⟨by show _ + (_ - _) = _; omega, hrel⟩ }
    rw [hsucc] at hnext
    have e2 : b + 1 + f = b + (f + 1) := by omega
    rw [e2] at hnext
    exact hnext

/-! ## invariant, builder -/

/-- explicit invariant on the built arrays -/
structure InvOK (P : SmallParams) (ws : Array Nat) (len : Nat) (x : Idx) : Prop where
  usize : x.upper.size = divCeil (divCeil len 64) (2 ^ 26)
  csize : x.counts.size = divCeil (divCeil len 64) P.wordsPerBlock
  uok : ∀ u v, x.upper[u]? = some v → v = R ws len (u * 2 ^ 26)
  cok : ∀ k c, x.counts[k]? = some c → BlockOK P ws len k c
  ones : x.numOnes = rankSpec ws len len

theorem eq_of_lt_iff {a b : Nat} (h : ∀ i, i < a ↔ i < b) : a = b := by
  have h1 : ¬ a < b := fun hab => Nat.lt_irrefl a ((h a).mpr hab)
  have h2 : ¬ b < a := fun hba => Nat.lt_irrefl b ((h b).mp hba)
  omega

theorem divCeil_divCeil (len w : Nat) (hw : 0 < w) :
    divCeil (divCeil len 64) w = divCeil len (64 * w) := by
  apply eq_of_lt_iff
  intro i
  rw [lt_divCeil hw, lt_divCeil_64, lt_divCeil (by omega), Nat.mul_assoc]

/-- (B) the builder never panics (both `assert_eq!` hold) and establishes the invariant, for every
length and whatever lies beyond `len` -/
theorem build_inv {P : SmallParams} (hP : Admissible P) (ws : Array Nat) (len : Nat)
    (hlen : len ≤ 64 * ws.size) : ∃ x, build P ws len = .ok x ∧ InvOK P ws len x := by
  have hw := wpb_pos P
  unfold build
  dsimp only
  obtain ⟨st', he, hst⟩ := blockLoop_spec hP ws len hlen
    (divCeil (divCeil len 64) P.wordsPerBlock) 0
    { pastOnes := 0, upperCount := 0, upper := #[], counts := #[] } (by omega)
    { past := by show 0 = rankSpec ws len (64 * (0 * _)); rw [Nat.zero_mul, rankSpec_zero]
      uc := by intro h; simp at h
      usize := by simp [divCeil]
      uok := by intro u v h; simp at h
      csize := rfl
      cok := by intro k c h; simp at h }
  rw [Nat.zero_mul] at he
  rw [Nat.zero_add] at hst
  -- the block loop stops at or beyond the last word
  have hnb : divCeil len 64 ≤ P.wordsPerBlock * divCeil (divCeil len 64) P.wordsPerBlock := by
    have h1 : ¬ divCeil (divCeil len 64) P.wordsPerBlock < divCeil (divCeil len 64) P.wordsPerBlock :=
      Nat.lt_irrefl _
    have h2 : ¬ (P.wordsPerBlock * divCeil (divCeil len 64) P.wordsPerBlock < divCeil len 64) :=
      fun h => h1 ((lt_divCeil hw).mpr h)
    omega
  generalize hnbd : divCeil (divCeil len 64) P.wordsPerBlock = nb at *
  -- number of upper counters
  have hus : divCeil (nb * P.wordsPerBlock) (2 ^ 26) = divCeil (divCeil len 64) (2 ^ 26) := by
    apply eq_of_lt_iff
    intro i
    rw [lt_divCeil (Nat.two_pow_pos 26), lt_divCeil (Nat.two_pow_pos 26)]
    constructor
    · intro h
      rw [wpb_dvd hP, Nat.mul_assoc, Nat.mul_comm P.wordsPerBlock, ← Nat.mul_assoc] at h
      have h' := Nat.lt_of_mul_lt_mul_right h
      rw [← hnbd] at h'
      have := (lt_divCeil hw).mp h'
      rw [wpb_dvd hP, Nat.mul_assoc, Nat.mul_comm P.wordsPerBlock, ← Nat.mul_assoc,
        Nat.mul_comm _ P.wordsPerBlock]
      exact this
    · intro h
      rw [Nat.mul_comm nb]
      omega
  have hus2 : divCeil (divCeil len 64) (2 ^ 26) = divCeil len (1 <<< 32) := by
    rw [divCeil_divCeil len _ (Nat.two_pow_pos 26)]; rfl
  have hlast : len ≤ 64 * (nb * P.wordsPerBlock) := by
    have : ¬ (64 * divCeil len 64 < len) := fun h => Nat.lt_irrefl _ (lt_divCeil_64.mpr h)
    rw [Nat.mul_comm nb]
    omega
  rw [he]
  simp only [Out.bind_ok]
  rw [if_neg (by rw [hst.usize, hus, hus2]; exact fun h => h rfl),
    if_neg (by rw [hst.csize, ← hnbd, divCeil_divCeil len _ hw]; exact fun h => h rfl)]
  refine ⟨_, rfl, ?_⟩
  exact
    { usize := by show st'.upper.size = _; rw [hst.usize, hus]
      csize := by show st'.counts.size = _; rw [hst.csize]; exact hnbd.symm
      uok := hst.uok
      cok := hst.cok
      ones := by
        show st'.pastOnes = _
        rw [hst.past]
        exact rankSpec_of_ge ws hlast }

/-! ## queries -/

theorem readC_of_lt {cs : Array Block32} {k : Nat} (h : k < cs.size) :
    ∃ c, cs[k]? = some c ∧ readC cs k = .ok c := by
  refine ⟨cs[k], by simp [h], ?_⟩
  unfold readC
  simp [h]

theorem readU_of_lt {a : Array Nat} {k : Nat} (h : k < a.size) :
    ∃ v, a[k]? = some v ∧ Out.readU a k = .ok v := by
  refine ⟨a[k], by simp [h], ?_⟩
  unfold Out.readU
  simp [h]

/-- the scan of `rank_hinted` from a word boundary at or before `pos` -/
theorem rankHintedLoop_spec (ws : Array Nat) (len pos : Nat) (hlen : len ≤ 64 * ws.size)
    (hpos : pos < len) :
    ∀ fuel hp, hp ≤ pos / 64 → pos / 64 - hp < fuel →
      rankHintedLoop ws pos fuel hp (R ws len hp) = .ok (pos / 64, R ws len (pos / 64)) := by
  intro fuel
  induction fuel with
  | zero => intro hp _ h; omega
  | succ fuel ih =>
    intro hp hle hf
    unfold rankHintedLoop
    by_cases hc : (hp + 1) * 64 ≤ pos
    · rw [if_pos hc]
      have hs : hp < ws.size := by omega
      rw [readU_eq hs]
      simp only [Out.bind_ok]
      have hfull : 64 * (hp + 1) ≤ len := by omega
      have := rankSpec_full_word ws hfull
      have e : R ws len hp + popcount 64 (ws.getD hp 0) = R ws len (hp + 1) := this.symm
      rw [e]
      exact ih (hp + 1) (by omega) (by omega)
    · rw [if_neg hc]
      have : hp = pos / 64 := by omega
      rw [this]

theorem rankHinted_spec (ws : Array Nat) (len pos hp : Nat) (hlen : len ≤ 64 * ws.size)
    (hpos : pos < len) (hle : hp ≤ pos / 64) :
    rankHinted ws pos hp (R ws len hp) = .ok (rankSpec ws len pos) := by
  unfold rankHinted
  have hs : hp < ws.size := by omega
  rw [if_neg (by omega), rankHintedLoop_spec ws len pos hlen hpos _ hp hle (by omega)]
  simp only [Out.bind_ok]
  rw [readU_eq (by omega : pos / 64 < ws.size)]
  simp only [Out.bind_ok, Out.pure_eq]
  rw [rankSpec_split ws (Nat.le_of_lt hpos)]

/-- (Q) from the invariant: `rank` is the specification at every position, never `oob`,
never a failed `debug_assert!` -/
theorem rank_of_inv {P : SmallParams} (hP : Admissible P) {ws : Array Nat} {len : Nat} {x : Idx}
    (hlen : len ≤ 64 * ws.size) (h : InvOK P ws len x) (p : Nat) :
    rank P ws len x p = .ok (rankSpec ws len p) := by
  unfold rank
  by_cases hp : p ≥ len
  · rw [if_pos hp, h.ones, rankSpec_of_ge ws hp]
  · rw [if_neg hp]
    have hp' : p < len := by omega
    have hw := wpb_pos P
    have hws := (packOK hP).wps_pos
    have hsw := sub_wps hP
    have hwsz : p / 64 < ws.size := by omega
    have hwn : p / 64 < divCeil len 64 := lt_divCeil_64.mpr (by omega)
    have hdm := Nat.div_add_mod (p / 64) P.wordsPerBlock
    have hdm2 := Nat.div_add_mod (p / 64 % P.wordsPerBlock) P.wordsPerSubblock
    have hb : p / 64 / P.wordsPerBlock < x.counts.size := by
      rw [h.csize]
      apply (lt_divCeil hw).mpr
      omega
    have hu : p / 64 / 2 ^ 26 < x.upper.size := by
      rw [h.usize]
      apply (lt_divCeil (Nat.two_pow_pos 26)).mpr
      omega
    obtain ⟨c, hc, hrc⟩ := readC_of_lt hb
    obtain ⟨v, hv, hrv⟩ := readU_of_lt hu
    obtain ⟨habs, hrel⟩ := h.cok _ c hc
    have hvv := h.uok _ v hv
    rw [block_same_span hP] at habs
    have hoff : p / 64 % P.wordsPerBlock / P.wordsPerSubblock < P.subblocks := by
      apply (Nat.div_lt_iff_lt_mul hws).mpr
      rw [hsw]
      exact Nat.mod_lt _ hw
    have hrel' := hrel _ hoff
    -- the hint position
    have hhint : p / 64 / P.wordsPerBlock * P.wordsPerBlock
        + p / 64 % P.wordsPerBlock / P.wordsPerSubblock * P.wordsPerSubblock
        = p / 64 - p / 64 % P.wordsPerBlock % P.wordsPerSubblock := by
      rw [Nat.mul_comm _ P.wordsPerBlock, Nat.mul_comm _ P.wordsPerSubblock]
      omega
    have hmono := rankSpec_mono ws len
      (p := 64 * (p / 64 / P.wordsPerBlock * P.wordsPerBlock))
      (q := 64 * (p / 64 - p / 64 % P.wordsPerBlock % P.wordsPerSubblock)) (by omega)
    have hhr : v + c.absolute + rel P c.relative (p / 64 % P.wordsPerBlock / P.wordsPerSubblock)
        = R ws len (p / 64 - p / 64 % P.wordsPerBlock % P.wordsPerSubblock) := by
      rw [hrel', hvv, habs, hhint]
      simp only [R] at hmono ⊢
      omega
    unfold rankUnchecked
    dsimp only
    rw [hrc, Nat.one_shiftLeft, hrv]
    simp only [Out.bind_ok]
    rw [hhr]
    by_cases h1 : P.wordsPerSubblock = 1
    · rw [if_pos h1, readU_eq hwsz]
      simp only [Out.bind_ok, Out.pure_eq]
      rw [h1, Nat.mod_one, Nat.sub_zero, rankSpec_split ws (Nat.le_of_lt hp')]
    · rw [if_neg h1]
      exact rankHinted_spec ws len p _ hlen hp' (by omega)

end Sux.RS.RankSmall
