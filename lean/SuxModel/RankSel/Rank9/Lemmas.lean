import SuxModel.RankSel.LemmasPack
/-!
# `Rank9`: the builder establishes the counter invariant, the invariant gives `rank` (proof-only)

`InvOK ws len counts` is the explicit invariant on the built array: one entry per 512-bit block plus
the sentinel, every `absolute` is the number of ones before its block, every 9-bit field
`rel j` the number of ones in the first `j` words of the block.  (Q) `rank_of_inv`, (B) `build_inv`.
-/
namespace Sux.RS.Rank9

/-- ones before word `i` -/
abbrev R (ws : Array Nat) (len i : Nat) : Nat := rankSpec ws len (64 * i)

/-! ## packing -/

/-- the arithmetic of the packing: 7 subblocks of 1 word, 9-bit fields in a 64-bit word;
word `s` of a block is preceded by at most `64 * s ≤ 448 < 512` ones of the block -/
theorem packOK9 : PackOK 9 7 1 8 64 where
  wps_pos := by decide
  xor_lt := by decide
  fit := by decide

theorem rel_eq_slotVal (r s : Nat) : rel r s = slotVal 9 r (s ^^^ 7) := by
  unfold rel slotVal
  exact Nat.and_two_pow_sub_one_eq_mod _ 9

theorem setRel_eq (r word v : Nat) (_hr : r < 2 ^ 64) (hv : v <<< (9 * (word ^^^ 7)) < 2 ^ 64) :
    setRel r word v = r ||| (v <<< (9 * (word ^^^ 7))) := by
  unfold setRel shlW
  rw [Nat.mod_eq_of_lt hv]

/-- **packing lemma**: writing a counter `v ≤ 64 * j` (all the block can hold before word `j`, the
saturated case being `v = 448` at `j = 7`) into field `j` loses nothing and touches no other field -/
theorem rel_setRel (r j v j' : Nat) (hr : r < 2 ^ 64) (hj1 : 1 ≤ j) (hj : j < 8) (hv : v ≤ 64 * j) :
    setRel r j v < 2 ^ 64 ∧
    rel (setRel r j v) j' = if j' = j then rel r j' ||| v else rel r j' := by
  obtain ⟨h1, h2⟩ := packOK9.fit j hj hj1
  have hv9 : v < 2 ^ 9 := by omega
  have hsh : v <<< (9 * (j ^^^ 7)) < 2 ^ 64 := by
    apply Nat.lt_of_le_of_lt _ h2
    rw [Nat.shiftLeft_eq, Nat.shiftLeft_eq]
    exact Nat.mul_le_mul_right _ (by omega)
  rw [setRel_eq r j v hr hsh]
  refine ⟨Nat.or_lt_two_pow hr hsh, ?_⟩
  rw [rel_eq_slotVal, rel_eq_slotVal, slotVal_or_shift _ _ _ _ _ hv9]
  by_cases e : j' = j
  · subst e; rw [if_pos rfl, if_pos rfl]
  · have : ¬ (j' ^^^ 7 = j ^^^ 7) := by
      intro h
      apply e
      have := congrArg (· ^^^ 7) h
      simpa [xor_xor_cancel] using this
    rw [if_neg e, if_neg this]

/-! ## the inner loop -/

theorem relLoop_step (ws : Array Nat) (len i a f j n r : Nat) :
    relLoop ws len (RankSmall.divCeil len 64) i a (f + 1) j n r =
      (if i + j < RankSmall.divCeil len 64 then
        (RankSmall.countOnes ws len (RankSmall.divCeil len 64) (i + j)) >>= fun c =>
          relLoop ws len (RankSmall.divCeil len 64) i a f (j + 1) (n + c)
            (if j % 1 = 0 then setRel r (j / 1) (n - a) else r)
       else relLoop ws len (RankSmall.divCeil len 64) i a f (j + 1) n
            (if j % 1 = 0 then setRel r (j / 1) (n - a) else r)) := by
  rw [Nat.mod_one, if_pos rfl, Nat.div_one]
  conv => lhs; unfold relLoop
  rw [rank9_countOnes_eq]
  by_cases h : i + j < RankSmall.divCeil len 64
  · rw [if_pos h, if_pos h]
    cases RankSmall.countOnes ws len (RankSmall.divCeil len 64) (i + j) <;> rfl
  · rw [if_neg h, if_neg h]; rfl

/-- the counters of block `k` -/
def BlockOK (ws : Array Nat) (len k : Nat) (c : BlockCounters) : Prop :=
  c.absolute = R ws len (8 * k) ∧ ∀ s, s < 8 → rel c.relative s = R ws len (8 * k + s) - R ws len (8 * k)

/-- one block of `Rank9::new` -/
theorem relLoop_block (ws : Array Nat) (len : Nat) (hlen : len ≤ 64 * ws.size) (k : Nat) :
    ∃ n' r', relLoop ws len (RankSmall.divCeil len 64) (8 * k) (R ws len (8 * k)) 7 1
        (R ws len (8 * k + 1)) 0 = .ok (n', r') ∧
      n' = R ws len (8 * (k + 1)) ∧
      BlockOK ws len k { absolute := R ws len (8 * k), relative := r' } := by
  have h := relLoop_generic packOK9 setRel
    (fun r word v hr hv => setRel_eq r word v hr hv) ws len hlen (8 * k) (R ws len (8 * k)) rfl
    (fun f j n r => relLoop ws len (RankSmall.divCeil len 64) (8 * k) (R ws len (8 * k)) f j n r)
    (fun j n r => by simp only [relLoop])
    (fun f j n r _ => relLoop_step ws len (8 * k) (R ws len (8 * k)) f j n r)
    7 1 (R ws len (8 * k + 1)) 0 (by omega) (by omega)
    ⟨rfl, Nat.two_pow_pos 64, slots_init _ _ _ _ _ (by omega)⟩
  obtain ⟨n', r', he, hn, _, hsl⟩ := h
  refine ⟨n', r', he, ?_, rfl, ?_⟩
  · rw [hn]
    have : 64 * (8 * k + (1 + 7)) = 64 * (8 * (k + 1)) := by omega
    rw [this]
  · intro s hs
    show rel r' s = _
    rw [rel_eq_slotVal, slots_read packOK9 _ (by simp) hsl hs]
    simp only [Nat.mul_one]

/-! ## the outer loop -/

theorem getElem?_push_some {α} {cs : Array α} {x c : α} {k : Nat}
    (h : (cs.push x)[k]? = some c) : (k < cs.size ∧ cs[k]? = some c) ∨ (k = cs.size ∧ c = x) := by
  rw [Array.getElem?_push] at h
  by_cases e : k = cs.size
  · right; rw [if_pos e] at h; exact ⟨e, (Option.some.inj h).symm⟩
  · left; rw [if_neg e] at h
    refine ⟨?_, h⟩
    by_cases hk : k < cs.size
    · exact hk
    · rw [Array.getElem?_eq_none (by omega)] at h; cases h

theorem blockLoop_spec (ws : Array Nat) (len : Nat) (hlen : len ≤ 64 * ws.size) :
    ∀ f b n (cs : Array BlockCounters),
      b + f ≤ RankSmall.divCeil (RankSmall.divCeil len 64) 8 →
      n = R ws len (8 * b) → cs.size = b → (∀ k c, cs[k]? = some c → BlockOK ws len k c) →
      ∃ n' cs', blockLoop ws len (RankSmall.divCeil len 64) f (8 * b) n cs = .ok (n', cs') ∧
        n' = R ws len (8 * (b + f)) ∧ cs'.size = b + f ∧
        (∀ k c, cs'[k]? = some c → BlockOK ws len k c) := by
  intro f
  induction f with
  | zero =>
    intro b n cs _ hn hsz hok
    exact ⟨n, cs, rfl, hn, hsz, hok⟩
  | succ f ih =>
    intro b n cs hbf hn hsz hok
    have hb : b < RankSmall.divCeil (RankSmall.divCeil len 64) 8 := by omega
    have hi : 8 * b < RankSmall.divCeil len 64 := (lt_divCeil (by omega)).mp hb
    obtain ⟨c, hc, _, hcs⟩ := countOnes_spec ws len hlen hi
    obtain ⟨n', r', hrl, hn', hblk⟩ := relLoop_block ws len hlen b
    unfold blockLoop
    rw [rank9_countOnes_eq, hc]
    simp only [Out.bind_ok]
    have e1 : n + c = R ws len (8 * b + 1) := by
      rw [hn]; show _ = rankSpec ws len (64 * (8 * b + 1)); rw [hcs]
    rw [e1, hn, hrl]
    simp only [Out.bind_ok]
    have := ih (b + 1) n' (cs.push { absolute := R ws len (8 * b), relative := r' })
      (by omega) hn' (by rw [Array.size_push, hsz])
      (by
        intro k c0 hk
        rcases getElem?_push_some hk with ⟨_, h⟩ | ⟨h1, h2⟩
        · exact hok k c0 h
        · rw [h1, hsz, h2]; exact hblk)
    have e2 : b + 1 + f = b + (f + 1) := by omega
    rw [e2] at this
    show ∃ n'' cs', blockLoop ws len (RankSmall.divCeil len 64) f (8 * b + wordsPerBlock) n' _ = _ ∧ _
    have e3 : 8 * b + wordsPerBlock = 8 * (b + 1) := by unfold wordsPerBlock; omega
    rw [e3]
    exact this

/-! ## invariant, builder, queries -/

/-- number of 512-bit blocks -/
def numBlocks (len : Nat) : Nat := RankSmall.divCeil (RankSmall.divCeil len 64) 8

/-- explicit invariant on the built `counts` -/
structure InvOK (ws : Array Nat) (len : Nat) (counts : Array BlockCounters) : Prop where
  size : counts.size = numBlocks len + 1
  blocks : ∀ k c, counts[k]? = some c → k < numBlocks len → BlockOK ws len k c
  last : ∀ c, counts[numBlocks len]? = some c → c.absolute = rankSpec ws len len

theorem numBlocks_cover (len : Nat) : len ≤ 64 * (8 * numBlocks len) := by
  have h1 : ¬ numBlocks len < numBlocks len := Nat.lt_irrefl _
  have h2 : ¬ (8 * numBlocks len < RankSmall.divCeil len 64) := fun h => h1 ((lt_divCeil (by omega)).mpr h)
  have h3 : ¬ (64 * (8 * numBlocks len) < len) := fun h => h2 (lt_divCeil_64.mpr h)
  omega

/-- (B) the builder never panics and establishes the invariant, whatever lies beyond `len` -/
theorem build_inv (ws : Array Nat) (len : Nat) (hlen : len ≤ 64 * ws.size) :
    ∃ counts, build ws len = .ok counts ∧ InvOK ws len counts := by
  obtain ⟨n', cs', he, hn, hsz, hok⟩ := blockLoop_spec ws len hlen (numBlocks len) 0 0 #[]
    (by unfold numBlocks; omega) (by show 0 = rankSpec ws len (64 * (8 * 0)); rw [rankSpec_zero]) rfl
    (by intro k c h; simp at h)
  unfold build
  rw [rank9_divCeil_eq]
  show ∃ counts, (blockLoop ws len (RankSmall.divCeil len 64) (numBlocks len) (8 * 0) 0 #[] >>= _) = _ ∧ _
  rw [he]
  simp only [Out.bind_ok, Out.pure_eq]
  refine ⟨_, rfl, ?_⟩
  rw [Nat.zero_add] at hn hsz
  constructor
  · rw [Array.size_push, hsz]
  · intro k c hk hlt
    rcases getElem?_push_some hk with ⟨_, h⟩ | ⟨h1, _⟩
    · exact hok k c h
    · omega
  · intro c hc
    rcases getElem?_push_some hc with ⟨h, _⟩ | ⟨_, h2⟩
    · omega
    · rw [h2, hn]
      exact rankSpec_of_ge ws (numBlocks_cover len)

theorem readC_of_lt {cs : Array BlockCounters} {k : Nat} (h : k < cs.size) :
    ∃ c, cs[k]? = some c ∧ readC cs k = .ok c := by
  refine ⟨cs[k], by simp [h], ?_⟩
  unfold readC
  simp [h]

theorem numOnes_of_inv {ws : Array Nat} {len : Nat} {counts : Array BlockCounters}
    (h : InvOK ws len counts) : numOnes counts = .ok (rankSpec ws len len) := by
  unfold numOnes
  have hs := h.size
  rw [if_neg (by omega)]
  have e : counts.size - 1 = numBlocks len := by omega
  rw [e]
  obtain ⟨c, hc, hr⟩ := readC_of_lt (cs := counts) (k := numBlocks len) (by omega)
  rw [hr]
  simp only [Out.bind_ok, Out.pure_eq]
  rw [h.last c hc]

/-- (Q) from the invariant: `rank` is the specification at every position, never `oob` -/
theorem rank_of_inv {ws : Array Nat} {len : Nat} {counts : Array BlockCounters}
    (hlen : len ≤ 64 * ws.size) (h : InvOK ws len counts) (p : Nat) :
    rank ws len counts p = .ok (rankSpec ws len p) := by
  unfold rank
  by_cases hp : p ≥ len
  · rw [if_pos hp, numOnes_of_inv h, rankSpec_of_ge ws hp]
  · rw [if_neg hp]
    have hp' : p < len := by omega
    have hw : p / 64 < ws.size := by omega
    have hwn : p / 64 < RankSmall.divCeil len 64 := lt_divCeil_64.mpr (by omega)
    have hb : p / 64 / 8 < numBlocks len := (lt_divCeil (by omega)).mpr (by omega)
    obtain ⟨c, hc, hr⟩ := readC_of_lt (cs := counts) (k := p / 64 / 8) (by rw [h.size]; omega)
    obtain ⟨ha, hrel⟩ := h.blocks _ c hc hb
    unfold rankUnchecked wordsPerBlock
    dsimp only
    rw [readU_eq hw, hr]
    simp only [Out.bind_ok, Out.pure_eq]
    rw [ha, hrel (p / 64 % 8) (by omega), rankSpec_split ws (Nat.le_of_lt hp')]
    have e : 8 * (p / 64 / 8) + p / 64 % 8 = p / 64 := by omega
    rw [e]
    have hm := rankSpec_mono ws len (p := 64 * (8 * (p / 64 / 8))) (q := 64 * (p / 64)) (by omega)
    simp only [R] at hm ⊢
    congr 1
    omega

end Sux.RS.Rank9
