import SuxModel.Base.Bits
import SuxModel.Base.Proto
import SuxModel.RankSel.Layer
/-!
# Model of `Rank9` (`src/rank_sel/rank9.rs`) over a `BitVec` backend

A bit vector is `(ws, len)`: `ws` is the backend (`bits.as_ref()`, words of 64 bits), `len` is
`bits.len()`.  Nothing is assumed about the bits of `ws` at or beyond `len`, nor about words beyond
`len.div_ceil(64)`.  Machine arithmetic: every quantity below is bounded by `len` (a `usize`), so no
`usize` overflow check can fire; the only wrapping operation is the left shift in `set_rel`, which
is modelled with `shlW 64` (bits shifted out of the word are lost).
-/
namespace Sux.RS.Rank9

/-- `usize::div_ceil` -/
def divCeil (a b : Nat) : Nat := if a % b > 0 then a / b + 1 else a / b

/-- `BlockCounters` -/
structure BlockCounters where
  absolute : Nat
  relative : Nat
deriving Repr, DecidableEq, Inhabited

/-- `Rank9::WORDS_PER_BLOCK` -/
def wordsPerBlock : Nat := 8

/-- `BlockCounters::rel` -/
def rel (relative word : Nat) : Nat := (relative >>> (9 * (word ^^^ 7))) &&& 0x1FF

/-- `BlockCounters::set_rel`: `self.relative |= counter << (9 * (word ^ 7))` on `usize` -/
def setRel (relative word counter : Nat) : Nat := relative ||| shlW 64 counter (9 * (word ^^^ 7))

/-- unchecked access to the counter array -/
def readC (cs : Array BlockCounters) (i : Nat) : Out BlockCounters :=
  match cs[i]? with
  | some c => .ok c
  | none => .oob

/-- the closure `count_ones` of `Rank9::new`: safe indexing of the backend, the bits of the last
word at or beyond `num_bits` are masked away -/
def countOnes (ws : Array Nat) (len numWords i : Nat) : Out Nat := do
  let word ← Out.readS ws i
  let residual := len % 64
  let word := if residual != 0 && i == numWords - 1 then word &&& ((1 <<< residual) - 1) else word
  pure (popcount 64 word)

/-- `for j in 1..8 { … }` of `Rank9::new`; `fuel` iterations starting at `j`;
returns `(num_ones, count.relative)` -/
def relLoop (ws : Array Nat) (len numWords i absolute : Nat) :
    (fuel j numOnes relative : Nat) → Out (Nat × Nat)
  | 0, _, numOnes, relative => .ok (numOnes, relative)
  | fuel + 1, j, numOnes, relative => do
    let relCount := numOnes - absolute
    let relative := setRel relative j relCount
    let numOnes ← if i + j < numWords then (do
        let c ← countOnes ws len numWords (i + j)
        pure (numOnes + c)) else pure numOnes
    relLoop ws len numWords i absolute fuel (j + 1) numOnes relative

/-- `for i in (0..num_words).step_by(8) { … }`; `fuel` iterations starting at word `i`;
returns `(num_ones, counts)` -/
def blockLoop (ws : Array Nat) (len numWords : Nat) :
    (fuel i numOnes : Nat) → (counts : Array BlockCounters) → Out (Nat × Array BlockCounters)
  | 0, _, numOnes, counts => .ok (numOnes, counts)
  | fuel + 1, i, numOnes, counts => do
    let absolute := numOnes
    let c ← countOnes ws len numWords i
    let (numOnes, relative) ← relLoop ws len numWords i absolute 7 1 (numOnes + c) 0
    blockLoop ws len numWords fuel (i + wordsPerBlock) numOnes
      (counts.push { absolute := absolute, relative := relative })

/-- `Rank9::new`: the `counts` array (the backend is not copied) -/
def build (ws : Array Nat) (len : Nat) : Out (Array BlockCounters) := do
  let numWords := divCeil len 64
  let (numOnes, counts) ← blockLoop ws len numWords (divCeil numWords wordsPerBlock) 0 0 #[]
  pure (counts.push { absolute := numOnes, relative := 0 })

/-- `NumBits::num_ones`: `counts.last().unwrap_unchecked().absolute` -/
def numOnes (counts : Array BlockCounters) : Out Nat :=
  if counts.size = 0 then .oob else do
    let c ← readC counts (counts.size - 1)
    pure c.absolute

/-- `RankUnchecked::rank_unchecked` -/
def rankUnchecked (ws : Array Nat) (counts : Array BlockCounters) (pos : Nat) : Out Nat := do
  let wordPos := pos / 64
  let bitPos := pos % 64
  let block := wordPos / wordsPerBlock
  let offset := wordPos % wordsPerBlock
  let word ← Out.readU ws wordPos
  let c ← readC counts block
  pure (c.absolute + rel c.relative offset + popcount 64 (word &&& ((1 <<< bitPos) - 1)))

/-- `Rank::rank` (trait default, with its clamp) -/
def rank (ws : Array Nat) (len : Nat) (counts : Array BlockCounters) (pos : Nat) : Out Nat :=
  if pos ≥ len then numOnes counts else rankUnchecked ws counts pos

/-- `RankZero::rank_zero` (trait default) -/
def rankZero (ws : Array Nat) (len : Nat) (counts : Array BlockCounters) (pos : Nat) : Out Nat := do
  let r ← rank ws len counts pos
  pure (pos - r)

/-- `NumBits::num_zeros` (trait default) -/
def numZeros (len : Nat) (counts : Array BlockCounters) : Out Nat := do
  let n ← numOnes counts
  pure (len - n)

/-- `Rank9::new(bits).rank(pos)` -/
def rankOf (ws : Array Nat) (len pos : Nat) : Out Nat := do
  let counts ← build ws len
  rank ws len counts pos

/-- `Rank9::new(bits).num_ones()` -/
def numOnesOf (ws : Array Nat) (len : Nat) : Out Nat := do
  let counts ← build ws len
  numOnes counts

def partsOf (counts : Array BlockCounters) : String :=
  s!"r9 abs={Sux.Proto.fmtNatList (counts.toList.map (·.absolute))} rel={Sux.Proto.fmtNatList (counts.toList.map (·.relative))}"

/-- the layer `Rank9<_>` over `(ws, len)`; `n1` (what the wrapped structure reports) is not used:
`Rank9` counts by itself -/
def layer (ws : Array Nat) (len _n1 : Nat) : LayerModel :=
  match build ws len with
  | .ok counts =>
    { parts := partsOf counts
      rank := some (rank ws len counts)
      numOnes := match numOnes counts with | .ok n => some n | _ => none }
  | .panic => { parts := "panic" }
  | .oob => { parts := "oob" }

end Sux.RS.Rank9
