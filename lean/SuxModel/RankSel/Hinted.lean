import SuxModel.Base.Bits
import SuxModel.RankSel.Spec
/-!
# `select_in_word`, `select_hinted`, `select_zero_hinted` (C02)

Rust: `common_traits::SelectInWord for u64`, `impl SelectHinted / SelectZeroHinted for BitVec`
(`/repo/src/bits/bit_vec.rs`).  The theorems are in `HintedLemmas.lean`.
-/
namespace Sux.RS

/-- scan from bit 0: position of the set bit of rank `k` among the low `fuel` bits of `w`
(shifted by `pos`); `pos + fuel` if there is none -/
def selectInWordAux : Nat → Nat → Nat → Nat → Nat
  | 0, _, _, pos => pos
  | fuel + 1, w, k, pos =>
    if w % 2 = 1 then
      (if k = 0 then pos else selectInWordAux fuel (w / 2) (k - 1) (pos + 1))
    else selectInWordAux fuel (w / 2) k (pos + 1)

/-- `w.select_in_word(k)` on a 64-bit word: position of the set bit of rank `k`.
The Rust function has `debug_assert!(k < w.count_ones())`; every modelled call site guards the call
with exactly that comparison, so the out-of-domain value (64 here) is never observed. -/
def selectInWord (w k : Nat) : Nat := selectInWordAux 64 w k 0

/-- `count_ones` of a 64-bit word, computed by halving (`popc w = popcount 64 w`, see
`popc_eq_popcount` in `HintedLemmas.lean`; this form only exists because it runs faster) -/
def popcAux : Nat → Nat → Nat → Nat
  | 0, _, acc => acc
  | fuel + 1, w, acc => if w = 0 then acc else popcAux fuel (w / 2) (acc + w % 2)

def popc (w : Nat) : Nat := popcAux 64 w 0

/-- the word the hinted loops look at: `w` for ones, `!w` for zeros -/
@[inline] def polWord (zero : Bool) (w : Nat) : Nat := if zero then notW 64 w else w

/-- the `loop { … }` of `select_hinted` / `select_zero_hinted`: `get_unchecked` of the next word is an
unchecked read -/
def selectHintedLoop (zero : Bool) (ws : Array Nat) (wordIndex word residual : Nat) : Out Nat :=
  let bitCount := popc word
  if residual < bitCount then
    .ok (wordIndex * 64 + selectInWord word residual)
  else
    match _h : Out.readU ws (wordIndex + 1) with
    | .ok w => selectHintedLoop zero ws (wordIndex + 1) (polWord zero w) (residual - bitCount)
    | .panic => .panic
    | .oob => .oob
termination_by ws.size - wordIndex
decreasing_by
  have : wordIndex + 1 < ws.size := by
    unfold Out.readU at _h
    split at _h
    · rename_i w' hw
      have := (Array.getElem?_eq_some_iff.mp hw).1
      exact this
    · cases _h
  omega

/-- `select_hinted` (`zero = false`) / `select_zero_hinted` (`zero = true`) of `BitVec`.
`rank - hint_rank` is a checked subtraction (`panic` on underflow in a checked build). -/
def selectHintedP (zero : Bool) (ws : Array Nat) (rank hintPos hintRank : Nat) : Out Nat := do
  let wordIndex := hintPos / 64
  let bitIndex := hintPos % 64
  if rank < hintRank then .panic else
  let residual := rank - hintRank
  let w ← Out.readU ws wordIndex
  let word := ((polWord zero w) >>> bitIndex) <<< bitIndex
  selectHintedLoop zero ws wordIndex word residual

def selectHinted (ws : Array Nat) (rank hintPos hintRank : Nat) : Out Nat :=
  selectHintedP false ws rank hintPos hintRank

def selectZeroHinted (ws : Array Nat) (rank hintPos hintRank : Nat) : Out Nat :=
  selectHintedP true ws rank hintPos hintRank

end Sux.RS
