import SuxModel.RankSel.Small.LemmasLanes
/-!
# `complete_select` of `SelectSmall` finds the bit inside the block located by the search
-/
namespace Sux.RS.Small
open Sux Sux.RS Sux.RS.Priv Sux.RS.BW

theorem ob_eq (ws : Array Nat) (len b t : Nat) (P : SmallParams) :
    onesBefore ws len (b * P.wpb + t * P.wps) = rankSpec ws len (b * (P.wpb * 64) + t * (P.wps * 64)) := by
  unfold onesBefore
  congr 1
  rw [Nat.mul_add]
  congr 1
  · rw [Nat.mul_comm 64, Nat.mul_assoc]
  · rw [Nat.mul_comm 64, Nat.mul_assoc]

theorem C_false (ws : Array Nat) (len q : Nat) : C false ws len q = rankSpec ws len q := by
  simp [C]

/-- the word-local part: the bit of rank `r` lies in the word starting at `hp` -/
theorem selInWord_correct (zero : Bool) (ws : Array Nat) (len r p hp : Nat)
    (hsel : IsSel (polBit zero ws) len r p) (hhp : hp % 64 = 0) (h1 : hp ≤ p) (h2 : p < hp + 64) :
    selInWord (polWord zero (ws.getD (hp / 64) 0)) (r - cnt (polBit zero ws) hp) = .ok (p - hp) := by
  have e : hp = 64 * (hp / 64) := by omega
  have hbit : ∀ j, j < 64 → polBit zero ws (hp + j) = (polWord zero (ws.getD (hp / 64) 0)).testBit j := by
    intro j hj
    have := polBit_word zero ws (hp / 64) j hj
    rw [← e] at this; exact this
  have hcnt : ∀ d, d ≤ 64 → cnt (fun j => (polWord zero (ws.getD (hp / 64) 0)).testBit j) d
      = cnt (polBit zero ws) (hp + d) - cnt (polBit zero ws) hp := by
    intro d hd
    rw [cnt_add]
    have : cnt (fun k => polBit zero ws (hp + k)) d
        = cnt (fun j => (polWord zero (ws.getD (hp / 64) 0)).testBit j) d :=
      cnt_congr (fun k hk => hbit k (by omega))
    omega
  have hs : IsSel (fun j => (polWord zero (ws.getD (hp / 64) 0)).testBit j) 64
      (r - cnt (polBit zero ws) hp) (p - hp) := by
    refine ⟨by omega, ?_, ?_⟩
    · show (polWord zero (ws.getD (hp / 64) 0)).testBit (p - hp) = true
      rw [← hbit (p - hp) (by omega), show hp + (p - hp) = p by omega]; exact hsel.2.1
    · rw [hcnt (p - hp) (by omega), show hp + (p - hp) = p by omega, hsel.2.2]
  have hlt := hs.lt_cnt
  rw [← popcount_eq_cnt] at hlt
  unfold selInWord pc64
  rw [if_pos hlt]
  congr 1
  exact (selectInWord_spec _ _ hlt).unique hs

theorem completeSelect_correct (P : SmallParams) (hP : SmallOK P) (ws : Array Nat) (len : Nat)
    (hlen : len ≤ 64 * ws.size) (r p b : Nat)
    (hsel : IsSel (polBit false ws) len r p)
    (hb1 : b * (P.wpb * 64) ≤ p) (hb2 : p < b * (P.wpb * 64) + P.wpb * 64) :
    completeSelect P ws (smallRel P (onesBefore ws len) (b * P.wpb)) (b * (P.wpb * 64)) r
      (rankSpec ws len (b * (P.wpb * 64))) = .ok p := by
  -- abbreviations
  have hS : 0 < P.wps * 64 := by have := hP.wps_pos; omega
  have hBS : P.wpb * 64 = P.nsub * (P.wps * 64) := by
    rw [hP.wpb, Nat.mul_comm P.wps P.nsub, Nat.mul_assoc]
  have hn : 1 ≤ P.nsub := by rcases hP.nsub with h | h <;> omega
  let T := (p - b * (P.wpb * 64)) / (P.wps * 64)
  have hT : T < P.nsub := by
    apply Nat.div_lt_of_lt_mul
    rw [Nat.mul_comm (P.wps * 64) P.nsub, ← hBS]; omega
  have hCb : rankSpec ws len (b * (P.wpb * 64)) ≤ r := by
    rw [← C_false]; exact (C_le_iff hsel _).2 hb1
  have hrib : r - rankSpec ws len (b * (P.wpb * 64)) < 2 ^ P.cw := by
    have := pos_add_le hsel (q := b * (P.wpb * 64)) (by rw [C_false]; exact hCb)
    rw [C_false] at this
    rw [← hP.bb]; omega
  -- lane values
  let D : Nat → Nat := fun t => onesBefore ws len (b * P.wpb + t * P.wps) - onesBefore ws len (b * P.wpb)
  have hD0 : ∀ t, D t = rankSpec ws len (b * (P.wpb * 64) + t * (P.wps * 64)) - rankSpec ws len (b * (P.wpb * 64)) := by
    intro t
    show onesBefore ws len (b * P.wpb + t * P.wps) - onesBefore ws len (b * P.wpb) = _
    rw [ob_eq]
    have := ob_eq ws len b 0 P
    simp only [Nat.zero_mul, Nat.add_zero] at this
    rw [this]
  have hmono : ∀ t, rankSpec ws len (b * (P.wpb * 64)) ≤ rankSpec ws len (b * (P.wpb * 64) + t * (P.wps * 64)) := by
    intro t
    have := C_mono false ws len (show b * (P.wpb * 64) ≤ b * (P.wpb * 64) + t * (P.wps * 64) by omega)
    rwa [C_false, C_false] at this
  have hDlt : ∀ t, t ≤ P.nsub - 1 → D t < 2 ^ P.cw := by
    intro t ht
    rw [hD0]
    have := C_sub_le false ws len (show b * (P.wpb * 64) ≤ b * (P.wpb * 64) + t * (P.wps * 64) by omega)
    rw [C_false, C_false] at this
    have h2 : t * (P.wps * 64) < P.nsub * (P.wps * 64) := Nat.mul_lt_mul_of_pos_right (by omega) hS
    rw [← hBS] at h2
    have hbb := hP.bb
    omega
  have hDT : ∀ t, 1 ≤ t → t ≤ P.nsub - 1 →
      (D t ≤ r - rankSpec ws len (b * (P.wpb * 64)) ↔ t ≤ T) := by
    intro t _ _
    rw [hD0]
    have h1 := hmono t
    have h3 := C_le_iff hsel (b * (P.wpb * 64) + t * (P.wps * 64))
    rw [C_false] at h3
    have h4 : t ≤ T ↔ t * (P.wps * 64) ≤ p - b * (P.wpb * 64) := (Nat.le_div_iff_mul_le hS)
    rw [h4]
    constructor
    · intro h; have := h3.1 (by omega); omega
    · intro h; have := h3.2 (by omega); omega
  obtain ⟨y, u, hy, hu, hpc, hrel⟩ := uleq_off P hP D (r - rankSpec ws len (b * (P.wpb * 64))) T hT hrib hDlt hDT
  have hrelT : relOf P (packL P.cw (laneList (P.nsub - 1) D)) T = D T := by
    rw [hrel]
    by_cases h0 : T = 0
    · rw [if_pos h0, h0, hD0]; simp
    · rw [if_neg h0]
  -- position of the sub-block
  have hTle : T * (P.wps * 64) ≤ p - b * (P.wpb * 64) := Nat.div_mul_le_self _ _
  have hTlt : p - b * (P.wpb * 64) < T * (P.wps * 64) + P.wps * 64 := by
    have := Nat.lt_div_mul_add (a := p - b * (P.wpb * 64)) hS
    exact this
  have hhp1 : b * (P.wpb * 64) + T * (P.wps * 64) ≤ p := by omega
  have hRhp : rankSpec ws len (b * (P.wpb * 64) + T * (P.wps * 64)) = cnt (polBit false ws) (b * (P.wpb * 64) + T * (P.wps * 64)) := by
    rw [← C_false, C_eq_cnt false ws len (by have := hsel.1; omega)]
  have hsmall : smallRel P (onesBefore ws len) (b * P.wpb) = packL P.cw (laneList (P.nsub - 1) D) := rfl
  unfold completeSelect
  simp only [subU, if_pos hCb, Out.bind_ok]
  rw [hy]; simp only [Out.bind_ok]
  rw [hsmall, hu]; simp only [Out.bind_ok]
  rw [hpc, hrelT, hD0 T]
  by_cases hw1 : P.wps = 1
  · rw [if_pos hw1]
    have hle : rankSpec ws len (b * (P.wpb * 64) + T * (P.wps * 64)) - rankSpec ws len (b * (P.wpb * 64))
        ≤ r - rankSpec ws len (b * (P.wpb * 64)) := by
      have h3 := (C_le_iff hsel (b * (P.wpb * 64) + T * (P.wps * 64))).2 hhp1
      rw [C_false] at h3; omega
    rw [if_pos hle]; simp only [Out.bind_ok]
    have hlt : (b * (P.wpb * 64) + T * (P.wps * 64)) / 64 < ws.size := by
      have := hsel.1
      apply Nat.div_lt_of_lt_mul; omega
    rw [readU_ok_of_lt hlt]; simp only [Out.bind_ok]
    have hmod : (b * (P.wpb * 64) + T * (P.wps * 64)) % 64 = 0 := by
      rw [← Nat.mul_assoc, ← Nat.mul_assoc, ← Nat.add_mul]; exact Nat.mul_mod_left _ _
    have := selInWord_correct false ws len r p _ hsel hmod hhp1 (by
      have hS64 : P.wps * 64 = 64 := by rw [hw1]
      omega)
    rw [← hRhp] at this
    have hm := hmono T
    rw [show r - rankSpec ws len (b * (P.wpb * 64)) -
        (rankSpec ws len (b * (P.wpb * 64) + T * (P.wps * 64)) - rankSpec ws len (b * (P.wpb * 64)))
        = r - rankSpec ws len (b * (P.wpb * 64) + T * (P.wps * 64)) by omega]
    show (selInWord (polWord false (ws.getD _ 0)) _) >>= _ = _
    rw [this]; simp only [Out.bind_ok]
    congr 1; omega
  · rw [if_neg hw1]
    have hm := hmono T
    rw [show rankSpec ws len (b * (P.wpb * 64)) +
        (rankSpec ws len (b * (P.wpb * 64) + T * (P.wps * 64)) - rankSpec ws len (b * (P.wpb * 64)))
        = rankSpec ws len (b * (P.wpb * 64) + T * (P.wps * 64)) by omega]
    exact selectHintedP_correct false ws len r _ _ p hlen hsel hhp1 hRhp

end Sux.RS.Small
