import SuxModel.RankSel.Small.LemmasQuery2
import SuxModel.RankSel.Select9.CumLemmas
/-!
# Decidable form of `SelInvOK` (certificate check on concrete / exported arrays) and the layer-level
statement of (Q) for `SelectSmall`
-/
namespace Sux.RS.Small
open Sux Sux.RS Sux.RS.Priv Sux.RS.BW

/-- position of the selected bit of rank `r` (list lookup; `none` iff there is none) -/
def selPos (zero : Bool) (ws : Array Nat) (len r : Nat) : Option Nat :=
  ((List.range len).filter (polBit zero ws))[r]?

/-- executable check of `SelInvOK` -/
def selInvCheck (zero : Bool) (ws : Array Nat) (len : Nat) (s : Sel) : Bool :=
  decide (cnt (polBit zero ws) len ≤ s.inv.size * 2 ^ s.l) &&
  (List.range s.inv.size).all (fun i =>
    (decide (i = 0) || decide (i * 2 ^ s.l < cnt (polBit zero ws) len)) &&
    (match selPos zero ws len (i * 2 ^ s.l) with
     | some e => decide (ppLe s.begin.toList i = e / 2 ^ 32 + 1) && decide (s.inv.getD i 0 = e % 2 ^ 32)
     | none => true))

theorem selInvCheck_sound (zero : Bool) (ws : Array Nat) (len : Nat) (s : Sel)
    (h : selInvCheck zero ws len s = true) : SelInvOK zero ws len s := by
  unfold selInvCheck at h
  rw [Bool.and_eq_true, decide_eq_true_eq, List.all_eq_true] at h
  obtain ⟨h1, h2⟩ := h
  have hsize : ∀ i, i * 2 ^ s.l < cnt (polBit zero ws) len → i < s.inv.size := by
    intro i hi
    exact Nat.lt_of_mul_lt_mul_right (Nat.lt_of_lt_of_le hi h1)
  refine ⟨hsize, ?_, ?_⟩
  · intro i hi
    have := h2 (i + 1) (List.mem_range.mpr hi)
    rw [Bool.and_eq_true, Bool.or_eq_true, decide_eq_true_eq, decide_eq_true_eq] at this
    rcases this.1 with h0 | h0
    · omega
    · exact h0
  · intro i e he
    have hi := hsize i he.lt_cnt
    have := h2 i (List.mem_range.mpr hi)
    rw [Bool.and_eq_true] at this
    have hpos : selPos zero ws len (i * 2 ^ s.l) = some e := (filter_range_getElem? _ _ _ _).2 he
    have h3 := this.2
    rw [hpos] at h3
    simp only [Bool.and_eq_true, decide_eq_true_eq] at h3
    exact h3

/-- (Q) for `SelectSmall` over the `RankSmall` variant `k`, stated on the layer's query function:
from `SelInvOK`, `select r` is the position of the one of rank `r` for `r < numOnes`, never
`oob`/`panic`; `none` iff `r ≥ numOnes` -/
theorem small_select_correct (k : Nat) (ws : Array Nat) (len : Nat) (hlen : len ≤ 64 * ws.size)
    (s : Sel) (hinv : SelInvOK false ws len s) (r : Nat) :
    (r < numOnes ws len → ∃ p, select (smallParams k) false ws len (numOnes ws len)
        (viewOf (smallParams k) ws len) s r = .ok (some p) ∧ IsSelect ws len r p) ∧
    (numOnes ws len ≤ r → select (smallParams k) false ws len (numOnes ws len)
        (viewOf (smallParams k) ws len) s r = .ok none) := by
  constructor
  · intro hr
    have hr' : r < cnt (polBit false ws) len := by rw [numOnes_eq_cnt] at hr; exact hr
    obtain ⟨p, hp⟩ := IsSel.exists hr'
    refine ⟨p, ?_, (isSelect_iff ws len r p).2 hp⟩
    unfold select viewOf
    rw [if_neg (by omega), obOf_cumOnes,
      selectUnchecked_ones_correct (smallParams k) (smallOK k) ws len hlen s hinv r p hp]
    rfl
  · intro hr
    unfold select
    rw [if_pos hr]

end Sux.RS.Small
