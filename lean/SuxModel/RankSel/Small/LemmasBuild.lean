import SuxModel.RankSel.Small.LemmasCheckZero
/-!
# (B) for `SelectSmall` / `SelectZeroSmall`: the builder establishes `SelInvOK`

`K q x = ⌈x / q⌉` is the number of inventory quanta below `x`.  Loop invariant of the two nested
loops after `g` backend words (`f = polBit zero ws`, `N` = number of selected bits below `len`):
`past = min (cnt f (64 g)) N`, the inventory has `K q past` entries, entry `i` is the position of the
selected bit of rank `i q` modulo `2^32`, and `inventory_begin[j] = K q (min (cnt f (j 2^32)) N)` for
every chunk `j` started so far.
-/
namespace Sux.RS.Small
open Sux Sux.RS Sux.RS.Priv Sux.RS.BW

def K (q x : Nat) : Nat := (x + (q - 1)) / q

theorem K_le_iff {q : Nat} (hq : 0 < q) (x i : Nat) : K q x ≤ i ↔ x ≤ i * q := by
  unfold K
  constructor
  · intro h
    have := Nat.lt_div_mul_add (a := x + (q - 1)) hq
    have h2 := Nat.mul_le_mul_right q h
    omega
  · intro h
    apply Nat.le_of_lt_succ
    apply (Nat.div_lt_iff_lt_mul hq).2
    rw [Nat.succ_mul]; omega

theorem lt_K_iff {q : Nat} (hq : 0 < q) (x i : Nat) : i < K q x ↔ i * q < x := by
  have := K_le_iff hq x i
  omega

/-- number of leading elements `≤ i` -/
theorem ppLe_eq (i : Nat) : ∀ (l : List Nat) (m : Nat), m ≤ l.length →
    (∀ j, j < m → l.getD j 0 ≤ i) → (m = l.length ∨ i < l.getD m 0) → ppLe l i = m
  | [], m, hm, _, _ => by
    have : m = 0 := by simpa using hm
    subst this; rfl
  | x :: xs, 0, _, _, hf => by
    rcases hf with hf | hf
    · simp at hf
    · have : i < x := by simpa using hf
      simp [ppLe]; omega
  | x :: xs, m + 1, hm, ht, hf => by
    have h0 : x ≤ i := by simpa using ht 0 (by omega)
    have ih := ppLe_eq i xs m (by simpa using hm)
      (fun j hj => by simpa using ht (j + 1) (by omega))
      (by
        rcases hf with hf | hf
        · left; simpa using hf
        · right; simpa using hf)
    simp [ppLe, h0, ih]

/-- count of the selected bits of one backend word -/
theorem cnt_word (zero : Bool) (ws : Array Nat) (g d : Nat) (hd : d ≤ 64) :
    cnt (polBit zero ws) (64 * g + d)
      = cnt (polBit zero ws) (64 * g) + cnt (fun j => (polWord zero (ws.getD g 0)).testBit j) d := by
  rw [cnt_add]
  congr 1
  exact cnt_congr (fun k hk => polBit_word zero ws g k (by omega))

/-- entry `i` of the inventory: the position of the selected bit of rank `i q`, modulo `2^32` -/
def Entry (zero : Bool) (ws : Array Nat) (q bound : Nat) (inv : Array Nat) (i : Nat) : Prop :=
  ∃ e, IsSelAt (polBit zero ws) (i * q) e ∧ e < bound ∧ inv.getD i 0 = e % 2 ^ 32

theorem getD_push_lt (a : Array Nat) (x : Nat) {i : Nat} (h : i < a.size) : (a.push x).getD i 0 = a.getD i 0 := by
  rw [Array.getD_eq_getD_getElem?, Array.getD_eq_getD_getElem?, Array.getElem?_push, if_neg (by omega)]

theorem getD_push_eq (a : Array Nat) (x : Nat) : (a.push x).getD a.size 0 = x := by
  rw [Array.getD_eq_getD_getElem?, Array.getElem?_push, if_pos rfl]; rfl

/-- the inner `while` loop over one word -/
theorem invWhile_spec (zero : Bool) (ws : Array Nat) (q : Nat) (hq : 0 < q) (g past oiw : Nat)
    (hpast : past = cnt (polBit zero ws) (64 * g) ∨ oiw = 0)
    (hoiw : oiw ≤ popcount 64 (polWord zero (ws.getD g 0))) :
    ∀ (fuel : Nat) (inv : Array Nat) (nq : Nat), nq = inv.size * q → past ≤ nq →
      past + oiw ≤ nq + fuel * q →
      (∀ i, i < inv.size → i * q < past + oiw) →
      (∀ i, i < inv.size → Entry zero ws q (64 * (g + 1)) inv i) →
      ∃ inv', invWhile q (g % SB_WORDS) (polWord zero (ws.getD g 0)) past oiw fuel inv nq
          = .ok (inv', inv'.size * q) ∧
        inv'.size = K q (past + oiw) ∧ inv.size ≤ inv'.size ∧
        (∀ i, i < inv'.size → Entry zero ws q (64 * (g + 1)) inv' i)
  | 0, inv, nq, hnq, hle, hf, hlim, hent => by
    unfold invWhile
    refine ⟨inv, by rw [hnq], ?_, Nat.le_refl _, hent⟩
    apply Nat.le_antisymm
    · apply Nat.le_of_not_lt; intro hlt
      have h1 := hlim _ hlt
      have h2 := (K_le_iff hq (past + oiw) (K q (past + oiw))).1 (Nat.le_refl _)
      omega
    · apply (K_le_iff hq _ _).2; rw [← hnq]; omega
  | fuel + 1, inv, nq, hnq, hle, hf, hlim, hent => by
    unfold invWhile
    by_cases hgt : past + oiw > nq
    · rw [if_pos hgt, subU_ok hle, Out.bind_ok]
      have hr' : nq - past < popcount 64 (polWord zero (ws.getD g 0)) := by omega
      have hsel := selectInWord_spec (polWord zero (ws.getD g 0)) (nq - past) hr'
      unfold selInWord pc64
      rw [if_pos hr', Out.bind_ok]
      have hpc : past = cnt (polBit zero ws) (64 * g) := by
        rcases hpast with h | h
        · exact h
        · omega
      -- the new entry
      have hnew : Entry zero ws q (64 * (g + 1)) (inv.push ((g % SB_WORDS * 64 +
          selectInWord (polWord zero (ws.getD g 0)) (nq - past)) % 2 ^ 32)) inv.size := by
        refine ⟨64 * g + selectInWord (polWord zero (ws.getD g 0)) (nq - past), ⟨?_, ?_⟩, ?_, ?_⟩
        · rw [polBit_word zero ws g _ hsel.1]; exact hsel.2.1
        · rw [cnt_word zero ws g _ (Nat.le_of_lt hsel.1), hsel.2.2, ← hpc, ← hnq]; omega
        · have := hsel.1; omega
        · rw [getD_push_eq]
          have := hsel.1
          unfold SB_WORDS
          omega
      have := invWhile_spec zero ws q hq g past oiw hpast hoiw fuel
        (inv.push ((g % SB_WORDS * 64 + selectInWord (polWord zero (ws.getD g 0)) (nq - past)) % 2 ^ 32))
        (nq + q) (by rw [Array.size_push, Nat.add_mul, Nat.one_mul, hnq]) (by omega)
        (by rw [Nat.add_mul, Nat.one_mul] at hf; omega)
        (by
          intro i hi
          rw [Array.size_push] at hi
          by_cases hi' : i < inv.size
          · exact hlim i hi'
          · have : i = inv.size := by omega
            rw [this, ← hnq]; omega)
        (by
          intro i hi
          rw [Array.size_push] at hi
          by_cases hi' : i < inv.size
          · obtain ⟨e, h1, h2, h3⟩ := hent i hi'
            exact ⟨e, h1, h2, by rw [getD_push_lt _ _ hi']; exact h3⟩
          · have : i = inv.size := by omega
            rw [this]; exact hnew)
      obtain ⟨inv', h1, h2, h3, h4⟩ := this
      refine ⟨inv', h1, h2, ?_, h4⟩
      rw [Array.size_push] at h3; omega
    · rw [if_neg hgt]
      refine ⟨inv, by rw [hnq], ?_, Nat.le_refl _, hent⟩
      apply Nat.le_antisymm
      · apply Nat.le_of_not_lt; intro hlt
        have h1 := hlim _ hlt
        have h2 := (K_le_iff hq (past + oiw) (K q (past + oiw))).1 (Nat.le_refl _)
        omega
      · apply (K_le_iff hq _ _).2; rw [← hnq]; omega

/-- invariant of the outer loops after `g` backend words -/
structure LoopInv (zero : Bool) (ws : Array Nat) (q N g : Nat) (inv beg : Array Nat) (past nq : Nat) : Prop where
  past_eq : past = min (cnt (polBit zero ws) (64 * g)) N
  nq_eq : nq = inv.size * q
  size_eq : inv.size = K q past
  ent : ∀ i, i < inv.size → Entry zero ws q (64 * g) inv i
  begSize : beg.size = (g + (SB_WORDS - 1)) / SB_WORDS
  begVal : ∀ j, j < beg.size → beg.getD j 0 = K q (min (cnt (polBit zero ws) (j * 2 ^ 32)) N)

theorem invLoop_spec (zero : Bool) (ws : Array Nat) (q N : Nat) (hq : 0 < q) :
    ∀ (rest : List Nat) (g : Nat) (inv beg : Array Nat) (past nq : Nat),
      ws.toList.drop g = rest → g + rest.length = ws.size →
      LoopInv zero ws q N g inv beg past nq →
      ∃ inv' beg' past' nq', invLoop zero N q rest g inv beg past nq = .ok (inv', beg', past') ∧
        LoopInv zero ws q N ws.size inv' beg' past' nq'
  | [], g, inv, beg, past, nq, _, hg, hI => by
    have : g = ws.size := by simpa using hg
    subst this
    exact ⟨inv, beg, past, nq, rfl, hI⟩
  | w :: rest, g, inv, beg, past, nq, hd, hg, hI => by
    have hgl : g < ws.size := by simp at hg; omega
    have hw : ws.getD g 0 = w := by
      have h0 : (ws.toList.drop g)[0]? = some w := by rw [hd]; rfl
      rw [List.getElem?_drop, Nat.add_zero, Array.getElem?_toList] at h0
      rw [Array.getD_eq_getD_getElem?, h0]; rfl
    have hd' : ws.toList.drop (g + 1) = rest := by
      have := congrArg List.tail hd
      rw [List.tail_drop] at this
      exact this
    -- the word
    have hcw : cnt (polBit zero ws) (64 * (g + 1))
        = cnt (polBit zero ws) (64 * g) + popcount 64 (polWord zero (ws.getD g 0)) := by
      rw [show 64 * (g + 1) = 64 * g + 64 by omega, cnt_word zero ws g 64 (Nat.le_refl _), popcount_eq_cnt]
    have hpe := hI.past_eq
    have hpast : past = cnt (polBit zero ws) (64 * g) ∨
        min (popcount 64 (polWord zero (ws.getD g 0))) (N - past) = 0 := by omega
    have hnq := hI.nq_eq
    have hse := hI.size_eq
    have hle : past ≤ nq := by
      rw [hnq, hse]
      exact (K_le_iff hq past (K q past)).1 (Nat.le_refl _)
    have hpw : popcount 64 (polWord zero (ws.getD g 0)) ≤ 64 := by
      rw [popcount_eq_cnt]; exact cnt_le _ _
    obtain ⟨inv', h1, h2, h3, h4⟩ := invWhile_spec zero ws q hq g past
      (min (popcount 64 (polWord zero (ws.getD g 0))) (N - past)) hpast (Nat.min_le_left _ _)
      65 inv nq hnq hle
      (by
        have : 65 ≤ 65 * q := Nat.le_mul_of_pos_right 65 hq
        omega)
      (by
        intro i hi
        rw [hse] at hi
        have := (lt_K_iff hq past i).1 hi
        omega)
      (by
        intro i hi
        obtain ⟨e, e1, e2, e3⟩ := hI.ent i hi
        exact ⟨e, e1, by omega, e3⟩)
    -- the state for the next word
    have hI' : LoopInv zero ws q N (g + 1) inv'
        (if g % SB_WORDS = 0 then beg.push inv.size else beg)
        (past + min (popcount 64 (polWord zero (ws.getD g 0))) (N - past)) (inv'.size * q) := by
      refine ⟨by rw [hcw]; omega, rfl, h2, h4, ?_, ?_⟩
      · by_cases h0 : g % SB_WORDS = 0
        · rw [if_pos h0, Array.size_push, hI.begSize]; unfold SB_WORDS at h0 ⊢; omega
        · rw [if_neg h0, hI.begSize]; unfold SB_WORDS at h0 ⊢; omega
      · intro j hj
        by_cases h0 : g % SB_WORDS = 0
        · rw [if_pos h0] at hj ⊢
          rw [Array.size_push] at hj
          by_cases hj' : j < beg.size
          · rw [getD_push_lt _ _ hj']; exact hI.begVal j hj'
          · have hjb : j = beg.size := by omega
            rw [hjb, getD_push_eq, hse, hpe]
            have : beg.size * 2 ^ 32 = 64 * g := by
              rw [hI.begSize]; unfold SB_WORDS at h0 ⊢; omega
            rw [this]
        · rw [if_neg h0] at hj ⊢
          exact hI.begVal j hj
    obtain ⟨inv'', beg'', past'', nq'', r1, r2⟩ := invLoop_spec zero ws q N hq rest (g + 1) inv'
      (if g % SB_WORDS = 0 then beg.push inv.size else beg)
      (past + min (popcount 64 (polWord zero (ws.getD g 0))) (N - past)) (inv'.size * q) hd'
      (by simp at hg; omega) hI'
    refine ⟨inv'', beg'', past'', nq'', ?_, r2⟩
    unfold invLoop
    rw [← hw]
    show (invWhile q (g % SB_WORDS) (polWord zero (ws.getD g 0)) past
        (min (pc64 (polWord zero (ws.getD g 0))) (N - past)) 65 inv nq) >>= _ = _
    have h1' : invWhile q (g % SB_WORDS) (polWord zero (ws.getD g 0)) past
        (min (pc64 (polWord zero (ws.getD g 0))) (N - past)) 65 inv nq = .ok (inv', inv'.size * q) := h1
    rw [h1', Out.bind_ok]
    exact r1

/-- the final state of the loops gives `SelInvOK` for either way of terminating `inventory_begin` -/
theorem selInvOK_of_loop (zero : Bool) (ws : Array Nat) (len l : Nat) (hlen : len ≤ 64 * ws.size)
    (inv beg : Array Nat) (past nq : Nat)
    (hI : LoopInv zero ws (2 ^ l) (cnt (polBit zero ws) len) ws.size inv beg past nq) :
    past = cnt (polBit zero ws) len ∧
    (inv.size = 0 → SelInvOK zero ws len { inv := inv.push 0, begin := beg.push 0, l := l }) ∧
    (inv.size ≠ 0 → SelInvOK zero ws len { inv := inv, begin := beg.push inv.size, l := l }) := by
  have hq : 0 < 2 ^ l := Nat.two_pow_pos l
  have hN : cnt (polBit zero ws) len ≤ cnt (polBit zero ws) (64 * ws.size) := cnt_mono _ hlen
  have hpast : past = cnt (polBit zero ws) len := by rw [hI.past_eq]; omega
  have hsz : inv.size = K (2 ^ l) (cnt (polBit zero ws) len) := by rw [hI.size_eq, hpast]
  refine ⟨hpast, ?_, ?_⟩
  · intro h0
    have hN0 : cnt (polBit zero ws) len = 0 := by
      have := (K_le_iff hq (cnt (polBit zero ws) len) 0).1 (by omega)
      omega
    refine ⟨?_, ?_, ?_⟩
    · intro i hi; rw [hN0] at hi; omega
    · intro i hi
      show (i + 1) * 2 ^ l < _
      have : (inv.push 0).size = 1 := by rw [Array.size_push, h0]
      rw [this] at hi; omega
    · intro i e he
      have := he.lt_cnt; rw [hN0] at this; omega
  · intro hne
    refine ⟨?_, ?_, ?_⟩
    · intro i hi
      show i < inv.size
      rw [hsz]; exact (lt_K_iff hq _ _).2 hi
    · intro i hi
      have hi' : i + 1 < inv.size := hi
      rw [hsz] at hi'
      exact (lt_K_iff hq _ _).1 hi'
    · intro i e he0
      have he : IsSel (polBit zero ws) len (i * 2 ^ l) e := he0
      have hi : i < inv.size := by rw [hsz]; exact (lt_K_iff hq _ _).2 he.lt_cnt
      obtain ⟨e', h1, h2, h3⟩ := hI.ent i hi
      have hee : e' = e := h1.unique he.at
      subst hee
      refine ⟨?_, h3⟩
      -- position of `i` in `inventory_begin`
      show ppLe (beg.push inv.size).toList i = e' / 2 ^ 32 + 1
      have hbs : e' / 2 ^ 32 < beg.size := by
        rw [hI.begSize]
        have := he.1
        unfold SB_WORDS
        omega
      have hget : ∀ j, (beg.push inv.size).toList.getD j 0 = (beg.push inv.size).getD j 0 := by
        intro j
        rw [List.getD_eq_getElem?_getD, Array.getElem?_toList, ← Array.getD_eq_getD_getElem?]
      apply ppLe_eq i _ _ (by rw [Array.length_toList, Array.size_push]; omega)
      · intro j hj
        rw [hget, getD_push_lt _ _ (by omega), hI.begVal j (by omega)]
        apply (K_le_iff hq _ _).2
        have hjle : j * 2 ^ 32 ≤ e' := by
          have : j ≤ e' / 2 ^ 32 := by omega
          exact Nat.le_trans (Nat.mul_le_mul_right _ this) (Nat.div_mul_le_self _ _)
        have := h1.cnt_le_of_le hjle
        exact Nat.le_trans (Nat.min_le_left _ _) this
      · by_cases hm : e' / 2 ^ 32 + 1 = beg.size
        · right
          rw [hget, hm, getD_push_eq]; exact hi
        · right
          rw [hget, getD_push_lt _ _ (by omega), hI.begVal _ (by omega)]
          apply (lt_K_iff hq _ _).2
          have hlt : e' < (e' / 2 ^ 32 + 1) * 2 ^ 32 := by
            have := Nat.lt_div_mul_add (a := e') (Nat.two_pow_pos 32)
            rw [Nat.add_mul, Nat.one_mul]; exact this
          have h5 := h1.lt_cnt_of_lt hlt
          have h6 := he.lt_cnt
          exact Nat.lt_min.2 ⟨h5, h6⟩

/-- `_new` establishes the invariant, for every `log2_ones_per_inventory` -/
theorem buildNew_inv (zero : Bool) (ws : Array Nat) (len l : Nat) (hlen : len ≤ 64 * ws.size) :
    ∃ s, buildNew zero ws (cnt (polBit zero ws) len) l = .ok s ∧ SelInvOK zero ws len s ∧ s.l = l := by
  have hq : 0 < 2 ^ l := Nat.two_pow_pos l
  have hI0 : LoopInv zero ws (2 ^ l) (cnt (polBit zero ws) len) 0 #[] #[] 0 0 := by
    refine ⟨by simp, by simp, ?_, ?_, by unfold SB_WORDS; simp, ?_⟩
    · show 0 = K (2 ^ l) 0
      unfold K; rw [Nat.zero_add]; exact (Nat.div_eq_of_lt (by omega)).symm
    · intro i hi; simp at hi
    · intro j hj; simp at hj
  obtain ⟨inv, beg, past, nq, h1, h2⟩ := invLoop_spec zero ws (2 ^ l) (cnt (polBit zero ws) len) hq
    ws.toList 0 #[] #[] 0 0 (by simp) (by simp) hI0
  obtain ⟨hp, he, hn⟩ := selInvOK_of_loop zero ws len l hlen inv beg past nq h2
  unfold buildNew
  rw [Nat.one_shiftLeft]
  dsimp only
  rw [h1, Out.bind_ok]
  dsimp only
  rw [check_ok (by rw [hp]; simp), Out.bind_ok]
  by_cases h0 : inv.size = 0
  · have : inv.isEmpty = true := by rw [Array.isEmpty_iff_size_eq_zero]; exact h0
    rw [if_pos this]
    exact ⟨_, rfl, he h0, rfl⟩
  · have : ¬ inv.isEmpty = true := by rw [Array.isEmpty_iff_size_eq_zero]; exact h0
    rw [if_neg this]
    exact ⟨_, rfl, hn h0, rfl⟩

/-- (B) `with_inv(small_counters, b)` / `new(small_counters)` establish `SelInvOK` whenever the two
overflow-checked products do not overflow -/
theorem buildWithInv_inv (P : SmallParams) (zero : Bool) (ws : Array Nat) (len b : Nat)
    (hlen : len ≤ 64 * ws.size)
    (h1 : b * (P.wpb * 64) < 2 ^ 64) (h2 : cnt (polBit zero ws) len * (b * (P.wpb * 64)) < 2 ^ 64) :
    ∃ s, buildWithInv P zero ws len (cnt (polBit zero ws) len) b = .ok s ∧ SelInvOK zero ws len s := by
  unfold buildWithInv mulU
  rw [if_pos h1, Out.bind_ok, if_pos h2, Out.bind_ok]
  obtain ⟨s, hs, hinv, -⟩ := buildNew_inv zero ws len
    (Nat.log2 (max ((cnt (polBit zero ws) len * (b * (P.wpb * 64)) + (max len 1 - 1)) / max len 1) 1)) hlen
  exact ⟨s, hs, hinv⟩

end Sux.RS.Small
