import SuxModel.RankSel.Small.LemmasQuery2
/-!
# `complete_select` of `SelectZeroSmall`
-/
namespace Sux.RS.Small
open Sux Sux.RS Sux.RS.Priv Sux.RS.BW

theorem C_true (ws : Array Nat) (len q : Nat) : C true ws len q = q - rankSpec ws len q := by
  simp [C]

/-- `rel(T)` of packed counters -/
theorem relOf_lane (P : SmallParams) (hP : SmallOK P) (D : Nat → Nat) (T : Nat) (hT : T < P.nsub)
    (hDlt : ∀ t, t ≤ P.nsub - 1 → D t < 2 ^ P.cw) :
    relOf P (packL P.cw (laneList (P.nsub - 1) D)) T = (if T = 0 then 0 else D T) := by
  have hlanes := laneList_lt (n := P.nsub - 1) (w := P.cw) (D := D) hDlt
  unfold relOf
  rw [xor_nsub hP.nsub hT, packL_lane P.cw _ _ hlanes]
  exact laneList_getD D (by omega)

theorem zipWith_map_same {α β γ δ : Type} (f : β → γ → δ) (g : α → β) (h : α → γ) : ∀ (l : List α),
    List.zipWith f (l.map g) (l.map h) = l.map (fun x => f (g x) (h x))
  | [] => rfl
  | x :: xs => by simp [zipWith_map_same f g h xs]

theorem zipWith_laneList (f : Nat → Nat → Nat) (n : Nat) (D1 D2 : Nat → Nat) :
    List.zipWith f (laneList n D1) (laneList n D2) = laneList n (fun t => f (D1 t) (D2 t)) := by
  unfold laneList
  exact zipWith_map_same f _ _ _

theorem laneList_getD_lt {n i : Nat} (D : Nat → Nat) (hi : i < n) : (laneList n D).getD i 0 = D (n - i) := by
  have := laneList_getD (n := n) (T := n - i) D (by omega)
  rw [show n - (n - i) = i by omega, if_neg (by omega)] at this
  exact this

theorem completeSelectZero_correct (P : SmallParams) (hP : SmallOK P) (ws : Array Nat) (len : Nat)
    (hlen : len ≤ 64 * ws.size) (r p b : Nat)
    (hsel : IsSel (polBit true ws) len r p)
    (hb1 : b * (P.wpb * 64) ≤ p) (hb2 : p < b * (P.wpb * 64) + P.wpb * 64) :
    completeSelectZero P ws (smallRel P (onesBefore ws len) (b * P.wpb)) (b * (P.wpb * 64)) r
      (b * (P.wpb * 64) - rankSpec ws len (b * (P.wpb * 64))) = .ok p := by
  have hS : 0 < P.wps * 64 := by have := hP.wps_pos; omega
  have hBS : P.wpb * 64 = P.nsub * (P.wps * 64) := by
    rw [hP.wpb, Nat.mul_comm P.wps P.nsub, Nat.mul_assoc]
  have hn : 1 ≤ P.nsub := by rcases hP.nsub with h | h <;> omega
  have hbb := hP.bb
  let T := (p - b * (P.wpb * 64)) / (P.wps * 64)
  have hT : T < P.nsub := by
    apply Nat.div_lt_of_lt_mul
    rw [Nat.mul_comm (P.wps * 64) P.nsub, ← hBS]; omega
  have hCb : C true ws len (b * (P.wpb * 64)) ≤ r := (C_le_iff hsel _).2 hb1
  have hrib : r - C true ws len (b * (P.wpb * 64)) < 2 ^ P.cw := by
    have := pos_add_le hsel (q := b * (P.wpb * 64)) hCb
    omega
  -- ones counters
  let D1 : Nat → Nat := fun t => onesBefore ws len (b * P.wpb + t * P.wps) - onesBefore ws len (b * P.wpb)
  have hD1 : ∀ t, D1 t = rankSpec ws len (b * (P.wpb * 64) + t * (P.wps * 64)) - rankSpec ws len (b * (P.wpb * 64)) := by
    intro t
    show onesBefore ws len (b * P.wpb + t * P.wps) - onesBefore ws len (b * P.wpb) = _
    rw [ob_eq]
    have := ob_eq ws len b 0 P
    simp only [Nat.zero_mul, Nat.add_zero] at this
    rw [this]
  have hRle : ∀ q, rankSpec ws len q ≤ q := rankSpec_le ws len
  have hRm : ∀ t, rankSpec ws len (b * (P.wpb * 64)) ≤ rankSpec ws len (b * (P.wpb * 64) + t * (P.wps * 64)) := by
    intro t
    have := C_mono false ws len (show b * (P.wpb * 64) ≤ b * (P.wpb * 64) + t * (P.wps * 64) by omega)
    rwa [C_false, C_false] at this
  have hRs : ∀ t, rankSpec ws len (b * (P.wpb * 64) + t * (P.wps * 64)) - rankSpec ws len (b * (P.wpb * 64))
      ≤ t * (P.wps * 64) := by
    intro t
    have := C_sub_le false ws len (show b * (P.wpb * 64) ≤ b * (P.wpb * 64) + t * (P.wps * 64) by omega)
    rw [C_false, C_false] at this; omega
  have htS : ∀ t, t ≤ P.nsub - 1 → t * (P.wps * 64) < P.wpb * 64 := by
    intro t ht
    have h2 : t * (P.wps * 64) < P.nsub * (P.wps * 64) := Nat.mul_lt_mul_of_pos_right (by omega) hS
    rw [← hBS] at h2; exact h2
  have hD1lt : ∀ t, t ≤ P.nsub - 1 → D1 t < 2 ^ P.cw := by
    intro t ht; rw [hD1]; have := hRs t; have := htS t ht; omega
  -- zero counters
  let Dz : Nat → Nat := fun t => t * (P.wps * 64) - D1 t
  have hDz : ∀ t, Dz t = C true ws len (b * (P.wpb * 64) + t * (P.wps * 64)) - C true ws len (b * (P.wpb * 64)) := by
    intro t
    show t * (P.wps * 64) - D1 t = _
    rw [hD1, C_true, C_true]
    have := hRs t; have := hRm t; have := hRle (b * (P.wpb * 64))
    have := hRle (b * (P.wpb * 64) + t * (P.wps * 64))
    omega
  have hDzlt : ∀ t, t ≤ P.nsub - 1 → Dz t < 2 ^ P.cw := by
    intro t ht
    show t * (P.wps * 64) - D1 t < _
    have := htS t ht; omega
  have hDzT : ∀ t, 1 ≤ t → t ≤ P.nsub - 1 → (Dz t ≤ r - C true ws len (b * (P.wpb * 64)) ↔ t ≤ T) := by
    intro t _ _
    rw [hDz]
    have h1 := C_mono true ws len (show b * (P.wpb * 64) ≤ b * (P.wpb * 64) + t * (P.wps * 64) by omega)
    have h3 := C_le_iff hsel (b * (P.wpb * 64) + t * (P.wps * 64))
    have h4 : t ≤ T ↔ t * (P.wps * 64) ≤ p - b * (P.wpb * 64) := (Nat.le_div_iff_mul_le hS)
    rw [h4]
    constructor
    · intro h; have := h3.1 (by omega); omega
    · intro h; have := h3.2 (by omega); omega
  -- POS_STEP - all_rel
  have hsmall : smallRel P (onesBefore ws len) (b * P.wpb) = packL P.cw (laneList (P.nsub - 1) D1) := rfl
  have hpos : posStep P = packL P.cw (laneList (P.nsub - 1) (fun t => t * (P.wps * 64))) := hP.pos
  obtain ⟨hsub1, hsub2⟩ := packL_sub P.cw (laneList (P.nsub - 1) (fun t => t * (P.wps * 64)))
    (laneList (P.nsub - 1) D1) (by rw [laneList_length, laneList_length])
    (by
      intro i hi
      rw [laneList_length] at hi
      rw [laneList_getD_lt _ hi, laneList_getD_lt _ hi, hD1]
      exact hRs _)
  rw [zipWith_laneList] at hsub2
  obtain ⟨y, u, hy, hu, hpc, -⟩ := uleq_off P hP Dz (r - C true ws len (b * (P.wpb * 64))) T hT hrib hDzlt hDzT
  have hrel1 := relOf_lane P hP D1 T hT hD1lt
  have hrelT : relOf P (packL P.cw (laneList (P.nsub - 1) D1)) T = D1 T := by
    rw [hrel1]
    by_cases h0 : T = 0
    · rw [if_pos h0, h0, hD1]; simp
    · rw [if_neg h0]
  have hTle : T * (P.wps * 64) ≤ p - b * (P.wpb * 64) := Nat.div_mul_le_self _ _
  have hTlt : p - b * (P.wpb * 64) < T * (P.wps * 64) + P.wps * 64 := Nat.lt_div_mul_add hS
  have hhp1 : b * (P.wpb * 64) + T * (P.wps * 64) ≤ p := by omega
  have hChp : C true ws len (b * (P.wpb * 64) + T * (P.wps * 64)) = cnt (polBit true ws) (b * (P.wpb * 64) + T * (P.wps * 64)) :=
    C_eq_cnt true ws len (by have := hsel.1; omega)
  have hCsum : C true ws len (b * (P.wpb * 64)) + Dz T = C true ws len (b * (P.wpb * 64) + T * (P.wps * 64)) := by
    rw [hDz]
    have := C_mono true ws len (show b * (P.wpb * 64) ≤ b * (P.wpb * 64) + T * (P.wps * 64) by omega)
    omega
  have hCb' : b * (P.wpb * 64) - rankSpec ws len (b * (P.wpb * 64)) = C true ws len (b * (P.wpb * 64)) := by
    rw [C_true]
  unfold completeSelectZero
  rw [hCb', subU_ok hCb, Out.bind_ok, hy, Out.bind_ok, hsmall, hpos, subU_ok hsub1, Out.bind_ok, hsub2]
  have hu' : uleqStep P (packL P.cw (laneList (P.nsub - 1) fun t => t * (P.wps * 64) - D1 t)) y = .ok u := hu
  rw [hu', Out.bind_ok, hpc]
  dsimp only
  rw [hrelT]
  have hz : subU (T * (P.wps * 64)) (D1 T) = .ok (Dz T) := by
    rw [subU_ok (by rw [hD1]; exact hRs T)]
  rw [hz, Out.bind_ok]
  by_cases hw1 : P.wps = 1
  · rw [if_pos hw1]
    have hle : Dz T ≤ r - C true ws len (b * (P.wpb * 64)) := by
      have h3 := (C_le_iff hsel (b * (P.wpb * 64) + T * (P.wps * 64))).2 hhp1
      omega
    rw [subU_ok hle, Out.bind_ok]
    have hlt : (b * (P.wpb * 64) + T * (P.wps * 64)) / 64 < ws.size := by
      have := hsel.1
      apply Nat.div_lt_of_lt_mul; omega
    rw [readU_ok_of_lt hlt, Out.bind_ok]
    have hmod : (b * (P.wpb * 64) + T * (P.wps * 64)) % 64 = 0 := by
      rw [← Nat.mul_assoc, ← Nat.mul_assoc, ← Nat.add_mul]; exact Nat.mul_mod_left _ _
    have := selInWord_correct true ws len r p _ hsel hmod hhp1 (by
      have hS64 : P.wps * 64 = 64 := by rw [hw1]
      omega)
    rw [← hChp] at this
    rw [show r - C true ws len (b * (P.wpb * 64)) - Dz T
        = r - C true ws len (b * (P.wpb * 64) + T * (P.wps * 64)) by omega]
    have this' : selInWord (notW 64 (ws.getD ((b * (P.wpb * 64) + T * (P.wps * 64)) / 64) 0))
        (r - C true ws len (b * (P.wpb * 64) + T * (P.wps * 64))) = .ok (p - (b * (P.wpb * 64) + T * (P.wps * 64))) := this
    rw [this', Out.bind_ok]
    congr 1; omega
  · rw [if_neg hw1, hCsum]
    exact selectHintedP_correct true ws len r _ _ p hlen hsel hhp1 hChp

end Sux.RS.Small
