import SuxModel.RankSel.Small.LemmasZero
/-!
# (Q) for `SelectZeroSmall`: main theorem
-/
namespace Sux.RS.Small
open Sux Sux.RS Sux.RS.Priv Sux.RS.BW

/-- `last_block_idx` (zero selector: not clipped in the last-entry branch) -/
theorem last_block_zero (P : SmallParams) (hP : SmallOK P) (ws : Array Nat) (len : Nat) (s : Sel)
    (hinv : SelInvOK true ws len s) (r p : Nat) (hsel : IsSel (polBit true ws) len r p) :
    ∃ hi, ((if r / 2 ^ s.l + 1 < s.inv.size then
          (linPP (fun _ x => Out.ok (decide (x ≤ r / 2 ^ s.l + 1))) s.begin.toList 0) >>= fun nextPP =>
          (subU nextPP 1) >>= fun nextUb =>
            if nextUb = p / 2 ^ 32 then
              (Out.readU s.inv (r / 2 ^ s.l + 1)) >>= fun e =>
                Out.ok ((e + p / 2 ^ 32 * 2 ^ 32 + (P.wpb * 64 - 1)) / (P.wpb * 64))
            else Out.ok ((p / 2 ^ 32 + 1) * 2 ^ (32 - P.cw))
        else Out.ok ((len + (P.wpb * 64 - 1)) / (P.wpb * 64)))
        = Out.ok hi) ∧
      p < hi * (P.wpb * 64) ∧ hi ≤ (len + (64 * P.wpb - 1)) / (64 * P.wpb) := by
  have hp := hsel.1
  have hbb : 0 < P.wpb * 64 := by rw [hP.bb]; exact Nat.two_pow_pos _
  obtain ⟨hM, -⟩ := sb_split P hP
  have hK1 : (p / 2 ^ 32 + 1) * 2 ^ 32 = (p / 2 ^ 32 + 1) * 2 ^ (32 - P.cw) * (P.wpb * 64) := by
    rw [Nat.mul_assoc, Nat.mul_comm (2 ^ (32 - P.cw)), ← hM]
  have hub2 : p < (p / 2 ^ 32 + 1) * 2 ^ 32 := by
    have := Nat.lt_div_mul_add (a := p) (Nat.two_pow_pos 32); rw [Nat.add_mul, Nat.one_mul]; exact this
  have hcomm : 64 * P.wpb = P.wpb * 64 := Nat.mul_comm _ _
  rw [hcomm]
  obtain ⟨hc1, hc2⟩ := ceil_facts (x := len) hbb
  have hir2 : r < (r / 2 ^ s.l + 1) * 2 ^ s.l := by
    have := Nat.lt_div_mul_add (a := r) (Nat.two_pow_pos s.l); rw [Nat.add_mul, Nat.one_mul]; exact this
  by_cases hn : r / 2 ^ s.l + 1 < s.inv.size
  · have hN' := hinv.next _ hn
    obtain ⟨e', he'⟩ := IsSel.exists (f := polBit true ws) (n := len) hN'
    have hpe : p < e' := hsel.at.lt_of_lt he'.at hir2
    have he'len := he'.1
    obtain ⟨hpp', hinvv'⟩ := hinv.entry _ e' he'
    rw [if_pos hn, linPP_ppLe, Out.bind_ok, Nat.zero_add, hpp', subU_ok (Nat.le_add_left _ _), Out.bind_ok,
      Nat.add_sub_cancel]
    by_cases hc : e' / 2 ^ 32 = p / 2 ^ 32
    · have hee : e' % 2 ^ 32 + p / 2 ^ 32 * 2 ^ 32 = e' := by
        rw [← hc]; have := Nat.div_add_mod e' (2 ^ 32); rw [Nat.mul_comm] at this; omega
      rw [if_pos hc, readU_ok_of_lt hn, Out.bind_ok, hinvv', hee]
      obtain ⟨hd1, hd2⟩ := ceil_facts (x := e') hbb
      exact ⟨_, rfl, by omega, Nat.div_le_div_right (by omega)⟩
    · rw [if_neg hc]
      have hge : (p / 2 ^ 32 + 1) * 2 ^ 32 ≤ e' := by
        have h1 : p / 2 ^ 32 ≤ e' / 2 ^ 32 := Nat.div_le_div_right (by omega)
        have h2 : p / 2 ^ 32 + 1 ≤ e' / 2 ^ 32 := by omega
        exact Nat.le_trans (Nat.mul_le_mul_right _ h2) (Nat.div_mul_le_self _ _)
      refine ⟨_, rfl, by rw [← hK1]; exact hub2, ?_⟩
      apply (Nat.le_div_iff_mul_le hbb).2
      rw [← hK1]; omega
  · rw [if_neg hn]
    exact ⟨_, rfl, by omega, Nat.le_refl _⟩

theorem selectUnchecked_zero_correct (P : SmallParams) (hP : SmallOK P) (ws : Array Nat) (len : Nat)
    (hlen : len ≤ 64 * ws.size) (s : Sel) (hinv : SelInvOK true ws len s) (r p : Nat)
    (hsel : IsSel (polBit true ws) len r p) :
    selectUnchecked P true ws len (smallView P (onesBefore ws len) len) s r = .ok p := by
  have hp := hsel.1
  have hbb : 0 < P.wpb * 64 := by rw [hP.bb]; exact Nat.two_pow_pos _
  obtain ⟨hM, hMd⟩ := sb_split P hP
  have hK : p / 2 ^ 32 * 2 ^ 32 = p / 2 ^ 32 * 2 ^ (32 - P.cw) * (P.wpb * 64) := by
    rw [Nat.mul_assoc, Nat.mul_comm (2 ^ (32 - P.cw)), ← hM]
  have hnu : p / 2 ^ 32 < (len + (2 ^ 32 - 1)) / 2 ^ 32 := by
    apply (Nat.lt_div_iff_mul_lt (Nat.two_pow_pos 32)).2 <;> omega
  have hub1 : p / 2 ^ 32 * 2 ^ 32 ≤ p := Nat.div_mul_le_self _ _
  have hU : C true ws len (p / 2 ^ 32 * 2 ^ 32) ≤ r := (C_le_iff hsel _).2 hub1
  have hCU : p / 2 ^ 32 * 2 ^ 32 - rankSpec ws len (p / 2 ^ 32 * 2 ^ 32) = C true ws len (p / 2 ^ 32 * 2 ^ 32) := by
    rw [C_true]
  -- the inventory entry
  have hi0 : r >>> s.l = r / 2 ^ s.l := Nat.shiftRight_eq_div_pow _ _
  have hil : (r / 2 ^ s.l) <<< s.l = r / 2 ^ s.l * 2 ^ s.l := Nat.shiftLeft_eq _ _
  have hir1 : r / 2 ^ s.l * 2 ^ s.l ≤ r := Nat.div_mul_le_self _ _
  have hN : r < cnt (polBit true ws) len := hsel.lt_cnt
  obtain ⟨e, he⟩ := IsSel.exists (f := polBit true ws) (n := len) (r := r / 2 ^ s.l * 2 ^ s.l) (by omega)
  have hep : e ≤ p := he.at.le_of_le hsel.at hir1
  obtain ⟨hpp, hinvv⟩ := hinv.entry _ e he
  have hisz : r / 2 ^ s.l < s.inv.size := hinv.size _ (by omega)
  have hCe : C true ws len e = r / 2 ^ s.l * 2 ^ s.l := C_at he
  unfold selectUnchecked
  simp only [if_true]
  rw [upper_search_zero P ws len r p hsel, Out.bind_ok, subU_ok (by omega), Out.bind_ok, Nat.add_sub_cancel,
    upper_read P ws len _ hnu, Out.bind_ok, Nat.shiftLeft_eq, subU_ok (rankSpec_le _ _ _), Out.bind_ok, hCU,
    subU_ok hU, Out.bind_ok, hi0, linPP_ppLe,
    Out.bind_ok, Nat.zero_add, hpp, subU_ok (by omega), Out.bind_ok, Nat.add_sub_cancel, SB_BITS_eq, hMd]
  obtain ⟨hi, hhi, hh1, hh2⟩ := last_block_zero P hP ws len s hinv r p hsel
  have hdvd : p / 2 ^ 32 * 2 ^ 32 / (P.wpb * 64) * (P.wpb * 64) = p / 2 ^ 32 * 2 ^ 32 :=
    Nat.div_mul_cancel (m := p / 2 ^ 32 * 2 ^ 32) (n := P.wpb * 64)
      ⟨p / 2 ^ 32 * 2 ^ (32 - P.cw), by rw [Nat.mul_comm (P.wpb * 64)]; exact hK⟩
  by_cases hc : e / 2 ^ 32 = p / 2 ^ 32
  · have hge : p / 2 ^ 32 * 2 ^ 32 ≤ e := by rw [← hc]; exact Nat.div_mul_le_self _ _
    have hUe : C true ws len (p / 2 ^ 32 * 2 ^ 32) ≤ r / 2 ^ s.l * 2 ^ s.l := by
      rw [← hCe]; exact C_mono true ws len hge
    have hee : e % 2 ^ 32 + p / 2 ^ 32 * 2 ^ 32 = e := by
      rw [← hc]; have := Nat.div_add_mod e (2 ^ 32); rw [Nat.mul_comm] at this; omega
    have hlo1 : p / 2 ^ 32 * 2 ^ 32 ≤ (e / (P.wpb * 64) + (r - r / 2 ^ s.l * 2 ^ s.l) / (P.wpb * 64)) * (P.wpb * 64) := by
      have : p / 2 ^ 32 * 2 ^ (32 - P.cw) ≤ e / (P.wpb * 64) := by
        apply (Nat.le_div_iff_mul_le hbb).2
        rw [← hK]; exact hge
      have h2 := Nat.mul_le_mul_right (P.wpb * 64) this
      rw [← hK] at h2
      rw [Nat.add_mul]; omega
    have hlo2 : (e / (P.wpb * 64) + (r - r / 2 ^ s.l * 2 ^ s.l) / (P.wpb * 64)) * (P.wpb * 64) ≤ p := by
      have h1 := pos_add_le hsel (q := e) (by rw [hCe]; exact hir1)
      rw [hCe] at h1
      have h2 := Nat.div_mul_le_self e (P.wpb * 64)
      have h3 := Nat.div_mul_le_self (r - r / 2 ^ s.l * 2 ^ s.l) (P.wpb * 64)
      rw [Nat.add_mul]; omega
    rw [if_pos hc, hil, subU_ok hUe, Out.bind_ok, readU_ok_of_lt hisz, Out.bind_ok, hinvv, hee, Out.bind_ok]
    dsimp only
    rw [subU_ok (show r / 2 ^ s.l * 2 ^ s.l - C true ws len (p / 2 ^ 32 * 2 ^ 32)
          ≤ r - C true ws len (p / 2 ^ 32 * 2 ^ 32) by omega), Out.bind_ok,
      show r - C true ws len (p / 2 ^ 32 * 2 ^ 32) -
          (r / 2 ^ s.l * 2 ^ s.l - C true ws len (p / 2 ^ 32 * 2 ^ 32)) = r - r / 2 ^ s.l * 2 ^ s.l by omega,
      hhi, Out.bind_ok]
    exact searchTailZero_correct P hP ws len hlen r p _ hi hsel hlo1 hlo2 hh1 hh2
  · have hlo1 : p / 2 ^ 32 * 2 ^ 32 ≤ (p / 2 ^ 32 * 2 ^ 32 / (P.wpb * 64) +
        (r - C true ws len (p / 2 ^ 32 * 2 ^ 32) - 0) / (P.wpb * 64)) * (P.wpb * 64) := by
      rw [Nat.add_mul, hdvd]; omega
    have hlo2 : (p / 2 ^ 32 * 2 ^ 32 / (P.wpb * 64) +
        (r - C true ws len (p / 2 ^ 32 * 2 ^ 32) - 0) / (P.wpb * 64)) * (P.wpb * 64) ≤ p := by
      have h1 := pos_add_le hsel (q := p / 2 ^ 32 * 2 ^ 32) hU
      have h3 := Nat.div_mul_le_self (r - C true ws len (p / 2 ^ 32 * 2 ^ 32)) (P.wpb * 64)
      rw [Nat.add_mul, hdvd, Nat.sub_zero]
      exact Nat.le_trans (Nat.add_le_add_left h3 _) h1
    rw [if_neg hc, Out.bind_ok]
    dsimp only
    rw [subU_ok (Nat.zero_le _), Out.bind_ok, hhi, Out.bind_ok]
    exact searchTailZero_correct P hP ws len hlen r p _ hi hsel hlo1 hlo2 hh1 hh2

end Sux.RS.Small
