import SuxModel.RankSel.Layer
import SuxModel.RankSel.Select9.Helpers
import SuxModel.Base.Proto
/-!
# Model of `SelectSmall` / `SelectZeroSmall` (src/rank_sel/select_small.rs, select_zero_small.rs)

One model for the five `RankSmall` variants (`SmallParams`, see `Helpers.lean`) and both polarities
(`zero = true` is `SelectZeroSmall`; following the source, "ones" below means the selected kind).
The `RankSmall` counters (`upper_counts()`, `counts()[i].absolute`, `counts()[i].all_rel()`) are an
input (`SmallView`); `layer` instantiates them with the spec-level view.

Dev profile: debug assertions and overflow checks are `panic`s; `get_unchecked` is `Out.readU`.
`slice::partition_point` is modelled by the binary search of the standard library (its result is
determined by its contract whenever the slice is partitioned, which the invariant guarantees).
-/
namespace Sux.RS.Small
open Sux Sux.RS.Priv

structure Sel where
  inv : Array Nat          -- `inventory: Box<[u32]>`
  begin : Array Nat        -- `inventory_begin: Box<[usize]>`
  l : Nat                  -- `log2_ones_per_inventory`
deriving Repr

/-- words per superblock: `SUPERBLOCK_BIT_SIZE / usize::BITS` -/
def SB_WORDS : Nat := 2 ^ 26
def SB_BITS : Nat := 2 ^ 32

/-! ## builder -/

/-- `while past_ones + ones_in_word > next_quantum` -/
def invWhile (q i word past onesInWord : Nat) : Nat → Array Nat → Nat → Out (Array Nat × Nat)
  | 0, inv, nq => .ok (inv, nq)
  | fuel + 1, inv, nq =>
    if past + onesInWord > nq then
      (subU nq past) >>= fun r =>
      (selInWord word r) >>= fun p =>
        invWhile q i word past onesInWord fuel (inv.push ((i * 64 + p) % 2 ^ 32)) (nq + q)
    else .ok (inv, nq)

/-- the two nested `for` loops: `gi` is the global word index, `i = gi % 2^26` the index inside the
chunk (`.chunks(2^26)` over ALL backend words); at the start of every chunk `inventory.len()` is
pushed to `inventory_begin` -/
def invLoop (zero : Bool) (numOnes q : Nat) :
    List Nat → Nat → Array Nat → Array Nat → Nat → Nat → Out (Array Nat × Array Nat × Nat)
  | [], _, inv, beg, past, _ => .ok (inv, beg, past)
  | w :: rest, gi, inv, beg, past, nq =>
    let i := gi % SB_WORDS
    let beg := if i = 0 then beg.push inv.size else beg
    let word := if zero then notW 64 w else w
    let onesInWord := min (pc64 word) (numOnes - past)
    (invWhile q i word past onesInWord 65 inv nq) >>= fun (inv', nq') =>
      invLoop zero numOnes q rest (gi + 1) inv' beg (past + onesInWord) nq'

/-- `_new(small_counters, num_ones, log2_ones_per_inventory)` -/
def buildNew (zero : Bool) (ws : Array Nat) (numOnes l : Nat) : Out Sel :=
  let q := 1 <<< l
  (invLoop zero numOnes q ws.toList 0 #[] #[] 0 0) >>= fun (inv, beg, past) =>
  (check (numOnes == past)) >>= fun _ =>
    if inv.isEmpty then .ok { inv := inv.push 0, begin := beg.push 0, l := l }
    else .ok { inv := inv, begin := beg.push inv.size, l := l }

/-- `with_inv(small_counters, blocks_per_inv)`; `numOnes` = number of selected bits -/
def buildWithInv (P : SmallParams) (zero : Bool) (ws : Array Nat) (len numOnes b : Nat) : Out Sel :=
  (mulU 64 b (P.wpb * 64)) >>= fun target =>
  (mulU 64 numOnes target) >>= fun prod =>
  let d := max len 1
  let l := Nat.log2 (max ((prod + (d - 1)) / d) 1)
  buildNew zero ws numOnes l

/-! ## query -/

/-- `linear_partition_point(|i, x| pred i x)`: index of the first element not satisfying `pred`
(the predicates of the zero selector contain overflow-checked subtractions, hence `Out Bool`) -/
def linPP (pred : Nat → Nat → Out Bool) : List Nat → Nat → Out Nat
  | [], i => .ok i
  | x :: xs, i => (pred i x) >>= fun b => if b then linPP pred xs (i + 1) else .ok i

/-- `a - b <= c` with the overflow check on the subtraction -/
def subLe (a b c : Nat) : Out Bool := (subU a b) >>= fun d => .ok (decide (d ≤ c))

/-- `slice::partition_point` (binary search of `core`) on `a[lo .. lo + size)` -/
def binPPLoop (a : Array Nat) (pred : Nat → Bool) : Nat → Nat → Nat → Nat
  | 0, base, _ => base
  | fuel + 1, base, size =>
    if size > 1 then
      let half := size / 2
      let mid := base + half
      binPPLoop a pred fuel (if pred (a.getD mid 0) then mid else base) (size - half)
    else base

def binPP (a : Array Nat) (pred : Nat → Bool) (lo size : Nat) : Nat :=
  if size = 0 then 0 else
  let base := binPPLoop a pred (size + 1) lo size
  (base - lo) + (if pred (a.getD base 0) then 1 else 0)

/-- `ONES_STEP_w` with `nsub - 1` lanes, `MSBS_STEP_w` -/
def onesStep (P : SmallParams) : Nat :=
  (List.range (P.nsub - 1)).foldl (fun acc t => acc ||| (1 <<< (P.cw * t))) 0
def msbsStep (P : SmallParams) : Nat := 2 ^ (P.cw - 1) * onesStep P

/-- `POS_STEP_w` of the zero selector: field `t` holds `t * SUBBLOCK_BIT_SIZE` -/
def posStep (P : SmallParams) : Nat :=
  (List.range (P.nsub - 1)).foldl
    (fun acc t => acc ||| (((t + 1) * (P.wps * 64)) <<< (P.cw * (P.nsub - 2 - t)))) 0

/-- `ULEQ_STEP_w!(x, y)` on `P.bits`-bit words -/
def uleqStep (P : SmallParams) (x y : Nat) : Out Nat :=
  let msbs := msbsStep P
  (subU (y ||| msbs) (x &&& notW P.bits msbs)) >>= fun d =>
    .ok (((d ||| (x ^^^ y)) ^^^ (x &&& notW P.bits y)) &&& msbs)

/-- `Block32Counters::rel(word)` -/
def relOf (P : SmallParams) (allRel word : Nat) : Nat :=
  (allRel >>> (P.cw * (word ^^^ (P.nsub - 1)))) &&& (2 ^ P.cw - 1)

/-- `complete_select` of `SelectSmall` (all five variants) -/
def completeSelect (P : SmallParams) (ws : Array Nat) (allRel hintPos rank hintRank : Nat) : Out Nat :=
  (subU rank hintRank) >>= fun rankInBlock =>
  (mulU P.bits rankInBlock (onesStep P)) >>= fun step =>
  (uleqStep P allRel step) >>= fun u =>
  let off := popcount P.bits u
  if P.wps = 1 then
    (subU rankInBlock (relOf P allRel off)) >>= fun rankInWord =>
    let hp := hintPos + off * (P.wps * 64)
    (Out.readU ws (hp / 64)) >>= fun w =>
    (selInWord w rankInWord) >>= fun p => .ok (hp + p)
  else
    selectHinted ws rank (hintPos + off * (P.wps * 64)) (hintRank + relOf P allRel off)

/-- `complete_select` of `SelectZeroSmall` -/
def completeSelectZero (P : SmallParams) (ws : Array Nat) (allRel hintPos rank hintRank : Nat) :
    Out Nat :=
  (subU rank hintRank) >>= fun rankInBlock =>
  (mulU P.bits rankInBlock (onesStep P)) >>= fun step =>
  (subU (posStep P) allRel) >>= fun relative =>
  (uleqStep P relative step) >>= fun u =>
  let off := popcount P.bits u
  (subU (off * (P.wps * 64)) (relOf P allRel off)) >>= fun zerosBefore =>
  if P.wps = 1 then
    (subU rankInBlock zerosBefore) >>= fun rankInWord =>
    let hp := hintPos + off * (P.wps * 64)
    (Out.readU ws (hp / 64)) >>= fun w =>
    (selInWord (notW 64 w) rankInWord) >>= fun p => .ok (hp + p)
  else
    selectZeroHinted ws rank (hintPos + off * (P.wps * 64)) (hintRank + zerosBefore)

/-- `select_unchecked` / `select_zero_unchecked` -/
def selectUnchecked (P : SmallParams) (zero : Bool) (ws : Array Nat) (len : Nat) (cnt : SmallView)
    (s : Sel) (rank : Nat) : Out Nat :=
  let blockBits := P.wpb * 64
  (linPP (fun i x => if zero then subLe (i <<< 32) x rank else .ok (decide (x ≤ rank)))
    cnt.upper.toList 0) >>= fun upperPP =>
  (subU upperPP 1) >>= fun ub =>
  (Out.readU cnt.upper ub) >>= fun upperRankOnes =>
  (if zero then subU (ub <<< 32) upperRankOnes else .ok upperRankOnes) >>= fun upperRank =>
  (subU rank upperRank) >>= fun localRank =>
  let invIdx := rank >>> s.l
  (linPP (fun _ x => .ok (decide (x ≤ invIdx))) s.begin.toList 0) >>= fun invPP =>
  (subU invPP 1) >>= fun invUb =>
  (if invUb = ub then
      (subU (invIdx <<< s.l) upperRank) >>= fun opt =>
      (Out.readU s.inv invIdx) >>= fun e => Out.ok (e + ub * SB_BITS, opt)
    else Out.ok (ub * SB_BITS, 0)) >>= fun (invPos, opt) =>
  (subU localRank opt) >>= fun skip =>
  let blockIdx := invPos / blockBits + skip / blockBits
  (if invIdx + 1 < s.inv.size then
      (linPP (fun _ x => .ok (decide (x ≤ invIdx + 1))) s.begin.toList 0) >>= fun nextPP =>
      (subU nextPP 1) >>= fun nextUb =>
      if nextUb = ub then
        (Out.readU s.inv (invIdx + 1)) >>= fun e =>
          Out.ok ((e + ub * SB_BITS + (blockBits - 1)) / blockBits)
      else Out.ok ((ub + 1) * (SB_BITS / blockBits))
    else
      -- ones selector: clipped to the superblock of the rank (commit db42763); zero selector: not
      let full := (len + (blockBits - 1)) / blockBits
      Out.ok (if zero then full else min full ((ub + 1) * (SB_BITS / blockBits)))) >>= fun lastBlockIdx =>
  (check (decide (blockIdx < cnt.abs.size))) >>= fun _ =>
  (check (decide (blockIdx ≤ lastBlockIdx))) >>= fun _ =>
  (check (decide (blockIdx < lastBlockIdx))) >>= fun _ =>
  -- `counts[block_idx..last_block_idx]` (safe slicing)
  (check (decide (lastBlockIdx ≤ cnt.abs.size))) >>= fun _ =>
  (if zero then
      linPP (fun i x => subLe ((blockIdx + i) * blockBits) (upperRankOnes + x) rank)
        ((cnt.abs.toList.drop blockIdx).take (lastBlockIdx - blockIdx)) 0
    else
      .ok (binPP cnt.abs (fun x => decide (x ≤ localRank)) blockIdx (lastBlockIdx - blockIdx))) >>= fun pp =>
  (subU (blockIdx + pp) 1) >>= fun blockIdx =>
  (Out.readU cnt.abs blockIdx) >>= fun absolute =>
  (Out.readU cnt.rel blockIdx) >>= fun allRel =>
  let hintPos := blockIdx * blockBits
  if zero then
    (subU hintPos (upperRankOnes + absolute)) >>= fun hintRank =>
      completeSelectZero P ws allRel hintPos rank hintRank
  else
    completeSelect P ws allRel hintPos rank (upperRank + absolute)

/-- `Select::select` / `SelectZero::select_zero` (trait defaults); `count` = `num_ones()` resp.
`num_zeros()` of the wrapped structure -/
def select (P : SmallParams) (zero : Bool) (ws : Array Nat) (len count : Nat) (cnt : SmallView)
    (s : Sel) (rank : Nat) : Out (Option Nat) :=
  if rank ≥ count then .ok none
  else (selectUnchecked P zero ws len cnt s rank) >>= fun p => .ok (some p)

/-! ## layers -/

def partsOf (tag : String) (s : Sel) : String :=
  s!"{tag} inv={Sux.Proto.fmtNatList s.inv.toList} begin={Sux.Proto.fmtNatList s.begin.toList} l={s.l}"

def viewOf (P : SmallParams) (ws : Array Nat) (len : Nat) : SmallView :=
  smallView P (obOf (cumOnes ws len)) len

/-- `b = some n`: `with_inv(_, n)`; `none`: `new(_)` = `with_inv(_, 8)` -/
def mkLayer (zero : Bool) (ws : Array Nat) (len n1 k : Nat) (b : Option Nat) : LayerModel :=
  let P := smallParams k
  let cnt := viewOf P ws len
  let count := if zero then len - n1 else n1
  let tag := if zero then "szs" else "ss"
  let q : Option (Nat → Out (Option Nat)) → LayerModel := fun f =>
    if zero then { parts := tag, selectZero := f } else { parts := tag, select := f }
  match buildWithInv P zero ws len count (b.getD 8) with
  | .ok s => { q (some (select P zero ws len count cnt s)) with parts := partsOf tag s }
  | .panic => { q (some (fun _ => .panic)) with parts := "build-panic" }
  | .oob => { q (some (fun _ => .oob)) with parts := "build-oob" }

/-- layer `.ss k b` -/
def layer (ws : Array Nat) (len n1 k : Nat) (b : Option Nat) : LayerModel := mkLayer false ws len n1 k b
/-- layer `.szs k b` -/
def layerZero (ws : Array Nat) (len n1 k : Nat) (b : Option Nat) : LayerModel := mkLayer true ws len n1 k b

end Sux.RS.Small
