import SuxModel.RankSel.Small.Model
import SuxModel.RankSel.Select9.Lanes
import SuxModel.RankSel.HintedLemmas
/-!
# Lemmas for the SelectSmall / SelectZeroSmall query (C02)

* `linPP_eq`, `binPP_eq`: the two searches return the partition point of a partitioned slice;
* `C zero ws len q`: "selected bits before `q`" as the counters of `RankSmall` see them, and its
  relation to the position `p` of the selected bit of rank `r` (`C_le_iff`).
-/
namespace Sux.RS.Small
open Sux Sux.RS Sux.RS.Priv Sux.RS.BW

/-! ## the two searches -/

theorem linPP_eq (pred : Nat → Nat → Out Bool) : ∀ (l : List Nat) (i m : Nat), m ≤ l.length →
    (∀ j, j < m → pred (i + j) (l.getD j 0) = .ok true) →
    (m = l.length ∨ pred (i + m) (l.getD m 0) = .ok false) → linPP pred l i = .ok (i + m)
  | [], i, m, hm, _, _ => by
    have : m = 0 := by simpa using hm
    subst this; rfl
  | x :: xs, i, 0, _, _, hf => by
    rcases hf with hf | hf
    · simp at hf
    · have : pred i x = .ok false := by simpa using hf
      simp [linPP, this]
  | x :: xs, i, m + 1, hm, ht, hf => by
    have h0 : pred i x = .ok true := by simpa using ht 0 (by omega)
    have ih := linPP_eq pred xs (i + 1) m (by simpa using hm)
      (fun j hj => by
        have := ht (j + 1) (by omega)
        rw [show i + 1 + j = i + (j + 1) by omega]
        simpa using this)
      (by
        rcases hf with hf | hf
        · left; simpa using hf
        · right; rw [show i + 1 + m = i + (m + 1) by omega]; simpa using hf)
    simp only [linPP, h0, Out.bind_ok, if_true]
    rw [ih]; congr 1; omega

theorem binPPLoop_spec (a : Array Nat) (pred : Nat → Bool) (lo size m : Nat)
    (ht : ∀ j, j < m → pred (a.getD (lo + j) 0) = true)
    (hf : ∀ j, m ≤ j → j < size → pred (a.getD (lo + j) 0) = false) :
    ∀ (fuel b sz : Nat), sz ≤ fuel → 1 ≤ sz → b ≤ m → m ≤ b + sz → b + sz ≤ size →
      ∃ b', binPPLoop a pred fuel (lo + b) sz = lo + b' ∧ b' ≤ m ∧ m ≤ b' + 1 ∧ b' < size
  | 0, b, sz, h1, h2, _, _, _ => by omega
  | fuel + 1, b, sz, h1, h2, h3, h4, h5 => by
    unfold binPPLoop
    by_cases hs : sz > 1
    · simp only [hs, if_true]
      have hhalf : 1 ≤ sz / 2 := by omega
      by_cases hp : pred (a.getD (lo + b + sz / 2) 0) = true
      · simp only [hp, if_true]
        have hlt : b + sz / 2 < m := by
          apply Nat.lt_of_not_le; intro hle
          have := hf (b + sz / 2) hle (by omega)
          rw [← Nat.add_assoc] at this
          rw [this] at hp; cases hp
        have := binPPLoop_spec a pred lo size m ht hf fuel (b + sz / 2) (sz - sz / 2)
          (by omega) (by omega) (by omega) (by omega) (by omega)
        rw [← Nat.add_assoc] at this
        exact this
      · simp only [hp]
        have hge : m ≤ b + sz / 2 := by
          apply Nat.le_of_not_lt; intro hlt
          have := ht (b + sz / 2) hlt
          rw [← Nat.add_assoc] at this
          exact hp this
        exact binPPLoop_spec a pred lo size m ht hf fuel b (sz - sz / 2)
          (by omega) (by omega) (by omega) (by omega) (by omega)
    · simp only [hs, if_false]
      exact ⟨b, rfl, h3, by omega, by omega⟩

/-- `partition_point` on a partitioned slice: `m` leading elements satisfy the predicate -/
theorem binPP_eq (a : Array Nat) (pred : Nat → Bool) (lo size m : Nat) (hs : 0 < size) (hm : m ≤ size)
    (ht : ∀ j, j < m → pred (a.getD (lo + j) 0) = true)
    (hf : ∀ j, m ≤ j → j < size → pred (a.getD (lo + j) 0) = false) :
    binPP a pred lo size = m := by
  unfold binPP
  rw [if_neg (by omega)]
  obtain ⟨b', hb, h1, h2, h3⟩ := binPPLoop_spec a pred lo size m ht hf (size + 1) 0 size
    (by omega) (by omega) (by omega) (by omega) (by omega)
  have hb' : binPPLoop a pred (size + 1) lo size = lo + b' := hb
  simp only [hb']
  by_cases hlt : b' < m
  · rw [ht b' hlt]; simp; omega
  · have : b' = m := by omega
    subst this
    rw [hf b' (Nat.le_refl _) h3]; simp

/-! ## selected bits before a position, as the counters see them -/

/-- ones: `rank(q)`; zeros: `q - rank(q)` (positions at or beyond `len` count as zeros) -/
def C (zero : Bool) (ws : Array Nat) (len q : Nat) : Nat :=
  if zero then q - rankSpec ws len q else rankSpec ws len q

theorem rankSpec_le (ws : Array Nat) (len q : Nat) : rankSpec ws len q ≤ q := by
  rw [rankSpec_eq_cnt]
  exact Nat.le_trans (cnt_le _ _) (Nat.min_le_left _ _)

theorem rankSpec_succ (ws : Array Nat) (len q : Nat) :
    rankSpec ws len (q + 1) = rankSpec ws len q ∨ rankSpec ws len (q + 1) = rankSpec ws len q + 1 := by
  rw [rankSpec_eq_cnt, rankSpec_eq_cnt]
  by_cases h : q < len
  · rw [Nat.min_eq_left (by omega), Nat.min_eq_left (by omega), cnt_succ]
    split <;> simp
  · rw [Nat.min_eq_right (by omega), Nat.min_eq_right (by omega)]; simp

theorem C_succ (zero : Bool) (ws : Array Nat) (len q : Nat) :
    C zero ws len (q + 1) = C zero ws len q ∨ C zero ws len (q + 1) = C zero ws len q + 1 := by
  unfold C
  have h1 := rankSpec_succ ws len q
  have h2 := rankSpec_le ws len q
  cases zero <;> simp only [Bool.false_eq_true, if_false, if_true] <;> omega

theorem C_le_add (zero : Bool) (ws : Array Nat) (len q : Nat) : ∀ d,
    C zero ws len q ≤ C zero ws len (q + d) ∧ C zero ws len (q + d) ≤ C zero ws len q + d
  | 0 => by simp
  | d + 1 => by
    have ih := C_le_add zero ws len q d
    have := C_succ zero ws len (q + d)
    rw [← Nat.add_assoc]
    omega

theorem C_mono (zero : Bool) (ws : Array Nat) (len : Nat) {q q' : Nat} (h : q ≤ q') :
    C zero ws len q ≤ C zero ws len q' := by
  have := (C_le_add zero ws len q (q' - q)).1
  rwa [show q + (q' - q) = q' by omega] at this

theorem C_sub_le (zero : Bool) (ws : Array Nat) (len : Nat) {q q' : Nat} (h : q ≤ q') :
    C zero ws len q' - C zero ws len q ≤ q' - q := by
  have := (C_le_add zero ws len q (q' - q)).2
  rw [show q + (q' - q) = q' by omega] at this
  omega

theorem C_eq_cnt (zero : Bool) (ws : Array Nat) (len : Nat) {q : Nat} (h : q ≤ len) :
    C zero ws len q = cnt (polBit zero ws) q := by
  unfold C polBit
  rw [rankSpec_eq_cnt, Nat.min_eq_left h]
  cases zero
  · simp
  · simp only [if_true]
    have := cnt_not (bitAt 64 ws) q
    omega

theorem C_zero_pos (zero : Bool) (ws : Array Nat) (len : Nat) : C zero ws len 0 = 0 := by
  rw [C_eq_cnt zero ws len (Nat.zero_le _)]; simp

/-- the position `p` of the selected bit of rank `r` separates the positions with `C ≤ r` -/
theorem C_le_iff {zero : Bool} {ws : Array Nat} {len r p : Nat} (hsel : IsSel (polBit zero ws) len r p)
    (q : Nat) : C zero ws len q ≤ r ↔ q ≤ p := by
  have hp : p < len := hsel.1
  have hCp : C zero ws len p = r := by rw [C_eq_cnt zero ws len (by omega)]; exact hsel.2.2
  have hCp1 : C zero ws len (p + 1) = r + 1 := by
    rw [C_eq_cnt zero ws len (by omega), cnt_succ_true hsel.2.1, hsel.2.2]
  constructor
  · intro h
    apply Nat.le_of_not_lt; intro hlt
    have := C_mono zero ws len (show p + 1 ≤ q by omega)
    omega
  · intro h
    have := C_mono zero ws len h
    omega

theorem C_at {zero : Bool} {ws : Array Nat} {len r p : Nat} (hsel : IsSel (polBit zero ws) len r p) :
    C zero ws len p = r := by
  rw [C_eq_cnt zero ws len (by have := hsel.1; omega)]; exact hsel.2.2

/-- moving `d` ranks forward moves at least `d` positions forward -/
theorem pos_add_le {zero : Bool} {ws : Array Nat} {len r p : Nat} (hsel : IsSel (polBit zero ws) len r p)
    {q : Nat} (hq : C zero ws len q ≤ r) : q + (r - C zero ws len q) ≤ p := by
  have hqp := (C_le_iff hsel q).1 hq
  have := C_sub_le zero ws len hqp
  rw [C_at hsel] at this
  omega

end Sux.RS.Small

namespace Sux.RS.Small
open Sux Sux.RS Sux.RS.Priv Sux.RS.BW

/-! ## parameters -/

structure SmallOK (P : SmallParams) : Prop where
  wps_pos : 0 < P.wps
  nsub : P.nsub = 4 ∨ P.nsub = 8
  wpb : P.wpb = P.wps * P.nsub
  bb : P.wpb * 64 = 2 ^ P.cw
  cw_pos : 1 ≤ P.cw
  cw_le : P.cw ≤ 32
  lanes : P.cw * (P.nsub - 1) ≤ P.bits
  ones : onesStep P = packL P.cw (List.replicate (P.nsub - 1) 1)
  msbs : msbsStep P = hmask P.cw (P.nsub - 1)
  pos : posStep P = packL P.cw ((List.range (P.nsub - 1)).map (fun i => (P.nsub - 1 - i) * (P.wps * 64)))

theorem smallOK : ∀ k, SmallOK (smallParams k)
  | 0 => ⟨by decide, by decide, by decide, by decide, by decide, by decide, by decide, by decide, by decide, by decide⟩
  | 1 => ⟨by decide, by decide, by decide, by decide, by decide, by decide, by decide, by decide, by decide, by decide⟩
  | 2 => ⟨by decide, by decide, by decide, by decide, by decide, by decide, by decide, by decide, by decide, by decide⟩
  | 3 => ⟨by decide, by decide, by decide, by decide, by decide, by decide, by decide, by decide, by decide, by decide⟩
  | _ + 4 => by
    show SmallOK ⟨128, 16, 13, 8, 128⟩
    exact ⟨by decide, by decide, by decide, by decide, by decide, by decide, by decide, by decide, by decide, by decide⟩

/-! ## reading `Array.ofFn` -/

theorem readU_ofFn (n : Nat) (g : Nat → Nat) {i : Nat} (h : i < n) :
    Out.readU (Array.ofFn (n := n) (fun b => g b.val)) i = .ok (g i) := by
  unfold Out.readU
  rw [Array.getElem?_ofFn]
  simp [h]

theorem getD_ofFn (n : Nat) (g : Nat → Nat) {i : Nat} (h : i < n) :
    (Array.ofFn (n := n) (fun b => g b.val)).getD i 0 = g i := by
  rw [Array.getD_eq_getD_getElem?, Array.getElem?_ofFn]
  simp [h]

theorem toList_getD_ofFn (n : Nat) (g : Nat → Nat) {i : Nat} (h : i < n) :
    (Array.ofFn (n := n) (fun b => g b.val)).toList.getD i 0 = g i := by
  rw [List.getD_eq_getElem?_getD, Array.getElem?_toList, Array.getElem?_ofFn]
  simp [h]

end Sux.RS.Small
