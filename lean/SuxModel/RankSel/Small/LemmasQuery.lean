import SuxModel.RankSel.Small.LemmasComplete
/-!
# (Q) for `SelectSmall`: the query is correct from the explicit invariant `SelInvOK`
-/
namespace Sux.RS.Small
open Sux Sux.RS Sux.RS.Priv Sux.RS.BW

/-- number of leading elements `≤ i` (what `linear_partition_point(|x| x <= i)` returns) -/
def ppLe : List Nat → Nat → Nat
  | [], _ => 0
  | x :: xs, i => if x ≤ i then ppLe xs i + 1 else 0

theorem linPP_ppLe (i : Nat) : ∀ (l : List Nat) (k : Nat),
    linPP (fun _ x => Out.ok (decide (x ≤ i))) l k = .ok (k + ppLe l i)
  | [], k => rfl
  | x :: xs, k => by
    by_cases h : x ≤ i
    · simp only [linPP, ppLe, h, decide_true, Out.bind_ok, if_true]
      rw [linPP_ppLe i xs (k + 1)]; congr 1; omega
    · simp [linPP, ppLe, h]

/-- the explicit invariant on the built arrays (`N` = number of selected bits):
every rank `i * 2^l < N` has an inventory entry, the inventory has no further entries, and the entry
of rank `i * 2^l` at position `e` is recorded as `e % 2^32` with `inventory_begin` mapping `i` to the
superblock `e / 2^32` -/
structure SelInvOK (zero : Bool) (ws : Array Nat) (len : Nat) (s : Sel) : Prop where
  size : ∀ i, i * 2 ^ s.l < cnt (polBit zero ws) len → i < s.inv.size
  next : ∀ i, i + 1 < s.inv.size → (i + 1) * 2 ^ s.l < cnt (polBit zero ws) len
  entry : ∀ i e, IsSel (polBit zero ws) len (i * 2 ^ s.l) e →
    ppLe s.begin.toList i = e / 2 ^ 32 + 1 ∧ s.inv.getD i 0 = e % 2 ^ 32

/-- `upper_counts[j] = rank(j * 2^32)` -/
theorem upper_getD (P : SmallParams) (ws : Array Nat) (len j : Nat) (hj : j < (len + (2 ^ 32 - 1)) / 2 ^ 32) :
    (smallView P (onesBefore ws len) len).upper.toList.getD j 0 = rankSpec ws len (j * 2 ^ 32) := by
  show (Array.ofFn (n := (len + (2 ^ 32 - 1)) / 2 ^ 32) (fun s => onesBefore ws len (s.val * 2 ^ 26))).toList.getD j 0 = _
  rw [toList_getD_ofFn _ (fun s => onesBefore ws len (s * 2 ^ 26)) hj]
  unfold onesBefore; congr 1; omega

theorem upper_read (P : SmallParams) (ws : Array Nat) (len j : Nat) (hj : j < (len + (2 ^ 32 - 1)) / 2 ^ 32) :
    Out.readU (smallView P (onesBefore ws len) len).upper j = .ok (rankSpec ws len (j * 2 ^ 32)) := by
  show Out.readU (Array.ofFn (n := (len + (2 ^ 32 - 1)) / 2 ^ 32) (fun s => onesBefore ws len (s.val * 2 ^ 26))) j = _
  rw [readU_ofFn _ (fun s => onesBefore ws len (s * 2 ^ 26)) hj]
  unfold onesBefore; congr 2; omega

theorem upper_length (P : SmallParams) (ws : Array Nat) (len : Nat) :
    (smallView P (onesBefore ws len) len).upper.toList.length = (len + (2 ^ 32 - 1)) / 2 ^ 32 := by
  show (Array.ofFn (n := (len + (2 ^ 32 - 1)) / 2 ^ 32) (fun s => onesBefore ws len (s.val * 2 ^ 26))).toList.length = _
  simp

/-- Lemma A: the search over `upper_counts` finds the superblock of `p` -/
theorem upper_search (P : SmallParams) (ws : Array Nat) (len r p : Nat)
    (hsel : IsSel (polBit false ws) len r p) :
    linPP (fun _ x => Out.ok (decide (x ≤ r))) (smallView P (onesBefore ws len) len).upper.toList 0
      = .ok (p / 2 ^ 32 + 1) := by
  have hp := hsel.1
  have hnu : p / 2 ^ 32 < (len + (2 ^ 32 - 1)) / 2 ^ 32 := by
    apply (Nat.lt_div_iff_mul_lt (Nat.two_pow_pos 32)).2 <;> omega
  have key : ∀ j, j < (len + (2 ^ 32 - 1)) / 2 ^ 32 →
      (decide ((smallView P (onesBefore ws len) len).upper.toList.getD j 0 ≤ r) = decide (j ≤ p / 2 ^ 32)) := by
    intro j hj
    rw [upper_getD P ws len j hj]
    have := C_le_iff hsel (j * 2 ^ 32)
    rw [C_false] at this
    have h2 : j ≤ p / 2 ^ 32 ↔ j * 2 ^ 32 ≤ p := Nat.le_div_iff_mul_le (Nat.two_pow_pos 32)
    simp only [decide_eq_decide]; rw [this, h2]
  have := linPP_eq (fun _ x => Out.ok (decide (x ≤ r))) (smallView P (onesBefore ws len) len).upper.toList 0
    (p / 2 ^ 32 + 1) (by rw [upper_length]; omega)
    (fun j hj => by
      show Out.ok _ = Out.ok true
      rw [key j (by omega)]; simp; omega)
    (by
      by_cases he : p / 2 ^ 32 + 1 = (len + (2 ^ 32 - 1)) / 2 ^ 32
      · left; rw [upper_length]; exact he
      · right
        show Out.ok _ = Out.ok false
        rw [key _ (by omega)]; simp)
  rw [Nat.zero_add] at this
  exact this

/-! ## the block counters -/

theorem mul64 (b w : Nat) : b * (w * 64) = 64 * (b * w) := by
  rw [Nat.mul_comm w 64, Nat.mul_left_comm]

theorem abs_size (P : SmallParams) (ws : Array Nat) (len : Nat) :
    (smallView P (onesBefore ws len) len).abs.size = (len + (64 * P.wpb - 1)) / (64 * P.wpb) := by
  show (Array.ofFn (n := (len + (64 * P.wpb - 1)) / (64 * P.wpb)) _).size = _
  simp

/-- inside the superblock `ub` the absolute counter of block `b` is `rank(b * B) - rank(ub * 2^32)` -/
theorem abs_val (P : SmallParams) (ws : Array Nat) (len b ub : Nat)
    (hb : b < (len + (64 * P.wpb - 1)) / (64 * P.wpb))
    (h1 : ub * 2 ^ 32 ≤ b * (P.wpb * 64)) (h2 : b * (P.wpb * 64) < (ub + 1) * 2 ^ 32) :
    (smallView P (onesBefore ws len) len).abs.getD b 0
        = rankSpec ws len (b * (P.wpb * 64)) - rankSpec ws len (ub * 2 ^ 32) ∧
    Out.readU (smallView P (onesBefore ws len) len).abs b
        = .ok (rankSpec ws len (b * (P.wpb * 64)) - rankSpec ws len (ub * 2 ^ 32)) := by
  have e := mul64 b P.wpb
  have hsb : 64 * (b * P.wpb / 2 ^ 26 * 2 ^ 26) = ub * 2 ^ 32 := by omega
  have hval : (onesBefore ws len (b * P.wpb) - onesBefore ws len (b * P.wpb / 2 ^ 26 * 2 ^ 26)) % 2 ^ 32
      = rankSpec ws len (b * (P.wpb * 64)) - rankSpec ws len (ub * 2 ^ 32) := by
    unfold onesBefore
    rw [hsb, ← e]
    apply Nat.mod_eq_of_lt
    have := C_sub_le false ws len h1
    rw [C_false, C_false] at this
    omega
  constructor
  · show (Array.ofFn (n := (len + (64 * P.wpb - 1)) / (64 * P.wpb)) (fun b => (onesBefore ws len (b.val * P.wpb) -
        onesBefore ws len (b.val * P.wpb / 2 ^ 26 * 2 ^ 26)) % 2 ^ 32)).getD b 0 = _
    rw [getD_ofFn _ (fun b => (onesBefore ws len (b * P.wpb) - onesBefore ws len (b * P.wpb / 2 ^ 26 * 2 ^ 26)) % 2 ^ 32) hb]
    exact hval
  · show Out.readU (Array.ofFn (n := (len + (64 * P.wpb - 1)) / (64 * P.wpb)) (fun b => (onesBefore ws len (b.val * P.wpb) -
        onesBefore ws len (b.val * P.wpb / 2 ^ 26 * 2 ^ 26)) % 2 ^ 32)) b = _
    rw [readU_ofFn _ (fun b => (onesBefore ws len (b * P.wpb) - onesBefore ws len (b * P.wpb / 2 ^ 26 * 2 ^ 26)) % 2 ^ 32) hb]
    rw [hval]

theorem rel_read (P : SmallParams) (ws : Array Nat) (len b : Nat)
    (hb : b < (len + (64 * P.wpb - 1)) / (64 * P.wpb)) :
    Out.readU (smallView P (onesBefore ws len) len).rel b = .ok (smallRel P (onesBefore ws len) (b * P.wpb)) := by
  show Out.readU (Array.ofFn (n := (len + (64 * P.wpb - 1)) / (64 * P.wpb))
    (fun b => smallRel P (onesBefore ws len) (b.val * P.wpb))) b = _
  rw [readU_ofFn _ (fun b => smallRel P (onesBefore ws len) (b * P.wpb)) hb]

theorem subU_ok {a b : Nat} (h : b ≤ a) : subU a b = .ok (a - b) := by
  unfold subU; rw [if_pos h]

theorem check_ok {c : Bool} (h : c = true) : check c = .ok () := by
  unfold check; rw [if_pos h]

/-! ## the block search and the completion (ones) -/

/-- the part of `select_unchecked` after `last_block_idx` has been computed (`lo` = `block_idx`,
`hi` = `last_block_idx`, `U` = `upper_rank`) -/
def searchTail (P : SmallParams) (ws : Array Nat) (cnt : SmallView) (r U lo hi : Nat) : Out Nat :=
  (check (decide (lo < cnt.abs.size))) >>= fun _ =>
  (check (decide (lo ≤ hi))) >>= fun _ =>
  (check (decide (lo < hi))) >>= fun _ =>
  (check (decide (hi ≤ cnt.abs.size))) >>= fun _ =>
  (Out.ok (binPP cnt.abs (fun x => decide (x ≤ r - U)) lo (hi - lo))) >>= fun pp =>
  (subU (lo + pp) 1) >>= fun blockIdx =>
  (Out.readU cnt.abs blockIdx) >>= fun absolute =>
  (Out.readU cnt.rel blockIdx) >>= fun allRel =>
    completeSelect P ws allRel (blockIdx * (P.wpb * 64)) r (U + absolute)

theorem searchTail_correct (P : SmallParams) (hP : SmallOK P) (ws : Array Nat) (len : Nat)
    (hlen : len ≤ 64 * ws.size) (r p lo hi : Nat) (hsel : IsSel (polBit false ws) len r p)
    (hlo1 : p / 2 ^ 32 * 2 ^ 32 ≤ lo * (P.wpb * 64)) (hlo2 : lo * (P.wpb * 64) ≤ p)
    (hhi1 : p < hi * (P.wpb * 64)) (hhi2 : hi ≤ (len + (64 * P.wpb - 1)) / (64 * P.wpb))
    (hhi3 : hi * (P.wpb * 64) ≤ (p / 2 ^ 32 + 1) * 2 ^ 32) :
    searchTail P ws (smallView P (onesBefore ws len) len) r (rankSpec ws len (p / 2 ^ 32 * 2 ^ 32)) lo hi
      = .ok p := by
  have hbb : 0 < P.wpb * 64 := by rw [hP.bb]; exact Nat.two_pow_pos _
  have hU : rankSpec ws len (p / 2 ^ 32 * 2 ^ 32) ≤ r := by
    rw [← C_false]; exact (C_le_iff hsel _).2 (Nat.div_mul_le_self _ _)
  -- the block of `p`
  have hb1 : p / (P.wpb * 64) * (P.wpb * 64) ≤ p := Nat.div_mul_le_self _ _
  have hb2 : p < p / (P.wpb * 64) * (P.wpb * 64) + P.wpb * 64 := Nat.lt_div_mul_add hbb
  have hlob : lo ≤ p / (P.wpb * 64) := (Nat.le_div_iff_mul_le hbb).2 hlo2
  have hbhi : p / (P.wpb * 64) < hi := (Nat.div_lt_iff_lt_mul hbb).2 hhi1
  have hsz := abs_size P ws len
  -- counters of the blocks in range
  have habs : ∀ b, lo ≤ b → b < hi →
      (smallView P (onesBefore ws len) len).abs.getD b 0
        = rankSpec ws len (b * (P.wpb * 64)) - rankSpec ws len (p / 2 ^ 32 * 2 ^ 32) ∧
      Out.readU (smallView P (onesBefore ws len) len).abs b
        = .ok (rankSpec ws len (b * (P.wpb * 64)) - rankSpec ws len (p / 2 ^ 32 * 2 ^ 32)) := by
    intro b h1 h2
    have e1 : lo * (P.wpb * 64) ≤ b * (P.wpb * 64) := Nat.mul_le_mul_right _ h1
    have e2 : (b + 1) * (P.wpb * 64) ≤ hi * (P.wpb * 64) := Nat.mul_le_mul_right _ h2
    rw [Nat.add_mul, Nat.one_mul] at e2
    exact abs_val P ws len b (p / 2 ^ 32) (by omega) (by omega) (by omega)
  have hUle : ∀ b, lo ≤ b → rankSpec ws len (p / 2 ^ 32 * 2 ^ 32) ≤ rankSpec ws len (b * (P.wpb * 64)) := by
    intro b h1
    have e1 : lo * (P.wpb * 64) ≤ b * (P.wpb * 64) := Nat.mul_le_mul_right _ h1
    have := C_mono false ws len (show p / 2 ^ 32 * 2 ^ 32 ≤ b * (P.wpb * 64) by omega)
    rwa [C_false, C_false] at this
  have hpp : binPP (smallView P (onesBefore ws len) len).abs
      (fun x => decide (x ≤ r - rankSpec ws len (p / 2 ^ 32 * 2 ^ 32))) lo (hi - lo)
      = p / (P.wpb * 64) - lo + 1 := by
    apply binPP_eq _ _ _ _ _ (by omega) (by omega)
    · intro j hj
      rw [(habs (lo + j) (by omega) (by omega)).1]
      have hle : (lo + j) * (P.wpb * 64) ≤ p := by
        have : (lo + j) * (P.wpb * 64) ≤ p / (P.wpb * 64) * (P.wpb * 64) := Nat.mul_le_mul_right _ (by omega)
        omega
      have := (C_le_iff hsel _).2 hle
      rw [C_false] at this
      simp only [decide_eq_true_eq]; omega
    · intro j hj1 hj2
      rw [(habs (lo + j) (by omega) (by omega)).1]
      have hgt : p < (lo + j) * (P.wpb * 64) := by
        have : (p / (P.wpb * 64) + 1) * (P.wpb * 64) ≤ (lo + j) * (P.wpb * 64) := Nat.mul_le_mul_right _ (by omega)
        rw [Nat.add_mul, Nat.one_mul] at this
        omega
      have h3 := (C_le_iff hsel ((lo + j) * (P.wpb * 64)))
      rw [C_false] at h3
      have h4 := hUle (lo + j) (by omega)
      simp only [decide_eq_false_iff_not]
      intro hc
      have := h3.1 (by omega)
      omega
  unfold searchTail
  rw [check_ok (by rw [hsz]; simp; omega), check_ok (by simp; omega), check_ok (by simp; omega),
    check_ok (by rw [hsz]; simp; omega)]
  have hsub : subU (lo + (p / (P.wpb * 64) - lo + 1)) 1 = .ok (p / (P.wpb * 64)) := by
    rw [subU_ok (by omega)]; congr 1; omega
  rw [Out.bind_ok, Out.bind_ok, Out.bind_ok, Out.bind_ok, Out.bind_ok, hpp, hsub, Out.bind_ok,
    (habs _ hlob hbhi).2, Out.bind_ok, rel_read P ws len _ (by omega), Out.bind_ok]
  rw [show rankSpec ws len (p / 2 ^ 32 * 2 ^ 32) +
      (rankSpec ws len (p / (P.wpb * 64) * (P.wpb * 64)) - rankSpec ws len (p / 2 ^ 32 * 2 ^ 32))
      = rankSpec ws len (p / (P.wpb * 64) * (P.wpb * 64)) by have := hUle _ hlob; omega]
  exact completeSelect_correct P hP ws len hlen r p _ hsel hb1 hb2

end Sux.RS.Small
