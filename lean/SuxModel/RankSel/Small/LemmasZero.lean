import SuxModel.RankSel.Small.LemmasZeroComplete
/-!
# (Q) for `SelectZeroSmall`: `select_zero_unchecked` returns the position of the zero of rank `r`
-/
namespace Sux.RS.Small
open Sux Sux.RS Sux.RS.Priv Sux.RS.BW

theorem subLe_ok {a b c : Nat} (h : b ≤ a) : subLe a b c = .ok (decide (a - b ≤ c)) := by
  unfold subLe; rw [subU_ok h, Out.bind_ok]

/-- the search over `upper_counts` (zero selector) -/
theorem upper_search_zero (P : SmallParams) (ws : Array Nat) (len r p : Nat)
    (hsel : IsSel (polBit true ws) len r p) :
    linPP (fun i x => subLe (i <<< 32) x r) (smallView P (onesBefore ws len) len).upper.toList 0
      = .ok (p / 2 ^ 32 + 1) := by
  have hp := hsel.1
  have hnu : p / 2 ^ 32 < (len + (2 ^ 32 - 1)) / 2 ^ 32 := by
    apply (Nat.lt_div_iff_mul_lt (Nat.two_pow_pos 32)).2 <;> omega
  have key : ∀ j, j < (len + (2 ^ 32 - 1)) / 2 ^ 32 →
      subLe (j <<< 32) ((smallView P (onesBefore ws len) len).upper.toList.getD j 0) r
        = .ok (decide (j ≤ p / 2 ^ 32)) := by
    intro j hj
    rw [upper_getD P ws len j hj, Nat.shiftLeft_eq, subLe_ok (rankSpec_le _ _ _)]
    have := C_le_iff hsel (j * 2 ^ 32)
    rw [C_true] at this
    have h2 : j ≤ p / 2 ^ 32 ↔ j * 2 ^ 32 ≤ p := Nat.le_div_iff_mul_le (Nat.two_pow_pos 32)
    congr 1
    simp only [decide_eq_decide]; rw [this, h2]
  have := linPP_eq (fun i x => subLe (i <<< 32) x r) (smallView P (onesBefore ws len) len).upper.toList 0
    (p / 2 ^ 32 + 1) (by rw [upper_length]; omega)
    (fun j hj => by
      show subLe ((0 + j) <<< 32) _ r = Out.ok true
      rw [Nat.zero_add, key j (by omega)]; simp; omega)
    (by
      by_cases he : p / 2 ^ 32 + 1 = (len + (2 ^ 32 - 1)) / 2 ^ 32
      · left; rw [upper_length]; exact he
      · right
        show subLe ((0 + (p / 2 ^ 32 + 1)) <<< 32) _ r = Out.ok false
        rw [Nat.zero_add, key _ (by omega)]; simp)
  rw [Nat.zero_add] at this
  exact this

/-- a block at or after the start of superblock `ub`: `upper[ub] + absolute ≤ rank(b * B)` -/
theorem abs_ge (P : SmallParams) (ws : Array Nat) (len b ub : Nat)
    (hb : b < (len + (64 * P.wpb - 1)) / (64 * P.wpb)) (h1 : ub * 2 ^ 32 ≤ b * (P.wpb * 64)) :
    rankSpec ws len (ub * 2 ^ 32) + (smallView P (onesBefore ws len) len).abs.getD b 0
      ≤ rankSpec ws len (b * (P.wpb * 64)) := by
  have e := mul64 b P.wpb
  show _ + (Array.ofFn (n := (len + (64 * P.wpb - 1)) / (64 * P.wpb)) (fun b => (onesBefore ws len (b.val * P.wpb) -
      onesBefore ws len (b.val * P.wpb / 2 ^ 26 * 2 ^ 26)) % 2 ^ 32)).getD b 0 ≤ _
  rw [getD_ofFn _ (fun b => (onesBefore ws len (b * P.wpb) - onesBefore ws len (b * P.wpb / 2 ^ 26 * 2 ^ 26)) % 2 ^ 32) hb]
  unfold onesBefore
  rw [← e]
  have hsb : ub * 2 ^ 32 ≤ 64 * (b * P.wpb / 2 ^ 26 * 2 ^ 26) := by omega
  have h2 : 64 * (b * P.wpb / 2 ^ 26 * 2 ^ 26) ≤ b * (P.wpb * 64) := by omega
  have m1 := C_mono false ws len hsb
  have m2 := C_mono false ws len h2
  rw [C_false, C_false] at m1 m2
  have := Nat.mod_le (rankSpec ws len (b * (P.wpb * 64)) - rankSpec ws len (64 * (b * P.wpb / 2 ^ 26 * 2 ^ 26))) (2 ^ 32)
  omega

/-- the part of `select_zero_unchecked` after `last_block_idx` has been computed -/
def searchTailZero (P : SmallParams) (ws : Array Nat) (cnt : SmallView) (r U1 lo hi : Nat) : Out Nat :=
  (check (decide (lo < cnt.abs.size))) >>= fun _ =>
  (check (decide (lo ≤ hi))) >>= fun _ =>
  (check (decide (lo < hi))) >>= fun _ =>
  (check (decide (hi ≤ cnt.abs.size))) >>= fun _ =>
  (linPP (fun i x => subLe ((lo + i) * (P.wpb * 64)) (U1 + x) r)
    ((cnt.abs.toList.drop lo).take (hi - lo)) 0) >>= fun pp =>
  (subU (lo + pp) 1) >>= fun blockIdx =>
  (Out.readU cnt.abs blockIdx) >>= fun absolute =>
  (Out.readU cnt.rel blockIdx) >>= fun allRel =>
  (subU (blockIdx * (P.wpb * 64)) (U1 + absolute)) >>= fun hintRank =>
    completeSelectZero P ws allRel (blockIdx * (P.wpb * 64)) r hintRank

theorem searchTailZero_correct (P : SmallParams) (hP : SmallOK P) (ws : Array Nat) (len : Nat)
    (hlen : len ≤ 64 * ws.size) (r p lo hi : Nat) (hsel : IsSel (polBit true ws) len r p)
    (hlo1 : p / 2 ^ 32 * 2 ^ 32 ≤ lo * (P.wpb * 64)) (hlo2 : lo * (P.wpb * 64) ≤ p)
    (hhi1 : p < hi * (P.wpb * 64)) (hhi2 : hi ≤ (len + (64 * P.wpb - 1)) / (64 * P.wpb)) :
    searchTailZero P ws (smallView P (onesBefore ws len) len) r (rankSpec ws len (p / 2 ^ 32 * 2 ^ 32)) lo hi
      = .ok p := by
  have hbb : 0 < P.wpb * 64 := by rw [hP.bb]; exact Nat.two_pow_pos _
  have hub2 : p < (p / 2 ^ 32 + 1) * 2 ^ 32 := by
    have := Nat.lt_div_mul_add (a := p) (Nat.two_pow_pos 32); rw [Nat.add_mul, Nat.one_mul]; exact this
  have hb1 : p / (P.wpb * 64) * (P.wpb * 64) ≤ p := Nat.div_mul_le_self _ _
  have hb2 : p < p / (P.wpb * 64) * (P.wpb * 64) + P.wpb * 64 := Nat.lt_div_mul_add hbb
  have hlob : lo ≤ p / (P.wpb * 64) := (Nat.le_div_iff_mul_le hbb).2 hlo2
  have hbhi : p / (P.wpb * 64) < hi := (Nat.div_lt_iff_lt_mul hbb).2 hhi1
  have hsz := abs_size P ws len
  -- blocks up to the block of `p` are in the superblock of `p`
  have habs : ∀ b, lo ≤ b → b ≤ p / (P.wpb * 64) →
      (smallView P (onesBefore ws len) len).abs.getD b 0
        = rankSpec ws len (b * (P.wpb * 64)) - rankSpec ws len (p / 2 ^ 32 * 2 ^ 32) ∧
      Out.readU (smallView P (onesBefore ws len) len).abs b
        = .ok (rankSpec ws len (b * (P.wpb * 64)) - rankSpec ws len (p / 2 ^ 32 * 2 ^ 32)) := by
    intro b h1 h2
    have e1 : lo * (P.wpb * 64) ≤ b * (P.wpb * 64) := Nat.mul_le_mul_right _ h1
    have e2 : b * (P.wpb * 64) ≤ p / (P.wpb * 64) * (P.wpb * 64) := Nat.mul_le_mul_right _ h2
    exact abs_val P ws len b (p / 2 ^ 32) (by omega) (by omega) (by omega)
  have hUle : ∀ b, lo ≤ b → rankSpec ws len (p / 2 ^ 32 * 2 ^ 32) ≤ rankSpec ws len (b * (P.wpb * 64)) := by
    intro b h1
    have e1 : lo * (P.wpb * 64) ≤ b * (P.wpb * 64) := Nat.mul_le_mul_right _ h1
    have := C_mono false ws len (show p / 2 ^ 32 * 2 ^ 32 ≤ b * (P.wpb * 64) by omega)
    rwa [C_false, C_false] at this
  -- the list searched
  have hlist : ∀ j, j < hi - lo →
      (((smallView P (onesBefore ws len) len).abs.toList.drop lo).take (hi - lo)).getD j 0
        = (smallView P (onesBefore ws len) len).abs.getD (lo + j) 0 := by
    intro j hj
    rw [List.getD_eq_getElem?_getD, List.getElem?_take_of_lt hj, List.getElem?_drop, Array.getElem?_toList,
      ← Array.getD_eq_getD_getElem?]
  have hllen : (((smallView P (onesBefore ws len) len).abs.toList.drop lo).take (hi - lo)).length = hi - lo := by
    rw [List.length_take, List.length_drop, Array.length_toList, hsz]; omega
  have hpp : linPP (fun i x => subLe ((lo + i) * (P.wpb * 64)) (rankSpec ws len (p / 2 ^ 32 * 2 ^ 32) + x) r)
      (((smallView P (onesBefore ws len) len).abs.toList.drop lo).take (hi - lo)) 0
      = .ok (p / (P.wpb * 64) - lo + 1) := by
    have := linPP_eq (fun i x => subLe ((lo + i) * (P.wpb * 64)) (rankSpec ws len (p / 2 ^ 32 * 2 ^ 32) + x) r)
      (((smallView P (onesBefore ws len) len).abs.toList.drop lo).take (hi - lo)) 0
      (p / (P.wpb * 64) - lo + 1) (by rw [hllen]; omega)
      (fun j hj => by
        show subLe ((lo + (0 + j)) * (P.wpb * 64)) _ r = Out.ok true
        rw [Nat.zero_add, hlist j (by omega), (habs (lo + j) (by omega) (by omega)).1]
        have hu := hUle (lo + j) (by omega)
        rw [show rankSpec ws len (p / 2 ^ 32 * 2 ^ 32) +
          (rankSpec ws len ((lo + j) * (P.wpb * 64)) - rankSpec ws len (p / 2 ^ 32 * 2 ^ 32))
          = rankSpec ws len ((lo + j) * (P.wpb * 64)) by omega, subLe_ok (rankSpec_le _ _ _)]
        have hle : (lo + j) * (P.wpb * 64) ≤ p := by
          have : (lo + j) * (P.wpb * 64) ≤ p / (P.wpb * 64) * (P.wpb * 64) := Nat.mul_le_mul_right _ (by omega)
          omega
        have := (C_le_iff hsel _).2 hle
        rw [C_true] at this
        exact congrArg Out.ok (decide_eq_true this))
      (by
        by_cases he : p / (P.wpb * 64) - lo + 1 = hi - lo
        · left; rw [hllen]; exact he
        · right
          show subLe ((lo + (0 + (p / (P.wpb * 64) - lo + 1))) * (P.wpb * 64)) _ r = Out.ok false
          rw [Nat.zero_add, hlist _ (by omega)]
          have hgt : p < (lo + (p / (P.wpb * 64) - lo + 1)) * (P.wpb * 64) := by
            rw [show lo + (p / (P.wpb * 64) - lo + 1) = p / (P.wpb * 64) + 1 by omega, Nat.add_mul, Nat.one_mul]
            exact hb2
          have hge := abs_ge P ws len (lo + (p / (P.wpb * 64) - lo + 1)) (p / 2 ^ 32) (by omega) (by omega)
          rw [subLe_ok (Nat.le_trans hge (rankSpec_le _ _ _))]
          have h3 := (C_le_iff hsel ((lo + (p / (P.wpb * 64) - lo + 1)) * (P.wpb * 64)))
          rw [C_true] at h3
          have hR := rankSpec_le ws len ((lo + (p / (P.wpb * 64) - lo + 1)) * (P.wpb * 64))
          refine congrArg Out.ok (decide_eq_false ?_)
          intro hc
          have := h3.1 (by omega)
          omega)
    rw [Nat.zero_add] at this
    exact this
  unfold searchTailZero
  rw [check_ok (by rw [hsz]; simp; omega), check_ok (by simp; omega), check_ok (by simp; omega),
    check_ok (by rw [hsz]; simp; omega)]
  have hsub : subU (lo + (p / (P.wpb * 64) - lo + 1)) 1 = .ok (p / (P.wpb * 64)) := by
    rw [subU_ok (by omega)]; congr 1; omega
  rw [Out.bind_ok, Out.bind_ok, Out.bind_ok, Out.bind_ok, hpp, Out.bind_ok, hsub, Out.bind_ok,
    (habs _ hlob (Nat.le_refl _)).2, Out.bind_ok, rel_read P ws len _ (by omega), Out.bind_ok]
  have hu := hUle _ hlob
  rw [show rankSpec ws len (p / 2 ^ 32 * 2 ^ 32) +
      (rankSpec ws len (p / (P.wpb * 64) * (P.wpb * 64)) - rankSpec ws len (p / 2 ^ 32 * 2 ^ 32))
      = rankSpec ws len (p / (P.wpb * 64) * (P.wpb * 64)) by omega,
    subU_ok (rankSpec_le _ _ _), Out.bind_ok]
  exact completeSelectZero_correct P hP ws len hlen r p _ hsel hb1 hb2

end Sux.RS.Small
