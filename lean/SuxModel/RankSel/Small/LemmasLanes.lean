import SuxModel.RankSel.Small.Lemmas
/-!
# The broadword step of `complete_select`: the number of sub-block counters `≤ rank_in_block`
-/
namespace Sux.RS.Small
open Sux Sux.RS Sux.RS.Priv Sux.RS.BW

theorem cnt_ge (a : Nat) : ∀ n, cnt (fun i => decide (a ≤ i)) n = n - a
  | 0 => by simp
  | n + 1 => by
    rw [cnt_succ, cnt_ge a n]
    by_cases h : a ≤ n <;> simp [h] <;> omega

theorem xor_nsub {n T : Nat} (hn : n = 4 ∨ n = 8) (hT : T < n) : T ^^^ (n - 1) = n - 1 - T := by
  rcases hn with rfl | rfl
  · have : ∀ T, T < 4 → T ^^^ 3 = 3 - T := by decide
    exact this T hT
  · have : ∀ T, T < 8 → T ^^^ 7 = 7 - T := by decide
    exact this T hT

/-- lanes of the packed counters: lane `i` holds `D (n - i)` -/
def laneList (n : Nat) (D : Nat → Nat) : List Nat := (List.range n).map (fun i => D (n - i))

theorem laneList_length (n : Nat) (D : Nat → Nat) : (laneList n D).length = n := by
  simp [laneList]

theorem laneList_lt {n w : Nat} {D : Nat → Nat} (h : ∀ t, t ≤ n → D t < 2 ^ w) :
    ∀ c ∈ laneList n D, c < 2 ^ w := by
  intro c hc
  simp only [laneList, List.mem_map, List.mem_range] at hc
  obtain ⟨i, _, rfl⟩ := hc
  exact h _ (by omega)

theorem laneList_countP {n T rib : Nat} {D : Nat → Nat} (hT : T ≤ n)
    (hD : ∀ t, 1 ≤ t → t ≤ n → (D t ≤ rib ↔ t ≤ T)) :
    (laneList n D).countP (fun c => decide (c ≤ rib)) = T := by
  unfold laneList
  rw [List.countP_map]
  have : (List.range n).countP ((fun c => decide (c ≤ rib)) ∘ fun i => D (n - i))
      = cnt (fun i => decide (n - T ≤ i)) n := by
    unfold cnt
    apply List.countP_congr
    intro i hi
    have hi' : i < n := List.mem_range.mp hi
    have := hD (n - i) (by omega) (by omega)
    simp only [Function.comp, decide_eq_true_eq]
    rw [this]; omega
  rw [this, cnt_ge]; omega

theorem laneList_getD {n T : Nat} (D : Nat → Nat) (hT : T ≤ n) :
    (laneList n D).getD (n - T) 0 = if T = 0 then 0 else D T := by
  unfold laneList
  rw [List.getD_eq_getElem?_getD, List.getElem?_map]
  by_cases h0 : T = 0
  · subst h0
    rw [Nat.sub_zero, List.getElem?_eq_none (by simp)]
    rfl
  · have hlt : n - T < n := by omega
    rw [List.getElem?_range hlt, if_neg h0]
    show D (n - (n - T)) = D T
    congr 1; omega

/-- the broadword step of `complete_select`: with lane values `D t` (`1 ≤ t < nsub`) such that
`D t ≤ rib ↔ t ≤ T`, the multiplication and the subtraction do not overflow, the number of set bits
is `T`, and `rel(T)` is `D T` (0 for `T = 0`) -/
theorem uleq_off (P : SmallParams) (hP : SmallOK P) (D : Nat → Nat) (rib T : Nat)
    (hT : T < P.nsub) (hrib : rib < 2 ^ P.cw)
    (hDlt : ∀ t, t ≤ P.nsub - 1 → D t < 2 ^ P.cw)
    (hD : ∀ t, 1 ≤ t → t ≤ P.nsub - 1 → (D t ≤ rib ↔ t ≤ T)) :
    ∃ y u, mulU P.bits rib (onesStep P) = .ok y ∧
      uleqStep P (packL P.cw (laneList (P.nsub - 1) D)) y = .ok u ∧
      popcount P.bits u = T ∧
      relOf P (packL P.cw (laneList (P.nsub - 1) D)) T = (if T = 0 then 0 else D T) := by
  have hcw : 1 ≤ P.cw := hP.cw_pos
  have hlanes := laneList_lt (n := P.nsub - 1) (w := P.cw) (D := D) hDlt
  have hxlt : packL P.cw (laneList (P.nsub - 1) D) < 2 ^ (P.cw * (P.nsub - 1)) := by
    have := packL_lt P.cw _ hlanes
    rwa [laneList_length] at this
  have hy : rib * onesStep P = packL P.cw (List.replicate (P.nsub - 1) rib) := by
    rw [hP.ones, mul_packL_ones]
  have hylt : packL P.cw (List.replicate (P.nsub - 1) rib) < 2 ^ (P.cw * (P.nsub - 1)) := by
    have := packL_lt P.cw (List.replicate (P.nsub - 1) rib) (by
      intro c hc; rw [List.mem_replicate] at hc; rw [hc.2]; exact hrib)
    rwa [List.length_replicate] at this
  have hpow : 2 ^ (P.cw * (P.nsub - 1)) ≤ 2 ^ P.bits := Nat.pow_le_pow_right (by omega) hP.lanes
  refine ⟨packL P.cw (List.replicate (P.nsub - 1) rib),
    F (hmask P.cw (P.nsub - 1)) (packL P.cw (laneList (P.nsub - 1) D))
      (packL P.cw (List.replicate (P.nsub - 1) rib)), ?_, ?_, ?_, ?_⟩
  · unfold mulU
    rw [hy, if_pos (Nat.lt_of_lt_of_le hylt hpow)]
  · obtain ⟨hle, -⟩ := uleq_count P.cw (P.nsub - 1) P.bits hcw hP.lanes _ _ hxlt hylt
    unfold uleqStep
    simp only [hP.msbs]
    rw [and_notW_eq_andn _ (Nat.lt_of_lt_of_le hxlt hpow), and_notW_eq_andn _ (Nat.lt_of_lt_of_le hxlt hpow)]
    unfold subU
    rw [if_pos hle]
    rfl
  · obtain ⟨-, hc⟩ := uleq_count P.cw (P.nsub - 1) P.bits hcw hP.lanes _ _ hxlt hylt
    rw [popcount_eq_bc]
    show bc (F (hmask P.cw (P.nsub - 1)) _ _) P.bits = T
    rw [hc]
    have := leCount_pack P.cw rib hrib (laneList (P.nsub - 1) D) hlanes
    rw [laneList_length] at this
    rw [this]
    exact laneList_countP (by omega) hD
  · unfold relOf
    rw [xor_nsub hP.nsub hT, packL_lane P.cw _ _ hlanes]
    exact laneList_getD D (by omega)

end Sux.RS.Small
