import SuxModel.RankSel.Small.LemmasCheck
import SuxModel.RankSel.Small.LemmasZero2
/-!
# Layer-level statement of (Q) for `SelectZeroSmall`
-/
namespace Sux.RS.Small
open Sux Sux.RS Sux.RS.Priv Sux.RS.BW

theorem polBit_true (ws : Array Nat) : polBit true ws = fun k => !bitAt 64 ws k := by
  funext k; simp [polBit]

/-- (Q) for `SelectZeroSmall` over the `RankSmall` variant `k` -/
theorem small_select_zero_correct (k : Nat) (ws : Array Nat) (len : Nat) (hlen : len ≤ 64 * ws.size)
    (s : Sel) (hinv : SelInvOK true ws len s) (r : Nat) :
    (r < numZeros ws len → ∃ p, select (smallParams k) true ws len (numZeros ws len)
        (viewOf (smallParams k) ws len) s r = .ok (some p) ∧ IsSelectZero ws len r p) ∧
    (numZeros ws len ≤ r → select (smallParams k) true ws len (numZeros ws len)
        (viewOf (smallParams k) ws len) s r = .ok none) := by
  constructor
  · intro hr
    have hr' : r < cnt (polBit true ws) len := by rw [numZeros_eq_cnt] at hr; rw [polBit_true]; exact hr
    obtain ⟨p, hp⟩ := IsSel.exists hr'
    refine ⟨p, ?_, (isSelectZero_iff ws len r p).2 (by rw [← polBit_true]; exact hp)⟩
    unfold select viewOf
    rw [if_neg (by omega), obOf_cumOnes,
      selectUnchecked_zero_correct (smallParams k) (smallOK k) ws len hlen s hinv r p hp]
    rfl
  · intro hr
    unfold select
    rw [if_pos hr]

end Sux.RS.Small
