import SuxModel.RankSel.Small.LemmasBuild
/-!
# End to end: the layers `.ss k b` / `.szs k b` built by the model answer `select` / `select_zero`
-/
namespace Sux.RS.Small
open Sux Sux.RS Sux.RS.Priv Sux.RS.BW

theorem polBit_false (ws : Array Nat) : polBit false ws = bitAt 64 ws := by
  funext k; simp [polBit]

theorem numOnes_eq_cntP (ws : Array Nat) (len : Nat) : numOnes ws len = cnt (polBit false ws) len := by
  rw [numOnes_eq_cnt, polBit_false]

theorem numZeros_eq_cntP (ws : Array Nat) (len : Nat) : numZeros ws len = cnt (polBit true ws) len := by
  rw [numZeros_eq_cnt, polBit_true]

/-- layer `.ss k b` over a vector whose rank structure reports `numOnes ws len` ones -/
theorem layer_correct (k : Nat) (b : Option Nat) (ws : Array Nat) (len : Nat) (hlen : len ≤ 64 * ws.size)
    (h1 : b.getD 8 * ((smallParams k).wpb * 64) < 2 ^ 64)
    (h2 : numOnes ws len * (b.getD 8 * ((smallParams k).wpb * 64)) < 2 ^ 64) :
    ∃ f, (layer ws len (numOnes ws len) k b).select = some f ∧ ∀ r,
      (r < numOnes ws len → ∃ p, f r = .ok (some p) ∧ IsSelect ws len r p) ∧
      (numOnes ws len ≤ r → f r = .ok none) := by
  rw [numOnes_eq_cntP] at h2
  obtain ⟨s, hs, hinv⟩ := buildWithInv_inv (smallParams k) false ws len (b.getD 8) hlen h1 h2
  unfold layer mkLayer
  simp only [Bool.false_eq_true, if_false]
  rw [numOnes_eq_cntP, hs]
  refine ⟨_, rfl, ?_⟩
  intro r
  have := small_select_correct k ws len hlen s hinv r
  rw [numOnes_eq_cntP] at this
  exact this

/-- layer `.szs k b` -/
theorem layerZero_correct (k : Nat) (b : Option Nat) (ws : Array Nat) (len : Nat) (hlen : len ≤ 64 * ws.size)
    (h1 : b.getD 8 * ((smallParams k).wpb * 64) < 2 ^ 64)
    (h2 : numZeros ws len * (b.getD 8 * ((smallParams k).wpb * 64)) < 2 ^ 64) :
    ∃ f, (layerZero ws len (numOnes ws len) k b).selectZero = some f ∧ ∀ r,
      (r < numZeros ws len → ∃ p, f r = .ok (some p) ∧ IsSelectZero ws len r p) ∧
      (numZeros ws len ≤ r → f r = .ok none) := by
  rw [numZeros_eq_cntP] at h2
  obtain ⟨s, hs, hinv⟩ := buildWithInv_inv (smallParams k) true ws len (b.getD 8) hlen h1 h2
  have hz : len - numOnes ws len = cnt (polBit true ws) len := by
    have := numZeros_add_numOnes ws len
    rw [← numZeros_eq_cntP]; omega
  unfold layerZero mkLayer
  simp only [if_true]
  rw [hz, hs]
  refine ⟨_, rfl, ?_⟩
  intro r
  have := small_select_zero_correct k ws len hlen s hinv r
  rw [numZeros_eq_cntP] at this
  rw [numZeros_eq_cntP]
  exact this

end Sux.RS.Small
