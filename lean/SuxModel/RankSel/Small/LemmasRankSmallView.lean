import SuxModel.RankSel.RankSmall.Lemmas
import SuxModel.RankSel.Select9.LemmasRank9View
import SuxModel.RankSel.Small.LemmasLayer
/-!
# The spec-level RankSmall view read by the `SelectSmall` / `SelectZeroSmall` models IS what
`RankSmall::new` builds

`Small.viewOf (smallParams k) ws len` (`upper_counts`, `absolute`, `all_rel()` of every block, as the
select models read them) equals the arrays of `RankSmall.build (RankSmall.variant k) ws len`
(`all_rel()` is the integer held by `relative : [u32; NUM_U32S]`, which is how the RankSmall model
represents `relative`).
-/
namespace Sux.RS.RankSmall
open Sux Sux.RS Sux.RS.Priv Sux.RS.BW

/-- expected packed `relative` of the block starting at word `i` -/
def expRel (P : SmallParams) (ws : Array Nat) (len i : Nat) : Nat :=
  packL P.counterWidth ((List.range (P.subblocks - 1)).map
    (fun t => R ws len (i + (P.subblocks - 1 - t) * P.wordsPerSubblock) - R ws len i))

/-- a word all of whose `cw`-bit slots are known is the packed list of the `sub - 1` fields -/
theorem rel_of_slots (cw wps sub : Nat) (hsub : sub = 4 ∨ sub = 8) (hcw : 0 < cw) (hwps : 0 < wps)
    (F : Nat → Nat) (r : Nat) (hF : ∀ s, s < sub → F s < 2 ^ cw)
    (hs : Slots cw (sub - 1) wps sub F (sub * wps) r) :
    r = packL cw ((List.range (sub - 1)).map (fun t => F (sub - 1 - t))) := by
  have hlt : ∀ c ∈ (List.range (sub - 1)).map (fun t => F (sub - 1 - t)), c < 2 ^ cw := by
    intro c hc
    simp only [List.mem_map, List.mem_range] at hc
    obtain ⟨i, _, rfl⟩ := hc
    exact hF _ (by omega)
  apply Select9.eq_of_slotVal_eq hcw
  intro t
  rw [hs t, Select9.slotVal_packL cw _ t hlt, List.getD_eq_getElem?_getD, List.getElem?_map]
  by_cases ht : t < sub - 1
  · rw [List.getElem?_range ht, Small.xor_nsub hsub (show t < sub by omega),
      if_pos ⟨by omega, by omega, Nat.mul_lt_mul_of_pos_right (by omega) hwps⟩]
    rfl
  · rw [List.getElem?_eq_none (by simp; omega)]
    by_cases hts : t < sub
    · rw [Small.xor_nsub hsub hts, if_neg (by omega)]
      rfl
    · rw [if_neg (by omega)]
      rfl

theorem relLoop_block_view {P : SmallParams} (hP : Admissible P) (hsub : P.subblocks = 4 ∨ P.subblocks = 8)
    (ws : Array Nat) (len : Nat)
    (hlen : len ≤ 64 * ws.size) (i uc a : Nat) (hbase : uc + a = R ws len i) :
    relLoop P ws len (divCeil len 64) i uc a (P.wordsPerBlock - 1) 1 (R ws len (i + 1)) 0
      = .ok (R ws len (i + P.wordsPerBlock), expRel P ws len i) := by
  have hw := wpb_pos P
  have hsw := sub_wps hP
  have h := relLoop_generic (packOK hP) (setRel P)
    (fun r word v hr hv => setRel_eq hP r word v hr hv) ws len hlen i (uc + a) hbase
    (fun f j n r => relLoop P ws len (divCeil len 64) i uc a f j n r)
    (fun j n r => by simp only [relLoop])
    (fun f j n r hb => relLoop_step P ws len i uc a f j n r hb)
    (P.wordsPerBlock - 1) 1 (R ws len (i + 1)) 0 (by omega) (by omega)
    ⟨rfl, Nat.two_pow_pos _, slots_init _ _ _ _ _ (packOK hP).wps_pos⟩
  obtain ⟨n', r', he, hn, _, hsl⟩ := h
  have e1 : 1 + (P.wordsPerBlock - 1) = P.subblocks * P.wordsPerSubblock := by omega
  rw [he]
  have hn' : n' = R ws len (i + P.wordsPerBlock) := by
    rw [hn]
    have : 64 * (i + (1 + (P.wordsPerBlock - 1))) = 64 * (i + P.wordsPerBlock) := by omega
    rw [this]
  rw [e1] at hsl
  have hcw : 0 < P.counterWidth := by have := hP.1; omega
  have hr' := rel_of_slots P.counterWidth P.wordsPerSubblock P.subblocks hsub hcw (packOK hP).wps_pos _ r'
    (by
      intro s hs
      show rankSpec ws len (64 * (i + s * P.wordsPerSubblock)) - rankSpec ws len (64 * i) < 2 ^ P.counterWidth
      by_cases h0 : s = 0
      · subst h0
        rw [Nat.zero_mul, Nat.add_zero, Nat.sub_self]
        exact Nat.two_pow_pos _
      · have h1 := ((packOK hP).fit s hs (by omega)).1
        have := rankSpec_le_add ws len (p := 64 * i) (q := 64 * (i + s * P.wordsPerSubblock)) (by omega)
        generalize s * P.wordsPerSubblock = y at *
        omega) hsl
  rw [hn', hr']
  rfl

/-- the `relative` words built so far are the expected ones -/
def RelOK (P : SmallParams) (ws : Array Nat) (len : Nat) (st : BuildSt) : Prop :=
  ∀ k c, st.counts[k]? = some c → c.relative = expRel P ws len (k * P.wordsPerBlock)

theorem blockLoop_view {P : SmallParams} (hP : Admissible P) (hsub : P.subblocks = 4 ∨ P.subblocks = 8)
    (ws : Array Nat) (len : Nat) (hlen : len ≤ 64 * ws.size) :
    ∀ f b st, b + f ≤ divCeil (divCeil len 64) P.wordsPerBlock → LoopSt P ws len b st → RelOK P ws len st →
      ∃ st', blockLoop P ws len (divCeil len 64) f (b * P.wordsPerBlock) st = .ok st' ∧
        LoopSt P ws len (b + f) st' ∧ RelOK P ws len st' := by
  intro f
  induction f with
  | zero => intro b st _ hst hrel; exact ⟨st, rfl, hst, hrel⟩
  | succ f ih =>
    intro b st hbf hst hrelok
    have hw := wpb_pos P
    have hb : b < divCeil (divCeil len 64) P.wordsPerBlock := by omega
    have hi : b * P.wordsPerBlock < divCeil len 64 := by
      have := (lt_divCeil hw).mp hb
      rwa [Nat.mul_comm] at this
    have hK := block_in_span hP (b * P.wordsPerBlock) (Nat.mul_mod_left b _)
    have hsucc : (b + 1) * P.wordsPerBlock = b * P.wordsPerBlock + P.wordsPerBlock := Nat.succ_mul _ _
    obtain ⟨hpast, huc, husz, huok, hcsz, hcok⟩ := hst
    unfold blockLoop
    dsimp only
    rw [Nat.one_shiftLeft]
    generalize hst1 : (if b * P.wordsPerBlock % 2 ^ 26 = 0
      then ({ pastOnes := st.pastOnes, upperCount := st.pastOnes,
              upper := st.upper.push st.pastOnes, counts := st.counts } : BuildSt) else st) = st1
    unfold RelOK at hrelok
    generalize hi0 : b * P.wordsPerBlock = i at *
    have h1 : st1.pastOnes = R ws len i ∧ st1.counts = st.counts ∧
        st1.upperCount = R ws len (i / 2 ^ 26 * 2 ^ 26) ∧ st1.upper.size = i / 2 ^ 26 + 1 ∧
        (∀ u v, st1.upper[u]? = some v → v = R ws len (u * 2 ^ 26)) := by
      have hus := husz
      rw [divCeil] at hus
      by_cases h0 : i % 2 ^ 26 = 0
      · rw [if_pos h0] at hst1
        subst hst1
        refine ⟨hpast, rfl, ?_, ?_, ?_⟩
        · show st.pastOnes = _
          rw [hpast]
          have : i / 2 ^ 26 * 2 ^ 26 = i := by omega
          rw [this]
        · show (st.upper.push st.pastOnes).size = _
          rw [Array.size_push, hus, if_neg (by omega)]
        · intro u v huv
          rcases getElem?_push_some huv with ⟨_, h⟩ | ⟨h1, h2⟩
          · exact huok u v h
          · rw [h2, hpast, h1, hus, if_neg (by omega)]
            have : i / 2 ^ 26 * 2 ^ 26 = i := by omega
            rw [this]
      · rw [if_neg h0] at hst1
        subst hst1
        refine ⟨hpast, rfl, huc h0, ?_, huok⟩
        rw [hus, if_pos (by omega)]
    obtain ⟨hp1, hc1, hu1, hs1, hok1⟩ := h1
    have hmono : R ws len (i / 2 ^ 26 * 2 ^ 26) ≤ R ws len i :=
      rankSpec_mono ws len (by omega)
    have hnt := absolute_no_trunc ws len i
    rw [hp1, hu1, checkedSub_ok hmono]
    simp only [Out.bind_ok]
    rw [Nat.mod_eq_of_lt hnt]
    obtain ⟨c, hc, _, hcs⟩ := countOnes_spec ws len hlen hi
    rw [hc]
    simp only [Out.bind_ok]
    have e1 : R ws len i + c = R ws len (i + 1) := by
      show _ = rankSpec ws len (64 * (i + 1)); rw [hcs]
    rw [e1]
    obtain ⟨n', r', hrl, hn', hrel⟩ := relLoop_block hP ws len hlen i
      (R ws len (i / 2 ^ 26 * 2 ^ 26)) (R ws len i - R ws len (i / 2 ^ 26 * 2 ^ 26)) (by omega)
    have hrl2 := relLoop_block_view hP hsub ws len hlen i
      (R ws len (i / 2 ^ 26 * 2 ^ 26)) (R ws len i - R ws len (i / 2 ^ 26 * 2 ^ 26)) (by omega)
    have hr'eq : r' = expRel P ws len i := by
      rw [hrl] at hrl2
      exact congrArg Prod.snd (Out.ok.inj hrl2)
    rw [hrl]
    simp only [Out.bind_ok]
    have hnext := ih (b + 1)
      { pastOnes := n', upperCount := R ws len (i / 2 ^ 26 * 2 ^ 26), upper := st1.upper,
        counts := st1.counts.push
          { absolute := R ws len i - R ws len (i / 2 ^ 26 * 2 ^ 26), relative := r' } }
      (by omega)
      { past := by rw [hsucc]; exact hn'
        uc := by
          intro hne
          rw [hsucc] at hne ⊢
          show R ws len (i / 2 ^ 26 * 2 ^ 26) = _
          have : (i + P.wordsPerBlock) / 2 ^ 26 = i / 2 ^ 26 := by omega
          rw [this]
        usize := by
          show st1.upper.size = _
          rw [hs1, hsucc, divCeil]
          split <;> omega
        uok := hok1
        csize := by
          show (st1.counts.push _).size = _
          rw [Array.size_push, hc1, hcsz]
        cok := by
          intro k c0 hk
          rcases getElem?_push_some hk with ⟨_, h⟩ | ⟨h1, h2⟩
          · rw [hc1] at h; exact hcok k c0 h
          · rw [hc1, hcsz] at h1
            rw [h1, h2]
            unfold BlockOK
            rw [hi0]
            refine ⟨by show _ + (_ - _) = _; omega, hrel⟩ }
      (by
        intro k c0 hk
        have hk' : (st1.counts.push
          { absolute := R ws len i - R ws len (i / 2 ^ 26 * 2 ^ 26), relative := r' })[k]? = some c0 := hk
        rcases getElem?_push_some hk' with ⟨_, h⟩ | ⟨h1, h2⟩
        · rw [hc1] at h; exact hrelok k c0 h
        · rw [hc1, hcsz] at h1
          rw [h1, h2, hi0]
          exact hr'eq)
    rw [hsucc] at hnext
    have e2 : b + 1 + f = b + (f + 1) := by omega
    rw [e2] at hnext
    exact hnext

/-- the builder, with the `relative` words identified -/
theorem build_rel {P : SmallParams} (hP : Admissible P) (hsub : P.subblocks = 4 ∨ P.subblocks = 8)
    (ws : Array Nat) (len : Nat) (hlen : len ≤ 64 * ws.size) :
    ∃ x, build P ws len = .ok x ∧ InvOK P ws len x ∧
      ∀ k c, x.counts[k]? = some c → c.relative = expRel P ws len (k * P.wordsPerBlock) := by
  obtain ⟨x, hb, hinv⟩ := build_inv hP ws len hlen
  refine ⟨x, hb, hinv, ?_⟩
  obtain ⟨st', he, _, hrel⟩ := blockLoop_view hP hsub ws len hlen
    (divCeil (divCeil len 64) P.wordsPerBlock) 0
    { pastOnes := 0, upperCount := 0, upper := #[], counts := #[] } (by omega)
    { past := by show 0 = rankSpec ws len (64 * (0 * _)); rw [Nat.zero_mul, rankSpec_zero]
      uc := by intro h; simp at h
      usize := by simp [divCeil]
      uok := by intro u v h; simp at h
      csize := rfl
      cok := by intro k c h; simp at h }
    (by intro k c h; simp at h)
  rw [Nat.zero_mul] at he
  unfold build at hb
  dsimp only at hb
  rw [he] at hb
  simp only [Out.bind_ok] at hb
  split at hb
  · cases hb
  · split at hb
    · cases hb
    · have hx := Out.ok.inj hb
      subst hx
      exact hrel

theorem divCeil_eq_add_div (a b : Nat) (hb : 0 < b) : divCeil a b = (a + (b - 1)) / b := by
  unfold divCeil
  have hdm := Nat.div_add_mod a b
  have hr : a % b < b := Nat.mod_lt _ hb
  have e : a + (b - 1) = b * (a / b) + (a % b + (b - 1)) := by omega
  rw [e, Nat.mul_add_div hb]
  by_cases h0 : a % b > 0
  · rw [if_pos h0]
    congr 1
    symm
    apply Nat.div_eq_of_lt_le <;> omega
  · rw [if_neg h0]
    have : (a % b + (b - 1)) / b = 0 := Nat.div_eq_of_lt (by omega)
    omega

end Sux.RS.RankSmall

namespace Sux.RS.Small
open Sux Sux.RS Sux.RS.Priv Sux.RS.BW

/-- the `SmallView` of a built `RankSmall` -/
def viewOfIdx (x : RankSmall.Idx) : SmallView :=
  { upper := x.upper, abs := x.counts.map (·.absolute), rel := x.counts.map (·.relative) }

/-- the parameter tuples of the select models and of the RankSmall model describe the same variant -/
theorem params_match : ∀ k,
    (smallParams k).cw = (RankSmall.variant k).counterWidth ∧
    (smallParams k).nsub = (RankSmall.variant k).subblocks ∧
    (smallParams k).wps = (RankSmall.variant k).wordsPerSubblock ∧
    (smallParams k).wpb = (RankSmall.variant k).wordsPerBlock ∧
    ((RankSmall.variant k).subblocks = 4 ∨ (RankSmall.variant k).subblocks = 8)
  | 0 => by decide
  | 1 => by decide
  | 2 => by decide
  | 3 => by decide
  | n + 4 => by
    have e1 : smallParams (n + 4) = ⟨128, 16, 13, 8, 128⟩ := rfl
    have e2 : RankSmall.variant (n + 4) = ⟨3, 13⟩ := rfl
    rw [e1, e2]
    decide

theorem view_eq_of_match (P' : SmallParams) (P : RankSmall.SmallParams)
    (hcw : P'.cw = P.counterWidth) (hns : P'.nsub = P.subblocks) (hwps : P'.wps = P.wordsPerSubblock)
    (hwpb : P'.wpb = P.wordsPerBlock) (hsub : P.subblocks = 4 ∨ P.subblocks = 8)
    (hP : RankSmall.Admissible P) (ws : Array Nat) (len : Nat) (hlen : len ≤ 64 * ws.size) :
    ∃ x, RankSmall.build P ws len = .ok x ∧ viewOf P' ws len = viewOfIdx x ∧ x.numOnes = numOnes ws len := by
  obtain ⟨x, hb, hinv, hrel⟩ := RankSmall.build_rel hP hsub ws len hlen
  refine ⟨x, hb, ?_, by rw [hinv.ones, numOnes_eq_rankSpec]⟩
  have hw := RankSmall.wpb_pos P
  have h64 : (64 * 2 ^ 26 : Nat) = 2 ^ 32 := by decide
  have hu : Array.ofFn (n := (len + (2 ^ 32 - 1)) / 2 ^ 32) (fun s => onesBefore ws len (s.val * 2 ^ 26)) = x.upper := by
    apply Array.ext
    · rw [Array.size_ofFn, hinv.usize, RankSmall.divCeil_divCeil len _ (Nat.two_pow_pos 26),
        RankSmall.divCeil_eq_add_div _ _ (by omega), h64]
    · intro i hi1 hi2
      rw [Array.getElem_ofFn]
      have := hinv.uok i _ (Array.getElem?_eq_getElem hi2)
      rw [this]
      rfl
  have hnc : (len + (64 * P'.wpb - 1)) / (64 * P'.wpb) = x.counts.size := by
    rw [hinv.csize, RankSmall.divCeil_divCeil len _ hw, RankSmall.divCeil_eq_add_div _ _ (by omega), hwpb]
  have ha : Array.ofFn (n := (len + (64 * P'.wpb - 1)) / (64 * P'.wpb))
      (fun b => (onesBefore ws len (b.val * P'.wpb) - onesBefore ws len ((b.val * P'.wpb) / 2 ^ 26 * 2 ^ 26)) % 2 ^ 32)
      = x.counts.map (·.absolute) := by
    apply Array.ext
    · rw [Array.size_ofFn, Array.size_map, hnc]
    · intro i hi1 hi2
      rw [Array.size_map] at hi2
      rw [Array.getElem_ofFn, Array.getElem_map]
      dsimp only
      have hc : rankSpec ws len (64 * (i * P.wordsPerBlock / 2 ^ 26 * 2 ^ 26)) + x.counts[i].absolute
          = rankSpec ws len (64 * (i * P.wordsPerBlock)) := (hinv.cok i _ (Array.getElem?_eq_getElem hi2)).1
      have hnt : rankSpec ws len (64 * (i * P.wordsPerBlock))
          - rankSpec ws len (64 * (i * P.wordsPerBlock / 2 ^ 26 * 2 ^ 26)) < 2 ^ 32 :=
        RankSmall.absolute_no_trunc ws len (i * P.wordsPerBlock)
      rw [hwpb]
      show (rankSpec ws len (64 * (i * P.wordsPerBlock))
        - rankSpec ws len (64 * (i * P.wordsPerBlock / 2 ^ 26 * 2 ^ 26))) % 2 ^ 32 = _
      rw [Nat.mod_eq_of_lt hnt]
      omega
  have hr : Array.ofFn (n := (len + (64 * P'.wpb - 1)) / (64 * P'.wpb))
      (fun b => smallRel P' (onesBefore ws len) (b.val * P'.wpb)) = x.counts.map (·.relative) := by
    apply Array.ext
    · rw [Array.size_ofFn, Array.size_map, hnc]
    · intro i hi1 hi2
      rw [Array.size_map] at hi2
      rw [Array.getElem_ofFn, Array.getElem_map]
      dsimp only
      rw [hrel i _ (Array.getElem?_eq_getElem hi2)]
      unfold smallRel RankSmall.expRel
      rw [hcw, hns, hwps, hwpb]
      rfl
  unfold viewOf viewOfIdx
  rw [obOf_cumOnes]
  unfold smallView
  simp only []
  rw [hu, ha, hr]

/-- **the view theorem for RankSmall**: `rank_small![k; bits]` succeeds and its arrays are exactly the
spec-level view the `SelectSmall` / `SelectZeroSmall` models read; `num_ones()` is the number of ones -/
theorem rankSmall_build_view (k : Nat) (ws : Array Nat) (len : Nat) (hlen : len ≤ 64 * ws.size) :
    ∃ x, RankSmall.build (RankSmall.variant k) ws len = .ok x ∧
      viewOf (smallParams k) ws len = viewOfIdx x ∧ x.numOnes = numOnes ws len := by
  obtain ⟨h1, h2, h3, h4, h5⟩ := params_match k
  exact view_eq_of_match _ _ h1 h2 h3 h4 h5 (RankSmall.variant_admissible k) ws len hlen

/-- `SelectSmall::with_inv(rank_small![k; bits], b)` with the counters and `num_ones()` taken from
the REAL (modelled) `RankSmall` builder: both builders succeed and `select` answers the specification -/
theorem select_over_rankSmall (k b : Nat) (ws : Array Nat) (len : Nat) (hlen : len ≤ 64 * ws.size)
    (h1 : b * ((smallParams k).wpb * 64) < 2 ^ 64)
    (h2 : numOnes ws len * (b * ((smallParams k).wpb * 64)) < 2 ^ 64) :
    ∃ x, RankSmall.build (RankSmall.variant k) ws len = .ok x ∧ x.numOnes = numOnes ws len ∧
      ∃ s, buildWithInv (smallParams k) false ws len x.numOnes b = .ok s ∧
        ∀ r, select (smallParams k) false ws len x.numOnes (viewOfIdx x) s r = .ok (selectSpec ws len r) := by
  obtain ⟨x, hb, hv, hn⟩ := rankSmall_build_view k ws len hlen
  rw [numOnes_eq_cntP] at h2
  obtain ⟨s, hs, hinv⟩ := buildWithInv_inv (smallParams k) false ws len b hlen h1 h2
  rw [← numOnes_eq_cntP] at hs
  refine ⟨x, hb, hn, s, by rw [hn]; exact hs, ?_⟩
  intro r
  rw [← hv, hn]
  obtain ⟨q1, q2⟩ := small_select_correct k ws len hlen s hinv r
  by_cases hr : r < numOnes ws len
  · obtain ⟨p, hp, hsel⟩ := q1 hr
    rw [hp, (selectSpec_eq_some_iff ws len r p).2 hsel]
  · rw [q2 (by omega), (selectSpec_eq_none_iff ws len r).2 (by omega)]

/-- the same for `SelectZeroSmall` (`num_zeros() = len - num_ones()`) -/
theorem selectZero_over_rankSmall (k b : Nat) (ws : Array Nat) (len : Nat) (hlen : len ≤ 64 * ws.size)
    (h1 : b * ((smallParams k).wpb * 64) < 2 ^ 64)
    (h2 : numZeros ws len * (b * ((smallParams k).wpb * 64)) < 2 ^ 64) :
    ∃ x, RankSmall.build (RankSmall.variant k) ws len = .ok x ∧ len - x.numOnes = numZeros ws len ∧
      ∃ s, buildWithInv (smallParams k) true ws len (len - x.numOnes) b = .ok s ∧
        ∀ r, select (smallParams k) true ws len (len - x.numOnes) (viewOfIdx x) s r
          = .ok (selectZeroSpec ws len r) := by
  obtain ⟨x, hb, hv, hn⟩ := rankSmall_build_view k ws len hlen
  have hz : len - x.numOnes = numZeros ws len := by
    have := numZeros_add_numOnes ws len
    rw [hn]; omega
  rw [numZeros_eq_cntP] at h2
  obtain ⟨s, hs, hinv⟩ := buildWithInv_inv (smallParams k) true ws len b hlen h1 h2
  rw [← numZeros_eq_cntP] at hs
  refine ⟨x, hb, hz, s, by rw [hz]; exact hs, ?_⟩
  intro r
  rw [← hv, hz]
  obtain ⟨q1, q2⟩ := small_select_zero_correct k ws len hlen s hinv r
  by_cases hr : r < numZeros ws len
  · obtain ⟨p, hp, hsel⟩ := q1 hr
    rw [hp, (selectZeroSpec_eq_some_iff ws len r p).2 hsel]
  · rw [q2 (by omega), (selectZeroSpec_eq_none_iff ws len r).2 (by omega)]

end Sux.RS.Small
