import SuxModel.RankSel.Adapt.LemmasPhase2Entry
import SuxModel.RankSel.Adapt.LemmasPhase1
/-!
# (B) spill estimation, the loop over all inventory entries, and the invariant at the end
-/
namespace Sux.RS.Adapt
open Sux.RS

/-- spill words used by the entries before `i` = spill pointer of entry `i` -/
def spillBefore (P : Params) (ws : Array Nat) (len : Nat) : Nat → Nat
  | 0 => 0
  | i + 1 => spillBefore P ws len i + spillSpec P ws len i

theorem spillBefore_mono (P : Params) (ws : Array Nat) (len : Nat) {a b : Nat} (h : a ≤ b) :
    spillBefore P ws len a ≤ spillBefore P ws len b := by
  induction b with
  | zero => have : a = 0 := by omega
            subst this; exact Nat.le_refl _
  | succ b ih =>
    by_cases hab : a = b + 1
    · subst hab; exact Nat.le_refl _
    · have := ih (by omega)
      show _ ≤ spillBefore P ws len b + spillSpec P ws len b
      omega

/-- what phase 1 leaves (see `phase1_spec`) -/
structure Ph1 (P : Params) (ws : Array Nat) (len : Nat) (inv : Array Nat) : Prop where
  size : inv.size = invSize P ws len * (P.U + 1) + 1
  sentinel : inv.getD (invSize P ws len * (P.U + 1)) 0 = max 1 len
  entry : ∀ e, e < invSize P ws len → inv.getD (e * (P.U + 1)) 0 = pos P ws len (e * P.K)
  zeros : ∀ e, e < invSize P ws len → ∀ k, 1 ≤ k → k ≤ P.U → inv.getD (e * (P.U + 1) + k) 0 = 0

/-- the word after the subinventory of an untouched entry is the end of its span -/
theorem next_of_untouched {P : Params} {ws : Array Nat} {len : Nat} {inv : Array Nat} {i : Nat}
    (hi : i < invSize P ws len)
    (hsent : inv.getD (invSize P ws len * (P.U + 1)) 0 = max 1 len)
    (hent : ∀ e, i < e → e < invSize P ws len → inv.getD (e * (P.U + 1)) 0 = pos P ws len (e * P.K)) :
    inv.getD (i * (P.U + 1) + (P.U + 1)) 0 = nextPos P ws len i := by
  have hidx : i * (P.U + 1) + (P.U + 1) = (i + 1) * (P.U + 1) := by rw [Nat.add_mul, Nat.one_mul]
  rw [hidx]
  unfold nextPos
  by_cases hn : i + 1 < invSize P ws len
  · rw [if_pos hn]; exact hent (i + 1) (by omega) hn
  · rw [if_neg hn]
    have : i + 1 = invSize P ws len := by omega
    rw [this]; exact hsent

/-! ## spill estimation -/

theorem spillOf_spec (P : Params) (ws : Array Nat) (len : Nat) (inv : Array Nat) (h : Ph1 P ws len inv)
    (i : Nat) (hi : i < invSize P ws len) :
    spillOf P inv (max 1 len) (count P ws len) i = .ok (spillSpec P ws len i) := by
  have hend := entry_end_le hi
  have hU := P.U_pos
  have hK := P.K_pos
  have hple := pos_le_nextPos (P := P) (ws := ws) (len := len) hi
  have hnlt : ¬ nextPos P ws len i < pos P ws len (i * P.K) := by omega
  have hnext := next_of_untouched hi h.sentinel (fun e _ he => h.entry e he)
  have hiK := mul_K_lt_count hi
  have hnlt2 : ¬ count P ws len < i * P.K := by omega
  unfold spillOf
  simp only [bind, Out.bind]
  rw [readS_getD (by rw [h.size]; omega), h.entry i hi]
  simp only []
  rw [readS_getD (by rw [h.size]; omega), hnext]
  simp only [subC, hnlt, hnlt2, if_false]
  rw [show nextPos P ws len i - pos P ws len (i * P.K) = spanOf P ws len i from rfl]
  have hones : min (count P ws len - i * P.K) P.K = onesIn P ws len i := by unfold onesIn; omega
  rw [hones]
  have hassert : ¬ (pos P ws len (i * P.K) + spanOf P ws len i ≠ max 1 len ∧ onesIn P ws len i ≠ P.K) := by
    intro ⟨h1, h2⟩
    by_cases hn : i + 1 < invSize P ws len
    · have := mul_K_lt_count hn
      rw [Nat.add_mul, Nat.one_mul] at this
      unfold onesIn at h2; omega
    · apply h1
      unfold spanOf nextPos; rw [if_neg hn]
      unfold nextPos at hple; rw [if_neg hn] at hple
      omega
  rw [if_neg hassert]
  unfold spillSpec
  cases hty : SpanType.fromSpan (spanOf P ws len i)
  · rfl
  · have hspan := fromSpan_u32 hty
    have hl : log2OnesPerSub32 (spanOf P ws len i) P.s16 = .ok (l32Of P ws len i) := by
      unfold log2OnesPerSub32; rw [if_neg (by omega)]; rfl
    simp only [hl, pure]
  · have := onesIn_pos (P := P) (ws := ws) (len := len) hi
    have hn3 : ¬ onesIn P ws len i < 1 := by omega
    simp only [hn3, if_false, pure]

theorem spillLoop_spec (P : Params) (ws : Array Nat) (len : Nat) (inv : Array Nat) (h : Ph1 P ws len inv) :
    ∀ (d i : Nat), invSize P ws len - i = d → i ≤ invSize P ws len →
      spillLoop P inv (max 1 len) (count P ws len) (invSize P ws len) i (spillBefore P ws len i)
        = .ok (spillBefore P ws len (invSize P ws len)) := by
  intro d
  induction d with
  | zero =>
    intro i hd hi
    have : i = invSize P ws len := by omega
    subst this
    unfold spillLoop
    rw [if_neg (by omega)]
  | succ d ih =>
    intro i hd hi
    unfold spillLoop
    rw [if_pos (by omega)]
    simp only [bind, Out.bind, spillOf_spec P ws len inv h i (by omega)]
    exact ih (i + 1) (by omega) (by omega)

/-! ## frames -/

/-- spill indices addressed by a U32 entry stay inside its own part of the spill -/
theorem spill32_bound {P : Params} {ws : Array Nat} {len i j : Nat}
    (hty : SpanType.fromSpan (spanOf P ws len i) = .u32)
    (hj : j * 2 ^ l32Of P ws len i < onesIn P ws len i) (hloc : ¬ j < (P.U - 1) * 2) :
    (j - (P.U - 1) * 2) / 2 < spillSpec P ws len i := by
  have hq : 0 < 2 ^ l32Of P ws len i := Nat.two_pow_pos _
  have hc := lt_divCeil hq hj
  unfold spillSpec; rw [hty]; simp only []
  generalize (onesIn P ws len i + 2 ^ l32Of P ws len i - 1) / 2 ^ l32Of P ws len i = c at hc
  omega

theorem spill64_bound {P : Params} {ws : Array Nat} {len i j : Nat}
    (hty : SpanType.fromSpan (spanOf P ws len i) = .u64)
    (hj : j < onesIn P ws len i) (hloc : ¬ j < P.U) :
    j - P.U < spillSpec P ws len i := by
  have hU := P.U_pos
  unfold spillSpec; rw [hty]
  show j - P.U < (onesIn P ws len i - 1) - (P.U - 1)
  omega

theorem lane16_bound {P : Params} {ws : Array Nat} {len i j : Nat}
    (hj : j * 2 ^ P.s16 < onesIn P ws len i) : j < 4 * P.U := by
  have h1 := K_le P
  have h2 := onesIn_le_K P ws len i
  exact Nat.lt_of_mul_lt_mul_right (a := 2 ^ P.s16) (by omega)

theorem Done.frame {P : Params} {ws : Array Nat} {len : Nat} {inv spill inv' spill' : Array Nat}
    {sp e : Nat} (h : Done P ws len inv spill sp e)
    (hinv : ∀ k, e * (P.U + 1) ≤ k → k ≤ e * (P.U + 1) + P.U → inv'.getD k 0 = inv.getD k 0)
    (hsp : ∀ k, sp ≤ k → k < sp + spillSpec P ws len e → spill'.getD k 0 = spill.getD k 0) :
    Done P ws len inv' spill' sp e := by
  have hU := P.U_pos
  refine ⟨?_, ?_, ?_, ?_, ?_⟩
  · rw [hinv _ (by omega) (by omega)]; exact h.entry
  · intro hne; rw [hinv _ (by omega) (by omega)]; exact h.ptr hne
  · intro hty j hj
    have := lane16_bound hj
    have h1 := h.s16 hty j hj
    unfold slotLane at h1 ⊢
    rw [hinv _ (by omega) (by omega)]; exact h1
  · intro hty j hj
    have h1 := h.s32 hty j hj
    unfold slotRaw32 slotLane at h1 ⊢
    by_cases hloc : j < (P.U - 1) * 2
    · rw [if_pos hloc] at h1 ⊢
      rw [hinv _ (by omega) (by omega)]; exact h1
    · rw [if_neg hloc] at h1 ⊢
      have := spill32_bound hty hj hloc
      rw [hsp _ (by omega) (by omega)]; exact h1
  · intro hty j hj1 hj
    have h1 := h.s64 hty j hj1 hj
    unfold slotRaw64 at h1 ⊢
    by_cases hloc : j < P.U
    · rw [if_pos hloc] at h1 ⊢
      rw [hinv _ (by omega) (by omega)]; exact h1
    · rw [if_neg hloc] at h1 ⊢
      have := spill64_bound hty hj hloc
      rw [hsp _ (by omega) (by omega)]; exact h1

/-! ## the loop over the entries -/

/-- invariant of `phase2Loop` before entry `i` -/
structure GInv (P : Params) (ws : Array Nat) (len : Nat) (inv spill : Array Nat) (i : Nat) : Prop where
  size : inv.size = invSize P ws len * (P.U + 1) + 1
  ssize : spill.size = spillBefore P ws len (invSize P ws len)
  sentinel : inv.getD (invSize P ws len * (P.U + 1)) 0 = max 1 len
  done : ∀ e, e < i → Done P ws len inv spill (spillBefore P ws len e) e
  todoE : ∀ e, i ≤ e → e < invSize P ws len → inv.getD (e * (P.U + 1)) 0 = pos P ws len (e * P.K)
  todoZ : ∀ e, i ≤ e → e < invSize P ws len → ∀ k, 1 ≤ k → k ≤ P.U → inv.getD (e * (P.U + 1) + k) 0 = 0
  szeros : ∀ k, spillBefore P ws len i ≤ k → spill.getD k 0 = 0

theorem phase2Loop_spec (P : Params) (ws : Array Nat) (len : Nat) (hlen : len ≤ 64 * ws.size) :
    ∀ (d i : Nat) (inv spill : Array Nat), invSize P ws len - i = d → i ≤ invSize P ws len →
      GInv P ws len inv spill i →
      ∃ inv' spill', phase2Loop P ws (count P ws len) (spillBefore P ws len (invSize P ws len))
          (invSize P ws len) i inv spill (spillBefore P ws len i)
            = .ok (inv', spill', spillBefore P ws len (invSize P ws len)) ∧
        GInv P ws len inv' spill' (invSize P ws len) := by
  intro d
  induction d with
  | zero =>
    intro i inv spill hd hi hg
    have : i = invSize P ws len := by omega
    subst this
    refine ⟨inv, spill, ?_, hg⟩
    unfold phase2Loop
    rw [if_neg (by omega)]
  | succ d ih =>
    intro i inv spill hd hi hg
    have hiN : i < invSize P ws len := by omega
    have hU := P.U_pos
    have hmono := spillBefore_mono P ws len (show i + 1 ≤ invSize P ws len by omega)
    have hpre : PreEntry P ws len (spillBefore P ws len (invSize P ws len)) inv spill
        (spillBefore P ws len i) i :=
      ⟨hiN, hg.size, hg.todoE i (Nat.le_refl _) hiN, hg.todoZ i (Nat.le_refl _) hiN,
        next_of_untouched hiN hg.sentinel (fun e he1 he2 => hg.todoE e (by omega) he2),
        hg.ssize, hmono, hg.szeros⟩
    obtain ⟨r, he, hsp, hs1, hs2, hf1, hf2, hdone⟩ := phase2Entry_spec P ws len _ inv spill _ i hlen hpre
    unfold phase2Loop
    rw [if_pos hiN]
    simp only [bind, Out.bind, he]
    obtain ⟨inv', spill', sp'⟩ := r
    simp only [] at hsp hs1 hs2 hf1 hf2 hdone ⊢
    rw [hsp]
    have hend := entry_end_le hiN
    apply ih (i + 1) inv' spill' (by omega) (by omega)
    refine ⟨by rw [hs1]; exact hg.size, by rw [hs2]; exact hg.ssize, ?_, ?_, ?_, ?_, ?_⟩
    · rw [hf1 _ (by omega)]; exact hg.sentinel
    · intro e he'
      by_cases hei : e = i
      · subst hei; exact hdone
      · have hlt : e < i := by omega
        have h1 := succ_mul_le hlt (P.U + 1)
        have h2 := spillBefore_mono P ws len (show e + 1 ≤ i by omega)
        apply (hg.done e hlt).frame
        · intro k hk1 hk2; exact hf1 k (by omega)
        · intro k hk1 hk2
          apply hf2 k
          have : spillBefore P ws len (e + 1) = spillBefore P ws len e + spillSpec P ws len e := rfl
          omega
    · intro e he1 he2
      have h1 := succ_mul_le (show i < e by omega) (P.U + 1)
      rw [hf1 _ (by omega)]; exact hg.todoE e (by omega) he2
    · intro e he1 he2 k hk1 hk2
      have h1 := succ_mul_le (show i < e by omega) (P.U + 1)
      rw [hf1 _ (by omega)]; exact hg.todoZ e (by omega) he2 k hk1 hk2
    · intro k hk
      have : spillBefore P ws len (i + 1) = spillBefore P ws len i + spillSpec P ws len i := rfl
      rw [hf2 k (by omega)]; exact hg.szeros k (by omega)

end Sux.RS.Adapt
