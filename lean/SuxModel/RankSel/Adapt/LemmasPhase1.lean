import SuxModel.RankSel.Adapt.LemmasWord
/-!
# (B) phase 1 of the builder: one inventory entry every `K` ones, then the sentinel
-/
namespace Sux.RS.Adapt
open Sux.RS

theorem getD_push (ws : Array Nat) (v i : Nat) :
    (ws.push v).getD i 0 = if i = ws.size then v else ws.getD i 0 := by
  simp only [Array.getD_eq_getD_getElem?, Array.getElem?_push]
  by_cases h : i = ws.size
  · simp [h]
  · simp [h]

/-- the first `m` inventory entries as phase 1 writes them: position, then `U` zero words -/
structure Lay1 (P : Params) (ws : Array Nat) (len : Nat) (inv : Array Nat) (m : Nat) : Prop where
  size : inv.size = m * (P.U + 1)
  entry : ∀ e, e < m → inv.getD (e * (P.U + 1)) 0 = pos P ws len (e * P.K)
  zeros : ∀ e, e < m → ∀ k, 1 ≤ k → k ≤ P.U → inv.getD (e * (P.U + 1) + k) 0 = 0

theorem Lay1.empty (P : Params) (ws : Array Nat) (len : Nat) : Lay1 P ws len #[] 0 :=
  ⟨by simp, by intro e he; omega, by intro e he; omega⟩

theorem succ_mul_le {e m : Nat} (h : e < m) (c : Nat) : e * c + c ≤ m * c := by
  have := Nat.mul_le_mul_right c (show e + 1 ≤ m by omega)
  rw [Nat.add_mul, Nat.one_mul] at this
  exact this

theorem Lay1.push {P : Params} {ws : Array Nat} {len : Nat} {inv : Array Nat} {m : Nat}
    (h : Lay1 P ws len inv m) :
    Lay1 P ws len (inv.push (pos P ws len (m * P.K)) ++ Array.replicate P.U 0) (m + 1) := by
  have hs := h.size
  refine ⟨?_, ?_, ?_⟩
  · rw [Array.size_append, Array.size_push, Array.size_replicate, hs, Nat.add_mul, Nat.one_mul]; omega
  · intro e he
    rw [getD_append_replicate_zero, getD_push]
    by_cases hem : e = m
    · subst hem; rw [if_pos hs.symm]
    · have hlt : e < m := by omega
      have := succ_mul_le hlt (P.U + 1)
      rw [if_neg (by omega)]
      exact h.entry e hlt
  · intro e he k hk1 hk2
    rw [getD_append_replicate_zero, getD_push]
    by_cases hem : e = m
    · subst hem
      rw [if_neg (by omega)]
      exact getD_of_ge (by omega)
    · have hlt : e < m := by omega
      have := succ_mul_le hlt (P.U + 1)
      rw [if_neg (by omega)]
      exact h.zeros e hlt k hk1 hk2

section
variable (P : Params) (ws : Array Nat) (len : Nat)

/-- inner `while` of phase 1 -/
theorem phase1While_spec (i word pastOnes top : Nat)
    (hw : WordAt (polBit P.zero ws) i (64 * i) word)
    (hpo : pastOnes = min (count P ws len) (cnt (polBit P.zero ws) (64 * i)))
    (htop : top = min (count P ws len) (cnt (polBit P.zero ws) (64 * i + 64))) :
    ∀ (d m : Nat) (inv : Array Nat), top - m * P.K ≤ d → pastOnes ≤ m * P.K → m * P.K < top + P.K →
      Lay1 P ws len inv m →
      ∃ m' inv', phase1While P i word top pastOnes inv (m * P.K) = .ok (inv', m' * P.K) ∧
        top ≤ m' * P.K ∧ m' * P.K < top + P.K ∧ Lay1 P ws len inv' m' := by
  have hK := P.K_pos
  have hpa := hw.popc_add
  intro d
  induction d with
  | zero =>
    intro m inv hd h1 h2 hl
    refine ⟨m, inv, ?_, by omega, h2, hl⟩
    unfold phase1While
    rw [if_neg (by omega)]
  | succ d ih =>
    intro m inv hd h1 h2 hl
    by_cases hgt : top > m * P.K
    · unfold phase1While
      rw [if_pos hgt]
      have hk : m * P.K - pastOnes < popc word := by omega
      have hsel := hw.select hk
      have hpc : pastOnes = cnt (polBit P.zero ws) (64 * i) := by omega
      have hrank : cnt (polBit P.zero ws) (64 * i) + (m * P.K - pastOnes) = m * P.K := by omega
      rw [hrank] at hsel
      have hpos := pos_spec (P := P) (ws := ws) (len := len) (r := m * P.K) (by omega)
      have heq := hsel.2.2.unique hpos.at
      have hnlt : ¬ m * P.K < pastOnes := by omega
      simp only [subC, selectInWordC, bind, Out.bind, hnlt, hk, if_true, if_false]
      rw [show i * 64 + selectInWord word (m * P.K - pastOnes) = pos P ws len (m * P.K) by omega]
      have := ih (m + 1) _ (by rw [Nat.add_mul, Nat.one_mul]; omega) (by rw [Nat.add_mul, Nat.one_mul]; omega)
        (by rw [Nat.add_mul, Nat.one_mul]; omega) hl.push
      rw [Nat.add_mul, Nat.one_mul] at this
      exact this
    · refine ⟨m, inv, ?_, by omega, h2, hl⟩
      unfold phase1While
      rw [if_neg hgt]

/-- the word loop of phase 1 -/
theorem phase1Words_spec (hlen : len ≤ 64 * ws.size) :
    ∀ (d i m : Nat) (inv : Array Nat) (pastOnes : Nat), ws.size - i = d → i ≤ ws.size →
      pastOnes = min (count P ws len) (cnt (polBit P.zero ws) (64 * i)) →
      pastOnes ≤ m * P.K → m * P.K < pastOnes + P.K → Lay1 P ws len inv m →
      ∃ m' inv', phase1Words P ws (count P ws len) i inv pastOnes (m * P.K) = .ok (inv', count P ws len) ∧
        count P ws len ≤ m' * P.K ∧ m' * P.K < count P ws len + P.K ∧ Lay1 P ws len inv' m' := by
  intro d
  induction d with
  | zero =>
    intro i m inv pastOnes hd hi hpo h1 h2 hl
    have hi' : i = ws.size := by omega
    have hc := count_le_cnt_words P ws len hlen
    have hpn : pastOnes = count P ws len := by rw [hpo, hi']; omega
    refine ⟨m, inv, ?_, by omega, by omega, hl⟩
    unfold phase1Words
    rw [dif_neg (by omega), hpn]
  | succ d ih =>
    intro i m inv pastOnes hd hi hpo h1 h2 hl
    have hlt : i < ws.size := by omega
    unfold phase1Words
    rw [dif_pos hlt]
    have hw := wordAt_full P.zero ws i
    rw [getD_eq_getElem ws i hlt] at hw
    have hpa := hw.popc_add
    have hmono := cnt_mono (polBit P.zero ws) (show 64 * i ≤ 64 * i + 64 by omega)
    have hnlt : ¬ count P ws len < pastOnes := by omega
    simp only [subC, bind, Out.bind, hnlt, if_false]
    have htop : pastOnes + min (popc (polWord P.zero ws[i])) (count P ws len - pastOnes) =
        min (count P ws len) (cnt (polBit P.zero ws) (64 * i + 64)) := by omega
    obtain ⟨m', inv', he, h3, h4, hl'⟩ := phase1While_spec P ws len i _ pastOnes _ hw hpo htop
      _ m inv (Nat.le_refl _) h1 (by omega) hl
    rw [he]
    simp only []
    rw [htop]
    exact ih (i + 1) m' inv' _ (by omega) (by omega) (by rw [Nat.mul_add]) (by omega) (by omega) hl'

end

/-- **phase 1 is correct**: it does not panic and produces the positions of the ones of rank `i·K`,
zeroed subinventories and the sentinel -/
theorem phase1_spec (P : Params) (ws : Array Nat) (len : Nat) (hlen : len ≤ 64 * ws.size) :
    ∃ inv, phase1 P ws len (count P ws len) = .ok inv ∧
      inv.size = invSize P ws len * (P.U + 1) + 1 ∧
      inv.getD (invSize P ws len * (P.U + 1)) 0 = max 1 len ∧
      (∀ e, e < invSize P ws len → inv.getD (e * (P.U + 1)) 0 = pos P ws len (e * P.K)) ∧
      (∀ e, e < invSize P ws len → ∀ k, 1 ≤ k → k ≤ P.U → inv.getD (e * (P.U + 1) + k) 0 = 0) := by
  obtain ⟨m', inv', he, h1, h2, hl⟩ := phase1Words_spec P ws len hlen _ 0 0 #[] 0 rfl (by omega)
    (by simp) (by omega) (by have := P.K_pos; omega) (Lay1.empty P ws len)
  have hm : invSize P ws len = m' := divCeil_unique P.K_pos h1 h2
  rw [Nat.zero_mul] at he
  unfold phase1
  simp only [bind, Out.bind, he]
  rw [if_neg (by simp)]
  have hs := hl.size
  rw [if_neg (by rw [Array.size_push, hs]; show ¬ (m' * (P.U + 1) + 1 ≠ invSize P ws len * (P.U + 1) + 1); rw [hm]; simp)]
  refine ⟨_, rfl, ?_, ?_, ?_, ?_⟩
  · rw [Array.size_push, hs, hm]
  · rw [getD_push, hm, if_pos hs.symm]
  · intro e he'
    rw [hm] at he'
    have := succ_mul_le he' (P.U + 1)
    rw [getD_push, if_neg (by omega)]
    exact hl.entry e he'
  · intro e he' k hk1 hk2
    rw [hm] at he'
    have := succ_mul_le he' (P.U + 1)
    rw [getD_push, if_neg (by omega)]
    exact hl.zeros e he' k hk1 hk2

end Sux.RS.Adapt
