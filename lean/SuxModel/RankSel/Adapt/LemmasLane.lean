import SuxModel.RankSel.Adapt.LemmasWord
/-!
# Little-endian lanes: `lane`, `setLane`, and lane views over arrays
-/
namespace Sux.RS.Adapt
open Sux.RS

theorem testBit_lane (b w j i : Nat) :
    (lane b w j).testBit i = (decide (i < b) && w.testBit (b * j + i)) := by
  unfold lane
  rw [Nat.testBit_mod_two_pow, Nat.testBit_shiftRight]

theorem lane_lt (b w j : Nat) : lane b w j < 2 ^ b := by
  unfold lane; exact Nat.mod_lt _ (Nat.two_pow_pos b)

theorem lane_zero (b j : Nat) : lane b 0 j = 0 := by
  unfold lane; simp

theorem testBit_setLane (b w j v i : Nat) :
    (setLane b w j v).testBit i =
      if b * j ≤ i ∧ i < b * j + b then v.testBit (i - b * j) else w.testBit i := by
  unfold setLane
  rw [Nat.testBit_xor, Nat.testBit_shiftLeft, Nat.testBit_xor, testBit_lane, Nat.testBit_mod_two_pow]
  by_cases h1 : b * j ≤ i
  · by_cases h2 : i < b * j + b
    · have h3 : i - b * j < b := by omega
      have h4 : b * j + (i - b * j) = i := by omega
      simp only [ge_iff_le, h1, decide_true, h3, h4, Bool.true_and, h2, and_self, if_true]
      cases w.testBit i <;> cases v.testBit (i - b * j) <;> rfl
    · have h3 : ¬ i - b * j < b := by omega
      simp [h1, h2, h3]
  · simp [h1]

theorem lane_setLane_same (b w j v : Nat) : lane b (setLane b w j v) j = v % 2 ^ b := by
  apply Nat.eq_of_testBit_eq
  intro i
  rw [testBit_lane, testBit_setLane, Nat.testBit_mod_two_pow]
  by_cases h : i < b
  · have : b * j ≤ b * j + i ∧ b * j + i < b * j + b := by omega
    rw [if_pos this]
    simp [h]
  · simp [h]

theorem lane_setLane_other (b w j j' v : Nat) (h : j' ≠ j) :
    lane b (setLane b w j v) j' = lane b w j' := by
  apply Nat.eq_of_testBit_eq
  intro i
  rw [testBit_lane, testBit_lane, testBit_setLane]
  by_cases hi : i < b
  · have : ¬ (b * j ≤ b * j' + i ∧ b * j' + i < b * j + b) := by
      rcases Nat.lt_or_gt_of_ne h with hlt | hgt
      · have := Nat.mul_le_mul_left b (show j' + 1 ≤ j by omega)
        rw [Nat.mul_succ] at this
        omega
      · have := Nat.mul_le_mul_left b (show j + 1 ≤ j' by omega)
        rw [Nat.mul_succ] at this
        omega
    rw [if_neg this]
  · simp [hi]

/-! ## lane views over arrays: slot `j` of the view starting at word `base`, `per` lanes per word -/

/-- raw content of slot `j` -/
def slotLane (b per : Nat) (a : Array Nat) (base j : Nat) : Nat :=
  lane b (a.getD (base + j / per) 0) (j % per)

theorem div_mod_eq_of {per j j' : Nat} (h1 : j / per = j' / per) (h2 : j % per = j' % per) : j = j' := by
  have := Nat.div_add_mod j per
  have := Nat.div_add_mod j' per
  rw [h1, h2] at *
  omega

/-- slots after one lane write -/
theorem slotLane_write (b per : Nat) (a : Array Nat) (base j v j' : Nat)
    (hin : base + j / per < a.size) :
    slotLane b per (a.setIfInBounds (base + j / per)
        (setLane b (a.getD (base + j / per) 0) (j % per) v)) base j'
      = if j' = j then v % 2 ^ b else slotLane b per a base j' := by
  unfold slotLane
  rw [getD_setIfInBounds]
  by_cases hw : j' / per = j / per
  · rw [if_pos ⟨by omega, hin⟩]
    by_cases hl : j' % per = j % per
    · have := div_mod_eq_of hw hl
      subst this
      rw [if_pos rfl, lane_setLane_same]
    · have hne : j' ≠ j := fun e => hl (by rw [e])
      rw [if_neg hne, lane_setLane_other _ _ _ _ _ hl, hw]
  · have hne : j' ≠ j := fun e => hw (by rw [e])
    rw [if_neg (by omega), if_neg hne]

theorem writeLaneS_eq (b per : Nat) (a : Array Nat) (base n j v : Nat)
    (hj : j < per * n) (hin : base + j / per < a.size) :
    writeLaneS b per a base n j v =
      .ok (a.setIfInBounds (base + j / per) (setLane b (a.getD (base + j / per) 0) (j % per) v)) := by
  unfold writeLaneS
  rw [if_pos hj, readS_getD hin]
  rfl

theorem readLaneS_eq (b per : Nat) (a : Array Nat) (base n j : Nat)
    (hj : j < per * n) (hin : base + j / per < a.size) :
    readLaneS b per a base n j = .ok (slotLane b per a base j) := by
  unfold readLaneS slotLane
  rw [if_pos hj, readS_getD hin]
  rfl

end Sux.RS.Adapt
