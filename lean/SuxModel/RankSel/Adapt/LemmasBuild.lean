import SuxModel.RankSel.Adapt.LemmasPhase2All
/-!
# (B) the builder establishes `AdaptInvOK`
-/
namespace Sux.RS.Adapt
open Sux.RS

/-- the loop invariant after the last entry is the query invariant -/
theorem GInv.toInvOK {P : Params} {ws : Array Nat} {len : Nat} {inv spill : Array Nat}
    (h : GInv P ws len inv spill (invSize P ws len)) (h62 : max 1 len < 2 ^ 62) :
    AdaptInvOK P { inv := inv, spill := spill } ws len := by
  refine ⟨h62, h.size, h.sentinel, ?_, ?_, ?_, ?_⟩
  · intro i hi; exact (h.done i hi).entry
  · intro i hi hty j _ hj
    have := (h.done i hi).s16 hty j hj
    unfold slotLane at this
    exact this
  · intro i hi hty j _ hj
    have hd := h.done i hi
    have h1 := hd.s32 hty j hj
    have hptr := hd.ptr (by rw [hty]; simp)
    unfold slotRaw32 slotLane at h1
    show if j < (P.U - 1) * 2 then _ else _
    by_cases hloc : j < (P.U - 1) * 2
    · rw [if_pos hloc] at h1 ⊢; exact h1
    · rw [if_neg hloc] at h1 ⊢
      show inv.getD (i * (P.U + 1) + 1) 0 + (j - (P.U - 1) * 2) / 2 < spill.size ∧ _
      rw [hptr]
      refine ⟨?_, h1⟩
      have hb := spill32_bound hty hj hloc
      have hm := spillBefore_mono P ws len (show i + 1 ≤ invSize P ws len by omega)
      have : spillBefore P ws len (i + 1) = spillBefore P ws len i + spillSpec P ws len i := rfl
      rw [h.ssize]; omega
  · intro i hi hty s _ hs1 hs
    have hd := h.done i hi
    have h1 := hd.s64 hty s hs1 hs
    have hptr := hd.ptr (by rw [hty]; simp)
    unfold slotRaw64 at h1
    unfold Sub64At
    by_cases hloc : s < P.U
    · rw [if_pos hloc] at h1 ⊢; exact h1
    · rw [if_neg hloc] at h1 ⊢
      show inv.getD (i * (P.U + 1) + 1) 0 + s - P.U < spill.size ∧ _
      rw [hptr]
      refine ⟨?_, h1⟩
      have hb := spill64_bound hty hs hloc
      have hm := spillBefore_mono P ws len (show i + 1 ≤ invSize P ws len by omega)
      have : spillBefore P ws len (i + 1) = spillBefore P ws len i + spillSpec P ws len i := rfl
      rw [h.ssize]; omega

/-- **(B) the builder never fails and establishes the invariant** -/
theorem build_spec (P : Params) (ws : Array Nat) (len : Nat) (hL : P.L < 64) (hM : P.M < 64)
    (hlen : len ≤ 64 * ws.size) (h62 : max 1 len < 2 ^ 62) :
    ∃ idx, build P ws len (count P ws len) = .ok idx ∧ AdaptInvOK P idx ws len := by
  obtain ⟨inv1, he1, hsz, hsent, hent, hz⟩ := phase1_spec P ws len hlen
  have hph1 : Ph1 P ws len inv1 := ⟨hsz, hsent, hent, hz⟩
  have hsl := spillLoop_spec P ws len inv1 hph1 _ 0 rfl (Nat.zero_le _)
  have hg0 : GInv P ws len inv1 (Array.replicate (spillBefore P ws len (invSize P ws len)) 0) 0 := by
    refine ⟨hsz, by simp, hsent, ?_, fun e _ he => hent e he, fun e _ he => hz e he, ?_⟩
    · intro e he; omega
    · intro k _; rw [getD_replicate]; split <;> rfl
  obtain ⟨inv', spill', he2, hg⟩ := phase2Loop_spec P ws len hlen _ 0 _ _ rfl (Nat.zero_le _) hg0
  refine ⟨{ inv := inv', spill := spill' }, ?_, hg.toInvOK h62⟩
  unfold build
  rw [if_neg (by omega)]
  simp only [bind, Out.bind, he1]
  have hsl' : spillLoop P inv1 (max 1 len) (count P ws len) ((count P ws len + P.K - 1) / P.K) 0 0
      = .ok (spillBefore P ws len (invSize P ws len)) := hsl
  rw [hsl']
  simp only []
  have he2' : phase2Loop P ws (count P ws len) (spillBefore P ws len (invSize P ws len))
      ((count P ws len + P.K - 1) / P.K) 0 inv1
      (Array.replicate (spillBefore P ws len (invSize P ws len)) 0) 0
      = .ok (inv', spill', spillBefore P ws len (invSize P ws len)) := he2
  rw [he2']
  simp only [ne_eq, not_true_eq_false, if_false, pure]

/-! ## constructors -/

theorem polBit_false' (ws : Array Nat) : polBit false ws = bitAt 64 ws := by
  funext k; simp [polBit]

theorem polBit_true' (ws : Array Nat) : polBit true ws = fun k => !bitAt 64 ws k := by
  funext k; simp [polBit]

/-- `count_ones()` / `count_zeros()` of the wrapped structure is the number of selectable bits -/
theorem countOf_spec (P : Params) (ws : Array Nat) (len : Nat) :
    countOf P.zero len (numOnes ws len) = .ok (count P ws len) := by
  unfold countOf count
  have h := numZeros_add_numOnes ws len
  cases hz : P.zero
  · simp only [Bool.false_eq_true, if_false]
    rw [polBit_false', numOnes_eq_cnt]
  · simp only [if_true, subC]
    rw [if_neg (by omega), polBit_true', ← numZeros_eq_cnt]
    congr 1; omega

theorem buildConst_spec (zero : Bool) (l m : Nat) (ws : Array Nat) (len : Nat) (hl : l < 64) (hm : m < 64)
    (hlen : len ≤ 64 * ws.size) (h62 : max 1 len < 2 ^ 62) :
    ∃ idx, buildConst zero l m ws len (numOnes ws len) = .ok (paramsConst zero l m, idx) ∧
      AdaptInvOK (paramsConst zero l m) idx ws len := by
  obtain ⟨idx, he, hinv⟩ := build_spec (paramsConst zero l m) ws len hl hm hlen h62
  refine ⟨idx, ?_, hinv⟩
  unfold buildConst
  have := countOf_spec (paramsConst zero l m) ws len
  simp only [paramsConst] at this
  simp only [bind, Out.bind, this]
  simp only [paramsConst] at he
  simp only [paramsConst, he, pure]

/-- `with_inv(bits, l, max_m)` -/
theorem buildRun_inv_spec (zero : Bool) (l maxM : Nat) (ws : Array Nat) (len : Nat) (hl : l < 64)
    (hlen : len ≤ 64 * ws.size) (h62 : max 1 len < 2 ^ 62) :
    ∃ idx, buildRun zero "inv" l maxM ws len (numOnes ws len) = .ok (paramsRun zero l maxM, idx) ∧
      AdaptInvOK (paramsRun zero l maxM) idx ws len := by
  obtain ⟨idx, he, hinv⟩ := build_spec (paramsRun zero l maxM) ws len hl
    (by simp only [paramsRun]; omega) hlen h62
  refine ⟨idx, ?_, hinv⟩
  unfold buildRun
  have := countOf_spec (paramsRun zero l maxM) ws len
  simp only [paramsRun] at this
  simp only [bind, Out.bind, this]
  have hs : ("inv" == "inv") = true := by decide
  simp only [hs, if_true, pure]
  simp only [paramsRun] at he
  simp only [paramsRun, he]

theorem divCeil_le_self (a b : Nat) (hb : 0 < b) : (a + b - 1) / b ≤ a := by
  have : (a + b - 1) / b < a + 1 := by
    rw [Nat.div_lt_iff_lt_mul hb]
    have := Nat.le_mul_of_pos_right a hb
    rw [Nat.add_mul, Nat.one_mul]
    omega
  omega

/-- the `log2_ones_per_inventory` computed by `with_span` stays below 64 when the product does not
overflow -/
theorem log2ForSpan_spec (len cnt span : Nat) (h : cnt * span < 2 ^ 64) :
    ∃ l, log2ForSpan len cnt span = .ok l ∧ l < 64 := by
  unfold log2ForSpan
  simp only []
  rw [if_neg (by omega)]
  refine ⟨_, rfl, ?_⟩
  have h1 := divCeil_le_self (cnt * span) (max 1 len) (by omega)
  rw [Nat.log2_lt (by omega)]
  omega

/-- `new(bits, max_m)` (`how = "new"`, span 8192) and `with_span(bits, span, max_m)` (any other `how`) -/
theorem buildRun_span_spec (zero : Bool) (how : String) (p1 maxM : Nat) (ws : Array Nat) (len : Nat)
    (hhow : (how == "inv") = false)
    (hov : count (paramsRun zero 0 0) ws len * (if how == "new" then 8192 else p1) < 2 ^ 64)
    (hlen : len ≤ 64 * ws.size) (h62 : max 1 len < 2 ^ 62) :
    ∃ l idx, buildRun zero how p1 maxM ws len (numOnes ws len) = .ok (paramsRun zero l maxM, idx) ∧
      log2ForSpan len (count (paramsRun zero 0 0) ws len) (if how == "new" then 8192 else p1) = .ok l ∧
      AdaptInvOK (paramsRun zero l maxM) idx ws len := by
  obtain ⟨l, hl, hl64⟩ := log2ForSpan_spec len _ _ hov
  obtain ⟨idx, he, hinv⟩ := build_spec (paramsRun zero l maxM) ws len hl64
    (by simp only [paramsRun]; omega) hlen h62
  refine ⟨l, idx, ?_, hl, hinv⟩
  unfold buildRun
  have hc := countOf_spec (paramsRun zero 0 0) ws len
  simp only [paramsRun] at hc
  have hcnt : count (paramsRun zero l maxM) ws len = count (paramsRun zero 0 0) ws len := rfl
  simp only [bind, Out.bind, hc, hhow, Bool.false_eq_true, if_false]
  cases hn : (how == "new")
  · rw [hn] at hl
    simp only [Bool.false_eq_true, if_false] at hl ⊢
    simp only [paramsRun] at hl
    rw [hl]
    simp only [pure]
    rw [hcnt] at he
    simp only [paramsRun] at he
    simp only [paramsRun, he]
  · rw [hn] at hl
    simp only [if_true] at hl ⊢
    simp only [paramsRun] at hl
    rw [hl]
    simp only [pure]
    rw [hcnt] at he
    simp only [paramsRun] at he
    simp only [paramsRun, he]

end Sux.RS.Adapt
