import SuxModel.RankSel.Adapt.LemmasLane
/-!
# (B) phase 2, generic part: the word / quantum loops of one inventory entry

The loops are independent of how a quantum is stored; that part is abstracted by a predicate
`Slots s t` ("the state `s` has its first `t` slots filled and is otherwise consistent") with the
single obligation `StoreOK` on `storeQuantum`.
-/
namespace Sux.RS.Adapt
open Sux.RS

/-- facts fixed while inventory entry `i` is processed -/
structure EntryFacts (P : Params) (ws : Array Nat) (len : Nat) (C : Ctx) (i : Nat) : Prop where
  hi : i < invSize P ws len
  hP : C.P = P
  hn : C.numOnes = count P ws len
  hstart : C.startBit = pos P ws len (i * P.K)
  hend : C.endBit = nextPos P ws len i
  hq : C.log2q ≤ P.L
  hew : C.endWordIdx = (C.endBit + 63) / 64
  hlen : len ≤ 64 * ws.size

/-- the obligation of the storage part -/
def StoreOK (P : Params) (ws : Array Nat) (len : Nat) (C : Ctx) (i : Nat) (Slots : Loop → Nat → Prop) : Prop :=
  ∀ s t, Slots s t → 1 ≤ t → t * 2 ^ C.log2q < onesIn P ws len i →
    ∃ s' stop, storeQuantum C s (pos P ws len (i * P.K + t * 2 ^ C.log2q))
        (pos P ws len (i * P.K + t * 2 ^ C.log2q) - pos P ws len (i * P.K)) = .ok (s', stop) ∧
      s'.nextQ = s.nextQ ∧ Slots s' (t + 1) ∧ (stop = true → P.K ≤ (t + 1) * 2 ^ C.log2q)

/-- `Slots` does not look at `nextQ` -/
def NextQFree (Slots : Loop → Nat → Prop) : Prop :=
  ∀ s t x, Slots s t → Slots { s with nextQ := x } t

theorem pow_step {a L t : Nat} (ha : a ≤ L) (h : t * 2 ^ a < 2 ^ L) : (t + 1) * 2 ^ a ≤ 2 ^ L := by
  have hL : 2 ^ L = 2 ^ (L - a) * 2 ^ a := by rw [← Nat.pow_add]; congr 1; omega
  rw [hL] at h ⊢
  have := Nat.lt_of_mul_lt_mul_right h
  exact Nat.mul_le_mul_right _ this

theorem invSize_mul_ge (P : Params) (ws : Array Nat) (len : Nat) :
    count P ws len ≤ invSize P ws len * P.K := le_divCeil_mul _ _ P.K_pos

/-- ranks below the end of the span of entry `i` -/
theorem rank_lt_next {P : Params} {ws : Array Nat} {len i r : Nat} (_hi : i < invSize P ws len)
    (hr : r < count P ws len) (hp : pos P ws len r < nextPos P ws len i) : r < (i + 1) * P.K := by
  unfold nextPos at hp
  by_cases hn : i + 1 < invSize P ws len
  · rw [if_pos hn] at hp
    apply Nat.lt_of_not_le
    intro hge
    have h1 := pos_spec (mul_K_lt_count hn)
    have h2 := pos_spec hr
    have := h1.at.le_of_le h2.at hge
    omega
  · have : i + 1 = invSize P ws len := by omega
    rw [this]
    have := invSize_mul_ge P ws len
    omega

theorem next_le_of_rank_ge {P : Params} {ws : Array Nat} {len i r : Nat} (_hi : i < invSize P ws len)
    (hr : r < count P ws len) (hp : nextPos P ws len i ≤ pos P ws len r) : (i + 1) * P.K ≤ r := by
  unfold nextPos at hp
  by_cases hn : i + 1 < invSize P ws len
  · rw [if_pos hn] at hp
    apply Nat.le_of_not_lt
    intro hlt
    have h1 := pos_spec (mul_K_lt_count hn)
    have h2 := pos_spec hr
    have := h2.at.lt_of_lt h1.at hlt
    omega
  · rw [if_neg hn] at hp
    have := (pos_spec hr).1
    omega

theorem onesIn_le_K (P : Params) (ws : Array Nat) (len i : Nat) : onesIn P ws len i ≤ P.K := by
  unfold onesIn; omega

/-- the count at the end of the span is what the loop needs to know when it runs out of words -/
theorem cnt_nextPos {P : Params} {ws : Array Nat} {len i : Nat} (_hi : i < invSize P ws len) :
    min (count P ws len) ((i + 1) * P.K) ≤ cnt (polBit P.zero ws) (nextPos P ws len i) := by
  unfold nextPos
  by_cases hn : i + 1 < invSize P ws len
  · rw [if_pos hn]
    have h1 := pos_spec (mul_K_lt_count hn)
    rw [h1.2.2]; omega
  · rw [if_neg hn]
    have : count P ws len ≤ cnt (polBit P.zero ws) (max 1 len) := cnt_mono _ (by omega)
    omega

section
variable {P : Params} {ws : Array Nat} {len : Nat} {C : Ctx} {i : Nat}
variable {Slots : Loop → Nat → Prop}

/-- result of the quantum loop -/
def FlowPost (P : Params) (ws : Array Nat) (len : Nat) (C : Ctx) (i : Nat) (Slots : Loop → Nat → Prop)
    (top : Nat) : Flow → Prop
  | .brk s' => ∃ t', Slots s' t' ∧ onesIn P ws len i ≤ t' * 2 ^ C.log2q ∧
      (t' - 1) * 2 ^ C.log2q < onesIn P ws len i ∧ 1 ≤ t'
  | .cont s' => ∃ t', Slots s' t' ∧ s'.nextQ = i * P.K + t' * 2 ^ C.log2q ∧ top ≤ s'.nextQ ∧
      t' * 2 ^ C.log2q ≤ P.K ∧ (t' - 1) * 2 ^ C.log2q < onesIn P ws len i ∧ 1 ≤ t'

/-- the quantum loop inside one word -/
theorem phase2While_spec (E : EntryFacts P ws len C i) (hS : StoreOK P ws len C i Slots)
    (hF : NextQFree Slots) (wordIdx lo word pastOnes top : Nat)
    (hw : WordAt (polBit P.zero ws) wordIdx lo word)
    (hpo : pastOnes = min (count P ws len) (cnt (polBit P.zero ws) lo))
    (htop : top = min (count P ws len) (cnt (polBit P.zero ws) (64 * wordIdx + 64))) :
    ∀ (d : Nat) (s : Loop) (t : Nat), top - s.nextQ ≤ d → Slots s t →
      s.nextQ = i * P.K + t * 2 ^ C.log2q → pastOnes ≤ s.nextQ → t * 2 ^ C.log2q ≤ P.K →
      (t - 1) * 2 ^ C.log2q < onesIn P ws len i → 1 ≤ t →
      ∃ fl, phase2While C wordIdx word top pastOnes s = .ok fl ∧ FlowPost P ws len C i Slots top fl := by
  have hK := P.K_pos
  have hq : 0 < 2 ^ C.log2q := Nat.two_pow_pos _
  have hpa := hw.popc_add
  have hi := E.hi
  have hp0 := pos_spec (mul_K_lt_count hi)
  intro d
  induction d with
  | zero =>
    intro s t hd hsl hnq h1 h2 h3 h4
    refine ⟨.cont s, ?_, t, hsl, hnq, by omega, h2, h3, h4⟩
    unfold phase2While
    rw [if_neg (by omega)]
  | succ d ih =>
    intro s t hd hsl hnq h1 h2 h3 h4
    by_cases hgt : top > s.nextQ
    · -- one more quantum in this word
      have hrn : s.nextQ < count P ws len := by omega
      have hpc : pastOnes = cnt (polBit P.zero ws) lo := by omega
      have hk : s.nextQ - pastOnes < popc word := by omega
      have hsel := hw.select hk
      have hrank : cnt (polBit P.zero ws) lo + (s.nextQ - pastOnes) = s.nextQ := by omega
      rw [hrank] at hsel
      have hpos := pos_spec hrn
      have heq := hsel.2.2.unique hpos.at
      have hbi : wordIdx * 64 + selectInWord word (s.nextQ - pastOnes) = pos P ws len s.nextQ := by omega
      -- rank ≤ position, used by the debug assertion
      have hle_end : s.nextQ ≤ C.endBit := by
        rw [E.hend]
        unfold nextPos
        by_cases hn : i + 1 < invSize P ws len
        · rw [if_pos hn]
          have h5 := (pos_spec (mul_K_lt_count hn)).at.rank_le
          have h6 : (i + 1) * P.K = i * P.K + P.K := by rw [Nat.add_mul, Nat.one_mul]
          omega
        · rw [if_neg hn]
          have := cnt_le (polBit P.zero ws) len
          unfold count at hrn
          omega
      have hmono : pos P ws len (i * P.K) ≤ pos P ws len s.nextQ :=
        hp0.at.le_of_le hpos.at (by omega)
      unfold phase2While
      rw [if_pos hgt]
      have hn1 : ¬ s.nextQ > C.endBit := by omega
      have hn2 : ¬ s.nextQ < pastOnes := by omega
      simp only [subC, selectInWordC, bind, Out.bind, hn1, hn2, hk, if_true, if_false, hbi, pure]
      by_cases hbrk : pos P ws len s.nextQ ≥ C.endBit
      · -- exit (a)
        rw [if_pos hbrk]
        refine ⟨_, rfl, t, hsl, ?_, h3, h4⟩
        rw [E.hend] at hbrk
        have := next_le_of_rank_ge hi hrn hbrk
        rw [Nat.add_mul, Nat.one_mul] at this
        have := onesIn_le_K P ws len i
        omega
      · rw [if_neg hbrk]
        have hlt_end : pos P ws len s.nextQ < nextPos P ws len i := by rw [← E.hend]; omega
        have hrk := rank_lt_next hi hrn hlt_end
        rw [Nat.add_mul, Nat.one_mul] at hrk
        have htq : t * 2 ^ C.log2q < onesIn P ws len i := by unfold onesIn; omega
        obtain ⟨s', stop, hst, hnq', hsl', hstop⟩ := hS s t hsl h4 htq
        have hn3 : ¬ pos P ws len s.nextQ < C.startBit := by rw [E.hstart]; omega
        rw [if_neg hn3, E.hstart, hnq]
        simp only []
        rw [hst]
        simp only []
        cases hsb : stop
        · -- continue
          simp only [Bool.false_eq_true, if_false]
          have hstep : (t + 1) * 2 ^ C.log2q ≤ P.K := by
            have htK : t * 2 ^ C.log2q < P.K := by omega
            unfold Params.K at htK ⊢
            exact pow_step E.hq htK
          have := ih { s' with nextQ := i * P.K + t * 2 ^ C.log2q + 2 ^ C.log2q } (t + 1)
            (by simp only []; omega) (hF _ _ _ hsl')
            (by simp only []; rw [Nat.add_mul, Nat.one_mul]; omega)
            (by simp only []; omega) hstep (by simpa using htq) (by omega)
          exact this
        · -- exit (b) / (c)
          simp only [if_true]
          refine ⟨_, rfl, t + 1, hsl', ?_, by simpa using htq, by omega⟩
          have := hstop hsb
          have := onesIn_le_K P ws len i
          omega
    · refine ⟨.cont s, ?_, t, hsl, hnq, by omega, h2, h3, h4⟩
      unfold phase2While
      rw [if_neg hgt]

theorem nextPos_le (P : Params) (ws : Array Nat) (len i : Nat) (hi : i < invSize P ws len) :
    nextPos P ws len i ≤ len := by
  unfold nextPos
  by_cases hn : i + 1 < invSize P ws len
  · rw [if_pos hn]
    exact Nat.le_of_lt (pos_spec (mul_K_lt_count hn)).1
  · rw [if_neg hn]
    have h1 := mul_K_lt_count hi
    have h2 : count P ws len ≤ len := cnt_le _ _
    omega

/-- the word loop of one entry: on exit every slot the query can address has been stored, and no
slot beyond -/
theorem phase2Words_spec (E : EntryFacts P ws len C i) (hS : StoreOK P ws len C i Slots)
    (hF : NextQFree Slots) :
    ∀ (d wordIdx lo word pastOnes : Nat) (s : Loop) (t : Nat), C.endWordIdx - wordIdx ≤ d →
      WordAt (polBit P.zero ws) wordIdx lo word →
      pastOnes = min (count P ws len) (cnt (polBit P.zero ws) lo) → wordIdx < C.endWordIdx →
      Slots s t → s.nextQ = i * P.K + t * 2 ^ C.log2q → pastOnes ≤ s.nextQ →
      t * 2 ^ C.log2q ≤ P.K → (t - 1) * 2 ^ C.log2q < onesIn P ws len i → 1 ≤ t →
      ∃ s' t', phase2Words C ws wordIdx word pastOnes s = .ok s' ∧ Slots s' t' ∧
        onesIn P ws len i ≤ t' * 2 ^ C.log2q ∧ (t' - 1) * 2 ^ C.log2q < onesIn P ws len i ∧ 1 ≤ t' := by
  have hi := E.hi
  intro d
  induction d with
  | zero => intro wordIdx lo word pastOnes s t hd; omega
  | succ d ih =>
    intro wordIdx lo word pastOnes s t hd hw hpo hwi hsl hnq h1 h2 h3 h4
    have hpa := hw.popc_add
    have hmono := cnt_mono (polBit P.zero ws) hw.lo_le
    unfold phase2Words
    have hnlt : ¬ C.numOnes < pastOnes := by rw [E.hn]; omega
    simp only [subC, bind, Out.bind, hnlt, if_false]
    have htop : pastOnes + min (popc word) (C.numOnes - pastOnes) =
        min (count P ws len) (cnt (polBit P.zero ws) (64 * wordIdx + 64)) := by rw [E.hn]; omega
    obtain ⟨fl, he, hpost⟩ := phase2While_spec E hS hF wordIdx lo word pastOnes _ hw hpo htop
      _ s t (Nat.le_refl _) hsl hnq h1 h2 h3 h4
    rw [he]
    simp only []
    cases fl with
    | brk s' =>
      obtain ⟨t', hs', h5, h6, h7⟩ := hpost
      exact ⟨s', t', rfl, hs', h5, h6, h7⟩
    | cont s' =>
      obtain ⟨t', hs', hnq', h5, h6, h7, h8⟩ := hpost
      simp only []
      by_cases hlast : wordIdx + 1 = C.endWordIdx
      · rw [if_pos hlast]
        refine ⟨s', t', rfl, hs', ?_, h7, h8⟩
        have hc := cnt_nextPos (P := P) (ws := ws) (len := len) hi
        have hge : nextPos P ws len i ≤ 64 * wordIdx + 64 := by
          have := E.hew; rw [E.hend] at this; omega
        have := cnt_mono (polBit P.zero ws) hge
        rw [Nat.add_mul, Nat.one_mul] at hc
        unfold onesIn
        omega
      · rw [if_neg hlast]
        have hnl := nextPos_le P ws len i hi
        have hsz : wordIdx + 1 < ws.size := by
          have := E.hew; rw [E.hend] at this
          have := E.hlen
          omega
        rw [dif_pos hsz]
        have hw' := wordAt_full P.zero ws (wordIdx + 1)
        rw [getD_eq_getElem ws _ hsz] at hw'
        rw [E.hP] at *
        exact ih (wordIdx + 1) _ _ _ s' t' (by omega) hw'
          (by rw [htop, Nat.mul_add]) (by omega) hs' hnq' (by omega) h6 h7 h8

end

end Sux.RS.Adapt
