import SuxModel.RankSel.Adapt.LemmasPhase2Store
/-!
# (B) phase 2: one inventory entry (`phase2Entry`)
-/
namespace Sux.RS.Adapt
open Sux.RS

/-- state of the arrays just before entry `i` is processed -/
structure PreEntry (P : Params) (ws : Array Nat) (len : Nat) (S : Nat) (inv spill : Array Nat)
    (spilled i : Nat) : Prop where
  hi : i < invSize P ws len
  size : inv.size = invSize P ws len * (P.U + 1) + 1
  start : inv.getD (i * (P.U + 1)) 0 = pos P ws len (i * P.K)
  zeros : ∀ k, 1 ≤ k → k ≤ P.U → inv.getD (i * (P.U + 1) + k) 0 = 0
  next : inv.getD (i * (P.U + 1) + (P.U + 1)) 0 = nextPos P ws len i
  ssize : spill.size = S
  room : spilled + spillSpec P ws len i ≤ S
  szeros : ∀ k, spilled ≤ k → spill.getD k 0 = 0

/-- what entry `i` looks like once processed (`sp0` = spill pointer of the entry) -/
structure Done (P : Params) (ws : Array Nat) (len : Nat) (inv spill : Array Nat) (sp0 i : Nat) : Prop where
  entry : inv.getD (i * (P.U + 1)) 0 = pos P ws len (i * P.K) ||| tagOf (spanOf P ws len i)
  ptr : SpanType.fromSpan (spanOf P ws len i) ≠ .u16 → inv.getD (i * (P.U + 1) + 1) 0 = sp0
  s16 : SpanType.fromSpan (spanOf P ws len i) = .u16 → ∀ j, j * 2 ^ P.s16 < onesIn P ws len i →
    slotLane 16 4 inv (i * (P.U + 1) + 1) j
      = pos P ws len (i * P.K + j * 2 ^ P.s16) - pos P ws len (i * P.K)
  s32 : SpanType.fromSpan (spanOf P ws len i) = .u32 →
    ∀ j, j * 2 ^ l32Of P ws len i < onesIn P ws len i →
      slotRaw32 P i sp0 inv spill j
        = pos P ws len (i * P.K + j * 2 ^ l32Of P ws len i) - pos P ws len (i * P.K)
  s64 : SpanType.fromSpan (spanOf P ws len i) = .u64 → ∀ j, 1 ≤ j → j < onesIn P ws len i →
    slotRaw64 P i sp0 inv spill j = pos P ws len (i * P.K + j)

theorem onesIn_pos {P : Params} {ws : Array Nat} {len i : Nat} (hi : i < invSize P ws len) :
    0 < onesIn P ws len i := by
  have := mul_K_lt_count hi
  have := P.K_pos
  unfold onesIn; omega

section
variable {P : Params} {ws : Array Nat} {len : Nat} {C : Ctx} {i : Nat}
variable {Slots : Loop → Nat → Prop}

/-- the loops of one entry, started as `phase2Entry` starts them -/
theorem phase2Words_entry (E : EntryFacts P ws len C i) (hS : StoreOK P ws len C i Slots)
    (hF : NextQFree Slots) (s0 : Loop) (h0 : Slots s0 1)
    (hnq : s0.nextQ = i * P.K + 2 ^ C.log2q) :
    ∃ s' t', phase2Words C ws (pos P ws len (i * P.K) / 64)
        ((polWord P.zero (ws.getD (pos P ws len (i * P.K) / 64) 0) >>> (pos P ws len (i * P.K) % 64))
          <<< (pos P ws len (i * P.K) % 64)) (i * P.K) s0 = .ok s' ∧ Slots s' t' ∧
      onesIn P ws len i ≤ t' * 2 ^ C.log2q ∧ (t' - 1) * 2 ^ C.log2q < onesIn P ws len i ∧ 1 ≤ t' := by
  have hi := E.hi
  have hp0 := pos_spec (mul_K_lt_count hi)
  have hones := onesIn_pos hi
  have hlt := pos_lt_nextPos hi (s := 0) hones
  rw [Nat.add_zero] at hlt
  have hq : 0 < 2 ^ C.log2q := Nat.two_pow_pos _
  apply phase2Words_spec E hS hF _ _ (pos P ws len (i * P.K)) _ _ s0 1 (Nat.le_refl _)
    (wordAt_masked P.zero ws _)
  · rw [hp0.2.2]; have := mul_K_lt_count hi; omega
  · have := E.hew; rw [E.hend] at this; omega
  · exact h0
  · rw [hnq, Nat.one_mul]
  · omega
  · rw [Nat.one_mul]; unfold Params.K; exact Nat.pow_le_pow_right (by omega) E.hq
  · simpa using hones
  · omega

end

/-- result of processing entry `i` -/
def EntryPost (P : Params) (ws : Array Nat) (len : Nat) (inv spill : Array Nat) (spilled i : Nat)
    (r : Array Nat × Array Nat × Nat) : Prop :=
  r.2.2 = spilled + spillSpec P ws len i ∧
  r.1.size = inv.size ∧ r.2.1.size = spill.size ∧
  (∀ k, (k < i * (P.U + 1) ∨ i * (P.U + 1) + P.U < k) → r.1.getD k 0 = inv.getD k 0) ∧
  (∀ k, (k < spilled ∨ spilled + spillSpec P ws len i ≤ k) → r.2.1.getD k 0 = spill.getD k 0) ∧
  Done P ws len r.1 r.2.1 spilled i

theorem s16_le_L (P : Params) : P.s16 ≤ P.L := by unfold Params.s16; omega

theorem phase2Entry_u16 (P : Params) (ws : Array Nat) (len S : Nat) (inv spill : Array Nat)
    (spilled i : Nat) (hlen : len ≤ 64 * ws.size) (h : PreEntry P ws len S inv spill spilled i)
    (hty : SpanType.fromSpan (spanOf P ws len i) = .u16) :
    ∃ r, phase2Entry P ws (count P ws len) S inv spill spilled i = .ok r ∧
      EntryPost P ws len inv spill spilled i r := by
  have hi := h.hi
  have hend := entry_end_le hi
  have hU := P.U_pos
  have hple := pos_le_nextPos (P := P) (ws := ws) (len := len) hi
  have hnlt : ¬ nextPos P ws len i < pos P ws len (i * P.K) := by omega
  have hp0 := pos_spec (mul_K_lt_count hi)
  unfold phase2Entry
  simp only [bind, Out.bind]
  rw [readS_getD (by rw [h.size]; omega), h.start]
  simp only []
  rw [readS_getD (by rw [h.size]; omega), h.next]
  simp only [subC, hnlt, if_false]
  rw [show nextPos P ws len i - pos P ws len (i * P.K) = spanOf P ws len i from rfl, hty]
  simp only [pure]
  rw [readS_getD (by have := hp0.1; omega)]
  simp only []
  -- the context and its facts
  generalize hC : Ctx.mk P (count P ws len) S (i * (P.U + 1)) (pos P ws len (i * P.K))
      (nextPos P ws len i) SpanType.u16 P.s16 ((nextPos P ws len i + 63) / 64) = C
  have E : EntryFacts P ws len C i := by
    subst hC
    exact ⟨hi, rfl, rfl, rfl, rfl, s16_le_L P, rfl, hlen⟩
  have X : StoreCtx P ws len C i inv spill spilled := by
    subst hC
    exact ⟨hi, rfl, rfl, hty.symm, by rw [h.size]; omega, h.ssize.symm, by rw [h.ssize]; exact h.room⟩
  have hCty : C.ty = .u16 := by subst hC; rfl
  have hClog : C.log2q = P.s16 := by subst hC; rfl
  have h0 : Slots16 P ws len C i inv spill spilled
      { inv := inv, spill := spill, spilled := spilled, subIdx := 1, nextQ := i * P.K + 2 ^ P.s16 } 1 := by
    refine ⟨rfl, rfl, rfl, rfl, fun _ _ => rfl, ?_⟩
    intro j hj
    have : j = 0 := by omega
    subst this
    unfold slotLane
    simp only [Nat.zero_div, Nat.add_zero, Nat.zero_mod, Nat.zero_mul]
    rw [h.zeros 1 (by omega) (by omega), lane_zero]; omega
  obtain ⟨s', t', he, hs', hb1, hb2, hb3⟩ := phase2Words_entry E (slots16_storeOK X hCty hClog)
    slots16_nextQFree _ h0 (by rw [hClog])
  rw [he]
  simp only []
  refine ⟨_, rfl, ?_⟩
  have hsp : spillSpec P ws len i = 0 := by unfold spillSpec; rw [hty]
  rw [hClog] at hb1 hb2
  refine ⟨?_, hs'.size, by rw [hs'.spill], ?_, ?_, ?_⟩
  · simp only [reduceCtorEq, if_false]; rw [hs'.spilled, hsp]; rfl
  · intro k hk
    exact hs'.frame k (by omega)
  · intro k _
    show s'.spill.getD k 0 = spill.getD k 0
    rw [hs'.spill]
  · refine ⟨?_, ?_, ?_, ?_, ?_⟩
    · show s'.inv.getD (i * (P.U + 1)) 0 = _
      rw [hs'.frame _ (by omega), h.start]
      unfold tagOf; rw [hty]; exact (Nat.or_zero _).symm
    · intro hne; exact absurd hty hne
    · intro _ j hj
      have hjt : j < t' := Nat.lt_of_mul_lt_mul_right (a := 2 ^ P.s16) (by omega)
      have := hs'.slots j hjt
      rw [hClog] at this
      exact this
    · intro h32; rw [hty] at h32; cases h32
    · intro h64; rw [hty] at h64; cases h64

theorem getD_set2 (a : Array Nat) (b x y k : Nat) (hb : b + 1 < a.size) :
    ((a.setIfInBounds b x).setIfInBounds (b + 1) y).getD k 0 =
      if k = b + 1 then y else if k = b then x else a.getD k 0 := by
  rw [getD_setIfInBounds, getD_setIfInBounds, Array.size_setIfInBounds]
  by_cases h1 : k = b + 1
  · rw [if_pos ⟨h1, hb⟩, if_pos h1]
  · rw [if_neg (by omega), if_neg h1]
    by_cases h2 : k = b
    · rw [if_pos ⟨h2, by omega⟩, if_pos h2]
    · rw [if_neg (by omega), if_neg h2]

theorem l32Of_le_L (P : Params) (ws : Array Nat) (len i : Nat) : l32Of P ws len i ≤ P.L := by
  unfold l32Of Params.s16; omega

theorem phase2Entry_u32 (P : Params) (ws : Array Nat) (len S : Nat) (inv spill : Array Nat)
    (spilled i : Nat) (hlen : len ≤ 64 * ws.size) (h : PreEntry P ws len S inv spill spilled i)
    (hty : SpanType.fromSpan (spanOf P ws len i) = .u32) :
    ∃ r, phase2Entry P ws (count P ws len) S inv spill spilled i = .ok r ∧
      EntryPost P ws len inv spill spilled i r := by
  have hi := h.hi
  have hend := entry_end_le hi
  have hU := P.U_pos
  have hple := pos_le_nextPos (P := P) (ws := ws) (len := len) hi
  have hnlt : ¬ nextPos P ws len i < pos P ws len (i * P.K) := by omega
  have hp0 := pos_spec (mul_K_lt_count hi)
  have hspan := fromSpan_u32 hty
  have hb1' : i * (P.U + 1) + 1 < inv.size := by rw [h.size]; omega
  unfold phase2Entry
  simp only [bind, Out.bind]
  rw [readS_getD (by rw [h.size]; omega), h.start]
  simp only []
  rw [readS_getD (by rw [h.size]; omega), h.next]
  simp only [subC, hnlt, if_false]
  rw [show nextPos P ws len i - pos P ws len (i * P.K) = spanOf P ws len i from rfl, hty]
  have hl : log2OnesPerSub32 (spanOf P ws len i) P.s16 = .ok (l32Of P ws len i) := by
    unfold log2OnesPerSub32; rw [if_neg (by omega)]; rfl
  simp only [hl, pure]
  rw [readS_getD (by have := hp0.1; omega)]
  simp only []
  generalize hinv0 : (inv.setIfInBounds (i * (P.U + 1)) (setU32 (pos P ws len (i * P.K)))).setIfInBounds
      (i * (P.U + 1) + 1) spilled = inv0
  have hg0 : ∀ k, inv0.getD k 0 = if k = i * (P.U + 1) + 1 then spilled else
      if k = i * (P.U + 1) then setU32 (pos P ws len (i * P.K)) else inv.getD k 0 := by
    intro k; rw [← hinv0]; exact getD_set2 inv _ _ _ k hb1'
  have hsz0 : inv0.size = inv.size := by rw [← hinv0]; simp
  generalize hC : Ctx.mk P (count P ws len) S (i * (P.U + 1)) (pos P ws len (i * P.K))
      (nextPos P ws len i) SpanType.u32 (l32Of P ws len i) ((nextPos P ws len i + 63) / 64) = C
  have E : EntryFacts P ws len C i := by
    subst hC
    exact ⟨hi, rfl, rfl, rfl, rfl, l32Of_le_L P ws len i, rfl, hlen⟩
  have X : StoreCtx P ws len C i inv0 spill spilled := by
    subst hC
    exact ⟨hi, rfl, rfl, hty.symm, by rw [hsz0, h.size]; omega, h.ssize.symm, by rw [h.ssize]; exact h.room⟩
  have hCty : C.ty = .u32 := by subst hC; rfl
  have hClog : C.log2q = l32Of P ws len i := by subst hC; rfl
  have hzero : ∀ j, slotRaw32 P i spilled inv0 spill j = 0 := by
    intro j
    unfold slotRaw32 slotLane
    by_cases hjl : j < (P.U - 1) * 2
    · rw [if_pos hjl, hg0, if_neg (by omega), if_neg (by omega),
        show i * (P.U + 1) + 2 + j / 2 = i * (P.U + 1) + (2 + j / 2) by omega,
        h.zeros _ (by omega) (by omega), lane_zero]
    · rw [if_neg hjl, h.szeros _ (by omega), lane_zero]
  have h0 : Slots32 P ws len C i inv0 spill spilled
      { inv := inv0, spill := spill, spilled := spilled, subIdx := 1,
        nextQ := i * P.K + 2 ^ l32Of P ws len i } 1 := by
    refine ⟨rfl, rfl, rfl, rfl, fun _ _ => rfl, fun _ _ => rfl, ?_, fun j _ => hzero j⟩
    intro j hj
    have : j = 0 := by omega
    subst this
    show slotRaw32 P i spilled inv0 spill 0 = _
    rw [hzero, Nat.zero_mul, Nat.add_zero]; omega
  obtain ⟨s', t', he, hs', hb1, hb2, hb3⟩ := phase2Words_entry E (slots32_storeOK X hCty hClog)
    slots32_nextQFree _ h0 (by rw [hClog])
  rw [he]
  simp only []
  refine ⟨_, rfl, ?_⟩
  rw [hClog] at hb1 hb2
  have hq : 0 < 2 ^ l32Of P ws len i := Nat.two_pow_pos _
  have hc : (onesIn P ws len i + 2 ^ l32Of P ws len i - 1) / 2 ^ l32Of P ws len i = t' := by
    apply divCeil_unique hq hb1
    have : (t' - 1) * 2 ^ l32Of P ws len i = t' * 2 ^ l32Of P ws len i - 2 ^ l32Of P ws len i := by
      rw [Nat.sub_mul, Nat.one_mul]
    have : 2 ^ l32Of P ws len i ≤ t' * 2 ^ l32Of P ws len i := Nat.le_mul_of_pos_left _ hb3
    omega
  have hsp : spillSpec P ws len i = (t' + 1) / 2 - (P.U - 1) := by
    unfold spillSpec; rw [hty]; simp only []; rw [hc]
  refine ⟨?_, by rw [← hsz0]; exact hs'.size, hs'.ssize, ?_, hs'.sframe, ?_⟩
  · simp only [if_true]; rw [hs'.spilled, hs'.sub, hsp]; omega
  · intro k hk
    show s'.inv.getD k 0 = inv.getD k 0
    rw [hs'.frame k (by omega), hg0, if_neg (by omega), if_neg (by omega)]
  · refine ⟨?_, ?_, ?_, ?_, ?_⟩
    · show s'.inv.getD (i * (P.U + 1)) 0 = _
      rw [hs'.frame _ (by omega), hg0, if_neg (by omega), if_pos rfl]
      unfold tagOf setU32; rw [hty]
    · intro _
      show s'.inv.getD (i * (P.U + 1) + 1) 0 = _
      rw [hs'.frame _ (by omega), hg0, if_pos rfl]
    · intro h16; rw [hty] at h16; cases h16
    · intro _ j hj
      have hjt : j < t' := Nat.lt_of_mul_lt_mul_right (a := 2 ^ l32Of P ws len i) (by omega)
      have := hs'.slots j hjt
      rw [hClog] at this
      exact this
    · intro h64; rw [hty] at h64; cases h64

theorem phase2Entry_u64 (P : Params) (ws : Array Nat) (len S : Nat) (inv spill : Array Nat)
    (spilled i : Nat) (hlen : len ≤ 64 * ws.size) (h : PreEntry P ws len S inv spill spilled i)
    (hty : SpanType.fromSpan (spanOf P ws len i) = .u64) :
    ∃ r, phase2Entry P ws (count P ws len) S inv spill spilled i = .ok r ∧
      EntryPost P ws len inv spill spilled i r := by
  have hi := h.hi
  have hend := entry_end_le hi
  have hU := P.U_pos
  have hple := pos_le_nextPos (P := P) (ws := ws) (len := len) hi
  have hnlt : ¬ nextPos P ws len i < pos P ws len (i * P.K) := by omega
  have hp0 := pos_spec (mul_K_lt_count hi)
  have hb1' : i * (P.U + 1) + 1 < inv.size := by rw [h.size]; omega
  unfold phase2Entry
  simp only [bind, Out.bind]
  rw [readS_getD (by rw [h.size]; omega), h.start]
  simp only []
  rw [readS_getD (by rw [h.size]; omega), h.next]
  simp only [subC, hnlt, if_false]
  rw [show nextPos P ws len i - pos P ws len (i * P.K) = spanOf P ws len i from rfl, hty]
  simp only [pure]
  rw [readS_getD (by have := hp0.1; omega)]
  simp only []
  generalize hinv0 : (inv.setIfInBounds (i * (P.U + 1)) (setU64 (pos P ws len (i * P.K)))).setIfInBounds
      (i * (P.U + 1) + 1) spilled = inv0
  have hg0 : ∀ k, inv0.getD k 0 = if k = i * (P.U + 1) + 1 then spilled else
      if k = i * (P.U + 1) then setU64 (pos P ws len (i * P.K)) else inv.getD k 0 := by
    intro k; rw [← hinv0]; exact getD_set2 inv _ _ _ k hb1'
  have hsz0 : inv0.size = inv.size := by rw [← hinv0]; simp
  generalize hC : Ctx.mk P (count P ws len) S (i * (P.U + 1)) (pos P ws len (i * P.K))
      (nextPos P ws len i) SpanType.u64 0 ((nextPos P ws len i + 63) / 64) = C
  have E : EntryFacts P ws len C i := by
    subst hC
    exact ⟨hi, rfl, rfl, rfl, rfl, Nat.zero_le _, rfl, hlen⟩
  have X : StoreCtx P ws len C i inv0 spill spilled := by
    subst hC
    exact ⟨hi, rfl, rfl, hty.symm, by rw [hsz0, h.size]; omega, h.ssize.symm, by rw [h.ssize]; exact h.room⟩
  have hCty : C.ty = .u64 := by subst hC; rfl
  have hClog : C.log2q = 0 := by subst hC; rfl
  have h0 : Slots64 P ws len C i inv0 spill spilled
      { inv := inv0, spill := spill, spilled := spilled, subIdx := 1, nextQ := i * P.K + 2 ^ 0 } 1 := by
    refine ⟨rfl, rfl, ?_, ?_, fun _ _ => rfl, fun _ _ => rfl, ?_⟩
    · show spilled = spilled + (1 - P.U); omega
    · show 1 = min 1 P.U; omega
    · intro j hj1 hj; omega
  obtain ⟨s', t', he, hs', hb1, hb2, hb3⟩ := phase2Words_entry E (slots64_storeOK X hCty hClog)
    slots64_nextQFree _ h0 (by rw [hClog])
  rw [he]
  simp only []
  refine ⟨_, rfl, ?_⟩
  rw [hClog, Nat.pow_zero, Nat.mul_one] at hb1 hb2
  have hones := onesIn_pos (P := P) (ws := ws) (len := len) hi
  have hsp : spillSpec P ws len i = (onesIn P ws len i - 1) - (P.U - 1) := by
    unfold spillSpec; rw [hty]
  refine ⟨?_, by rw [← hsz0]; exact hs'.size, hs'.ssize, ?_, hs'.sframe, ?_⟩
  · simp only [reduceCtorEq, if_false]; rw [hs'.spilled, hsp]; omega
  · intro k hk
    show s'.inv.getD k 0 = inv.getD k 0
    rw [hs'.frame k (by omega), hg0, if_neg (by omega), if_neg (by omega)]
  · refine ⟨?_, ?_, ?_, ?_, ?_⟩
    · show s'.inv.getD (i * (P.U + 1)) 0 = _
      rw [hs'.frame _ (by omega), hg0, if_neg (by omega), if_pos rfl]
      unfold tagOf setU64; rw [hty]
    · intro _
      show s'.inv.getD (i * (P.U + 1) + 1) 0 = _
      rw [hs'.frame _ (by omega), hg0, if_pos rfl]
    · intro h16; rw [hty] at h16; cases h16
    · intro h32; rw [hty] at h32; cases h32
    · intro _ j hj1 hj
      have := hs'.slots j hj1 (by omega)
      rw [hClog, Nat.pow_zero, Nat.mul_one] at this
      exact this

/-- **one entry of phase 2** -/
theorem phase2Entry_spec (P : Params) (ws : Array Nat) (len S : Nat) (inv spill : Array Nat)
    (spilled i : Nat) (hlen : len ≤ 64 * ws.size) (h : PreEntry P ws len S inv spill spilled i) :
    ∃ r, phase2Entry P ws (count P ws len) S inv spill spilled i = .ok r ∧
      EntryPost P ws len inv spill spilled i r := by
  cases hty : SpanType.fromSpan (spanOf P ws len i)
  · exact phase2Entry_u16 P ws len S inv spill spilled i hlen h hty
  · exact phase2Entry_u32 P ws len S inv spill spilled i hlen h hty
  · exact phase2Entry_u64 P ws len S inv spill spilled i hlen h hty

end Sux.RS.Adapt
