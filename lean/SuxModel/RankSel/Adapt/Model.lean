import SuxModel.Base.Bits
import SuxModel.Base.Proto
import SuxModel.RankSel.Spec
import SuxModel.RankSel.Layer
import SuxModel.RankSel.Hinted
/-!
# `SelectAdapt` / `SelectZeroAdapt` / `SelectAdaptConst` / `SelectZeroAdaptConst` (C02)

One model for the four near-duplicate Rust files
`/repo/src/rank_sel/{select_adapt,select_zero_adapt,select_adapt_const,select_zero_adapt_const}.rs`,
parameterised by `Params`:

* `zero`  : polarity (`false`: ones, `true`: zeros — the Rust zero variants read `!word` and call
            `select_zero_hinted`, everything else is textually the same, "ones" meaning zeros);
* `L`     : `log2_ones_per_inventory` (run-time field or const parameter);
* `M`     : the *effective* `log2_u64_per_subinventory`: the const parameter as it is, or
            `max_log2_u64_per_subinventory.min(log2_ones_per_inventory.saturating_sub(2))`
            for the run-time variants (`paramsRun`).

Checked build: `debug_assert!`, `assert!`, safe indexing and checked arithmetic are `.panic`;
`get_unchecked` is `.oob`.  `usize` is 64 bits, `u16`/`u32` views (`align_to`) are little-endian lanes.
-/
namespace Sux.RS.Adapt
open Sux.Proto

structure Params where
  zero : Bool
  L : Nat
  M : Nat
deriving Repr, DecidableEq

/-- `ones_per_inventory = 1 << L` -/
def Params.K (P : Params) : Nat := 2 ^ P.L
/-- `u64_per_subinventory = 1 << M` -/
def Params.U (P : Params) : Nat := 2 ^ P.M
/-- `log2_ones_per_sub16 = L.saturating_sub(M + 2)` -/
def Params.s16 (P : Params) : Nat := P.L - (P.M + 2)

theorem Params.K_pos (P : Params) : 0 < P.K := Nat.two_pow_pos _
theorem Params.U_pos (P : Params) : 0 < P.U := Nat.two_pow_pos _

/-- checked `a - b` -/
@[inline] def subC (a b : Nat) : Out Nat := if a < b then .panic else .ok (a - b)

/-- `select_in_word` with its `debug_assert!(rank < count_ones)` -/
@[inline] def selectInWordC (w k : Nat) : Out Nat :=
  if k < popc w then .ok (selectInWord w k) else .panic

/-! ## `SpanType`, `Inventory for usize` -/

inductive SpanType where
  | u16 | u32 | u64
deriving Repr, DecidableEq

def SpanType.fromSpan (x : Nat) : SpanType :=
  if x ≤ 0x10000 then .u16 else if x ≤ 0x100000000 then .u32 else .u64

/-- `*self as isize >= 0` -/
@[inline] def isU16 (x : Nat) : Bool := decide (x < 2 ^ 63)
/-- `*self >> 62 == 2` -/
@[inline] def isU32 (x : Nat) : Bool := x >>> 62 == 2
/-- `*self >> 62 == 3` -/
@[inline] def isU64 (x : Nat) : Bool := x >>> 62 == 3
/-- `*self |= 1 << 63` -/
@[inline] def setU32 (x : Nat) : Nat := x ||| 2 ^ 63
/-- `*self |= 3 << 62` -/
@[inline] def setU64 (x : Nat) : Nat := x ||| (3 * 2 ^ 62)
/-- `*self & 0x3FFF_FFFF_FFFF_FFFF` -/
@[inline] def getPos (x : Nat) : Nat := x &&& (2 ^ 62 - 1)

/-- `log2_ones_per_sub32(span, log2_ones_per_sub16)`; `debug_assert!(span >= 1 << 16)` also protects the
`ilog2` of zero -/
def log2OnesPerSub32 (span s16 : Nat) : Out Nat :=
  if span < 2 ^ 16 then .panic else .ok (s16 - (Nat.log2 (span >>> 15) + 1))

/-! ## little-endian lanes of a 64-bit word -/

/-- lane `j` of width `bits` -/
@[inline] def lane (bits w j : Nat) : Nat := (w >>> (bits * j)) % 2 ^ bits

/-- `view[j] = v as u<bits>` -/
@[inline] def setLane (bits w j v : Nat) : Nat :=
  w ^^^ ((lane bits w j ^^^ (v % 2 ^ bits)) <<< (bits * j))

/-- `*view.get_unchecked(j)` where `view = a.get_unchecked(base..).align_to::<u<bits>>().1`
(`per = 64 / bits` lanes per word; the view runs to the end of `a`) -/
@[inline] def readLaneU (bits per : Nat) (a : Array Nat) (base j : Nat) : Out Nat := do
  let w ← Out.readU a (base + j / per)
  pure (lane bits w (j % per))

/-- `view[j]` (safe) where `view = a[base..base + nWords].align_to_mut::<u<bits>>().1` -/
@[inline] def readLaneS (bits per : Nat) (a : Array Nat) (base nWords j : Nat) : Out Nat :=
  if j < per * nWords then do
    let w ← Out.readS a (base + j / per)
    pure (lane bits w (j % per))
  else .panic

/-- `view[j] = v as u<bits>` (safe) on the same view -/
@[inline] def writeLaneS (bits per : Nat) (a : Array Nat) (base nWords j v : Nat) : Out (Array Nat) :=
  if j < per * nWords then do
    let w ← Out.readS a (base + j / per)
    pure (a.setIfInBounds (base + j / per) (setLane bits w (j % per) v))
  else .panic

/-! ## the index -/

structure Idx where
  inv : Array Nat
  spill : Array Nat
deriving Repr

/-! ## phase 1: one inventory entry every `K` ones -/

/-- `while past_ones + ones_in_word > next_quantum { … }` of the first phase
(`top = past_ones + ones_in_word`) -/
def phase1While (P : Params) (i word top pastOnes : Nat) (inv : Array Nat) (nextQ : Nat) :
    Out (Array Nat × Nat) :=
  if top > nextQ then do
    let k ← subC nextQ pastOnes
    let q ← selectInWordC word k
    -- inventory.push(index); inventory.resize(inventory.len() + u64_per_subinventory, 0)
    let inv := (inv.push (i * 64 + q)) ++ Array.replicate P.U 0
    phase1While P i word top pastOnes inv (nextQ + P.K)
  else .ok (inv, nextQ)
termination_by top - nextQ
decreasing_by have := P.K_pos; omega

/-- `for (i, word) in bits.as_ref().iter().copied()[.map(|b| !b)].enumerate()`: all backend words,
also those beyond `len` -/
def phase1Words (P : Params) (ws : Array Nat) (numOnes : Nat) (i : Nat) (inv : Array Nat)
    (pastOnes nextQ : Nat) : Out (Array Nat × Nat) :=
  if h : i < ws.size then do
    let word := polWord P.zero ws[i]
    -- bits beyond the length of the vector are ignored
    let d ← subC numOnes pastOnes
    let onesInWord := min (popc word) d
    let (inv, nextQ) ← phase1While P i word (pastOnes + onesInWord) pastOnes inv nextQ
    phase1Words P ws numOnes (i + 1) inv (pastOnes + onesInWord) nextQ
  else .ok (inv, pastOnes)
termination_by ws.size - i

/-- first phase including the two `assert_eq!` and the sentinel -/
def phase1 (P : Params) (ws : Array Nat) (len numOnes : Nat) : Out (Array Nat) := do
  let numBits := max 1 len
  let inventorySize := (numOnes + P.K - 1) / P.K
  let inventoryWords := inventorySize * (P.U + 1) + 1
  let (inv, pastOnes) ← phase1Words P ws numOnes 0 #[] 0 0
  if pastOnes ≠ numOnes then .panic else
  let inv := inv.push numBits
  if inv.size ≠ inventoryWords then .panic else
  pure inv

/-! ## spill estimation -/

/-- one iteration of the estimation loop: words added to the spill by inventory entry `i` -/
def spillOf (P : Params) (inv : Array Nat) (numBits numOnes i : Nat) : Out Nat := do
  let start ← Out.readS inv (i * (P.U + 1))
  let nxt ← Out.readS inv (i * (P.U + 1) + (P.U + 1))
  let span ← subC nxt start
  let pastOnes := i * P.K
  let d ← subC numOnes pastOnes
  let ones := min d P.K
  -- debug_assert!(start + span == num_bits || ones == ones_per_inventory)
  if start + span ≠ numBits ∧ ones ≠ P.K then .panic else
  match SpanType.fromSpan span with
  | .u32 => do
    let l32 ← log2OnesPerSub32 span P.s16
    let numU32s := (ones + 2 ^ l32 - 1) / 2 ^ l32
    let numU64s := (numU32s + 1) / 2
    pure (numU64s - (P.U - 1))
  | .u64 => do
    let o1 ← subC ones 1
    pure (o1 - (P.U - 1))
  | .u16 => pure 0

def spillLoop (P : Params) (inv : Array Nat) (numBits numOnes inventorySize : Nat) (i spilled : Nat) :
    Out Nat :=
  if i < inventorySize then do
    let s ← spillOf P inv numBits numOnes i
    spillLoop P inv numBits numOnes inventorySize (i + 1) (spilled + s)
  else .ok spilled
termination_by inventorySize - i

/-! ## phase 2: subinventories and spill -/

/-- what is fixed while one inventory entry is processed -/
structure Ctx where
  P : Params
  numOnes : Nat
  spillSize : Nat
  startInv : Nat
  startBit : Nat
  endBit : Nat
  ty : SpanType
  log2q : Nat
  endWordIdx : Nat

/-- what the loops of one inventory entry change -/
structure Loop where
  inv : Array Nat
  spill : Array Nat
  spilled : Nat
  subIdx : Nat
  nextQ : Nat

inductive Flow where
  | cont (s : Loop)
  | brk (s : Loop)   -- `break 'outer`

/-- body of the `match span_type` inside the quantum loop; returns the new state and whether one of the
"not necessary for correctness" exits fires -/
def storeQuantum (C : Ctx) (s : Loop) (bitIndex subOff : Nat) : Out (Loop × Bool) :=
  let U := C.P.U
  match C.ty with
  | .u16 => do
    -- inventory[start_inv_idx + 1..end_inv_idx] as [u16]
    let inv ← writeLaneS 16 4 s.inv (C.startInv + 1) U s.subIdx subOff
    let s := { s with inv := inv, subIdx := s.subIdx + 1 }
    pure (s, (s.subIdx <<< C.log2q) == C.P.K)
  | .u32 => do
    let locallyStored := 2 * (U - 1)
    let s ← (if s.subIdx < locallyStored then do
        -- inventory[start_inv_idx + 2..end_inv_idx] as [u32]
        let old ← readLaneS 32 2 s.inv (C.startInv + 2) (U - 1) s.subIdx
        if old ≠ 0 then .panic else
        let inv ← writeLaneS 32 2 s.inv (C.startInv + 2) (U - 1) s.subIdx subOff
        pure { s with inv := inv }
      else do
        -- spill[spilled..] as [u32]
        if s.spill.size < s.spilled then .panic else
        let n := s.spill.size - s.spilled
        let old ← readLaneS 32 2 s.spill s.spilled n (s.subIdx - locallyStored)
        if old ≠ 0 then .panic else
        let spill ← writeLaneS 32 2 s.spill s.spilled n (s.subIdx - locallyStored) subOff
        pure { s with spill := spill })
    let s := { s with subIdx := s.subIdx + 1 }
    pure (s, (s.subIdx <<< C.log2q) == C.P.K)
  | .u64 => do
    let s ← (if s.subIdx < U then do
        if s.inv.size ≤ C.startInv + 1 + s.subIdx then .panic else
        pure { s with inv := s.inv.setIfInBounds (C.startInv + 1 + s.subIdx) bitIndex,
                      subIdx := s.subIdx + 1 }
      else do
        -- assert!(spilled < spill_size); spill[spilled] = bit_index
        if ¬ s.spilled < C.spillSize then .panic else
        if s.spill.size ≤ s.spilled then .panic else
        pure { s with spill := s.spill.setIfInBounds s.spilled bitIndex, spilled := s.spilled + 1 })
    pure (s, s.subIdx == C.P.K)

/-- `while past_ones + ones_in_word > next_quantum { … }` of the second phase -/
def phase2While (C : Ctx) (wordIdx word top pastOnes : Nat) (s : Loop) : Out Flow :=
  if top > s.nextQ then do
    -- debug_assert!(next_quantum <= end_bit_idx)
    if s.nextQ > C.endBit then .panic else
    let k ← subC s.nextQ pastOnes
    let q ← selectInWordC word k
    let bitIndex := wordIdx * 64 + q
    if bitIndex ≥ C.endBit then pure (.brk s) else
    let subOff ← subC bitIndex C.startBit
    let (s', stop) ← storeQuantum C s bitIndex subOff
    if stop then pure (.brk s') else
    phase2While C wordIdx word top pastOnes { s' with nextQ := s.nextQ + 2 ^ C.log2q }
  else .ok (.cont s)
termination_by top - s.nextQ
decreasing_by have : 0 < 2 ^ C.log2q := Nat.two_pow_pos _; omega

/-- `'outer: loop { … }` over the words of the span -/
def phase2Words (C : Ctx) (ws : Array Nat) (wordIdx word pastOnes : Nat) (s : Loop) : Out Loop := do
  let d ← subC C.numOnes pastOnes
  let onesInWord := min (popc word) d
  match ← phase2While C wordIdx word (pastOnes + onesInWord) pastOnes s with
  | .brk s' => pure s'
  | .cont s' =>
    if wordIdx + 1 = C.endWordIdx then pure s' else
    if h : wordIdx + 1 < ws.size then
      phase2Words C ws (wordIdx + 1) (polWord C.P.zero ws[wordIdx + 1]) (pastOnes + onesInWord) s'
    else .panic   -- bits.as_ref()[word_idx]
termination_by ws.size - wordIdx

/-- body of `for inventory_idx in 0..inventory_size` -/
def phase2Entry (P : Params) (ws : Array Nat) (numOnes spillSize : Nat) (inv spill : Array Nat)
    (spilled invIdx : Nat) : Out (Array Nat × Array Nat × Nat) := do
  let U := P.U
  let startInv := invIdx * (U + 1)
  let endInv := startInv + (U + 1)
  let startBit ← Out.readS inv startInv
  let endBit ← Out.readS inv endInv
  let span ← subC endBit startBit
  let ty := SpanType.fromSpan span
  let pastOnes := invIdx * P.K
  let (log2q, inv) ← (match ty with
    | .u16 => pure (P.s16, inv)
    | .u32 => do
      let l ← log2OnesPerSub32 span P.s16
      pure (l, (inv.setIfInBounds startInv (setU32 startBit)).setIfInBounds (startInv + 1) spilled)
    | .u64 =>
      pure (0, (inv.setIfInBounds startInv (setU64 startBit)).setIfInBounds (startInv + 1) spilled)
    : Out (Nat × Array Nat))
  let wordIdx := startBit / 64
  let endWordIdx := (endBit + 63) / 64
  let bitIdx := startBit % 64
  let w0 ← Out.readS ws wordIdx
  let word := ((polWord P.zero w0) >>> bitIdx) <<< bitIdx
  let C : Ctx := { P := P, numOnes := numOnes, spillSize := spillSize, startInv := startInv,
                   startBit := startBit, endBit := endBit, ty := ty, log2q := log2q,
                   endWordIdx := endWordIdx }
  let s ← phase2Words C ws wordIdx word pastOnes
    { inv := inv, spill := spill, spilled := spilled, subIdx := 1, nextQ := pastOnes + 2 ^ log2q }
  let spilled := if ty = .u32 then s.spilled + ((s.subIdx - 2 * (U - 1)) + 1) / 2 else s.spilled
  pure (s.inv, s.spill, spilled)

def phase2Loop (P : Params) (ws : Array Nat) (numOnes spillSize inventorySize : Nat)
    (invIdx : Nat) (inv spill : Array Nat) (spilled : Nat) : Out (Array Nat × Array Nat × Nat) :=
  if invIdx < inventorySize then do
    let (inv, spill, spilled) ← phase2Entry P ws numOnes spillSize inv spill spilled invIdx
    phase2Loop P ws numOnes spillSize inventorySize (invIdx + 1) inv spill spilled
  else .ok (inv, spill, spilled)
termination_by inventorySize - invIdx

/-- `_new(bits, num_ones, log2_ones_per_inventory, …)` after `M` has been fixed / `new` of the const
variants.  `numOnes` is the number of bits of the selected polarity. -/
def build (P : Params) (ws : Array Nat) (len numOnes : Nat) : Out Idx := do
  -- `1 << log2_ones_per_inventory`, `1 << log2_u64_per_subinventory`: shift overflow
  if 64 ≤ P.L ∨ 64 ≤ P.M then .panic else
  let numBits := max 1 len
  let inventorySize := (numOnes + P.K - 1) / P.K
  let inv ← phase1 P ws len numOnes
  let spillSize ← spillLoop P inv numBits numOnes inventorySize 0 0
  let spill := Array.replicate spillSize 0
  let (inv, spill, spilled) ← phase2Loop P ws numOnes spillSize inventorySize 0 inv spill 0
  if spilled ≠ spillSize then .panic else
  pure { inv := inv, spill := spill }

/-! ## queries -/

/-- `select_unchecked` / `select_zero_unchecked` -/
def selectUnchecked (P : Params) (ws : Array Nat) (idx : Idx) (rank : Nat) : Out Nat := do
  let inventoryIndex := rank >>> P.L
  let startPos := (inventoryIndex <<< P.M) + inventoryIndex
  let inventoryRank ← Out.readU idx.inv startPos
  let subrank := rank &&& (P.K - 1)
  if isU16 inventoryRank then
    -- inventory.get_unchecked(start + 1..) as [u16];
    -- debug_assert!(subrank >> log2_ones_per_sub16 < subinventory.len()) is the same bound
    let off ← readLaneU 16 4 idx.inv (startPos + 1) (subrank >>> P.s16)
    let hintPos := inventoryRank + off
    let residual := subrank &&& (2 ^ P.s16 - 1)
    selectHintedP P.zero ws rank hintPos (rank - residual)
  else
  let U := P.U
  if isU32 inventoryRank then
    let inventoryRank := getPos inventoryRank
    let nxt ← Out.readU idx.inv (startPos + U + 1)
    let span ← subC (getPos nxt) inventoryRank
    let l32 ← log2OnesPerSub32 span P.s16
    let j := subrank >>> l32
    let hintPos ← (if j < (U - 1) * 2 then do
        let off ← readLaneU 32 2 idx.inv (startPos + 2) j
        pure (inventoryRank + off)
      else do
        let startSpillIdx ← Out.readU idx.inv (startPos + 1)
        let off ← readLaneU 32 2 idx.spill startSpillIdx (j - (U - 1) * 2)
        pure (inventoryRank + off) : Out Nat)
    let residual := subrank &&& (2 ^ l32 - 1)
    selectHintedP P.zero ws rank hintPos (rank - residual)
  else
  -- debug_assert!(inventory_rank.is_u64_span())
  if ¬ isU64 inventoryRank then .panic else
  let inventoryRank := getPos inventoryRank
  if subrank < U then
    if subrank = 0 then pure inventoryRank
    else Out.readU idx.inv (startPos + 1 + subrank)
  else do
    let s ← Out.readU idx.inv (startPos + 1)
    -- debug_assert!(spill_idx < spill.len()) is the bound of the unchecked read
    Out.readU idx.spill (s + subrank - U)

/-- `Select::select` / `SelectZero::select_zero` (trait defaults): `count` is `num_ones()` /
`num_zeros()` of the wrapped structure -/
def select (P : Params) (ws : Array Nat) (idx : Idx) (count rank : Nat) : Out (Option Nat) :=
  if rank ≥ count then .ok none
  else do
    let p ← selectUnchecked P ws idx rank
    pure (some p)

/-! ## constructors -/

/-- effective parameters of the run-time variants (`_new`) -/
def paramsRun (zero : Bool) (l maxM : Nat) : Params :=
  { zero := zero, L := l, M := min maxM (l - 2) }

/-- parameters of the const variants: no clamping -/
def paramsConst (zero : Bool) (l m : Nat) : Params := { zero := zero, L := l, M := m }

/-- `count_ones()` / `count_zeros()` (= `len() - count_ones()`) of the wrapped structure whose number of
ones is `n1` -/
def countOf (zero : Bool) (len n1 : Nat) : Out Nat := if zero then subC len n1 else .ok n1

/-- `log2_ones_per_inventory` computed by `with_span` -/
def log2ForSpan (len count span : Nat) : Out Nat :=
  let numBits := max 1 len
  if 2 ^ 64 ≤ count * span then .panic   -- `num_ones * target_inventory_span`
  else .ok (Nat.log2 (max 1 ((count * span + numBits - 1) / numBits)))

/-- `with_inv` (`how = "inv"`, `p1 = log2_ones_per_inventory`), `new` (`how = "new"`, default span 8192)
and `with_span` (`how = "span"`, `p1 = target_inventory_span`); `p2 = max_log2_u64_per_subinventory` -/
def buildRun (zero : Bool) (how : String) (p1 p2 : Nat) (ws : Array Nat) (len n1 : Nat) :
    Out (Params × Idx) := do
  let count ← countOf zero len n1
  let l ← (if how == "inv" then pure p1
           else if how == "new" then log2ForSpan len count 8192
           else log2ForSpan len count p1 : Out Nat)
  let P := paramsRun zero l p2
  let idx ← build P ws len count
  pure (P, idx)

def buildConst (zero : Bool) (l m : Nat) (ws : Array Nat) (len n1 : Nat) : Out (Params × Idx) := do
  let count ← countOf zero len n1
  let P := paramsConst zero l m
  let idx ← build P ws len count
  pure (P, idx)

/-! ## layers -/

def failedLayer : LayerModel :=
  { parts := "build-panic", select := some (fun _ => .panic), selectZero := some (fun _ => .panic) }

/-- the query side of a layer; `count` as the trait default computes it at query time -/
def mkLayer (parts : String) (P : Params) (ws : Array Nat) (len n1 : Nat) (idx : Idx) : LayerModel :=
  let q : Nat → Out (Option Nat) := fun r => do
    let count ← countOf P.zero len n1
    select P ws idx count r
  if P.zero then { parts := parts, selectZero := some q } else { parts := parts, select := some q }

/-- `SelectAdapt` (`zero = false`, tag `sa`) / `SelectZeroAdapt` (`zero = true`, tag `sza`) -/
def layerRun (zero : Bool) (how : String) (p1 p2 : Nat) (ws : Array Nat) (len n1 : Nat) : LayerModel :=
  match buildRun zero how p1 p2 ws len n1 with
  | .ok (P, idx) =>
    let tag := if zero then "sza" else "sa"
    mkLayer s!"{tag} inv={fmtNatList idx.inv.toList} spill={fmtNatList idx.spill.toList} l={P.L} s16={P.s16} m={P.M}"
      P ws len n1 idx
  | _ => failedLayer

/-- `SelectAdaptConst<_, _, l, m>` (tag `sac`) / `SelectZeroAdaptConst` (tag `szac`) -/
def layerConst (zero : Bool) (l m : Nat) (ws : Array Nat) (len n1 : Nat) : LayerModel :=
  match buildConst zero l m ws len n1 with
  | .ok (P, idx) =>
    let tag := if zero then "szac" else "sac"
    mkLayer s!"{tag} inv={fmtNatList idx.inv.toList} spill={fmtNatList idx.spill.toList} l={l} m={m}"
      P ws len n1 idx
  | _ => failedLayer

end Sux.RS.Adapt
