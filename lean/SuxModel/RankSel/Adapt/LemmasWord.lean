import SuxModel.RankSel.Adapt.LemmasQuery
import SuxModel.Base.BitsLemmas
/-!
# Word-level facts shared by the two builder phases

`WordAt f wi lo word`: `word` holds the bits of `f` of word `wi` from position `lo` on (lower bits
cleared) — the loop word of both phases (`lo = 64·wi` for a full word, `lo = start_bit_idx` for the
first, masked word of phase 2).
-/
namespace Sux.RS.Adapt
open Sux.RS

structure WordAt (f : Nat → Bool) (wi lo word : Nat) : Prop where
  lo_ge : 64 * wi ≤ lo
  lo_le : lo ≤ 64 * wi + 64
  bits : ∀ j, j < 64 → word.testBit j = (decide (lo ≤ 64 * wi + j) && f (64 * wi + j))

theorem WordAt.popc_add {f : Nat → Bool} {wi lo word : Nat} (h : WordAt f wi lo word) :
    Sux.RS.popc word + cnt f lo = cnt f (64 * wi + 64) := by
  rw [popc_eq_popcount, popcount_eq_cnt, cnt_congr (fun j hj => h.bits j hj), cnt_masked _ _ _ h.lo_ge,
    Nat.max_eq_right h.lo_le]

/-- `select_in_word` on the loop word: the set bit of in-word rank `k` is the `f`-bit of rank
`cnt f lo + k` -/
theorem WordAt.select {f : Nat → Bool} {wi lo word k : Nat} (h : WordAt f wi lo word) (hk : k < Sux.RS.popc word) :
    selectInWord word k < 64 ∧ lo ≤ 64 * wi + selectInWord word k ∧
      IsSelAt f (cnt f lo + k) (64 * wi + selectInWord word k) := by
  rw [popc_eq_popcount] at hk
  obtain ⟨hq, hb, hc⟩ := selectInWord_spec word k hk
  generalize selectInWord word k = q at hq hb hc
  have hb0 : word.testBit q = true := hb
  have hb' := h.bits q hq
  rw [hb0] at hb'
  have hb'' : lo ≤ 64 * wi + q ∧ f (64 * wi + q) = true := by simpa using hb'.symm
  have hcq := cnt_masked f (64 * wi) lo h.lo_ge q
  rw [← cnt_congr (fun j hj => h.bits j (by omega)), hc, Nat.max_eq_right hb''.1] at hcq
  exact ⟨hq, hb''.1, hb''.2, by omega⟩

/-- a full backend word -/
theorem wordAt_full (zero : Bool) (ws : Array Nat) (wi : Nat) :
    WordAt (polBit zero ws) wi (64 * wi) (polWord zero (ws.getD wi 0)) :=
  ⟨Nat.le_refl _, by omega, by intro j hj; rw [polBit_word zero ws wi j hj]; simp⟩

/-- the first word of a span with the bits below the start cleared -/
theorem wordAt_masked (zero : Bool) (ws : Array Nat) (start : Nat) :
    WordAt (polBit zero ws) (start / 64) start
      ((polWord zero (ws.getD (start / 64) 0) >>> (start % 64)) <<< (start % 64)) := by
  refine ⟨by omega, by omega, ?_⟩
  intro j hj
  rw [testBit_mask_low, polBit_word zero ws _ j hj]
  congr 1
  have : (start % 64 ≤ j) ↔ (start ≤ 64 * (start / 64) + j) := by omega
  exact decide_eq_decide.mpr this

theorem getD_eq_getElem (a : Array Nat) (i : Nat) (h : i < a.size) : a.getD i 0 = a[i] := by
  simp [Array.getD, h]

theorem readS_getD {a : Array Nat} {i : Nat} (h : i < a.size) : Out.readS a i = .ok (a.getD i 0) := by
  unfold Out.readS
  simp [Array.getD, h]

/-- the count of selectable bits does not exceed what the backend words hold -/
theorem count_le_cnt_words (P : Params) (ws : Array Nat) (len : Nat) (hlen : len ≤ 64 * ws.size) :
    count P ws len ≤ cnt (polBit P.zero ws) (64 * ws.size) := cnt_mono _ hlen

/-- `⌈n / K⌉` characterised -/
theorem divCeil_unique {n K m : Nat} (hK : 0 < K) (h1 : n ≤ m * K) (h2 : m * K < n + K) :
    (n + K - 1) / K = m := by
  apply Nat.le_antisymm
  · have : (n + K - 1) / K < m + 1 := by
      rw [Nat.div_lt_iff_lt_mul hK, Nat.add_mul, Nat.one_mul]; omega
    omega
  · rw [Nat.le_div_iff_mul_le hK]; omega

end Sux.RS.Adapt
