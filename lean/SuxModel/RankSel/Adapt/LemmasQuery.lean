import SuxModel.RankSel.Adapt.Inv
import SuxModel.RankSel.HintedLemmas
/-!
# (Q) the query of the `SelectAdapt` family answers the specification whenever `AdaptInvOK` holds
-/
namespace Sux.RS.Adapt
open Sux.RS

/-! ## `selPos` -/

theorem selPos_spec {f : Nat → Bool} {len r : Nat} (h : r < cnt f len) : IsSel f len r (selPos f len r) := by
  unfold selPos
  have hl : r < ((List.range len).filter f).length := by rw [length_filter_range]; exact h
  rw [List.getElem?_eq_getElem hl]
  simp only [Option.getD_some]
  exact (filter_range_getElem? f len r _).mp (List.getElem?_eq_getElem hl)

theorem pos_spec {P : Params} {ws : Array Nat} {len r : Nat} (h : r < count P ws len) :
    IsSel (polBit P.zero ws) len r (pos P ws len r) := selPos_spec h

/-! ## shifts and masks as `/`, `*`, `%` -/

theorem shr_L (P : Params) (r : Nat) : r >>> P.L = r / P.K := Nat.shiftRight_eq_div_pow r P.L
theorem shl_M (P : Params) (i : Nat) : i <<< P.M = i * P.U := Nat.shiftLeft_eq i P.M
theorem and_K (P : Params) (r : Nat) : r &&& (P.K - 1) = r % P.K := Nat.and_two_pow_sub_one_eq_mod r P.L
theorem shr_pow (a s : Nat) : a >>> s = a / 2 ^ s := Nat.shiftRight_eq_div_pow a s
theorem and_pow (a s : Nat) : a &&& (2 ^ s - 1) = a % 2 ^ s := Nat.and_two_pow_sub_one_eq_mod a s

theorem startPos_eq (P : Params) (i : Nat) : i * P.U + i = i * (P.U + 1) := by
  rw [Nat.mul_add, Nat.mul_one]

/-! ## tags -/

theorem or_two_pow_63 {x : Nat} (hx : x < 2 ^ 62) : x ||| 2 ^ 63 = 2 ^ 63 + x := by
  have := Nat.two_pow_add_eq_or_of_lt (show x < 2 ^ 63 by omega) 1
  rw [Nat.mul_one] at this
  rw [Nat.or_comm]; exact this.symm

theorem or_three_two_pow_62 {x : Nat} (hx : x < 2 ^ 62) : x ||| 3 * 2 ^ 62 = 3 * 2 ^ 62 + x := by
  have := Nat.two_pow_add_eq_or_of_lt hx 3
  rw [Nat.or_comm, Nat.mul_comm 3]; exact this.symm

theorem getPos_eq_mod (x : Nat) : getPos x = x % 2 ^ 62 := Nat.and_two_pow_sub_one_eq_mod x 62

theorem tagOf_cases (span : Nat) : tagOf span = 0 ∨ tagOf span = 2 ^ 63 ∨ tagOf span = 3 * 2 ^ 62 := by
  unfold tagOf; cases SpanType.fromSpan span <;> simp

/-- stripping the tag gives back the position -/
theorem getPos_tagged {x : Nat} (hx : x < 2 ^ 62) (span : Nat) : getPos (x ||| tagOf span) = x := by
  rw [getPos_eq_mod]
  rcases tagOf_cases span with h | h | h <;> rw [h]
  · rw [Nat.or_zero]; omega
  · rw [or_two_pow_63 hx]; omega
  · rw [or_three_two_pow_62 hx]; omega

theorem isU16_tagged {x : Nat} (hx : x < 2 ^ 62) (span : Nat) :
    isU16 (x ||| tagOf span) = decide (SpanType.fromSpan span = .u16) := by
  unfold isU16 tagOf
  cases SpanType.fromSpan span
  · simp only [Nat.or_zero]; simp; omega
  · simp only []; rw [or_two_pow_63 hx]; simp
  · simp only []; rw [or_three_two_pow_62 hx]; simp; omega

theorem isU32_tagged {x : Nat} (hx : x < 2 ^ 62) (span : Nat) :
    isU32 (x ||| tagOf span) = decide (SpanType.fromSpan span = .u32) := by
  unfold isU32 tagOf
  rw [shr_pow]
  cases SpanType.fromSpan span
  · simp only [Nat.or_zero]
    have : x / 2 ^ 62 = 0 := by omega
    simp [this]
  · simp only []; rw [or_two_pow_63 hx]
    have : (2 ^ 63 + x) / 2 ^ 62 = 2 := by omega
    simp [this]
  · simp only []; rw [or_three_two_pow_62 hx]
    have : (3 * 2 ^ 62 + x) / 2 ^ 62 = 3 := by omega
    simp [this]

theorem isU64_tagged {x : Nat} (hx : x < 2 ^ 62) (span : Nat) :
    isU64 (x ||| tagOf span) = decide (SpanType.fromSpan span = .u64) := by
  unfold isU64 tagOf
  rw [shr_pow]
  cases SpanType.fromSpan span
  · simp only [Nat.or_zero]
    have : x / 2 ^ 62 = 0 := by omega
    simp [this]
  · simp only []; rw [or_two_pow_63 hx]
    have : (2 ^ 63 + x) / 2 ^ 62 = 2 := by omega
    simp [this]
  · simp only []; rw [or_three_two_pow_62 hx]
    have : (3 * 2 ^ 62 + x) / 2 ^ 62 = 3 := by omega
    simp [this]

/-! ## index arithmetic -/

theorem le_divCeil_mul (n K : Nat) (hK : 0 < K) : n ≤ (n + K - 1) / K * K := by
  have h1 := Nat.div_add_mod (n + K - 1) K
  have h2 := Nat.mod_lt (n + K - 1) hK
  rw [Nat.mul_comm] at h1
  generalize (n + K - 1) / K * K = q at *
  omega

theorem div_lt_invSize {P : Params} {ws : Array Nat} {len r : Nat} (hr : r < count P ws len) :
    r / P.K < invSize P ws len := by
  unfold invSize
  rw [Nat.div_lt_iff_lt_mul P.K_pos]
  have := le_divCeil_mul (count P ws len) P.K P.K_pos
  omega

theorem div_mul_add_mod (r K : Nat) : r / K * K + r % K = r := by
  rw [Nat.mul_comm]; exact Nat.div_add_mod r K

theorem mod_lt_onesIn {P : Params} {ws : Array Nat} {len r : Nat} (hr : r < count P ws len) :
    r % P.K < onesIn P ws len (r / P.K) := by
  unfold onesIn
  have h1 := Nat.mod_lt r P.K_pos
  have h2 := div_mul_add_mod r P.K
  generalize r / P.K * P.K = q at *
  omega

/-- a rank inside entry `i` is a valid rank -/
theorem rank_lt_count {P : Params} {ws : Array Nat} {len i s : Nat} (hs : s < onesIn P ws len i) :
    i * P.K + s < count P ws len := by
  unfold onesIn at hs
  generalize i * P.K = q at *
  omega

/-- `K ≤ 4·U·2^s16` : the addressed 16-bit lane is one of the `4·U` lanes of the entry -/
theorem K_le (P : Params) : P.K ≤ 4 * P.U * 2 ^ P.s16 := by
  unfold Params.K Params.U Params.s16
  have : 4 * 2 ^ P.M * 2 ^ (P.L - (P.M + 2)) = 2 ^ (P.M + 2 + (P.L - (P.M + 2))) := by
    rw [Nat.pow_add, Nat.pow_add]; simp [Nat.mul_comm]
  rw [this]
  exact Nat.pow_le_pow_right (by omega) (by omega)

theorem entry_end_le {P : Params} {ws : Array Nat} {len i : Nat} (hi : i < invSize P ws len) :
    i * (P.U + 1) + (P.U + 1) ≤ invSize P ws len * (P.U + 1) := by
  have := Nat.mul_le_mul_right (P.U + 1) (show i + 1 ≤ invSize P ws len by omega)
  rw [Nat.add_mul, Nat.one_mul] at this
  exact this

theorem readU_getD {a : Array Nat} {i : Nat} (h : i < a.size) : Out.readU a i = .ok (a.getD i 0) :=
  readU_ok_of_lt h

/-! ## evaluation of the query, one lemma per encoding -/

theorem selectUnchecked_u16 (P : Params) (ws : Array Nat) (idx : Idx) (r e w : Nat)
    (he : Out.readU idx.inv (r / P.K * (P.U + 1)) = .ok e) (h16 : isU16 e = true)
    (hw : Out.readU idx.inv (r / P.K * (P.U + 1) + 1 + r % P.K / 2 ^ P.s16 / 4) = .ok w) :
    selectUnchecked P ws idx r
      = selectHintedP P.zero ws r (e + lane 16 w (r % P.K / 2 ^ P.s16 % 4)) (r - r % P.K % 2 ^ P.s16) := by
  unfold selectUnchecked readLaneU
  simp only [shr_L, shl_M, and_K, startPos_eq]
  simp only [shr_pow, and_pow, bind, Out.bind, he, h16, hw, if_true, pure]

theorem selectUnchecked_u32_local (P : Params) (ws : Array Nat) (idx : Idx) (r e nxt l32 j w : Nat)
    (he : Out.readU idx.inv (r / P.K * (P.U + 1)) = .ok e) (h16 : isU16 e = false) (h32 : isU32 e = true)
    (hn : Out.readU idx.inv (r / P.K * (P.U + 1) + P.U + 1) = .ok nxt)
    (hsp : ¬ getPos nxt < getPos e) (hspan : ¬ getPos nxt - getPos e < 2 ^ 16)
    (hl : l32 = P.s16 - (Nat.log2 ((getPos nxt - getPos e) / 2 ^ 15) + 1))
    (hj : j = r % P.K / 2 ^ l32) (hloc : j < (P.U - 1) * 2)
    (hw : Out.readU idx.inv (r / P.K * (P.U + 1) + 2 + j / 2) = .ok w) :
    selectUnchecked P ws idx r
      = selectHintedP P.zero ws r (getPos e + lane 32 w (j % 2)) (r - r % P.K % 2 ^ l32) := by
  subst hj
  unfold selectUnchecked readLaneU subC log2OnesPerSub32
  simp only [shr_L, shl_M, and_K, startPos_eq]
  simp only [shr_pow, and_pow, bind, Out.bind, he, h16, h32, hn, hsp, hspan,
    if_true, pure, Bool.false_eq_true, if_false, ← hl, hloc, hw]

theorem selectUnchecked_u32_spill (P : Params) (ws : Array Nat) (idx : Idx) (r e nxt l32 j s w : Nat)
    (he : Out.readU idx.inv (r / P.K * (P.U + 1)) = .ok e) (h16 : isU16 e = false) (h32 : isU32 e = true)
    (hn : Out.readU idx.inv (r / P.K * (P.U + 1) + P.U + 1) = .ok nxt)
    (hsp : ¬ getPos nxt < getPos e) (hspan : ¬ getPos nxt - getPos e < 2 ^ 16)
    (hl : l32 = P.s16 - (Nat.log2 ((getPos nxt - getPos e) / 2 ^ 15) + 1))
    (hj : j = r % P.K / 2 ^ l32) (hloc : ¬ j < (P.U - 1) * 2)
    (hs : Out.readU idx.inv (r / P.K * (P.U + 1) + 1) = .ok s)
    (hw : Out.readU idx.spill (s + (j - (P.U - 1) * 2) / 2) = .ok w) :
    selectUnchecked P ws idx r
      = selectHintedP P.zero ws r (getPos e + lane 32 w ((j - (P.U - 1) * 2) % 2))
          (r - r % P.K % 2 ^ l32) := by
  subst hj
  unfold selectUnchecked readLaneU subC log2OnesPerSub32
  simp only [shr_L, shl_M, and_K, startPos_eq]
  simp only [shr_pow, and_pow, bind, Out.bind, he, h16, h32, hn, hsp, hspan,
    if_true, pure, Bool.false_eq_true, if_false, ← hl, hloc, hs, hw]

theorem selectUnchecked_u64 (P : Params) (ws : Array Nat) (idx : Idx) (r e : Nat)
    (he : Out.readU idx.inv (r / P.K * (P.U + 1)) = .ok e) (h16 : isU16 e = false) (h32 : isU32 e = false)
    (h64 : isU64 e = true) :
    selectUnchecked P ws idx r =
      if r % P.K < P.U then
        (if r % P.K = 0 then .ok (getPos e) else Out.readU idx.inv (r / P.K * (P.U + 1) + 1 + r % P.K))
      else
        (Out.readU idx.inv (r / P.K * (P.U + 1) + 1)).bind
          (fun s => Out.readU idx.spill (s + r % P.K - P.U)) := by
  unfold selectUnchecked
  simp only [shr_L, shl_M, and_K, startPos_eq, bind, Out.bind, he, h16, h32, h64, pure,
    Bool.false_eq_true, if_false, not_true_eq_false]


/-! ## the main lemma -/

theorem mul_K_lt_count {P : Params} {ws : Array Nat} {len i : Nat} (hi : i < invSize P ws len) :
    i * P.K < count P ws len := by
  apply Nat.lt_of_not_le
  intro hge
  unfold invSize at hi
  have : (count P ws len + P.K - 1) / P.K < i + 1 := by
    rw [Nat.div_lt_iff_lt_mul P.K_pos, Nat.add_mul, Nat.one_mul]
    have := P.K_pos
    omega
  omega

theorem fromSpan_u16 {x : Nat} (h : SpanType.fromSpan x = .u16) : x ≤ 0x10000 := by
  unfold SpanType.fromSpan at h
  split at h
  · assumption
  · split at h <;> cases h

theorem fromSpan_u32 {x : Nat} (h : SpanType.fromSpan x = .u32) : 0x10000 < x ∧ x ≤ 0x100000000 := by
  unfold SpanType.fromSpan at h
  split at h
  · cases h
  · split at h
    · omega
    · cases h

theorem fromSpan_u64 {x : Nat} (h : SpanType.fromSpan x = .u64) : 0x100000000 < x := by
  unfold SpanType.fromSpan at h
  split at h
  · cases h
  · split at h
    · cases h
    · omega

/-- what the word after the subinventory of entry `i` holds once the tag is stripped -/
theorem getPos_next {P : Params} {idx : Idx} {ws : Array Nat} {len : Nat} (h : AdaptInvOK P idx ws len)
    {i : Nat} (hi : i < invSize P ws len) :
    getPos (idx.inv.getD (i * (P.U + 1) + P.U + 1) 0) = nextPos P ws len i := by
  unfold nextPos
  have hidx : i * (P.U + 1) + P.U + 1 = (i + 1) * (P.U + 1) := by rw [Nat.add_mul, Nat.one_mul]; omega
  rw [hidx]
  by_cases hn : i + 1 < invSize P ws len
  · rw [if_pos hn, h.entry (i + 1) hn]
    apply getPos_tagged
    have := (pos_spec (mul_K_lt_count hn)).1
    have := h.len_lt
    omega
  · rw [if_neg hn]
    have : i + 1 = invSize P ws len := by omega
    rw [this, h.sentinel, getPos_eq_mod]
    have := h.len_lt
    omega

theorem pos_le_nextPos {P : Params} {ws : Array Nat} {len i : Nat} (hi : i < invSize P ws len) :
    pos P ws len (i * P.K) ≤ nextPos P ws len i := by
  unfold nextPos
  have h0 := pos_spec (mul_K_lt_count hi)
  by_cases hn : i + 1 < invSize P ws len
  · rw [if_pos hn]
    have h1 := pos_spec (mul_K_lt_count hn)
    exact h0.at.le_of_le h1.at (Nat.mul_le_mul_right _ (by omega))
  · rw [if_neg hn]
    have := h0.1
    omega

/-- **(Q)** core: with the invariant, `select_unchecked` returns the position of the bit of rank `r`
for every valid rank, in particular it never performs an out-of-bounds unchecked read -/
theorem selectUnchecked_correct_aux (P : Params) (idx : Idx) (ws : Array Nat) (len : Nat)
    (hlen : len ≤ 64 * ws.size) (h : AdaptInvOK P idx ws len) (r i sub : Nat)
    (hi_def : r / P.K = i) (hs_def : r % P.K = sub) (hr : r < count P ws len) :
    selectUnchecked P ws idx r = .ok (pos P ws len r) := by
  have hi : i < invSize P ws len := by rw [← hi_def]; exact div_lt_invSize hr
  have hsub : sub < onesIn P ws len i := by rw [← hi_def, ← hs_def]; exact mod_lt_onesIn hr
  have hdm : i * P.K + sub = r := by rw [← hi_def, ← hs_def]; exact div_mul_add_mod r P.K
  have hsubK : sub < P.K := by rw [← hs_def]; exact Nat.mod_lt r P.K_pos
  have hend := entry_end_le hi
  have hsz := h.size_inv
  have hU := P.U_pos
  have hp0 := pos_spec (mul_K_lt_count hi)
  have hpr := pos_spec hr
  have hlen62 := h.len_lt
  have hp0lt : pos P ws len (i * P.K) < 2 ^ 62 := by have := hp0.1; omega
  have he : Out.readU idx.inv (i * (P.U + 1)) =
      .ok (pos P ws len (i * P.K) ||| tagOf (spanOf P ws len i)) := by
    rw [readU_getD (by omega), h.entry i hi]
  cases hty : SpanType.fromSpan (spanOf P ws len i)
  · -- U16
    have h16 : isU16 (pos P ws len (i * P.K) ||| tagOf (spanOf P ws len i)) = true := by
      rw [isU16_tagged hp0lt, hty]; rfl
    have hq : 0 < 2 ^ P.s16 := Nat.two_pow_pos _
    have hjq : sub / 2 ^ P.s16 * 2 ^ P.s16 ≤ sub := Nat.div_mul_le_self sub _
    have hjK : sub / 2 ^ P.s16 < P.K := Nat.lt_of_le_of_lt (Nat.div_le_self _ _) hsubK
    have hj4U : sub / 2 ^ P.s16 < 4 * P.U := by
      have := K_le P
      exact Nat.lt_of_mul_lt_mul_right (a := 2 ^ P.s16) (by omega)
    have hlane := h.sub16 i hi hty (sub / 2 ^ P.s16) hjK (by omega)
    have hrd : Out.readU idx.inv (i * (P.U + 1) + 1 + sub / 2 ^ P.s16 / 4) =
        .ok (idx.inv.getD (i * (P.U + 1) + 1 + sub / 2 ^ P.s16 / 4) 0) := readU_getD (by omega)
    have hev := selectUnchecked_u16 P ws idx r _ _ (by rw [hi_def]; exact he) h16
      (by rw [hi_def, hs_def]; exact hrd)
    rw [hev, hs_def, hlane]
    have hjr : i * P.K + sub / 2 ^ P.s16 * 2 ^ P.s16 < count P ws len := rank_lt_count (by omega)
    have hpj := pos_spec hjr
    have hmono := hp0.at.le_of_le hpj.at (by omega)
    have hte : pos P ws len (i * P.K) ||| tagOf (spanOf P ws len i) = pos P ws len (i * P.K) := by
      unfold tagOf; rw [hty]; exact Nat.or_zero _
    have hdiv := Nat.div_add_mod sub (2 ^ P.s16)
    rw [Nat.mul_comm] at hdiv
    apply selectHintedP_correct P.zero ws len r _ _ _ hlen hpr
    · rw [hte, show pos P ws len (i * P.K) + (pos P ws len (i * P.K + sub / 2 ^ P.s16 * 2 ^ P.s16) -
          pos P ws len (i * P.K)) = pos P ws len (i * P.K + sub / 2 ^ P.s16 * 2 ^ P.s16) by omega]
      exact hpj.at.le_of_le hpr.at (by omega)
    · rw [hte, show pos P ws len (i * P.K) + (pos P ws len (i * P.K + sub / 2 ^ P.s16 * 2 ^ P.s16) -
          pos P ws len (i * P.K)) = pos P ws len (i * P.K + sub / 2 ^ P.s16 * 2 ^ P.s16) by omega]
      rw [hpj.2.2]; omega
  · -- U32
    have h16 : isU16 (pos P ws len (i * P.K) ||| tagOf (spanOf P ws len i)) = false := by
      rw [isU16_tagged hp0lt, hty]; rfl
    have h32 : isU32 (pos P ws len (i * P.K) ||| tagOf (spanOf P ws len i)) = true := by
      rw [isU32_tagged hp0lt, hty]; rfl
    have hge := getPos_tagged hp0lt (spanOf P ws len i)
    have hnx := getPos_next h hi
    have hple := pos_le_nextPos (P := P) (ws := ws) (len := len) hi
    have hspan := fromSpan_u32 hty
    have hn : Out.readU idx.inv (i * (P.U + 1) + P.U + 1) =
        .ok (idx.inv.getD (i * (P.U + 1) + P.U + 1) 0) := readU_getD (by omega)
    have hspanEq : getPos (idx.inv.getD (i * (P.U + 1) + P.U + 1) 0) -
        getPos (pos P ws len (i * P.K) ||| tagOf (spanOf P ws len i)) = spanOf P ws len i := by
      rw [hge, hnx]; rfl
    have hl : l32Of P ws len i = P.s16 - (Nat.log2 ((getPos (idx.inv.getD (i * (P.U + 1) + P.U + 1) 0) -
        getPos (pos P ws len (i * P.K) ||| tagOf (spanOf P ws len i))) / 2 ^ 15) + 1) := by
      rw [hspanEq]; unfold l32Of; rw [shr_pow]
    generalize hl32 : l32Of P ws len i = l32 at *
    have hq : 0 < 2 ^ l32 := Nat.two_pow_pos _
    have hjq : sub / 2 ^ l32 * 2 ^ l32 ≤ sub := Nat.div_mul_le_self sub _
    have hjK : sub / 2 ^ l32 < P.K := Nat.lt_of_le_of_lt (Nat.div_le_self _ _) hsubK
    have hsub32 := h.sub32 i hi hty (sub / 2 ^ l32) hjK (by rw [hl32]; omega)
    rw [hl32] at hsub32
    have hjr : i * P.K + sub / 2 ^ l32 * 2 ^ l32 < count P ws len := rank_lt_count (by omega)
    have hpj := pos_spec hjr
    have hmono := hp0.at.le_of_le hpj.at (by omega)
    have hdiv := Nat.div_add_mod sub (2 ^ l32)
    rw [Nat.mul_comm] at hdiv
    have hfin : ∀ lv, lv = pos P ws len (i * P.K + sub / 2 ^ l32 * 2 ^ l32) - pos P ws len (i * P.K) →
        selectHintedP P.zero ws r (getPos (pos P ws len (i * P.K) ||| tagOf (spanOf P ws len i)) + lv)
          (r - sub % 2 ^ l32) = .ok (pos P ws len r) := by
      intro lv hlv
      apply selectHintedP_correct P.zero ws len r _ _ _ hlen hpr
      · rw [hge, hlv, show pos P ws len (i * P.K) + (pos P ws len (i * P.K + sub / 2 ^ l32 * 2 ^ l32) -
            pos P ws len (i * P.K)) = pos P ws len (i * P.K + sub / 2 ^ l32 * 2 ^ l32) by omega]
        exact hpj.at.le_of_le hpr.at (by omega)
      · rw [hge, hlv, show pos P ws len (i * P.K) + (pos P ws len (i * P.K + sub / 2 ^ l32 * 2 ^ l32) -
            pos P ws len (i * P.K)) = pos P ws len (i * P.K + sub / 2 ^ l32 * 2 ^ l32) by omega]
        rw [hpj.2.2]; omega
    by_cases hloc : sub / 2 ^ l32 < (P.U - 1) * 2
    · rw [if_pos hloc] at hsub32
      have hrd : Out.readU idx.inv (i * (P.U + 1) + 2 + sub / 2 ^ l32 / 2) =
          .ok (idx.inv.getD (i * (P.U + 1) + 2 + sub / 2 ^ l32 / 2) 0) := readU_getD (by omega)
      have hev := selectUnchecked_u32_local P ws idx r _ _ l32 (sub / 2 ^ l32) _
        (by rw [hi_def]; exact he) h16 h32 (by rw [hi_def]; exact hn) (by rw [hge, hnx]; omega)
        (by rw [hspanEq]; omega) hl (by rw [hs_def]) hloc (by rw [hi_def]; exact hrd)
      rw [hev, hs_def]
      exact hfin _ hsub32
    · rw [if_neg hloc] at hsub32
      have hs : Out.readU idx.inv (i * (P.U + 1) + 1) = .ok (idx.inv.getD (i * (P.U + 1) + 1) 0) :=
        readU_getD (by omega)
      have hrd := readU_getD hsub32.1
      have hev := selectUnchecked_u32_spill P ws idx r _ _ l32 (sub / 2 ^ l32) _ _
        (by rw [hi_def]; exact he) h16 h32 (by rw [hi_def]; exact hn) (by rw [hge, hnx]; omega)
        (by rw [hspanEq]; omega) hl (by rw [hs_def]) hloc (by rw [hi_def]; exact hs) hrd
      rw [hev, hs_def]
      exact hfin _ hsub32.2
  · -- U64
    have h16 : isU16 (pos P ws len (i * P.K) ||| tagOf (spanOf P ws len i)) = false := by
      rw [isU16_tagged hp0lt, hty]; rfl
    have h32 : isU32 (pos P ws len (i * P.K) ||| tagOf (spanOf P ws len i)) = false := by
      rw [isU32_tagged hp0lt, hty]; rfl
    have h64 : isU64 (pos P ws len (i * P.K) ||| tagOf (spanOf P ws len i)) = true := by
      rw [isU64_tagged hp0lt, hty]; rfl
    have hge := getPos_tagged hp0lt (spanOf P ws len i)
    have hev := selectUnchecked_u64 P ws idx r _ (by rw [hi_def]; exact he) h16 h32 h64
    rw [hev, hi_def, hs_def, hge]
    by_cases hsU : sub < P.U
    · rw [if_pos hsU]
      by_cases hs0 : sub = 0
      · rw [if_pos hs0]
        subst hs0
        rw [← hdm]; rfl
      · rw [if_neg hs0]
        have h64s := h.sub64 i hi hty sub hsubK (by omega) hsub
        unfold Sub64At at h64s
        rw [if_pos hsU] at h64s
        rw [readU_getD (by omega), h64s, hdm]
    · rw [if_neg hsU]
      have h64s := h.sub64 i hi hty sub hsubK (by omega) hsub
      unfold Sub64At at h64s
      rw [if_neg hsU] at h64s
      rw [readU_getD (show i * (P.U + 1) + 1 < idx.inv.size by omega)]
      simp only [Out.bind]
      rw [readU_getD h64s.1, h64s.2, hdm]

theorem selectUnchecked_correct (P : Params) (idx : Idx) (ws : Array Nat) (len : Nat)
    (hlen : len ≤ 64 * ws.size) (h : AdaptInvOK P idx ws len) (r : Nat) (hr : r < count P ws len) :
    selectUnchecked P ws idx r = .ok (pos P ws len r) :=
  selectUnchecked_correct_aux P idx ws len hlen h r _ _ rfl rfl hr

end Sux.RS.Adapt
