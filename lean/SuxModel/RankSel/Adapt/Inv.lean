import SuxModel.RankSel.Adapt.Model
import SuxModel.RankSel.CntLemmas
/-!
# `AdaptInvOK`: what the arrays of a `SelectAdapt`-family index must contain (C02, T-A ii)

Everything is stated over the polarity bit function `f = polBit P.zero ws` restricted to `len`:
`count = cnt f len` bits are selectable, `pos r` is the position of the one of rank `r`.
All quantifiers are bounded and every function used is computable: the predicate is decidable
(`instance : Decidable (AdaptInvOK …)` below) — it is the certificate a checker evaluates on exported
arrays.
-/
namespace Sux.RS.Adapt
open Sux.RS

/-- position of the `f`-bit of rank `r` among the first `len` bits (`0` if there is none) -/
def selPos (f : Nat → Bool) (len r : Nat) : Nat := (((List.range len).filter f)[r]?).getD 0

/-- tag in the two top bits of an inventory entry (`set_u16_span` / `set_u32_span` / `set_u64_span`) -/
def tagOf (span : Nat) : Nat :=
  match SpanType.fromSpan span with
  | .u16 => 0
  | .u32 => 2 ^ 63
  | .u64 => 3 * 2 ^ 62

section
variable (P : Params) (ws : Array Nat) (len : Nat)

/-- selectable bits -/
def count : Nat := cnt (polBit P.zero ws) len
/-- `inventory_size = num_ones.div_ceil(ones_per_inventory)` -/
def invSize : Nat := (count P ws len + P.K - 1) / P.K
/-- position of the bit of rank `r` -/
def pos (r : Nat) : Nat := selPos (polBit P.zero ws) len r
/-- ones covered by inventory entry `i`: `min(num_ones - i·K, K)` -/
def onesIn (i : Nat) : Nat := min P.K (count P ws len - i * P.K)
/-- end of the span of entry `i`: next inventory position, or the sentinel `max(1, len)` -/
def nextPos (i : Nat) : Nat :=
  if i + 1 < invSize P ws len then pos P ws len ((i + 1) * P.K) else max 1 len
def spanOf (i : Nat) : Nat := nextPos P ws len i - pos P ws len (i * P.K)
/-- `log2_ones_per_sub32` of entry `i` (meaningful for U32 spans) -/
def l32Of (i : Nat) : Nat := P.s16 - (Nat.log2 (spanOf P ws len i >>> 15) + 1)

variable (idx : Idx)

/-- every inventory entry is the position of the one of rank `i·K`, tagged with its span type -/
def EntryOK : Prop := ∀ i, i < invSize P ws len →
  idx.inv.getD (i * (P.U + 1)) 0 = pos P ws len (i * P.K) ||| tagOf (spanOf P ws len i)

/-- U16 spans: lane `j` of the 16-bit lanes after the entry holds the offset of the one of rank
`i·K + j·2^s16`, for every `j` the query can address (`j·2^s16 < onesIn i`) -/
def Sub16OK : Prop := ∀ i, i < invSize P ws len → SpanType.fromSpan (spanOf P ws len i) = .u16 →
  ∀ j, j < P.K → j * 2 ^ P.s16 < onesIn P ws len i →
    lane 16 (idx.inv.getD (i * (P.U + 1) + 1 + j / 4) 0) (j % 4)
      = pos P ws len (i * P.K + j * 2 ^ P.s16) - pos P ws len (i * P.K)

/-- U32 spans: `2·(U−1)` 32-bit lanes after the spill pointer, the rest in the spill from the pointer on -/
def Sub32OK : Prop := ∀ i, i < invSize P ws len → SpanType.fromSpan (spanOf P ws len i) = .u32 →
  ∀ j, j < P.K → j * 2 ^ l32Of P ws len i < onesIn P ws len i →
    if j < (P.U - 1) * 2 then
      lane 32 (idx.inv.getD (i * (P.U + 1) + 2 + j / 2) 0) (j % 2)
        = pos P ws len (i * P.K + j * 2 ^ l32Of P ws len i) - pos P ws len (i * P.K)
    else
      idx.inv.getD (i * (P.U + 1) + 1) 0 + (j - (P.U - 1) * 2) / 2 < idx.spill.size ∧
      lane 32 (idx.spill.getD (idx.inv.getD (i * (P.U + 1) + 1) 0 + (j - (P.U - 1) * 2) / 2) 0)
          ((j - (P.U - 1) * 2) % 2)
        = pos P ws len (i * P.K + j * 2 ^ l32Of P ws len i) - pos P ws len (i * P.K)

/-- the slot of the one of rank `i·K + s` (`s ≥ 1`) of a U64 span holds its absolute position -/
def Sub64At (i s : Nat) : Prop :=
  if s < P.U then
    idx.inv.getD (i * (P.U + 1) + 1 + s) 0 = pos P ws len (i * P.K + s)
  else
    idx.inv.getD (i * (P.U + 1) + 1) 0 + s - P.U < idx.spill.size ∧
    idx.spill.getD (idx.inv.getD (i * (P.U + 1) + 1) 0 + s - P.U) 0 = pos P ws len (i * P.K + s)

instance (i s : Nat) : Decidable (Sub64At P ws len idx i s) := by unfold Sub64At; infer_instance

/-- U64 spans: absolute positions of every one after the first, `U−1` locally, the rest spilled -/
def Sub64OK : Prop := ∀ i, i < invSize P ws len → SpanType.fromSpan (spanOf P ws len i) = .u64 →
  ∀ s, s < P.K → 1 ≤ s → s < onesIn P ws len i → Sub64At P ws len idx i s

instance : Decidable (EntryOK P ws len idx) := by unfold EntryOK; infer_instance
instance : Decidable (Sub16OK P ws len idx) := by unfold Sub16OK; infer_instance
instance : Decidable (Sub32OK P ws len idx) := by unfold Sub32OK; infer_instance
instance : Decidable (Sub64OK P ws len idx) := by unfold Sub64OK; infer_instance

end

/-- **the invariant** -/
structure AdaptInvOK (P : Params) (idx : Idx) (ws : Array Nat) (len : Nat) : Prop where
  /-- positions must leave the two tag bits free -/
  len_lt : max 1 len < 2 ^ 62
  size_inv : idx.inv.size = invSize P ws len * (P.U + 1) + 1
  sentinel : idx.inv.getD (invSize P ws len * (P.U + 1)) 0 = max 1 len
  entry : EntryOK P ws len idx
  sub16 : Sub16OK P ws len idx
  sub32 : Sub32OK P ws len idx
  sub64 : Sub64OK P ws len idx

theorem adaptInvOK_iff (P : Params) (idx : Idx) (ws : Array Nat) (len : Nat) :
    AdaptInvOK P idx ws len ↔
      (max 1 len < 2 ^ 62 ∧ idx.inv.size = invSize P ws len * (P.U + 1) + 1 ∧
       idx.inv.getD (invSize P ws len * (P.U + 1)) 0 = max 1 len ∧
       EntryOK P ws len idx ∧ Sub16OK P ws len idx ∧ Sub32OK P ws len idx ∧ Sub64OK P ws len idx) :=
  ⟨fun h => ⟨h.1, h.2, h.3, h.4, h.5, h.6, h.7⟩, fun ⟨a, b, c, d, e, f, g⟩ => ⟨a, b, c, d, e, f, g⟩⟩

instance (P : Params) (idx : Idx) (ws : Array Nat) (len : Nat) : Decidable (AdaptInvOK P idx ws len) :=
  decidable_of_iff _ (adaptInvOK_iff P idx ws len).symm

end Sux.RS.Adapt
