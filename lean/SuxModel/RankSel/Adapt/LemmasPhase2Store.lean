import SuxModel.RankSel.Adapt.LemmasPhase2Loop
/-!
# (B) phase 2, storage part: the three encodings of `storeQuantum`
-/
namespace Sux.RS.Adapt
open Sux.RS

/-- positions inside the span of entry `i` -/
theorem pos_lt_nextPos {P : Params} {ws : Array Nat} {len i s : Nat} (_hi : i < invSize P ws len)
    (hs : s < onesIn P ws len i) : pos P ws len (i * P.K + s) < nextPos P ws len i := by
  have hr := rank_lt_count hs
  have hsK : s < P.K := Nat.lt_of_lt_of_le hs (onesIn_le_K P ws len i)
  unfold nextPos
  by_cases hn : i + 1 < invSize P ws len
  · rw [if_pos hn]
    have h1 := pos_spec (mul_K_lt_count hn)
    have h2 := pos_spec hr
    exact h2.at.lt_of_lt h1.at (by rw [Nat.add_mul, Nat.one_mul]; omega)
  · rw [if_neg hn]
    have := (pos_spec hr).1
    omega

theorem pos_ge_start {P : Params} {ws : Array Nat} {len i s : Nat}
    (hs : s < onesIn P ws len i) : pos P ws len (i * P.K) ≤ pos P ws len (i * P.K + s) := by
  have hr := rank_lt_count hs
  have h0 : i * P.K < count P ws len := by omega
  exact (pos_spec h0).at.le_of_le (pos_spec hr).at (by omega)

/-- offsets are smaller than the span -/
theorem off_lt_span {P : Params} {ws : Array Nat} {len i s : Nat} (hi : i < invSize P ws len)
    (hs : s < onesIn P ws len i) :
    pos P ws len (i * P.K + s) - pos P ws len (i * P.K) < spanOf P ws len i := by
  have h1 := pos_lt_nextPos hi hs
  have h2 := pos_ge_start (P := P) (ws := ws) (len := len) (i := i) hs
  unfold spanOf
  omega

/-- words of the spill used by entry `i` (what the estimation loop adds for it) -/
def spillSpec (P : Params) (ws : Array Nat) (len : Nat) (i : Nat) : Nat :=
  match SpanType.fromSpan (spanOf P ws len i) with
  | .u32 => ((onesIn P ws len i + 2 ^ l32Of P ws len i - 1) / 2 ^ l32Of P ws len i + 1) / 2 - (P.U - 1)
  | .u64 => (onesIn P ws len i - 1) - (P.U - 1)
  | .u16 => 0

theorem lt_divCeil {t q ones : Nat} (hq : 0 < q) (h : t * q < ones) : t < (ones + q - 1) / q := by
  have : t + 1 ≤ (ones + q - 1) / q := by
    rw [Nat.le_div_iff_mul_le hq, Nat.add_mul, Nat.one_mul]; omega
  omega

/-- everything `storeQuantum` needs to know about the entry being processed -/
structure StoreCtx (P : Params) (ws : Array Nat) (len : Nat) (C : Ctx) (i : Nat)
    (inv0 spill0 : Array Nat) (sp0 : Nat) : Prop where
  hi : i < invSize P ws len
  hP : C.P = P
  hbase : C.startInv = i * (P.U + 1)
  hty : C.ty = SpanType.fromSpan (spanOf P ws len i)
  hsize : i * (P.U + 1) + P.U + 1 < inv0.size
  hspillSize : C.spillSize = spill0.size
  hroom : sp0 + spillSpec P ws len i ≤ spill0.size

section u16
variable {P : Params} {ws : Array Nat} {len : Nat} {C : Ctx} {i : Nat}
variable {inv0 spill0 : Array Nat} {sp0 : Nat}

/-- U16 encoding: `t` lanes stored -/
structure Slots16 (P : Params) (ws : Array Nat) (len : Nat) (C : Ctx) (i : Nat)
    (inv0 spill0 : Array Nat) (sp0 : Nat) (s : Loop) (t : Nat) : Prop where
  size : s.inv.size = inv0.size
  spill : s.spill = spill0
  spilled : s.spilled = sp0
  sub : s.subIdx = t
  frame : ∀ k, (k < i * (P.U + 1) + 1 ∨ i * (P.U + 1) + P.U < k) → s.inv.getD k 0 = inv0.getD k 0
  slots : ∀ j, j < t → slotLane 16 4 s.inv (i * (P.U + 1) + 1) j
    = pos P ws len (i * P.K + j * 2 ^ C.log2q) - pos P ws len (i * P.K)

theorem slots16_nextQFree : NextQFree (Slots16 P ws len C i inv0 spill0 sp0) := by
  intro s t x h
  exact ⟨h.size, h.spill, h.spilled, h.sub, h.frame, h.slots⟩

theorem slots16_storeOK (X : StoreCtx P ws len C i inv0 spill0 sp0) (hty : C.ty = .u16)
    (hlog : C.log2q = P.s16) :
    StoreOK P ws len C i (Slots16 P ws len C i inv0 spill0 sp0) := by
  intro s t hs ht htq
  have hU := P.U_pos
  have hq : 0 < 2 ^ C.log2q := Nat.two_pow_pos _
  have ht4 : t < 4 * P.U := by
    have h1 := K_le P
    have h2 := onesIn_le_K P ws len i
    rw [hlog] at htq
    exact Nat.lt_of_mul_lt_mul_right (a := 2 ^ P.s16) (by omega)
  have hin : i * (P.U + 1) + 1 + t / 4 < s.inv.size := by
    have := X.hsize; rw [hs.size]; omega
  have hoff := off_lt_span X.hi htq
  have hspan : spanOf P ws len i ≤ 0x10000 := fromSpan_u16 (by rw [← X.hty]; exact hty)
  unfold storeQuantum
  rw [hty]
  simp only [X.hP, X.hbase, bind, Out.bind]
  rw [hs.sub, writeLaneS_eq 16 4 s.inv _ P.U t _ ht4 hin]
  simp only [pure]
  refine ⟨_, _, rfl, rfl, ?_, ?_⟩
  · refine ⟨?_, hs.spill, hs.spilled, rfl, ?_, ?_⟩
    · simp only [Array.size_setIfInBounds]; exact hs.size
    · intro k hk
      simp only []
      rw [getD_setIfInBounds, if_neg (by omega)]
      exact hs.frame k hk
    · intro j hj
      simp only []
      rw [slotLane_write 16 4 s.inv _ t _ j hin]
      by_cases hjt : j = t
      · rw [if_pos hjt, hjt]
        exact Nat.mod_eq_of_lt (by omega)
      · rw [if_neg hjt]
        exact hs.slots j (by omega)
  · intro hstop
    simp only [beq_iff_eq] at hstop
    rw [Nat.shiftLeft_eq] at hstop
    omega

end u16

section u32
variable {P : Params} {ws : Array Nat} {len : Nat} {C : Ctx} {i : Nat}
variable {inv0 spill0 : Array Nat} {sp0 : Nat}

/-- raw content of 32-bit slot `j` of entry `i`: local lanes, then spill lanes from `sp0` on -/
def slotRaw32 (P : Params) (i sp0 : Nat) (inv spill : Array Nat) (j : Nat) : Nat :=
  if j < (P.U - 1) * 2 then slotLane 32 2 inv (i * (P.U + 1) + 2) j
  else slotLane 32 2 spill sp0 (j - (P.U - 1) * 2)

/-- U32 encoding: `t` lanes stored, the others still zero -/
structure Slots32 (P : Params) (ws : Array Nat) (len : Nat) (C : Ctx) (i : Nat)
    (inv0 spill0 : Array Nat) (sp0 : Nat) (s : Loop) (t : Nat) : Prop where
  size : s.inv.size = inv0.size
  ssize : s.spill.size = spill0.size
  spilled : s.spilled = sp0
  sub : s.subIdx = t
  frame : ∀ k, (k < i * (P.U + 1) + 2 ∨ i * (P.U + 1) + P.U < k) → s.inv.getD k 0 = inv0.getD k 0
  sframe : ∀ k, (k < sp0 ∨ sp0 + spillSpec P ws len i ≤ k) → s.spill.getD k 0 = spill0.getD k 0
  slots : ∀ j, j < t → slotRaw32 P i sp0 s.inv s.spill j
    = pos P ws len (i * P.K + j * 2 ^ C.log2q) - pos P ws len (i * P.K)
  zeros : ∀ j, t ≤ j → slotRaw32 P i sp0 s.inv s.spill j = 0

theorem slots32_nextQFree : NextQFree (Slots32 P ws len C i inv0 spill0 sp0) := by
  intro s t x h
  exact ⟨h.size, h.ssize, h.spilled, h.sub, h.frame, h.sframe, h.slots, h.zeros⟩

theorem slots32_storeOK (X : StoreCtx P ws len C i inv0 spill0 sp0) (hty : C.ty = .u32)
    (hlog : C.log2q = l32Of P ws len i) :
    StoreOK P ws len C i (Slots32 P ws len C i inv0 spill0 sp0) := by
  intro s t hs ht htq
  have hU := P.U_pos
  have hq : 0 < 2 ^ C.log2q := Nat.two_pow_pos _
  have hoff := off_lt_span X.hi htq
  have hty' : SpanType.fromSpan (spanOf P ws len i) = .u32 := by rw [← X.hty]; exact hty
  have hspan := (fromSpan_u32 hty').2
  have hv : (pos P ws len (i * P.K + t * 2 ^ C.log2q) - pos P ws len (i * P.K)) % 2 ^ 32 =
      pos P ws len (i * P.K + t * 2 ^ C.log2q) - pos P ws len (i * P.K) :=
    Nat.mod_eq_of_lt (by omega)
  have hz := hs.zeros t (Nat.le_refl _)
  unfold storeQuantum
  rw [hty]
  simp only [X.hP, X.hbase, bind, Out.bind]
  rw [hs.sub]
  by_cases hloc : t < (P.U - 1) * 2
  · -- stored locally
    have hloc' : t < 2 * (P.U - 1) := by omega
    have hin : i * (P.U + 1) + 2 + t / 2 < s.inv.size := by
      have := X.hsize; rw [hs.size]; omega
    unfold slotRaw32 at hz
    rw [if_pos hloc] at hz
    rw [if_pos hloc', readLaneS_eq 32 2 s.inv _ (P.U - 1) t hloc' hin, hz]
    simp only [ne_eq, not_true_eq_false, if_false]
    rw [writeLaneS_eq 32 2 s.inv _ (P.U - 1) t _ hloc' hin]
    simp only [pure]
    refine ⟨_, _, rfl, rfl, ?_, ?_⟩
    · refine ⟨?_, hs.ssize, hs.spilled, rfl, ?_, hs.sframe, ?_, ?_⟩
      · simp only [Array.size_setIfInBounds]; exact hs.size
      · intro k hk
        simp only []
        rw [getD_setIfInBounds, if_neg (by omega)]
        exact hs.frame k hk
      · intro j hj
        simp only []
        unfold slotRaw32
        by_cases hjl : j < (P.U - 1) * 2
        · rw [if_pos hjl, slotLane_write 32 2 s.inv _ t _ j hin]
          by_cases hjt : j = t
          · rw [if_pos hjt, hjt, hv]
          · rw [if_neg hjt]
            have := hs.slots j (by omega)
            unfold slotRaw32 at this
            rw [if_pos hjl] at this
            exact this
        · rw [if_neg hjl]
          have := hs.slots j (by omega)
          unfold slotRaw32 at this
          rw [if_neg hjl] at this
          exact this
      · intro j hj
        simp only []
        unfold slotRaw32
        by_cases hjl : j < (P.U - 1) * 2
        · rw [if_pos hjl, slotLane_write 32 2 s.inv _ t _ j hin, if_neg (by omega)]
          have := hs.zeros j (by omega)
          unfold slotRaw32 at this
          rw [if_pos hjl] at this
          exact this
        · rw [if_neg hjl]
          have := hs.zeros j (by omega)
          unfold slotRaw32 at this
          rw [if_neg hjl] at this
          exact this
    · intro hstop
      simp only [beq_iff_eq] at hstop
      rw [Nat.shiftLeft_eq] at hstop
      omega
  · -- stored in the spill
    have hloc' : ¬ t < 2 * (P.U - 1) := by omega
    have hc : t < (onesIn P ws len i + 2 ^ l32Of P ws len i - 1) / 2 ^ l32Of P ws len i := by
      rw [hlog] at htq hq
      exact lt_divCeil hq htq
    have hroom := X.hroom
    unfold spillSpec at hroom
    rw [hty'] at hroom
    simp only [] at hroom
    generalize hcdef : (onesIn P ws len i + 2 ^ l32Of P ws len i - 1) / 2 ^ l32Of P ws len i = c at hc hroom
    have hin : sp0 + (t - 2 * (P.U - 1)) / 2 < s.spill.size := by rw [hs.ssize]; omega
    have hcap : t - 2 * (P.U - 1) < 2 * (s.spill.size - sp0) := by rw [hs.ssize]; omega
    unfold slotRaw32 at hz
    rw [if_neg hloc, show (P.U - 1) * 2 = 2 * (P.U - 1) by omega] at hz
    rw [if_neg hloc', hs.spilled]
    rw [if_neg (by rw [hs.ssize]; omega)]
    rw [readLaneS_eq 32 2 s.spill sp0 _ _ hcap hin, hz]
    simp only [ne_eq, not_true_eq_false, if_false]
    rw [writeLaneS_eq 32 2 s.spill sp0 _ _ _ hcap hin]
    simp only [pure]
    refine ⟨_, _, rfl, rfl, ?_, ?_⟩
    · refine ⟨hs.size, ?_, rfl, rfl, hs.frame, ?_, ?_, ?_⟩
      · simp only [Array.size_setIfInBounds]; exact hs.ssize
      · intro k hk
        simp only []
        rw [getD_setIfInBounds, if_neg (by
          unfold spillSpec at hk; rw [hty'] at hk; simp only [] at hk
          rw [hcdef] at hk
          omega)]
        exact hs.sframe k hk
      · intro j hj
        simp only []
        unfold slotRaw32
        by_cases hjl : j < (P.U - 1) * 2
        · rw [if_pos hjl]
          have := hs.slots j (by omega)
          unfold slotRaw32 at this
          rw [if_pos hjl] at this
          exact this
        · rw [if_neg hjl, show (P.U - 1) * 2 = 2 * (P.U - 1) by omega,
            slotLane_write 32 2 s.spill sp0 _ _ _ hin]
          by_cases hjt : j = t
          · rw [if_pos (by omega), hjt, hv]
          · rw [if_neg (by omega)]
            have := hs.slots j (by omega)
            unfold slotRaw32 at this
            rw [if_neg hjl, show (P.U - 1) * 2 = 2 * (P.U - 1) by omega] at this
            exact this
      · intro j hj
        simp only []
        unfold slotRaw32
        by_cases hjl : j < (P.U - 1) * 2
        · omega
        · rw [if_neg hjl, show (P.U - 1) * 2 = 2 * (P.U - 1) by omega,
            slotLane_write 32 2 s.spill sp0 _ _ _ hin, if_neg (by omega)]
          have := hs.zeros j (by omega)
          unfold slotRaw32 at this
          rw [if_neg hjl, show (P.U - 1) * 2 = 2 * (P.U - 1) by omega] at this
          exact this
    · intro hstop
      simp only [beq_iff_eq] at hstop
      rw [Nat.shiftLeft_eq] at hstop
      omega

end u32

section u64
variable {P : Params} {ws : Array Nat} {len : Nat} {C : Ctx} {i : Nat}
variable {inv0 spill0 : Array Nat} {sp0 : Nat}

/-- raw content of 64-bit slot `j ≥ 1` of entry `i`: local words, then spill words from `sp0` on -/
def slotRaw64 (P : Params) (i sp0 : Nat) (inv spill : Array Nat) (j : Nat) : Nat :=
  if j < P.U then inv.getD (i * (P.U + 1) + 1 + j) 0 else spill.getD (sp0 + j - P.U) 0

/-- U64 encoding: slots `1 .. t-1` stored -/
structure Slots64 (P : Params) (ws : Array Nat) (len : Nat) (C : Ctx) (i : Nat)
    (inv0 spill0 : Array Nat) (sp0 : Nat) (s : Loop) (t : Nat) : Prop where
  size : s.inv.size = inv0.size
  ssize : s.spill.size = spill0.size
  spilled : s.spilled = sp0 + (t - P.U)
  sub : s.subIdx = min t P.U
  frame : ∀ k, (k < i * (P.U + 1) + 2 ∨ i * (P.U + 1) + P.U < k) → s.inv.getD k 0 = inv0.getD k 0
  sframe : ∀ k, (k < sp0 ∨ sp0 + spillSpec P ws len i ≤ k) → s.spill.getD k 0 = spill0.getD k 0
  slots : ∀ j, 1 ≤ j → j < t → slotRaw64 P i sp0 s.inv s.spill j
    = pos P ws len (i * P.K + j * 2 ^ C.log2q)

theorem slots64_nextQFree : NextQFree (Slots64 P ws len C i inv0 spill0 sp0) := by
  intro s t x h
  exact ⟨h.size, h.ssize, h.spilled, h.sub, h.frame, h.sframe, h.slots⟩

theorem slots64_storeOK (X : StoreCtx P ws len C i inv0 spill0 sp0) (hty : C.ty = .u64)
    (hlog : C.log2q = 0) :
    StoreOK P ws len C i (Slots64 P ws len C i inv0 spill0 sp0) := by
  intro s t hs ht htq
  have hU := P.U_pos
  have hty' : SpanType.fromSpan (spanOf P ws len i) = .u64 := by rw [← X.hty]; exact hty
  rw [hlog, Nat.pow_zero, Nat.mul_one] at htq
  unfold storeQuantum
  rw [hty]
  simp only [X.hP, X.hbase, bind, Out.bind]
  rw [hs.sub]
  by_cases hloc : t < P.U
  · have hmin : min t P.U = t := by omega
    rw [hmin, if_pos hloc]
    have hin : i * (P.U + 1) + 1 + t < s.inv.size := by
      have := X.hsize; rw [hs.size]; omega
    rw [if_neg (by omega)]
    simp only [pure]
    refine ⟨_, _, rfl, rfl, ?_, ?_⟩
    · refine ⟨?_, hs.ssize, ?_, ?_, ?_, hs.sframe, ?_⟩
      · simp only [Array.size_setIfInBounds]; exact hs.size
      · simp only []; rw [hs.spilled]; omega
      · simp only []; omega
      · intro k hk
        simp only []
        rw [getD_setIfInBounds, if_neg (by omega)]
        exact hs.frame k hk
      · intro j hj1 hj
        simp only []
        unfold slotRaw64
        by_cases hjl : j < P.U
        · rw [if_pos hjl, getD_setIfInBounds]
          by_cases hjt : j = t
          · rw [if_pos ⟨by omega, hin⟩, hjt]
          · rw [if_neg (by omega)]
            have := hs.slots j hj1 (by omega)
            unfold slotRaw64 at this
            rw [if_pos hjl] at this
            exact this
        · omega
    · intro hstop
      simp only [beq_iff_eq] at hstop
      rw [hlog, Nat.pow_zero, Nat.mul_one]
      omega
  · have hmin : min t P.U = P.U := by omega
    rw [hmin, if_neg (by omega)]
    have hroom := X.hroom
    unfold spillSpec at hroom
    rw [hty'] at hroom
    simp only [] at hroom
    have hsp : sp0 + (t - P.U) < spill0.size := by omega
    rw [hs.spilled, X.hspillSize, hs.ssize]
    rw [if_neg (by omega), if_neg (by omega)]
    simp only [pure]
    refine ⟨_, _, rfl, rfl, ?_, ?_⟩
    · refine ⟨hs.size, ?_, ?_, ?_, hs.frame, ?_, ?_⟩
      · simp only [Array.size_setIfInBounds]; exact hs.ssize
      · simp only []; omega
      · simp only []; omega
      · intro k hk
        simp only []
        rw [getD_setIfInBounds, if_neg (by
          unfold spillSpec at hk; rw [hty'] at hk; simp only [] at hk
          omega)]
        exact hs.sframe k hk
      · intro j hj1 hj
        simp only []
        unfold slotRaw64
        by_cases hjl : j < P.U
        · rw [if_pos hjl]
          have := hs.slots j hj1 (by omega)
          unfold slotRaw64 at this
          rw [if_pos hjl] at this
          exact this
        · rw [if_neg hjl, getD_setIfInBounds]
          by_cases hjt : j = t
          · rw [if_pos ⟨by omega, by rw [hs.ssize]; omega⟩, hjt]
          · rw [if_neg (by omega)]
            have := hs.slots j hj1 (by omega)
            unfold slotRaw64 at this
            rw [if_neg hjl] at this
            exact this
    · intro hstop
      simp only [beq_iff_eq] at hstop
      rw [hlog, Nat.pow_zero, Nat.mul_one]
      omega

end u64

end Sux.RS.Adapt
