import SuxModel.Base.Out
/-!
# Layers of a rank/select composition

A composition such as `SelectZeroAdapt<SelectAdapt<Rank9<BitVec>>>` is a list of layers over one bit
vector.  Each modelled layer exposes the arrays its builder computes (`parts`, compared with the real
arrays exported through the `sux_verif` hooks) and the queries it answers itself; queries it does not
answer are delegated to the next layer (that is what the `ambassador` delegation does in Rust).
-/
namespace Sux.RS

structure LayerModel where
  /-- canonical dump of the built arrays, same format as the harness (`run_ranksel.rs`, trait `P`) -/
  parts : String
  /-- `Rank::rank` (with its clamp) -/
  rank : Option (Nat → Out Nat) := none
  /-- `NumBits::num_ones` as stored/computed by this layer -/
  numOnes : Option Nat := none
  /-- `Select::select` -/
  select : Option (Nat → Out (Option Nat)) := none
  /-- `SelectZero::select_zero` -/
  selectZero : Option (Nat → Out (Option Nat)) := none

inductive LayerKind where
  | r9
  | rs (k : Nat)                         -- RankSmall variant 0..4
  | s9
  | sa (how : String) (p1 p2 : Nat)      -- how ∈ inv | new | span
  | sza (how : String) (p1 p2 : Nat)
  | sac (l m : Nat)
  | szac (l m : Nat)
  | ss (k : Nat) (b : Option Nat)        -- SelectSmall variant k, with_inv b / new
  | szs (k : Nat) (b : Option Nat)
deriving Repr, DecidableEq

/-- decomposition of a harness structure id into layers, outermost first -/
def layersOf (sid : String) (p1 p2 : Nat) : Option (List LayerKind) :=
  match sid with
  | "rank9" => some [.r9]
  | "rs" => some [.rs p1]
  | "sel9" => some [.s9, .r9]
  | "sa" => some [.sa "inv" p1 p2]
  | "sa_new" => some [.sa "new" p1 p2]
  | "sa_span" => some [.sa "span" p1 p2]
  | "sza" => some [.sza "inv" p1 p2]
  | "sza_new" => some [.sza "new" p1 p2]
  | "sza_span" => some [.sza "span" p1 p2]
  | "sa_r9" => some [.sa "inv" p1 p2, .r9]
  | "sza_sa" => some [.sza "inv" p1 p2, .sa "inv" p1 p2]
  | "sa_sza" => some [.sa "inv" p1 p2, .sza "inv" p1 p2]
  | "sza_sa_r9" => some [.sza "inv" p1 p2, .sa "inv" p1 p2, .r9]
  | "sza_sel9" => some [.sza "inv" p1 p2, .s9, .r9]
  -- built over one backend, then moved onto another one with the public `map`: same layers as the
  -- structure built directly over the final backend
  | "sza_map" => some [.sza "inv" p1 p2, .sa "inv" p1 p2]
  | "sa_map" => some [.sa "inv" p1 p2, .r9]
  | "sa_map_sza" => some [.sa "inv" p1 p2, .sza "inv" p1 p2]
  | "r9_map" => some [.r9]
  | "szac_map" => some [.szac p1 p2, .sac p1 p2, .r9]
  -- type-aware API coverage (API_COVERAGE_A.md): `map` onto a different backend type keeps the
  -- structure's own arrays (the new backend answers what it offers); `into_inner` hands back the
  -- wrapped structure untouched; `AddNumBits` raw-parts round trip; the `rank_small!` macro
  | "r9_map_sa" => some [.r9, .sa "inv" p1 p2]
  | "rs_map_sa" => some [.rs p1, .sa "inv" p2 1]
  | "sac_map" => some [.sac p1 p2, .r9]
  | "r9_inner_sa" => some [.sa "inv" p1 p2]
  | "s9_inner" => some [.r9]
  | "sa_inner" => some [.r9]
  | "sza_inner" => some [.sa "inv" p1 p2]
  | "sa_anb" => some [.sa "inv" p1 p2]
  | "sac_inner" => some [.r9]
  | "szac_inner" => some [.sac p1 p2]
  | "rs_inner" => some [.rs p1]
  | "ss_inner" => some [.rs p1]
  | "szs_inner" => some [.rs p1]
  | "szs_ss_inner" => some [.ss p1 (some p2), .rs p1]
  | "rs_macro" => some [.rs p1]
  | "sac" => some [.sac p1 p2]
  | "szac" => some [.szac p1 p2]
  | "szac_sac_r9" => some [.szac p1 p2, .sac p1 p2, .r9]
  | "ss" => some [.ss p1 (some p2), .rs p1]
  | "ss_new" => some [.ss p1 none, .rs p1]
  | "szs" => some [.szs p1 (some p2), .rs p1]
  | "szs_new" => some [.szs p1 none, .rs p1]
  | "szs_ss" => some [.szs p1 (some p2), .ss p1 (some p2), .rs p1]
  | _ => none

end Sux.RS
