import SuxModel.RankSel.LemmasRank
/-!
# Packing of the relative counters (proof-only file, shared by `Rank9` and `RankSmall`)

`slotVal cw r t` is the `cw`-bit field number `t` of the packed word `r`; `rel word` reads slot
`word xor mask`.  `PackOK` is the arithmetic side condition under which the inner loop of the
builders (`for j in 1..WORDS_PER_BLOCK`) never overflows a field: subblock `s` holds at most
`s * wordsPerSubblock * 64` ones, which must fit in the field (`< 2^cw`) and, once shifted, in the
packed word (`< 2^PB`; this matters for `RankSmall<1, 11>` whose top field has only 10 bits).
-/
namespace Sux.RS

def slotVal (cw r t : Nat) : Nat := (r >>> (cw * t)) % 2 ^ cw

theorem testBit_slotVal (cw r t j : Nat) :
    (slotVal cw r t).testBit j = (decide (j < cw) && r.testBit (cw * t + j)) := by
  unfold slotVal; rw [Nat.testBit_mod_two_pow, Nat.testBit_shiftRight]

theorem slotVal_zero (cw t : Nat) : slotVal cw 0 t = 0 := by
  unfold slotVal; simp

/-- or-ing a `cw`-bit value into slot `t0` changes that slot only -/
theorem slotVal_or_shift (cw r v t0 t : Nat) (hv : v < 2 ^ cw) :
    slotVal cw (r ||| (v <<< (cw * t0))) t
      = if t = t0 then slotVal cw r t ||| v else slotVal cw r t := by
  apply Nat.eq_of_testBit_eq
  intro j
  by_cases ht : t = t0
  · subst ht
    rw [if_pos rfl, Nat.testBit_or, testBit_slotVal, testBit_slotVal, Nat.testBit_or,
      Nat.testBit_shiftLeft]
    by_cases hj : j < cw
    · have : cw * t + j - cw * t = j := by omega
      simp [hj, this]
    · have : v.testBit j = false := testBit_ge_of_lt hv (by omega)
      simp [hj, this]
  · rw [if_neg ht, testBit_slotVal, testBit_slotVal, Nat.testBit_or, Nat.testBit_shiftLeft]
    by_cases hj : j < cw
    · suffices h : (decide (cw * t0 ≤ cw * t + j) && v.testBit (cw * t + j - cw * t0)) = false by
        simp [h]
      by_cases hlt : t < t0
      · have h1 : cw * (t + 1) ≤ cw * t0 := Nat.mul_le_mul_left cw hlt
        rw [Nat.mul_succ] at h1
        have : ¬ (cw * t0 ≤ cw * t + j) := by omega
        simp [this]
      · have hgt : t0 + 1 ≤ t := by omega
        have h1 := Nat.mul_le_mul_left cw hgt
        rw [Nat.mul_succ] at h1
        have : v.testBit (cw * t + j - cw * t0) = false := testBit_ge_of_lt hv (by omega)
        simp [this]
    · simp [hj]

theorem xor_xor_cancel (t m : Nat) : (t ^^^ m) ^^^ m = t := by
  rw [Nat.xor_assoc, Nat.xor_self, Nat.xor_zero]

/-- side conditions on `(counter width, xor mask, words per subblock, subblocks, packed bits)` -/
structure PackOK (cw mask wps sub PB : Nat) : Prop where
  wps_pos : 0 < wps
  xor_lt : ∀ s, s < sub → s ^^^ mask < sub
  fit : ∀ s, s < sub → 1 ≤ s →
    s * wps * 64 < 2 ^ cw ∧ (s * wps * 64) <<< (cw * (s ^^^ mask)) < 2 ^ PB

/-- the fields set before iteration `j`: slot `s xor mask` holds `F s` for `1 ≤ s`, `s * wps < j` -/
def Slots (cw mask wps sub : Nat) (F : Nat → Nat) (j r : Nat) : Prop :=
  ∀ t, slotVal cw r t = if t < sub ∧ 1 ≤ (t ^^^ mask) ∧ (t ^^^ mask) * wps < j then F (t ^^^ mask) else 0

theorem slots_init (cw mask wps sub : Nat) (F : Nat → Nat) (hw : 0 < wps) :
    Slots cw mask wps sub F 1 0 := by
  intro t
  rw [slotVal_zero]
  split
  · rename_i h
    obtain ⟨_, h1, h2⟩ := h
    have := Nat.mul_le_mul_right wps h1
    omega
  · rfl

/-- one iteration of the inner loop on the packed word -/
theorem slots_step {cw mask wps sub PB : Nat} (hP : PackOK cw mask wps sub PB)
    (setRel : Nat → Nat → Nat → Nat)
    (hset : ∀ r word v, r < 2 ^ PB → v <<< (cw * (word ^^^ mask)) < 2 ^ PB →
      setRel r word v = r ||| (v <<< (cw * (word ^^^ mask))))
    (F : Nat → Nat) (hF : ∀ s, F s ≤ s * wps * 64)
    {j r : Nat} (hj1 : 1 ≤ j) (hj : j < sub * wps) (hr : r < 2 ^ PB)
    (hs : Slots cw mask wps sub F j r) :
    (if j % wps = 0 then setRel r (j / wps) (F (j / wps)) else r) < 2 ^ PB ∧
    Slots cw mask wps sub F (j + 1) (if j % wps = 0 then setRel r (j / wps) (F (j / wps)) else r) := by
  have hw := hP.wps_pos
  by_cases hm : j % wps = 0
  · rw [if_pos hm]
    have hjs : j / wps * wps = j := by
      have := Nat.div_add_mod j wps
      rw [Nat.mul_comm] at this; omega
    generalize hsd : j / wps = s at *
    have hs1 : 1 ≤ s := by
      cases s with
      | zero => simp at hjs; omega
      | succ s => omega
    have hssub : s < sub := by
      apply Nat.lt_of_mul_lt_mul_right (a := wps)
      omega
    obtain ⟨hfit1, hfit2⟩ := hP.fit s hssub hs1
    have hv : F s < 2 ^ cw := Nat.lt_of_le_of_lt (hF s) hfit1
    have hsh : F s <<< (cw * (s ^^^ mask)) < 2 ^ PB := by
      apply Nat.lt_of_le_of_lt _ hfit2
      rw [Nat.shiftLeft_eq, Nat.shiftLeft_eq]
      exact Nat.mul_le_mul_right _ (hF s)
    rw [hset r s (F s) hr hsh]
    refine ⟨Nat.or_lt_two_pow hr hsh, ?_⟩
    intro t
    rw [slotVal_or_shift _ _ _ _ _ hv]
    by_cases ht : t = s ^^^ mask
    · rw [if_pos ht, hs t]
      have hx : t ^^^ mask = s := by rw [ht]; exact xor_xor_cancel s mask
      have htsub : t < sub := by rw [ht]; exact hP.xor_lt s hssub
      rw [hx]
      have hc1 : ¬ (t < sub ∧ 1 ≤ s ∧ s * wps < j) := by omega
      have hc2 : t < sub ∧ 1 ≤ s ∧ s * wps < j + 1 := ⟨htsub, hs1, by omega⟩
      rw [if_neg hc1, if_pos hc2, Nat.zero_or]
    · rw [if_neg ht, hs t]
      have hne : (t ^^^ mask) ≠ s := by
        intro e
        apply ht
        rw [← e]; exact (xor_xor_cancel t mask).symm
      generalize t ^^^ mask = u at *
      have hne2 : u * wps ≠ j := by
        intro e
        apply hne
        apply Nat.eq_of_mul_eq_mul_right hw
        omega
      have hiff : (t < sub ∧ 1 ≤ u ∧ u * wps < j) ↔ (t < sub ∧ 1 ≤ u ∧ u * wps < j + 1) := by
        constructor
        · rintro ⟨a, b, c⟩; exact ⟨a, b, by omega⟩
        · rintro ⟨a, b, c⟩; exact ⟨a, b, by omega⟩
      by_cases hc : t < sub ∧ 1 ≤ u ∧ u * wps < j
      · rw [if_pos hc, if_pos (hiff.mp hc)]
      · rw [if_neg hc, if_neg (fun h => hc (hiff.mpr h))]
  · rw [if_neg hm]
    refine ⟨hr, ?_⟩
    intro t
    rw [hs t]
    generalize t ^^^ mask = u at *
    have hne2 : u * wps ≠ j := by
      intro e
      apply hm
      rw [← e]; exact Nat.mul_mod_left u wps
    have hiff : (t < sub ∧ 1 ≤ u ∧ u * wps < j) ↔ (t < sub ∧ 1 ≤ u ∧ u * wps < j + 1) := by
      constructor
      · rintro ⟨a, b, c⟩; exact ⟨a, b, by omega⟩
      · rintro ⟨a, b, c⟩; exact ⟨a, b, by omega⟩
    by_cases hc : t < sub ∧ 1 ≤ u ∧ u * wps < j
    · rw [if_pos hc, if_pos (hiff.mp hc)]
    · rw [if_neg hc, if_neg (fun h => hc (hiff.mpr h))]

/-- reading back after the loop: every subblock index `s < sub` (including the implicit `0`) -/
theorem slots_read {cw mask wps sub PB : Nat} (hP : PackOK cw mask wps sub PB)
    (F : Nat → Nat) (hF0 : F 0 = 0) {r s : Nat} (hs : Slots cw mask wps sub F (sub * wps) r)
    (hsub : s < sub) : slotVal cw r (s ^^^ mask) = F s := by
  rw [hs, xor_xor_cancel]
  by_cases h0 : s = 0
  · subst h0
    rw [hF0]; split <;> rfl
  · have : (s ^^^ mask) < sub ∧ 1 ≤ s ∧ s * wps < sub * wps :=
      ⟨hP.xor_lt s hsub, by omega, Nat.mul_lt_mul_of_pos_right hsub hP.wps_pos⟩
    rw [if_pos this]

/-! ## the inner loop of the builders, abstractly

`L fuel j n r` is the loop (`Rank9.relLoop`, `RankSmall.relLoop`) with `fuel` iterations to go;
`hLs` is its unfolding equation, which the concrete loops satisfy whenever `base ≤ n`. -/

/-- `n` is the number of ones before word `i + j`, the packed word fits and holds the fields of
the subblocks that start before word `i + j` -/
def LoopInv (cw mask wps sub PB : Nat) (ws : Array Nat) (len i j n r : Nat) : Prop :=
  n = rankSpec ws len (64 * (i + j)) ∧ r < 2 ^ PB ∧
  Slots cw mask wps sub
    (fun s => rankSpec ws len (64 * (i + s * wps)) - rankSpec ws len (64 * i)) j r

theorem relLoop_generic {cw mask wps sub PB : Nat} (hP : PackOK cw mask wps sub PB)
    (setRel : Nat → Nat → Nat → Nat)
    (hset : ∀ r word v, r < 2 ^ PB → v <<< (cw * (word ^^^ mask)) < 2 ^ PB →
      setRel r word v = r ||| (v <<< (cw * (word ^^^ mask))))
    (ws : Array Nat) (len : Nat) (hlen : len ≤ 64 * ws.size) (i base : Nat)
    (hbase : base = rankSpec ws len (64 * i))
    (L : Nat → Nat → Nat → Nat → Out (Nat × Nat))
    (hL0 : ∀ j n r, L 0 j n r = .ok (n, r))
    (hLs : ∀ f j n r, base ≤ n → L (f + 1) j n r =
      (if i + j < RankSmall.divCeil len 64 then
        (RankSmall.countOnes ws len (RankSmall.divCeil len 64) (i + j)) >>= fun c =>
          L f (j + 1) (n + c) (if j % wps = 0 then setRel r (j / wps) (n - base) else r)
       else L f (j + 1) n (if j % wps = 0 then setRel r (j / wps) (n - base) else r))) :
    ∀ f j n r, 1 ≤ j → j + f ≤ sub * wps → LoopInv cw mask wps sub PB ws len i j n r →
      ∃ n' r', L f j n r = .ok (n', r') ∧ LoopInv cw mask wps sub PB ws len i (j + f) n' r' := by
  intro f
  induction f with
  | zero => intro j n r _ _ hinv; exact ⟨n, r, hL0 j n r, hinv⟩
  | succ f ih =>
    intro j n r hj1 hjf hinv
    obtain ⟨hn, hr, hsl⟩ := hinv
    have hbn : base ≤ n := by
      rw [hbase, hn]; exact rankSpec_mono ws len (by omega)
    rw [hLs f j n r hbn]
    have hF : ∀ s, (fun s => rankSpec ws len (64 * (i + s * wps)) - rankSpec ws len (64 * i)) s
        ≤ s * wps * 64 := by
      intro s
      have := rankSpec_le_add ws len (p := 64 * i) (q := 64 * (i + s * wps)) (by omega)
      simp only []
      omega
    have hstep := slots_step hP setRel hset _ hF hj1 (by omega : j < sub * wps) hr hsl
    have hval : j % wps = 0 →
        n - base = rankSpec ws len (64 * (i + j / wps * wps)) - rankSpec ws len (64 * i) := by
      intro hm
      have hjs : j / wps * wps = j := by
        have := Nat.div_add_mod j wps
        rw [Nat.mul_comm] at this; omega
      rw [hjs, hn, hbase]
    have hr'eq : (if j % wps = 0 then setRel r (j / wps) (n - base) else r)
        = (if j % wps = 0 then setRel r (j / wps)
            (rankSpec ws len (64 * (i + j / wps * wps)) - rankSpec ws len (64 * i)) else r) := by
      by_cases hm : j % wps = 0
      · rw [if_pos hm, if_pos hm, hval hm]
      · rw [if_neg hm, if_neg hm]
    rw [hr'eq]
    obtain ⟨hr', hsl'⟩ := hstep
    generalize (if j % wps = 0 then setRel r (j / wps)
            (rankSpec ws len (64 * (i + j / wps * wps)) - rankSpec ws len (64 * i)) else r) = r' at *
    have hidx : j + 1 + f = j + (f + 1) := by omega
    by_cases hw : i + j < RankSmall.divCeil len 64
    · rw [if_pos hw]
      obtain ⟨c, hc, _, hcs⟩ := countOnes_spec ws len hlen hw
      rw [hc, Out.bind_ok]
      have := ih (j + 1) (n + c) r' (by omega) (by omega)
        ⟨by rw [hn, ← hcs, Nat.add_assoc], hr', hsl'⟩
      rw [hidx] at this
      exact this
    · rw [if_neg hw]
      have hpast : len ≤ 64 * (i + j) := by
        have : ¬ 64 * (i + j) < len := fun h => hw (lt_divCeil_64.mpr h)
        omega
      have := ih (j + 1) n r' (by omega) (by omega)
        ⟨by rw [hn, ← rankSpec_past ws hpast, Nat.add_assoc], hr', hsl'⟩
      rw [hidx] at this
      exact this

end Sux.RS
