-- Root of the `SuxModel` library: imports every model, lemma and property module.
import SuxModel.Base.Out
