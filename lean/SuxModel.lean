-- Root of the `SuxModel` library: imports every model, lemma and property module.
import SuxModel.Base.Out
import SuxModel.Base.Bits
import SuxModel.Base.BitsLemmas
import SuxModel.Base.Proto
import SuxModel.Gen.Consts
import SuxModel.BitVec.Model
import SuxModel.BitVec.Spec
import SuxModel.BitVec.Runner
import SuxModel.BitVec.Lemmas
import SuxModel.BitVec.LemmasRead
import SuxModel.BitVec.LemmasIter
import SuxModel.Props.C06
import SuxModel.BitFieldVec.Model
import SuxModel.BitFieldVec.Spec
import SuxModel.BitFieldVec.Runner
