import SuxModel.Base.Proto
import SuxModel.BitVec.Runner
import SuxModel.BitFieldVec.Runner
import SuxModel.RankSel.Runner
import SuxModel.Lender.Runner
import SuxModel.SigStore.Runner
import SuxModel.RCL.Runner
import SuxModel.GF2.Runner
import SuxModel.EF.Runner
import SuxModel.Edge.Runner
import SuxModel.Space.Runner
import SuxModel.Atomic.Runner
import SuxModel.Func.Runner
import SuxModel.Serde.Runner
import SuxModel.Misc.Runner
/-!
# `suxdrv <runner>` : line-protocol driver over the executable model definitions
-/
open Sux.Proto

partial def loop (h : IO.FS.Stream) (out : IO.FS.Stream) (R : Runner) (s : R.σ) : IO Unit := do
  let line ← h.getLine
  if line.isEmpty then
    out.flush
    return ()
  let toks := (line.trimAscii.toString.splitOn " ").filter (· ≠ "")
  let (s', rep) := R.step s toks
  out.putStrLn rep
  loop h out R s'

def runners : List (String × Runner) := [
  ("bitvec", Sux.BV.runner),
  ("bfv", Sux.BFV.runner),
  ("ranksel", Sux.RS.runner),
  ("lender", Sux.Lender.runner),
  ("sigstore", Sux.SigStore.runner),
  ("rcl", Sux.RCL.runner),
  ("gf2", Sux.GF2.runner),
  ("ef", Sux.EF.runner),
  ("edge", Sux.Edge.runner),
  ("space", Sux.Space.runner),
  ("atomic", Sux.Atomic.runner),
  ("func", Sux.Func.runner),
  ("serde", Sux.Serde.runner),
  ("misc", Sux.Misc.runner)
]

def main (args : List String) : IO UInt32 := do
  match args with
  | [name] =>
    match runners.lookup name with
    | some R =>
      let stdin ← IO.getStdin
      let stdout ← IO.getStdout
      loop stdin stdout R R.init
      return 0
    | none => IO.eprintln s!"unknown runner {name}"; return 2
  | _ => IO.eprintln "usage: suxdrv <runner>"; return 2
