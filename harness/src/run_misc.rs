//! Runner `misc`: the small library pieces without a runner of their own —
//! `utils::FairChunks`, `dict::SliceSeq`, and the DEFAULT methods of `traits::indexed_dict`
//! (`get`, `is_empty`, `contains`, `succ`, `succ_strict`, `pred`, `pred_strict`),
//! `traits::rank_sel` (`count_zeros`, `num_zeros`, `rank`, `rank_zero`, `rank_zero_unchecked`,
//! `select`, `select_zero`, struct `AddNumBits`) and `traits::iter` (`into_unchecked_iter`).
//!
//! ops and reply grammar: see `lean/SuxModel/Misc/Runner.lean`.
//!
//! Structures behind `fc_*` / `d_*`:
//!   `ef`   = the list through `EliasFanoBuilder::new(len, last or 0)`, `extend`, and
//!            `build_with_seq_and_dict()` (`fc_new`, `d_new`) / `build_with_dict()` (`fc_new_with`);
//!   `mock` = `MockDict`: implements ONLY the required trait methods over a plain `Vec<usize>` by
//!            linear scans, logs every call, and panics with the payload `Oob` when a required
//!            `unsafe fn` is called outside its safety contract (reply `oob`).  The default methods
//!            under test are the ones it inherits.
//! `b_*`: `MockBits` (same idea for `BitLength`/`BitCount`/`NumBits`/`RankUnchecked`/
//!   `SelectUnchecked`/`SelectZeroUnchecked`; the reported `num_ones`/`count_ones` are free
//!   parameters), plain or wrapped in the real `AddNumBits`.
//!
//! Abort avoidance: on the real Elias–Fano structures `fc_new_with` is refused (`refused`) when
//! `max_weight` exceeds the last cumulative weight (safe API, but `next` would call
//! `succ_unchecked` without a successor: see the finding in `Props/Extra.lean`); such inputs go to
//! `mock` only.  `ss_get_unchecked` is refused out of range.
//!
//! Naive oracle: FairChunks = greedy pass over the WEIGHTS (differences of the cumulative list) in
//! `u128`; dictionaries = order-theoretic definitions on the plain vector; bits = counting.
use crate::common::*;
use std::borrow::Borrow;
use std::cell::RefCell;
use std::panic::{catch_unwind, AssertUnwindSafe};
use std::rc::Rc;
use sux::dict::elias_fano::{EfDict, EfSeqDict};
use sux::prelude::*;
use sux::utils::FairChunks;

/// payload of the mock's "called outside the safety contract"
struct Oob;

fn oob() -> ! {
    std::panic::panic_any(Oob)
}

enum R<T> {
    Ok(T),
    Panic,
    Oob,
}

fn catch3<T>(f: impl FnOnce() -> T) -> R<T> {
    match catch_unwind(AssertUnwindSafe(f)) {
        Ok(v) => R::Ok(v),
        Err(p) => {
            if p.is::<Oob>() {
                R::Oob
            } else {
                R::Panic
            }
        }
    }
}

fn fmt_r<T>(r: R<T>, f: impl FnOnce(T) -> String) -> String {
    match r {
        R::Ok(v) => f(v),
        R::Panic => "panic".into(),
        R::Oob => "oob".into(),
    }
}

type Log = Rc<RefCell<Vec<String>>>;

fn take_log(l: &Log) -> String {
    let v: Vec<String> = l.borrow_mut().drain(..).collect();
    if v.is_empty() {
        ".".into()
    } else {
        v.join(" ")
    }
}

/* ---------------------------------------------------------------- mock dictionary */

struct MockDict {
    xs: Vec<usize>,
    log: Log,
}

impl std::fmt::Debug for MockDict {
    fn fmt(&self, f: &mut std::fmt::Formatter<'_>) -> std::fmt::Result {
        write!(f, "MockDict")
    }
}

impl Types for MockDict {
    type Input = usize;
    type Output = usize;
}

impl IndexedSeq for MockDict {
    unsafe fn get_unchecked(&self, index: usize) -> usize {
        self.log.borrow_mut().push(format!("gu:{}", index));
        if index >= self.xs.len() {
            oob()
        }
        self.xs[index]
    }
    fn len(&self) -> usize {
        self.log.borrow_mut().push("len".into());
        self.xs.len()
    }
}

impl IndexedDict for MockDict {
    fn index_of(&self, value: impl Borrow<usize>) -> Option<usize> {
        let q = *value.borrow();
        self.log.borrow_mut().push(format!("io:{}", q));
        self.xs.iter().position(|&x| x == q)
    }
}

impl SuccUnchecked for MockDict {
    unsafe fn succ_unchecked<const STRICT: bool>(&self, value: impl Borrow<usize>) -> (usize, usize) {
        let q = *value.borrow();
        self.log.borrow_mut().push(format!("su:{}:{}", b01(STRICT), q));
        match self.xs.iter().position(|&x| if STRICT { x > q } else { x >= q }) {
            Some(i) => (i, self.xs[i]),
            None => oob(),
        }
    }
}

impl Succ for MockDict {}

impl PredUnchecked for MockDict {
    unsafe fn pred_unchecked<const STRICT: bool>(&self, value: impl Borrow<usize>) -> (usize, usize) {
        let q = *value.borrow();
        self.log.borrow_mut().push(format!("pu:{}:{}", b01(STRICT), q));
        match self.xs.iter().rposition(|&x| if STRICT { x < q } else { x <= q }) {
            Some(i) => (i, self.xs[i]),
            None => oob(),
        }
    }
}

impl Pred for MockDict {}

/* ---------------------------------------------------------------- mock bits */

struct MockBits {
    bits: Vec<bool>,
    num_ones: usize,
    count_ones: usize,
    log: Log,
}

impl BitLength for MockBits {
    fn len(&self) -> usize {
        self.log.borrow_mut().push("bl".into());
        self.bits.len()
    }
}

impl BitCount for MockBits {
    fn count_ones(&self) -> usize {
        self.log.borrow_mut().push("co".into());
        self.count_ones
    }
}

impl NumBits for MockBits {
    fn num_ones(&self) -> usize {
        self.log.borrow_mut().push("no".into());
        self.num_ones
    }
}

impl RankUnchecked for MockBits {
    unsafe fn rank_unchecked(&self, pos: usize) -> usize {
        self.log.borrow_mut().push(format!("ru:{}", pos));
        if pos >= self.bits.len() {
            oob()
        }
        self.bits[..pos].iter().filter(|&&b| b).count()
    }
}

impl Rank for MockBits {}
impl RankZero for MockBits {}

fn nth(bits: &[bool], v: bool, r: usize) -> Option<usize> {
    bits.iter()
        .enumerate()
        .filter(|(_, &b)| b == v)
        .map(|(i, _)| i)
        .nth(r)
}

impl SelectUnchecked for MockBits {
    unsafe fn select_unchecked(&self, rank: usize) -> usize {
        self.log.borrow_mut().push(format!("s1:{}", rank));
        match nth(&self.bits, true, rank) {
            Some(p) => p,
            None => oob(),
        }
    }
}

impl Select for MockBits {}

impl SelectZeroUnchecked for MockBits {
    unsafe fn select_zero_unchecked(&self, rank: usize) -> usize {
        self.log.borrow_mut().push(format!("s0:{}", rank));
        match nth(&self.bits, false, rank) {
            Some(p) => p,
            None => oob(),
        }
    }
}

impl SelectZero for MockBits {}

/* ---------------------------------------------------------------- mock unchecked iterator */

struct MockUI(Log);
struct MockUIter;

impl UncheckedIterator for MockUIter {
    type Item = usize;
    unsafe fn next_unchecked(&mut self) -> usize {
        0
    }
}

impl IntoUncheckedIterator for MockUI {
    type Item = usize;
    type IntoUncheckedIter = MockUIter;
    fn into_unchecked_iter_from(self, from: usize) -> MockUIter {
        self.0.borrow_mut().push(format!("uif:{}", from));
        MockUIter
    }
}

/* ---------------------------------------------------------------- state */

enum Fc {
    Ef(FairChunks<&'static EfSeqDict>),
    EfD(FairChunks<&'static EfDict>),
    Mock(FairChunks<&'static MockDict>),
}

macro_rules! with_fc {
    ($fc:expr, $f:ident => $body:expr) => {
        match $fc {
            Fc::Ef($f) => $body,
            Fc::EfD($f) => $body,
            Fc::Mock($f) => $body,
        }
    };
}

/// what the naive oracle expects from the chunk iterator
struct FcOracle {
    items: Vec<(usize, usize)>,
    /// after the items: `true` = every further call panics, `false` = `None` forever
    panics: bool,
    /// successful calls so far
    pos: usize,
}

enum Dk {
    Mock(&'static MockDict),
    Ef(Box<EfSeqDict>),
}

enum Bk {
    Plain(MockBits),
    Anb(AddNumBits<MockBits>),
}

struct S {
    log: Log,
    fc: Option<Fc>,
    fc_oracle: Option<FcOracle>,
    ss: Option<(SliceSeq<usize, Vec<usize>>, Vec<usize>)>,
    dict: Option<Dk>,
    /// the plain list behind `dict`, if it is sorted (the oracle has an opinion)
    dict_xs: Option<Vec<usize>>,
    bits: Option<Bk>,
    bits_sh: Option<(Vec<bool>, usize, usize, Option<usize>)>,
}

fn fresh() -> S {
    S {
        log: Rc::new(RefCell::new(vec![])),
        fc: None,
        fc_oracle: None,
        ss: None,
        dict: None,
        dict_xs: None,
        bits: None,
        bits_sh: None,
    }
}

fn parse_list(s: &str) -> Vec<usize> {
    s[1..s.len() - 1]
        .split(',')
        .filter(|x| !x.is_empty())
        .map(|x| x.parse().unwrap())
        .collect()
}

fn parse_bits(s: &str) -> Vec<bool> {
    if s == "-" {
        vec![]
    } else {
        s.chars().map(|c| c == '1').collect()
    }
}

fn is_sorted(xs: &[usize]) -> bool {
    xs.windows(2).all(|w| w[0] <= w[1])
}

fn build_ef(xs: &[usize]) -> EliasFanoBuilder {
    let mut efb = EliasFanoBuilder::new(xs.len(), xs.last().copied().unwrap_or(0));
    efb.extend(xs.iter().copied());
    efb
}

/// fields of a `FairChunks` from its derived `Debug`
fn fc_fields(dbg: &str) -> String {
    let tail = &dbg[dbg.rfind("target_weight: ").unwrap()..];
    let tail = tail.trim_end_matches(|c| c == '}' || c == ' ');
    let nums: Vec<&str> = tail
        .split(", ")
        .map(|kv| kv.split(": ").nth(1).unwrap())
        .collect();
    format!("ok {}", nums.join(" "))
}

/// greedy chunking of the weights: the specification of `FairChunks` for a cumulative list
/// starting at 0 (in `u128`; a checked build panics where `current_weight + target_weight`
/// leaves `usize`)
fn fc_oracle(cwf: &[usize], t: usize) -> FcOracle {
    let n = cwf.len() - 1;
    let w: Vec<u128> = (0..n).map(|i| (cwf[i + 1] - cwf[i]) as u128).collect();
    let mut items = vec![];
    let mut panics = false;
    if t > 0 {
        let mut start = 0usize;
        let mut before: u128 = 0; // weight before `start`
        loop {
            if before + t as u128 > usize::MAX as u128 {
                panics = true;
                break;
            }
            let mut acc: u128 = 0;
            let mut end = None;
            for i in start..n {
                acc += w[i];
                if acc >= t as u128 {
                    end = Some(i + 1);
                    break;
                }
            }
            match end {
                Some(e) => {
                    items.push((start, e));
                    start = e;
                    before += acc;
                }
                None => {
                    items.push((start, n));
                    break;
                }
            }
        }
    }
    FcOracle { items, panics, pos: 0 }
}

fn flat(items: &[(usize, usize)]) -> String {
    fmt_list(items.iter().flat_map(|&(a, b)| [a, b]))
}

fn opt_pair(r: Option<(usize, usize)>) -> String {
    match r {
        None => "ok none".into(),
        Some((i, x)) => format!("ok some {} {}", i, x),
    }
}

fn opt_nat(r: Option<usize>) -> String {
    match r {
        None => "ok none".into(),
        Some(p) => format!("ok some {}", p),
    }
}

/// execute one op on the implementation and on the oracle; emit op + reply
fn exec(ctx: &mut Ctx, s: &mut S, op: &str) {
    ctx.op(op);
    let t: Vec<&str> = op.split(' ').collect();
    let num = |i: usize| -> usize { t[i].parse::<usize>().unwrap() };
    s.log.borrow_mut().clear();
    // (implementation reply, oracle reply or None when the oracle has no opinion)
    let (res, ores): (String, Option<String>) = match t[0] {
        "fc_new" | "fc_new_with" => {
            let with = t[0] == "fc_new_with";
            let kind = t[1];
            let tw = num(2);
            let xs = parse_list(t[3]);
            let (nw, mw) = if with { (num(4), num(5)) } else { (0, 0) };
            s.fc = None;
            s.fc_oracle = None;
            let sorted = is_sorted(&xs);
            let consistent =
                !xs.is_empty() && (!with || (nw == xs.len() - 1 && mw == *xs.last().unwrap()));
            let mut orep: Option<String> = None;
            if sorted && !with && xs.is_empty() {
                orep = Some("panic".into()); // `len - 1` in a checked build
            }
            if sorted && consistent && xs[0] == 0 {
                s.fc_oracle = Some(fc_oracle(&xs, tw));
                orep = Some("ok".into());
            }
            let r: R<Option<Fc>> = match kind {
                "mock" => {
                    let m: &'static MockDict =
                        Box::leak(Box::new(MockDict { xs: xs.clone(), log: s.log.clone() }));
                    catch3(|| {
                        Some(Fc::Mock(if with {
                            FairChunks::new_with(tw, m, nw, mw)
                        } else {
                            FairChunks::new(tw, m)
                        }))
                    })
                }
                "ef" => {
                    if with && (xs.is_empty() || mw > *xs.last().unwrap()) && sorted {
                        R::Ok(None)
                    } else if with {
                        catch3(|| {
                            let ef: &'static EfDict = Box::leak(Box::new(build_ef(&xs).build_with_dict()));
                            Some(Fc::EfD(FairChunks::new_with(tw, ef, nw, mw)))
                        })
                    } else {
                        catch3(|| {
                            let ef: &'static EfSeqDict =
                                Box::leak(Box::new(build_ef(&xs).build_with_seq_and_dict()));
                            Some(Fc::Ef(FairChunks::new(tw, ef)))
                        })
                    }
                }
                _ => unreachable!("unknown kind"),
            };
            let rep = match r {
                R::Ok(Some(fc)) => {
                    s.fc = Some(fc);
                    "ok"
                }
                R::Ok(None) => "refused",
                R::Panic => "panic",
                R::Oob => "oob",
            };
            if rep != "ok" {
                s.fc_oracle = None;
            }
            (rep.into(), orep)
        }
        "fc_next" => match &mut s.fc {
            None => ("nofc".into(), None),
            Some(fc) => {
                let r = with_fc!(fc, f => catch3(|| f.next()));
                let orep = s.fc_oracle.as_mut().map(|o| {
                    if o.pos < o.items.len() {
                        o.pos += 1;
                        format!("ok {} {}", o.items[o.pos - 1].0, o.items[o.pos - 1].1)
                    } else if o.panics {
                        "panic".into()
                    } else {
                        "ok none".into()
                    }
                });
                let rep = fmt_r(r, |x| match x {
                    None => "ok none".into(),
                    Some(rg) => format!("ok {} {}", rg.start, rg.end),
                });
                (rep, orep)
            }
        },
        "fc_collect" => match &mut s.fc {
            None => ("nofc".into(), None),
            Some(fc) => {
                let cap = num(1);
                let mut items = vec![];
                let mut ending = "more";
                for _ in 0..cap {
                    match with_fc!(fc, f => catch3(|| f.next())) {
                        R::Ok(Some(rg)) => items.push((rg.start, rg.end)),
                        R::Ok(None) => {
                            ending = "done";
                            break;
                        }
                        R::Panic => {
                            ending = "panic";
                            break;
                        }
                        R::Oob => {
                            ending = "oob";
                            break;
                        }
                    }
                }
                let orep = s.fc_oracle.as_mut().map(|o| {
                    let avail = o.items.len() - o.pos;
                    if cap <= avail {
                        let r = format!("ok {} more", flat(&o.items[o.pos..o.pos + cap]));
                        o.pos += cap;
                        r
                    } else {
                        let r = format!(
                            "ok {} {}",
                            flat(&o.items[o.pos..]),
                            if o.panics { "panic" } else { "done" }
                        );
                        o.pos = o.items.len();
                        r
                    }
                });
                ctx.stat(&format!("fc:ending:{}", ending));
                if ending == "done" {
                    if let Some(&(a, b)) = items.last() {
                        if a == b {
                            ctx.stat("fc:last_chunk_empty");
                        }
                    }
                    ctx.stat(&format!("fc:chunks:{}", bucket(items.len())));
                }
                (format!("ok {} {}", flat(&items), ending), orep)
            }
        },
        "fc_state" => match &s.fc {
            None => ("nofc".into(), None),
            Some(fc) => (with_fc!(fc, f => fc_fields(&format!("{:?}", f))), None),
        },
        "ss_new" => {
            let xs = parse_list(t[1]);
            s.ss = Some((SliceSeq::new(xs.clone()), xs));
            ("ok".into(), Some("ok".into()))
        }
        x if x.starts_with("ss_") => match &s.ss {
            None => ("noss".into(), None),
            Some((ss, xs)) => match x {
                "ss_len" => (
                    fmt_r(catch3(|| IndexedSeq::len(ss)), |v| format!("ok {}", v)),
                    Some(format!("ok {}", xs.len())),
                ),
                "ss_is_empty" => (
                    fmt_r(catch3(|| IndexedSeq::is_empty(ss)), |v| format!("ok {}", b01(v))),
                    Some(format!("ok {}", b01(xs.is_empty()))),
                ),
                "ss_iter" => (
                    fmt_r(catch3(|| ss.iter().collect::<Vec<_>>()), |v| format!("ok {}", fmt_list(v))),
                    Some(format!("ok {}", fmt_list(xs.iter()))),
                ),
                "ss_into_iter" => (
                    fmt_r(catch3(|| ss.into_iter().collect::<Vec<_>>()), |v| {
                        format!("ok {}", fmt_list(v))
                    }),
                    Some(format!("ok {}", fmt_list(xs.iter()))),
                ),
                "ss_get" => {
                    let i = num(1);
                    (
                        fmt_r(catch3(|| IndexedSeq::get(ss, i)), |v| format!("ok {}", v)),
                        Some(if i < xs.len() { format!("ok {}", xs[i]) } else { "panic".into() }),
                    )
                }
                "ss_get_unchecked" => {
                    let i = num(1);
                    if i < xs.len() {
                        (
                            fmt_r(catch3(|| unsafe { IndexedSeq::get_unchecked(ss, i) }), |v| {
                                format!("ok {}", v)
                            }),
                            Some(format!("ok {}", xs[i])),
                        )
                    } else {
                        ("refused".into(), None)
                    }
                }
                "ss_into_iter_from" => {
                    let k = num(1);
                    (
                        fmt_r(catch3(|| ss.into_iter_from(k).collect::<Vec<_>>()), |v| {
                            format!("ok {}", fmt_list(v))
                        }),
                        Some(format!("ok {}", fmt_list(xs.iter().skip(k)))),
                    )
                }
                "ss_eq" => {
                    let ys = parse_list(t[1]);
                    let other = SliceSeq::new(ys.clone());
                    (
                        fmt_r(catch3(|| *ss == other), |v| format!("ok {}", b01(v))),
                        Some(format!("ok {}", b01(*xs == ys))),
                    )
                }
                _ => unreachable!("unknown ss op"),
            },
        },
        "d_new" => {
            let kind = t[1];
            let xs = parse_list(t[2]);
            s.dict = None;
            s.dict_xs = if is_sorted(&xs) { Some(xs.clone()) } else { None };
            let orep = if is_sorted(&xs) { Some("ok".to_string()) } else { None };
            let rep = match kind {
                "mock" => {
                    s.dict = Some(Dk::Mock(Box::leak(Box::new(MockDict {
                        xs,
                        log: s.log.clone(),
                    }))));
                    "ok"
                }
                "ef" => match catch3(|| build_ef(&xs).build_with_seq_and_dict()) {
                    R::Ok(ef) => {
                        s.dict = Some(Dk::Ef(Box::new(ef)));
                        "ok"
                    }
                    R::Panic => "panic",
                    R::Oob => "oob",
                },
                _ => unreachable!("unknown kind"),
            };
            (rep.into(), orep)
        }
        x if x.starts_with("d_") => match &s.dict {
            None => ("nodict".into(), None),
            Some(d) => {
                macro_rules! on {
                    ($e:ident => $body:expr) => {
                        match d {
                            Dk::Mock(m) => {
                                let $e: &MockDict = *m;
                                catch3(|| $body)
                            }
                            Dk::Ef(b) => {
                                let $e: &EfSeqDict = &**b;
                                catch3(|| $body)
                            }
                        }
                    };
                }
                let xs = s.dict_xs.as_deref();
                // (reply through the `&T` forwarding impl, call log of the direct call, of the forwarded call)
                let mut glue: Option<(String, Option<String>, Option<String>)> = None;
                let (rep, orep): (String, Option<String>) = match x {
                    "d_len" => (
                        fmt_r(on!(e => IndexedSeq::len(e)), |v| format!("ok {}", v)),
                        xs.map(|xs| format!("ok {}", xs.len())),
                    ),
                    "d_is_empty" => (
                        fmt_r(on!(e => IndexedSeq::is_empty(e)), |v| format!("ok {}", b01(v))),
                        xs.map(|xs| format!("ok {}", b01(xs.is_empty()))),
                    ),
                    "d_get" => {
                        let i = num(1);
                        (
                            fmt_r(on!(e => IndexedSeq::get(e, i)), |v| format!("ok {}", v)),
                            xs.map(|xs| {
                                if i < xs.len() {
                                    format!("ok {}", xs[i])
                                } else {
                                    "panic".into()
                                }
                            }),
                        )
                    }
                    "d_contains" => {
                        let q = num(1);
                        (
                            fmt_r(on!(e => IndexedDict::contains(e, q)), |v| format!("ok {}", b01(v))),
                            xs.map(|xs| format!("ok {}", b01(xs.contains(&q)))),
                        )
                    }
                    "d_succ" | "d_succ_strict" => {
                        let q = num(1);
                        let strict = x == "d_succ_strict";
                        let r = if strict {
                            on!(e => Succ::succ_strict(e, q))
                        } else {
                            on!(e => Succ::succ(e, q))
                        };
                        // the hand-written `impl Succ for &T` glue must forward to the same method
                        // (the mock's call log is taken after the first call: drain it again)
                        let log1 = match d { Dk::Mock(_) => Some(take_log(&s.log)), Dk::Ef(_) => None };
                        let r2 = if strict {
                            on!(e => <&_ as Succ>::succ_strict(&e, q))
                        } else {
                            on!(e => <&_ as Succ>::succ(&e, q))
                        };
                        let log2 = match d { Dk::Mock(_) => Some(take_log(&s.log)), Dk::Ef(_) => None };
                        glue = Some((fmt_r(r2, opt_pair), log1, log2));
                        let o = xs.map(|xs| {
                            opt_pair(
                                xs.iter()
                                    .position(|&v| if strict { v > q } else { v >= q })
                                    .map(|i| (i, xs[i])),
                            )
                        });
                        (fmt_r(r, opt_pair), o)
                    }
                    "d_pred" | "d_pred_strict" => {
                        let q = num(1);
                        let strict = x == "d_pred_strict";
                        let r = if strict {
                            on!(e => Pred::pred_strict(e, q))
                        } else {
                            on!(e => Pred::pred(e, q))
                        };
                        let log1 = match d { Dk::Mock(_) => Some(take_log(&s.log)), Dk::Ef(_) => None };
                        let r2 = if strict {
                            on!(e => <&_ as Pred>::pred_strict(&e, q))
                        } else {
                            on!(e => <&_ as Pred>::pred(&e, q))
                        };
                        let log2 = match d { Dk::Mock(_) => Some(take_log(&s.log)), Dk::Ef(_) => None };
                        glue = Some((fmt_r(r2, opt_pair), log1, log2));
                        let o = xs.map(|xs| {
                            opt_pair(
                                xs.iter()
                                    .rposition(|&v| if strict { v < q } else { v <= q })
                                    .map(|i| (i, xs[i])),
                            )
                        });
                        (fmt_r(r, opt_pair), o)
                    }
                    _ => unreachable!("unknown d op"),
                };
                let mut log = match d {
                    Dk::Mock(_) => take_log(&s.log),
                    Dk::Ef(_) => "-".into(),
                };
                let mut rep = rep;
                if let Some((rep2, l1, l2)) = glue {
                    if let Some(l) = l1.clone() {
                        log = l;
                    }
                    if rep2 != rep || l1 != l2 {
                        ctx.stat("glue-mismatch");
                        rep = format!("glue-mismatch direct=`{}` via-ref=`{}`", rep, rep2);
                    }
                }
                // "the unchecked method is called iff an answer is returned" (sorted lists)
                if xs.is_some() && log != "-" && matches!(x, "d_succ" | "d_succ_strict" | "d_pred" | "d_pred_strict")
                {
                    let calls = log.split(' ').filter(|c| c.starts_with("su:") || c.starts_with("pu:")).count();
                    let want = if rep.starts_with("ok some") { 1 } else { 0 };
                    ctx.check_oracle(&format!("unchecked calls: {}", want), &format!("unchecked calls: {}", calls));
                }
                if rep.starts_with("ok some") {
                    ctx.stat(&format!("{}:some", x));
                } else if rep.starts_with("ok none") {
                    ctx.stat(&format!("{}:none", x));
                }
                with_log(rep, orep, log)
            }
        },
        "b_new" => {
            let kind = t[1];
            let bits = parse_bits(t[2]);
            let (n1, c1, k) = (num(3), num(4), num(5));
            let m = MockBits { bits: bits.clone(), num_ones: n1, count_ones: c1, log: s.log.clone() };
            let (b, cached) = match kind {
                "plain" => (Bk::Plain(m), None),
                "anb_from" => (Bk::Anb(AddNumBits::from(m)), Some(c1)),
                "anb_raw" => (Bk::Anb(unsafe { AddNumBits::from_raw_parts(m, k) }), Some(k)),
                _ => unreachable!("unknown kind"),
            };
            s.bits = Some(b);
            s.bits_sh = Some((bits, n1, c1, cached));
            let log = take_log(&s.log);
            with_log("ok".into(), Some("ok".into()), log)
        }
        x if x.starts_with("b_") => match &s.bits {
            None => ("nobits".into(), None),
            Some(b) => {
                macro_rules! on {
                    ($e:ident => $body:expr) => {
                        match b {
                            Bk::Plain($e) => catch3(|| $body),
                            Bk::Anb($e) => catch3(|| $body),
                        }
                    };
                }
                let (bits, n1, c1, cached) = s.bits_sh.as_ref().unwrap();
                let len = bits.len();
                let ones = bits.iter().filter(|&&v| v).count();
                let sub = |a: usize, b: usize| -> String {
                    match a.checked_sub(b) {
                        Some(v) => format!("ok {}", v),
                        None => "panic".into(),
                    }
                };
                let o_rank = |p: usize| -> usize {
                    if p >= len {
                        *n1
                    } else {
                        bits[..p].iter().filter(|&&v| v).count()
                    }
                };
                let okn = |v: usize| format!("ok {}", v);
                let (rep, orep): (String, Option<String>) = match x {
                    "b_len" => (fmt_r(on!(e => BitLength::len(e)), okn), Some(okn(len))),
                    "b_num_ones" => (
                        fmt_r(on!(e => NumBits::num_ones(e)), okn),
                        Some(okn(cached.unwrap_or(*n1))),
                    ),
                    "b_count_ones" => (
                        fmt_r(on!(e => BitCount::count_ones(e)), okn),
                        Some(okn(cached.unwrap_or(*c1))),
                    ),
                    "b_num_zeros" => (
                        fmt_r(on!(e => NumBits::num_zeros(e)), okn),
                        Some(sub(len, cached.unwrap_or(*n1))),
                    ),
                    "b_count_zeros" => (
                        fmt_r(on!(e => BitCount::count_zeros(e)), okn),
                        Some(sub(len, cached.unwrap_or(*c1))),
                    ),
                    "b_rank" => {
                        let p = num(1);
                        (fmt_r(on!(e => Rank::rank(e, p)), okn), Some(okn(o_rank(p))))
                    }
                    "b_rank_zero" => {
                        let p = num(1);
                        (fmt_r(on!(e => RankZero::rank_zero(e, p)), okn), Some(sub(p, o_rank(p))))
                    }
                    "b_rank_zero_unchecked" => {
                        let p = num(1);
                        (
                            fmt_r(on!(e => unsafe { RankZero::rank_zero_unchecked(e, p) }), okn),
                            Some(if p < len { sub(p, o_rank(p)) } else { "oob".into() }),
                        )
                    }
                    "b_select" => {
                        let r = num(1);
                        let o = if r >= *n1 {
                            "ok none".to_string()
                        } else {
                            match nth(bits, true, r) {
                                Some(p) => format!("ok some {}", p),
                                None => "oob".into(),
                            }
                        };
                        (fmt_r(on!(e => Select::select(e, r)), opt_nat), Some(o))
                    }
                    "b_select_zero" => {
                        let r = num(1);
                        let o = match len.checked_sub(*n1) {
                            None => "panic".to_string(),
                            Some(n0) if r >= n0 => "ok none".into(),
                            Some(_) => match nth(bits, false, r) {
                                Some(p) => format!("ok some {}", p),
                                None => "oob".into(),
                            },
                        };
                        (fmt_r(on!(e => SelectZero::select_zero(e, r)), opt_nat), Some(o))
                    }
                    _ => unreachable!("unknown b op"),
                };
                let log = take_log(&s.log);
                // a consistent implementor is never asked outside its contract by a safe default
                if *n1 == ones && x != "b_rank_zero_unchecked" {
                    ctx.check_oracle("in contract", if rep == "oob" { "oob" } else { "in contract" });
                }
                if rep.starts_with("ok some") {
                    ctx.stat(&format!("{}:some", x));
                } else if rep.starts_with("ok none") {
                    ctx.stat(&format!("{}:none", x));
                }
                with_log(rep, orep, log)
            }
        },
        "ui_default" => {
            let ui = MockUI(s.log.clone());
            let r = catch3(|| {
                let _ = ui.into_unchecked_iter();
            });
            let rep = fmt_r(r, |_| "ok".into());
            let log = take_log(&s.log);
            with_log(rep, Some("ok".into()), log)
        }
        _ => unreachable!("unknown op {}", op),
    };
    if let Some(o) = &ores {
        // the oracle speaks about the result, not about the call log
        let got = res.split(" ; ").next().unwrap();
        ctx.check_oracle(o, got);
    }
    let class = res.split(' ').next().unwrap_or("").to_string();
    if class == "oob" || class == "refused" {
        ctx.stat(&format!("reply:{}", class));
    }
    ctx.reply(&res);
}

fn with_log(rep: String, orep: Option<String>, log: String) -> (String, Option<String>) {
    (format!("{} ; {}", rep, log), orep)
}

fn bucket(n: usize) -> &'static str {
    match n {
        0 => "0",
        1 => "1",
        2 => "2",
        3..=7 => "3-7",
        8..=31 => "8-31",
        _ => "32+",
    }
}

/* ---------------------------------------------------------------- generators */

/// weights of the given flavour; the cumulative sum stays within `usize`
fn gen_weights(ctx: &mut Ctx, n: usize) -> (Vec<usize>, &'static str) {
    let flavour = ctx.rng.below(8);
    let name = match flavour {
        0 => "small",
        1 => "zeros",
        2 => "huge",
        3 => "const",
        4 => "lead0",
        5 => "trail0",
        6 => "mixed",
        _ => "small",
    };
    let cap: usize = if n == 0 { 0 } else { (usize::MAX / 2) / n };
    let mut w: Vec<usize> = (0..n)
        .map(|i| match flavour {
            1 => {
                if ctx.rng.chance(2, 3) {
                    0
                } else {
                    ctx.rng.usize_below(20)
                }
            }
            2 => cap - ctx.rng.usize_below(cap.min(1000) + 1),
            3 => 7,
            4 => {
                if i < n / 2 {
                    0
                } else {
                    1 + ctx.rng.usize_below(30)
                }
            }
            5 => {
                if i >= n / 2 {
                    0
                } else {
                    1 + ctx.rng.usize_below(30)
                }
            }
            6 => match ctx.rng.below(4) {
                0 => 0,
                1 => ctx.rng.usize_below(1 << 20),
                2 => cap / 4,
                _ => ctx.rng.usize_below(31),
            },
            _ => ctx.rng.usize_below(31),
        })
        .collect();
    if flavour == 2 && n > 0 && ctx.rng.bool() {
        // push the total to exactly usize::MAX
        let total: u128 = w.iter().map(|&x| x as u128).sum();
        let i = ctx.rng.usize_below(n);
        w[i] += (usize::MAX as u128 - total) as usize;
    }
    (w, name)
}

fn cumulate(w: &[usize]) -> Vec<usize> {
    let mut c = vec![0usize];
    let mut a = 0usize;
    for &x in w {
        a += x;
        c.push(a);
    }
    c
}

fn gen_n(ctx: &mut Ctx) -> usize {
    match ctx.rng.below(10) {
        0 => 0,
        1 => 1,
        2 => 2,
        3..=6 => 3 + ctx.rng.usize_below(30),
        7..=8 => 30 + ctx.rng.usize_below(70),
        _ => 100 + ctx.rng.usize_below(150),
    }
}

fn gen_target(ctx: &mut Ctx, cwf: &[usize]) -> (usize, &'static str) {
    let total = *cwf.last().unwrap();
    let n = cwf.len() - 1;
    match ctx.rng.below(12) {
        0 => (0, "t0"),
        1 => (1, "t1"),
        2 => (*ctx.rng.pick(cwf), "tprefix"),
        3 => (total, "ttotal"),
        4 => (total.saturating_add(1), "ttotal+1"),
        5 => (usize::MAX, "tmax"),
        6 => (usize::MAX - total, "tovf-edge"),
        7 => ((usize::MAX - total).saturating_add(1), "tovf-edge+1"),
        8 => ((total / 2).max(1), "thalf"),
        _ => {
            let avg = if n == 0 { 1 } else { (total / n).max(1) };
            let k = 1 + ctx.rng.usize_below(6);
            (avg.saturating_mul(k).saturating_add(ctx.rng.usize_below(3)), "tavg")
        }
    }
}

fn fc_queries(ctx: &mut Ctx, s: &mut S, n: usize) {
    exec(ctx, s, "fc_state");
    match ctx.rng.below(5) {
        0 => {
            // one by one
            for _ in 0..(n + 3).min(12) {
                exec(ctx, s, "fc_next");
            }
            exec(ctx, s, "fc_state");
            exec(ctx, s, &format!("fc_collect {}", n + 3));
        }
        1 => {
            let cap = ctx.rng.usize_below(4);
            exec(ctx, s, &format!("fc_collect {}", cap));
            exec(ctx, s, "fc_state");
            exec(ctx, s, &format!("fc_collect {}", n + 3));
        }
        _ => {
            exec(ctx, s, &format!("fc_collect {}", n + 3));
        }
    }
    exec(ctx, s, "fc_state");
    exec(ctx, s, "fc_next");
    exec(ctx, s, "fc_next");
}

fn fc_case(ctx: &mut Ctx) {
    ctx.case();
    let mut s = fresh();
    let n = gen_n(ctx);
    let (w, wname) = gen_weights(ctx, n);
    let mut cwf = cumulate(&w);
    let (t, tname) = gen_target(ctx, &cwf);
    let mut kind = if ctx.rng.chance(3, 5) { "ef" } else { "mock" };
    let mut ctor = if ctx.rng.chance(2, 3) { "new" } else { "with" };
    let mut nw = n;
    let mut mw = *cwf.last().unwrap();
    let mut bad = "valid";
    if ctx.rng.chance(1, 8) {
        // out-of-domain input (mock only, except the panicking ones)
        match ctx.rng.below(6) {
            0 => {
                cwf = vec![];
                ctor = "new";
                bad = "empty";
            }
            1 => {
                let d = 1 + ctx.rng.usize_below(5);
                if *cwf.last().unwrap() <= usize::MAX - d {
                    for x in cwf.iter_mut() {
                        *x += d;
                    }
                    mw = *cwf.last().unwrap();
                    bad = "first>0";
                }
            }
            2 => {
                if cwf.len() >= 3 {
                    let i = ctx.rng.usize_below(cwf.len() - 1);
                    cwf.swap(i, i + 1);
                    kind = "mock";
                    bad = "unsorted";
                    mw = *cwf.last().unwrap();
                }
            }
            3 => {
                ctor = "with";
                kind = "mock";
                mw = mw.saturating_add(1 + ctx.rng.usize_below(10));
                bad = "mw>last";
            }
            4 => {
                ctor = "with";
                mw = mw.saturating_sub(1 + ctx.rng.usize_below(10));
                bad = "mw<last";
            }
            _ => {
                ctor = "with";
                nw = if ctx.rng.bool() { nw + 1 + ctx.rng.usize_below(3) } else { nw.saturating_sub(1) };
                bad = "nw-off";
            }
        }
    }
    if ctor == "new" {
        exec(&mut *ctx, &mut s, &format!("fc_new {} {} {}", kind, t, fmt_list(cwf.iter())));
    } else {
        exec(
            &mut *ctx,
            &mut s,
            &format!("fc_new_with {} {} {} {} {}", kind, t, fmt_list(cwf.iter()), nw, mw),
        );
    }
    fc_queries(ctx, &mut s, n);
    ctx.stat(&format!("fc:kind:{}", kind));
    ctx.stat(&format!("fc:input:{}", bad));
    ctx.shape(format!("fc:{}:{}:{}:{}:{}:{}", kind, ctor, bucket(n), wname, tname, bad));
}

fn gen_sorted(ctx: &mut Ctx) -> Vec<usize> {
    let n = match ctx.rng.below(8) {
        0 => 0,
        1 => 1,
        2 => 2,
        _ => 3 + ctx.rng.usize_below(40),
    };
    let mut xs: Vec<usize> = match ctx.rng.below(4) {
        0 => (0..n).map(|_| ctx.rng.usize_below(20)).collect(), // many duplicates
        1 => (0..n).map(|_| ctx.rng.next_u64() as usize).collect(),
        2 => (0..n).map(|_| usize::MAX - ctx.rng.usize_below(50)).collect(),
        _ => (0..n).map(|_| ctx.rng.usize_below(1000)).collect(),
    };
    xs.sort();
    xs
}

fn gen_query(ctx: &mut Ctx, xs: &[usize]) -> usize {
    match ctx.rng.below(8) {
        0 => 0,
        1 => usize::MAX,
        2 | 3 if !xs.is_empty() => *ctx.rng.pick(xs),
        4 if !xs.is_empty() => ctx.rng.pick(xs).saturating_add(1),
        5 if !xs.is_empty() => ctx.rng.pick(xs).saturating_sub(1),
        6 if !xs.is_empty() => xs[xs.len() - 1],
        _ => ctx.rng.usize_below(1100),
    }
}

fn dict_case(ctx: &mut Ctx) {
    ctx.case();
    let mut s = fresh();
    let mut xs = gen_sorted(ctx);
    let mut kind = if ctx.rng.chance(1, 3) { "ef" } else { "mock" };
    let mut sorted = "sorted";
    if xs.len() >= 2 && ctx.rng.chance(1, 10) {
        let i = ctx.rng.usize_below(xs.len() - 1);
        if xs[i] != xs[i + 1] {
            xs.swap(i, i + 1);
            kind = "mock";
            sorted = "unsorted";
        }
    }
    exec(ctx, &mut s, &format!("d_new {} {}", kind, fmt_list(xs.iter())));
    exec(ctx, &mut s, "d_len");
    exec(ctx, &mut s, "d_is_empty");
    let k = 6 + ctx.rng.usize_below(10);
    for _ in 0..k {
        let q = gen_query(ctx, &xs);
        let op = match ctx.rng.below(7) {
            0 => format!("d_succ {}", q),
            1 => format!("d_succ_strict {}", q),
            2 => format!("d_pred {}", q),
            3 => format!("d_pred_strict {}", q),
            4 => format!("d_contains {}", q),
            5 => {
                let i = match ctx.rng.below(5) {
                    0 => xs.len(),
                    1 => xs.len() + 1,
                    2 => usize::MAX,
                    _ => ctx.rng.usize_below(xs.len().max(1)),
                };
                format!("d_get {}", i)
            }
            _ => format!("d_succ {}", q),
        };
        exec(ctx, &mut s, &op);
    }
    let dups = xs.windows(2).any(|w| w[0] == w[1]);
    ctx.stat(&format!("d:kind:{}", kind));
    ctx.shape(format!("d:{}:{}:{}:{}", kind, bucket(xs.len()), sorted, if dups { "dups" } else { "nodups" }));
}

fn ss_case(ctx: &mut Ctx) {
    ctx.case();
    let mut s = fresh();
    let n = match ctx.rng.below(6) {
        0 => 0,
        1 => 1,
        _ => 2 + ctx.rng.usize_below(30),
    };
    let xs: Vec<usize> = (0..n).map(|_| ctx.rng.word() as usize).collect();
    exec(ctx, &mut s, &format!("ss_new {}", fmt_list(xs.iter())));
    for op in ["ss_len", "ss_is_empty", "ss_iter", "ss_into_iter"] {
        exec(ctx, &mut s, op);
    }
    for _ in 0..4 {
        let i = match ctx.rng.below(6) {
            0 => n,
            1 => n + 1,
            2 => usize::MAX,
            _ => ctx.rng.usize_below(n.max(1)),
        };
        exec(ctx, &mut s, &format!("ss_get {}", i));
        if i < n {
            exec(ctx, &mut s, &format!("ss_get_unchecked {}", i));
        }
        let k = match ctx.rng.below(5) {
            0 => n,
            1 => n + 1 + ctx.rng.usize_below(3),
            2 => usize::MAX,
            _ => ctx.rng.usize_below(n + 1),
        };
        exec(ctx, &mut s, &format!("ss_into_iter_from {}", k));
    }
    let mut ys = xs.clone();
    match ctx.rng.below(4) {
        0 if !ys.is_empty() => {
            ys.pop();
        }
        1 => ys.push(3),
        2 if !ys.is_empty() => {
            let i = ctx.rng.usize_below(ys.len());
            ys[i] ^= 1;
        }
        _ => {}
    }
    exec(ctx, &mut s, &format!("ss_eq {}", fmt_list(ys.iter())));
    ctx.shape(format!("ss:{}", bucket(n)));
}

fn bits_case(ctx: &mut Ctx) {
    ctx.case();
    let mut s = fresh();
    let len = match ctx.rng.below(6) {
        0 => 0,
        1 => 1,
        _ => 2 + ctx.rng.usize_below(70),
    };
    let dens = ctx.rng.below(4);
    let bits: Vec<bool> = (0..len)
        .map(|_| match dens {
            0 => false,
            1 => true,
            2 => ctx.rng.chance(1, 8),
            _ => ctx.rng.bool(),
        })
        .collect();
    let ones = bits.iter().filter(|&&b| b).count();
    let skew = |ctx: &mut Ctx, v: usize| -> (usize, &'static str) {
        match ctx.rng.below(10) {
            0 => (v + 1, "+1"),
            1 => (v.saturating_sub(1), "-1"),
            2 => (len + 1, "len+1"),
            _ => (v, "true"),
        }
    };
    let (n1, c1n) = skew(ctx, ones);
    let (c1, _) = skew(ctx, ones);
    let (k, _) = skew(ctx, ones);
    let kind = *ctx.rng.pick(&["plain", "plain", "anb_from", "anb_raw"]);
    let bstr = if bits.is_empty() { "-".to_string() } else { fmt_bools(bits.iter().copied()) };
    exec(ctx, &mut s, &format!("b_new {} {} {} {} {}", kind, bstr, n1, c1, k));
    for op in ["b_len", "b_num_ones", "b_count_ones", "b_num_zeros", "b_count_zeros"] {
        exec(ctx, &mut s, op);
    }
    let m = 6 + ctx.rng.usize_below(8);
    for _ in 0..m {
        let p = match ctx.rng.below(7) {
            0 => 0,
            1 => len,
            2 => len + 1,
            3 => len.saturating_sub(1),
            4 => usize::MAX,
            _ => ctx.rng.usize_below(len.max(1)),
        };
        let r = match ctx.rng.below(7) {
            0 => 0,
            1 => ones,
            2 => ones.saturating_sub(1),
            3 => len - ones,
            4 => (len - ones).saturating_sub(1),
            5 => usize::MAX,
            _ => ctx.rng.usize_below(len + 2),
        };
        let op = match ctx.rng.below(6) {
            0 => format!("b_rank {}", p),
            1 => format!("b_rank_zero {}", p),
            2 => format!("b_rank_zero_unchecked {}", p),
            3 | 4 => format!("b_select {}", r),
            _ => format!("b_select_zero {}", r),
        };
        exec(ctx, &mut s, &op);
    }
    if ctx.rng.chance(1, 4) {
        exec(ctx, &mut s, "ui_default");
    }
    ctx.shape(format!("b:{}:{}:{}:{}", kind, bucket(len), dens, c1n));
}

fn run_lines(ctx: &mut Ctx, lines: &[&str]) {
    ctx.case();
    let mut s = fresh();
    for l in lines {
        exec(ctx, &mut s, l);
    }
}

/// hand-listed cases that hit every model branch
fn directed(ctx: &mut Ctx) {
    // the crate's own test vector (doc example and `test_fair_chunks`), both constructors
    let weights = [
        15usize, 27, 20, 26, 4, 22, 10, 25, 7, 13, 0, 11, 5, 28, 23, 1, 12, 24, 3, 30, 8, 29, 17, 2, 14, 9, 16,
        18, 21, 19,
    ];
    let cwf = cumulate(&weights);
    let c = fmt_list(cwf.iter());
    for kind in ["ef", "mock"] {
        run_lines(
            ctx,
            &[
                &format!("fc_new {} 50 {}", kind, c),
                "fc_state",
                "fc_collect 100",
                "fc_state",
                "fc_next",
                "fc_next",
            ],
        );
        run_lines(
            ctx,
            &[
                &format!("fc_new_with {} 50 {} 30 {}", kind, c, cwf[30]),
                "fc_next",
                "fc_next",
                "fc_state",
                "fc_collect 3",
                "fc_collect 0",
                "fc_collect 100",
                "fc_next",
            ],
        );
        // target 0; empty list; single element; exact multiples (empty last chunk); zeros; first > 0
        run_lines(ctx, &[&format!("fc_new {} 0 [0,5,10]", kind), "fc_next", "fc_collect 5", "fc_state"]);
        run_lines(ctx, &[&format!("fc_new {} 5 []", kind), "fc_next", "fc_state"]);
        run_lines(ctx, &[&format!("fc_new {} 0 []", kind), "fc_next"]);
        run_lines(ctx, &[&format!("fc_new {} 5 [0]", kind), "fc_state", "fc_collect 5", "fc_next"]);
        run_lines(ctx, &[&format!("fc_new {} 5 [7]", kind), "fc_state", "fc_collect 5", "fc_next"]);
        run_lines(ctx, &[&format!("fc_new {} 5 [0,5,10]", kind), "fc_collect 9", "fc_state"]);
        run_lines(ctx, &[&format!("fc_new {} 5 [0,50]", kind), "fc_collect 9"]);
        run_lines(ctx, &[&format!("fc_new {} 51 [0,50]", kind), "fc_collect 9"]);
        run_lines(ctx, &[&format!("fc_new {} 1 [0,0,0,0]", kind), "fc_collect 9"]);
        run_lines(ctx, &[&format!("fc_new {} 5 [0,0,5,5,5,10,10]", kind), "fc_collect 9"]);
        run_lines(ctx, &[&format!("fc_new {} 4 [3,5]", kind), "fc_collect 9"]);
        run_lines(ctx, &[&format!("fc_new {} 2 [3,5]", kind), "fc_collect 9"]);
        // `current_weight + target_weight` leaves usize: panic (checked build), state unchanged
        run_lines(
            ctx,
            &[
                &format!("fc_new {} 9223372036854775808 [0,9223372036854775808,18446744073709551615]", kind),
                "fc_next",
                "fc_state",
                "fc_next",
                "fc_state",
                "fc_collect 4",
            ],
        );
        run_lines(
            ctx,
            &[&format!("fc_new {} 18446744073709551615 [0,1,2]", kind), "fc_collect 4", "fc_state"],
        );
        run_lines(
            ctx,
            &[&format!("fc_new {} 18446744073709551615 [0,0,0]", kind), "fc_collect 4"],
        );
        // new_with below the real maximum / other num_weights: safe, chunks cut short or ill-formed
        run_lines(ctx, &[&format!("fc_new_with {} 3 [0,2,4,6,8] 4 5", kind), "fc_collect 9"]);
        run_lines(ctx, &[&format!("fc_new_with {} 3 [0,2,4,6,8] 1 8", kind), "fc_collect 9"]);
        run_lines(ctx, &[&format!("fc_new_with {} 3 [0,2,4,6,8] 9 8", kind), "fc_collect 9"]);
    }
    // safe API, contract of succ_unchecked violated: only on the mock (reply oob)
    run_lines(ctx, &["fc_new_with mock 1 [0,1] 1 5", "fc_next", "fc_next", "fc_state", "fc_collect 3"]);
    run_lines(ctx, &["fc_new_with mock 1 [] 0 5", "fc_next"]);
    run_lines(ctx, &["fc_new mock 2 [0,5,3,9]", "fc_collect 9"]);
    run_lines(ctx, &["fc_next", "fc_collect 3", "fc_state", "ss_len", "d_len", "b_len"]);
    // SliceSeq
    run_lines(
        ctx,
        &[
            "ss_new []",
            "ss_len",
            "ss_is_empty",
            "ss_iter",
            "ss_into_iter",
            "ss_get 0",
            "ss_into_iter_from 0",
            "ss_into_iter_from 1",
            "ss_eq []",
            "ss_eq [0]",
        ],
    );
    run_lines(
        ctx,
        &[
            "ss_new [4,18446744073709551615,6]",
            "ss_len",
            "ss_is_empty",
            "ss_iter",
            "ss_into_iter",
            "ss_get 0",
            "ss_get 2",
            "ss_get 3",
            "ss_get 18446744073709551615",
            "ss_get_unchecked 1",
            "ss_into_iter_from 0",
            "ss_into_iter_from 2",
            "ss_into_iter_from 3",
            "ss_into_iter_from 4",
            "ss_into_iter_from 18446744073709551615",
            "ss_eq [4,18446744073709551615,6]",
            "ss_eq [4,18446744073709551615]",
            "ss_eq [4,18446744073709551615,7]",
        ],
    );
    // dictionary defaults: every guard on both sides of its threshold
    for kind in ["mock", "ef"] {
        run_lines(
            ctx,
            &[
                &format!("d_new {} [1,3,3,7]", kind),
                "d_len",
                "d_is_empty",
                "d_get 0",
                "d_get 3",
                "d_get 4",
                "d_contains 3",
                "d_contains 4",
                "d_succ 0",
                "d_succ 3",
                "d_succ 7",
                "d_succ 8",
                "d_succ_strict 3",
                "d_succ_strict 6",
                "d_succ_strict 7",
                "d_pred 0",
                "d_pred 1",
                "d_pred 3",
                "d_pred 18446744073709551615",
                "d_pred_strict 1",
                "d_pred_strict 2",
                "d_pred_strict 4",
            ],
        );
        run_lines(
            ctx,
            &[
                &format!("d_new {} []", kind),
                "d_len",
                "d_is_empty",
                "d_get 0",
                "d_contains 0",
                "d_succ 0",
                "d_succ_strict 0",
                "d_pred 0",
                "d_pred_strict 0",
            ],
        );
        run_lines(
            ctx,
            &[
                &format!("d_new {} [18446744073709551615]", kind),
                "d_succ 18446744073709551615",
                "d_succ_strict 18446744073709551615",
                "d_succ_strict 18446744073709551614",
                "d_pred 18446744073709551615",
                "d_pred_strict 18446744073709551615",
            ],
        );
    }
    // unsorted list under the mock: the guards look at the last / first element only
    run_lines(ctx, &["d_new mock [5,9,2]", "d_succ 3", "d_succ 7", "d_pred 4", "d_pred 5", "d_pred_strict 5"]);
    run_lines(ctx, &["d_new ef [5,9,2]", "d_len"]);
    // bit defaults
    let qs = [
        "b_len",
        "b_num_ones",
        "b_count_ones",
        "b_num_zeros",
        "b_count_zeros",
        "b_rank 0",
        "b_rank 2",
        "b_rank 4",
        "b_rank 5",
        "b_rank 6",
        "b_rank_zero 0",
        "b_rank_zero 4",
        "b_rank_zero 5",
        "b_rank_zero 9",
        "b_rank_zero_unchecked 3",
        "b_select 0",
        "b_select 2",
        "b_select 3",
        "b_select_zero 0",
        "b_select_zero 1",
        "b_select_zero 2",
        "ui_default",
    ];
    for head in [
        "b_new plain 01101 3 3 0",
        "b_new anb_from 01101 3 3 0",
        "b_new anb_raw 01101 3 3 3",
        "b_new plain 01101 9 3 0",     // num_ones > len: num_zeros underflows
        "b_new plain 01101 4 2 0",     // over-reported num_ones: select(3) leaves the contract
        "b_new plain 01101 2 2 0",     // under-reported
        "b_new anb_from 01101 3 9 0",  // cached count > len
        "b_new anb_raw 01101 3 3 9",
        "b_new plain - 0 0 0",
        "b_new plain 1 1 1 0",
        "b_new plain 0 0 0 0",
    ] {
        let mut v = vec![head];
        v.extend(qs.iter());
        run_lines(ctx, &v);
    }
    run_lines(ctx, &["b_new plain 01101 3 3 0", "b_rank_zero_unchecked 5"]);
}

pub fn run(ctx: &mut Ctx) {
    directed(ctx);
    let n = if ctx.tier == Tier::Quick { 6000 } else { 60000 };
    for _ in 0..n {
        match ctx.rng.below(10) {
            0..=4 => fc_case(ctx),
            5 | 6 => dict_case(ctx),
            7 => ss_case(ctx),
            _ => bits_case(ctx),
        }
    }
}

/// re-execute the ops of a replay file
pub fn replay(ctx: &mut Ctx, lines: &[String]) {
    let mut s = fresh();
    for l in lines {
        if l.starts_with("case ") {
            ctx.op(l);
            ctx.reply("case");
            s = fresh();
        } else {
            exec(ctx, &mut s, l);
        }
    }
}
