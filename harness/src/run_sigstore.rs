//! Runner `sigstore` (C18): signature stores (`new_online` / `new_offline`), `try_push`,
//! `into_shard_store`, `ShardStore::{len, shard_sizes, iter, into_iter}`.
//!
//! Protocol (mirrored by `SuxModel/SigStore/Runner.lean`):
//!   new online|offline <sw 1|2> <bucket bits> <max shard bits> <u8|u64|unit>   -> ok | panic
//!   push <sig> <val>            sig decimal (= sig[0]*2^64 + sig[1] when sw = 2)   -> ok <len>
//!   pushes <sig>:<val>,... | -                                                    -> ok <len>
//!   len | max_shard_high_bits                                                     -> ok <n>
//!   shard <s>                   into_shard_store(s)                               -> ok | panic
//!   shard_sizes                                                                   -> ok [..]
//!   iter                        borrowed; every shard sorted by (sig, val)        -> ok [p,..][..]..
//!   iter_raw                    borrowed; iteration order                         -> ok [p,..][..]..
//!   iter_take <k>               first k shards of iter() then size_hint().0       -> ok <rest> [..]..
//!   into_iter | into_iter_raw   consuming                                         -> ok [..]..
//!   new_hint <be> <sw> <b> <m> <vt> <hint>   the constructors with `Some(hint)` expected keys   -> ok | panic
//!   is_empty | temp_dir         SigStore::is_empty -> ok 0|1 ; SigStore::temp_dir -> ok some|none
//!   into_iter_held <k>          into_iter() while the first k Arc handles of a borrowed pass are still alive -> ok [..]..
//!   into_iter_take <k>          first k shards of into_iter(), then size_hint().0; store gone  -> ok <rest> [..]..
//!   svops <sw> <vt> <sigA> <valA> <sigB> <valB>   stateless: SigVal == / ^ / ^= and RadixKey::get_level
//!                               -> ok <eq 0|1> <sigA^sigB>:<valA^valB> [level 0, .., level LEVELS-1 of A]
//!   tosig <seed> <hex>          stateless: every `ToSig` impl whose key has exactly these bytes
//!                               (String, &String, str, &str, &[T], primitives) gives the signature of
//!                               `&[u8]`, for both signature widths                             -> ok 1 | ok 0
//! Ops in the wrong stage reply `err stage` on both sides.  The naive oracle keeps the pushed
//! list and recomputes everything with `sig[0] >> (64 - bits)`.
use crate::common::*;
use epserde::prelude::*;
use sux::utils::*;

type P = (u128, u64);

trait SigT: Sig + ZeroCopy + Send + Sync + Copy + 'static {
    fn from128(x: u128) -> Self;
    fn to128(&self) -> u128;
}
impl SigT for [u64; 1] {
    fn from128(x: u128) -> Self {
        [x as u64]
    }
    fn to128(&self) -> u128 {
        self[0] as u128
    }
}
impl SigT for [u64; 2] {
    fn from128(x: u128) -> Self {
        [(x >> 64) as u64, x as u64]
    }
    fn to128(&self) -> u128 {
        ((self[0] as u128) << 64) | self[1] as u128
    }
}

trait ValT: ZeroCopy + Send + Sync + Copy + 'static {
    fn from64(x: u64) -> Self;
    fn to64(&self) -> u64;
}
impl ValT for u8 {
    fn from64(x: u64) -> Self {
        x as u8
    }
    fn to64(&self) -> u64 {
        *self as u64
    }
}
impl ValT for u64 {
    fn from64(x: u64) -> Self {
        x
    }
    fn to64(&self) -> u64 {
        *self
    }
}
impl ValT for EmptyVal {
    fn from64(_: u64) -> Self {
        EmptyVal::default()
    }
    fn to64(&self) -> u64 {
        0
    }
}

enum Stage<A, B> {
    Sig(A),
    Shard(B),
    Dead,
}

/// the real store behind a uniform interface; every method returns the protocol reply
trait Dyn {
    fn exec(&mut self, t: &[&str]) -> String;
}

struct M<S: SigT, V: ValT, St: SigStore<S, V>> {
    stage: Stage<St, St::ShardStore>,
    /// on the concrete shard store: advance a borrowed iterator by `k`, return
    /// (`size_hint().0`, `ExactSizeIterator::len()`)
    xlen: fn(&mut St::ShardStore, usize) -> (usize, usize),
}

fn xlen_of<S: SigT, V: ValT, B: Send + Sync>(sh: &mut ShardStoreImpl<S, V, B>, k: usize) -> (usize, usize)
where
    ShardStoreImpl<S, V, B>: ShardStore<S, V>,
    for<'a> <ShardStoreImpl<S, V, B> as ShardStore<S, V>>::ShardIterator<'a>: ExactSizeIterator,
{
    let mut it = sh.iter();
    for _ in 0..k {
        if it.next().is_none() {
            break;
        }
    }
    (it.size_hint().0, ExactSizeIterator::len(&it))
}

fn conv<S: SigT, V: ValT>(x: &SigVal<S, V>) -> P {
    (x.sig.to128(), x.val.to64())
}

fn fmt_shards(shards: &[Vec<P>], sort: bool) -> String {
    if shards.is_empty() {
        return "-".into();
    }
    let mut s = String::new();
    for sh in shards {
        let mut sh = sh.clone();
        if sort {
            sh.sort();
        }
        s.push('[');
        for (i, (a, b)) in sh.iter().enumerate() {
            if i > 0 {
                s.push(',');
            }
            s.push_str(&format!("{}:{}", a, b));
        }
        s.push(']');
    }
    s
}

fn parse_pairs(s: &str) -> Vec<P> {
    if s == "-" {
        return vec![];
    }
    s.split(',')
        .map(|x| {
            let (a, b) = x.split_once(':').unwrap();
            (a.parse().unwrap(), b.parse().unwrap())
        })
        .collect()
}

impl<S: SigT, V: ValT, St: SigStore<S, V>> Dyn for M<S, V, St> {
    fn exec(&mut self, t: &[&str]) -> String {
        match t[0] {
            "push" | "pushes" => {
                let ps = if t[0] == "push" {
                    vec![(t[1].parse::<u128>().unwrap(), t[2].parse::<u64>().unwrap())]
                } else {
                    parse_pairs(t[1])
                };
                let Stage::Sig(st) = &mut self.stage else {
                    return "err stage".into();
                };
                for (sig, val) in ps {
                    let sv = SigVal {
                        sig: S::from128(sig),
                        val: V::from64(val),
                    };
                    match catch(|| st.try_push(sv)) {
                        None => return "panic".into(),
                        Some(Err(_)) => return "err io".into(),
                        Some(Ok(())) => {}
                    }
                }
                format!("ok {}", st.len())
            }
            "len" => match &self.stage {
                Stage::Sig(st) => format!("ok {}", st.len()),
                Stage::Shard(sh) => match catch(|| sh.len()) {
                    Some(n) => format!("ok {}", n),
                    None => "panic".into(),
                },
                Stage::Dead => "err stage".into(),
            },
            "max_shard_high_bits" => match &self.stage {
                Stage::Sig(st) => format!("ok {}", st.max_shard_high_bits()),
                _ => "err stage".into(),
            },
            "is_empty" => match &self.stage {
                Stage::Sig(st) => format!("ok {}", b01(st.is_empty())),
                _ => "err stage".into(),
            },
            "temp_dir" => match &self.stage {
                Stage::Sig(st) => match st.temp_dir() {
                    Some(d) if d.path().is_dir() => "ok some".into(),
                    Some(_) => "ok some-missing".into(),
                    None => "ok none".into(),
                },
                _ => "err stage".into(),
            },
            "shard" => {
                let s: u32 = t[1].parse().unwrap();
                if !matches!(self.stage, Stage::Sig(_)) {
                    return "err stage".into();
                }
                let Stage::Sig(st) = std::mem::replace(&mut self.stage, Stage::Dead) else {
                    unreachable!()
                };
                match catch(move || st.into_shard_store(s)) {
                    None => "panic".into(),
                    Some(Err(_)) => "err io".into(),
                    Some(Ok(sh)) => {
                        self.stage = Stage::Shard(sh);
                        "ok".into()
                    }
                }
            }
            "shard_sizes" => match &self.stage {
                Stage::Shard(sh) => format!("ok {}", fmt_list(sh.shard_sizes().iter())),
                _ => "err stage".into(),
            },
            "iter" | "iter_raw" => {
                let Stage::Shard(sh) = &mut self.stage else {
                    return "err stage".into();
                };
                match catch(|| {
                    sh.iter()
                        .map(|a| a.iter().map(conv).collect::<Vec<P>>())
                        .collect::<Vec<_>>()
                }) {
                    None => "panic".into(),
                    Some(v) => format!("ok {}", fmt_shards(&v, t[0] == "iter")),
                }
            }
            "iter_take" => {
                let k: usize = t[1].parse().unwrap();
                let xlen = self.xlen;
                let Stage::Shard(sh) = &mut self.stage else {
                    return "err stage".into();
                };
                match catch(|| {
                    let mut it = sh.iter();
                    let v = it
                        .by_ref()
                        .take(k)
                        .map(|a| a.iter().map(conv).collect::<Vec<P>>())
                        .collect::<Vec<_>>();
                    let rest = it.size_hint().0;
                    assert_eq!(it.size_hint(), (rest, Some(rest)));
                    drop(it);
                    // `ExactSizeIterator::len`: the associated types of the trait `ShardStore` are
                    // only bounded by `Iterator`, so the method exists on the concrete iterator only
                    let (h, l) = xlen(sh, k);
                    assert_eq!((h, l), (rest, rest), "ExactSizeIterator::len of the borrowed iterator");
                    (rest, v)
                }) {
                    None => "panic".into(),
                    Some((rest, v)) => format!("ok {} {}", rest, fmt_shards(&v, true)),
                }
            }
            "into_iter_take" => {
                // a consuming iteration abandoned after k shards (the rest is dropped unread)
                let k: usize = t[1].parse().unwrap();
                if !matches!(self.stage, Stage::Shard(_)) {
                    return "err stage".into();
                }
                let Stage::Shard(sh) = std::mem::replace(&mut self.stage, Stage::Dead) else {
                    unreachable!()
                };
                match catch(move || {
                    let mut it = ShardStore::into_iter(sh);
                    let v = it
                        .by_ref()
                        .take(k)
                        .map(|a| a.iter().map(conv).collect::<Vec<P>>())
                        .collect::<Vec<_>>();
                    let rest = it.size_hint().0;
                    assert_eq!(it.size_hint(), (rest, Some(rest)));
                    (rest, v)
                }) {
                    None => "panic".into(),
                    Some((rest, v)) => format!("ok {} {}", rest, fmt_shards(&v, true)),
                }
            }
            "into_iter_held" => {
                // the caller keeps the handles of the first k shards of a borrowed pass alive across
                // the consuming pass: both passes must still deliver every pair
                let k: usize = t[1].parse().unwrap();
                if !matches!(self.stage, Stage::Shard(_)) {
                    return "err stage".into();
                }
                let Stage::Shard(mut sh) = std::mem::replace(&mut self.stage, Stage::Dead) else {
                    unreachable!()
                };
                match catch(move || {
                    let held = sh.iter().take(k).collect::<Vec<_>>();
                    let before = held.iter().map(|a| a.iter().map(conv).collect::<Vec<P>>()).collect::<Vec<_>>();
                    let v = ShardStore::into_iter(sh)
                        .map(|a| a.iter().map(conv).collect::<Vec<P>>())
                        .collect::<Vec<_>>();
                    let after = held.iter().map(|a| a.iter().map(conv).collect::<Vec<P>>()).collect::<Vec<_>>();
                    assert_eq!(before, after, "held shards changed under the consuming pass");
                    v
                }) {
                    None => "panic".into(),
                    Some(v) => format!("ok {}", fmt_shards(&v, true)),
                }
            }
            "into_iter" | "into_iter_raw" => {
                if !matches!(self.stage, Stage::Shard(_)) {
                    return "err stage".into();
                }
                let Stage::Shard(sh) = std::mem::replace(&mut self.stage, Stage::Dead) else {
                    unreachable!()
                };
                match catch(move || {
                    ShardStore::into_iter(sh)
                        .map(|a| a.iter().map(conv).collect::<Vec<P>>())
                        .collect::<Vec<_>>()
                }) {
                    None => "panic".into(),
                    Some(v) => format!("ok {}", fmt_shards(&v, t[0] == "into_iter")),
                }
            }
            _ => panic!("unknown op {:?}", t),
        }
    }
}

fn mk_online<S: SigT, V: ValT>(b: u32, m: u32, hint: Option<usize>) -> Option<Box<dyn Dyn>> {
    match catch(|| new_online::<S, V>(b, m, hint)) {
        Some(Ok(st)) => Some(Box::new(M::<S, V, _> {
            stage: Stage::Sig(st),
            xlen: xlen_of::<S, V, std::sync::Arc<Vec<SigVal<S, V>>>>,
        })),
        _ => None,
    }
}

fn mk_offline<S: SigT, V: ValT>(b: u32, m: u32, hint: Option<usize>) -> Option<Box<dyn Dyn>> {
    match catch(|| new_offline::<S, V>(b, m, hint)) {
        Some(Ok(st)) => Some(Box::new(M::<S, V, _> {
            stage: Stage::Sig(st),
            xlen: xlen_of::<S, V, std::io::BufReader<std::fs::File>>,
        })),
        _ => None,
    }
}

fn mk(be: &str, sw: u32, b: u32, m: u32, vt: &str, hint: Option<usize>) -> Option<Box<dyn Dyn>> {
    match (be, sw, vt) {
        ("online", 1, "u8") => mk_online::<[u64; 1], u8>(b, m, hint),
        ("online", 1, "u64") => mk_online::<[u64; 1], u64>(b, m, hint),
        ("online", 1, "unit") => mk_online::<[u64; 1], EmptyVal>(b, m, hint),
        ("online", 2, "u8") => mk_online::<[u64; 2], u8>(b, m, hint),
        ("online", 2, "u64") => mk_online::<[u64; 2], u64>(b, m, hint),
        ("online", 2, "unit") => mk_online::<[u64; 2], EmptyVal>(b, m, hint),
        ("offline", 1, "u8") => mk_offline::<[u64; 1], u8>(b, m, hint),
        ("offline", 1, "u64") => mk_offline::<[u64; 1], u64>(b, m, hint),
        ("offline", 1, "unit") => mk_offline::<[u64; 1], EmptyVal>(b, m, hint),
        ("offline", 2, "u8") => mk_offline::<[u64; 2], u8>(b, m, hint),
        ("offline", 2, "u64") => mk_offline::<[u64; 2], u64>(b, m, hint),
        ("offline", 2, "unit") => mk_offline::<[u64; 2], EmptyVal>(b, m, hint),
        _ => panic!("bad new {} {} {}", be, sw, vt),
    }
}

// ------------------------------------------------------------------ SigVal glue, ToSig (stateless)

fn svops_t<S: SigT, V: ValT + std::ops::BitXor<Output = V> + std::ops::BitXorAssign>(
    levels: usize,
    a: P,
    b: P,
) -> Option<String>
where
    SigVal<S, V>: rdst::RadixKey
        + PartialEq
        + std::ops::BitXor<Output = SigVal<S, V>>
        + std::ops::BitXorAssign,
{
    catch(|| {
        let x = SigVal { sig: S::from128(a.0), val: V::from64(a.1) };
        let y = SigVal { sig: S::from128(b.0), val: V::from64(b.1) };
        let eq = x == y;
        let z = x ^ y;
        let mut w = x;
        w ^= y;
        assert!(conv(&z) == conv(&w), "BitXor and BitXorAssign differ");
        assert_eq!(<SigVal<S, V> as rdst::RadixKey>::LEVELS, levels);
        let lv: Vec<u8> = (0..levels).map(|l| rdst::RadixKey::get_level(&x, l)).collect();
        let (zs, zv) = conv(&z);
        format!("ok {} {}:{} {}", b01(eq), zs, zv, fmt_list(lv.iter()))
    })
}

/// (oracle, implementation) replies of `svops <sw> <vt> <sigA> <valA> <sigB> <valB>`
fn svops(t: &[&str]) -> (String, String) {
    let sw: u32 = t[1].parse().unwrap();
    let a: P = (t[3].parse().unwrap(), t[4].parse().unwrap());
    let b: P = (t[5].parse().unwrap(), t[6].parse().unwrap());
    let levels = 8 * sw as usize;
    let got = match (sw, t[2]) {
        (1, "u8") => svops_t::<[u64; 1], u8>(levels, a, b),
        (1, "u64") => svops_t::<[u64; 1], u64>(levels, a, b),
        (1, "unit") => svops_t::<[u64; 1], EmptyVal>(levels, a, b),
        (2, "u8") => svops_t::<[u64; 2], u8>(levels, a, b),
        (2, "u64") => svops_t::<[u64; 2], u64>(levels, a, b),
        (2, "unit") => svops_t::<[u64; 2], EmptyVal>(levels, a, b),
        _ => panic!("bad svops {:?}", t),
    }
    .unwrap_or_else(|| "panic".into());
    // oracle: equality looks at the signature only; XOR component-wise; level l = byte l (least
    // significant first) of the signature read as one number
    let lv: Vec<u8> = (0..levels).map(|l| (a.0 >> (8 * l)) as u8).collect();
    let exp = format!("ok {} {}:{} {}", b01(a.0 == b.0), a.0 ^ b.0, a.1 ^ b.1, fmt_list(lv.iter()));
    (exp, got)
}

fn hex_arg(bs: &[u8]) -> String {
    if bs.is_empty() {
        return "-".into();
    }
    bs.iter().map(|b| format!("{:02x}", b)).collect()
}

fn unhex(s: &str) -> Vec<u8> {
    if s == "-" {
        return vec![];
    }
    let v = |c: u8| -> u8 {
        match c {
            b'0'..=b'9' => c - b'0',
            b'a'..=b'f' => c - b'a' + 10,
            _ => panic!("bad hex"),
        }
    };
    s.as_bytes().chunks(2).map(|p| v(p[0]) * 16 + v(p[1])).collect()
}

/// every `ToSig` implementation whose key consists of exactly `bytes` must give the signature of
/// the byte slice itself (all of them hash the key's bytes with xxh3); both signature widths
fn tosig(ctx: &mut Ctx, t: &[&str]) -> (String, String) {
    let seed: u64 = t[1].parse().unwrap();
    let bytes = unhex(t[2]);
    let got = catch(|| {
        let r1: [u64; 1] = <&[u8] as ToSig<[u64; 1]>>::to_sig(&bytes[..], seed);
        let r2: [u64; 2] = <&[u8] as ToSig<[u64; 2]>>::to_sig(&bytes[..], seed);
        let mut forms = 0usize;
        let mut bad: Vec<&'static str> = vec![];
        macro_rules! chk {
            ($name:expr, $T:ty, $key:expr) => {{
                forms += 1;
                let a: [u64; 1] = <$T as ToSig<[u64; 1]>>::to_sig($key, seed);
                let b: [u64; 2] = <$T as ToSig<[u64; 2]>>::to_sig($key, seed);
                if a != r1 || b != r2 {
                    bad.push($name);
                }
            }};
        }
        if let Ok(st) = std::str::from_utf8(&bytes) {
            let owned = st.to_string();
            chk!("String", String, &owned);
            chk!("String-by-value", String, owned.clone());
            chk!("&String", &String, &owned);
            chk!("str", str, st);
            chk!("&str", &str, st);
        }
        macro_rules! prim {
            ($($ty:ty),*) => {$(
                const N: usize = std::mem::size_of::<$ty>();
                if bytes.len() == N {
                    let v = <$ty>::from_ne_bytes(bytes[..].try_into().unwrap());
                    chk!(stringify!($ty), $ty, v);
                }
                if bytes.len() % N == 0 {
                    let vs: Vec<$ty> = bytes.chunks(N).map(|c| <$ty>::from_ne_bytes(c.try_into().unwrap())).collect();
                    chk!(concat!("&[", stringify!($ty), "]"), &[$ty], &vs[..]);
                }
            )*};
        }
        { prim!(u8); } { prim!(i8); } { prim!(u16); } { prim!(i16); } { prim!(u32); } { prim!(i32); }
        { prim!(u64); } { prim!(i64); } { prim!(usize); } { prim!(isize); } { prim!(u128); } { prim!(i128); }
        (forms, bad)
    });
    match got {
        Some((forms, bad)) => {
            ctx.stat(&format!("tosig:forms:{}", forms.min(40)));
            if bad.is_empty() {
                ("ok 1".into(), "ok 1".into())
            } else {
                ("ok 1".into(), format!("ok 0 {}", bad.join(",")))
            }
        }
        None => ("ok 1".into(), "panic".into()),
    }
}

// ------------------------------------------------------------------ naive oracle

#[derive(PartialEq, Clone, Copy)]
enum OStage {
    None,
    Sig,
    Shard(u32),
    Dead,
}

struct Oracle {
    stage: OStage,
    offline: bool,
    sw: u32,
    b: u32,
    m: u32,
    pushed: Vec<P>,
}

/// the top `bits` bits of the first u64 of the signature
fn top(sw: u32, sig: u128, bits: u32) -> u64 {
    let w = if sw == 2 { (sig >> 64) as u64 } else { sig as u64 };
    if bits == 0 {
        0
    } else {
        w >> (64 - bits)
    }
}

impl Oracle {
    fn shards(&self, s: u32, sorted: bool) -> Vec<Vec<P>> {
        let mut v: Vec<Vec<P>> = vec![vec![]; 1usize << s];
        for &p in &self.pushed {
            v[top(self.sw, p.0, s) as usize].push(p);
        }
        for sh in v.iter_mut() {
            if sorted {
                sh.sort();
            } else if self.b > s {
                // buckets are concatenated: bucket order first, push order within a bucket
                sh.sort_by_key(|p| top(self.sw, p.0, self.b));
            }
        }
        v
    }

    fn exec(&mut self, t: &[&str]) -> String {
        match t[0] {
            "new" | "new_hint" => {
                let (sw, b, m): (u32, u32, u32) =
                    (t[2].parse().unwrap(), t[3].parse().unwrap(), t[4].parse().unwrap());
                *self = Oracle {
                    stage: OStage::None,
                    offline: t[1] == "offline",
                    sw,
                    b,
                    m,
                    pushed: vec![],
                };
                // documented domain: bits < 64; 2^b files cannot be numbered by the i32 loop
                // counter of new_offline from 32 bits on
                if b >= 64 || m >= 64 || (t[1] == "offline" && b >= 32) {
                    "panic".into()
                } else {
                    self.stage = OStage::Sig;
                    "ok".into()
                }
            }
            "push" | "pushes" => {
                if self.stage != OStage::Sig {
                    return "err stage".into();
                }
                if t[0] == "push" {
                    self.pushed.push((t[1].parse().unwrap(), t[2].parse().unwrap()));
                } else {
                    self.pushed.extend(parse_pairs(t[1]));
                }
                format!("ok {}", self.pushed.len())
            }
            "len" => match self.stage {
                OStage::Sig | OStage::Shard(_) => format!("ok {}", self.pushed.len()),
                _ => "err stage".into(),
            },
            "max_shard_high_bits" => match self.stage {
                OStage::Sig => format!("ok {}", self.m),
                _ => "err stage".into(),
            },
            "is_empty" => match self.stage {
                OStage::Sig => format!("ok {}", b01(self.pushed.is_empty())),
                _ => "err stage".into(),
            },
            "temp_dir" => match self.stage {
                OStage::Sig => format!("ok {}", if self.offline { "some" } else { "none" }),
                _ => "err stage".into(),
            },
            "shard" => {
                if self.stage != OStage::Sig {
                    return "err stage".into();
                }
                let s: u32 = t[1].parse().unwrap();
                if s > self.m {
                    self.stage = OStage::Dead;
                    "panic".into()
                } else {
                    self.stage = OStage::Shard(s);
                    "ok".into()
                }
            }
            "shard_sizes" => match self.stage {
                OStage::Shard(s) => format!(
                    "ok {}",
                    fmt_list(self.shards(s, true).iter().map(|x| x.len()))
                ),
                _ => "err stage".into(),
            },
            "iter" | "iter_raw" | "into_iter" | "into_iter_raw" | "into_iter_held" => match self.stage {
                OStage::Shard(s) => {
                    let sorted = !t[0].ends_with("_raw");
                    if t[0].starts_with("into") {
                        self.stage = OStage::Dead;
                    }
                    format!("ok {}", fmt_shards(&self.shards(s, sorted), false))
                }
                _ => "err stage".into(),
            },
            "iter_take" | "into_iter_take" => match self.stage {
                OStage::Shard(s) => {
                    if t[0] == "into_iter_take" {
                        self.stage = OStage::Dead;
                    }
                    let k: usize = t[1].parse().unwrap();
                    let all = self.shards(s, true);
                    let k = k.min(all.len());
                    format!("ok {} {}", all.len() - k, fmt_shards(&all[..k], false))
                }
                _ => "err stage".into(),
            },
            _ => panic!("unknown op {:?}", t),
        }
    }
}

struct S {
    m: Option<Box<dyn Dyn>>,
    o: Oracle,
}

fn fresh() -> S {
    S {
        m: None,
        o: Oracle {
            stage: OStage::None,
            offline: false,
            sw: 1,
            b: 0,
            m: 0,
            pushed: vec![],
        },
    }
}

fn exec(ctx: &mut Ctx, s: &mut S, op: &str) {
    ctx.op(op);
    let t: Vec<&str> = op.split(' ').collect();
    if t[0] == "svops" || t[0] == "tosig" {
        // stateless
        let (expected, got) = if t[0] == "svops" { svops(&t) } else { tosig(ctx, &t) };
        ctx.check_oracle(&expected, &got);
        ctx.reply(&got);
        return;
    }
    let expected = s.o.exec(&t);
    let got = if t[0] == "new" || t[0] == "new_hint" {
        s.m = mk(
            t[1],
            t[2].parse().unwrap(),
            t[3].parse().unwrap(),
            t[4].parse().unwrap(),
            t[5],
            if t[0] == "new_hint" { Some(t[6].parse().unwrap()) } else { None },
        );
        if s.m.is_some() {
            "ok".to_string()
        } else {
            "panic".to_string()
        }
    } else {
        match &mut s.m {
            Some(m) => m.exec(&t),
            None => "err stage".to_string(),
        }
    };
    ctx.check_oracle(&expected, &got);
    ctx.reply(&got);
}

// ------------------------------------------------------------------ generation

#[derive(Clone, Copy, Debug, PartialEq)]
enum Dist {
    Uniform,
    OneBucket,
    TopOnly,
    BottomOnly,
    Boundaries,
    LowBitsOnly,
    FewDistinct,
}

const DISTS: &[Dist] = &[
    Dist::Uniform,
    Dist::Uniform,
    Dist::OneBucket,
    Dist::TopOnly,
    Dist::BottomOnly,
    Dist::Boundaries,
    Dist::LowBitsOnly,
    Dist::FewDistinct,
];

struct Cfg {
    be: &'static str,
    sw: u32,
    b: u32,
    m: u32,
    s: u32,
    vt: &'static str,
}

fn gen_first_word(ctx: &mut Ctx, d: Dist, c: &Cfg, fixed: u64) -> u64 {
    match d {
        Dist::Uniform => ctx.rng.next_u64(),
        // the same top 12 bits for all pairs
        Dist::OneBucket => (fixed & !(u64::MAX >> 12)) | (ctx.rng.next_u64() >> 12),
        Dist::TopOnly => !(u64::MAX >> 12) | (ctx.rng.next_u64() >> 12),
        Dist::BottomOnly => ctx.rng.next_u64() >> 12,
        Dist::Boundaries => {
            // first/last signature of a bucket, a finest shard or a requested shard
            let bits = *ctx.rng.pick(&[c.b, c.m, c.s, c.s + 1]);
            if bits == 0 || bits >= 64 {
                *ctx.rng.pick(&[0, u64::MAX, 1 << 63, (1 << 63) - 1])
            } else {
                let k = ctx.rng.below(1 << bits);
                let base = k << (64 - bits);
                match ctx.rng.below(3) {
                    0 => base,
                    1 => base.wrapping_sub(1),
                    _ => base | (u64::MAX >> bits),
                }
            }
        }
        Dist::LowBitsOnly => ctx.rng.below(16),
        Dist::FewDistinct => {
            let k = ctx.rng.below(4);
            fixed.rotate_left((k * 16) as u32)
        }
    }
}

fn gen_pairs(ctx: &mut Ctx, d: Dist, c: &Cfg, n: usize) -> Vec<P> {
    let fixed = ctx.rng.next_u64();
    let mut v: Vec<P> = Vec::with_capacity(n);
    for _ in 0..n {
        // duplicates of an earlier pair
        if !v.is_empty() && ctx.rng.chance(1, 12) {
            let p = v[ctx.rng.usize_below(v.len())];
            v.push(p);
            continue;
        }
        let w0 = gen_first_word(ctx, d, c, fixed);
        let sig: u128 = if c.sw == 2 {
            // the second word must never matter: give it loud high bits
            let w1 = match ctx.rng.below(4) {
                0 => 0,
                1 => u64::MAX,
                _ => ctx.rng.next_u64(),
            };
            ((w0 as u128) << 64) | w1 as u128
        } else {
            w0 as u128
        };
        let val = match c.vt {
            "u8" => ctx.rng.below(256),
            "u64" => ctx.rng.word(),
            _ => 0,
        };
        v.push((sig, val));
    }
    v
}

fn fmt_pairs(ps: &[P]) -> String {
    if ps.is_empty() {
        return "-".into();
    }
    ps.iter()
        .map(|(a, b)| format!("{}:{}", a, b))
        .collect::<Vec<_>>()
        .join(",")
}

fn push_all(ctx: &mut Ctx, s: &mut S, ps: &[P], single: bool) {
    if single {
        for (a, b) in ps {
            exec(ctx, s, &format!("push {} {}", a, b));
        }
    } else {
        for ch in ps.chunks(256) {
            exec(ctx, s, &format!("pushes {}", fmt_pairs(ch)));
        }
        if ps.is_empty() {
            exec(ctx, s, "pushes -");
        }
    }
}

fn rel(c: &Cfg) -> String {
    let a = if c.b == c.s {
        "equal"
    } else if c.b > c.s {
        "aggregate"
    } else {
        "split"
    };
    let x = if c.s == c.m {
        "s=m"
    } else if c.s < c.m {
        "s<m"
    } else {
        "s>m"
    };
    let y = if c.b == c.m {
        "b=m"
    } else if c.b < c.m {
        "b<m"
    } else {
        "b>m"
    };
    format!("{}:{}:{}", a, x, y)
}

fn size_class(n: usize) -> &'static str {
    match n {
        0 => "0",
        1 => "1",
        2..=63 => "small",
        64..=1023 => "mid",
        1024 => "1024",
        _ => "big",
    }
}

/// one full case: new, pushes, shard, observations, consuming iteration
fn full_case(ctx: &mut Ctx, c: &Cfg, ps: &[P], single: bool, tag: &str) {
    ctx.case();
    let mut s = fresh();
    // the expected-number-of-keys argument of the constructors: absent, exact, 0, too small, too large
    let hint = match ctx.rng.below(8) {
        0 => Some(ps.len()),
        1 => Some(0),
        2 => Some(ps.len() / 3),
        3 => Some(ps.len() * 7 + 1000),
        _ => None,
    };
    match hint {
        Some(h) => exec(
            ctx,
            &mut s,
            &format!("new_hint {} {} {} {} {} {}", c.be, c.sw, c.b, c.m, c.vt, h),
        ),
        None => exec(
            ctx,
            &mut s,
            &format!("new {} {} {} {} {}", c.be, c.sw, c.b, c.m, c.vt),
        ),
    }
    exec(ctx, &mut s, "is_empty");
    exec(ctx, &mut s, "temp_dir");
    push_all(ctx, &mut s, ps, single);
    exec(ctx, &mut s, "len");
    exec(ctx, &mut s, "is_empty");
    exec(ctx, &mut s, "max_shard_high_bits");
    exec(ctx, &mut s, &format!("shard {}", c.s));
    exec(ctx, &mut s, "len");
    exec(ctx, &mut s, "shard_sizes");
    exec(ctx, &mut s, "iter");
    exec(ctx, &mut s, "iter_raw");
    let ns = 1usize << c.s.min(20);
    let k = match ctx.rng.below(4) {
        0 => 0,
        1 => 1,
        2 => ns + 1,
        _ => ctx.rng.usize_below(ns + 1),
    };
    exec(ctx, &mut s, &format!("iter_take {}", k));
    exec(ctx, &mut s, "iter");
    match ctx.rng.below(8) {
        0 | 1 => exec(ctx, &mut s, "into_iter"),
        2 | 3 => {
            let k = match ctx.rng.below(3) {
                0 => 1,
                1 => ns + 1,
                _ => ctx.rng.usize_below(ns + 1),
            };
            exec(ctx, &mut s, &format!("into_iter_held {}", k))
        }
        4 | 5 => exec(ctx, &mut s, "into_iter_raw"),
        _ => {
            // a consuming pass abandoned half-way; the store is gone afterwards
            let k = match ctx.rng.below(3) {
                0 => 0,
                1 => ns + 1,
                _ => ctx.rng.usize_below(ns + 1),
            };
            exec(ctx, &mut s, &format!("into_iter_take {}", k));
            exec(ctx, &mut s, "len");
        }
    }
    // stateless glue: SigVal equality / XOR / radix levels, and the ToSig implementations
    if ctx.rng.chance(1, 3) {
        let pick = |ctx: &mut Ctx| -> P {
            if !ps.is_empty() && ctx.rng.chance(2, 3) {
                ps[ctx.rng.usize_below(ps.len())]
            } else {
                let w = ((ctx.rng.word() as u128) << 64) | ctx.rng.word() as u128;
                (if c.sw == 2 { w } else { w & u64::MAX as u128 }, match c.vt {
                    "u8" => ctx.rng.below(256),
                    "u64" => ctx.rng.word(),
                    _ => 0,
                })
            }
        };
        let (a, b) = (pick(ctx), pick(ctx));
        // same signature with another value: still equal
        let b = if ctx.rng.chance(1, 4) { (a.0, b.1) } else { b };
        exec(ctx, &mut s, &format!("svops {} {} {} {} {} {}", c.sw, c.vt, a.0, a.1, b.0, b.1));
    }
    if ctx.rng.chance(1, 4) {
        let len = *ctx.rng.pick(&[0usize, 1, 2, 3, 4, 7, 8, 15, 16, 17, 32, 48, 129, 240, 241]);
        let ascii = ctx.rng.bool();
        let bytes: Vec<u8> = (0..len)
            .map(|_| if ascii { b' ' + ctx.rng.below(95) as u8 } else { ctx.rng.next_u64() as u8 })
            .collect();
        let seed = ctx.rng.word();
        exec(ctx, &mut s, &format!("tosig {} {}", seed, hex_arg(&bytes)));
    }
    ctx.stat(&format!("branch:{}", rel(c)));
    ctx.stat(&format!("backend:{}", c.be));
    ctx.shape(format!(
        "{}:{}:{}:{}:{}:{}",
        tag,
        c.be,
        c.sw,
        c.vt,
        rel(c),
        size_class(ps.len())
    ));
}

const VTS: &[&str] = &["u8", "u64", "unit"];
const BES: &[&str] = &["online", "offline"];

/// hand-listed cases hitting every model branch, independent of the seed
fn directed(ctx: &mut Ctx) {
    // a fixed multiset: extremes, duplicates, same signature with two values, every top-3-bit class
    let w0s: Vec<u64> = vec![
        0,
        0,
        u64::MAX,
        u64::MAX,
        1,
        1 << 63,
        (1 << 63) - 1,
        1 << 62,
        3 << 62,
        (3 << 62) - 1,
        5 << 61,
        (5 << 61) | 12345,
        1 << 61,
        7 << 61,
        0x0123_4567_89AB_CDEF,
        0xFEDC_BA98_7654_3210,
        3 << 61,
        6 << 61,
    ];
    let mut ci = 0usize;
    for b in 0..=3u32 {
        for m in 0..=3u32 {
            for s in 0..=m {
                for &be in BES {
                    for sw in [1u32, 2] {
                        let vt = VTS[ci % 3];
                        ci += 1;
                        let ps: Vec<P> = w0s
                            .iter()
                            .enumerate()
                            .map(|(i, &w)| {
                                let sig = if sw == 2 {
                                    ((w as u128) << 64) | (!w as u128)
                                } else {
                                    w as u128
                                };
                                let val = match vt {
                                    "u8" => (i as u64 * 37) % 256,
                                    "u64" => (i as u64) << 60 | i as u64,
                                    _ => 0,
                                };
                                (sig, val)
                            })
                            .collect();
                        let c = Cfg { be, sw, b, m, s, vt };
                        full_case(ctx, &c, &ps, ci % 4 == 0, "directed");
                    }
                }
            }
        }
    }
    // empty and singleton stores, every branch
    for &(b, m, s) in &[(2u32, 2u32, 2u32), (3, 2, 1), (1, 3, 3), (0, 0, 0), (0, 4, 4), (4, 4, 0)] {
        for &be in BES {
            for n in [0usize, 1] {
                let c = Cfg { be, sw: 2, b, m, s, vt: "u64" };
                let ps: Vec<P> = (0..n).map(|_| (u128::MAX, u64::MAX)).collect();
                full_case(ctx, &c, &ps, false, "directed-tiny");
            }
        }
    }
    // the offline split branch reads a bucket in blocks of 1024 pairs
    for n in [1023usize, 1024, 1025, 2048, 2500] {
        for &(be, b, m, s) in &[("offline", 0u32, 2u32, 2u32), ("offline", 1, 3, 2), ("online", 0, 2, 2), ("offline", 2, 2, 0)] {
            let c = Cfg { be, sw: 1, b, m, s, vt: "u8" };
            let ps: Vec<P> = (0..n)
                .map(|i| (((i as u64).wrapping_mul(0x9E3779B97F4A7C15) >> 1) as u128, (i % 251) as u64))
                .collect();
            full_case(ctx, &c, &ps, false, "directed-1024");
        }
    }
    // spec'd panics: shard bits beyond the maximum; constructor bits out of the documented domain
    for &be in BES {
        for &(b, m, s) in &[(0u32, 0u32, 1u32), (2, 1, 2), (3, 3, 4), (1, 2, 63), (1, 2, 64), (2, 0, 200)] {
            let c = Cfg { be, sw: 1, b, m, s, vt: "u64" };
            let ps: Vec<P> = vec![(5, 6), (u64::MAX as u128, 7)];
            full_case(ctx, &c, &ps, true, "directed-panic");
        }
        for &(b, m) in &[(64u32, 0u32), (0, 64), (100, 100), (4294967295, 1)] {
            ctx.case();
            let mut s = fresh();
            exec(ctx, &mut s, &format!("new {} 1 {} {} u8", be, b, m));
            exec(ctx, &mut s, "len");
            exec(ctx, &mut s, "push 1 1");
            ctx.shape(format!("directed-newpanic:{}", be));
        }
    }
    ctx.case();
    let mut s = fresh();
    exec(ctx, &mut s, "new offline 2 32 1 unit");
    exec(ctx, &mut s, "new offline 2 63 1 unit");
    exec(ctx, &mut s, "len");
    // stateless glue: every (sw, vt), equal signatures with different values, extremes
    ctx.case();
    let mut s = fresh();
    let big: u128 = u128::MAX;
    for sw in [1u32, 2] {
        let m: u128 = if sw == 2 { big } else { u64::MAX as u128 };
        for vt in VTS {
            let vm: u64 = match *vt {
                "u8" => 255,
                "u64" => u64::MAX,
                _ => 0,
            };
            for (a, b) in [
                ((0u128, 0u64), (0u128, 0u64)),
                ((m, vm), (m, 0)),
                ((m, vm), (0, vm)),
                ((0x0102030405060708090a0b0c0d0e0f10 & m, vm / 3), (0xf0e0d0c0b0a090807060504030201000 & m, vm / 5)),
                ((1u128 << 63, 1 & vm), (1u128 << 64 & m, 1 & vm)),
            ] {
                exec(ctx, &mut s, &format!("svops {} {} {} {} {} {}", sw, vt, a.0, a.1, b.0, b.1));
            }
        }
    }
    for bytes in [
        &b""[..], b"a", b"ab", b"abcd", b"abcdefgh", b"0123456789abcdef", b"\xff", b"\xff\xfe", b"\x80\x00\x00\x00",
        b"\x00\x00\x00\x00\x00\x00\x00\x80", b"\xff\xff\xff\xff\xff\xff\xff\xff\xff\xff\xff\xff\xff\xff\xff\xff",
        "h\u{e9}llo \u{20ac}".as_bytes(), &[b'x'; 130][..], &[b'y'; 241][..],
    ] {
        for seed in [0u64, 1, u64::MAX] {
            exec(ctx, &mut s, &format!("tosig {} {}", seed, hex_arg(bytes)));
        }
    }
    ctx.shape("directed-glue".into());
    // constructors with an expected number of keys (pre-allocation of the online store)
    for &be in BES {
        for (h, n) in [(0usize, 0usize), (0, 5), (5, 5), (1, 40), (100_000, 3), (7, 7)] {
            ctx.case();
            let mut s = fresh();
            exec(ctx, &mut s, &format!("new_hint {} 2 2 3 u64 {}", be, h));
            exec(ctx, &mut s, "is_empty");
            exec(ctx, &mut s, "temp_dir");
            let ps: Vec<P> = (0..n).map(|i| (((i as u128) << 125) | i as u128, i as u64)).collect();
            push_all(ctx, &mut s, &ps, false);
            exec(ctx, &mut s, "is_empty");
            exec(ctx, &mut s, "shard 3");
            exec(ctx, &mut s, "is_empty");
            exec(ctx, &mut s, "temp_dir");
            exec(ctx, &mut s, "shard_sizes");
            exec(ctx, &mut s, "iter_take 3");
            exec(ctx, &mut s, "into_iter_take 5");
            exec(ctx, &mut s, "into_iter_take 1");
            exec(ctx, &mut s, "iter");
            ctx.shape(format!("directed-hint:{}", be));
        }
    }
    // wrong-stage ops
    ctx.case();
    let mut s = fresh();
    for op in [
        "len", "shard 0", "iter", "push 1 1", "new online 1 1 1 u8", "iter", "shard_sizes",
        "into_iter", "iter_take 1", "push 1 1", "shard 1", "push 2 2", "pushes 2:2", "shard 1",
        "max_shard_high_bits", "len", "iter", "into_iter", "into_iter", "iter", "len",
        "shard_sizes", "iter_take 0", "new offline 1 1 1 u8", "len", "iter_raw", "into_iter_raw",
        "shard 2", "len", "shard 0",
    ] {
        exec(ctx, &mut s, op);
    }
    ctx.shape("directed-stage".into());
}

fn gen_n(ctx: &mut Ctx, big_ok: bool) -> usize {
    match ctx.rng.below(16) {
        0 => 0,
        1 => 1,
        2 => 2,
        3..=7 => 3 + ctx.rng.usize_below(60),
        8..=11 => 64 + ctx.rng.usize_below(400),
        12 => 1024,
        13 => 1023 + ctx.rng.usize_below(3),
        _ => {
            if big_ok {
                1026 + ctx.rng.usize_below(2500)
            } else {
                64 + ctx.rng.usize_below(700)
            }
        }
    }
}

fn random_case(ctx: &mut Ctx, b: u32, m: u32, s: u32, big_ok: bool) {
    let be = *ctx.rng.pick(BES);
    let sw = 1 + ctx.rng.below(2) as u32;
    let vt = *ctx.rng.pick(VTS);
    let c = Cfg { be, sw, b, m, s, vt };
    let d = *ctx.rng.pick(DISTS);
    let n = gen_n(ctx, big_ok);
    let ps = gen_pairs(ctx, d, &c, n);
    ctx.stat(&format!("dist:{:?}", d));
    let single = n <= 40 && ctx.rng.chance(1, 4);
    full_case(ctx, &c, &ps, single, &format!("{:?}", d));
}

/// out-of-domain / wrong-order histories (≈ 10 % of the random cases)
fn malformed_case(ctx: &mut Ctx, maxbits: u32) {
    ctx.case();
    let mut s = fresh();
    let be = *ctx.rng.pick(BES);
    let sw = 1 + ctx.rng.below(2) as u32;
    let vt = *ctx.rng.pick(VTS);
    let b = ctx.rng.below(maxbits as u64 + 1) as u32;
    let m = ctx.rng.below(maxbits as u64 + 1) as u32;
    let c = Cfg { be, sw, b, m, s: m + 1, vt };
    exec(ctx, &mut s, &format!("new {} {} {} {} {}", be, sw, b, m, vt));
    let n = ctx.rng.usize_below(40);
    let ps = gen_pairs(ctx, Dist::Uniform, &c, n);
    push_all(ctx, &mut s, &ps, false);
    let kind = ctx.rng.below(3);
    match kind {
        0 => {
            // shard bits beyond the maximum: assert! in into_shard_store
            let sb = m + 1 + ctx.rng.below(3) as u32 * 31;
            exec(ctx, &mut s, &format!("shard {}", sb));
            for op in ["len", "iter", "shard_sizes", "into_iter"] {
                exec(ctx, &mut s, op);
            }
        }
        1 => {
            // observation before sharding, pushes after
            for op in ["iter", "shard_sizes", "into_iter_raw", "len"] {
                exec(ctx, &mut s, op);
            }
            let sb = ctx.rng.below(m as u64 + 1);
            exec(ctx, &mut s, &format!("shard {}", sb));
            exec(ctx, &mut s, "push 0 0");
            exec(ctx, &mut s, "pushes -");
            exec(ctx, &mut s, &format!("shard {}", sb));
            exec(ctx, &mut s, "iter");
        }
        _ => {
            let sb = ctx.rng.below(m as u64 + 1);
            exec(ctx, &mut s, &format!("shard {}", sb));
            exec(ctx, &mut s, "into_iter");
            for op in ["iter", "into_iter", "len", "shard_sizes", "iter_take 2"] {
                exec(ctx, &mut s, op);
            }
        }
    }
    ctx.stat("malformed");
    ctx.shape(format!("malformed:{}:{}", be, kind));
}

pub fn run(ctx: &mut Ctx) {
    directed(ctx);
    let maxbits: u32 = if ctx.tier == Tier::Quick { 6 } else { 10 };
    // every admissible triple once …
    let mut k = 0u64;
    for b in 0..=maxbits {
        for m in 0..=maxbits {
            for s in 0..=m {
                // big multisets on a rotating subset of the triples keep the quick tier short
                k += 1;
                let big_ok = k % (if ctx.tier == Tier::Thorough { 3 } else { 8 }) == 0;
                random_case(ctx, b, m, s, big_ok);
            }
        }
    }
    // … then random triples, with ≈ 10 % malformed histories
    let extra = if ctx.tier == Tier::Quick { 200 } else { 1500 };
    for _ in 0..extra {
        if ctx.rng.chance(1, 10) {
            malformed_case(ctx, maxbits);
        } else {
            let b = ctx.rng.below(maxbits as u64 + 1) as u32;
            let m = ctx.rng.below(maxbits as u64 + 1) as u32;
            let s = ctx.rng.below(m as u64 + 1) as u32;
            let big_ok = ctx.rng.chance(1, if ctx.tier == Tier::Thorough { 3 } else { 8 });
            random_case(ctx, b, m, s, big_ok);
        }
    }
}

/// re-execute the ops of a replay file
pub fn replay(ctx: &mut Ctx, lines: &[String]) {
    let mut s = fresh();
    for l in lines {
        if l.starts_with("case ") {
            ctx.op(l);
            ctx.reply("case");
            s = fresh();
        } else {
            exec(ctx, &mut s, l);
        }
    }
}
