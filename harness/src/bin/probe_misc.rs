//! Findings of runner `misc` replayed on the real code, one probe per process (they panic, or in
//! a release build leave the safety contract): `probe_misc <empty|unsafe|unsafe_big|overflow|exact>`;
//! build with `cargo build --bin probe_misc` and `cargo build --release --bin probe_misc`.
use sux::prelude::*;
use sux::utils::FairChunks;

fn ef_of(xs: &[usize]) -> EliasFanoBuilder {
    let mut b = EliasFanoBuilder::new(xs.len(), xs.last().copied().unwrap_or(0));
    b.extend(xs.iter().copied());
    b
}

fn main() {
    let which = std::env::args().nth(1).unwrap();
    match which.as_str() {
        // F1: FairChunks::new over an empty structure
        "empty" => {
            let ef = ef_of(&[]).build_with_seq_and_dict();
            let chunks: Vec<_> = FairChunks::new(5, &ef).take(3).collect();
            println!("empty: {:?}", chunks);
        }
        // F2: safe API, max_weight above the last cumulative weight
        "unsafe" => {
            let ef = ef_of(&[0, 1]).build_with_dict();
            let mut it = FairChunks::new_with(1, &ef, 1, 5);
            for i in 0..4 {
                println!("unsafe: next #{} = {:?}", i, it.next());
            }
        }
        "unsafe_big" => {
            let xs: Vec<usize> = (0..1000).collect();
            let ef = ef_of(&xs).build_with_dict();
            let mut it = FairChunks::new_with(100, &ef, 999, usize::MAX);
            for i in 0..14 {
                println!("unsafe_big: next #{} = {:?}", i, it.next());
            }
        }
        // F3: current_weight + target_weight overflows
        "overflow" => {
            let ef = ef_of(&[0, 1 << 63, usize::MAX]).build_with_seq_and_dict();
            let chunks: Vec<_> = FairChunks::new(1 << 63, &ef).take(8).collect();
            println!("overflow: {:?}", chunks);
        }
        // observation: trailing empty chunk
        "exact" => {
            let ef = ef_of(&[0, 5, 10]).build_with_seq_and_dict();
            println!("exact: {:?}", FairChunks::new(5, &ef).collect::<Vec<_>>());
        }
        _ => panic!("unknown probe"),
    }
}
