//! Runner `bfv`: operation histories on `BitFieldVec<W>` / `AtomicBitFieldVec<W>` for every word
//! type (C05, C10, C14).  Register `a` is the vector under test, `b` a saved copy (source of
//! `copy`, right-hand side of `eq`).  Reply: `<result>;<bit width>;<len>;<backing words>`.
//! Naive oracle: `Vec<u128>` + bit width; frame oracle: storage bits at or beyond `len * bw`
//! untouched by non-growing ops.
use crate::common::*;
use sux::prelude::*;

#[derive(Clone, Default)]
struct Orc {
    bw: usize,
    v: Vec<u128>,
}

fn raw_bit(ws: &[u128], wbits: usize, k: usize) -> bool {
    (ws[k / wbits] >> (k % wbits)) & 1 != 0
}

fn raw_val(ws: &[u128], wbits: usize, bw: usize, i: usize) -> u128 {
    let mut v = 0u128;
    for j in 0..bw {
        if raw_bit(ws, wbits, i * bw + j) {
            v |= 1u128 << j;
        }
    }
    v
}

fn parse_list(s: &str) -> Vec<u128> {
    s[1..s.len() - 1]
        .split(',')
        .filter(|x| !x.is_empty())
        .map(|x| x.parse().unwrap())
        .collect()
}

fn omask(bw: usize) -> u128 {
    if bw == 0 {
        0
    } else if bw >= 128 {
        u128::MAX
    } else {
        (1u128 << bw) - 1
    }
}

/// the literal lists of the `bit_field_vec![w; x, y, ...]` form exercised by `macro_lit`
const MACRO_LITS: &[&[usize]] = &[&[0], &[1, 0, 3, 2], &[5, 4, 7, 1, 0, 2, 6, 3, 7], &[usize::MAX, 0, usize::MAX]];

/// the real `bit_field_vec!` forms; `None` = not one of the literal lists (nothing is built)
fn real_macro(form: &str, bw: usize, vals: &[u128], fill: u128) -> Option<BitFieldVec<usize>> {
    Some(match form {
        "macro_new" => sux::bit_field_vec![bw],
        "macro_fill" => sux::bit_field_vec![bw => fill as usize; vals.len()],
        "macro_fill3" => sux::bit_field_vec![bw; vals.len(); fill as usize],
        _ => {
            let v: Vec<usize> = vals.iter().map(|x| *x as usize).collect();
            if v == MACRO_LITS[0] {
                sux::bit_field_vec![bw; 0]
            } else if v == MACRO_LITS[1] {
                sux::bit_field_vec![bw; 1, 0, 3, 2]
            } else if v == MACRO_LITS[2] {
                sux::bit_field_vec![bw; 5, 4, 7, 1, 0, 2, 6, 3, 7]
            } else if v == MACRO_LITS[3] {
                sux::bit_field_vec![bw; usize::MAX, 0, usize::MAX]
            } else {
                panic!("macro_lit: not a literal list of the table")
            }
        }
    })
}

macro_rules! bfv_impl {
    ($name:ident, $W:ty, $atomic:tt) => {
        mod $name {
            use super::*;
            #[allow(unused_imports)]
            use std::sync::atomic::Ordering;
            pub type V = BitFieldVec<$W, Vec<$W>>;
            pub const WBITS: usize = <$W>::BITS as usize;

            pub struct S {
                pub a: V,
                pub b: V,
                pub oa: Orc,
                pub ob: Orc,
            }

            pub fn fresh() -> S {
                S {
                    a: V::new(0, 0),
                    b: V::new(0, 0),
                    oa: Orc::default(),
                    ob: Orc::default(),
                }
            }

            fn words_of(v: &V) -> Vec<u128> {
                v.as_slice().iter().map(|x| *x as u128).collect()
            }

            fn dump(v: &V) -> String {
                format!("{};{};{}", v.bit_width(), v.len(), fmt_list(words_of(v)))
            }

            bfv_impl!(@atomic $atomic, $W);

            pub fn exec(ctx: &mut Ctx, s: &mut S, op: &str) {
                ctx.op(op);
                let t: Vec<&str> = op.split(' ').collect();
                let num = |i: usize| -> usize { t[i].parse::<usize>().unwrap() };
                let val = |i: usize| -> u128 { t[i].parse::<u128>().unwrap() };
                let before_words = words_of(&s.a);
                let before_len = s.a.len();
                let before_bw = s.a.bit_width();
                let mut grow = false;
                let fits_w = |v: u128| -> bool { WBITS == 128 || v < (1u128 << WBITS) };
                let (res, ores): (Option<String>, String) = match t[0] {
                    "wordtype" => (Some("ok".into()), "ok".into()),
                    "new" | "new_unaligned" | "with_capacity" => {
                        grow = true;
                        let (bw, n) = (num(1), num(2));
                        s.oa = Orc { bw, v: if t[0] == "with_capacity" { vec![] } else { vec![0; n] } };
                        let r = match t[0] {
                            "new" => catch(|| s.a = V::new(bw, n)),
                            "new_unaligned" => catch(|| s.a = V::new_unaligned(bw, n)),
                            _ => catch(|| s.a = V::with_capacity(bw, n)),
                        };
                        (r.map(|_| "ok".into()), "ok".into())
                    }
                    "raw" => {
                        grow = true;
                        let ws = parse_list(t[1]);
                        let (bw, n) = (num(2), num(3));
                        assert!(n * bw <= ws.len() * WBITS && !ws.is_empty() && bw <= WBITS);
                        s.oa = Orc { bw, v: (0..n).map(|i| raw_val(&ws, WBITS, bw, i)).collect() };
                        let wv: Vec<$W> = ws.iter().map(|x| *x as $W).collect();
                        s.a = unsafe { V::from_raw_parts(wv, bw, n) };
                        (Some("ok".into()), "ok".into())
                    }
                    "from_slice" => {
                        grow = true;
                        let vs = parse_list(t[1]);
                        let bw = vs.iter().map(|v| if *v == 0 { 1 } else { 128 - v.leading_zeros() as usize }).max().unwrap_or(0);
                        s.oa = Orc { bw, v: vs.clone() };
                        let sl: Vec<$W> = vs.iter().map(|x| *x as $W).collect();
                        let r = catch(|| V::from_slice(&sl));
                        match r {
                            Some(Ok(v)) => {
                                s.a = v;
                                (Some("ok".into()), "ok".into())
                            }
                            Some(Err(_)) => (Some("panic".into()), "ok".into()),
                            None => (None, "ok".into()),
                        }
                    }
                    "macro_list" => {
                        grow = true;
                        let bw = num(1);
                        let vs = parse_list(t[2]);
                        s.oa = Orc { bw, v: vs.clone() };
                        let r = catch(|| {
                            let mut v = V::with_capacity(bw, vs.len());
                            for x in &vs {
                                v.push(*x as $W);
                            }
                            s.a = v;
                        });
                        (r.map(|_| "ok".into()), "ok".into())
                    }
                    "macro_fill" => {
                        grow = true;
                        let (bw, v, n) = (num(1), val(2), num(3));
                        s.oa = Orc { bw, v: vec![v; n] };
                        let r = catch(|| {
                            if std::any::TypeId::of::<$W>() == std::any::TypeId::of::<usize>() {
                                // the real `bit_field_vec![w => v; n]`
                                let (b, w, l) = real_macro("macro_fill", bw, &vec![v; n], v).unwrap().into_raw_parts();
                                s.a = unsafe { V::from_raw_parts(b.into_iter().map(|x| x as $W).collect(), w, l) };
                            } else {
                                let mut x = V::with_capacity(bw, n);
                                x.resize(n, v as $W);
                                s.a = x;
                            }
                        });
                        (r.map(|_| "ok".into()), "ok".into())
                    }
                    "push" => {
                        grow = true;
                        let v = val(1);
                        let o = if v & omask(s.oa.bw) == v && fits_w(v) {
                            s.oa.v.push(v);
                            "ok"
                        } else {
                            "panic"
                        };
                        (catch(|| s.a.push(v as $W)).map(|_| "ok".into()), o.into())
                    }
                    "pop" => {
                        grow = true;
                        let o = match s.oa.v.pop() {
                            Some(v) => format!("ok {}", v),
                            None => "ok none".into(),
                        };
                        (
                            catch(|| s.a.pop()).map(|r| match r {
                                Some(v) => format!("ok {}", v),
                                None => "ok none".into(),
                            }),
                            o,
                        )
                    }
                    "set" | "aset" => {
                        let (i, v) = (num(1), val(2));
                        let o = if i < s.oa.v.len() && v & omask(s.oa.bw) == v {
                            s.oa.v[i] = v;
                            "ok"
                        } else {
                            "panic"
                        };
                        let r = if t[0] == "set" {
                            catch(|| s.a.set(i, v as $W))
                        } else {
                            catch(|| aset(&mut s.a, i, v as $W))
                        };
                        (r.map(|_| "ok".into()), o.into())
                    }
                    "get" | "aget" | "get_unaligned" => {
                        let i = num(1);
                        let mut o = if i < s.oa.v.len() {
                            format!("ok {}", s.oa.v[i])
                        } else {
                            "panic".into()
                        };
                        let r = match t[0] {
                            "get" => catch(|| s.a.get(i)),
                            "aget" => catch(|| aget(&mut s.a, i)),
                            _ => {
                                // documented preconditions: admissible width and one padding word
                                let bw = s.oa.bw;
                                let adm = bw <= WBITS - 8 + 2 || bw == WBITS - 8 + 4 || bw == WBITS;
                                let padded = (i * bw) / 8 + WBITS / 8 <= s.a.as_slice().len() * (WBITS / 8);
                                if !(adm && padded) {
                                    o = "panic".into();
                                }
                                catch(|| s.a.get_unaligned(i))
                            }
                        };
                        (r.map(|x| format!("ok {}", x)), o)
                    }
                    "resize" => {
                        grow = true;
                        let (n, v) = (num(1), val(2));
                        let o = if v & omask(s.oa.bw) == v {
                            s.oa.v.resize(n, v);
                            "ok"
                        } else {
                            "panic"
                        };
                        (catch(|| s.a.resize(n, v as $W)).map(|_| "ok".into()), o.into())
                    }
                    "clear" => {
                        grow = true;
                        s.oa.v.clear();
                        (catch(|| s.a.clear()).map(|_| "ok".into()), "ok".into())
                    }
                    "extend" => {
                        grow = true;
                        let vs = parse_list(t[1]);
                        // extend pushes one by one: a bad value panics after the good prefix was pushed
                        let mut o = "ok";
                        for v in &vs {
                            if v & omask(s.oa.bw) == *v {
                                s.oa.v.push(*v);
                            } else {
                                o = "panic";
                                break;
                            }
                        }
                        (
                            catch(|| s.a.extend(vs.iter().map(|x| *x as $W))).map(|_| "ok".into()),
                            o.into(),
                        )
                    }
                    "reset" | "par_reset" | "areset" => {
                        s.oa.v.iter_mut().for_each(|x| *x = 0);
                        let r = match t[0] {
                            "reset" => catch(|| s.a.reset()),
                            "par_reset" => catch(|| s.a.par_reset()),
                            _ => catch(|| areset(&mut s.a)),
                        };
                        (r.map(|_| "ok".into()), "ok".into())
                    }
                    "iter" => (
                        catch(|| fmt_list(s.a.iter())).map(|x| format!("ok {}", x)),
                        format!("ok {}", fmt_list(s.oa.v.iter())),
                    ),
                    "iter_from" | "unchecked_from" => {
                        let k = num(1);
                        let o = if k <= s.oa.v.len() {
                            format!("ok {}", fmt_list(s.oa.v[k..].iter()))
                        } else {
                            "panic".into()
                        };
                        let r = if t[0] == "iter_from" {
                            catch(|| fmt_list(s.a.iter_from(k)))
                        } else {
                            catch(|| {
                                let n = s.a.len().saturating_sub(k);
                                let mut it = (&s.a).into_unchecked_iter_from(k);
                                let mut out = vec![];
                                for _ in 0..n {
                                    out.push(unsafe { it.next_unchecked() });
                                }
                                fmt_list(out)
                            })
                        };
                        (r.map(|x| format!("ok {}", x)), o)
                    }
                    "rev_iter" | "rev_iter_from" => {
                        let k = if t[0] == "rev_iter" { s.oa.v.len() } else { num(1) };
                        let o = if k <= s.oa.v.len() {
                            format!("ok {}", fmt_list(s.oa.v[..k].iter().rev()))
                        } else {
                            "panic".into()
                        };
                        let r = catch(|| {
                            let mut it = if t[0] == "rev_iter" {
                                (&s.a).into_rev_unchecked_iter()
                            } else {
                                (&s.a).into_rev_unchecked_iter_from(k)
                            };
                            let mut out = vec![];
                            for _ in 0..k {
                                out.push(unsafe { it.next_unchecked() });
                            }
                            fmt_list(out)
                        });
                        (r.map(|x| format!("ok {}", x)), o)
                    }

                    // ---- type-aware API coverage (API_COVERAGE_A.md) ----
                    "macro_new" | "macro_fill3" | "macro_lit" => {
                        // the real `bit_field_vec!` forms (the macro builds `BitFieldVec<usize>`)
                        grow = true;
                        let bw = num(1);
                        let (vals, form): (Vec<u128>, u8) = match t[0] {
                            "macro_new" => (vec![], 0),
                            "macro_fill3" => (vec![val(3); num(2)], 1),
                            _ => (parse_list(t[2]), 2),
                        };
                        let mut o = "ok";
                        s.oa = Orc { bw, v: vec![] };
                        for v in &vals {
                            if v & omask(bw) == *v && fits_w(*v) {
                                s.oa.v.push(*v);
                            } else {
                                o = "panic";
                                break;
                            }
                        }
                        if form == 1 && !(val(3) & omask(bw) == val(3) && fits_w(val(3))) {
                            o = "panic"; // `resize` rejects the value first, whatever the length
                        }
                        if bw > 64 {
                            o = "panic"; // the macro builds a `BitFieldVec<usize>`
                        }
                        let r = catch(|| {
                            if let Some(x) = real_macro(t[0], bw, &vals, if form == 1 { val(3) } else { 0 }) {
                                let (b, w, l) = x.into_raw_parts();
                                s.a = unsafe { V::from_raw_parts(b.into_iter().map(|x| x as $W).collect(), w, l) };
                            }
                        });
                        // a panic inside the macro leaves register a as it was: the oracle must too
                        if r.is_none() {
                            s.oa = Orc { bw: before_bw, v: (0..before_len).map(|i| raw_val(&before_words, WBITS, before_bw, i)).collect() };
                        }
                        (r.map(|_| "ok".into()), o.into())
                    }
                    "anew" => {
                        grow = true;
                        let (bw, n) = (num(1), num(2));
                        s.oa = Orc { bw, v: vec![0; n] };
                        (catch(|| s.a = anew(bw, n)).map(|_| "ok".into()), "ok".into())
                    }
                    "from_slice_x" => {
                        // `from_slice` from a bit-field vector of another word type (u128): the only way
                        // to reach the "does not fit" error
                        grow = true;
                        let vs = parse_list(t[1]);
                        let bw = vs.iter().map(|v| if *v == 0 { 1 } else { 128 - v.leading_zeros() as usize }).max().unwrap_or(0);
                        let o = if bw > WBITS { "panic" } else { s.oa = Orc { bw, v: vs.clone() }; "ok" };
                        let r = catch(|| {
                            let src: BitFieldVec<u128, Vec<u128>> = BitFieldVec::from_slice(&vs).unwrap();
                            V::from_slice(&src)
                        });
                        match r {
                            Some(Ok(v)) => {
                                s.a = v;
                                (Some("ok".into()), o.into())
                            }
                            Some(Err(_)) => (Some("panic".into()), o.into()),
                            None => (None, o.into()),
                        }
                    }
                    "addr_of" => {
                        let i = num(1);
                        let nw = s.a.as_slice().len();
                        let o = match i.checked_mul(s.oa.bw) {
                            Some(p) if p / WBITS < nw => format!("ok {}", p / WBITS),
                            _ => "panic".into(),
                        };
                        let r = catch(|| {
                            let p = s.a.addr_of(i) as usize;
                            (p - s.a.as_slice().as_ptr() as usize) / std::mem::size_of::<$W>()
                        });
                        (r.map(|x| format!("ok {}", x)), o)
                    }
                    "set_len" => {
                        grow = true;
                        let n = num(1);
                        if n.saturating_mul(s.oa.bw) <= before_words.len() * WBITS {
                            s.oa.v = (0..n).map(|i| raw_val(&before_words, WBITS, before_bw, i)).collect();
                            (catch(|| unsafe { s.a.set_len(n) }).map(|_| "ok".into()), "ok".into())
                        } else {
                            (Some("out-of-contract".into()), "out-of-contract".into())
                        }
                    }
                    "get_unchecked" => {
                        let i = num(1);
                        if i < s.oa.v.len() {
                            (
                                catch(|| unsafe { BitFieldSlice::get_unchecked(&s.a, i) }).map(|x| format!("ok {}", x)),
                                format!("ok {}", s.oa.v[i]),
                            )
                        } else {
                            (Some("out-of-contract".into()), "out-of-contract".into())
                        }
                    }
                    "set_unchecked" => {
                        let (i, v) = (num(1), val(2));
                        if i < s.oa.v.len() && v & omask(s.oa.bw) == v && fits_w(v) {
                            s.oa.v[i] = v;
                            (
                                catch(|| unsafe { BitFieldSliceMut::set_unchecked(&mut s.a, i, v as $W) }).map(|_| "ok".into()),
                                "ok".into(),
                            )
                        } else {
                            (Some("out-of-contract".into()), "out-of-contract".into())
                        }
                    }
                    "get_unaligned_unchecked" => {
                        // called only under its documented contract; otherwise the reply is that of
                        // the checked variant (`panic`) without any call
                        let i = num(1);
                        let bw = s.oa.bw;
                        let adm = bw <= WBITS - 8 + 2 || bw == WBITS - 8 + 4 || bw == WBITS;
                        let padded = (i.saturating_mul(bw)) / 8 + WBITS / 8 <= s.a.as_slice().len() * (WBITS / 8);
                        if i < s.oa.v.len() && adm && padded {
                            (
                                catch(|| unsafe { s.a.get_unaligned_unchecked(i) }).map(|x| format!("ok {}", x)),
                                format!("ok {}", s.oa.v[i]),
                            )
                        } else {
                            (Some("panic".into()), "panic".into())
                        }
                    }
                    "mask" => {
                        // the three accessors of the mask: inherent, `BitFieldSliceMut::mask`, atomic form
                        let r = catch(|| {
                            let m1 = V::mask(&s.a) as u128;
                            let m2 = BitFieldSliceMut::mask(&s.a) as u128;
                            let m3 = amask(&mut s.a) as u128;
                            if m1 == m2 && m2 == m3 { format!("ok {}", m1) } else { format!("ok {}/{}/{}", m1, m2, m3) }
                        });
                        (r, format!("ok {}", omask(s.oa.bw)))
                    }
                    "iter_hint" | "into_iter_hint" => {
                        // `ExactSizeIterator::len` / `size_hint` of the checked iterator after `j` steps
                        let (k, j) = (num(1), num(2));
                        let o = if k <= s.oa.v.len() {
                            let at = (k + j).min(s.oa.v.len());
                            let rem = s.oa.v.len() - at;
                            format!("ok {} {} {} {}", rem, rem, rem,
                                if rem > 0 { s.oa.v[at].to_string() } else { "none".to_string() })
                        } else {
                            "panic".into()
                        };
                        let r = catch(|| {
                            let mut it = if t[0] == "iter_hint" { s.a.iter_from(k) } else { IntoIteratorFrom::into_iter_from(&s.a, k) };
                            for _ in 0..j {
                                it.next();
                            }
                            let l = ExactSizeIterator::len(&it);
                            let (lo, hi) = it.size_hint();
                            let nx = it.next();
                            format!("ok {} {} {} {}", l, lo, hi.map(|x| x.to_string()).unwrap_or("inf".into()),
                                nx.map(|x| x.to_string()).unwrap_or("none".into()))
                        });
                        (r, o)
                    }
                    "iter_nth" => {
                        // two successive `Iterator::nth` calls (the second possibly after an
                        // overshooting first one), then `len()` and the next item
                        let (k, a, b) = (num(1), num(2), num(3));
                        let n = s.oa.v.len();
                        let o = if k <= n {
                            let show = |i: usize| if i < n { s.oa.v[i].to_string() } else { "none".to_string() };
                            let p1 = (k + a).min(n);
                            let q1 = (p1 + 1).min(n);
                            let p2 = (q1 + b).min(n);
                            let q2 = (p2 + 1).min(n);
                            format!("ok {} {} {} {}", show(k + a), show(q1 + b), n - q2, show(q2))
                        } else {
                            "panic".into()
                        };
                        let r = catch(|| {
                            let f = |x: Option<_>| x.map(|x: $W| x.to_string()).unwrap_or("none".into());
                            let mut it = s.a.iter_from(k);
                            let x = it.nth(a);
                            let y = it.nth(b);
                            let l = ExactSizeIterator::len(&it);
                            let nx = it.next();
                            format!("ok {} {} {} {}", f(x), f(y), l, f(nx))
                        });
                        (r, o)
                    }
                    "into_iter" => (
                        catch(|| fmt_list((&s.a).into_iter())).map(|x| format!("ok {}", x)),
                        format!("ok {}", fmt_list(s.oa.v.iter())),
                    ),
                    "word_set" => {
                        // raw write through `as_mut_slice` (safe indexing)
                        grow = true;
                        let (j, x) = (num(1), val(2));
                        let o = if j < before_words.len() && fits_w(x) {
                            let mut ws = before_words.clone();
                            ws[j] = x;
                            s.oa.v = (0..before_len).map(|i| raw_val(&ws, WBITS, before_bw, i)).collect();
                            "ok"
                        } else {
                            "panic"
                        };
                        (catch(|| s.a.as_mut_slice()[j] = x as $W).map(|_| "ok".into()), o.into())
                    }
                    "svm_aset" => {
                        // caller-supplied storage `&mut [W]` between guard words, seen through the `From`
                        // glue `BitFieldVec<W, &mut [W]>` -> `AtomicBitFieldVec<W, &mut [A]>` -> back
                        let (i, v) = (num(1), val(2));
                        let o = if i < s.oa.v.len() && v & omask(s.oa.bw) == v && fits_w(v) {
                            s.oa.v[i] = v;
                            "ok"
                        } else {
                            "panic"
                        };
                        let wsv: Vec<$W> = s.a.as_slice().to_vec();
                        let (bw, len) = (s.a.bit_width(), s.a.len());
                        let mut buf: Vec<$W> = vec![<$W>::MAX / 5; 1];
                        buf.extend_from_slice(&wsv);
                        buf.push(<$W>::MAX / 3);
                        let n = wsv.len();
                        let r = catch(|| {
                            let view: BitFieldVec<$W, &mut [$W]> = unsafe { BitFieldVec::from_raw_parts(&mut buf[1..1 + n], bw, len) };
                            svm_aset_obs(view, i, v as $W)
                        });
                        if buf[0] != <$W>::MAX / 5 || buf[n + 1] != <$W>::MAX / 3 {
                            ctx.check_oracle("guard words untouched", "guard word changed by svm_aset");
                        }
                        s.a = unsafe { V::from_raw_parts(buf[1..1 + n].to_vec(), bw, len) };
                        match r {
                            Some(Some(bad)) => (Some(format!("ok {}", bad)), o.into()),
                            Some(None) => (Some("ok".into()), o.into()),
                            None => (None, o.into()),
                        }
                    }
                    "apar_reset" | "areset_dep" => {
                        s.oa.v.iter_mut().for_each(|x| *x = 0);
                        let r = if t[0] == "apar_reset" { catch(|| apar_reset(&mut s.a)) } else { catch(|| areset_dep(&mut s.a)) };
                        (r.map(|_| "ok".into()), "ok".into())
                    }
                    "sv_get" | "sv_iter" | "sv_rev_iter" | "sv_eq" | "sv_unaligned" | "sv_atomic" => {
                        // the same contents through BitFieldVec<W, &[W]> over caller-supplied storage
                        // starting at an odd / even word offset of a larger buffer
                        let wsv: Vec<$W> = s.a.as_slice().to_vec();
                        let (bw, len) = (s.a.bit_width(), s.a.len());
                        let run = |k: usize| -> Option<String> {
                            let mut buf: Vec<$W> = vec![<$W>::MAX; k];
                            buf.extend_from_slice(&wsv);
                            buf.push(<$W>::MAX / 3);
                            let view: BitFieldVec<$W, &[$W]> =
                                unsafe { BitFieldVec::from_raw_parts(&buf[k..k + wsv.len()], bw, len) };
                            catch(|| match t[0] {
                                "sv_get" => format!("ok {}", view.get(num(1))),
                                "sv_unaligned" => format!("ok {}", view.get_unaligned(num(1))),
                                "sv_iter" => format!("ok {}", fmt_list(view.iter())),
                                "sv_atomic" => format!("ok {}", sv_atomic_obs(view)),
                                "sv_rev_iter" => {
                                    let mut it = (&view).into_rev_unchecked_iter();
                                    let mut out = vec![];
                                    for _ in 0..len {
                                        out.push(unsafe { it.next_unchecked() });
                                    }
                                    format!("ok {}", fmt_list(out))
                                }
                                _ => format!("ok {}", b01(view == s.b)),
                            })
                        };
                        let (r1, r2) = (run(1), run(2));
                        if r1 != r2 {
                            ctx.check_oracle("slice views at different word offsets agree", &format!("{:?} vs {:?}", r1, r2));
                        }
                        let o = match t[0] {
                            "sv_get" => {
                                let i = num(1);
                                if i < s.oa.v.len() { format!("ok {}", s.oa.v[i]) } else { "panic".into() }
                            }
                            "sv_unaligned" => {
                                let i = num(1);
                                let adm = bw <= WBITS - 8 + 2 || bw == WBITS - 8 + 4 || bw == WBITS;
                                let padded = (i * bw) / 8 + WBITS / 8 <= wsv.len() * (WBITS / 8);
                                if i < s.oa.v.len() && adm && padded { format!("ok {}", s.oa.v[i]) } else { "panic".into() }
                            }
                            "sv_iter" => format!("ok {}", fmt_list(s.oa.v.iter())),
                            "sv_atomic" => format!(
                                "ok {} {} {} {} {} {}",
                                s.oa.v.len(), s.oa.bw, fmt_list(s.oa.v.iter()), s.oa.v.len(), s.oa.bw, fmt_list(s.oa.v.iter())
                            ),
                            "sv_rev_iter" => format!("ok {}", fmt_list(s.oa.v.iter().rev())),
                            _ => format!("ok {}", b01(s.oa.bw == s.ob.bw && s.oa.v == s.ob.v)),
                        };
                        (r1, o)
                    }
                    "eq" => (
                        catch(|| s.a == s.b).map(|x| format!("ok {}", b01(x))),
                        format!("ok {}", b01(s.oa.bw == s.ob.bw && s.oa.v == s.ob.v)),
                    ),
                    "clone" => {
                        s.ob = s.oa.clone();
                        (catch(|| s.b = s.a.clone()).map(|_| "ok".into()), "ok".into())
                    }
                    "swapab" => {
                        grow = true;
                        std::mem::swap(&mut s.a, &mut s.b);
                        std::mem::swap(&mut s.oa, &mut s.ob);
                        (Some("ok".into()), "ok".into())
                    }
                    "conv" => {
                        let r = catch(|| conv(&mut s.a, t[1]));
                        (r.map(|_| "ok".into()), "ok".into())
                    }
                    "copy" => {
                        // b.copy(from, &mut a, to, len)
                        let (f, to, n) = (num(1), num(2), num(3));
                        let o = if s.oa.bw != s.ob.bw || to > s.oa.v.len() || f > s.ob.v.len() {
                            "panic".to_string()
                        } else {
                            let n = n.min(s.oa.v.len() - to).min(s.ob.v.len() - f);
                            if n > 0 && s.oa.bw == 0 {
                                "panic".to_string() // bit_len - 1 underflows; width 0 has nothing to copy
                            } else {
                                for i in 0..n {
                                    s.oa.v[to + i] = s.ob.v[f + i];
                                }
                                "ok".to_string()
                            }
                        };
                        let (a, b) = (&mut s.a, &s.b);
                        (catch(|| b.copy(f, a, to, n)).map(|_| "ok".into()), o)
                    }
                    "wcopy" => {
                        // the blanket `BitFieldSliceMut<W>` impl of plain word vectors (full-width
                        // fields): src = the values of b, dst = the values of a; nothing is kept
                        let (f, to, n) = (num(1), num(2), num(3));
                        let o = if to > s.oa.v.len() || f > s.ob.v.len() {
                            "panic".to_string()
                        } else {
                            let m = n.min(s.oa.v.len() - to).min(s.ob.v.len() - f);
                            let mut d = s.oa.v.clone();
                            for i in 0..m {
                                d[to + i] = s.ob.v[f + i];
                            }
                            format!("ok {}", fmt_list(d))
                        };
                        let src: Vec<$W> = (0..s.b.len()).map(|i| s.b.get(i)).collect();
                        let mut dst: Vec<$W> = (0..s.a.len()).map(|i| s.a.get(i)).collect();
                        let r = catch(|| {
                            BitFieldSliceMut::<$W>::copy(&src, f, &mut dst, to, n);
                            fmt_list(dst.iter().map(|x| *x as u128))
                        });
                        (r.map(|x| format!("ok {}", x)), o)
                    }
                    "apply" => {
                        let (ma, mc) = (val(1), val(2));
                        let mask = omask(s.oa.bw);
                        let mut cnt: u128 = 0;
                        let mut log: Vec<u128> = vec![];
                        let mut olog = vec![];
                        for (k, x) in s.oa.v.iter_mut().enumerate() {
                            olog.push(*x);
                            let wide = x.wrapping_mul(ma).wrapping_add(mc).wrapping_add(k as u128);
                            let wide = if WBITS == 128 { wide } else { wide & ((1u128 << WBITS) - 1) };
                            *x = wide & mask;
                        }
                        let o = format!("ok {} {}", olog.len(), fmt_list(olog));
                        let r = catch(|| {
                            s.a.apply_in_place(|x| {
                                let x = x as u128;
                                log.push(x);
                                let wide = x.wrapping_mul(ma).wrapping_add(mc).wrapping_add(cnt);
                                cnt += 1;
                                let wide = if WBITS == 128 { wide } else { wide & ((1u128 << WBITS) - 1) };
                                (wide & mask) as $W
                            })
                        });
                        (r.map(|_| format!("ok {} {}", cnt, fmt_list(log))), o)
                    }
                    "chunk_set" | "chunk_get" => {
                        let (cs, j, i) = (num(1), num(2), num(3));
                        let is_set = t[0] == "chunk_set";
                        let v = if is_set { val(4) } else { 0 };
                        let len = s.oa.v.len();
                        let bw = s.oa.bw;
                        // oracle
                        let o = if !(len <= cs || (cs * bw) % WBITS == 0) {
                            "ok err".to_string()
                        } else {
                            let nw = (len * bw).div_ceil(WBITS);
                            let cw = (cs * bw).div_ceil(WBITS);
                            if cw == 0 {
                                "panic".to_string()
                            } else if j * cw >= nw {
                                "ok nochunk".to_string()
                            } else {
                                let clen = cs.min(len - j * cs);
                                if i >= clen || (is_set && v & omask(bw) != v) {
                                    "panic".to_string()
                                } else if is_set {
                                    s.oa.v[j * cs + i] = v;
                                    "ok".to_string()
                                } else {
                                    format!("ok {}", s.oa.v[j * cs + i])
                                }
                            }
                        };
                        let r = catch(|| match s.a.try_chunks_mut(cs) {
                            Err(()) => "ok err".to_string(),
                            Ok(mut it) => match it.nth(j) {
                                None => "ok nochunk".to_string(),
                                Some(mut c) => {
                                    if is_set {
                                        c.set(i, v as $W);
                                        "ok".to_string()
                                    } else {
                                        format!("ok {}", c.get(i))
                                    }
                                }
                            },
                        });
                        (r, o)
                    }
                    _ => panic!("unknown op {}", op),
                };
                let res = res.unwrap_or_else(|| "panic".to_string());
                ctx.check_oracle(&ores, &res);
                let ws = words_of(&s.a);
                let len = s.a.len();
                let bw = s.a.bit_width();
                if len != s.oa.v.len() || bw != s.oa.bw {
                    ctx.check_oracle(
                        &format!("bw {} len {}", s.oa.bw, s.oa.v.len()),
                        &format!("bw {} len {}", bw, len),
                    );
                } else if len * bw <= ws.len() * WBITS {
                    let got: Vec<u128> = (0..len).map(|i| raw_val(&ws, WBITS, bw, i)).collect();
                    if got != s.oa.v {
                        ctx.check_oracle(
                            &format!("vals {}", fmt_list(s.oa.v.iter())),
                            &format!("vals {}", fmt_list(got.iter())),
                        );
                    }
                } else {
                    ctx.check_oracle("len*bw <= W*words", "representation invariant broken");
                }
                if !grow {
                    if ws.len() != before_words.len() || len != before_len || bw != before_bw {
                        ctx.check_oracle("frame: same shape", "frame: shape changed");
                    } else {
                        for k in len * bw..ws.len() * WBITS {
                            if raw_bit(&ws, WBITS, k) != raw_bit(&before_words, WBITS, k) {
                                ctx.check_oracle(
                                    &format!("frame: bit {} unchanged", k),
                                    &format!("frame: bit {} changed by {}", k, t[0]),
                                );
                                break;
                            }
                        }
                    }
                }
                ctx.reply(&format!("{};{}", res, dump(&s.a)));
            }

            fn conv(a: &mut V, kind: &str) {
                let v = std::mem::replace(a, V::new(0, 0));
                *a = match kind {
                    "box" => {
                        let b: BitFieldVec<$W, Box<[$W]>> = v.into();
                        b.into()
                    }
                    "rawparts" => {
                        let (b, w, l) = v.into_raw_parts();
                        unsafe { V::from_raw_parts(b, w, l) }
                    }
                    "map" => {
                        // `map` onto another backend type (same word type, same contents)
                        let b: BitFieldVec<$W, Box<[$W]>> = unsafe { v.map(|x| x.into_boxed_slice()) };
                        b.into()
                    }
                    "atomic" => conv_atomic(v, "atomic"),
                    "boxatomic" | "arawparts" => conv_atomic(v, kind),
                    _ => panic!("unknown conversion {}", kind),
                };
            }
        }
    };
    (@atomic yes, $W:ty) => {
        type AV = AtomicBitFieldVec<$W, Vec<<$W as common_traits::IntoAtomic>::AtomicType>>;
        fn with_atomic<T>(a: &mut V, f: impl FnOnce(&mut AV) -> T) -> T {
            let v = std::mem::replace(a, V::new(0, 0));
            let mut at: AV = v.into();
            let r = catch(|| f(&mut at));
            *a = at.into();
            match r {
                Some(r) => r,
                None => std::panic::resume_unwind(Box::new("atomic op panicked")),
            }
        }
        fn aset(a: &mut V, i: usize, v: $W) {
            with_atomic(a, |at| at.set_atomic(i, v, Ordering::Relaxed))
        }
        fn aget(a: &mut V, i: usize) -> $W {
            with_atomic(a, |at| at.get_atomic(i, Ordering::Relaxed))
        }
        fn areset(a: &mut V) {
            with_atomic(a, |at| at.reset_atomic(Ordering::Relaxed))
        }
        fn conv_atomic(v: V, kind: &str) -> V {
            match kind {
                "boxatomic" => {
                    let b: BitFieldVec<$W, Box<[$W]>> = v.into();
                    let at: AtomicBitFieldVec<$W, Box<[<$W as common_traits::IntoAtomic>::AtomicType]>> = b.into();
                    let b: BitFieldVec<$W, Box<[$W]>> = at.into();
                    b.into()
                }
                "arawparts" => {
                    let at: AV = v.into();
                    let (b, w, l) = at.into_raw_parts();
                    let at: AV = unsafe { AtomicBitFieldVec::from_raw_parts(b, w, l) };
                    at.into()
                }
                _ => {
                    let at: AV = v.into();
                    at.into()
                }
            }
        }
        fn anew(bw: usize, n: usize) -> V {
            let at: AV = AtomicBitFieldVec::<$W>::new(bw, n);
            at.into()
        }
        fn amask(a: &mut V) -> $W {
            with_atomic(a, |at| at.mask())
        }
        fn apar_reset(a: &mut V) {
            with_atomic(a, |at| at.par_reset_atomic(Ordering::Relaxed))
        }
        #[allow(deprecated)]
        fn areset_dep(a: &mut V) {
            with_atomic(a, |at| at.reset(Ordering::Relaxed))
        }
        /// `set_atomic(i, v)` through the atomic form of a `&mut [W]` view and back; `Some(text)` if
        /// the round trip changed length / width or the value read back differs
        fn svm_aset_obs(view: BitFieldVec<$W, &mut [$W]>, i: usize, v: $W) -> Option<String> {
            let (n, bw) = (view.len(), view.bit_width());
            let av: AtomicBitFieldVec<$W, &mut [<$W as common_traits::IntoAtomic>::AtomicType]> = view.into();
            av.set_atomic(i, v, Ordering::Relaxed);
            let back: BitFieldVec<$W, &mut [$W]> = av.into();
            if back.len() != n || back.bit_width() != bw || back.get(i) != v {
                Some(format!("roundtrip len {} bw {} val {}", back.len(), back.bit_width(), back.get(i)))
            } else {
                None
            }
        }
        /// the atomic view of a BORROWED slice view (what one gets from an eps-copy / mmap-loaded
        /// vector) and back: "<len> <bit_width> <values read atomically> <values after converting back>"
        fn sv_atomic_obs(view: BitFieldVec<$W, &[$W]>) -> String {
            let av: AtomicBitFieldVec<$W, &[<$W as common_traits::IntoAtomic>::AtomicType]> = view.into();
            let (n, bw) = (av.len(), av.bit_width());
            let vals: Vec<$W> = (0..n).map(|i| av.get_atomic(i, Ordering::Relaxed)).collect();
            let back: BitFieldVec<$W, &[$W]> = av.into();
            format!("{} {} {} {} {} {}", n, bw, fmt_list(vals), back.len(), back.bit_width(), fmt_list(back.iter()))
        }
    };
    (@atomic no, $W:ty) => {
        fn aset(a: &mut V, i: usize, v: $W) {
            a.set(i, v)
        }
        fn aget(a: &mut V, i: usize) -> $W {
            a.get(i)
        }
        fn areset(a: &mut V) {
            a.reset()
        }
        fn conv_atomic(v: V, _kind: &str) -> V {
            v
        }
        fn anew(bw: usize, n: usize) -> V {
            V::new(bw, n)
        }
        fn amask(a: &mut V) -> $W {
            V::mask(a)
        }
        fn apar_reset(a: &mut V) {
            a.par_reset()
        }
        fn areset_dep(a: &mut V) {
            a.reset()
        }
        fn svm_aset_obs(mut view: BitFieldVec<$W, &mut [$W]>, i: usize, v: $W) -> Option<String> {
            view.set(i, v);
            None
        }
        fn sv_atomic_obs(view: BitFieldVec<$W, &[$W]>) -> String {
            format!("{} {} {} {} {} {}", view.len(), view.bit_width(), fmt_list(view.iter()), view.len(), view.bit_width(), fmt_list(view.iter()))
        }
    };
}

bfv_impl!(w8, u8, yes);
bfv_impl!(w16, u16, yes);
bfv_impl!(w32, u32, yes);
bfv_impl!(w64, u64, yes);
bfv_impl!(wsz, usize, yes);
bfv_impl!(w128, u128, no);

const WTYPES: &[(&str, usize)] = &[
    ("u8", 8),
    ("u16", 16),
    ("u32", 32),
    ("u64", 64),
    ("usize", 64),
    ("u128", 128),
];

/// one case = one word type + one op list; dispatch to the monomorphic executor
enum AnyS {
    W8(w8::S),
    W16(w16::S),
    W32(w32::S),
    W64(w64::S),
    Wsz(wsz::S),
    W128(w128::S),
}

fn fresh(wt: &str) -> AnyS {
    match wt {
        "u8" => AnyS::W8(w8::fresh()),
        "u16" => AnyS::W16(w16::fresh()),
        "u32" => AnyS::W32(w32::fresh()),
        "u64" => AnyS::W64(w64::fresh()),
        "usize" => AnyS::Wsz(wsz::fresh()),
        _ => AnyS::W128(w128::fresh()),
    }
}

fn exec(ctx: &mut Ctx, s: &mut AnyS, op: &str) {
    match s {
        AnyS::W8(x) => w8::exec(ctx, x, op),
        AnyS::W16(x) => w16::exec(ctx, x, op),
        AnyS::W32(x) => w32::exec(ctx, x, op),
        AnyS::W64(x) => w64::exec(ctx, x, op),
        AnyS::Wsz(x) => wsz::exec(ctx, x, op),
        AnyS::W128(x) => w128::exec(ctx, x, op),
    }
}

fn cur(s: &AnyS) -> (usize, usize, usize) {
    // (bit width, len, words) of register a
    macro_rules! g {
        ($x:expr) => {
            ($x.a.bit_width(), $x.a.len(), $x.a.as_slice().len())
        };
    }
    match s {
        AnyS::W8(x) => g!(x),
        AnyS::W16(x) => g!(x),
        AnyS::W32(x) => g!(x),
        AnyS::W64(x) => g!(x),
        AnyS::Wsz(x) => g!(x),
        AnyS::W128(x) => g!(x),
    }
}

fn gen_width(ctx: &mut Ctx, w: usize) -> usize {
    match ctx.rng.below(12) {
        0 => 0,
        1 => w,
        2 => w - 1,
        3 => 1,
        4 => *ctx.rng.pick(&[1usize, 2, 4, 8, 16, 32, 64]).min(&w),
        5 => (w - 8 + 2).min(w),
        6 => (w - 8 + 4).min(w),
        7 => w / 2 + 1,
        _ => ctx.rng.usize_below(w + 1),
    }
}

fn gen_val(ctx: &mut Ctx, bw: usize, w: usize) -> u128 {
    let m = omask(bw);
    match ctx.rng.below(16) {
        0 => 0,
        1 | 2 => m,
        3 => 1 & m,
        4 => {
            if bw > 0 {
                1u128 << (bw - 1)
            } else {
                0
            }
        }
        5 => {
            // does not fit (when possible)
            if bw < w {
                (m + 1) | (ctx.rng.next_u64() as u128 & m)
            } else {
                m
            }
        }
        _ => {
            let r = ((ctx.rng.next_u64() as u128) << 64) | ctx.rng.next_u64() as u128;
            r & m
        }
    }
}

fn gen_len(ctx: &mut Ctx, bw: usize, w: usize) -> usize {
    // lengths whose bit size sits around word boundaries
    let per = if bw == 0 { 7 } else { w.div_ceil(bw) };
    match ctx.rng.below(10) {
        0 => 0,
        1 => 1,
        2 => per,
        3 => per + 1,
        4 => per.saturating_sub(1),
        5 => 2 * per + 1,
        6 => 3 * per,
        _ => ctx.rng.usize_below(5 * per + 8),
    }
}

fn gen_index(ctx: &mut Ctx, len: usize) -> usize {
    match ctx.rng.below(16) {
        0 => len,
        1 => len + 1 + ctx.rng.usize_below(9),
        2 => 0,
        3 | 4 => len.saturating_sub(1),
        5 => usize::MAX / 256,
        _ => {
            if len == 0 {
                0
            } else {
                ctx.rng.usize_below(len)
            }
        }
    }
}

fn gen_vals(ctx: &mut Ctx, n: usize, bw: usize, w: usize) -> String {
    let m = omask(bw);
    let mode = ctx.rng.below(3);
    fmt_list((0..n).map(|_| match mode {
        0 => m,
        _ => {
            let v = gen_val(ctx, bw, w);
            v & m
        }
    }))
}

fn gen_ctor(ctx: &mut Ctx, wt: &str, w: usize) -> String {
    let bw = gen_width(ctx, w);
    let n = gen_len(ctx, bw, w);
    match ctx.rng.below(12) {
        0 | 1 => format!("new {} {}", bw, n),
        2 => format!("new_unaligned {} {}", bw, n),
        3 => format!("with_capacity {} {}", bw, n),
        4..=7 => {
            let extra = ctx.rng.usize_below(3);
            let nw = ((n * bw).div_ceil(w) + extra).max(1);
            let wm = omask(w);
            let ws: Vec<u128> = (0..nw)
                .map(|_| {
                    let x = ((ctx.rng.word() as u128) << 64) | ctx.rng.word() as u128;
                    x & wm
                })
                .collect();
            ctx.stat("ctor:dirty");
            format!("raw {} {} {}", fmt_list(ws), bw, n)
        }
        8 => {
            let k = ctx.rng.usize_below(12);
            let vb = 1 + ctx.rng.usize_below(w);
            format!("from_slice {}", gen_vals(ctx, k, vb, w))
        }
        9 if wt == "usize" => {
            let v = gen_val(ctx, bw, w) & omask(bw);
            match ctx.rng.below(4) {
                0 => format!("macro_fill {} {} {}", bw, v, n),
                1 => format!("macro_fill3 {} {} {}", bw, n, gen_val(ctx, bw, w)),
                2 => format!("macro_new {}", bw),
                _ => {
                    let l = MACRO_LITS[ctx.rng.usize_below(MACRO_LITS.len())];
                    format!("macro_lit {} {}", bw, fmt_list(l.iter()))
                }
            }
        }
        10 if wt != "u128" && ctx.rng.bool() => format!("anew {} {}", bw, n),
        11 if ctx.rng.bool() => {
            // from a slice of another word type: values up to 128 bits (too wide ones are rejected)
            let k = ctx.rng.usize_below(10);
            let vb = if ctx.rng.chance(1, 3) { 1 + ctx.rng.usize_below(128) } else { 1 + ctx.rng.usize_below(w) };
            format!("from_slice_x {}", gen_vals(ctx, k, vb, 128))
        }
        _ => {
            let k = ctx.rng.usize_below(12);
            format!("macro_list {} {}", bw, gen_vals(ctx, k, bw, w))
        }
    }
}

fn gen_op(ctx: &mut Ctx, s: &AnyS, w: usize, atomic: bool) -> String {
    let (bw, len, _nw) = cur(s);
    loop {
        let op = match ctx.rng.below(46) {
            0..=4 => format!("push {}", gen_val(ctx, bw, w)),
            5 | 6 => "pop".into(),
            7..=11 => format!("set {} {}", gen_index(ctx, len), gen_val(ctx, bw, w)),
            12..=14 => format!("get {}", gen_index(ctx, len)),
            15 | 16 => {
                let n = match ctx.rng.below(5) {
                    0 => len / 2,
                    1 => len.saturating_sub(1 + ctx.rng.usize_below(5)),
                    2 => len + 1 + ctx.rng.usize_below(2 * w / bw.max(1) + 2),
                    // well beyond the current allocation (new backing words are needed)
                    3 => len + (5 + ctx.rng.usize_below(4)) * w.div_ceil(bw.max(1)),
                    _ => gen_len(ctx, bw, w),
                };
                // the fill value 0 is special (freshly allocated words are zero): make it frequent
                let v = if ctx.rng.chance(1, 3) { 0 } else { gen_val(ctx, bw, w) };
                format!("resize {} {}", n, v)
            }
            17 => "clear".into(),
            18 => {
                let k = ctx.rng.usize_below(10);
                format!("extend {}", gen_vals(ctx, k, bw, w))
            }
            19 => "reset".into(),
            20 => "par_reset".into(),
            21 | 22 => "iter".into(),
            23 | 24 => format!("iter_from {}", gen_index(ctx, len).min(len + 2)),
            25 => format!("unchecked_from {}", if len == 0 { 0 } else { ctx.rng.usize_below(len + 1) }),
            26 => "rev_iter".into(),
            27 => format!("rev_iter_from {}", if len == 0 { 0 } else { ctx.rng.usize_below(len + 1) }),
            28 => "eq".into(),
            29 => "clone".into(),
            30 => "swapab".into(),
            31 => format!("conv {}", ctx.rng.pick(&["box", "atomic", "rawparts", "map", "boxatomic", "arawparts"])),
            32 if atomic => format!("aset {} {}", gen_index(ctx, len), gen_val(ctx, bw, w)),
            33 if atomic => format!("aget {}", gen_index(ctx, len)),
            34 if atomic => "areset".into(),
            35 => format!("get_unaligned {}", gen_index(ctx, len)),
            38 => ctx.rng.pick(&["sv_iter", "sv_rev_iter", "sv_eq", "sv_atomic"]).to_string(),
            39 => format!("{} {}", ctx.rng.pick(&["sv_get", "sv_unaligned"]), gen_index(ctx, len)),
            36 | 37 => {
                let a = ctx.rng.below(5) as u128;
                let c = ctx.rng.next_u64() as u128;
                format!("apply {} {}", a, c)
            }
            // type-aware API coverage
            40 => match ctx.rng.below(4) {
                0 => format!("addr_of {}", gen_index(ctx, len)),
                1 => "mask".into(),
                2 => "into_iter".into(),
                _ => {
                    // within the contract of `set_len`: up to what the backend can hold
                    let cap = if bw == 0 { len + 5 } else { _nw * w / bw };
                    format!("set_len {}", if ctx.rng.bool() { cap } else { ctx.rng.usize_below(cap + 1) })
                }
            },
            41 if len > 0 => {
                let r = ctx.rng.usize_below(len);
                let i = *ctx.rng.pick(&[0, len - 1, r, r]);
                match ctx.rng.below(3) {
                    0 => format!("get_unchecked {}", i),
                    1 => format!("set_unchecked {} {}", i, gen_val(ctx, bw, w) & omask(bw)),
                    _ => format!("get_unaligned_unchecked {}", i),
                }
            }
            42 => {
                let k = gen_index(ctx, len).min(len + 2);
                if ctx.rng.chance(1, 3) {
                    // `nth` twice: in range, exactly the last item, or overshooting (then the iterator
                    // must stay exhausted)
                    let mid = ctx.rng.usize_below(len + 1);
                    let a = *ctx.rng.pick(&[0, mid, len.saturating_sub(k), len.saturating_sub(k + 1), len + 5]);
                    format!("iter_nth {} {} {}", k, a, ctx.rng.usize_below(3))
                } else {
                    format!("{} {} {}", ctx.rng.pick(&["iter_hint", "into_iter_hint"]), k, ctx.rng.usize_below(len + 3))
                }
            }
            43 => {
                let x = (((ctx.rng.word() as u128) << 64) | ctx.rng.word() as u128) & omask(w);
                format!("word_set {} {}", ctx.rng.usize_below(_nw + 1), x)
            }
            44 => format!("svm_aset {} {}", gen_index(ctx, len), gen_val(ctx, bw, w)),
            45 if atomic => ctx.rng.pick(&["apar_reset", "areset_dep"]).to_string(),
            _ => continue,
        };
        return op;
    }
}

/// copy cases: random contents, all relative alignments, single- and multi-word spans
fn copy_case(ctx: &mut Ctx, wt: &str, w: usize) {
    ctx.case();
    let mut s = fresh(wt);
    exec(ctx, &mut s, &format!("wordtype {} {}", wt, w));
    let bw = match ctx.rng.below(6) {
        0 => w,
        1 => 1,
        2 => 0,
        _ => 1 + ctx.rng.usize_below(w),
    };
    let per = if bw == 0 { 8 } else { w.div_ceil(bw) };
    let n_src = 1 + ctx.rng.usize_below(6 * per + 3);
    let n_dst = 1 + ctx.rng.usize_below(6 * per + 3);
    // source: dirty raw backend with random contents
    let mk = |ctx: &mut Ctx, n: usize| -> String {
        let extra = ctx.rng.usize_below(2);
        let nw = ((n * bw).div_ceil(w) + extra).max(1);
        let wm = omask(w);
        let ws: Vec<u128> = (0..nw)
            .map(|_| (((ctx.rng.next_u64() as u128) << 64) | ctx.rng.next_u64() as u128) & wm)
            .collect();
        format!("raw {} {} {}", fmt_list(ws), bw, n)
    };
    let c = mk(ctx, n_src);
    exec(ctx, &mut s, &c);
    exec(ctx, &mut s, "clone");
    let c = mk(ctx, n_dst);
    exec(ctx, &mut s, &c);
    let mut kinds = std::collections::BTreeSet::new();
    for _ in 0..6 {
        let from = match ctx.rng.below(8) {
            0 => n_src,
            1 => 0,
            _ => ctx.rng.usize_below(n_src),
        };
        let to = match ctx.rng.below(8) {
            0 => n_dst,
            1 => 0,
            _ => ctx.rng.usize_below(n_dst),
        };
        let len = match ctx.rng.below(6) {
            0 => 0,
            1 => 1,
            2 => usize::MAX / 1024,
            3 => per,
            _ => ctx.rng.usize_below(n_src.max(n_dst) + 2),
        };
        // classify the branch the real code will take (for the coverage statistics)
        if bw > 0 {
            let l = len.min(n_dst - to).min(n_src - from);
            if l > 0 {
                let (sp, dp, bl) = (from * bw, to * bw, l * bw);
                let (sf, sl, df, dl) = (sp / w, (sp + bl - 1) / w, dp / w, (dp + bl - 1) / w);
                let k = if sf == sl && df == dl {
                    "b1"
                } else if sf == sl {
                    "b2"
                } else if df == dl {
                    "b3"
                } else if sp % w == dp % w {
                    "b4"
                } else if sp % w < dp % w {
                    if sf + (dl - df) <= sl { "b5a" } else { "b5b" }
                } else {
                    if sl - sf == dl - df { "b6a" } else { "b6b" }
                };
                ctx.stat(&format!("copy:{}", k));
                kinds.insert(k);
            }
        }
        if ctx.rng.chance(1, 2) {
            exec(ctx, &mut s, &format!("wcopy {} {} {}", from, to, len));
        }
        exec(ctx, &mut s, &format!("copy {} {} {}", from, to, len));
    }
    exec(ctx, &mut s, "iter");
    ctx.shape(format!("copy:{}:{}:{:?}", wt, if bw == w { "full" } else if bw == 0 { "zero" } else { "mid" }, kinds));
}

fn random_case(ctx: &mut Ctx) {
    let &(wt, w) = ctx.rng.pick(WTYPES);
    if ctx.rng.chance(1, 4) {
        return copy_case(ctx, wt, w);
    }
    ctx.case();
    let mut s = fresh(wt);
    exec(ctx, &mut s, &format!("wordtype {} {}", wt, w));
    let c = gen_ctor(ctx, wt, w);
    exec(ctx, &mut s, &c);
    let nops = 4 + ctx.rng.usize_below(20);
    let mut kinds = std::collections::BTreeSet::new();
    for _ in 0..nops {
        let op = gen_op(ctx, &s, w, wt != "u128");
        kinds.insert(op.split(' ').next().unwrap().to_string());
        exec(ctx, &mut s, &op);
        // chunk ops need a chunk size computed from the current state
        if ctx.rng.chance(1, 8) {
            let (bw, len, _) = cur(&s);
            let cs = match ctx.rng.below(5) {
                0 => 0,
                1 => len + ctx.rng.usize_below(2),
                2 if bw > 0 => (w / gcd(bw, w)) * (1 + ctx.rng.usize_below(2)),
                3 => 1 + ctx.rng.usize_below(9),
                _ => w.div_ceil(bw.max(1)),
            };
            let j = ctx.rng.usize_below(4);
            let i = gen_index(ctx, cs.min(len)).min(cs + 1);
            let op = if ctx.rng.bool() {
                format!("chunk_set {} {} {} {}", cs, j, i, gen_val(ctx, bw, w))
            } else {
                format!("chunk_get {} {} {}", cs, j, i)
            };
            kinds.insert("chunk".to_string());
            exec(ctx, &mut s, &op);
        }
    }
    let (bw, len, _) = cur(&s);
    let wc = if bw == 0 {
        "w0"
    } else if bw == w {
        "wW"
    } else if bw.is_power_of_two() {
        "wp2"
    } else {
        "wgen"
    };
    let lc = if len == 0 { "l0" } else if (len * bw) % w == 0 { "laligned" } else { "lragged" };
    ctx.shape(format!(
        "{}:{}:{}:{}:{}",
        wt,
        c.split(' ').next().unwrap(),
        wc,
        lc,
        kinds.into_iter().collect::<Vec<_>>().join(",")
    ));
}

fn gcd(a: usize, b: usize) -> usize {
    if b == 0 {
        a
    } else {
        gcd(b, a % b)
    }
}

/// hand-listed cases hitting every model branch for every word type, independent of the seed
fn directed(ctx: &mut Ctx) {
    for &(wt, w) in WTYPES {
        let widths: Vec<usize> = vec![0, 1, 2, 3, w / 2, w / 2 + 1, w - 6, w - 4, w - 1, w];
        for &bw in &widths {
            let per = if bw == 0 { 5 } else { w.div_ceil(bw) };
            let m = omask(bw);
            for ctor in [
                format!("new {} {}", bw, 2 * per + 1),
                format!("with_capacity {} {}", bw, 3),
                format!("new_unaligned {} {}", bw, per + 2),
            ] {
                ctx.case();
                let mut s = fresh(wt);
                exec(ctx, &mut s, &format!("wordtype {} {}", wt, w));
                exec(ctx, &mut s, &ctor);
                for v in [m, 0, m / 2 + 1, m, 1 & m, m] {
                    exec(ctx, &mut s, &format!("push {}", v));
                }
                let ops = [
                    "iter".to_string(),
                    "rev_iter".into(),
                    "iter_from 2".into(),
                    "rev_iter_from 3".into(),
                    "unchecked_from 1".into(),
                    format!("set 1 {}", m),
                    format!("set 0 {}", m / 3),
                    "get 0".into(),
                    "get 1".into(),
                    "get_unaligned 1".into(),
                    format!("get_unaligned {}", 2 * per),
                    "sv_get 1".into(),
                    "sv_unaligned 1".into(),
                    "sv_iter".into(),
                    "sv_rev_iter".into(),
                    "sv_eq".into(),
                    "sv_atomic".into(),
                    "mask".into(),
                    "addr_of 0".into(),
                    format!("addr_of {}", per),
                    "addr_of 100000".into(),
                    "get_unchecked 1".into(),
                    format!("set_unchecked 3 {}", m),
                    "get_unaligned_unchecked 1".into(),
                    "iter_hint 0 0".into(),
                    "iter_hint 2 1".into(),
                    "into_iter_hint 1 100".into(),
                    "iter_hint 1000 0".into(),
                    "into_iter".into(),
                    format!("svm_aset 2 {}", m / 3),
                    format!("svm_aset 1000 {}", m),
                    "conv rawparts".into(),
                    "conv map".into(),
                    "conv boxatomic".into(),
                    "conv arawparts".into(),
                    "set_len 2".into(),
                    "iter".into(),
                    "set_len 6".into(),
                    "iter".into(),
                    "clone".into(),
                    "eq".into(),
                    "apply 3 7".into(),
                    "iter".into(),
                    "apply 1 1".into(),
                    format!("aset 2 {}", m),
                    "aget 2".into(),
                    "eq".into(),
                    format!("chunk_set {} 1 0 {}", per, m),
                    format!("chunk_get {} 1 0", per),
                    format!("chunk_get {} 0 1", 1000),
                    "chunk_get 3 0 0".into(),
                    "pop".into(),
                    format!("resize {} {}", 3 * per + 2, m),
                    "rev_iter".into(),
                    "iter".into(),
                    format!("resize 2 {}", m),
                    "apply 2 5".into(),
                    "reset".into(),
                    "iter".into(),
                    "clear".into(),
                    "iter".into(),
                    "rev_iter".into(),
                    "pop".into(),
                    "apply 1 1".into(),
                    format!("word_set 0 {}", omask(w) / 7),
                    "word_set 1000 1".into(),
                    "apar_reset".into(),
                    "areset_dep".into(),
                ];
                for o in &ops {
                    if wt == "u128" && (o.starts_with("aset") || o.starts_with("aget")) {
                        continue;
                    }
                    exec(ctx, &mut s, o);
                }
                ctx.shape(format!("directed:{}:{}:{}", wt, bw, ctor.split(' ').next().unwrap()));
            }
        }
        if wt == "usize" {
            // every form of the real `bit_field_vec!` macro at every directed width
            for &bw in &widths {
                let m = omask(bw);
                let mut ctors = vec![
                    format!("macro_new {}", bw),
                    format!("macro_fill {} {} 5", bw, m),
                    format!("macro_fill {} 0 0", bw),
                    format!("macro_fill3 {} 5 {}", bw, m),
                    format!("macro_fill3 {} 0 {}", bw, if bw < w { m + 1 } else { m }),
                ];
                for l in MACRO_LITS {
                    ctors.push(format!("macro_lit {} {}", bw, fmt_list(l.iter())));
                }
                for c in ctors {
                    ctx.case();
                    let mut s = fresh(wt);
                    exec(ctx, &mut s, &format!("wordtype {} {}", wt, w));
                    exec(ctx, &mut s, &c);
                    for o in ["iter".to_string(), format!("push {}", m), "iter".into(), "mask".into(), "rev_iter".into()] {
                        exec(ctx, &mut s, &o);
                    }
                    ctx.shape(format!("directed-macro:{}:{}", bw, c.split(' ').next().unwrap()));
                }
            }
        }
        for _ in 0..40 {
            copy_case(ctx, wt, w);
        }
        // storage beyond len must never be trusted: dirty backends (all-ones garbage in the tail and
        // in spare words), then growth with the fill values 0 / all-ones within and beyond the allocation
        for &bw in &[1usize, 3, w / 2 + 1, w - 1, w] {
            let per = w.div_ceil(bw);
            let m = omask(bw);
            let wm = omask(w);
            for fill in [0u128, m] {
                ctx.case();
                let mut s = fresh(wt);
                exec(ctx, &mut s, &format!("wordtype {} {}", wt, w));
                exec(ctx, &mut s, &format!("raw {} {} {}", fmt_list([wm, wm, wm, wm].iter()), bw, per / 2 + 1));
                exec(ctx, &mut s, &format!("resize {} {}", 2 * per, fill));
                exec(ctx, &mut s, "iter");
                exec(ctx, &mut s, &format!("resize {} {}", 1, fill));
                exec(ctx, &mut s, &format!("resize {} {}", 9 * per + 1, fill));
                exec(ctx, &mut s, "iter");
                exec(ctx, &mut s, "rev_iter");
                exec(ctx, &mut s, "clear");
                exec(ctx, &mut s, &format!("resize {} {}", 12 * per, fill));
                exec(ctx, &mut s, "iter");
                for v in [m, 0, m] {
                    exec(ctx, &mut s, &format!("push {}", v));
                }
                exec(ctx, &mut s, "pop");
                exec(ctx, &mut s, "iter");
                ctx.shape(format!("directed-dirty-grow:{}:{}:{}", wt, bw, fill == 0));
            }
        }
    }
}

/// the parallel (rayon) operations only split the work above `RAYON_MIN_LEN` = 100 000 backend
/// words: vectors whose elements span more words than that, with a word count that is not a
/// multiple of the threshold (all elements nonzero, `par_reset`, then compared with a fresh zero vector)
fn large_par_cases(ctx: &mut Ctx) {
    for (wt, w, bw, len) in [("usize", 64usize, 64usize, 150_001usize), ("usize", 64, 33, 250_001), ("u8", 8, 8, 230_017), ("u32", 32, 17, 400_003)] {
        ctx.case();
        let mut s = fresh(wt);
        let v = omask(bw) / 3 | 1;
        for o in [
            format!("wordtype {} {}", wt, w),
            format!("new {} {}", bw, len),
            "clone".to_string(),
            "clear".to_string(),
            format!("resize {} {}", len, v),
            format!("get {}", len - 1),
            "par_reset".to_string(),
            "eq".to_string(),
            format!("get {}", len - 1),
            format!("get {}", len / 2),
            "get 0".to_string(),
            format!("resize {} {}", len + 3, v),
            "apar_reset".to_string(),
            format!("get {}", len + 2),
            format!("get {}", len - 1),
            // stale elements beyond the length in the boundary word (and after it): the parallel
            // resets must leave them alone (frame check of every op)
            "clear".to_string(),
            format!("resize {} {}", len + 70, v),
            format!("resize {} {}", len, v),
            "apar_reset".to_string(),
            format!("get {}", len - 1),
            "clear".to_string(),
            format!("resize {} {}", len + 70, v),
            format!("resize {} {}", len, v),
            "par_reset".to_string(),
            "eq".to_string(),
        ] {
            exec(ctx, &mut s, &o);
        }
        ctx.shape(format!("large-par:{}:{}", wt, bw));
    }
}

pub fn run(ctx: &mut Ctx) {
    directed(ctx);
    large_par_cases(ctx);
    let n = if ctx.tier == Tier::Quick { 3000 } else { 60000 };
    for _ in 0..n {
        random_case(ctx);
    }
}

pub fn replay(ctx: &mut Ctx, lines: &[String]) {
    let mut s = fresh("u64");
    for l in lines {
        if l.starts_with("case ") {
            ctx.op(l);
            ctx.reply("case");
            s = fresh("u64");
        } else {
            if l.starts_with("wordtype ") {
                s = fresh(l.split(' ').nth(1).unwrap());
            }
            exec(ctx, &mut s, l);
        }
    }
}
