//! Shared plumbing of all runners: PRNG, op/reply writers, oracle bookkeeping, statistics.
#![allow(dead_code)]
use std::collections::BTreeMap;
use std::fs::File;
use std::io::{LineWriter, Write};
use std::panic::{catch_unwind, AssertUnwindSafe};
use std::path::{Path, PathBuf};

/// SplitMix64: every random choice of a run derives from one state seeded by `VERIF_SEED`.
pub struct Rng(pub u64);

impl Rng {
    pub fn next_u64(&mut self) -> u64 {
        self.0 = self.0.wrapping_add(0x9E3779B97F4A7C15);
        let mut z = self.0;
        z = (z ^ (z >> 30)).wrapping_mul(0xBF58476D1CE4E5B9);
        z = (z ^ (z >> 27)).wrapping_mul(0x94D049BB133111EB);
        z ^ (z >> 31)
    }
    /// uniform in 0..n (n > 0)
    pub fn below(&mut self, n: u64) -> u64 {
        debug_assert!(n > 0);
        self.next_u64() % n
    }
    pub fn usize_below(&mut self, n: usize) -> usize {
        self.below(n as u64) as usize
    }
    /// true with probability num/den
    pub fn chance(&mut self, num: u64, den: u64) -> bool {
        self.below(den) < num
    }
    pub fn pick<'a, T>(&mut self, xs: &'a [T]) -> &'a T {
        &xs[self.usize_below(xs.len())]
    }
    pub fn bool(&mut self) -> bool {
        self.next_u64() & 1 == 1
    }
    /// a u64 whose bit pattern is biased to interesting shapes
    pub fn word(&mut self) -> u64 {
        match self.below(8) {
            0 => 0,
            1 => u64::MAX,
            2 => 1u64 << self.below(64),
            3 => !(1u64 << self.below(64)),
            4 => self.next_u64() & self.next_u64() & self.next_u64(),
            5 => self.next_u64() | self.next_u64() | self.next_u64(),
            _ => self.next_u64(),
        }
    }
}

#[derive(Clone, Copy, PartialEq, Eq, Debug)]
pub enum Tier {
    Quick,
    Thorough,
}

pub struct Ctx {
    pub rng: Rng,
    pub seed: u64,
    pub tier: Tier,
    pub out_dir: PathBuf,
    ops: LineWriter<File>,
    imp: LineWriter<File>,
    /// number of op lines written so far (1-based line number of the last op)
    pub line: usize,
    pub cases: u64,
    /// (op line number, what the naive oracle expected, what the implementation answered)
    pub oracle_mismatch: Vec<(usize, String, String)>,
    pub stats: BTreeMap<String, u64>,
    /// distinct (shape-class) keys seen with at least one non-trivial op
    pub shapes: std::collections::BTreeSet<String>,
    pub samples: Vec<String>,
    cur_case: Vec<String>,
}

impl Ctx {
    pub fn new(out_dir: &Path, seed: u64, tier: Tier) -> Self {
        std::fs::create_dir_all(out_dir).unwrap();
        let ops = LineWriter::new(File::create(out_dir.join("ops.txt")).unwrap());
        let imp = LineWriter::new(File::create(out_dir.join("impl.txt")).unwrap());
        Ctx {
            rng: Rng(seed ^ 0x5DEECE66D),
            seed,
            tier,
            out_dir: out_dir.to_path_buf(),
            ops,
            imp,
            line: 0,
            cases: 0,
            oracle_mismatch: vec![],
            stats: BTreeMap::new(),
            shapes: Default::default(),
            samples: vec![],
            cur_case: vec![],
        }
    }

    /// start a new case: both sides reset their state
    pub fn case(&mut self) {
        // samples: cases number 0, 10, 100, 1000, 10000 (written out in the evidence)
        if !self.cur_case.is_empty() && matches!(self.cases, 1 | 11 | 101 | 1001 | 10001) {
            self.samples.push(self.cur_case.join(" / "));
        }
        self.cur_case.clear();
        let id = self.cases;
        self.cases += 1;
        self.op(&format!("case {}", id));
        self.reply("case");
    }

    /// write an op line (always *before* the implementation is called, so that an abort
    /// of the process leaves the culprit as the last line of ops.txt)
    pub fn op(&mut self, op: &str) {
        self.line += 1;
        writeln!(self.ops, "{}", op).unwrap();
        if self.cur_case.len() < 12 {
            self.cur_case.push(op.chars().take(60).collect());
        }
        let name = op.split(' ').next().unwrap_or("");
        *self.stats.entry(format!("op:{}", name)).or_insert(0) += 1;
    }

    pub fn reply(&mut self, r: &str) {
        writeln!(self.imp, "{}", r).unwrap();
        let class = if r.starts_with("ok") {
            "ok"
        } else if r.starts_with("panic") {
            "panic"
        } else if r.starts_with("err") {
            "err"
        } else {
            "other"
        };
        *self.stats.entry(format!("reply:{}", class)).or_insert(0) += 1;
    }

    pub fn stat(&mut self, key: &str) {
        *self.stats.entry(key.to_string()).or_insert(0) += 1;
    }

    pub fn shape(&mut self, key: String) {
        self.shapes.insert(key);
    }

    /// record an implementation answer that differs from the naive oracle
    pub fn check_oracle(&mut self, expected: &str, got: &str) {
        if expected != got {
            self.oracle_mismatch
                .push((self.line, expected.to_string(), got.to_string()));
        }
    }

    pub fn finish(mut self) {
        if self.samples.is_empty() && !self.cur_case.is_empty() {
            self.samples.push(self.cur_case.join(" / "));
        }
        self.ops.flush().unwrap();
        self.imp.flush().unwrap();
        let mut s = String::new();
        s.push_str("{\n");
        s.push_str(&format!("  \"seed\": {},\n", self.seed));
        s.push_str(&format!("  \"ops\": {},\n", self.line));
        s.push_str(&format!("  \"cases\": {},\n", self.cases));
        s.push_str(&format!("  \"distinct_shapes\": {},\n", self.shapes.len()));
        s.push_str("  \"stats\": {");
        let mut first = true;
        for (k, v) in &self.stats {
            if !first {
                s.push(',');
            }
            first = false;
            s.push_str(&format!("\n    {}: {}", json_str(k), v));
        }
        s.push_str("\n  },\n  \"samples\": [");
        for (i, x) in self.samples.iter().enumerate() {
            if i > 0 {
                s.push(',');
            }
            s.push_str(&format!("\n    {}", json_str(x)));
        }
        s.push_str("\n  ],\n  \"oracle_mismatch\": [");
        for (i, (l, e, g)) in self.oracle_mismatch.iter().take(50).enumerate() {
            if i > 0 {
                s.push(',');
            }
            s.push_str(&format!(
                "\n    {{\"line\": {}, \"expected\": {}, \"got\": {}}}",
                l,
                json_str(e),
                json_str(g)
            ));
        }
        s.push_str(&format!(
            "\n  ],\n  \"oracle_mismatch_total\": {}\n}}\n",
            self.oracle_mismatch.len()
        ));
        std::fs::write(self.out_dir.join("meta.json"), s).unwrap();
    }
}

pub fn json_str(s: &str) -> String {
    let mut o = String::from("\"");
    for c in s.chars() {
        match c {
            '"' => o.push_str("\\\""),
            '\\' => o.push_str("\\\\"),
            '\n' => o.push_str("\\n"),
            c if (c as u32) < 0x20 => o.push_str(&format!("\\u{:04x}", c as u32)),
            c => o.push(c),
        }
    }
    o.push('"');
    o
}

/// run `f`, mapping an unwinding panic to `None`
pub fn catch<T>(f: impl FnOnce() -> T) -> Option<T> {
    catch_unwind(AssertUnwindSafe(f)).ok()
}

pub fn fmt_list<T: std::fmt::Display>(xs: impl IntoIterator<Item = T>) -> String {
    let mut s = String::from("[");
    let mut first = true;
    for x in xs {
        if !first {
            s.push(',');
        }
        first = false;
        s.push_str(&x.to_string());
    }
    s.push(']');
    s
}

pub fn fmt_bools(xs: impl IntoIterator<Item = bool>) -> String {
    xs.into_iter().map(|b| if b { '1' } else { '0' }).collect()
}

pub fn b01(b: bool) -> &'static str {
    if b {
        "1"
    } else {
        "0"
    }
}
