//! Runner `serde` (C15): every serializable structure of the crate is serialized with ε-serde and
//! loaded back through every loader; the loaded instance must answer its whole observer battery
//! exactly as the original did.
//!
//! ops (one case = one instance):
//!   `inst <kind> <args…>`                 build the instance (complete description: replayable)
//!   `store <fnv of Serialize::serialize bytes> <len>`
//!                                         `Serialize::store` to a file; reply = fnv/len of the file
//!   `payload <schema> <hdrlen> <fields…>` reply `ok <hex of the bytes after the ε-serde header>`;
//!                                         the Lean layout model recomputes them from the fields.
//!                                         `<schema>` = `+`-joined layer names (wrapped structure first),
//!                                         `<fields…>` = the field tuple of the REAL instance read through
//!                                         the `sux_verif` accessors (trait `Flds`); the Lean side parses
//!                                         the tuple into its MODEL states through the bridges of
//!                                         `SuxModel/Serde/Bridges.lean` and lays it out again before
//!                                         encoding.  Every type of this runner has a payload op
//!                                         (files above 40 000 bytes excepted).
//!   `load <loader> <expected…>`           load with `<loader>` and run the battery; reply
//!                                         `ok <digest> <#answers>`; `<expected…>` is the reply
//!                                         predicted from the ORIGINAL instance (the Lean side
//!                                         echoes it: a differing loaded instance shows up as
//!                                         impl≠model and impl≠oracle)
//! loaders: `full` (deserialize_full from memory), `eps` (deserialize_eps from a 16-byte aligned
//! buffer), `load_full` (file), `mmap` (file), `load_mem`, `load_mmap` (file → aligned memory /
//! anonymous mapping, ε-copy); out-of-domain: `eps_mis` (ε-copy from a buffer at address ≡ 1 mod
//! 16: `rejected` iff the type has a field with alignment > 1, else must answer identically),
//! `full_trunc` / `eps_trunc` (last payload bytes missing: `rejected`), `full_wrongtype`
//! (`rejected`: type hash).
//!
//! Digest: FNV-1a (64 bit) over the answers, each terminated by `\n`.
//!
//! Types (96 concrete ones, see `type:` counters in meta.json): BitVec<Vec|Box>, BitFieldVec<u8|u16|
//! u32|u64|usize, Vec|Box>, AddNumBits<BitVec>, Rank9<BitVec<Vec|Box>>, RankSmall×5, Select9,
//! SelectAdapt / SelectZeroAdapt over AddNumBits, Rank9, each other and Select9, SelectAdaptConst /
//! SelectZeroAdaptConst (three (L, M) pairs) alone and nested over Rank9, SelectSmall /
//! SelectZeroSmall ×5 alone and nested, EliasFano plain / EfSeq / EfDict / EfSeqDict, RearCodedList,
//! VFunc and VFilter for FuseLge3Shards, FuseLge3NoShards ([u64;2] and [u64;1] signatures),
//! FuseLge3FullSigs, Mwhc3Shards, Mwhc3NoShards (feature `mwhc`) × {Box<[W]>, BitFieldVec<W>} backends,
//! W ∈ {u8, u16, u32, usize}, keys usize / u64 / String.  Instances: empty, singleton, raw parts
//! with stale tail bits and spare words, block-boundary lengths, seeded contents; functions with
//! one and with several shards.
//!
//! Findings kept visible here:
//! * `Select`/`SelectZero`(+`Unchecked`) are implemented for `SelectSmall`/`SelectZeroSmall` only with
//!   the default boxed inventory parameters `I = Box<[u32]>, O = Box<[usize]>`: the ε-copy types
//!   (`&[u32]`, `&[usize]`) returned by `deserialize_eps`/`mmap`/`load_mem`/`load_mmap` do not offer
//!   `select`/`select_zero` at all.  Their ε-copy battery is therefore the delegated part only
//!   (`rs_subject!(…; eps …)`, counter `eps-battery-restricted`).
//! * `SigVal<S, V>` derives Epserde but its `DeserializeInner` needs `&[u64; N]: Sig`: vectors of
//!   `SigVal` can be written, no loader compiles (not a field of any structure; not exercised).
//! * `AtomicBitFieldVec` derives Epserde but is not serializable with atomic backends (no
//!   `SerializeInner` for `Vec<AtomicUsize>`); not exercised.
use crate::common::*;
use dsi_progress_logger::no_logging;
use epserde::deser::{DeserType, Deserialize, Flags};
use epserde::ser::Serialize;
use std::io::Cursor;
use common_traits::{AsBytes, AtomicUnsignedInt, IntoAtomic};
use std::ops::Index;
use std::path::{Path, PathBuf};
use sux::dict::{RearCodedList, RearCodedListBuilder};
use sux::func::shard_edge::*;
use sux::prelude::*;
use sux::dict::elias_fano::{EfDict, EfSeq, EfSeqDict};
use sux::utils::{FromIntoIterator, Sig, ToSig};

// ------------------------------------------------------------------------------------ basics

pub fn fnv1a(data: &[u8]) -> u64 {
    let mut h: u64 = 0xcbf29ce484222325;
    for &b in data {
        h ^= b as u64;
        h = h.wrapping_mul(0x100000001b3);
    }
    h
}

type A = Vec<String>;

fn digest(a: &A) -> String {
    let mut h: u64 = 0xcbf29ce484222325;
    for s in a {
        for &b in s.as_bytes().iter().chain(b"\n".iter()) {
            h ^= b as u64;
            h = h.wrapping_mul(0x100000001b3);
        }
    }
    format!("{:016x} {}", h, a.len())
}

fn first_diff(a: &A, b: &A) -> String {
    for i in 0..a.len().max(b.len()) {
        let x = a.get(i).map(|s| s.as_str()).unwrap_or("<missing>");
        let y = b.get(i).map(|s| s.as_str()).unwrap_or("<missing>");
        if x != y {
            return format!("answer #{}: original `{}` loaded `{}`", i, x, y);
        }
    }
    "no difference".into()
}

/// one answer: `tag=value` or `tag=panic`
fn q<T: std::fmt::Debug>(a: &mut A, tag: &str, f: impl FnOnce() -> T) {
    match catch(f) {
        Some(v) => a.push(format!("{}={:?}", tag, v)),
        None => a.push(format!("{}=panic", tag)),
    }
}

/// fold a long list of values into one answer (FNV over the debug strings) + its length
fn q_fold<T: std::fmt::Debug>(a: &mut A, tag: &str, f: impl FnOnce() -> Vec<T>) {
    match catch(f) {
        Some(v) => {
            let mut h: u64 = 0xcbf29ce484222325;
            for x in &v {
                for &b in format!("{:?},", x).as_bytes() {
                    h ^= b as u64;
                    h = h.wrapping_mul(0x100000001b3);
                }
            }
            a.push(format!("{}=#{}:{:016x}", tag, v.len(), h))
        }
        None => a.push(format!("{}=panic", tag)),
    }
}

/// query positions for a domain of size `len`: everything (and two beyond) when small, else the
/// boundaries, out-of-range points and a fixed pseudo-random sample (function of `len`, `salt`)
fn positions(len: usize, salt: u64) -> Vec<usize> {
    if len <= 260 {
        return (0..=len + 2).collect();
    }
    let mut v = vec![
        0,
        1,
        2,
        63,
        64,
        65,
        127,
        128,
        511,
        512,
        513,
        len / 2,
        len - 2,
        len - 1,
        len,
        len + 1,
        len + 64,
        len + 513,
    ];
    let mut r = Rng(len as u64 ^ salt.wrapping_mul(0x9E3779B97F4A7C15));
    for _ in 0..120 {
        v.push(r.usize_below(len));
    }
    for _ in 0..20 {
        let b = r.usize_below(len / 512 + 1) * 512;
        v.push(b.min(len + 1));
        v.push((b + 511).min(len + 1));
    }
    v
}

/// a 16-byte aligned copy of `bytes`, optionally shifted by `shift` bytes
struct Aligned {
    buf: Vec<u128>,
    shift: usize,
    len: usize,
}
impl Aligned {
    fn new(bytes: &[u8], shift: usize) -> Self {
        let n = (bytes.len() + shift).div_ceil(16) + 1;
        let mut buf = vec![0u128; n];
        let p = buf.as_mut_ptr() as *mut u8;
        unsafe {
            std::ptr::copy_nonoverlapping(bytes.as_ptr(), p.add(shift), bytes.len());
        }
        Aligned {
            buf,
            shift,
            len: bytes.len(),
        }
    }
    fn bytes(&self) -> &[u8] {
        unsafe {
            std::slice::from_raw_parts((self.buf.as_ptr() as *const u8).add(self.shift), self.len)
        }
    }
}

/// length of the ε-serde header: MAGIC u64, version 2×u16, usize size u8, type hash u64, repr hash
/// u64, type name (len usize + bytes) — scalars are written unaligned
fn header_len(bytes: &[u8]) -> usize {
    assert!(bytes.len() >= 37);
    let n = u64::from_le_bytes(bytes[29..37].try_into().unwrap()) as usize;
    assert!(37 + n <= bytes.len());
    assert!(std::str::from_utf8(&bytes[37..37 + n]).is_ok());
    37 + n
}

fn hex(b: &[u8]) -> String {
    let mut s = String::with_capacity(b.len() * 2 + 1);
    if b.is_empty() {
        s.push('-');
    }
    for x in b {
        s.push(char::from_digit((x >> 4) as u32, 16).unwrap());
        s.push(char::from_digit((x & 15) as u32, 16).unwrap());
    }
    s
}

fn unhex(s: &str) -> Vec<u8> {
    if s == "-" {
        return vec![];
    }
    let c: Vec<u8> = s.bytes().collect();
    c.chunks(2)
        .map(|p| {
            let d = |x: u8| (x as char).to_digit(16).unwrap() as u8;
            d(p[0]) * 16 + d(p[1])
        })
        .collect()
}

/// the first `max` bytes of the `Debug` rendering (formatting stops there)
fn debug_prefix<T: std::fmt::Debug>(x: &T, max: usize) -> String {
    struct Bounded(String, usize);
    impl std::fmt::Write for Bounded {
        fn write_str(&mut self, s: &str) -> std::fmt::Result {
            self.0.push_str(s);
            if self.0.len() >= self.1 {
                Err(std::fmt::Error)
            } else {
                Ok(())
            }
        }
    }
    let mut b = Bounded(String::new(), max);
    let _ = std::fmt::write(&mut b, format_args!("{:?}", x));
    b.0
}

fn es<E: std::fmt::Display>(e: E) -> String {
    let s = e.to_string();
    let s = s.split_whitespace().take(6).collect::<Vec<_>>().join(" ");
    s
}

// ------------------------------------------------------------------------------------ subjects

/// a built instance of one concrete serializable type
trait Subject {
    /// battery on the original
    fn orig(&self) -> A;
    /// the battery offered by the ε-copy type, on the original
    fn orig_eps(&self) -> A;
    fn ser(&self) -> Result<Vec<u8>, String>;
    fn store(&self, path: &Path) -> Result<(), String>;
    /// load with `loader`, run the battery on the loaded instance
    fn load(&self, loader: &str, bytes: &[u8], path: &Path) -> Result<A, String>;
    /// `(schema name, field tuple)` for the payload op
    fn fields(&self) -> Option<(String, String)> {
        None
    }
    /// whether some field of the type is laid out with alignment > 1
    fn needs_align(&self) -> bool {
        true
    }
    fn type_name(&self) -> &'static str;
    /// free-form classification for the statistics (e.g. the sharding of a function)
    fn note(&self) -> Option<String> {
        None
    }
}

struct Subj<T, K = ()>(T, K);

macro_rules! subject {
    ($t:ty, $k:ty, |$x:ident, $kk:ident, $a:ident| $body:block) => {
        subject!($t, $k, |$x, $kk, $a| $body, $body, |_s| None, true);
    };
    ($t:ty, $k:ty, |$x:ident, $kk:ident, $a:ident| $body:block, |$s:ident| $fields:expr) => {
        subject!($t, $k, |$x, $kk, $a| $body, $body, |$s| $fields, true);
    };
    ($t:ty, $k:ty, |$x:ident, $kk:ident, $a:ident| $body:block, |$s:ident| $fields:expr, $al:expr) => {
        subject!($t, $k, |$x, $kk, $a| $body, $body, |$s| $fields, $al);
    };
    // general form: `$body` = battery of the type itself (original, full-copy loaders),
    // `$ebody` = battery offered by the ε-copy type (normally the same text)
    ($t:ty, $k:ty, |$x:ident, $kk:ident, $a:ident| $body:block, $ebody:block, |$s:ident| $fields:expr, $al:expr) => {
        impl Subj<$t, $k> {
            #[allow(unused_variables)]
            fn bo($x: &$t, $kk: &$k) -> A {
                let mut $a: A = Vec::new();
                $body;
                $a
            }
            #[allow(unused_variables)]
            fn bo_e($x: &$t, $kk: &$k) -> A {
                let mut $a: A = Vec::new();
                $ebody;
                $a
            }
            #[allow(unused_variables)]
            fn be<'a>($x: &DeserType<'a, $t>, $kk: &$k) -> A {
                let mut $a: A = Vec::new();
                $ebody;
                $a
            }
        }
        impl Subject for Subj<$t, $k> {
            fn orig(&self) -> A {
                Self::bo(&self.0, &self.1)
            }
            fn orig_eps(&self) -> A {
                Self::bo_e(&self.0, &self.1)
            }
            fn ser(&self) -> Result<Vec<u8>, String> {
                let mut v: Vec<u8> = Vec::new();
                self.0.serialize(&mut v).map_err(es)?;
                Ok(v)
            }
            fn store(&self, path: &Path) -> Result<(), String> {
                Serialize::store(&self.0, path).map_err(es)
            }
            fn load(&self, loader: &str, bytes: &[u8], path: &Path) -> Result<A, String> {
                match loader {
                    "full" | "full_trunc" => {
                        let v = <$t>::deserialize_full(&mut Cursor::new(bytes)).map_err(es)?;
                        Ok(Self::bo(&v, &self.1))
                    }
                    "eps" | "eps_trunc" => {
                        let buf = Aligned::new(bytes, 0);
                        let v = <$t>::deserialize_eps(buf.bytes()).map_err(es)?;
                        Ok(Self::be(&v, &self.1))
                    }
                    "eps_mis" => {
                        let buf = Aligned::new(bytes, 1);
                        let v = <$t>::deserialize_eps(buf.bytes()).map_err(es)?;
                        Ok(Self::be(&v, &self.1))
                    }
                    "load_full" => {
                        let v = <$t>::load_full(path).map_err(es)?;
                        Ok(Self::bo(&v, &self.1))
                    }
                    "mmap" => {
                        let m = <$t>::mmap(path, Flags::empty()).map_err(es)?;
                        Ok(Self::be(&*m, &self.1))
                    }
                    "load_mem" => {
                        let m = <$t>::load_mem(path).map_err(es)?;
                        Ok(Self::be(&*m, &self.1))
                    }
                    "load_mmap" => {
                        let m = <$t>::load_mmap(path, Flags::empty()).map_err(es)?;
                        Ok(Self::be(&*m, &self.1))
                    }
                    _ => panic!("unknown loader {}", loader),
                }
            }
            fn fields(&self) -> Option<(String, String)> {
                let $s = &self.0;
                $fields
            }
            fn needs_align(&self) -> bool {
                $al
            }
            fn type_name(&self) -> &'static str {
                std::any::type_name::<$t>()
            }
            fn note(&self) -> Option<String> {
                let d = debug_prefix(&self.0, 300);
                // shard/edge parameters of functions and filters
                d.find("shard_bits_shift: ").map(|i| {
                    let n: String = d[i + 18..].chars().take_while(|c| c.is_ascii_digit()).collect();
                    format!("shard_bits_shift={}", n)
                })
            }
        }
    };
}

fn boxed<T, K>(t: T, k: K) -> Option<Box<dyn Subject>>
where
    Subj<T, K>: Subject + 'static,
{
    Some(Box::new(Subj(t, k)))
}

// ------------------------------------------------------------------------------------ batteries

fn q_bits<R: BitLength + Index<usize, Output = bool>>(x: &R, a: &mut A) {
    let len = BitLength::len(x);
    q(a, "len", || len);
    for p in positions(len, 1) {
        q(a, "bit", || x[p]);
    }
}

fn q_rank<R: BitLength + Rank + RankZero>(x: &R, a: &mut A) {
    let len = BitLength::len(x);
    for p in positions(len, 2) {
        q(a, "rank", || x.rank(p));
        if p % 3 == 0 {
            q(a, "rank_zero", || x.rank_zero(p));
        }
    }
}

fn q_numbits<R: NumBits>(x: &R, a: &mut A) {
    q(a, "num_ones", || x.num_ones());
    q(a, "num_zeros", || x.num_zeros());
}

fn q_count<R: BitCount>(x: &R, a: &mut A) {
    q(a, "count_ones", || x.count_ones());
    q(a, "count_zeros", || x.count_zeros());
}

fn q_select<R: Select + NumBits>(x: &R, a: &mut A) {
    let n1 = catch(|| x.num_ones()).unwrap_or(0);
    for r in positions(n1, 3) {
        q(a, "select", || x.select(r));
    }
}

fn q_select_zero<R: SelectZero + NumBits>(x: &R, a: &mut A) {
    let n0 = catch(|| x.num_zeros()).unwrap_or(0);
    for r in positions(n0, 4) {
        q(a, "select_zero", || x.select_zero(r));
    }
}

macro_rules! caps {
    ($x:ident, $a:ident;) => {};
    ($x:ident, $a:ident; rank $($rest:ident)*) => { q_rank($x, &mut $a); caps!($x, $a; $($rest)*); };
    ($x:ident, $a:ident; numbits $($rest:ident)*) => { q_numbits($x, &mut $a); caps!($x, $a; $($rest)*); };
    ($x:ident, $a:ident; count $($rest:ident)*) => { q_count($x, &mut $a); caps!($x, $a; $($rest)*); };
    ($x:ident, $a:ident; select $($rest:ident)*) => { q_select($x, &mut $a); caps!($x, $a; $($rest)*); };
    ($x:ident, $a:ident; select_zero $($rest:ident)*) => { q_select_zero($x, &mut $a); caps!($x, $a; $($rest)*); };
}

/// a rank/select structure: positional access + the listed capabilities
macro_rules! rs_subject {
    ($t:ty; $($cap:ident)*) => {
        subject!($t, (), |x, k, a| {
            q_bits(x, &mut a);
            caps!(x, a; $($cap)*);
        }, |s| Some(flds_of(s)));
    };
    // capabilities of the type itself; capabilities of its ε-copy type
    ($t:ty; $($cap:ident)*; eps $($ecap:ident)*) => {
        subject!($t, (), |x, k, a| {
            q_bits(x, &mut a);
            caps!(x, a; $($cap)*);
        }, {
            q_bits(x, &mut a);
            caps!(x, a; $($ecap)*);
        }, |s| Some(flds_of(s)), true);
    };
    ($t:ty; $($cap:ident)*; |$s:ident| $fields:expr) => {
        subject!($t, (), |x, k, a| {
            q_bits(x, &mut a);
            caps!(x, a; $($cap)*);
        }, |$s| $fields);
    };
}

fn q_bitvec<B: AsRef<[usize]>>(x: &BitVec<B>, a: &mut A) {
    let len = x.len();
    q(a, "len", || len);
    for p in positions(len, 5) {
        q(a, "get", || x.get(p));
    }
    q(a, "count_ones", || x.count_ones());
    q_fold(a, "iter", || x.iter().collect());
    q_fold(a, "iter_ones", || x.iter_ones().collect());
    q_fold(a, "iter_zeros", || x.iter_zeros().collect());
    q(a, "display", || fnv1a(format!("{}", x).as_bytes()));
    q_fold(a, "words", || {
        let w: &[usize] = x.as_ref();
        w.to_vec()
    });
}

fn q_bfv<W: Word + IntoAtomic + std::fmt::Debug + TryFrom<u64>, B: AsRef<[W]>>(x: &BitFieldVec<W, B>, a: &mut A)
where
    W::AtomicType: AtomicUnsignedInt + AsBytes,
{
    let len = BitFieldSliceCore::<W>::len(x);
    q(a, "len", || len);
    q(a, "bit_width", || x.bit_width());
    for p in positions(len, 6) {
        q(a, "get", || BitFieldSlice::get(x, p));
        if p % 4 == 0 {
            q(a, "get_unaligned", || x.get_unaligned(p));
        }
    }
    q_fold(a, "iter", || x.iter().collect());
    for p in [0, len / 3, len.saturating_sub(1), len] {
        q_fold(a, "iter_from", || x.iter_from(p).collect());
    }
    q_fold(a, "words", || x.as_slice().to_vec());
    // the atomic view of the borrowed contents (the `From` glue of `BitFieldVec<W, &[W]>`, which is
    // what an eps-copy / mmap-loaded vector is), read atomically, and converted back
    q_fold(a, "atomic_view", || {
        let view: BitFieldVec<W, &[W]> = unsafe { BitFieldVec::from_raw_parts(x.as_slice(), x.bit_width(), len) };
        let av: AtomicBitFieldVec<W, &[<W as IntoAtomic>::AtomicType]> = view.into();
        let mut out: Vec<W> = vec![];
        let n = AtomicBitFieldSliceLen::alen(&av);
        for i in 0..n {
            out.push(av.get_atomic(i, std::sync::atomic::Ordering::Relaxed));
        }
        let bw = AtomicBitFieldSliceLen::abw(&av);
        let back: BitFieldVec<W, &[W]> = av.into();
        out.extend(back.iter());
        out.push(W::try_from(n as u64 & 0xff).ok().unwrap_or(W::ZERO));
        out.push(W::try_from(bw as u64 & 0xff).ok().unwrap_or(W::ZERO));
        out
    });
}

/// `len`/`bit_width` of an atomic bit-field vector (disambiguation helper)
trait AtomicBitFieldSliceLen {
    fn alen(&self) -> usize;
    fn abw(&self) -> usize;
}
impl<W: Word + IntoAtomic, B: AsRef<[W::AtomicType]>> AtomicBitFieldSliceLen for AtomicBitFieldVec<W, B> {
    fn alen(&self) -> usize {
        self.len()
    }
    fn abw(&self) -> usize {
        self.bit_width()
    }
}

// ------------------------------------------------------------------------------------ types

type BV = BitVec<Vec<usize>>;
type BB = BitVec<Box<[usize]>>;
type AB = AddNumBits<BV>;

fn bv_fields<B: AsRef<[usize]>>(b: &BitVec<B>) -> String {
    let w: &[usize] = b.as_ref();
    format!("s8:{} u8:{}", fmt_list(w.iter()), b.len())
}

fn bfv_fields<W: Word + std::fmt::Display, B: AsRef<[W]>>(b: &BitFieldVec<W, B>) -> String {
    let wb = std::mem::size_of::<W>();
    // the private `mask` field is a function of the bit width (see `mask()` in bit_field_vec.rs)
    let bw = b.bit_width();
    let mask: u128 = if bw == 0 { 0 } else { (1u128 << bw) - 1 };
    format!(
        "s{}:{} u8:{} u{}:{} u8:{}",
        wb,
        fmt_list(b.as_slice().iter()),
        bw,
        wb,
        mask,
        BitFieldSliceCore::<W>::len(b)
    )
}

/// Field tuple of a (nested) structure, layer by layer: the wrapped structure is the first field of
/// every wrapper, so its fields come first.  The schema is the `+`-joined list of the layer names
/// (`Serde/Runner.lean`, `layerOf`); every layer has a bridge to the model structure on the Lean side.
/// The private fields are read through the `#[cfg(sux_verif)]` accessors of /repo.  No accessor
/// exists for: `BitFieldVec::mask`, `SelectAdapt::ones_per_inventory_mask` / `ones_per_sub16_mask`
/// (recomputed here from the widths: the comparison with the real bytes checks the recomputation)
/// and the fields of the `ShardEdge` structs (read off their `Debug` rendering).
trait Flds {
    fn flds(&self, out: &mut Vec<(String, String)>);
}

fn flds_of<T: Flds>(t: &T) -> (String, String) {
    let mut v = vec![];
    t.flds(&mut v);
    (
        v.iter().map(|x| x.0.clone()).collect::<Vec<_>>().join("+"),
        v.iter().map(|x| x.1.clone()).filter(|x| !x.is_empty()).collect::<Vec<_>>().join(" "),
    )
}

impl<B: AsRef<[usize]>> Flds for BitVec<B> {
    fn flds(&self, out: &mut Vec<(String, String)>) {
        out.push(("bv".into(), bv_fields(self)));
    }
}
impl Flds for AddNumBits<BV> {
    fn flds(&self, out: &mut Vec<(String, String)>) {
        // AddNumBits { bits, number_of_ones }: no accessor to `bits`; words and length are delegated
        out.push(("bv".into(), bits_fields(self)));
        out.push(("u8".into(), format!("u8:{}", self.num_ones())));
    }
}
impl<B: AsRef<[usize]>> Flds for Rank9<BitVec<B>> {
    fn flds(&self, out: &mut Vec<(String, String)>) {
        let c = self.verif_counts();
        out.push(("bv".into(), bits_fields(self)));
        out.push(("r9c".into(), format!("r8+8:{}", fmt_list(c.iter().flat_map(|x| [x.0, x.1])))));
    }
}
impl<const N: usize, const W: usize> Flds for RankSmall<N, W, BV> {
    fn flds(&self, out: &mut Vec<(String, String)>) {
        let (u, c, n) = self.verif_parts();
        let comp: Vec<String> = std::iter::repeat("4".to_string()).take(N + 1).collect();
        out.push(("bv".into(), bits_fields(self)));
        out.push((
            format!("rsm{}", N),
            format!(
                "s8:{} r{}:{} u8:{}",
                fmt_list(u.iter()),
                comp.join("+"),
                fmt_list(c.iter().flat_map(|x| std::iter::once(x.0).chain(x.1.iter().copied()))),
                n
            ),
        ));
    }
}
impl<R: Flds> Flds for Select9<R> {
    fn flds(&self, out: &mut Vec<(String, String)>) {
        self.verif_inner().flds(out);
        let (inv, sub, isz, ssz) = self.verif_parts();
        out.push(("s9".into(), format!("s8:{} s8:{} u8:{} u8:{}", fmt_list(inv.iter()), fmt_list(sub.iter()), isz, ssz)));
    }
}
fn adapt_own(name: &str, p: (&[usize], &[usize], usize, usize, usize)) -> (String, String) {
    let (inv, spill, l, s16, m) = p;
    // the two mask fields have no accessor: `ones_per_inventory - 1`, `ones_per_sub16 - 1`
    (
        name.into(),
        format!(
            "s8:{} s8:{} u8:{} u8:{} u8:{} u8:{} u8:{}",
            fmt_list(inv.iter()),
            fmt_list(spill.iter()),
            l,
            s16,
            m,
            (1u128 << l) - 1,
            (1u128 << s16) - 1
        ),
    )
}
impl<B: Flds> Flds for SelectAdapt<B> {
    fn flds(&self, out: &mut Vec<(String, String)>) {
        self.verif_inner().flds(out);
        out.push(adapt_own("sa", self.verif_parts()));
    }
}
impl<B: Flds> Flds for SelectZeroAdapt<B> {
    fn flds(&self, out: &mut Vec<(String, String)>) {
        self.verif_inner().flds(out);
        out.push(adapt_own("sza", self.verif_parts()));
    }
}
impl<B: Flds, const L: usize, const M: usize> Flds for SelectAdaptConst<B, Box<[usize]>, L, M> {
    fn flds(&self, out: &mut Vec<(String, String)>) {
        self.verif_inner().flds(out);
        let (inv, spill) = self.verif_parts();
        out.push(("sac".into(), format!("s8:{} s8:{}", fmt_list(inv.iter()), fmt_list(spill.iter()))));
    }
}
impl<B: Flds, const L: usize, const M: usize> Flds for SelectZeroAdaptConst<B, Box<[usize]>, L, M> {
    fn flds(&self, out: &mut Vec<(String, String)>) {
        self.verif_inner().flds(out);
        let (inv, spill) = self.verif_parts();
        out.push(("sac".into(), format!("s8:{} s8:{}", fmt_list(inv.iter()), fmt_list(spill.iter()))));
    }
}
impl<C: Flds, const N: usize, const W: usize> Flds for SelectSmall<N, W, C> {
    fn flds(&self, out: &mut Vec<(String, String)>) {
        self.verif_inner().flds(out);
        let (inv, beg, l) = self.verif_parts();
        out.push(("ss".into(), format!("s4:{} s8:{} u8:{}", fmt_list(inv.iter()), fmt_list(beg.iter()), l)));
    }
}
impl<C: Flds, const N: usize, const W: usize> Flds for SelectZeroSmall<N, W, C> {
    fn flds(&self, out: &mut Vec<(String, String)>) {
        self.verif_inner().flds(out);
        let (inv, beg, l) = self.verif_parts();
        out.push(("ss".into(), format!("s4:{} s8:{} u8:{}", fmt_list(inv.iter()), fmt_list(beg.iter()), l)));
    }
}

subject!(BV, (), |x, k, a| { q_bitvec(x, &mut a) }, |s| Some(("bv".into(), bv_fields(s))));
subject!(BB, (), |x, k, a| { q_bitvec(x, &mut a) }, |s| Some(("bv".into(), bv_fields(s))));

macro_rules! bfv_subjects {
    ($($w:ty, $name:literal);*) => {
        $(
            subject!(BitFieldVec<$w, Vec<$w>>, (), |x, k, a| { q_bfv(x, &mut a) },
                |s| Some(($name.into(), bfv_fields(s))), std::mem::size_of::<$w>() > 1);
            subject!(BitFieldVec<$w, Box<[$w]>>, (), |x, k, a| { q_bfv(x, &mut a) },
                |s| Some(($name.into(), bfv_fields(s))), std::mem::size_of::<$w>() > 1);
        )*
    };
}
bfv_subjects!(u8, "bfv1"; u16, "bfv2"; u32, "bfv4"; u64, "bfv8"; usize, "bfv8");

rs_subject!(AB; numbits count);

fn bits_fields<R: AsRef<[usize]> + BitLength>(r: &R) -> String {
    format!("s8:{} u8:{}", fmt_list(r.as_ref().iter()), BitLength::len(r))
}

fn r9_fields<B: AsRef<[usize]>>(r: &Rank9<BitVec<B>>) -> String {
    let c = r.verif_counts();
    format!("{} r8+8:{}", bits_fields(r), fmt_list(c.iter().flat_map(|x| [x.0, x.1])))
}

rs_subject!(Rank9<BV>; rank numbits count; |s| Some(("rank9".into(), r9_fields(s))));
rs_subject!(Rank9<BB>; rank numbits count; |s| Some(("rank9".into(), r9_fields(s))));

fn rsm_fields<const N: usize, const W: usize>(r: &RankSmall<N, W, BV>) -> String {
    let (u, c, n) = r.verif_parts();
    let comp: Vec<String> = std::iter::repeat("4".to_string()).take(N + 1).collect();
    format!(
        "{} s8:{} r{}:{} u8:{}",
        bits_fields(r),
        fmt_list(u.iter()),
        comp.join("+"),
        fmt_list(c.iter().flat_map(|x| std::iter::once(x.0).chain(x.1.iter().copied()))),
        n
    )
}

type RS0 = RankSmall<2, 9, BV>;
type RS1 = RankSmall<1, 9, BV>;
type RS2 = RankSmall<1, 10, BV>;
type RS3 = RankSmall<1, 11, BV>;
type RS4 = RankSmall<3, 13, BV>;
rs_subject!(RS0; rank numbits; |s| Some(("ranksmall2".into(), rsm_fields(s))));
rs_subject!(RS1; rank numbits; |s| Some(("ranksmall1".into(), rsm_fields(s))));
rs_subject!(RS2; rank numbits; |s| Some(("ranksmall1".into(), rsm_fields(s))));
rs_subject!(RS3; rank numbits; |s| Some(("ranksmall1".into(), rsm_fields(s))));
rs_subject!(RS4; rank numbits; |s| Some(("ranksmall3".into(), rsm_fields(s))));

rs_subject!(Select9<Rank9<BV>>; rank numbits count select);
rs_subject!(SelectAdapt<AB>; numbits count select);
rs_subject!(SelectZeroAdapt<AB>; numbits count select_zero);
rs_subject!(SelectAdapt<Rank9<BV>>; rank numbits count select);
rs_subject!(SelectZeroAdapt<Rank9<BV>>; rank numbits count select_zero);
rs_subject!(SelectZeroAdapt<SelectAdapt<AB>>; numbits count select select_zero);
rs_subject!(SelectZeroAdapt<SelectAdapt<Rank9<BV>>>; rank numbits count select select_zero);
rs_subject!(SelectAdapt<SelectZeroAdapt<AB>>; numbits count select select_zero);
rs_subject!(SelectZeroAdapt<Select9<Rank9<BV>>>; rank numbits count select select_zero);

macro_rules! consts {
    ($($l:literal, $m:literal);*) => {
        $(
            rs_subject!(SelectAdaptConst<AB, Box<[usize]>, $l, $m>; numbits count select);
            rs_subject!(SelectZeroAdaptConst<AB, Box<[usize]>, $l, $m>; numbits count select_zero);
            rs_subject!(SelectZeroAdaptConst<SelectAdaptConst<Rank9<BV>, Box<[usize]>, $l, $m>, Box<[usize]>, $l, $m>;
                rank numbits count select select_zero);
        )*
        fn build_const(sid: &str, l: usize, m: usize, bits: BV) -> Option<Box<dyn Subject>> {
            match (sid, l, m) {
                $(
                    ("sac", $l, $m) => boxed(SelectAdaptConst::<AB, Box<[usize]>, $l, $m>::new(bits.into()), ()),
                    ("szac", $l, $m) => boxed(SelectZeroAdaptConst::<AB, Box<[usize]>, $l, $m>::new(bits.into()), ()),
                    ("szac_sac_r9", $l, $m) => boxed(
                        SelectZeroAdaptConst::<_, Box<[usize]>, $l, $m>::new(
                            SelectAdaptConst::<_, Box<[usize]>, $l, $m>::new(Rank9::new(bits))), ()),
                )*
                _ => None,
            }
        }
        const CONST_GRID: &[(usize, usize)] = &[$(($l, $m)),*];
    };
}
consts!(12, 3; 3, 1; 8, 4);

macro_rules! smalls {
    ($($k:literal, $n:literal, $w:literal);*) => {
        $(
            // FINDING: `Select`/`SelectZero` are implemented for SelectSmall/SelectZeroSmall only
            // with the default (boxed) inventory parameters, so the ε-copy types do not offer them
            rs_subject!(SelectSmall<$n, $w, RankSmall<$n, $w, BV>>; rank numbits select; eps rank numbits);
            rs_subject!(SelectZeroSmall<$n, $w, RankSmall<$n, $w, BV>>; rank numbits select_zero; eps rank numbits);
            rs_subject!(SelectZeroSmall<$n, $w, SelectSmall<$n, $w, RankSmall<$n, $w, BV>>>; rank numbits select select_zero; eps rank numbits);
        )*
        fn build_small(sid: &str, k: usize, b: usize, bits: BV) -> Option<Box<dyn Subject>> {
            match (sid, k) {
                $(
                    ("rs", $k) => boxed(RankSmall::<$n, $w, BV>::new(bits), ()),
                    ("ss", $k) => boxed(SelectSmall::<$n, $w, _>::with_inv(RankSmall::<$n, $w, BV>::new(bits), b), ()),
                    ("szs", $k) => boxed(SelectZeroSmall::<$n, $w, _>::with_inv(RankSmall::<$n, $w, BV>::new(bits), b), ()),
                    ("szs_ss", $k) => boxed(SelectZeroSmall::<$n, $w, _>::with_inv(
                        SelectSmall::<$n, $w, _>::with_inv(RankSmall::<$n, $w, BV>::new(bits), b), b), ()),
                )*
                _ => None,
            }
        }
    };
}
smalls!(0, 2, 9; 1, 1, 9; 2, 1, 10; 3, 1, 11; 4, 3, 13);

/// rank/select structure `sid` with parameters (p1, p2) over `bits`
fn build_rs(sid: &str, p1: usize, p2: usize, bits: BV) -> Option<Box<dyn Subject>> {
    match sid {
        "bv" => boxed(bits, ()),
        "bvbox" => boxed(BB::from(bits), ()),
        "anb" => boxed(AB::from(bits), ()),
        "rank9" => boxed(Rank9::new(bits), ()),
        "rank9box" => boxed(Rank9::new(BB::from(bits)), ()),
        "sel9" => boxed(Select9::new(Rank9::new(bits)), ()),
        "sa" => boxed(SelectAdapt::with_inv(AB::from(bits), p1, p2), ()),
        "sza" => boxed(SelectZeroAdapt::with_inv(AB::from(bits), p1, p2), ()),
        "sa_r9" => boxed(SelectAdapt::with_inv(Rank9::new(bits), p1, p2), ()),
        "sza_r9" => boxed(SelectZeroAdapt::with_inv(Rank9::new(bits), p1, p2), ()),
        "sza_sa" => boxed(
            SelectZeroAdapt::with_inv(SelectAdapt::with_inv(AB::from(bits), p1, p2), p1, p2),
            (),
        ),
        "sa_sza" => boxed(
            SelectAdapt::with_inv(SelectZeroAdapt::with_inv(AB::from(bits), p1, p2), p1, p2),
            (),
        ),
        "sza_sa_r9" => boxed(
            SelectZeroAdapt::with_inv(SelectAdapt::with_inv(Rank9::new(bits), p1, p2), p1, p2),
            (),
        ),
        "sza_sel9" => boxed(
            SelectZeroAdapt::with_inv(Select9::new(Rank9::new(bits)), p1, p2),
            (),
        ),
        "sac" | "szac" | "szac_sac_r9" => build_const(sid, p1, p2, bits),
        "rs" | "ss" | "szs" | "szs_ss" => build_small(sid, p1, p2, bits),
        _ => None,
    }
}

/// (sid, p1, p2) of every rank/select configuration
fn rs_configs() -> Vec<(String, usize, usize)> {
    let mut v: Vec<(String, usize, usize)> = vec![];
    for sid in ["bv", "bvbox", "anb", "rank9", "rank9box", "sel9"] {
        v.push((sid.into(), 0, 0));
    }
    for k in 0..5 {
        v.push(("rs".into(), k, 0));
        v.push(("ss".into(), k, 2));
        v.push(("szs".into(), k, 8));
        v.push(("szs_ss".into(), k, 4));
    }
    for &(l, m) in CONST_GRID {
        for sid in ["sac", "szac", "szac_sac_r9"] {
            v.push((sid.into(), l, m));
        }
    }
    for &(l, m) in &[(3usize, 1usize), (6, 0), (10, 3)] {
        for sid in ["sa", "sza", "sa_r9", "sza_r9", "sza_sa", "sa_sza", "sza_sa_r9", "sza_sel9"] {
            v.push((sid.into(), l, m));
        }
    }
    v
}

// ---- Elias–Fano

type EfPlain = EliasFano;

/// probe values for the dictionary queries: around every (sampled) element, the bounds, beyond
fn ef_probes<H: AsRef<[usize]>, LB: AsRef<[usize]>>(x: &EliasFano<H, BitFieldVec<usize, LB>>) -> Vec<usize> {
    let vals: Vec<usize> = x.iter().collect();
    let (_, u, _, _, _) = x.verif_parts();
    let mut p = vec![0, 1, u / 2, u.saturating_sub(1), u, u.saturating_add(1), u.saturating_add(1000), usize::MAX];
    for i in positions(vals.len(), 8) {
        if i < vals.len() {
            let v = vals[i];
            p.push(v);
            p.push(v.saturating_sub(1));
            p.push(v.saturating_add(1));
        }
    }
    p
}

fn q_ef_base<H: AsRef<[usize]>, LB: AsRef<[usize]>>(x: &EliasFano<H, BitFieldVec<usize, LB>>, a: &mut A) {
    q(a, "len", || x.len());
    q_fold(a, "iter", || x.iter().collect::<Vec<usize>>());
    q_fold(a, "into_iter", || x.into_iter().collect::<Vec<usize>>());
    q(a, "iter.len", || x.iter().len());
}

fn q_ef_seq<H: AsRef<[usize]> + SelectUnchecked, LB: AsRef<[usize]>>(
    x: &EliasFano<H, BitFieldVec<usize, LB>>,
    a: &mut A,
) {
    let n = x.len();
    for p in positions(n, 7) {
        q(a, "get", || IndexedSeq::get(x, p));
    }
    for p in [0, n / 2, n.saturating_sub(1), n] {
        q_fold(a, "iter_from", || x.iter_from(p).collect::<Vec<usize>>());
    }
}

fn q_ef_dict<H: AsRef<[usize]> + SelectZeroUnchecked, LB: AsRef<[usize]>>(
    x: &EliasFano<H, BitFieldVec<usize, LB>>,
    a: &mut A,
) {
    for v in ef_probes(x) {
        q(a, "index_of", || x.index_of(v));
        q(a, "contains", || x.contains(v));
    }
}

fn q_ef_succ<H: AsRef<[usize]> + SelectUnchecked + SelectZeroUnchecked, LB: AsRef<[usize]>>(
    x: &EliasFano<H, BitFieldVec<usize, LB>>,
    a: &mut A,
) {
    for v in ef_probes(x) {
        q(a, "succ", || x.succ(v));
        q(a, "succ_strict", || x.succ_strict(v));
        q(a, "pred", || x.pred(v));
        q(a, "pred_strict", || x.pred_strict(v));
    }
}

fn ef_fields(e: &EfPlain) -> String {
    let (n, u, l, low, high) = e.verif_parts();
    format!("u8:{} u8:{} u8:{} {} {}", n, u, l, bfv_fields(low), bv_fields(high))
}

subject!(EfPlain, (), |x, k, a| { q_ef_base(x, &mut a) }, |s| Some(("ef".into(), ef_fields(s))));
/// EliasFano { n, u, l, low_bits, high_bits } with a selection structure over the upper bits: the
/// layers of `high_bits` (bit vector first, then the inventories) follow
fn ef_sel_fields<H: Flds, B: AsRef<[usize]>>(e: &EliasFano<H, BitFieldVec<usize, B>>) -> (String, String) {
    let (n, u, l, low, high) = e.verif_parts();
    let mut v = vec![
        ("efh".to_string(), format!("u8:{} u8:{} u8:{}", n, u, l)),
        ("bfv8".to_string(), bfv_fields(low)),
    ];
    high.flds(&mut v);
    (
        v.iter().map(|x| x.0.clone()).collect::<Vec<_>>().join("+"),
        v.iter().map(|x| x.1.clone()).collect::<Vec<_>>().join(" "),
    )
}

subject!(EfSeq, (), |x, k, a| {
    q_ef_base(x, &mut a);
    q_ef_seq(x, &mut a);
}, |s| Some(ef_sel_fields(s)));
subject!(EfDict, (), |x, k, a| {
    q_ef_base(x, &mut a);
    q_ef_dict(x, &mut a);
}, |s| Some(ef_sel_fields(s)));
subject!(EfSeqDict, (), |x, k, a| {
    q_ef_base(x, &mut a);
    q_ef_seq(x, &mut a);
    q_ef_dict(x, &mut a);
    q_ef_succ(x, &mut a);
}, |s| Some(ef_sel_fields(s)));

fn build_ef(form: &str, u: usize, vals: &[usize]) -> Option<Box<dyn Subject>> {
    let mut b = EliasFanoBuilder::new(vals.len(), u);
    for &v in vals {
        b.push(v);
    }
    match form {
        "plain" => boxed(b.build(), ()),
        "seq" => boxed(b.build_with_seq(), ()),
        "dict" => boxed(b.build_with_dict(), ()),
        "seqdict" => boxed(b.build_with_seq_and_dict(), ()),
        _ => None,
    }
}

// ---- rear-coded lists

fn q_rcl<D: AsRef<[u8]>, P: AsRef<[usize]>>(x: &RearCodedList<D, P>, probes: &Vec<String>, a: &mut A) {
    let n = x.len();
    q(a, "len", || n);
    for p in positions(n, 9) {
        q(a, "get", || IndexedSeq::get(x, p));
        if p % 5 == 0 {
            q(a, "get_in_place", || {
                let mut v = Vec::new();
                x.get_in_place(p, &mut v);
                v
            });
        }
    }
    q_fold(a, "iter", || x.iter().collect::<Vec<String>>());
    q(a, "iter.len", || x.iter().len());
    for p in [0, 1, n / 2, n.saturating_sub(1), n, n + 1] {
        q_fold(a, "iter_from", || x.iter_from(p).collect::<Vec<String>>());
    }
    q_fold(a, "lend", || {
        use lender::Lender;
        let mut v = Vec::new();
        let mut l = x.lend();
        while let Some(s) = l.next() {
            v.push(s.to_string());
        }
        v
    });
    for s in probes {
        q(a, "index_of", || x.index_of(s.as_str()));
        q(a, "contains", || x.contains(s.as_str()));
    }
    q(a, "parts", || {
        let (k, len, sorted, data, ptr) = x.verif_parts();
        (k, len, sorted, fnv1a(data), ptr.to_vec())
    });
}

fn rcl_fields(r: &RearCodedList) -> String {
    let (k, len, sorted, data, ptr) = r.verif_parts();
    format!(
        "u8:{} u8:{} u1:{} s1:{} s8:{}",
        k,
        len,
        sorted as u8,
        fmt_list(data.iter()),
        fmt_list(ptr.iter())
    )
}

subject!(RearCodedList, Vec<String>, |x, k, a| { q_rcl(x, k, &mut a) }, |s| Some(("rcl".into(), rcl_fields(s))));

fn build_rcl(k: usize, strs: &[String]) -> Option<Box<dyn Subject>> {
    let mut b = RearCodedListBuilder::new(k);
    for s in strs {
        b.push(s);
    }
    // probes: the strings themselves, neighbours, absent strings (NUL-free: see the rcl runner)
    let mut probes: Vec<String> = vec!["".into(), "a".into(), "zzzz".into(), "\u{10FFFF}".into()];
    for i in positions(strs.len(), 10) {
        if i < strs.len() {
            probes.push(strs[i].clone());
            probes.push(format!("{}a", strs[i]));
            let mut t = strs[i].clone();
            t.pop();
            probes.push(t);
            // the same string shifted by 1..7 bytes (padded with its last byte): equal to a stored
            // string only if a comparison reads the data at the wrong byte offset
            if strs[i].is_ascii() && strs[i].len() > 8 {
                let last = strs[i].chars().last().unwrap();
                for d in 1..8 {
                    let mut t: String = strs[i][d..].to_string();
                    for _ in 0..d {
                        t.push(last);
                    }
                    probes.push(t);
                }
            }
        }
    }
    boxed(b.build(), probes)
}

// NOTE (reported): `SigVal<S, V>` derives Epserde, but its derived `DeserializeInner` impl requires
// `DeserType<S>: Sig`, i.e. `&[u64; N]: Sig`, which does not hold: vectors of `SigVal` can be
// serialized but no loader compiles for them.  They are not a field of any structure.

// ---- static functions and filters

trait MkKey: Sized {
    /// the i-th key of the key set `seed`; `i >= 1 << 40` are never keys
    fn mk(seed: u64, i: u64) -> Self;
}
impl MkKey for usize {
    fn mk(seed: u64, i: u64) -> Self {
        // odd multiplier: a bijection of u64, so keys are distinct
        (i.wrapping_add(seed << 41)).wrapping_mul(0x9E3779B97F4A7C15) as usize
    }
}
impl MkKey for u64 {
    fn mk(seed: u64, i: u64) -> Self {
        (i.wrapping_add(seed << 41)).wrapping_mul(0xD1342543DE82EF95)
    }
}
impl MkKey for String {
    fn mk(seed: u64, i: u64) -> Self {
        format!("k{}:{}", seed, i)
    }
}
trait MkSig: Sized {
    fn mk(a: u64, b: u64) -> Self;
}
impl MkSig for [u64; 2] {
    fn mk(a: u64, b: u64) -> Self {
        [a, b]
    }
}
impl MkSig for [u64; 1] {
    fn mk(a: u64, _b: u64) -> Self {
        [a]
    }
}

fn mk_keys<T: MkKey>(n: usize, seed: u64) -> Vec<T> {
    (0..n as u64).map(|i| T::mk(seed, i)).collect()
}

/// keys (sampled), non-keys and raw signatures
fn vf_probe<T: MkKey + Clone, S: MkSig>(keys: &Vec<T>) -> (Vec<T>, Vec<S>) {
    let n = keys.len();
    let mut ks: Vec<T> = vec![];
    for i in positions(n, 11) {
        if i < n {
            ks.push(keys[i].clone());
        }
    }
    let mut r = Rng(n as u64 ^ 0xABCDEF);
    for j in 0..40u64 {
        ks.push(T::mk(r.next_u64() >> 24, (1u64 << 40) + j));
    }
    let sigs = (0..40).map(|_| S::mk(r.word(), r.word())).collect();
    (ks, sigs)
}

fn q_vfunc<T, W, D, S, E>(x: &VFunc<T, W, D, S, E>, keys: &Vec<T>, a: &mut A)
where
    T: ToSig<S> + MkKey + Clone,
    W: epserde::traits::ZeroCopy + Word + std::fmt::Debug,
    D: BitFieldSlice<W>,
    S: Sig + MkSig + Copy,
    E: ShardEdge<S, 3> + std::fmt::Debug,
{
    q(a, "len", || x.len());
    q(a, "is_empty", || x.is_empty());
    let (ks, sigs) = vf_probe::<T, S>(keys);
    for k in &ks {
        q(a, "get", || x.get(k));
    }
    for s in &sigs {
        q(a, "get_by_sig", || x.get_by_sig(*s));
    }
    q(a, "parts", || {
        let (e, seed, n, d) = x.verif_parts();
        (format!("{:?}", e), seed, n, BitFieldSliceCore::<W>::len(d), BitFieldSliceCore::<W>::bit_width(d))
    });
}

fn q_vfilter<T, W, D, S, E>(x: &VFilter<W, VFunc<T, W, D, S, E>>, keys: &Vec<T>, a: &mut A)
where
    T: ToSig<S> + MkKey + Clone,
    W: epserde::traits::ZeroCopy + Word + std::fmt::Debug,
    D: BitFieldSlice<W>,
    S: Sig + MkSig + Copy,
    E: ShardEdge<S, 3> + std::fmt::Debug,
    u64: common_traits::CastableInto<W>,
{
    q(a, "len", || x.len());
    q(a, "is_empty", || x.is_empty());
    q(a, "hash_bits", || x.hash_bits());
    let (ks, sigs) = vf_probe::<T, S>(keys);
    for k in &ks {
        q(a, "contains", || x.contains(k));
        q(a, "get", || x.get(k));
    }
    for s in &sigs {
        q(a, "contains_by_sig", || x.contains_by_sig(*s));
        q(a, "get_by_sig", || x.get_by_sig(*s));
    }
    q(a, "parts", || {
        let (f, m, h) = x.verif_parts();
        let (e, seed, n, d) = f.verif_parts();
        (format!("{:?}", e), seed, n, BitFieldSliceCore::<W>::len(d), m, h)
    });
}

type S2 = [u64; 2];
type S1 = [u64; 1];

/// layer name and (field name, size in bytes) of the shard/edge structs, in declaration order; the
/// fields are private and have no accessor: the values are read off the `Debug` rendering
trait SeFlds: std::fmt::Debug {
    const NAME: &'static str;
    const FIELDS: &'static [(&'static str, usize)];
    fn se_flds(&self) -> (String, String) {
        let d = format!("{:?}", self);
        let mut v = vec![];
        for (name, size) in Self::FIELDS {
            let pat = format!(" {}: ", name);
            let i = d.find(&pat).expect("field in Debug rendering") + pat.len();
            let n: String = d[i..].chars().take_while(|c| c.is_ascii_digit()).collect();
            v.push(format!("u{}:{}", size, n));
        }
        (Self::NAME.into(), v.join(" "))
    }
}
impl SeFlds for FuseLge3Shards {
    const NAME: &'static str = "fuse3s";
    const FIELDS: &'static [(&'static str, usize)] = &[("shard_bits_shift", 4), ("log2_seg_size", 4), ("l", 4)];
}
impl SeFlds for FuseLge3FullSigs {
    const NAME: &'static str = "fuse3f";
    const FIELDS: &'static [(&'static str, usize)] = &[("shard_bits_shift", 4), ("log2_seg_size", 4), ("l", 4)];
}
impl SeFlds for FuseLge3NoShards {
    const NAME: &'static str = "fuse3n";
    const FIELDS: &'static [(&'static str, usize)] = &[("log2_seg_size", 4), ("l", 4)];
}
// the MWHC logics have no Lean model: generic scalar layers
#[cfg(feature = "mwhc")]
impl SeFlds for Mwhc3Shards {
    const NAME: &'static str = "u8+u4";
    const FIELDS: &'static [(&'static str, usize)] = &[("seg_size", 8), ("shard_bits_shift", 4)];
}
#[cfg(feature = "mwhc")]
impl SeFlds for Mwhc3NoShards {
    const NAME: &'static str = "u8";
    const FIELDS: &'static [(&'static str, usize)] = &[("seg_size", 8)];
}

/// the backend of a function: `Box<[W]>` or `BitFieldVec<W>`
trait DataFlds {
    fn dflds(&self) -> (String, String);
}
impl<W: Word + std::fmt::Display> DataFlds for Box<[W]> {
    fn dflds(&self) -> (String, String) {
        let wb = std::mem::size_of::<W>();
        (format!("s{}", wb), format!("s{}:{}", wb, fmt_list(self.iter())))
    }
}
impl<W: Word + std::fmt::Display, B: AsRef<[W]>> DataFlds for BitFieldVec<W, B> {
    fn dflds(&self) -> (String, String) {
        (format!("bfv{}", std::mem::size_of::<W>()), bfv_fields(self))
    }
}

/// VFunc { shard_edge, seed, num_keys, data, PhantomData × 3 }
fn vfunc_fields<T, W, D, S, E>(x: &VFunc<T, W, D, S, E>) -> (String, String)
where
    T: ToSig<S>,
    W: epserde::traits::ZeroCopy + Word,
    D: BitFieldSlice<W> + DataFlds,
    S: Sig,
    E: ShardEdge<S, 3> + SeFlds,
{
    let (e, seed, n, d) = x.verif_parts();
    let (en, ef) = e.se_flds();
    let (dn, df) = d.dflds();
    (format!("{}+vfh+{}", en, dn), format!("{} u8:{} u8:{} {}", ef, seed, n, df))
}

/// VFilter { func, filter_mask: W, hash_bits: u32 }
fn vfilter_fields<T, W, D, S, E>(x: &VFilter<W, VFunc<T, W, D, S, E>>) -> (String, String)
where
    T: ToSig<S>,
    W: epserde::traits::ZeroCopy + Word + std::fmt::Display,
    D: BitFieldSlice<W> + DataFlds,
    S: Sig,
    E: ShardEdge<S, 3> + SeFlds,
{
    let (f, m, h) = x.verif_parts();
    let (fnm, ff) = vfunc_fields(f);
    let wb = std::mem::size_of::<W>();
    (format!("{}+u{}+u4", fnm, wb), format!("{} u{}:{} u4:{}", ff, wb, m, h))
}

/// sharding target of the builder: the default, except for the sharded MWHC logic, which with the
/// default ε shards only beyond ten million keys
fn eps_of(name: &str) -> f64 {
    if name.starts_with("mwhc3s") {
        0.05
    } else {
        0.001
    }
}

macro_rules! build_filter {
    ($b:ident, $l:ident, (boxed)) => {
        $b.try_build_filter($l, no_logging![]).expect("try_build_filter")
    };
    ($b:ident, $l:ident, (bfv $bits:literal)) => {
        $b.try_build_filter($l, $bits, no_logging![]).expect("try_build_filter")
    };
}

macro_rules! vfuncs {
    ($bf:ident, $bl:ident; $($name:literal, $t:ty, $w:ty, $d:ty, $s:ty, $e:ty, $fb:tt);*) => {
        $(
            subject!(VFunc<$t, $w, $d, $s, $e>, Vec<$t>, |x, k, a| { q_vfunc(x, k, &mut a) },
                |s| Some(vfunc_fields(s)), std::mem::size_of::<$w>() > 1);
            subject!(VFilter<$w, VFunc<$t, $w, $d, $s, $e>>, Vec<$t>, |x, k, a| { q_vfilter(x, k, &mut a) },
                |s| Some(vfilter_fields(s)), std::mem::size_of::<$w>() > 1);
        )*
        /// static function `name` over the key set (n, seed) with values below `vmax`
        fn $bf(name: &str, n: usize, seed: u64, vmax: u64) -> Option<Box<dyn Subject>> {
            match name {
                $(
                    $name => {
                        let keys: Vec<$t> = mk_keys(n, seed);
                        let vals: Vec<$w> = (0..n as u64)
                            .map(|i| (i.wrapping_mul(0x2545F4914F6CDD1D).rotate_left(17) % vmax.max(1)) as $w)
                            .collect();
                        let f = VBuilder::<$w, $d, $s, $e>::default()
                            .expected_num_keys(n)
                            .eps(eps_of($name))
                            .try_build_func(
                                FromIntoIterator::from(keys.clone()),
                                FromIntoIterator::from(vals),
                                no_logging![],
                            )
                            .expect("try_build_func");
                        boxed(f, keys)
                    }
                )*
                _ => None,
            }
        }
        /// static filter `name` over the key set (n, seed)
        fn $bl(name: &str, n: usize, seed: u64) -> Option<Box<dyn Subject>> {
            match name {
                $(
                    $name => {
                        let keys: Vec<$t> = mk_keys(n, seed);
                        let b = VBuilder::<$w, $d, $s, $e>::default().expected_num_keys(n).eps(eps_of($name));
                        let lender = FromIntoIterator::from(keys.clone());
                        let f = build_filter!(b, lender, $fb);
                        boxed(f, keys)
                    }
                )*
                _ => None,
            }
        }
    };
}
vfuncs!(build_vfunc, build_vfilter;
    "lge3s_z_box", usize, usize, Box<[usize]>, S2, FuseLge3Shards, (boxed);
    "lge3s_z_bfv", usize, usize, BitFieldVec<usize>, S2, FuseLge3Shards, (bfv 10);
    "lge3n2_z_box", usize, usize, Box<[usize]>, S2, FuseLge3NoShards, (boxed);
    "lge3n2_z_bfv", usize, usize, BitFieldVec<usize>, S2, FuseLge3NoShards, (bfv 64);
    "lge3n1_z_box", usize, usize, Box<[usize]>, S1, FuseLge3NoShards, (boxed);
    "lge3n1_z_bfv", usize, usize, BitFieldVec<usize>, S1, FuseLge3NoShards, (bfv 1);
    "lge3f_z_box", usize, usize, Box<[usize]>, S2, FuseLge3FullSigs, (boxed);
    "lge3f_z_bfv", usize, usize, BitFieldVec<usize>, S2, FuseLge3FullSigs, (bfv 23);
    "lge3s_b_box", usize, u8, Box<[u8]>, S2, FuseLge3Shards, (boxed);
    "lge3n1_b_box", u64, u8, Box<[u8]>, S1, FuseLge3NoShards, (boxed);
    "lge3s_h_bfv", u64, u16, BitFieldVec<u16>, S2, FuseLge3Shards, (bfv 9);
    "lge3n2_w_box", usize, u32, Box<[u32]>, S2, FuseLge3NoShards, (boxed);
    "lge3s_str_z_box", String, usize, Box<[usize]>, S2, FuseLge3Shards, (boxed);
    "lge3s_str_z_bfv", String, usize, BitFieldVec<usize>, S2, FuseLge3Shards, (bfv 12);
    "lge3n1_str_b_box", String, u8, Box<[u8]>, S1, FuseLge3NoShards, (boxed)
);

#[cfg(feature = "mwhc")]
vfuncs!(build_vfunc_mwhc, build_vfilter_mwhc;
    "mwhc3s_z_box", usize, usize, Box<[usize]>, S2, Mwhc3Shards, (boxed);
    "mwhc3s_z_bfv", usize, usize, BitFieldVec<usize>, S2, Mwhc3Shards, (bfv 10);
    "mwhc3n_z_box", usize, usize, Box<[usize]>, S2, Mwhc3NoShards, (boxed);
    "mwhc3n_z_bfv", usize, usize, BitFieldVec<usize>, S2, Mwhc3NoShards, (bfv 10)
);
#[cfg(not(feature = "mwhc"))]
fn build_vfunc_mwhc(_: &str, _: usize, _: u64, _: u64) -> Option<Box<dyn Subject>> {
    None
}
#[cfg(not(feature = "mwhc"))]
fn build_vfilter_mwhc(_: &str, _: usize, _: u64) -> Option<Box<dyn Subject>> {
    None
}

const VF_NAMES: &[&str] = &[
    "lge3s_z_box", "lge3s_z_bfv", "lge3n2_z_box", "lge3n2_z_bfv", "lge3n1_z_box", "lge3n1_z_bfv",
    "lge3f_z_box", "lge3f_z_bfv", "lge3s_b_box", "lge3n1_b_box", "lge3s_h_bfv", "lge3n2_w_box",
    "lge3s_str_z_box", "lge3s_str_z_bfv", "lge3n1_str_b_box",
];
#[cfg(feature = "mwhc")]
const VF_NAMES_MWHC: &[&str] = &["mwhc3s_z_box", "mwhc3s_z_bfv", "mwhc3n_z_box", "mwhc3n_z_bfv"];
#[cfg(not(feature = "mwhc"))]
const VF_NAMES_MWHC: &[&str] = &[];

fn parse_list<T: std::str::FromStr>(s: &str) -> Vec<T>
where
    T::Err: std::fmt::Debug,
{
    s[1..s.len() - 1]
        .split(',')
        .filter(|x| !x.is_empty())
        .map(|x| x.parse().unwrap())
        .collect()
}

/// builds the instance described by the tokens of an `inst` line
fn build_inst(t: &[&str]) -> Option<Box<dyn Subject>> {
    let num = |i: usize| -> usize { t[i].parse::<usize>().unwrap() };
    match t[1] {
        "rs" => {
            // inst rs <sid> <p1> <p2> <len> <[words]>
            let words: Vec<usize> = parse_list(t[6]);
            let len = num(5);
            assert!(len <= words.len() * 64);
            let bits = unsafe { BV::from_raw_parts(words, len) };
            build_rs(t[2], num(3), num(4), bits)
        }
        "bfv" => {
            // inst bfv <W bytes> <vec|box> <width> <len> <[words]>
            macro_rules! mk {
                ($w:ty) => {{
                    let words: Vec<$w> = parse_list(t[6]);
                    let (width, len) = (num(4), num(5));
                    assert!(width <= <$w>::BITS as usize);
                    assert!(len * width <= words.len() * <$w>::BITS as usize);
                    let v = unsafe { BitFieldVec::<$w, Vec<$w>>::from_raw_parts(words, width, len) };
                    if t[3] == "box" {
                        boxed(BitFieldVec::<$w, Box<[$w]>>::from(v), ())
                    } else {
                        boxed(v, ())
                    }
                }};
            }
            match t[2] {
                "1" => mk!(u8),
                "2" => mk!(u16),
                "4" => mk!(u32),
                "8" => mk!(u64),
                "z" => mk!(usize),
                _ => None,
            }
        }
        "ef" => {
            // inst ef <plain|seq|dict|seqdict> <u> <[values]>
            let vals: Vec<usize> = parse_list(t[4]);
            build_ef(t[2], num(3), &vals)
        }
        "rcl" => {
            // inst rcl <k> <hex,hex,…>   (`-` = empty string, `.` = no strings)
            let strs: Vec<String> = if t[3] == "." {
                vec![]
            } else {
                t[3].split(',').map(|h| String::from_utf8(unhex(h)).unwrap()).collect()
            };
            build_rcl(num(2), &strs)
        }
        "vfunc" => {
            // inst vfunc <variant> <n> <keyseed> <vmax>
            let (n, seed, vmax) = (num(3), num(4) as u64, t[5].parse::<u64>().unwrap());
            build_vfunc(t[2], n, seed, vmax).or_else(|| build_vfunc_mwhc(t[2], n, seed, vmax))
        }
        "vfilter" => {
            // inst vfilter <variant> <n> <keyseed>
            let (n, seed) = (num(3), num(4) as u64);
            build_vfilter(t[2], n, seed).or_else(|| build_vfilter_mwhc(t[2], n, seed))
        }
        _ => None,
    }
}

// ------------------------------------------------------------------------------------ execution

struct S {
    st: Option<Box<dyn Subject>>,
    /// answers of the original: full battery / battery of the ε-copy type
    orig: A,
    orig_eps: A,
    bytes: Vec<u8>,
    path: PathBuf,
}

fn tmp_dir(ctx: &Ctx) -> PathBuf {
    let d = Path::new(env!("CARGO_MANIFEST_DIR"))
        .join("target")
        .join("tmp")
        .join(format!("serde-{}-{}", std::process::id(), ctx.seed));
    std::fs::create_dir_all(&d).unwrap();
    d
}

fn is_eps(loader: &str) -> bool {
    matches!(loader, "eps" | "mmap" | "load_mem" | "load_mmap" | "eps_mis" | "eps_trunc")
}

const LOADERS: &[&str] = &["full", "eps", "load_full", "mmap", "load_mem", "load_mmap"];

fn exec(ctx: &mut Ctx, s: &mut S, op: &str) {
    ctx.op(op);
    let t: Vec<&str> = op.split(' ').collect();
    match t[0] {
        "inst" => {
            s.st = None;
            s.orig.clear();
            s.bytes.clear();
            match catch(|| build_inst(&t)) {
                Some(Some(st)) => {
                    s.st = Some(st);
                    ctx.reply("ok");
                }
                Some(None) => panic!("unknown instance {}", op),
                None => {
                    ctx.check_oracle("ok", "panic");
                    ctx.reply("panic");
                }
            }
            if let Some(st) = &s.st {
                // the original's answers and its serialized form (computed between the ops: an
                // abort here leaves the `inst` line as the last line of ops.txt)
                s.orig = st.orig();
                s.orig_eps = st.orig_eps();
                s.bytes = st.ser().expect("serialize failed");
            }
        }
        "store" => {
            let st = s.st.as_ref().expect("no instance");
            let r = match catch(|| st.store(&s.path)) {
                Some(Ok(())) => {
                    let f = std::fs::read(&s.path).unwrap();
                    format!("ok {:016x} {}", fnv1a(&f), f.len())
                }
                Some(Err(e)) => format!("err {}", e),
                None => "panic".into(),
            };
            let exp = format!("ok {:016x} {}", fnv1a(&s.bytes), s.bytes.len());
            ctx.check_oracle(&exp, &r);
            ctx.reply(&r);
        }
        "payload" => {
            let st = s.st.as_ref().expect("no instance");
            let h = header_len(&s.bytes);
            let r = format!("ok {}", hex(&s.bytes[h..]));
            // oracle: the line itself must describe this instance
            let (name, f) = st.fields().expect("no field export");
            let exp = format!("payload {} {} {}", name, h, f);
            ctx.check_oracle(&exp, op);
            ctx.reply(&r);
        }
        "load" => {
            let st = s.st.as_ref().expect("no instance");
            let loader = t[1];
            let h = header_len(&s.bytes);
            let cut;
            let bytes: &[u8] = match loader {
                "full_trunc" | "eps_trunc" => {
                    // drop 1..8 of the last payload bytes (function of the length only)
                    let k = 1 + s.bytes.len() % 8;
                    cut = s.bytes[..s.bytes.len() - k.min(s.bytes.len() - h)].to_vec();
                    &cut
                }
                // self-test of the check (never set by ./check): SERDE_MUTATE=1 flips one payload
                // bit before the `full` load, which must then show up as mismatches
                // (bit-field vectors only, in the data words: other corruptions may abort the process)
                "full"
                    if std::env::var("SERDE_MUTATE").is_ok()
                        && st.type_name().contains("BitFieldVec")
                        && s.bytes.len() > h + 56 =>
                {
                    let mut c = s.bytes.clone();
                    c[h + 16] ^= 1;
                    cut = c;
                    &cut
                }
                _ => &s.bytes,
            };
            let res = if loader == "full_wrongtype" {
                // load as a type different from the serialized one
                let wrong = if st.type_name().contains("RearCodedList") { "bv" } else { "rcl" };
                catch(|| match wrong {
                    "bv" => BV::deserialize_full(&mut Cursor::new(bytes)).map(|_| vec![]).map_err(es),
                    _ => <RearCodedList>::deserialize_full(&mut Cursor::new(bytes))
                        .map(|_| vec![])
                        .map_err(es),
                })
            } else {
                catch(|| st.load(loader, bytes, &s.path))
            };
            let o = if is_eps(loader) { &s.orig_eps } else { &s.orig };
            let want = digest(o);
            let (r, detail) = match res {
                Some(Ok(a)) => {
                    let d = digest(&a);
                    let det = if d != want { first_diff(o, &a) } else { String::new() };
                    (format!("ok {}", d), det)
                }
                Some(Err(e)) => ("rejected".to_string(), format!("err {}", e)),
                None => ("rejected".to_string(), "panic".to_string()),
            };
            ctx.stat(&format!("load:{}:{}", loader, if r.starts_with("ok") { "ok" } else { "rejected" }));
            // expected reply, predicted from the original instance
            let exp = match loader {
                "full_trunc" | "eps_trunc" | "full_wrongtype" => "rejected".to_string(),
                "eps_mis" if st.needs_align() => "rejected".to_string(),
                _ => format!("ok {}", want),
            };
            if r != exp {
                ctx.check_oracle(&exp, &format!("{} [{}] {}", r, st.type_name(), detail));
            } else if loader == "eps_mis" && r == "rejected" && !detail.contains("Alignment") {
                ctx.check_oracle("rejected (alignment error)", &format!("rejected ({})", detail));
            }
            // the op line carries the prediction (the Lean side echoes it)
            let line_exp = t[2..].join(" ");
            if line_exp != exp {
                ctx.check_oracle(&format!("load {} {}", loader, exp), op);
            }
            ctx.reply(&r);
        }
        _ => panic!("unknown op {}", op),
    }
}

/// all ops of one instance
fn run_instance(ctx: &mut Ctx, s: &mut S, inst: &str, shape: String) {
    ctx.case();
    exec(ctx, s, inst);
    let st = match &s.st {
        Some(st) => st,
        None => return,
    };
    let want = digest(&s.orig);
    let want_eps = digest(&s.orig_eps);
    if want != want_eps {
        ctx.stat("eps-battery-restricted");
    }
    let fields = st.fields();
    let align = st.needs_align();
    ctx.stat(&format!("type:{}", st.type_name()));
    if let Some(n) = st.note() {
        ctx.stat(&format!("note:{}", n));
    }
    ctx.shape(shape);
    exec(ctx, s, &format!("store {:016x} {}", fnv1a(&s.bytes), s.bytes.len()));
    if let Some((name, f)) = fields {
        if s.bytes.len() <= 40_000 {
            let h = header_len(&s.bytes);
            exec(ctx, s, &format!("payload {} {} {}", name, h, f));
        } else {
            ctx.stat("payload:skipped-large");
        }
    }
    for l in LOADERS {
        exec(ctx, s, &format!("load {} ok {}", l, if is_eps(l) { &want_eps } else { &want }));
    }
    // out-of-domain loads (about one op in eight)
    match ctx.rng.below(5) {
        0 => {
            let e = if align { "rejected".to_string() } else { format!("ok {}", want_eps) };
            exec(ctx, s, &format!("load eps_mis {}", e));
        }
        1 => exec(ctx, s, "load full_trunc rejected"),
        2 => exec(ctx, s, "load eps_trunc rejected"),
        3 => exec(ctx, s, "load full_wrongtype rejected"),
        _ => {}
    }
    let _ = std::fs::remove_file(&s.path);
}

// ------------------------------------------------------------------------------------ generators

/// bit vectors as (len, words); words may carry garbage beyond len
fn gen_bits(ctx: &mut Ctx, max_len: usize) -> (usize, Vec<usize>, String) {
    const LENS: &[usize] = &[
        0, 1, 2, 63, 64, 65, 127, 128, 129, 511, 512, 513, 1023, 1024, 1025, 2047, 2048, 2049,
        4095, 4096, 4097, 8191, 8192, 8193, 16384, 32768 + 7, 65536, 65537,
    ];
    let len = if ctx.rng.chance(2, 3) {
        *ctx.rng.pick(LENS)
    } else {
        ctx.rng.usize_below(max_len)
    }
    .min(max_len);
    let nw = len.div_ceil(64);
    let mut ws: Vec<usize> = vec![0; nw];
    let name;
    match ctx.rng.below(8) {
        0 => name = "zeros",
        1 => {
            ws.iter_mut().for_each(|w| *w = usize::MAX);
            name = "ones";
        }
        2 => {
            ws.iter_mut().for_each(|w| *w = ctx.rng.next_u64() as usize);
            name = "half";
        }
        3 => {
            let k = len / 1000 + 1;
            for _ in 0..k {
                if len > 0 {
                    let p = ctx.rng.usize_below(len);
                    ws[p / 64] |= 1 << (p % 64);
                }
            }
            name = "sparse1000";
        }
        4 => {
            ws.iter_mut().for_each(|w| *w = usize::MAX);
            let k = len / 1000 + 1;
            for _ in 0..k {
                if len > 0 {
                    let p = ctx.rng.usize_below(len);
                    ws[p / 64] &= !(1 << (p % 64));
                }
            }
            name = "dense1000";
        }
        5 => {
            let mut p = 0;
            let mut v = ctx.rng.bool();
            while p < len {
                let run = 1 + ctx.rng.usize_below(200);
                if v {
                    for q in p..(p + run).min(len) {
                        ws[q / 64] |= 1 << (q % 64);
                    }
                }
                p += run;
                v = !v;
            }
            name = "runs";
        }
        6 => {
            let flip = ctx.rng.bool();
            for (i, w) in ws.iter_mut().enumerate() {
                *w = if (i < nw / 2) != flip {
                    ctx.rng.next_u64() as usize | ctx.rng.next_u64() as usize
                } else if ctx.rng.chance(1, 20) {
                    1usize << ctx.rng.below(64)
                } else {
                    0
                };
            }
            name = "two-density";
        }
        _ => {
            ws.iter_mut().for_each(|w| *w = ctx.rng.word() as usize);
            name = "words";
        }
    }
    let tail = ctx.rng.below(4);
    let mut tname = "clean";
    if len % 64 != 0 {
        let m = (1usize << (len % 64)) - 1;
        let last = nw - 1;
        match tail {
            0 | 1 => ws[last] &= m,
            2 => {
                ws[last] = (ws[last] & m) | !m;
                tname = "stale-ones";
            }
            _ => {
                ws[last] = (ws[last] & m) | (ctx.rng.next_u64() as usize & !m);
                tname = "stale-random";
            }
        }
    }
    if tail == 3 || (tail == 2 && len % 64 == 0) {
        for _ in 0..1 + ctx.rng.usize_below(3) {
            ws.push(ctx.rng.word() as usize);
        }
        if tname == "clean" {
            tname = "extra-words";
        }
    }
    (len, ws, format!("{}:{}", name, tname))
}

fn len_class(len: usize) -> &'static str {
    match len {
        0 => "0",
        1 => "1",
        _ if len % 512 == 0 => "k512",
        _ if len % 64 == 0 => "k64",
        _ => "ragged",
    }
}

/// `inst bfv …` line: width/len/contents from the seed, dirty tail and spare words allowed
fn gen_bfv(ctx: &mut Ctx, wbytes: &str, max_len: usize) -> (String, String) {
    let wbits: usize = match wbytes {
        "1" => 8,
        "2" => 16,
        "4" => 32,
        _ => 64,
    };
    let width = match ctx.rng.below(6) {
        0 => 0,
        1 => wbits,
        2 => 1,
        3 => wbits - 1,
        _ => ctx.rng.usize_below(wbits + 1),
    };
    let len = match ctx.rng.below(6) {
        0 => 0,
        1 => 1,
        2 => *ctx.rng.pick(&[2usize, 63, 64, 65, 127, 128, 129, 1000]),
        _ => ctx.rng.usize_below(max_len),
    };
    // new(): one word is always allocated for width 0; new_unaligned adds a padding word
    let mut nw = (len * width).div_ceil(wbits);
    let extra = match ctx.rng.below(4) {
        0 => 0,
        1 => 1,
        2 => 2,
        _ => 0,
    };
    nw += extra;
    // width 0 reads word 0 (the crate's constructors always allocate it): a raw instance
    // without it would not be a valid BitFieldVec
    if nw == 0 && (len > 0 || ctx.rng.bool()) {
        nw = 1;
    }
    let clean = ctx.rng.chance(1, 2);
    let mut words: Vec<u64> = (0..nw)
        .map(|_| ctx.rng.word() & if wbits == 64 { u64::MAX } else { (1u64 << wbits) - 1 })
        .collect();
    if clean {
        // clear everything at or beyond len*width
        let used = len * width;
        for (i, w) in words.iter_mut().enumerate() {
            let lo = i * wbits;
            if lo >= used {
                *w = 0;
            } else if lo + wbits > used {
                *w &= (1u64 << (used - lo)) - 1;
            }
        }
    }
    let backend = if ctx.rng.bool() { "vec" } else { "box" };
    (
        format!("inst bfv {} {} {} {} {}", wbytes, backend, width, len, fmt_list(words.iter())),
        format!(
            "bfv{}:{}:w{}:{}:{}:x{}",
            wbytes,
            backend,
            if width == 0 { "0".to_string() } else if width == wbits { "full".to_string() } else { (width * 4 / wbits).to_string() },
            len_class(len),
            if clean { "clean" } else { "dirty" },
            extra
        ),
    )
}

/// `inst ef …`: sorted values below/at `u`, with duplicates, runs and gaps
fn gen_ef(ctx: &mut Ctx, form: &str, max_n: usize) -> (String, String) {
    let n = match ctx.rng.below(6) {
        0 => 0,
        1 => 1,
        2 => *ctx.rng.pick(&[2usize, 63, 64, 65, 4095, 4096, 4097]),
        _ => ctx.rng.usize_below(max_n),
    }
    .min(max_n.max(4097));
    let kind = ctx.rng.below(5);
    let mut vals: Vec<usize> = Vec::with_capacity(n);
    let mut cur: usize = if ctx.rng.bool() { 0 } else { ctx.rng.usize_below(1000) };
    for _ in 0..n {
        vals.push(cur);
        cur += match kind {
            0 => 0,                                 // all equal
            1 => 1,                                 // dense
            2 => ctx.rng.usize_below(3),            // small gaps with duplicates
            3 => ctx.rng.usize_below(1 << 20),      // sparse
            _ => {
                if ctx.rng.chance(1, 50) { ctx.rng.usize_below(1 << 40) } else { ctx.rng.usize_below(4) }
            }
        };
    }
    let last = vals.last().copied().unwrap_or(0);
    let u = match ctx.rng.below(4) {
        0 => last,
        1 => last + 1,
        2 => last + ctx.rng.usize_below(1000),
        _ => last.saturating_mul(2) + 7,
    };
    (
        format!("inst ef {} {} {}", form, u, fmt_list(vals.iter())),
        format!("ef:{}:{}:k{}:u{}", form, len_class(n), kind, if u == last { "=" } else { ">" }),
    )
}

/// `inst rcl …`: UTF-8 strings without NUL, sorted (mostly) or not, shared prefixes, empty strings
fn gen_rcl(ctx: &mut Ctx, max_n: usize) -> (String, String) {
    let k = *ctx.rng.pick(&[1usize, 2, 3, 4, 8, 16, 100]);
    let n = match ctx.rng.below(6) {
        0 => 0,
        1 => 1,
        2 => k,
        3 => k + 1,
        _ => ctx.rng.usize_below(max_n),
    };
    let alpha: &[&str] = &["a", "b", "c", "ab", "z", "é", "漢", "\u{1F600}", "~", "0", "\u{7f}", "\u{1}"];
    let mut strs: Vec<String> = (0..n)
        .map(|_| {
            let l = match ctx.rng.below(8) {
                0 => 0,
                1 => 1,
                2 => 130 + ctx.rng.usize_below(200), // prefix lengths needing 2-byte varints
                _ => ctx.rng.usize_below(12),
            };
            let small = ctx.rng.bool();
            (0..l)
                .map(|_| if small { alpha[ctx.rng.usize_below(3)] } else { *ctx.rng.pick(alpha) })
                .collect::<String>()
        })
        .collect();
    if ctx.rng.chance(1, 4) {
        // long runs of one byte after a distinct first byte (word-at-a-time comparisons, data
        // that is not word-aligned after an ε-copy / mmap load)
        for s in strs.iter_mut() {
            if ctx.rng.chance(2, 3) {
                let head = *ctx.rng.pick(&["a", "b", "c"]);
                let body = *ctx.rng.pick(&["a", "b"]);
                *s = format!("{}{}", head, body.repeat(9 + ctx.rng.usize_below(60)));
            }
        }
    }
    let sorted = ctx.rng.chance(3, 4);
    if sorted {
        strs.sort();
        if ctx.rng.bool() {
            strs.dedup();
        }
    }
    let body = if strs.is_empty() {
        ".".to_string()
    } else {
        strs.iter().map(|x| hex(x.as_bytes())).collect::<Vec<_>>().join(",")
    };
    (
        format!("inst rcl {} {}", k, body),
        format!("rcl:k{}:{}:{}", k, len_class(strs.len()), if sorted { "sorted" } else { "unsorted" }),
    )
}

pub fn run(ctx: &mut Ctx) {
    let thorough = ctx.tier == Tier::Thorough;
    let dir = tmp_dir(ctx);
    let mut s = S {
        st: None,
        orig: vec![],
        orig_eps: vec![],
        bytes: vec![],
        path: dir.join("x.bin"),
    };
    let cfgs = rs_configs();
    // ---- directed core: every rank/select configuration on fixed shapes (empty, singleton,
    // dirty tails, extra words, block boundaries)
    let directed: Vec<(usize, Vec<usize>)> = vec![
        (0, vec![]),
        (0, vec![usize::MAX]),
        (1, vec![0]),
        (1, vec![1]),
        (3, vec![0b11111]),
        (64, vec![usize::MAX]),
        (65, vec![usize::MAX, usize::MAX]),
        (70, vec![0, usize::MAX, 12345]),
        (513, vec![usize::MAX; 9]),
        (64 * 5 - 7, {
            let mut w = vec![0usize; 5];
            w[0] = 1;
            w[4] = 1 << 20;
            w
        }),
        (64 * 33, (0..33).map(|i| 0x9E3779B97F4A7C15usize.wrapping_mul(i + 1)).collect()),
    ];
    for (len, ws) in &directed {
        for (sid, p1, p2) in &cfgs {
            let inst = format!("inst rs {} {} {} {} {}", sid, p1, p2, len, fmt_list(ws.iter()));
            run_instance(ctx, &mut s, &inst, format!("directed:{}:{}:{}:{}", len, sid, p1, p2));
        }
    }
    for wb in ["1", "2", "4", "8", "z"] {
        for inst in [
            format!("inst bfv {} vec 0 0 []", wb),
            format!("inst bfv {} box 0 10 [0]", wb),
            format!("inst bfv {} vec 3 1 [5]", wb),
            format!("inst bfv {} box 7 9 [255,255,255,255,255,255,255,255,255]", wb),
            format!("inst bfv {} vec 8 3 [1,2,3,4,5,6,7,8]", wb),
        ] {
            let sh = format!("directed:{}", inst);
            run_instance(ctx, &mut s, &inst, sh);
        }
    }
    // ---- seeded part
    let rounds = if thorough { 120 } else { 14 };
    let max_len = if thorough { 200_000 } else { 20_000 };
    for _ in 0..rounds {
        let (len, ws, shape) = gen_bits(ctx, max_len);
        ctx.stat(&format!("shape:{}", shape));
        let k = if thorough { 16 } else { 6 };
        for _ in 0..k {
            let (sid, p1, p2) = cfgs[ctx.rng.usize_below(cfgs.len())].clone();
            let inst = format!("inst rs {} {} {} {} {}", sid, p1, p2, len, fmt_list(ws.iter()));
            run_instance(ctx, &mut s, &inst, format!("{}:{}:{}:{}:{}", shape, len_class(len), sid, p1, p2));
        }
    }
    let rounds = if thorough { 400 } else { 50 };
    for _ in 0..rounds {
        let wb = *ctx.rng.pick(&["1", "2", "4", "8", "z"]);
        let (inst, shape) = gen_bfv(ctx, wb, if thorough { 5000 } else { 600 });
        run_instance(ctx, &mut s, &inst, shape);
    }
    // ---- Elias–Fano: directed + seeded, every form
    for form in ["plain", "seq", "dict", "seqdict"] {
        for (u, vals) in [
            (0usize, vec![]),
            (5, vec![]),
            (0, vec![0usize]),
            (usize::MAX >> 1, vec![usize::MAX >> 1]),
            (10, vec![0, 2, 8, 10]),
            (10, vec![3, 3, 3, 3, 3]),
            (1 << 40, vec![0, 1, 1 << 20, (1 << 40) - 1, 1 << 40]),
        ] {
            let inst = format!("inst ef {} {} {}", form, u, fmt_list(vals.iter()));
            let sh = format!("directed:ef:{}:{}:{}", form, u, vals.len());
            run_instance(ctx, &mut s, &inst, sh);
        }
        for _ in 0..if thorough { 60 } else { 8 } {
            let (inst, shape) = gen_ef(ctx, form, if thorough { 20_000 } else { 3000 });
            run_instance(ctx, &mut s, &inst, shape);
        }
    }
    // ---- rear-coded lists
    for inst in [
        "inst rcl 4 .".to_string(),
        "inst rcl 1 -".to_string(),
        "inst rcl 4 6161,616162,616263,61626464,61626465,61626466".to_string(),
        "inst rcl 2 62,61,-,61".to_string(),
        "inst rcl 3 -,-,-,-".to_string(),
    ] {
        let sh = format!("directed:{}", inst);
        run_instance(ctx, &mut s, &inst, sh);
    }
    for _ in 0..if thorough { 300 } else { 40 } {
        let (inst, shape) = gen_rcl(ctx, if thorough { 2000 } else { 300 });
        run_instance(ctx, &mut s, &inst, shape);
    }
    // ---- static functions and filters: every shard/edge logic, both backends
    let mut names: Vec<&str> = VF_NAMES.to_vec();
    names.extend_from_slice(VF_NAMES_MWHC);
    for name in &names {
        // the MWHC logics (non-default feature `mwhc`): for tiny key sets (n = 2 always, n = 4 for
        // some key sets) their builder never terminates — with one or two vertices per segment
        // identical edges are unpeelable under every seed and the retry loop has no bound (a
        // construction matter, C07; reported) — so those sizes are left out for them
        let mwhc = name.starts_with("mwhc");
        let sizes_small: &[usize] = if mwhc { &[0, 1, 50, 1000] } else { &[0, 1, 2, 10, 1000] };
        let mut sizes: Vec<usize> = sizes_small.to_vec();
        sizes.push(100 + ctx.rng.usize_below(if thorough { 30_000 } else { 3000 }));
        for n in sizes {
            let seed = ctx.rng.below(1 << 20);
            let vmax = *ctx.rng.pick(&[1u64, 2, 1000, 1 << 20, u64::MAX]);
            let vmax = if name.contains("_b_") { vmax.min(256) } else if name.contains("_h_") { vmax.min(1 << 16) } else if name.contains("_w_") { vmax.min(1 << 32) } else { vmax };
            let inst = format!("inst vfunc {} {} {} {}", name, n, seed, vmax);
            run_instance(ctx, &mut s, &inst, format!("vfunc:{}:{}:v{}", name, len_class(n), 64 - vmax.leading_zeros()));
            let inst = format!("inst vfilter {} {} {}", name, n, seed);
            run_instance(ctx, &mut s, &inst, format!("vfilter:{}:{}", name, len_class(n)));
        }
    }
    // sharded instances: the fuse logics shard between 100 000 and 800 000 keys (and again beyond
    // twenty million)
    let big = if thorough { 700_000 } else { 250_000 };
    for name in ["lge3s_z_box", "lge3f_z_bfv", "mwhc3s_z_box"] {
        if names.contains(&name) {
            let n = big + ctx.rng.usize_below(1000);
            let inst = format!("inst vfunc {} {} {} {}", name, n, ctx.rng.below(1 << 20), 1 << 20);
            run_instance(ctx, &mut s, &inst, format!("vfunc:{}:sharded", name));
            let inst = format!("inst vfilter {} {} {}", name, n, ctx.rng.below(1 << 20));
            run_instance(ctx, &mut s, &inst, format!("vfilter:{}:sharded", name));
        }
    }
    let _ = std::fs::remove_file(&s.path);
    let _ = std::fs::remove_dir(&dir);
}

pub fn replay(ctx: &mut Ctx, lines: &[String]) {
    let dir = tmp_dir(ctx);
    let mut s = S {
        st: None,
        orig: vec![],
        orig_eps: vec![],
        bytes: vec![],
        path: dir.join("x.bin"),
    };
    for l in lines {
        if l.starts_with("case ") {
            ctx.op(l);
            ctx.reply("case");
            s.st = None;
        } else {
            exec(ctx, &mut s, l);
        }
    }
    let _ = std::fs::remove_file(&s.path);
    let _ = std::fs::remove_dir(&dir);
}
