//! Runner `space` (C11): every structure is built for real, `mem_size(SizeFlags::default())` of
//! the structure and of the vector it wraps is taken, and the *payload* (what the structure adds)
//! is compared with the size formulas of `SuxModel/Space/Formulas.lean`.
//!
//! payload = mem_size(structure) - mem_size(wrapped vector) - header(type), where header(type)
//! is a fixed constant measured once per type on an empty instance (`calib <type>` ops).
//!
//! ops (replies `ok <payload bytes> ...` | `ok` | `panic`):
//!   `calib <type>`                                   header bytes of the type
//!   `bitvec <mode> <a> <b>`                          mode new|push|resize|resizes|cap
//!   `bfv <W> <w> <mode> <a> <b>`                     mode new|unaligned|push|resize|resizes|cap
//!   `rank9 <len> <density>`                          density id 0..4
//!   `ranksmall <k> <len> <density>`
//!   `select9 <len> <ones> <mode>`                    mode 0 = ones spread evenly, 1 = ones first
//!   `ef <n> <u>`                                     reply `ok <bytes> <l>`
//!   `vbuild <kind> <logic> <W> <backend> <n> <b> <start>`   build a function / filter; reply `ok`
//!   `vsize <kind> <logic> <W> <backend> <n> <b> <shards> <s> <l> <maxshard> <V>`
//!        size of the structure built by the preceding `vbuild`, with its real parameters
//!        (segment size 2^s, l+2 segments per shard; `maxshard` recomputed from the keys'
//!        signatures; `V = ceil(c * maxshard)` recomputed by the oracle's own regime table);
//!        reply `ok <bytes> <cells> <hyp>` where hyp = 1 iff the parameters satisfy the
//!        hypotheses of the C11 function theorem.  Logics: shards | noshards1 | noshards2 |
//!        fullsigs, and with the crate feature `mwhc`: mwhcshards | mwhcnoshards, for which the
//!        field <s> is 0, <l> carries `seg_size` and <V> is the unrounded `max(1, ceil(1.23 m / 3))`.
//!
//! Known findings keep a stable tag in the oracle mismatch: `[vfunc-1.135-noshards exceeds bound]`
//! (FuseLge3NoShards between 100 001 and ~700 000 keys) and `[vfunc-1.135-mwhc exceeds bound]`
//! (MWHC logics from 100 000 keys); each lives in a case of its own.
//!
//! Naive oracle: (1) payload == bytes of the arrays actually present (lengths seen through the
//! `verif_*` accessors / public slices), (2) the bound of the property itself, stated with integers.
use crate::common::*;
use dsi_progress_logger::no_logging;
use mem_dbg::{MemSize, SizeFlags};
use std::collections::BTreeMap;
use sux::bits::BitFieldVec;
use sux::func::shard_edge::{FuseLge3FullSigs, FuseLge3NoShards, FuseLge3Shards, ShardEdge};
#[cfg(feature = "mwhc")]
use sux::func::shard_edge::{Mwhc3NoShards, Mwhc3Shards};
use sux::prelude::*;
use sux::utils::{FromIntoIterator, ToSig};

type BV = BitVec<Vec<usize>>;

fn ms<T: MemSize>(x: &T) -> usize {
    x.mem_size(SizeFlags::default())
}

/// what one measurement yields: mem_size of the structure, mem_size of the wrapped vector (0 if
/// none), bytes of the arrays the structure owns (from their observed lengths)
#[derive(Clone, Copy, Debug)]
struct Meas {
    total: usize,
    inner: usize,
    arrays: usize,
}

/// deterministic bits for (len, density id): independent of the run's seed so that replays work
fn make_bits(len: usize, density: usize) -> BV {
    let nw = len.div_ceil(64);
    let mut r = Rng(0xC11 ^ (len as u64).wrapping_mul(0x9E3779B97F4A7C15) ^ density as u64);
    let mut words = vec![0usize; nw];
    for w in words.iter_mut() {
        *w = match density {
            0 => 0,
            1 => usize::MAX,
            2 => r.next_u64() as usize,
            3 => (1u64 << r.below(64)) as usize,
            _ => {
                if r.below(16) == 0 {
                    (1u64 << r.below(64)) as usize
                } else {
                    0
                }
            }
        };
    }
    // dirty tail on purpose for odd densities: bits beyond len must not influence sizes
    if density % 2 == 0 && len % 64 != 0 {
        let last = nw - 1;
        words[last] &= (1usize << (len % 64)) - 1;
    }
    unsafe { BV::from_raw_parts(words, len) }
}

/// a bit vector of length `len` with exactly `ones` ones
fn make_bits_ones(len: usize, ones: usize, mode: usize) -> BV {
    let mut b = BV::new(len);
    if mode == 1 {
        for i in 0..ones {
            b.set(i, true);
        }
    } else {
        for i in 0..ones {
            // strictly increasing because ones <= len
            let p = ((i as u128 * len as u128) / ones as u128) as usize;
            b.set(p, true);
        }
    }
    b
}

fn m_bitvec(mode: &str, a: usize, b: usize) -> Meas {
    let v = match mode {
        "new" => BV::new(a),
        "push" => {
            let mut v = BV::new(a);
            for i in 0..b {
                v.push(i % 3 == 0);
            }
            v
        }
        "resize" => {
            let mut v = BV::new(a);
            v.resize(b, true);
            v
        }
        // grown by many `resize` calls, each by about a third of the current length
        "resizes" => {
            let mut v = BV::new(a);
            let mut cur = a;
            while cur < b {
                cur = Ord::min(b, cur + cur / 3 + 1);
                v.resize(cur, cur % 2 == 0);
            }
            v
        }
        // growth through `Extend` / `FromIterator` from an iterator whose size hint is NOT exact
        // (upper bound four times the real length), and from an exact one
        "extend" => {
            let mut v = BV::new(a);
            v.extend((0..4 * b).filter(|i| i % 4 == 0).map(|i| i % 3 == 0));
            v
        }
        "extendx" => {
            let mut v = BV::new(a);
            v.extend((0..b).map(|i| i % 3 == 0));
            v
        }
        "collect" => (0..4 * (a + b)).filter(|i| i % 4 == 1).map(|i| i % 5 == 0).collect::<BV>(),
        _ => {
            let mut v = BV::with_capacity(a);
            for i in 0..b {
                v.push(i % 2 == 0);
            }
            v
        }
    };
    let words: &[usize] = v.as_ref();
    Meas { total: ms(&v), inner: 0, arrays: words.len() * 8 }
}

macro_rules! m_bfv_impl {
    ($name:ident, $W:ty) => {
        fn $name(w: usize, mode: &str, a: usize, b: usize) -> Meas {
            let v: BitFieldVec<$W> = match mode {
                "new" => BitFieldVec::<$W>::new(w, a),
                "unaligned" => BitFieldVec::<$W>::new_unaligned(w, a),
                "push" => {
                    let mut v = BitFieldVec::<$W>::new(w, a);
                    for _ in 0..b {
                        v.push(0);
                    }
                    v
                }
                "resize" => {
                    let mut v = BitFieldVec::<$W>::new(w, a);
                    v.resize(b, 0);
                    v
                }
                "resizes" => {
                    let mut v = BitFieldVec::<$W>::new(w, a);
                    let mut cur = a;
                    while cur < b {
                        cur = Ord::min(b, cur + cur / 3 + 1);
                        v.resize(cur, 0);
                    }
                    v
                }
                // `Extend` from an iterator whose size hint is not exact
                "extend" => {
                    let mut v = BitFieldVec::<$W>::new(w, a);
                    v.extend((0..4 * b).filter(|i| i % 4 == 0).map(|_| 0 as $W));
                    v
                }
                _ => {
                    let mut v = BitFieldVec::<$W>::with_capacity(w, a);
                    for _ in 0..b {
                        v.push(0);
                    }
                    v
                }
            };
            Meas {
                total: ms(&v),
                inner: 0,
                arrays: v.as_slice().len() * std::mem::size_of::<$W>(),
            }
        }
    };
}
m_bfv_impl!(m_bfv8, u8);
m_bfv_impl!(m_bfv16, u16);
m_bfv_impl!(m_bfv32, u32);
m_bfv_impl!(m_bfv64, u64);
m_bfv_impl!(m_bfv128, u128);

fn m_bfv(wbits: usize, w: usize, mode: &str, a: usize, b: usize) -> Meas {
    match wbits {
        8 => m_bfv8(w, mode, a, b),
        16 => m_bfv16(w, mode, a, b),
        32 => m_bfv32(w, mode, a, b),
        64 => m_bfv64(w, mode, a, b),
        _ => m_bfv128(w, mode, a, b),
    }
}

fn m_rank9(bits: BV) -> Meas {
    let inner = ms(&bits);
    let r = Rank9::new(bits);
    Meas { total: ms(&r), inner, arrays: r.verif_counts().len() * 16 }
}

fn m_ranksmall(k: usize, bits: BV) -> Meas {
    let inner = ms(&bits);
    macro_rules! go {
        ($n:literal, $w:literal) => {{
            let r = RankSmall::<$n, $w, BV>::new(bits);
            let (u, c, _) = r.verif_parts();
            Meas { total: ms(&r), inner, arrays: u.len() * 8 + c.len() * 4 * (1 + $n) }
        }};
    }
    match k {
        0 => go!(2, 9),
        1 => go!(1, 9),
        2 => go!(1, 10),
        3 => go!(1, 11),
        _ => go!(3, 13),
    }
}

/// Select9 wraps a Rank9: payload is what Select9 adds on top of it
fn m_select9(bits: BV) -> Meas {
    let r = Rank9::new(bits);
    let inner = ms(&r);
    let s = Select9::new(r);
    let (i, sub, _, _) = s.verif_parts();
    Meas { total: ms(&s), inner, arrays: (i.len() + sub.len()) * 8 }
}

/// Elias-Fano without selection structures; returns also l
fn m_ef(n: usize, u: usize) -> (Meas, usize) {
    let mut b = EliasFanoBuilder::new(n, u);
    for i in 0..n {
        let v = if n == 1 { u } else { ((i as u128 * u as u128) / (n as u128 - 1)) as usize };
        b.push(v);
    }
    let ef = b.build();
    let (_, _, l, low, high) = ef.verif_parts();
    let hw: &[usize] = high.as_ref();
    (
        Meas { total: ms(&ef), inner: 0, arrays: (low.as_slice().len() + hw.len()) * 8 },
        l,
    )
}

/// result of a function / filter build
#[derive(Clone, Debug)]
struct VInfo {
    meas: Meas,
    cells: usize,
    b: usize,
    shards: usize,
    s: usize,
    l: usize,
    max_shard: usize,
}

/// `name: value` out of a `Debug` rendering
fn dbg_field(d: &str, name: &str) -> usize {
    let key = format!("{}: ", name);
    let p = d.find(&key).unwrap() + key.len();
    d[p..].chars().take_while(|c| c.is_ascii_digit()).collect::<String>().parse().unwrap()
}

/// (s, l) of a fuse logic; (0, seg_size) of an MWHC logic
fn geometry(d: &str) -> (usize, usize) {
    if d.contains("log2_seg_size: ") {
        (dbg_field(d, "log2_seg_size"), dbg_field(d, "l"))
    } else {
        (0, dbg_field(d, "seg_size"))
    }
}

trait Backing {
    fn backing_bytes(&self) -> usize;
}
macro_rules! backing {
    ($($W:ty),*) => {$(
        impl Backing for BitFieldVec<$W> {
            fn backing_bytes(&self) -> usize { self.as_slice().len() * std::mem::size_of::<$W>() }
        }
        impl Backing for Box<[$W]> {
            fn backing_bytes(&self) -> usize { self.len() * std::mem::size_of::<$W>() }
        }
    )*};
}
backing!(u8, u16, u32, u64, usize);

macro_rules! vinfo_of {
    ($f:expr, $S:ty, $W:ty, $start:expr, $n:expr) => {{
        let f = $f;
        let (e, seed, nk, d) = f.verif_parts();
        assert_eq!(nk, $n);
        let shards = <_ as ShardEdge<$S, 3>>::num_shards(e);
        let mut cnt = vec![0usize; shards];
        for k in $start..$start + $n {
            let sig = <usize as ToSig<$S>>::to_sig(&k, seed);
            cnt[<_ as ShardEdge<$S, 3>>::shard(e, sig)] += 1;
        }
        let dbg = format!("{:?}", e);
        let cells = BitFieldSliceCore::<$W>::len(d);
        assert_eq!(cells, <_ as ShardEdge<$S, 3>>::num_vertices(e) * shards);
        (
            cells,
            BitFieldSliceCore::<$W>::bit_width(d),
            shards,
            geometry(&dbg).0,
            geometry(&dbg).1,
            cnt.iter().copied().max().unwrap_or(0),
            ms(d),
            d.backing_bytes(),
        )
    }};
}

macro_rules! build_func {
    ($W:ty, $D:ty, $S:ty, $E:ty, $n:expr, $b:expr, $start:expr) => {{
        let n: usize = $n;
        let start: usize = $start;
        let b: usize = $b;
        let maxv: $W = if b >= <$W>::BITS as usize { <$W>::MAX } else { ((1u128 << b) - 1) as $W };
        let f = VBuilder::<$W, $D, $S, $E>::default()
            .expected_num_keys(n)
            .try_build_func(
                FromIntoIterator::from(start..start + n),
                FromIntoIterator::from(std::iter::repeat(maxv)),
                no_logging![],
            )
            .map_err(|e| format!("{}", e))?;
        let total = ms(&f);
        let (cells, bw, shards, s, l, max_shard, _dms, backing) = vinfo_of!(&f, $S, $W, start, n);
        Ok(VInfo { meas: Meas { total, inner: 0, arrays: backing }, cells, b: bw, shards, s, l, max_shard })
    }};
}

macro_rules! build_filter_box {
    ($W:ty, $S:ty, $E:ty, $n:expr, $start:expr) => {{
        let n: usize = $n;
        let start: usize = $start;
        let f = VBuilder::<$W, Box<[$W]>, $S, $E>::default()
            .expected_num_keys(n)
            .try_build_filter(FromIntoIterator::from(start..start + n), no_logging![])
            .map_err(|e| format!("{}", e))?;
        let total = ms(&f);
        let (func, _, _) = f.verif_parts();
        let (cells, bw, shards, s, l, max_shard, _dms, backing) = vinfo_of!(func, $S, $W, start, n);
        Ok(VInfo { meas: Meas { total, inner: 0, arrays: backing }, cells, b: bw, shards, s, l, max_shard })
    }};
}

macro_rules! build_filter_bfv {
    ($W:ty, $S:ty, $E:ty, $n:expr, $b:expr, $start:expr) => {{
        let n: usize = $n;
        let start: usize = $start;
        let f = VBuilder::<$W, BitFieldVec<$W>, $S, $E>::default()
            .expected_num_keys(n)
            .try_build_filter(FromIntoIterator::from(start..start + n), $b, no_logging![])
            .map_err(|e| format!("{}", e))?;
        let total = ms(&f);
        let (func, _, _) = f.verif_parts();
        let (cells, bw, shards, s, l, max_shard, _dms, backing) = vinfo_of!(func, $S, $W, start, n);
        Ok(VInfo { meas: Meas { total, inner: 0, arrays: backing }, cells, b: bw, shards, s, l, max_shard })
    }};
}

/// every (kind, logic, W, backend) combination the runner knows
const VCOMBOS: &[(&str, &str, usize, &str)] = &[
    ("func", "shards", 64, "bfv"),
    ("func", "noshards2", 64, "bfv"),
    ("func", "noshards1", 64, "bfv"),
    ("func", "fullsigs", 64, "bfv"),
    ("func", "shards", 16, "bfv"),
    ("func", "shards", 64, "box"),
    ("func", "noshards1", 16, "box"),
    ("filter", "shards", 8, "box"),
    ("filter", "noshards1", 8, "box"),
    ("filter", "shards", 16, "box"),
    ("filter", "fullsigs", 32, "box"),
    ("filter", "shards", 64, "box"),
    ("filter", "shards", 64, "bfv"),
    ("filter", "noshards2", 64, "bfv"),
    ("filter", "noshards1", 32, "bfv"),
];

/// the MWHC logics exist only with the crate feature `mwhc`
#[cfg(feature = "mwhc")]
const MWHC_COMBOS: &[(&str, &str, usize, &str)] = &[
    ("func", "mwhcshards", 64, "bfv"),
    ("func", "mwhcnoshards", 64, "bfv"),
    ("filter", "mwhcnoshards", 8, "box"),
];
#[cfg(not(feature = "mwhc"))]
const MWHC_COMBOS: &[(&str, &str, usize, &str)] = &[];

/// VCOMBOS followed by the MWHC combinations (indices into VCOMBOS stay valid)
fn vcombos() -> Vec<(&'static str, &'static str, usize, &'static str)> {
    VCOMBOS.iter().chain(MWHC_COMBOS.iter()).copied().collect()
}

fn is_mwhc(logic: &str) -> bool {
    logic.starts_with("mwhc")
}

fn vbuild(kind: &str, logic: &str, w: usize, backend: &str, n: usize, b: usize, start: usize) -> Result<VInfo, String> {
    match (kind, logic, w, backend) {
        ("func", "shards", 64, "bfv") => build_func!(usize, BitFieldVec<usize>, [u64; 2], FuseLge3Shards, n, b, start),
        ("func", "noshards2", 64, "bfv") => build_func!(usize, BitFieldVec<usize>, [u64; 2], FuseLge3NoShards, n, b, start),
        ("func", "noshards1", 64, "bfv") => build_func!(usize, BitFieldVec<usize>, [u64; 1], FuseLge3NoShards, n, b, start),
        ("func", "fullsigs", 64, "bfv") => build_func!(usize, BitFieldVec<usize>, [u64; 2], FuseLge3FullSigs, n, b, start),
        ("func", "shards", 16, "bfv") => build_func!(u16, BitFieldVec<u16>, [u64; 2], FuseLge3Shards, n, b, start),
        ("func", "shards", 64, "box") => build_func!(usize, Box<[usize]>, [u64; 2], FuseLge3Shards, n, b, start),
        ("func", "noshards1", 16, "box") => build_func!(u16, Box<[u16]>, [u64; 1], FuseLge3NoShards, n, b, start),
        ("filter", "shards", 8, "box") => build_filter_box!(u8, [u64; 2], FuseLge3Shards, n, start),
        ("filter", "noshards1", 8, "box") => build_filter_box!(u8, [u64; 1], FuseLge3NoShards, n, start),
        ("filter", "shards", 16, "box") => build_filter_box!(u16, [u64; 2], FuseLge3Shards, n, start),
        ("filter", "fullsigs", 32, "box") => build_filter_box!(u32, [u64; 2], FuseLge3FullSigs, n, start),
        ("filter", "shards", 64, "box") => build_filter_box!(usize, [u64; 2], FuseLge3Shards, n, start),
        ("filter", "shards", 64, "bfv") => build_filter_bfv!(usize, [u64; 2], FuseLge3Shards, n, b, start),
        ("filter", "noshards2", 64, "bfv") => build_filter_bfv!(usize, [u64; 2], FuseLge3NoShards, n, b, start),
        ("filter", "noshards1", 32, "bfv") => build_filter_bfv!(u32, [u64; 1], FuseLge3NoShards, n, b, start),
        #[cfg(feature = "mwhc")]
        ("func", "mwhcshards", 64, "bfv") => build_func!(usize, BitFieldVec<usize>, [u64; 2], Mwhc3Shards, n, b, start),
        #[cfg(feature = "mwhc")]
        ("func", "mwhcnoshards", 64, "bfv") => build_func!(usize, BitFieldVec<usize>, [u64; 2], Mwhc3NoShards, n, b, start),
        #[cfg(feature = "mwhc")]
        ("filter", "mwhcnoshards", 8, "box") => build_filter_box!(u8, [u64; 2], Mwhc3NoShards, n, start),
        _ => Err("unknown combination".into()),
    }
}

/// the oracle's own copy of the regime table of `set_up_graphs`: (c as f64, c as a rational
/// upper bound num/den)
fn oracle_c(logic: &str, n: usize, max_shard: usize) -> (f64, (u128, u128)) {
    let fuse_c = |m: usize| -> (f64, (u128, u128)) {
        if m <= 5_000_000 {
            (1.125, (1125, 1000))
        } else if m <= 10_000_000 {
            (1.12, (112, 100))
        } else if m <= 20_000_000 {
            (1.11, (111, 100))
        } else {
            (1.105, (1105, 1000))
        }
    };
    if n <= 100 {
        return (1.23, (123, 100));
    }
    match logic {
        "shards" | "fullsigs" => {
            if n <= 800_000 {
                (1.125, (1125, 1000))
            } else {
                fuse_c(max_shard)
            }
        }
        _ => {
            if n <= 100_000 {
                (1.13, (113, 100))
            } else if n <= 800_000 {
                // 0.168 + lnln(300000)/lnln(n+200000) < 1.168 because n > 100000
                (0.168 + (300000_f64).ln().ln() / (n as f64 + 200000.).ln().max(1.).ln(), (1168, 1000))
            } else {
                fuse_c(n)
            }
        }
    }
}

struct St {
    headers: BTreeMap<String, usize>,
    last: Option<(String, VInfo, usize)>, // (type key, info, n)
    reported: std::collections::BTreeSet<(u64, String)>,
}

fn vkey(kind: &str, logic: &str, w: usize, backend: &str) -> String {
    format!("v:{}:{}:{}:{}", kind, logic, w, backend)
}

/// measurement of an empty instance of a type
fn calib_meas(key: &str) -> Option<Meas> {
    Some(match key {
        "bitvec" => m_bitvec("new", 0, 0),
        "bfv8" => m_bfv(8, 1, "new", 0, 0),
        "bfv16" => m_bfv(16, 1, "new", 0, 0),
        "bfv32" => m_bfv(32, 1, "new", 0, 0),
        "bfv64" => m_bfv(64, 1, "new", 0, 0),
        "bfv128" => m_bfv(128, 1, "new", 0, 0),
        "rank9" => m_rank9(BV::new(0)),
        "ranksmall0" => m_ranksmall(0, BV::new(0)),
        "ranksmall1" => m_ranksmall(1, BV::new(0)),
        "ranksmall2" => m_ranksmall(2, BV::new(0)),
        "ranksmall3" => m_ranksmall(3, BV::new(0)),
        "ranksmall4" => m_ranksmall(4, BV::new(0)),
        "select9" => m_select9(BV::new(0)),
        "ef" => m_ef(0, 0).0,
        k if k.starts_with("v:") => {
            let t: Vec<&str> = k.split(':').collect();
            if t.len() != 5 {
                return None;
            }
            let w: usize = t[3].parse().ok()?;
            vbuild(t[1], t[2], w, t[4], 0, 1, 0).ok()?.meas
        }
        _ => return None,
    })
}

fn all_type_keys() -> Vec<String> {
    let mut v: Vec<String> = [
        "bitvec", "bfv8", "bfv16", "bfv32", "bfv64", "bfv128", "rank9", "ranksmall0", "ranksmall1", "ranksmall2",
        "ranksmall3", "ranksmall4", "select9", "ef",
    ]
    .iter()
    .map(|s| s.to_string())
    .collect();
    for (k, l, w, b) in vcombos() {
        v.push(vkey(k, l, w, b));
    }
    v
}

fn rs_params(k: usize) -> (usize, usize) {
    // (number of u32 per block incl. absolute, bits per block)
    match k {
        0 => (3, 512),
        1 => (2, 512),
        2 => (2, 1024),
        3 => (2, 2048),
        _ => (4, 8192),
    }
}

/// payload of a measurement for type `key` (header must have been calibrated)
fn payload(ctx: &mut Ctx, st: &St, key: &str, m: Meas) -> usize {
    let h = *st.headers.get(key).expect("type not calibrated");
    let p = m.total - m.inner - h;
    // oracle (1): what mem_size reports beyond the header is exactly the arrays present
    ctx.check_oracle(&format!("arrays {}", m.arrays), &format!("arrays {}", p));
    p
}

/// the property's own bound; every violation is counted in the statistics, the first one of
/// each (case, class) is recorded as an oracle mismatch (the list in meta.json is capped)
fn bound(ctx: &mut Ctx, st: &mut St, name: &str, ok: bool, detail: String) {
    ctx.stat(&format!("bound:{}", name));
    if !ok {
        ctx.stat(&format!("bound-violated:{}", name));
        if st.reported.insert((ctx.cases, name.to_string())) {
            ctx.check_oracle(&format!("[{}] within bound", name), &format!("[{} exceeds bound] {}", name, detail));
        }
    }
}

fn exec(ctx: &mut Ctx, st: &mut St, op: &str) {
    ctx.op(op);
    let t: Vec<&str> = op.split(' ').collect();
    let num = |i: usize| -> usize { t[i].parse::<usize>().unwrap() };
    let reply: String = match t[0] {
        "calib" => {
            let key = t[1].to_string();
            match catch(|| calib_meas(&key)) {
                Some(Some(m)) => {
                    let h = m.total - m.inner - m.arrays;
                    st.headers.insert(key, h);
                    format!("ok {}", h)
                }
                _ => "panic".into(),
            }
        }
        "bitvec" => {
            let (mode, a, b) = (t[1], num(2), num(3));
            match catch(|| m_bitvec(mode, a, b)) {
                Some(m) => {
                    let p = payload(ctx, st, "bitvec", m);
                    let len = match mode {
                        "new" => a,
                        "push" | "extend" | "extendx" | "collect" => a + b,
                        "resize" | "resizes" => a.max(b),
                        _ => b,
                    };
                    // exact: len bits rounded up to whole words
                    bound(ctx, st, "bitvec", p * 8 >= len && p * 8 < len + 64 && p % 8 == 0, format!("{} bytes for {} bits", p, len));
                    format!("ok {}", p)
                }
                None => "panic".into(),
            }
        }
        "bfv" => {
            let (wb, w, mode, a, b) = (num(1), num(2), t[3], num(4), num(5));
            match catch(|| m_bfv(wb, w, mode, a, b)) {
                Some(m) => {
                    let p = payload(ctx, st, &format!("bfv{}", wb), m);
                    let len = match mode {
                        "new" | "unaligned" => a,
                        "push" | "extend" => a + b,
                        "resize" | "resizes" => a.max(b),
                        _ => b,
                    };
                    let bits = len * w;
                    let pad = if mode == "unaligned" { wb } else { 0 };
                    // len*width bits rounded up to whole words (at least one word), plus the padding word
                    let ok = if mode == "cap" {
                        p * 8 >= bits && p * 8 < bits + wb + if w == 0 { wb } else { 0 }
                    } else {
                        p * 8 >= bits + pad && p * 8 < (bits + pad).max(1) + wb
                    };
                    bound(ctx, st, "bfv", ok, format!("{} bytes for {} bits", p, bits));
                    format!("ok {}", p)
                }
                None => "panic".into(),
            }
        }
        "rank9" => {
            let (len, d) = (num(1), num(2));
            match catch(|| m_rank9(make_bits(len, d))) {
                Some(m) => {
                    let p = payload(ctx, st, "rank9", m);
                    // 25% of the bit vector plus one block and the sentinel (256 bits)
                    bound(ctx, st, "rank9", 4 * p * 8 <= len + 4 * 256, format!("{} bytes for {} bits", p, len));
                    format!("ok {}", p)
                }
                None => "panic".into(),
            }
        }
        "ranksmall" => {
            let (k, len, d) = (num(1), num(2), num(3));
            match catch(|| m_ranksmall(k, make_bits(len, d))) {
                Some(m) => {
                    let p = payload(ctx, st, &format!("ranksmall{}", k), m);
                    let (nu, blk) = rs_params(k);
                    // nominal fraction = 32*nu/blk; one block; upper counts: 64 bits per 2^32 bits
                    let upper = 64 * len.div_ceil(1usize << 32);
                    let ok = (p * 8 - upper.min(p * 8)) as u128 * blk as u128 <= (32 * nu) as u128 * (len as u128 + blk as u128)
                        && upper <= len / (1 << 26) + 64;
                    bound(ctx, st, &format!("ranksmall{}", k), ok, format!("{} bytes for {} bits", p, len));
                    format!("ok {}", p)
                }
                None => "panic".into(),
            }
        }
        "select9" => {
            let (len, ones, mode) = (num(1), num(2), num(3));
            match catch(|| m_select9(make_bits_ones(len, ones, mode))) {
                Some(m) => {
                    let p = payload(ctx, st, "select9", m);
                    // a further 37.5% plus three words
                    bound(ctx, st, "select9", 8 * p * 8 <= 3 * len + 8 * 192, format!("{} bytes for {} bits", p, len));
                    format!("ok {}", p)
                }
                None => "panic".into(),
            }
        }
        "ef" => {
            let (n, u) = (num(1), num(2));
            match catch(|| m_ef(n, u)) {
                Some((m, l)) => {
                    let p = payload(ctx, st, "ef", m);
                    // n(2 + max(0, lg(u/n))) bits + 128 (the sentinel bit and less than two words
                    // of rounding: the constant of theorem `ef_words_le`); lg via floats only in
                    // this oracle
                    // (n = 0: 0 bits + 128; an empty sequence takes two words since /repo 76fce19)
                    let lg = if n > 0 && u > n { (u as f64 / n as f64).log2() } else { 0.0 };
                    let lim = n as f64 * (2.0 + lg) + 128.0;
                    bound(ctx, st, "ef", (p * 8) as f64 <= lim * (1.0 + 1e-12), format!("{} bytes for n={} u={}", p, n, u));
                    format!("ok {} {}", p, l)
                }
                None => "panic".into(),
            }
        }
        "vbuild" => {
            let (kind, logic, w, backend, n, b, start) = (t[1], t[2], num(3), t[4], num(5), num(6), num(7));
            let key = vkey(kind, logic, w, backend);
            match catch(|| vbuild(kind, logic, w, backend, n, b, start)) {
                Some(Ok(info)) => {
                    st.last = Some((key, info, n));
                    "ok".into()
                }
                Some(Err(e)) => {
                    st.last = None;
                    format!("err {}", e.split(' ').next().unwrap_or(""))
                }
                None => {
                    st.last = None;
                    "panic".into()
                }
            }
        }
        "vsize" => match st.last.clone() {
            Some((key, info, n)) => {
                let p = payload(ctx, st, &key, info.meas);
                let logic = t[2];
                let (shards, s, m) = (info.shards, info.s, info.max_shard);
                let cells = info.cells as u128;
                let class = if is_mwhc(logic) { "mwhc" } else if logic.starts_with("noshards") { "noshards" } else { logic };
                let unsharded = logic.starts_with("noshards") || logic == "mwhcnoshards";
                let mm = if unsharded { n } else { m };
                let detail = format!("{} cells for n={} (s={} l={} shards={})", cells, n, s, info.l, shards);
                // (hypotheses of the theorem hold, additive cells for the 1.23 bound, for the 1.135 bound)
                let (hyp, add123, add1135) = if is_mwhc(logic) {
                    // MWHC: c = 1.23 always; info.l carries seg_size
                    let v = (((mm as f64 * 1.23) / 3.).ceil() as usize).max(1);
                    let seg_exp = if shards > 1 { v.next_multiple_of(128) } else { v };
                    ctx.check_oracle(&format!("seg {}", seg_exp), &format!("seg {}", info.l));
                    ctx.check_oracle(&format!("cells {}", 3 * info.l * shards), &format!("cells {}", cells));
                    let hyp = info.l == seg_exp
                        && (shards * 100 * m) as u128 <= 101 * n as u128
                        && 300 * v as u128 <= 123 * mm as u128 + 300;
                    // three cells of rounding, or three segments rounded to 128 per shard
                    let add = if shards > 1 { (shards * 3 * 128) as u128 } else { 3 };
                    (hyp, add, add)
                } else {
                    let seg = 1usize << s;
                    let (cf, (cn, cd)) = oracle_c(logic, n, mm);
                    let v = (cf * mm as f64).ceil() as usize;
                    let l_exp = v.div_ceil(seg).saturating_sub(2).max(1);
                    ctx.check_oracle(&format!("l {}", l_exp), &format!("l {}", info.l));
                    let hyp = info.l == l_exp
                        && (shards * 100 * m) as u128 <= 101 * n as u128
                        && cd * v as u128 <= cn * mm as u128 + cd;
                    // The additive constant of the property ("a few words or blocks") is, for both
                    // bounds, three segments and one cell per shard (theorem c11_vfunc_123_all for
                    // 1.23; c11_vfunc_cells shows that one segment suffices for the sharded logic
                    // from 100 000 keys up).  With it FuseLge3NoShards, whose expansion factor
                    // decreases from 1.168 at 100 001 keys to 1.133 at 800 000, stays within
                    // 1.135 n + constant (excess of about one segment); see c11_noshards_exceeds_1135
                    // for the exact figures.
                    ((hyp), (shards * (3 * seg + 1)) as u128, (shards * (3 * seg + 1)) as u128)
                };
                bound(ctx, st, "vfunc-1.23", 100 * cells <= 123 * n as u128 + 100 * add123, detail.clone());
                if n >= 100_000 {
                    bound(ctx, st, &format!("vfunc-1.135-{}", class), 1000 * cells <= 1135 * n as u128 + 1000 * add1135, detail);
                }
                // imbalance actually met, in units of 0.01 %
                if shards > 1 {
                    let imb = (m * shards * 10000) / n.max(1);
                    ctx.stat(&format!("imbalance-bp:{}", if imb <= 10044 { "<=0.44%" } else if imb <= 10088 { "<=0.88%" } else { ">0.88%" }));
                }
                format!("ok {} {} {}", p, info.cells, b01(hyp))
            }
            None => "panic".into(),
        },
        _ => "bad-op".into(),
    };
    ctx.reply(&reply);
}

/// the `vsize` line for the structure built last
fn vsize_line(st: &St, kind: &str, logic: &str, w: usize, backend: &str, n: usize) -> Option<String> {
    let (_, info, _) = st.last.as_ref()?;
    let unsharded = logic.starts_with("noshards") || logic == "mwhcnoshards";
    let mm = if unsharded { n } else { info.max_shard };
    let v = if is_mwhc(logic) {
        (((mm as f64 * 1.23) / 3.).ceil() as usize).max(1)
    } else {
        let (cf, _) = oracle_c(logic, n, mm);
        (cf * mm as f64).ceil() as usize
    };
    Some(format!(
        "vsize {} {} {} {} {} {} {} {} {} {} {}",
        kind, logic, w, backend, n, info.b, info.shards, info.s, info.l, info.max_shard, v
    ))
}

fn vcase(ctx: &mut Ctx, st: &mut St, combo: (&str, &str, usize, &str), n: usize, b: usize, start: usize) {
    let (kind, logic, w, backend) = combo;
    // The MWHC logics never terminate on some tiny key sets, whatever the seed (reported as a
    // finding; these input classes are not generated):
    //  * 2 keys (both logics): seg_size = ceil(2 * 1.23 / 3) = 1, both keys get the edge [0, 1, 2];
    //  * 4 keys, Mwhc3NoShards: seg_size = 2 and the third vertex is a function of the first two
    //    (top bit of sig[0] ^ sig[1]), so only 4 edges exist and 4 keys need all of them: every
    //    vertex has degree 2 and nothing can be peeled.
    //  * 9 keys, Mwhc3NoShards: seg_size = 4, again a power of two, 16 possible edges
    //    (v0, v1, v0 ^ v1): no build observed to succeed (8 and 10 keys build at once).
    // The builder answers UnsolvableShard by retrying with a new seed, for ever.
    if is_mwhc(logic) && (n == 2 || n == 4 || n == 9) {
        ctx.stat("skipped:mwhc-tiny-never-terminates");
        return;
    }
    exec(ctx, st, &format!("vbuild {} {} {} {} {} {} {}", kind, logic, w, backend, n, b, start));
    if let Some(line) = vsize_line(st, kind, logic, w, backend, n) {
        exec(ctx, st, &line);
        ctx.stat(&format!("vregime:{}:{}", logic, regime(n)));
    }
}

/// (n, index into VCOMBOS) built by the quick tier above 10^4 keys
const QUICK_BIG: &[(usize, usize)] = &[
    (50_000, 0),
    (99_999, 2),
    (100_000, 0),
    (100_000, 2),
    (100_001, 0),
    (100_001, 1),
    (100_001, 2),
    (200_001, 0),
    (200_001, 3),
];

fn regime(n: usize) -> &'static str {
    match n {
        0..=2 => "tiny",
        3..=100 => "<=100",
        101..=99_999 => "<1e5",
        100_000 => "=1e5",
        100_001..=800_000 => "<=8e5",
        _ => ">8e5",
    }
}

fn lens(thorough: bool) -> Vec<usize> {
    let mut v = vec![0, 1, 2, 63, 64, 65, 127, 128, 129, 511, 512, 513, 1023, 1024, 1025];
    for k in [3usize, 4, 7, 8, 9, 15, 16, 17, 127, 128, 129, 1000, 2047, 2048] {
        v.push(k * 512);
        v.push(k * 512 + 1);
        v.push(k * 512 - 1);
    }
    let top = if thorough { 24 } else { 22 };
    for k in 6..=top {
        v.push((1usize << k) - 1);
        v.push(1usize << k);
        v.push((1usize << k) + 1);
    }
    v.push(3_000_000);
    v.sort();
    v.dedup();
    v
}

fn calibrate(ctx: &mut Ctx, st: &mut St) {
    ctx.case();
    ctx.shape("calib".into());
    for k in all_type_keys() {
        exec(ctx, st, &format!("calib {}", k));
    }
}

fn directed(ctx: &mut Ctx, st: &mut St) {
    let thorough = ctx.tier == Tier::Thorough;
    let ls = lens(thorough);
    // bit vectors and bit-field vectors
    ctx.case();
    ctx.shape("bitvec".into());
    for &l in &ls {
        exec(ctx, st, &format!("bitvec new {} 0", l));
    }
    for &(a, b) in &[(0usize, 0usize), (0, 1), (0, 64), (0, 65), (1, 63), (1, 64), (63, 1), (63, 2), (64, 1), (100, 1000), (511, 2), (0, 4097)] {
        exec(ctx, st, &format!("bitvec push {} {}", a, b));
        exec(ctx, st, &format!("bitvec resize {} {}", a, a + b));
        exec(ctx, st, &format!("bitvec resizes {} {}", a, a + 9 * b + 700));
        exec(ctx, st, &format!("bitvec extend {} {}", a, b));
        exec(ctx, st, &format!("bitvec extendx {} {}", a, b));
        exec(ctx, st, &format!("bitvec collect {} {}", a, b));
        exec(ctx, st, &format!("bitvec cap {} {}", a, b));
        exec(ctx, st, &format!("bitvec cap {} {}", a + b, b));
    }
    ctx.case();
    ctx.shape("bfv".into());
    for &wb in &[8usize, 16, 32, 64, 128] {
        for w in 0..=wb {
            for &len in &[0usize, 1, 2, 3, 63, 64, 65, 1000, 4097] {
                if (w % 7 == 0) || w + 2 >= wb || w <= 2 || len <= 3 {
                    exec(ctx, st, &format!("bfv {} {} new {} 0", wb, w, len));
                    exec(ctx, st, &format!("bfv {} {} unaligned {} 0", wb, w, len));
                }
            }
            exec(ctx, st, &format!("bfv {} {} push 0 {}", wb, w, 70));
            exec(ctx, st, &format!("bfv {} {} push 5 {}", wb, w, 1));
            exec(ctx, st, &format!("bfv {} {} resize 3 {}", wb, w, 131));
            exec(ctx, st, &format!("bfv {} {} resizes 3 {}", wb, w, 131));
            exec(ctx, st, &format!("bfv {} {} resizes {} {}", wb, w, 64 + w, 10_050));
            exec(ctx, st, &format!("bfv {} {} cap 10 {}", wb, w, 0));
            exec(ctx, st, &format!("bfv {} {} cap 10 {}", wb, w, 33));
        }
    }
    // out of domain: len * width overflows usize (debug build: panic)
    exec(ctx, st, &format!("bfv 64 64 new {} 0", 1usize << 58));
    exec(ctx, st, &format!("bfv 64 33 unaligned {} 0", 1usize << 60));
    exec(ctx, st, &format!("bfv 32 32 resize 3 {}", 1usize << 59));
    exec(ctx, st, &format!("bfv 8 8 new {} 0", 1usize << 61));
    // rank / select structures
    ctx.case();
    ctx.shape("rank9".into());
    for &l in &ls {
        for d in 0..5 {
            if d == 2 || l <= 66000 {
                exec(ctx, st, &format!("rank9 {} {}", l, d));
            }
        }
    }
    for k in 0..5 {
        ctx.case();
        ctx.shape(format!("ranksmall{}", k));
        for &l in &ls {
            exec(ctx, st, &format!("ranksmall {} {} {}", k, l, (l + k) % 5));
        }
        // every block boundary of the variant
        let blk = rs_params(k).1;
        for m in [1usize, 2, 3, 5] {
            for d in [0usize, 1, 2] {
                exec(ctx, st, &format!("ranksmall {} {} {}", k, m * blk + d - 1, 2));
            }
        }
    }
    ctx.case();
    ctx.shape("select9".into());
    for &l in &ls {
        let mut os = vec![0usize, 1, 2, 511, 512, 513, 1024, 1025, l / 2, l / 64, l.saturating_sub(1), l];
        os.retain(|&o| o <= l);
        os.sort();
        os.dedup();
        for (i, &o) in os.iter().enumerate() {
            if l <= 70000 || i % 3 == 0 || o == l {
                exec(ctx, st, &format!("select9 {} {} {}", l, o, (i + l) % 2));
            }
        }
    }
    if thorough {
        ctx.case();
        ctx.shape("upper-counts".into());
        // more than one upper count: 2^32 + 1 bits (zero pages, nothing is written)
        exec(ctx, st, &format!("ranksmall 4 {} 0", (1usize << 32) + 1));
        exec(ctx, st, &format!("ranksmall 3 {} 0", (1usize << 32) + 64));
    }
    // Elias-Fano: all (n, u) classes
    ctx.case();
    ctx.shape("ef".into());
    // the empty sequence: two words whatever u (u + 1 upper bits before /repo 76fce19)
    for &u in &[0usize, 1, 2, 62, 63, 64, 127, 128, 1000, 100_000, 10_000_000, 1 << 63, usize::MAX - 1, usize::MAX] {
        exec(ctx, st, &format!("ef 0 {}", u));
    }
    let ns: &[usize] = if thorough {
        &[1, 2, 3, 5, 7, 63, 64, 65, 100, 1000, 4097, 100_000, 1_000_000, 3_000_000]
    } else {
        &[1, 2, 3, 5, 7, 63, 64, 65, 100, 1000, 4097, 100_000, 1_000_000]
    };
    for &n in ns {
        let mut us: Vec<usize> = vec![0, 1, n / 2, n - 1, n, n + 1, 2 * n - 1, 2 * n, 2 * n + 1];
        let mut k = 2;
        while k < 64 && (n as u128) << k < (1u128 << 64) {
            if n <= 100 || k % 5 == 0 || k <= 4 {
                let base = n << k;
                us.push(base - 1);
                us.push(base);
                us.push(base + 1);
            }
            k += 1;
        }
        if n <= 4097 {
            us.extend_from_slice(&[usize::MAX, usize::MAX - 1, 1usize << 63, (1usize << 63) - 1, (1usize << 63) + 1]);
        }
        us.sort();
        us.dedup();
        for u in us {
            exec(ctx, st, &format!("ef {} {}", n, u));
        }
    }
    // functions and filters: every regime switch
    ctx.case();
    ctx.shape("vfunc-small".into());
    for n in 0..=300usize {
        let combo = VCOMBOS[n % 4];
        vcase(ctx, st, (combo.0, combo.1, combo.2, combo.3), n, 1 + n % 64, 0);
        if n <= 12 || (99..=102).contains(&n) {
            for c in vcombos() {
                let b = if c.3 == "box" { c.2 } else { 1 + (n * 7) % c.2 };
                vcase(ctx, st, (c.0, c.1, c.2, c.3), n, b, 1000);
            }
        }
    }
    ctx.case();
    ctx.shape("vfunc-regimes".into());
    let mut big: Vec<usize> = vec![1000, 9_999, 10_000, 49_999, 50_000, 99_999, 100_000, 100_001, 150_000, 200_001];
    if thorough {
        big.extend_from_slice(&[400_000, 799_999, 800_000, 800_001, 1_000_000]);
    }
    for (i, &n) in big.iter().enumerate() {
        for (j, c) in vcombos().iter().enumerate() {
            // thorough: all four logics with the bit-field backend at every size, the other
            // combinations rotate (all of them up to 200 001 keys).
            // quick (time budget: a 10^5-key build takes ~0.8 s in the checked profile): all four
            // logics up to 10^4 keys; at the regime switches only the builds listed in QUICK_BIG
            let take = if thorough {
                j < 4 || (i + j) % 4 == 0 || n <= 200_001
            } else if n <= 10_000 {
                j < 4 || (i + j) % 4 == 0
            } else {
                QUICK_BIG.contains(&(n, j))
            };
            // FuseLge3NoShards between 100 001 and 800 000 keys: see `findings` below
            // and the MWHC logics from 100 000 keys
            if take && !(c.1.starts_with("noshards") && (100_001..=800_000).contains(&n)) && !(is_mwhc(c.1) && n >= 100_000) {
                let b = if c.3 == "box" { c.2 } else { [1usize, 5, 8, 13, 21, 32, 64][(i + j) % 7].min(c.2) };
                vcase(ctx, st, (c.0, c.1, c.2, c.3), n, b, 7 * n);
            }
        }
    }
    findings(ctx, st);
    ctx.case();
    ctx.shape("vfilter-width".into());
    // out of domain: filter widths the builder rejects
    exec(ctx, st, "vbuild filter shards 64 bfv 10 0 0");
    exec(ctx, st, "vbuild filter shards 64 bfv 10 65 0");
    exec(ctx, st, "vbuild filter noshards1 32 bfv 10 33 0");
}

/// Input classes on which the implementation exceeds the documented 1.135 n b bits (known
/// findings); each in a case of its own so that the classification of ./check (first mismatch of
/// a case) sees them separately and nothing else hides behind them.
fn findings(ctx: &mut Ctx, st: &mut St) {
    let thorough = ctx.tier == Tier::Thorough;
    // (F3) FuseLge3NoShards uses c = 0.168 + lnln(300000)/lnln(n + 200000) (1.168 at 100 001 keys,
    // 1.133 at 800 000) between 100 001 and 800 000 keys: above 1.135 n b from 100 000 keys upward
    ctx.case();
    ctx.shape("finding-noshards-1.135".into());
    let ns: &[usize] = if thorough { &[100_001, 150_000, 200_001, 400_000, 700_000, 799_999, 800_000] } else { &[100_001] };
    for &n in ns {
        vcase(ctx, st, ("func", "noshards2", 64, "bfv"), n, 5, 7 * n);
        vcase(ctx, st, ("func", "noshards1", 64, "bfv"), n, 8, 7 * n);
        if thorough && n <= 200_001 {
            vcase(ctx, st, ("filter", "noshards1", 8, "box"), n, 8, 7 * n);
        }
    }
    // (F4) the MWHC logics use c = 1.23 for every n: above 1.135 n b from 100 000 keys upward
    if !MWHC_COMBOS.is_empty() {
        ctx.case();
        ctx.shape("finding-mwhc-1.135".into());
        let ns: &[usize] = if thorough { &[100_000, 100_001, 200_001, 1_000_000] } else { &[100_000] };
        for &n in ns {
            vcase(ctx, st, ("func", "mwhcnoshards", 64, "bfv"), n, 5, 7 * n);
            vcase(ctx, st, ("func", "mwhcshards", 64, "bfv"), n, 8, 7 * n);
            if thorough && n <= 200_001 {
                vcase(ctx, st, ("filter", "mwhcnoshards", 8, "box"), n, 8, 7 * n);
            }
        }
    }
}

fn random(ctx: &mut Ctx, st: &mut St) {
    let thorough = ctx.tier == Tier::Thorough;
    let rounds = if thorough { 4000 } else { 600 };
    let maxlen: u64 = if thorough { 1 << 24 } else { 1 << 22 };
    for r in 0..rounds {
        if r % 50 == 0 {
            ctx.case();
            ctx.shape(format!("random{}", r / 50 % 4));
        }
        // a length biased to boundaries
        let len = match ctx.rng.below(6) {
            0 => ctx.rng.below(600) as usize,
            1 => (ctx.rng.below(4000) * 512 + ctx.rng.below(3)) as usize,
            2 => ((1u64 << (6 + ctx.rng.below(17))) + ctx.rng.below(3)) as usize - 1,
            3 => (ctx.rng.below(40) * 8192 + ctx.rng.below(3)) as usize,
            _ => ctx.rng.below(maxlen) as usize,
        };
        match ctx.rng.below(10) {
            0 => {
                let b = ctx.rng.below(300) as usize;
                let mode = *ctx.rng.pick(&["new", "push", "resize", "cap", "extend", "extendx", "collect"]);
                let a = if mode == "new" { len } else { len % 5000 };
                let b2 = if mode == "resize" { a + b } else { b };
                exec(ctx, st, &format!("bitvec {} {} {}", mode, a, if mode == "new" { 0 } else { b2 }));
            }
            1 | 2 => {
                let wb = *ctx.rng.pick(&[8usize, 16, 32, 64, 128]);
                let w = match ctx.rng.below(4) {
                    0 => 0,
                    1 => wb,
                    _ => ctx.rng.below(wb as u64 + 1) as usize,
                };
                let mode = *ctx.rng.pick(&["new", "unaligned", "push", "resize", "cap", "extend"]);
                let a = if mode == "new" || mode == "unaligned" { len % 200_000 } else { len % 3000 };
                let b = ctx.rng.below(500) as usize;
                let b2 = match mode {
                    "new" | "unaligned" => 0,
                    "resize" => a + b,
                    _ => b,
                };
                if ctx.rng.chance(1, 40) {
                    // out of domain: len * width overflows
                    exec(ctx, st, &format!("bfv {} {} new {} 0", wb, wb, (1usize << 61) + a));
                } else {
                    exec(ctx, st, &format!("bfv {} {} {} {} {}", wb, w, mode, a, b2));
                }
            }
            3 => {
                let d = ctx.rng.below(5);
                exec(ctx, st, &format!("rank9 {} {}", len, d))
            }
            4 | 5 => {
                let k = ctx.rng.below(5);
                let d = ctx.rng.below(5);
                exec(ctx, st, &format!("ranksmall {} {} {}", k, len, d));
            }
            6 => {
                let len = len % (1 << 21);
                let ones = match ctx.rng.below(5) {
                    0 => 0,
                    1 => len,
                    2 => (ctx.rng.below(8) * 512 + ctx.rng.below(3)).min(len as u64) as usize,
                    _ => ctx.rng.below(len as u64 + 1) as usize,
                };
                let md = ctx.rng.below(2);
                exec(ctx, st, &format!("select9 {} {} {}", len, ones, md));
            }
            7 | 8 => {
                let n = match ctx.rng.below(4) {
                    0 => 1 + ctx.rng.below(10) as usize,
                    1 => 1 + ctx.rng.below(1000) as usize,
                    _ => 1 + ctx.rng.below(200_000) as usize,
                };
                let u = match ctx.rng.below(5) {
                    0 => ctx.rng.below(n as u64 + 1) as usize,
                    1 => {
                        let k = ctx.rng.below(64 - (64 - (n as u64).leading_zeros() as u64));
                        ((n << k) as u64 + ctx.rng.below(3)) as usize - 1
                    }
                    2 => usize::MAX - ctx.rng.below(1000) as usize,
                    3 => ctx.rng.next_u64() as usize >> ctx.rng.below(64),
                    _ => n * (1 + ctx.rng.below(100000) as usize),
                };
                if ctx.rng.chance(1, 30) {
                    let sh = ctx.rng.below(64);
                    let u0 = ctx.rng.next_u64() >> sh;
                    exec(ctx, st, &format!("ef 0 {}", u0));
                } else {
                    exec(ctx, st, &format!("ef {} {}", n, u));
                }
            }
            _ => {
                let all = vcombos();
                let c = *ctx.rng.pick(&all);
                let n = match ctx.rng.below(8) {
                    0 => ctx.rng.below(8) as usize,
                    1 => 95 + ctx.rng.below(12) as usize,
                    2 | 3 => 3 + ctx.rng.below(3000) as usize,
                    4 => if thorough { 99_990 + ctx.rng.below(20) as usize } else { 3 + ctx.rng.below(20_000) as usize },
                    _ => 3 + ctx.rng.below(if thorough { 120_000 } else { 30_000 }) as usize,
                };
                // finding class F3 is covered by its directed case
                let n = if c.1.starts_with("noshards") && n > 100_000 { 100_000 } else { n };
                let n = if is_mwhc(c.1) && n >= 100_000 { 99_999 } else { n };
                let b = if c.3 == "box" { c.2 } else { 1 + ctx.rng.below(c.2 as u64) as usize };
                let start = ctx.rng.below(1 << 40) as usize;
                if ctx.rng.chance(1, 25) && c.0 == "filter" && c.3 == "bfv" {
                    let bb = c.2 + 1 + ctx.rng.below(3) as usize;
                    exec(ctx, st, &format!("vbuild {} {} {} {} {} {} {}", c.0, c.1, c.2, c.3, n, bb, start));
                } else {
                    vcase(ctx, st, c, n, b, start);
                }
            }
        }
    }
}

pub fn run(ctx: &mut Ctx) {
    let mut st = St { headers: BTreeMap::new(), last: None, reported: Default::default() };
    calibrate(ctx, &mut st);
    directed(ctx, &mut st);
    random(ctx, &mut st);
}

pub fn replay(ctx: &mut Ctx, lines: &[String]) {
    let mut st = St { headers: BTreeMap::new(), last: None, reported: Default::default() };
    // headers are needed by every op: calibrate silently unless the trace does it itself
    for k in all_type_keys() {
        if let Some(m) = calib_meas(&k) {
            st.headers.insert(k, m.total - m.inner - m.arrays);
        }
    }
    for l in lines {
        if l.starts_with("case ") {
            ctx.case();
        } else {
            exec(ctx, &mut st, l);
        }
    }
}
